(** C14 — proofs: refinement of the slice-level buffer model to a bounded FIFO
    list over all operation histories, boundedness, FIFO order, JSON and
    snapshot/restore round trips, and the link between the two case evaluators. *)
From Akita Require Import Lib.Base Lib.Fifo C14.Model C14.Exec.

(** ------------------------------------------------------------------ *)
(** One call refines one step of the specification. *)
Lemma step_refines (b : buffer) (o : op) :
  sstep (abs b) o = (abs_out (fst (step b o)), abs (snd (step b o))).
Proof.
  destruct o as [e| | |e| | |l| | | | | |r| | |]; cbn [step sstep fst snd].
  - (* push *)
    rewrite <- push_abs. destruct (push e b) as [b'|]; reflexivity.
  - (* pop *)
    rewrite <- (pop_abs zero b). destruct (pop zero b) as [v b']. reflexivity.
  - rewrite <- peek_abs. reflexivity.
  - rewrite <- update_front_abs. reflexivity.
  - reflexivity.
  - reflexivity.
  - rewrite <- restore_abs. destruct (restore l b) as [b'|]; reflexivity.
  - reflexivity.
  - reflexivity.
  - rewrite can_push_abs. reflexivity.
  - reflexivity.
  - unfold marshal, abs_out, abs, content. cbn. reflexivity.
  - reflexivity.
  - reflexivity.
  - unfold marshal, unmarshal, abs_out, abs, content. cbn. destruct b; reflexivity.
  - (* snapshot + restore into a fresh buffer of the same name and capacity *)
    unfold restore, elements. cbn [new_buf b_cap abs s_list s_cap].
    destruct (b_cap b <? Z.of_nat (length (content b)))%Z eqn:E1,
             (Z.of_nat (length (content b)) <=? b_cap b)%Z eqn:E2; try lia; cbn [fst snd abs_out]; [reflexivity|].
    unfold abs, with_elems, content. cbn.
    destruct b as [n c [l|]]; cbn; [destruct l|]; reflexivity.
Qed.

(** Whole histories, from every start state. *)
Lemma run_refines (h : list op) : forall b : buffer,
  srun (abs b) h = (map abs_out (fst (run b h)), abs (snd (run b h))).
Proof.
  induction h as [|o r IH]; intro b; cbn [run srun]; [reflexivity|].
  rewrite step_refines. destruct (step b o) as [y b'] eqn:E. cbn [fst snd].
  rewrite IH. destruct (run b' r) as [ys b'']. reflexivity.
Qed.

(** ------------------------------------------------------------------ *)
(** Boundedness along histories.  [UnmarshalJSON] installs whatever the JSON text
    says, so the invariant needs the JSON objects fed to it to be well-formed
    (at most [cap] elements) — e.g. produced by [MarshalJSON] of a bounded buffer. *)
Definition dto_ok (o : op) : Prop :=
  match o with
  | OUnmarshal r => bounded (unmarshal (decode r))
  | _ => True
  end.

Lemma step_bounded (b : buffer) o : bounded b -> dto_ok o -> bounded (snd (step b o)).
Proof.
  intros Hb Hd.
  destruct o as [e| | |e| | |l| | | | | |r| | |]; cbn [step snd]; try exact Hb.
  - destruct (push e b) as [b'|] eqn:E; cbn [snd]; [eapply push_bounded; eauto|exact Hb].
  - pose proof (pop_bounded zero b Hb) as H. destruct (pop zero b); exact H.
  - apply update_front_bounded; exact Hb.
  - apply clear_bounded.
  - destruct (restore l b) as [b'|] eqn:E; cbn [snd]; [eapply restore_bounded; eauto|exact Hb].
  - exact Hd.
  - destruct (restore (elements b) (new_buf (b_name b) (b_cap b))) as [c|] eqn:E; cbn [snd];
      [eapply restore_bounded; eauto|exact Hb].
Qed.

Lemma run_bounded (h : list op) : forall b : buffer,
  bounded b -> Forall dto_ok h -> bounded (snd (run b h)).
Proof.
  induction h as [|o r IH]; intros b Hb Hf; cbn [run]; [exact Hb|].
  inversion Hf as [|? ? Ho Hr]; subst.
  pose proof (step_bounded b o Hb Ho) as Hs.
  destruct (step b o) as [y b']. cbn [snd] in Hs.
  specialize (IH b' Hs Hr). destruct (run b' r) as [ys b'']. exact IH.
Qed.

(** every intermediate state, not only the last one *)
Lemma run_bounded_prefix (h1 h2 : list op) (b : buffer) :
  bounded b -> Forall dto_ok (h1 ++ h2) -> bounded (snd (run b h1)).
Proof.
  intros Hb Hf. apply run_bounded; [exact Hb|].
  apply Forall_app in Hf. tauto.
Qed.

(** ------------------------------------------------------------------ *)
(** Push is refused exactly when full; an accepted push appends at the back. *)
Lemma push_step (b : buffer) e :
  (can_push b = true /\ fst (step b (OPush e)) = RUnit /\
     content (snd (step b (OPush e))) = content b ++ [e] /\
     b_cap (snd (step b (OPush e))) = b_cap b /\ b_name (snd (step b (OPush e))) = b_name b)
  \/ (can_push b = false /\ step b (OPush e) = (RPanic, b)).
Proof.
  cbn [step]. destruct (push e b) as [b'|] eqn:E.
  - left. cbn [fst snd]. split; [apply (push_some_iff e b); eauto|].
    split; [reflexivity|]. split; [eapply push_content; eauto|]. eapply push_cap; eauto.
  - right. split; [|reflexivity].
    destruct (can_push b) eqn:C; [|reflexivity].
    apply (push_some_iff e b) in C. destruct C as [b' Hb']. congruence.
Qed.

(** Pop/Peek return the oldest element, or the zero value on an empty buffer
    (which they leave untouched). *)
Lemma pop_step (b : buffer) :
  match content b with
  | [] => step b OPop = (RVal zero, b) /\ step b OPeek = (RVal zero, b)
  | x :: r => fst (step b OPop) = RVal x /\ content (snd (step b OPop)) = r /\
              step b OPeek = (RVal x, b)
  end.
Proof.
  cbn [step]. unfold pop, peek. destruct (content b) as [|x r] eqn:E; cbn [fst snd]; auto.
Qed.

(** ------------------------------------------------------------------ *)
(** FIFO order, stated on traces: for histories that only push, pop, peek and
    query, the elements that were in the buffer followed by the accepted pushes
    are exactly the values returned by pops of a non-empty buffer followed by what
    is still stored.  Nothing is lost, duplicated or reordered. *)
Definition queue_op (o : op) : Prop :=
  match o with
  | OPush _ | OPop | OPeek | OElements | OSize | OCapacity | OCanPush | OName | OMarshal
  | OUnmarshalBad | ORoundTrip => True
  | _ => False
  end.

(** accepted pushes / values popped from a non-empty buffer, in order *)
Fixpoint pushed (b : buffer) (h : list op) : list elem :=
  match h with
  | [] => []
  | o :: r =>
      (match o with OPush e => if can_push b then [e] else [] | _ => [] end)
        ++ pushed (snd (step b o)) r
  end.

Fixpoint popped (b : buffer) (h : list op) : list elem :=
  match h with
  | [] => []
  | o :: r =>
      (match o with OPop => match content b with [] => [] | x :: _ => [x] end | _ => [] end)
        ++ popped (snd (step b o)) r
  end.

Lemma run_snd_cons (b : buffer) o r : snd (run b (o :: r)) = snd (run (snd (step b o)) r).
Proof. cbn [run]. destruct (step b o) as [y b']. cbn [snd]. destruct (run b' r). reflexivity. Qed.

Lemma fifo_order (h : list op) : forall b : buffer,
  Forall queue_op h ->
  content b ++ pushed b h = popped b h ++ content (snd (run b h)).
Proof.
  induction h as [|o r IH]; intros b Hf.
  - cbn. rewrite app_nil_r. reflexivity.
  - inversion Hf as [|? ? Ho Hr]; subst.
    rewrite run_snd_cons. cbn [pushed popped].
    specialize (IH (snd (step b o)) Hr).
    destruct o; cbn [queue_op] in Ho; try contradiction;
      try (cbn [step snd] in *; cbn [app]; exact IH).
    + (* push *)
      destruct (push_step b e) as [[Hc [_ [Hcont _]]]|[Hc Hst]].
      * rewrite Hc. rewrite Hcont in IH. cbn [app]. rewrite <- IH. rewrite <- app_assoc. reflexivity.
      * rewrite Hc. rewrite Hst in *. cbn [snd app] in *. exact IH.
    + (* pop *)
      pose proof (pop_step b) as Hp. destruct (content b) as [|x l] eqn:E.
      * destruct Hp as [Hp _]. rewrite Hp in *. cbn [snd app] in *. rewrite E in IH. exact IH.
      * destruct Hp as [_ [Hp _]]. rewrite Hp in IH. cbn [app]. rewrite <- IH. reflexivity.
Qed.

(** ------------------------------------------------------------------ *)
(** JSON round trip and snapshot/restore. *)
Lemma roundtrip_step (b : buffer) : step b ORoundTrip = (RDto (marshal b), b).
Proof. cbn [step]. rewrite unmarshal_marshal. reflexivity. Qed.

Lemma unmarshal_step (b : buffer) r :
  snd (step b (OUnmarshal r)) = unmarshal (decode r) /\
  marshal (snd (step b (OUnmarshal r))) = decode r.
Proof. cbn [step snd]. split; [reflexivity|apply marshal_unmarshal]. Qed.

Lemma snap_restore_step (b : buffer) :
  bounded b -> (0 <= b_cap b)%Z ->
  fst (step b OSnapRestore) = RUnit /\ abs (snd (step b OSnapRestore)) = abs b.
Proof.
  intros Hb Hc. cbn [step].
  destruct (restore_elements b (new_buf (b_name b) (b_cap b)) Hb Hc eq_refl) as [c [Hr [H1 [H2 H3]]]].
  rewrite Hr. cbn [fst snd]. split; [reflexivity|].
  unfold abs. rewrite H1, H2, H3. reflexivity.
Qed.

(** The guard is needed: a JSON object with more elements than its capacity is
    accepted by UnmarshalJSON, and the buffer it produces cannot be snapshot/restored
    (Restore panics) — the C07 hand-crafted-checkpoint defect seen from the buffer. *)
Lemma oversize_unmarshal_then_restore_panics :
  let b0 : buffer := new_buf [66%N] 1 in
  let h := [OUnmarshal (mk_raw (Some [66%N]) (Some 1%Z) (Some [7%N; 8%N])); OSnapRestore; OSize] in
  fst (run b0 h) = [RUnit; RPanic; RInt 2].
Proof. vm_compute. reflexivity. Qed.

(** ------------------------------------------------------------------ *)
(** Link: agreement with the model implies the property predicate. *)
Lemma out_eqb_true a b : out_eqb a b = true -> a = b.
Proof.
  destruct a, b; cbn [out_eqb]; intro H; try discriminate; try reflexivity.
  - apply N.eqb_eq in H. subst. reflexivity.
  - apply Bool.eqb_prop in H. subst. reflexivity.
  - apply Z.eqb_eq in H. subst. reflexivity.
  - apply listN_eqb_eq in H. subst. reflexivity.
  - apply listN_eqb_eq in H. subst. reflexivity.
  - unfold dto_eqb in H. apply andb_true_iff in H. destruct H as [H H3].
    apply andb_true_iff in H. destruct H as [H1 H2].
    apply listN_eqb_eq in H1. apply Z.eqb_eq in H2.
    destruct d as [n c e], d0 as [n' c' e']. cbn in *. subst.
    destruct e as [l|], e' as [l'|]; cbn in H3; try discriminate; [|reflexivity].
    apply listN_eqb_eq in H3. subst. reflexivity.
Qed.

Lemma listN_eqb_refl l : listN_eqb l l = true.
Proof. apply listN_eqb_eq. reflexivity. Qed.

Lemma sout_eqb_refl a : sout_eqb a a = true.
Proof.
  destruct a; cbn [sout_eqb]; try reflexivity;
    try apply N.eqb_refl; try apply Z.eqb_refl; try apply listN_eqb_refl.
  - destruct b; reflexivity.
  - rewrite !listN_eqb_refl, Z.eqb_refl. reflexivity.
Qed.

Lemma len_ok_bounded (b : buffer) : len_ok (abs b) = true <-> bounded b.
Proof. unfold len_ok, bounded. cbn [abs s_list s_cap]. split; intro H; lia. Qed.

Lemma accepts_of_run (t : list (op * out)) : forall (b : buffer) ok,
  (ok = true -> bounded b) ->
  list_eqb out_eqb (fst (run b (map fst t))) (map snd t) = true ->
  accepts (abs b) ok t = true.
Proof.
  induction t as [|[o x] r IH]; intros b ok Hok H; [reflexivity|].
  cbn [map fst snd run] in H. cbn [accepts].
  rewrite step_refines.
  destruct (step b o) as [y b'] eqn:Es. cbn [fst snd].
  destruct (run b' (map fst r)) as [ys b''] eqn:Er. cbn [fst list_eqb] in H.
  apply andb_true_iff in H. destruct H as [Hy Hys].
  apply out_eqb_true in Hy. subst y.
  rewrite sout_eqb_refl. cbn [andb].
  set (ok' := match o with OUnmarshal _ => len_ok (abs b') | _ => ok end).
  assert (Hok' : ok' = true -> bounded b').
  { intro Ht. subst ok'.
    assert (Hb' : dto_ok o -> ok = true -> bounded b').
    { intros Hd Hk. pose proof (step_bounded b o (Hok Hk) Hd) as Hs. rewrite Es in Hs. exact Hs. }
    destruct o; try (apply Hb'; [exact I|exact Ht]).
    apply len_ok_bounded. exact Ht. }
  assert (Hchk : (if ok' then len_ok (abs b') else true) = true).
  { destruct ok' eqn:Eo; [|reflexivity]. apply len_ok_bounded. apply Hok'. reflexivity. }
  rewrite Hchk. cbn [andb].
  apply IH; [exact Hok'|]. rewrite Er. exact Hys.
Qed.

Lemma check_implies_holds c : check_case c = true -> holds_on c = true.
Proof.
  unfold check_case, holds_on. intro H.
  change (mk_spec (c_name c) (c_cap c) []) with (abs (new_buf (c_name c) (c_cap c) : buffer)).
  apply accepts_of_run; [intros _; apply bounded_new|exact H].
Qed.
