(** C14 — model of queueing/buffer.go and queueing/buffer_json.go for one
    [Buffer[uint64]] driven by an arbitrary history of API calls.

    The buffer operations themselves are in [Lib/Fifo.v] (shared with the port and
    connection models); this file fixes the element type ([uint64] as [N], zero
    value 0), the operation alphabet, the observable result of each call and the
    interpreter of a history.  A recovered Go panic is the result [RPanic] and leaves
    the buffer unchanged (both panics in buffer.go precede any assignment). *)
From Akita Require Import Lib.Base Lib.Fifo.

Definition elem := N.
Definition zero : elem := 0%N.
Definition buffer := buf (A := elem).

(** JSON text given to UnmarshalJSON, at the level of its three members: a member
    may be absent (or null), in which case encoding/json leaves the zero value in
    the fresh bufferState. *)
Record rawdto := mk_raw {
  r_name : option (list N); r_cap : option Z; r_elems : option (list elem) }.

Definition decode (r : rawdto) : dto (A := elem) :=
  mk_dto (match r_name r with Some n => n | None => [] end)
         (match r_cap r with Some c => c | None => 0%Z end)
         (r_elems r).

Inductive op :=
| OPush (e : elem)            (* PushTyped(e), panic recovered *)
| OPop | OPeek
| OUpdateFront (e : elem)
| OClear
| OElements
| ORestore (l : list elem)    (* Restore(l), panic recovered *)
| OSize | OCapacity | OCanPush | OName
| OMarshal                    (* MarshalJSON, observed as (name, cap, null-or-array) *)
| OUnmarshal (r : rawdto)     (* UnmarshalJSON of a well-formed object *)
| OUnmarshalBad               (* UnmarshalJSON of text encoding/json rejects: error, receiver untouched *)
| ORoundTrip                  (* b = fresh buffer . UnmarshalJSON(b.MarshalJSON()) *)
| OSnapRestore.               (* c = NewBuffer(b.Name(), b.Capacity()); c.Restore(b.Elements()); b = c *)

Inductive out :=
| RUnit | RPanic | RErr
| RVal (v : elem) | RBool (b : bool) | RInt (i : Z)
| RList (l : list elem) | RName (s : list N) | RDto (d : dto (A := elem)).

Definition step (b : buffer) (o : op) : out * buffer :=
  match o with
  | OPush e => match push e b with Some b' => (RUnit, b') | None => (RPanic, b) end
  | OPop => let '(v, b') := pop zero b in (RVal v, b')
  | OPeek => (RVal (peek zero b), b)
  | OUpdateFront e => (RUnit, update_front e b)
  | OClear => (RUnit, clear b)
  | OElements => (RList (elements b), b)
  | ORestore l => match restore l b with Some b' => (RUnit, b') | None => (RPanic, b) end
  | OSize => (RInt (size b), b)
  | OCapacity => (RInt (b_cap b), b)
  | OCanPush => (RBool (can_push b), b)
  | OName => (RName (b_name b), b)
  | OMarshal => (RDto (marshal b), b)
  | OUnmarshal r => (RUnit, unmarshal (decode r))
  | OUnmarshalBad => (RErr, b)
  | ORoundTrip => (RDto (marshal b), unmarshal (marshal b))
  | OSnapRestore =>
      match restore (elements b) (new_buf (b_name b) (b_cap b)) with
      | Some c => (RUnit, c)
      | None => (RPanic, b)
      end
  end.

Fixpoint run (b : buffer) (h : list op) : list out * buffer :=
  match h with
  | [] => ([], b)
  | o :: r => let '(x, b') := step b o in
              let '(xs, b'') := run b' r in (x :: xs, b'')
  end.

(** ------------------------------------------------------------------ *)
(** The abstract bounded-FIFO specification of the same alphabet: state
    [(name, cap, list)], no slice, no nil/empty distinction.  A result that
    carries a JSON form is specified up to that distinction ([SDto]). *)
Definition fspec := spec (A := elem).

Inductive sout :=
| SUnit | SRefused | SErr
| SVal (v : elem) | SBool (b : bool) | SInt (i : Z)
| SList (l : list elem) | SName (s : list N) | SDto (name : list N) (cap : Z) (l : list elem).

Definition sstep (s : fspec) (o : op) : sout * fspec :=
  match o with
  | OPush e => match s_push e s with Some s' => (SUnit, s') | None => (SRefused, s) end
  | OPop => let '(v, s') := s_pop zero s in (SVal v, s')
  | OPeek => (SVal (s_front zero s), s)
  | OUpdateFront e => (SUnit, s_update_front e s)
  | OClear => (SUnit, s_clear s)
  | OElements => (SList (s_list s), s)
  | ORestore l => match s_restore l s with Some s' => (SUnit, s') | None => (SRefused, s) end
  | OSize => (SInt (s_size s), s)
  | OCapacity => (SInt (s_cap s), s)
  | OCanPush => (SBool (negb (s_full s)), s)
  | OName => (SName (s_name s), s)
  | OMarshal => (SDto (s_name s) (s_cap s) (s_list s), s)
  | OUnmarshal r => (SUnit, abs (unmarshal (decode r)))
  | OUnmarshalBad => (SErr, s)
  | ORoundTrip => (SDto (s_name s) (s_cap s) (s_list s), s)
  | OSnapRestore =>
      if (Z.of_nat (length (s_list s)) <=? s_cap s)%Z then (SUnit, s) else (SRefused, s)
  end.

Fixpoint srun (s : fspec) (h : list op) : list sout * fspec :=
  match h with
  | [] => ([], s)
  | o :: r => let '(x, s') := sstep s o in
              let '(xs, s'') := srun s' r in (x :: xs, s'')
  end.

(** what the specification sees of an implementation-level result *)
Definition abs_out (x : out) : sout :=
  match x with
  | RUnit => SUnit | RPanic => SRefused | RErr => SErr
  | RVal v => SVal v | RBool b => SBool b | RInt i => SInt i
  | RList l => SList l | RName s => SName s
  | RDto d => SDto (d_name d) (d_cap d) (match d_elems d with Some l => l | None => [] end)
  end.
