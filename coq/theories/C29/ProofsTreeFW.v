(** C29 — on a tree the routing tables that C30's Floyd–Warshall computes ARE the
    up-then-down tree routes used by the tree instance of the channel network.

    The tree is given as in ProofsTreeNet (nodes [0..n-1], root 0, [par v < v]);
    the graph [g] handed to the router may number its nodes differently (the
    connector lists devices first, then switches): [lab] / [unlab] translate
    between the router's node indices and the tree's. *)
From Akita Require Import Lib.Base C30.Model C30.ProofsFW C29.Model C29.ProofsTreeNet.

Section TreeFW.
  Variable n : nat.
  Variable par : nat -> nat.
  Hypothesis par_lt : forall v, 0 < v < n -> par v < v.

  Local Notation path := (path n par).
  Local Notation depth := (depth n par).
  Local Notation anc := (anc n par).
  Local Notation toward := (toward n par).

  (** tree adjacency *)
  Definition tadj (a b : nat) : Prop := (0 < a /\ b = par a) \/ (0 < b /\ par b = a).

  (** the node a packet for [t] is sent to from node [u] (cf. [route]) *)
  Definition hopn (u t : nat) : nat :=
    if u =? t then u else if anc u t then toward u t else par u.

  Lemma route_hopn u t : route n par u t =
    if u =? t then Ej u else if anc u t then Down (hopn u t) else Up u.
  Proof. unfold route, hopn. destruct (u =? t); [reflexivity|]. destruct (anc u t); reflexivity. Qed.

  Lemma path_head t : t < n -> In t (path t).
  Proof. intro Ht. rewrite (path_unfold n par par_lt t Ht). left. reflexivity. Qed.

  Lemma path_le t x : t < n -> In x (path t) -> x <= t.
  Proof. intros Ht Hx. destruct (path_props n par par_lt t Ht) as [_ [H _]]. apply H. exact Hx. Qed.

  Lemma path_par : forall t c, t < n -> In c (path t) -> 0 < c -> In (par c) (path t).
  Proof.
    induction t as [t IH] using lt_wf_ind. intros c Ht Hin Hc.
    rewrite (path_unfold n par par_lt t Ht) in *. destruct (t =? 0) eqn:E.
    - destruct Hin as [<-|[]]. apply Nat.eqb_eq in E. lia.
    - apply Nat.eqb_neq in E. pose proof (par_lt t ltac:(lia)) as Hp.
      destruct Hin as [<-|Hin].
      + right. apply path_head. lia.
      + right. apply IH; auto; lia.
  Qed.

  Lemma anc_depth : forall t u, t < n -> In u (path t) -> u <> t -> depth u < depth t.
  Proof.
    induction t as [t IH] using lt_wf_ind. intros u Ht Hin Hne.
    pose proof Hin as Hin'. rewrite (path_unfold n par par_lt t Ht) in Hin'. destruct (t =? 0) eqn:E.
    - destruct Hin' as [<-|[]]. contradiction.
    - apply Nat.eqb_neq in E. pose proof (par_lt t ltac:(lia)) as Hp.
      destruct Hin' as [<-|Hin']; [contradiction|].
      rewrite (depth_step n par par_lt t ltac:(lia)).
      destruct (Nat.eq_dec u (par t)) as [->|Hne']; [lia|].
      specialize (IH (par t) Hp u ltac:(lia) Hin' Hne'). lia.
  Qed.

  (** the child of [u] on the path to [t] is unique *)
  Lemma toward_unique : forall t u c, t < n -> In c (path t) -> 0 < c -> par c = u -> toward u t = c.
  Proof.
    induction t as [t IH] using lt_wf_ind. intros u c Ht Hin Hc Hpar. unfold ProofsTreeNet.toward.
    pose proof (path_le t c Ht Hin) as Hct.
    pose proof Hin as Hin'. rewrite (path_unfold n par par_lt t Ht) in *. destruct (t =? 0) eqn:E.
    - destruct Hin' as [<-|[]]. apply Nat.eqb_eq in E. lia.
    - apply Nat.eqb_neq in E. pose proof (par_lt t ltac:(lia)) as Hp.
      pose proof (path_unfold n par par_lt (par t) ltac:(lia)) as Epp.
      destruct (path (par t)) as [|b r] eqn:Eq; [discriminate|]. injection Epp as Eb Er.
      change (before u (t :: b :: r)) with (if b =? u then t else before u (b :: r)).
      destruct Hin' as [<-|Hin'].
      + subst b. rewrite Hpar, Nat.eqb_refl. reflexivity.
      + assert (Hcp : In c (path (par t))) by (rewrite Eq; exact Hin').
        destruct (b =? u) eqn:Eu.
        * apply Nat.eqb_eq in Eu. exfalso. pose proof (path_le (par t) c ltac:(lia) Hcp).
          pose proof (par_lt c ltac:(lia)). lia.
        * specialize (IH (par t) Hp u c ltac:(lia) Hcp Hc Hpar). unfold ProofsTreeNet.toward in IH. rewrite Eq in IH. exact IH.
  Qed.

  (** across every tree link exactly one side routes towards the other *)
  Lemma edge_route c j : 0 < c < n -> j < n ->
    (anc c j = true -> hopn (par c) j = c) /\ (anc c j = false -> hopn c j = par c).
  Proof.
    intros Hc Hj. pose proof (par_lt c Hc) as Hp. split; intro A.
    - apply anc_In in A. pose proof (path_le j c Hj A).
      unfold hopn. assert (E : (par c =? j) = false) by (apply Nat.eqb_neq; lia). rewrite E.
      assert (A' : anc (par c) j = true) by (apply anc_In; apply path_par; auto; lia). rewrite A'.
      apply toward_unique; auto; lia.
    - unfold hopn. assert (E : (c =? j) = false).
      { apply Nat.eqb_neq. intros ->. assert (anc j j = true) by (apply anc_In; apply path_head; exact Hj). congruence. }
      rewrite E, A. reflexivity.
  Qed.

  Lemma tadj_route v w j : v < n -> w < n -> j < n -> tadj v w -> hopn v j = w \/ hopn w j = v.
  Proof.
    intros Hv Hw Hj [[H0 ->]|[H0 <-]].
    - destruct (edge_route v j ltac:(lia) Hj) as [H1 H2]. destruct (anc v j); [right; auto|left; auto].
    - destruct (edge_route w j ltac:(lia) Hj) as [H1 H2]. destruct (anc w j); [left; auto|right; auto].
  Qed.

  Lemma tadj_irrefl v : v < n -> ~ tadj v v.
  Proof. intros Hv [[H0 E]|[H0 E]]; pose proof (par_lt v ltac:(lia)); lia. Qed.

  Lemma hopn_adj v j : v < n -> j < n -> v <> j -> hopn v j < n /\ tadj v (hopn v j).
  Proof.
    intros Hv Hj Hne. unfold hopn. assert (E : (v =? j) = false) by (apply Nat.eqb_neq; exact Hne). rewrite E.
    destruct (anc v j) eqn:A.
    - apply anc_In in A. destruct (toward_props n par par_lt j v Hj A Hne) as [H1 [H2 _]].
      split; [lia|]. right. split; [lia|exact H1].
    - assert (H0 : 0 < v).
      { destruct (Nat.eq_dec v 0) as [->|]; [|lia]. exfalso.
        destruct (path_props n par par_lt j Hj) as [H0 _]. apply anc_In in H0. congruence. }
      pose proof (par_lt v ltac:(lia)). split; [lia|]. left. split; [exact H0|reflexivity].
  Qed.

  (** route length: the number of hops of the tree route from [v] to [j] *)
  Inductive rd (j : nat) : nat -> nat -> Prop :=
  | rd_here : rd j j 0
  | rd_hop v k : v <> j -> rd j (hopn v j) k -> rd j v (S k).

  Lemma rd_fun j v k k' : rd j v k -> rd j v k' -> k = k'.
  Proof.
    intro H. revert k'. induction H as [|v k Hne Hr IH]; intros k' H'.
    - inversion H'; subst; [reflexivity|contradiction].
    - inversion H'; subst; [contradiction|]. f_equal. apply IH. assumption.
  Qed.

  Definition mu (j v : nat) : nat := if anc v j then depth j - depth v else depth v + depth j + 1.

  Lemma rd_total j : j < n -> forall v, v < n -> exists k, rd j v k.
  Proof.
    intros Hj v. remember (mu j v) as m eqn:Hm. revert v Hm.
    induction m as [m IH] using lt_wf_ind. intros v Hm Hv.
    destruct (Nat.eq_dec v j) as [->|Hne]; [exists 0; constructor|].
    destruct (hopn_adj v j Hv Hj Hne) as [Hh _].
    assert (Hdec : mu j (hopn v j) < m).
    { subst m. unfold mu at 2. unfold hopn. assert (E : (v =? j) = false) by (apply Nat.eqb_neq; exact Hne). rewrite E.
      destruct (anc v j) eqn:A.
      - apply anc_In in A. destruct (toward_props n par par_lt j v Hj A Hne) as [H1 [H2 H3]].
        unfold mu. assert (A' : anc (toward v j) j = true) by (apply anc_In; exact H3). rewrite A'.
        pose proof (depth_step n par par_lt (toward v j) H2) as Hd. rewrite H1 in Hd.
        pose proof (anc_depth j v Hj A Hne). lia.
      - assert (H0 : 0 < v).
        { destruct (Nat.eq_dec v 0) as [->|]; [|lia]. exfalso.
          destruct (path_props n par par_lt j Hj) as [H0 _]. apply anc_In in H0. congruence. }
        pose proof (depth_step n par par_lt v ltac:(lia)) as Hd. unfold mu. destruct (anc (par v) j); lia. }
    destruct (IH _ Hdec (hopn v j) eq_refl Hh) as [k Hk]. exists (S k). constructor; assumption.
  Qed.

  (** route lengths of tree neighbours differ by at most one *)
  Lemma rd_edge j v w k k' : v < n -> w < n -> j < n -> tadj v w -> rd j v k -> rd j w k' -> k <= S k'.
  Proof.
    intros Hv Hw Hj Ht Hk Hk'.
    assert (Hself : forall a, hopn a a = a) by (intro a; unfold hopn; rewrite Nat.eqb_refl; reflexivity).
    assert (Hstep : forall a b ka kb, a <> j -> hopn a j = b -> rd j a ka -> rd j b kb -> ka = S kb).
    { intros a b ka kb Hne E Ha Hb. inversion Ha as [E0|v0 k0 Hne0 Hr0 E1 E2]; [congruence|].
      rewrite E in Hr0. f_equal. eapply rd_fun; eauto. }
    destruct (tadj_route v w j Hv Hw Hj Ht) as [E|E].
    - destruct (Nat.eq_dec v j) as [->|Hne].
      + rewrite Hself in E. subst w. exfalso. eapply tadj_irrefl; eauto.
      + rewrite (Hstep v w k k' Hne E Hk Hk'). lia.
    - destruct (Nat.eq_dec w j) as [->|Hne].
      + rewrite Hself in E. subst v. exfalso. eapply tadj_irrefl; eauto.
      + rewrite (Hstep w v k' k Hne E Hk' Hk). lia.
  Qed.

  (** * the router's graph *)
  Variable g : list (list nat).
  Variables lab unlab : nat -> nat.
  Hypothesis g_len : length g = n.
  Hypothesis lab_ok : forall v, v < n -> lab v < n /\ unlab (lab v) = v.
  Hypothesis unlab_ok : forall x, x < n -> unlab x < n /\ lab (unlab x) = x.
  (** the links of [g] are exactly the tree links (parallel links allowed) *)
  Hypothesis g_adj : forall v w, v < n -> (In w (nth v g []) <-> w < n /\ tadj (lab v) (lab w)).

  Lemma lab_inj v w : v < n -> w < n -> lab v = lab w -> v = w.
  Proof. intros Hv Hw E. rewrite <- (proj2 (lab_ok v Hv)), <- (proj2 (lab_ok w Hw)), E. reflexivity. Qed.

  (** no walk is shorter than the tree route *)
  Lemma walk_lower d : d < n -> forall v l, walk g n v d l -> v < n ->
    forall k, rd (lab d) (lab v) k -> k <= l.
  Proof.
    intros Hd v l H. induction H as [v d He|v w d l He Hw Hwalk IH]; intros Hv k Hk.
    - apply g_adj in He; [|exact Hv]. destruct He as [_ Ht].
      eapply (rd_edge (lab d) (lab v) (lab d) k 0); eauto; try apply lab_ok; auto. constructor.
    - apply g_adj in He; [|exact Hv]. destruct He as [_ Ht].
      destruct (rd_total (lab d) (proj1 (lab_ok d Hd)) (lab w) (proj1 (lab_ok w Hw))) as [k' Hk'].
      specialize (IH Hd Hw k' Hk').
      pose proof (rd_edge (lab d) (lab v) (lab w) k k' (proj1 (lab_ok v Hv)) (proj1 (lab_ok w Hw)) (proj1 (lab_ok d Hd)) Ht Hk Hk'). lia.
  Qed.

  (** the tree route is a walk of [g] *)
  Lemma walk_upper d : d < n -> forall x k, rd (lab d) x k -> x < n -> x <> lab d -> walk g n (unlab x) d k.
  Proof.
    intros Hd x k H. induction H as [|x k Hne Hr IH]; intros Hx Hne'; [contradiction|].
    destruct (hopn_adj x (lab d) Hx (proj1 (lab_ok d Hd)) Hne) as [Hh Ht].
    destruct (unlab_ok x Hx) as [Hux Elx]. destruct (unlab_ok _ Hh) as [Huh Elh].
    assert (He : In (unlab (hopn x (lab d))) (nth (unlab x) g [])).
    { apply g_adj; [exact Hux|]. split; [exact Huh|]. rewrite Elx, Elh. exact Ht. }
    destruct (Nat.eq_dec (hopn x (lab d)) (lab d)) as [E|E].
    - rewrite E in *. inversion Hr; subst; [|contradiction].
      rewrite (proj2 (lab_ok d Hd)) in He. apply walk_edge. exact He.
    - eapply walk_step; [exact He|exact Huh|apply IH; assumption].
  Qed.

  Variable t : table.
  Hypothesis Hfw : floyd_warshall g = Some t.

  (** the computed distance is the length of the tree route *)
  Lemma fw_dist_is_route v d k : v < n -> d < n -> rd (lab d) (lab v) k -> dist t v d = k.
  Proof.
    intros Hv Hd Hk. destruct (Nat.eq_dec v d) as [->|Hne].
    - rewrite (dist_diag g t Hfw d ltac:(rewrite g_len; exact Hd)). inversion Hk; subst; [reflexivity|contradiction].
    - assert (Hl : lab v <> lab d) by (intro E; apply Hne; apply lab_inj; auto).
      pose proof (walk_upper d Hd (lab v) k Hk (proj1 (lab_ok v Hv)) Hl) as Hw. rewrite (proj2 (lab_ok v Hv)) in Hw.
      rewrite <- g_len in Hw.
      destruct (fw_shortest g t Hfw v d ltac:(rewrite g_len; exact Hv) ltac:(rewrite g_len; exact Hd) Hne)
        as [[_ [_ Hno]]|[_ [Hwd Hmin]]]; [exfalso; apply Hno; exists k; exact Hw|].
      specialize (Hmin k Hw). rewrite g_len in Hwd.
      pose proof (walk_lower d Hd v _ Hwd Hv k Hk). lia.
  Qed.

  (** the next hop in the router's table is the tree route's next node *)
  Theorem fw_next_is_tree_route v d : v < n -> d < n -> v <> d ->
    exists p w, next t v d = Some (p, w) /\ nth_error (nth v g []) p = Some w /\ w < n /\
                lab w = hopn (lab v) (lab d) /\
                exists k, rd (lab d) (lab v) k /\ dist t v d = k.
  Proof.
    intros Hv Hd Hne.
    destruct (lab_ok v Hv) as [Hlv _]. destruct (lab_ok d Hd) as [Hld _].
    assert (Hl : lab v <> lab d) by (intro E; apply Hne; apply lab_inj; auto).
    destruct (rd_total (lab d) Hld (lab v) Hlv) as [k Hk].
    pose proof (fw_dist_is_route v d k Hv Hd Hk) as Hdist.
    pose proof (walk_upper d Hd (lab v) k Hk Hlv Hl) as Hw. rewrite (proj2 (lab_ok v Hv)) in Hw. rewrite <- g_len in Hw.
    destruct (next_hop_descends g t Hfw v d ltac:(rewrite g_len; exact Hv) ltac:(rewrite g_len; exact Hd) Hne (ex_intro _ k Hw))
      as [p [w [A [B [C E]]]]].
    rewrite g_len in C. exists p, w. split; [exact A|]. split; [exact B|]. split; [exact C|].
    split; [|exists k; auto].
    assert (Hin : In w (nth v g [])) by (eapply nth_error_In; exact B).
    apply g_adj in Hin; [|exact Hv]. destruct Hin as [_ Ht].
    destruct (lab_ok w C) as [Hlw _].
    destruct (rd_total (lab d) Hld (lab w) Hlw) as [kw Hkw].
    pose proof (fw_dist_is_route w d kw C Hd Hkw) as Hdw.
    destruct (tadj_route (lab v) (lab w) (lab d) Hlv Hlw Hld Ht) as [E1|E1]; [symmetry; exact E1|exfalso].
    destruct (Nat.eq_dec (lab w) (lab d)) as [Ewd|Ewd].
    - (* w = d: the route from d stays at d, so v = d *)
      rewrite Ewd in E1. unfold hopn in E1. rewrite Nat.eqb_refl in E1. congruence.
    - inversion Hkw as [E0|v0 k0 Hne0 Hr0 E2 E3]; [congruence|].
      rewrite E1 in Hr0. pose proof (rd_fun _ _ _ _ Hr0 Hk). lia.
  Qed.
End TreeFW.

(** * a decidable certificate that a router graph is a (re-labelled) tree *)
Definition tadjb (par : nat -> nat) (a b : nat) : bool :=
  ((0 <? a) && (b =? par a)) || ((0 <? b) && (par b =? a)).

Definition tree_certb (n : nat) (par : nat -> nat) (g : list (list nat)) (lab unlab : nat -> nat) : bool :=
  (length g =? n) &&
  forallb (fun v => par v <? v) (seq 1 (n - 1)) &&
  forallb (fun v =>
    (lab v <? n) && (unlab (lab v) =? v) && (unlab v <? n) && (lab (unlab v) =? v) &&
    forallb (fun w => w <? n) (nth v g []) &&
    forallb (fun w => Bool.eqb (existsb (Nat.eqb w) (nth v g [])) (tadjb par (lab v) (lab w))) (seq 0 n))
    (seq 0 n).

Lemma tadjb_spec par a b : tadjb par a b = true <-> tadj par a b.
Proof.
  unfold tadjb, tadj. rewrite orb_true_iff, !andb_true_iff, !Nat.ltb_lt, !Nat.eqb_eq. tauto.
Qed.

Lemma tree_cert_sound n par g lab unlab : tree_certb n par g lab unlab = true ->
  (forall v, 0 < v < n -> par v < v) /\ length g = n /\
  (forall v, v < n -> lab v < n /\ unlab (lab v) = v) /\
  (forall x, x < n -> unlab x < n /\ lab (unlab x) = x) /\
  (forall v w, v < n -> (In w (nth v g []) <-> w < n /\ tadj par (lab v) (lab w))).
Proof.
  unfold tree_certb. intro H. apply andb_true_iff in H. destruct H as [H H3].
  apply andb_true_iff in H. destruct H as [H1 H2]. apply Nat.eqb_eq in H1.
  rewrite forallb_forall in H2, H3.
  assert (Hv : forall v, v < n ->
     lab v < n /\ unlab (lab v) = v /\ unlab v < n /\ lab (unlab v) = v /\
     (forall w, In w (nth v g []) -> w < n) /\
     (forall w, w < n -> (In w (nth v g []) <-> tadj par (lab v) (lab w)))).
  { intros v Hlt. specialize (H3 v ltac:(apply in_seq; lia)).
    apply andb_true_iff in H3. destruct H3 as [H3 Hadj].
    apply andb_true_iff in H3. destruct H3 as [H3 Hrng].
    apply andb_true_iff in H3. destruct H3 as [H3 Hd].
    apply andb_true_iff in H3. destruct H3 as [H3 Hc].
    apply andb_true_iff in H3. destruct H3 as [Ha Hb].
    apply Nat.ltb_lt in Ha. apply Nat.eqb_eq in Hb. apply Nat.ltb_lt in Hc. apply Nat.eqb_eq in Hd.
    rewrite forallb_forall in Hrng, Hadj.
    split; [exact Ha|]. split; [exact Hb|]. split; [exact Hc|]. split; [exact Hd|]. split.
    - intros w Hw. specialize (Hrng w Hw). apply Nat.ltb_lt in Hrng. exact Hrng.
    - intros w Hw. specialize (Hadj w ltac:(apply in_seq; lia)). apply Bool.eqb_prop in Hadj. split.
      + intro Hin. apply tadjb_spec. rewrite <- Hadj. apply existsb_exists. exists w. split; [exact Hin|apply Nat.eqb_refl].
      + intro Ht. apply tadjb_spec in Ht. rewrite Ht in Hadj. apply existsb_exists in Hadj. destruct Hadj as [x [Hx E]].
        apply Nat.eqb_eq in E. subst. exact Hx. }
  split; [|split; [exact H1|split; [|split]]].
  - intros v Hlt. specialize (H2 v ltac:(apply in_seq; lia)). apply Nat.ltb_lt in H2. exact H2.
  - intros v Hlt. destruct (Hv v Hlt) as [A [B _]]. auto.
  - intros v Hlt. destruct (Hv v Hlt) as [_ [_ [A [B _]]]]. auto.
  - intros v w Hlt. destruct (Hv v Hlt) as [_ [_ [_ [_ [A B]]]]]. split.
    + intro Hin. pose proof (A w Hin). split; [assumption|]. apply B; assumption.
    + intros [Hw Ht]. apply B; assumption.
Qed.
