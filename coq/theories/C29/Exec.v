(** C29 — case evaluators: trace inclusion of REAL network runs in the acceptor,
    plus an exact tie of what happens inside the network (flit counts per
    message = C31's model, switches visited = C30's tables / mesh routing). *)
From Akita Require Import Lib.Base C30.Model C30.Exec C31.Model C31.Exec C29.Model C29.ProofsTreeNet C29.ProofsTreeFW.

(** compact event constructors used by the harness *)
Definition S (p : N) (m : meta) : event := DevSend p m.
Definition R (p : N) (m : meta) : event := DevRecv p m.
Definition E : event := End.

Record case := mk_case {
  c_kind : N;                   (* 0 generic connector, 1 PCIe tree (both Floyd–Warshall), 2 NVLink/PCIe hybrid (bandwidth-first), 3 mesh *)
  c_ops : list rop;             (* kinds 0-2: the generic-connector calls the connector issued, in order *)
  c_tiles : list N;             (* kind 3: tile coordinate of every device *)
  c_devports : list (list N);   (* per device (creation order): interned names of its ports *)
  c_flit : N; c_ov_num : N; c_ov_exp : N;
  c_msgs : list meta;           (* the messages *)
  c_trace : list event;         (* device-port events in simulation order, then E *)
  o_flits : list N;             (* per message: flits that left the source endpoint *)
  o_paths : list (list N);      (* per message: switches visited (index; coordinate code for mesh) *)
  o_uniform : bool;             (* every flit of a message took the same path *)
  c_par : list N; c_lab : list N; c_unlab : list N;
  c_width1 : bool;              (* every switch port has one lane (NumInputChannel = NumOutputChannel = 1) *)
  o_fifo : bool }.              (* through every switch, flits going from one input port to one output port left in arrival order *)
  (* kind 1 (PCIe): the tree the calls describe — parent of every tree node (switches in creation
     order, then devices), and the translation between the connector's node list and the tree *)

Definition owner_of (devports : list (list N)) (p : N) : option nat :=
  (fix go (l : list (list N)) (i : nat) : option nat :=
     match l with
     | [] => None
     | ps :: r => if existsb (N.eqb p) ps then Some i else go r (Datatypes.S i)
     end) devports O.

Definition enc_coord (c : coord) : N :=
  let '(x, y, z) := c in (Z.to_N x + 64 * Z.to_N y + 4096 * Z.to_N z)%N.

(** the switches a message from device [sd] to device [dd] visits *)
Definition model_path (c : case) (sd dd : nat) : option (list N) :=
  if (c_kind c =? 3)%N then
    let src := dec_coord (nth sd (c_tiles c) 0%N) in
    let dst := dec_coord (nth dd (c_tiles c) 0%N) in
    match mesh_route 200 src dst with
    | Some p => Some (map enc_coord (src :: p))
    | None => None
    end
  else
    let '(cn, ok) := apply_ops conn_empty (map dec_op (c_ops c)) in
    if ok then
      match (if (c_kind c =? 2)%N then establish_route_bf cn else establish_route cn) with
      | Some rt =>
          match nth_error (c_dev cn) sd with
          | Some (Some s, _) =>
              let '(p, reached) := follow (c_sw cn) rt (4 * (length (c_sw cn) + length (c_dev cn)) + 4) s dd in
              if reached then Some (map N.of_nat p) else None
          | _ => None
          end
      | None => None
      end
    else None.

Definition spec_of_case (c : case) : spec :=
  mk_spec (Z.of_N (c_flit c)) (c_ov_num c) (c_ov_exp c) 1 1 0 0.

Fixpoint check_msgs (c : case) (ms : list meta) (fl : list N) (ps : list (list N)) : bool :=
  match ms, fl, ps with
  | [], [], [] => true
  | m :: ms', f :: fl', p :: ps' =>
      opt_eqb Z.eqb (num_flits (spec_of_case c) (m_bytes m)) (Some (Z.of_N f)) &&
      match owner_of (c_devports c) (m_src m), owner_of (c_devports c) (m_dst m) with
      | Some sd, Some dd => opt_eqb (list_eqb N.eqb) (model_path c sd dd) (Some p)
      | _, _ => false
      end && check_msgs c ms' fl' ps'
  | _, _, _ => false
  end.

(** inside the network the real run did what the C30 / C31 models say *)
(** a PCIe network is a tree: the certificate of c29_tree_routes_are_c30_tables holds for the
    graph the connector hands to the router *)
Definition lookup (l : list N) (v : nat) : nat := N.to_nat (nth v l 0%N).

Definition tree_ok (c : case) : bool :=
  if (c_kind c =? 1)%N then
    let '(cn, ok) := apply_ops conn_empty (map dec_op (c_ops c)) in
    ok && tree_certb (length (graph_of cn)) (lookup (c_par c)) (graph_of cn) (lookup (c_lab c)) (lookup (c_unlab c)) &&
    (length (c_par c) =? length (graph_of cn))
  else true.

Definition check_case (c : case) : bool :=
  o_uniform c && check_msgs c (c_msgs c) (o_flits c) (o_paths c) && tree_ok c &&
  (* the one-FIFO-per-buffer-series abstraction (ProofsChain): order is kept through one-lane switches *)
  (negb (c_width1 c) || o_fifo c).

(** the property: the device-port trace is accepted and the run was closed *)
Definition ends_with_end (tr : list event) : bool :=
  match rev tr with End :: _ => true | _ => false end.

Definition holds_on (c : case) : bool :=
  accepts (c_trace c) && ends_with_end (c_trace c) &&
  (* every message of the case was actually handed to its port (the generator's obligation) *)
  (length (filter (fun e => match e with DevSend _ _ => true | _ => false end) (c_trace c)) =? length (c_msgs c)).
