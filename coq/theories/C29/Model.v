(** C29 — networks deliver every message exactly once with metadata intact.

    This file holds (1) the network ACCEPTOR over device-port events, the
    executable specification against which every real run is checked;
    (2) the bandwidth-first router of the NVLink/PCIe connector (all links of the
    connectors are ideal direct connections, i.e. of infinite bandwidth), so that
    the routes real traffic takes can be predicted; (3) an abstract network of
    bounded channels with an arbitration oracle, used for the conservation and
    progress theorems.  The endpoint is C31's model, the routing tables C30's. *)
From Akita Require Import Lib.Base C30.Model C31.Model.

(** * 1. The acceptor *)

Inductive event :=
| DevSend (port : N) (m : meta)     (* a device handed [m] to its port *)
| DevRecv (port : N) (m : meta)     (* a device took [m] from its port *)
| End.                              (* the run is over (devices kept draining) *)

Definition meta_eqb (a b : meta) : bool :=
  (m_id a =? m_id b)%N && (m_src a =? m_src b)%N && (m_dst a =? m_dst b)%N &&
  (m_rspto a =? m_rspto b)%N && (m_class a =? m_class b)%N && (m_bytes a =? m_bytes b)%Z.

Record acc := mk_acc {
  a_pending : list meta;      (* sent, not yet received *)
  a_ids : list N }.           (* every ID ever sent *)

Definition acc_init : acc := mk_acc [] [].

Definition mem_id (id : N) (l : list N) : bool := existsb (N.eqb id) l.

(** remove the (first) pending message with this ID *)
Fixpoint take (id : N) (l : list meta) : option (meta * list meta) :=
  match l with
  | [] => None
  | x :: r => if (m_id x =? id)%N then Some (x, r)
              else match take id r with Some (y, r') => Some (y, x :: r') | None => None end
  end.

Definition acc_step (a : acc) (e : event) : option acc :=
  match e with
  | DevSend p m =>
      (* the sender is the source port; message IDs are unique *)
      if (p =? m_src m)%N && negb (mem_id (m_id m) (a_ids a))
      then Some (mk_acc (a_pending a ++ [m]) (m_id m :: a_ids a)) else None
  | DevRecv p m =>
      match take (m_id m) (a_pending a) with
      | Some (sent, rest) =>
          if meta_eqb sent m && (p =? m_dst m)%N then Some (mk_acc rest (a_ids a)) else None
      | None => None                   (* never sent, or already delivered *)
      end
  | End => match a_pending a with [] => Some a | _ => None end
  end.

Fixpoint acc_run (a : acc) (tr : list event) : option acc :=
  match tr with
  | [] => Some a
  | e :: r => match acc_step a e with Some a' => acc_run a' r | None => None end
  end.

Definition accepts (tr : list event) : bool :=
  match acc_run acc_init tr with Some _ => true | None => false end.

(** * 2. The bandwidth-first router (nvlink connector) with ideal links

    [bandwidth] is -1 (unknown: 1 here) or +Inf (known: 0 here); the update
    [min(bw[i][k], bw[k][j]) > bw[i][j]] becomes [max d[i][k] d[k][j] < d[i][j]]. *)
Definition bf_init_cell (g : list (list nat)) (i j : nat) : cell :=
  let rem := nth i g [] in
  if i =? j then (0, match rem with v :: _ => Some (0, v) | [] => None end)
  else match find_remote rem j with
       | Some h => (0, Some h)
       | None => (1, None)
       end.

Definition bf_body (k i : nat) (t : table) (j : nat) : table :=
  let original := fst (get t i j) in
  let newd := Nat.max (fst (get t i k)) (fst (get t k j)) in
  if newd <? original then set t i j (newd, snd (get t i k)) else t.

Definition bandwidth_first (g : list (list nat)) : option table :=
  let n := length g in
  if forallb (fun r => negb (is_nil r)) g
  then Some (fold_left (fun t k => fold_left (fun t i => fold_left (bf_body k i) (seq 0 n) t) (seq 0 n) t)
                       (seq 0 n)
                       (map (fun i => map (fun j => bf_init_cell g i j) (seq 0 n)) (seq 0 n)))
  else None.

Definition establish_route_bf (c : conn) : option routes :=
  match bandwidth_first (graph_of c) with
  | Some t => table_to_route (length (c_dev c)) (length (c_sw c)) t
  | None => None
  end.

(** * 3. An abstract network of bounded FIFO channels

    A channel stands for any of the buffers a flit sits in on its way (endpoint
    flit buffer, port buffers, receive pipeline, route / forward / send-out
    buffers): a FIFO of capacity [cap c >= 1].  [next c d] is the channel the head
    packet of [c] moves to when its destination is [d] ([None] = it is handed to
    the device, which always accepts: devices keep draining).  Which channel
    moves next is chosen by an arbitrary arbitration oracle (a list of channel
    numbers); a move whose target is full, or from an empty channel, is
    disabled. *)
Definition pkt := (N * nat)%type.               (* message/flit id, destination *)

Record net := mk_net { n_chan : list (list pkt); n_done : list pkt }.

Section Net.
  Variable next : nat -> nat -> option nat.
  Variable cap : nat -> nat.

  Definition room (st : net) (c : nat) : bool := length (nth c (n_chan st) []) <? cap c.

  Definition move (st : net) (c : nat) : option net :=
    match nth c (n_chan st) [] with
    | [] => None
    | p :: q =>
        match next c (snd p) with
        | None => Some (mk_net (upd (n_chan st) c q) (n_done st ++ [p]))
        | Some c' =>
            if (c' <? length (n_chan st)) && negb (c' =? c) && room st c'
            then Some (mk_net (app_at (upd (n_chan st) c q) c' p) (n_done st))
            else None
        end
    end.

  (** a device injects a packet into channel [c] *)
  Definition inject (st : net) (c : nat) (p : pkt) : option net :=
    if (c <? length (n_chan st)) && room st c then Some (mk_net (app_at (n_chan st) c p) (n_done st)) else None.

  (** a schedule of enabled moves *)
  Fixpoint run (st : net) (cs : list nat) : option net :=
    match cs with
    | [] => Some st
    | c :: r => match move st c with Some st' => run st' r | None => None end
    end.
End Net.
