(** C29 — networks deliver every message exactly once with metadata intact.
    Property theorems only. *)
From Coq Require Import Permutation.
From Akita Require Import Lib.Base C30.Model C30.ProofsMesh C30.ProofsFW C31.Model C29.Model C29.ProofsAcc C29.ProofsNet C29.ProofsMeshRank C29.ProofsMeshNet C29.ProofsTreeNet C29.ProofsTreeFW C29.ProofsChain.

(** Soundness of the acceptor that every real run is checked against: a trace of
    device-port events that it accepts satisfies, at every position, the
    declarative statement [ok_event] about the history before it. *)
Theorem c29_accepts_sound : forall tr, accepts tr = true -> Declarative tr.
Proof. exact accepts_sound. Qed.
Print Assumptions c29_accepts_sound.

(** Metadata intact, only at the destination: every receive is at the port named
    by the message's destination and is IDENTICAL (ID, Src, Dst, RspTo,
    TrafficClass, TrafficBytes) to a message some device handed to its source
    port strictly earlier. *)
Theorem c29_metadata_intact : forall tr, accepts tr = true ->
  forall i p m, nth_error tr i = Some (DevRecv p m) ->
  p = m_dst m /\ exists j, j < i /\ nth_error tr j = Some (DevSend (m_src m) m).
Proof.
  intros tr H i p m Hn. destruct (accepts_sound tr H i _ Hn) as [Hp [Hs _]].
  split; [exact Hp|]. destruct (in_sent_firstn tr i m Hs) as [j [q [Hj Hq]]].
  exists j. split; [exact Hj|].
  destruct (accepts_sound tr H j _ Hq) as [Hq' _]. rewrite <- Hq'. exact Hq.
Qed.
Print Assumptions c29_metadata_intact.

(** Exactly once: no message (ID) is received twice, and no ID is sent twice, so
    the earlier send a receive matches is unique. *)
Theorem c29_no_duplicates : forall tr, accepts tr = true ->
  (forall i j p m p' m', i < j -> nth_error tr i = Some (DevRecv p m) ->
     nth_error tr j = Some (DevRecv p' m') -> m_id m <> m_id m') /\
  (forall i j p m p' m', i < j -> nth_error tr i = Some (DevSend p m) ->
     nth_error tr j = Some (DevSend p' m') -> m_id m <> m_id m').
Proof.
  intros tr H. split; intros i j p m p' m' Hij Hi Hj E.
  - destruct (accepts_sound tr H j _ Hj) as [_ [_ Hn]]. apply Hn. rewrite <- E.
    apply in_map. eapply recvd_firstn_in; eauto.
  - destruct (accepts_sound tr H j _ Hj) as [_ Hn]. apply Hn. rewrite <- E.
    apply in_map. eapply sent_firstn_in; eauto.
Qed.
Print Assumptions c29_no_duplicates.

(** Nothing outstanding at the end: every message sent before an [End] event has
    been received (by its destination, unchanged) before that [End]. *)
Theorem c29_all_delivered_at_end : forall tr, accepts tr = true ->
  forall k, nth_error tr k = Some End ->
  forall j p m, j < k -> nth_error tr j = Some (DevSend p m) ->
  exists i, i < k /\ nth_error tr i = Some (DevRecv (m_dst m) m).
Proof.
  intros tr H k Hk j p m Hj Hs. pose proof (accepts_sound tr H k _ Hk) as He. cbn [ok_event] in He.
  assert (Hin : In m (recvd (firstn k tr))) by (apply He; eapply sent_firstn_in; eauto).
  destruct (in_recvd_firstn tr k m Hin) as [i [q [Hi Hq]]]. exists i. split; [exact Hi|].
  destruct (accepts_sound tr H i _ Hq) as [Hq' _]. rewrite <- Hq'. exact Hq.
Qed.
Print Assumptions c29_all_delivered_at_end.

(** * The abstract network (bounded FIFO channels, arbitrary arbitration)

    [next] is the routing (which channel the head packet of a channel moves to,
    [None] = handed to the device, which always accepts), [cap] the capacities.
    Hypothesis [next_ok]: along every route the remaining-hops potential [pot]
    strictly decreases (loop-free routes: C30) and the channel [rank] strictly
    increases (a channel ordering; shown below for dimension-order mesh
    routing). *)
Section Abstract.
  Variables (next : nat -> nat -> option nat) (cap : nat -> nat) (nchan : nat).
  Variables (valid : nat -> nat -> Prop) (pot : nat -> nat -> nat) (rank : nat -> nat).
  Hypothesis cap_pos : forall c, 1 <= cap c.
  Hypothesis next_ok : forall c d c', valid c d -> next c d = Some c' ->
    valid c' d /\ c' < nchan /\ pot c' d < pot c d /\ rank c < rank c'.

  (** Conservation: whatever the arbitration does, nothing is lost and nothing is
      duplicated — the packets in the channels plus the packets handed to devices
      are always a permutation of the original ones. *)
  Theorem c29_conservation : forall cs st st', run next cap st cs = Some st' ->
    Permutation (all_pkts st) (all_pkts st').
  Proof. intros cs st st'. apply run_conserves. Qed.

  (** Progress: while anything is in flight some move is enabled (no deadlock),
      every move brings a packet strictly closer, so every execution has at most
      [measure st] moves, and an execution that cannot be extended has handed
      every packet to its device exactly once. *)
  Theorem c29_delivery_progress : forall st, wf nchan valid st ->
    (in_flight st <> [] -> exists c st', move next cap st c = Some st') /\
    (forall cs st', run next cap st cs = Some st' ->
       length cs + measure pot st' <= measure pot st /\
       ((forall c, move next cap st' c = None) ->
        in_flight st' = [] /\ Permutation (n_done st') (all_pkts st))) /\
    (exists cs st', run next cap st cs = Some st' /\ length cs <= measure pot st /\
                    in_flight st' = [] /\ Permutation (n_done st') (all_pkts st)).
  Proof.
    intros st Hw. split; [|split].
    - intro Hne. eapply no_deadlock; eauto.
    - intros cs st' Hr. split.
      + eapply run_bounded; eauto.
      + intro Hs. eapply maximal_run_delivers; eauto.
    - eapply delivering_run_exists; eauto.
  Qed.
End Abstract.
Print Assumptions c29_conservation.
Print Assumptions c29_delivery_progress.

(** The ranking hypothesis holds for the mesh: under dimension-order routing the
    output ports a packet uses have strictly increasing rank, the packet stays in
    the grid and gets strictly closer (so bounded buffers cannot deadlock). *)
Theorem c29_mesh_channel_ranking : forall size c dst c',
  mesh_valid size c dst -> mesh_next c dst = Some c' ->
  mesh_valid size c' dst /\
  (manhattan (fst c') dst < manhattan (fst c) dst)%Z /\
  (0 <= mesh_rank size c < mesh_rank size c')%Z.
Proof. exact mesh_channel_ranking. Qed.
Print Assumptions c29_mesh_channel_ranking.

(** * The mesh, concretely

    The abstract network instantiated with an [sx * sy * sz] grid (2D: [sz = 1]):
    one bounded channel per output port of every switch, numbered by its position
    in the enumeration of all (coordinate, direction) pairs; a packet on a port
    moves to the port that C30's model of meshRoutingTable.FindPort selects at the
    neighbouring switch, and is handed to the device from the local port.
    [mesh_initial size pkts] puts every message [(id, source tile, destination
    tile)] on the port its source switch selects.

    For EVERY grid size, EVERY positive channel capacities, EVERY set of messages
    between tiles of the grid and EVERY arbitration (schedule of moves) [cs]:
    nothing is lost or duplicated; the execution is finite (at most [measure]
    moves: total remaining Manhattan distance + 1 per message); wherever it
    stands, some move is enabled while a message is in flight (no deadlock, by
    [c29_mesh_channel_ranking]); and when no move is enabled, every message has
    been handed to its destination device exactly once. *)
Theorem c29_mesh_delivery_progress : forall size cap pkts,
  (forall c, 1 <= cap c) ->
  (forall p, In p pkts -> in_box size (snd (fst p)) /\ in_box size (snd p)) ->
  let st0 := mesh_initial size pkts in
  let msgs := map (fun p => (fst (fst p), node_no size (snd p))) pkts in
  (forall cs st', run (mnext size) cap st0 cs = Some st' ->
     Permutation (all_pkts st') msgs /\
     length cs <= measure (mpot size) st0 /\
     (in_flight st' <> [] -> exists c st'', move (mnext size) cap st' c = Some st'') /\
     ((forall c, move (mnext size) cap st' c = None) ->
      in_flight st' = [] /\ Permutation (n_done st') msgs)) /\
  (exists cs st', run (mnext size) cap st0 cs = Some st' /\ in_flight st' = [] /\ Permutation (n_done st') msgs).
Proof.
  intros size cap pkts Hcap Hin st0 msgs.
  pose proof (mesh_initial_wf size pkts Hin) as Hw. fold st0 in Hw.
  pose proof (mesh_initial_pkts size pkts Hin) as Hp. fold st0 in Hp. fold msgs in Hp.
  destruct (mesh_delivery_progress size cap Hcap st0 Hw) as [_ [Hrun Hex]].
  split.
  - intros cs st' Hr. destruct (Hrun cs st' Hr) as [Hc [Hb Hmax]].
    assert (Hw' : wf (mesh_nchan size) (mvalid size) st').
    { exact (run_wf (mnext size) cap (mesh_nchan size) (mvalid size) (mpot size) (mrank size) Hcap (mnext_ok size) cs st0 st' Hw Hr). }
    split; [etransitivity; [apply Permutation_sym; exact Hc|exact Hp]|].
    split; [lia|]. split.
    + intro Hne. exact (proj1 (mesh_delivery_progress size cap Hcap st' Hw') Hne).
    + intro Hs. destruct (Hmax Hs) as [H1 H2]. split; [exact H1|]. etransitivity; [exact H2|exact Hp].
  - destruct Hex as [cs [st' [Hr [_ [H1 H2]]]]]. exists cs, st'. split; [exact Hr|]. split; [exact H1|].
    etransitivity; [exact H2|exact Hp].
Qed.
Print Assumptions c29_mesh_delivery_progress.

(** Non-vacuity: a 2x2 mesh with one-slot channels and four messages (two
    crossing the grid in opposite directions, two sharing a source, one local);
    the first-enabled-port scheduler delivers all of them and then nothing can move. *)
Example c29_mesh_nonvacuous :
  let size := (2, 2, 1)%Z in
  let pkts := [(1%N, (0,0,0)%Z, (1,1,0)%Z); (2%N, (1,1,0)%Z, (0,0,0)%Z);
               (3%N, (0,0,0)%Z, (1,1,0)%Z); (4%N, (1,0,0)%Z, (1,0,0)%Z)] in
  mesh_nchan size = 28 /\
  move (mnext size) (fun _ => 1) (mesh_initial size pkts) 0 = None /\
  let '(cs, st) := greedy (mnext size) (fun _ => 1) 100 (mesh_initial size pkts) in
  cs = [3; 12; 3; 20; 23; 18; 6; 27; 12; 27] /\
  run (mnext size) (fun _ => 1) (mesh_initial size pkts) cs = Some st /\
  n_done st = [(4%N, 2); (2%N, 0); (1%N, 3); (3%N, 3)] /\ concat (n_chan st) = [].
Proof. vm_compute. repeat split; reflexivity. Qed.

(** * Trees (PCIe), concretely

    Nodes [0 .. n-1] (switches and, as leaves, the device endpoints), node 0 the
    root complex, [par v < v] the parent of [v > 0] — the shape every sequence of
    AddRootComplex / AddSwitch / PlugInDevice calls produces.  Each link has a
    bounded up channel and a bounded down channel, each node an ejection channel;
    a message goes up until the node it is at is an ancestor of its destination,
    then down (the unique shortest path).  The channel ranking: up channels by
    decreasing depth, then down channels by increasing depth, then ejection
    ([tree_channel_ranking]).

    For EVERY such tree, EVERY positive capacities, EVERY set of messages between
    nodes and EVERY arbitration [cs]: messages are conserved, the execution is
    finite, some move is enabled while anything is in flight, and when nothing
    can move every message has been handed to its destination exactly once. *)
Theorem c29_tree_delivery_progress : forall n par cap pkts,
  (forall v, 0 < v < n -> par v < v) ->
  (forall c, 1 <= cap c) ->
  (forall p, In p pkts -> snd (fst p) < n /\ snd p < n) ->
  let st0 := tree_initial n par pkts in
  let msgs := map (fun p => (fst (fst p), snd p)) pkts in
  (forall cs st', run (tnext n par) cap st0 cs = Some st' ->
     Permutation (all_pkts st') msgs /\
     length cs <= measure (tpot n par) st0 /\
     (in_flight st' <> [] -> exists c st'', move (tnext n par) cap st' c = Some st'') /\
     ((forall c, move (tnext n par) cap st' c = None) ->
      in_flight st' = [] /\ Permutation (n_done st') msgs)) /\
  (exists cs st', run (tnext n par) cap st0 cs = Some st' /\ in_flight st' = [] /\ Permutation (n_done st') msgs).
Proof.
  intros n par cap pkts Hpar Hcap Hin st0 msgs.
  pose proof (tree_initial_wf n par Hpar pkts Hin) as Hw. fold st0 in Hw.
  pose proof (tree_initial_pkts n par Hpar pkts Hin) as Hp. fold st0 in Hp. fold msgs in Hp.
  pose proof (tnext_ok n par Hpar) as Hok.
  split.
  - intros cs st' Hr.
    assert (Hw' : wf (tnchan n) (tvalid n par) st').
    { eapply run_wf; eauto. }
    split; [etransitivity; [apply Permutation_sym; eapply run_conserves; exact Hr|exact Hp]|].
    assert (Hb : length cs + measure (tpot n par) st' <= measure (tpot n par) st0) by (eapply run_bounded; eauto).
    split; [lia|].
    split.
    + intro Hne. eapply no_deadlock; eauto.
    + intro Hs. assert (Hm : in_flight st' = [] /\ Permutation (n_done st') (all_pkts st0)) by (eapply maximal_run_delivers; eauto).
      destruct Hm as [H1 H2].
      split; [exact H1|]. etransitivity; [exact H2|exact Hp].
  - assert (Hex : exists cs st', run (tnext n par) cap st0 cs = Some st' /\ length cs <= measure (tpot n par) st0 /\
                    in_flight st' = [] /\ Permutation (n_done st') (all_pkts st0)) by (eapply delivering_run_exists; eauto).
    destruct Hex as [cs [st' [Hr [_ [H1 H2]]]]].
    exists cs, st'. split; [exact Hr|]. split; [exact H1|]. etransitivity; [exact H2|exact Hp].
Qed.
Print Assumptions c29_tree_delivery_progress.

(** Non-vacuity: root 0 with switches 1, 2; leaves 3, 4 under 1 and 5 under 2;
    one-slot channels; four messages (across the root, into a sibling, local). *)
Example c29_tree_nonvacuous :
  let par := fun v => nth v [0; 0; 0; 1; 1; 2] 0 in
  let pkts := [(1%N, 3, 5); (2%N, 5, 4); (3%N, 3, 4); (4%N, 4, 4)] in
  (forall v, 0 < v < 6 -> par v < v) /\
  let '(cs, st) := greedy (tnext 6 par) (fun _ => 1) 100 (tree_initial 6 par pkts) in
  cs = [9; 3; 7; 9; 14; 13; 14; 15; 6; 4; 13; 14; 16; 17] /\
  run (tnext 6 par) (fun _ => 1) (tree_initial 6 par pkts) cs = Some st /\
  n_done st = [(4%N, 4); (3%N, 4); (2%N, 4); (1%N, 5)] /\ concat (n_chan st) = [].
Proof.
  cbv zeta. split.
  - intros v Hv. assert (C : v = 1 \/ v = 2 \/ v = 3 \/ v = 4 \/ v = 5) by lia.
    destruct C as [->|[->|[->|[->| ->]]]]; cbn; lia.
  - vm_compute. repeat split; reflexivity.
Qed.

(** * The tree routes ARE the routing tables the code computes

    [g] is the graph handed to the Floyd–Warshall router (any node numbering —
    the connector lists devices first, then switches), [lab] / [unlab] translate
    its node indices to the tree's ([par v < v], root 0) and back, and the links
    of [g] are exactly the tree links.  Then for every node [v] and every other
    node [d] the table entry computed by C30's model of floydwarshall.go names,
    through the recorded port, the neighbour [w] that is the next node of the
    up-then-down tree route ([hopn]: the parent of [v] unless [v] is an ancestor of
    [d], else the child of [v] on the path to [d]); the computed distance is the
    length of that route; and the channel the tree network of
    [c29_tree_delivery_progress] puts the packet on ([route]) leads to that same
    node.  (No ties exist on a tree, so iteration order and the strict [<] of the
    update cannot matter: this follows from c30_fw_shortest / c30_next_hop_descends
    and the fact that exactly one neighbour is closer.) *)
Theorem c29_tree_routes_are_c30_tables : forall n par g lab unlab t,
  (forall v, 0 < v < n -> par v < v) ->
  length g = n ->
  (forall v, v < n -> lab v < n /\ unlab (lab v) = v) ->
  (forall x, x < n -> unlab x < n /\ lab (unlab x) = x) ->
  (forall v w, v < n -> (In w (nth v g []) <-> w < n /\ tadj par (lab v) (lab w))) ->
  floyd_warshall g = Some t ->
  forall v d, v < n -> d < n -> v <> d ->
  exists p w, next t v d = Some (p, w) /\ nth_error (nth v g []) p = Some w /\ w < n /\
    lab w = hopn n par (lab v) (lab d) /\
    (exists k, rd n par (lab d) (lab v) k /\ dist t v d = k) /\
    match route n par (lab v) (lab d) with
    | Down c => c = lab w
    | Up u => u = lab v /\ par u = lab w
    | Ej _ => False
    end.
Proof.
  intros n par g lab unlab t Hpar Hlen Hlab Hunlab Hadj Hfw v d Hv Hd Hne.
  destruct (fw_next_is_tree_route n par Hpar g lab unlab Hlen Hlab Hunlab Hadj t Hfw v d Hv Hd Hne)
    as [p [w [A [B [C [D E]]]]]].
  exists p, w. split; [exact A|]. split; [exact B|]. split; [exact C|]. split; [exact D|]. split; [exact E|].
  rewrite route_hopn. unfold hopn in *.
  assert (Hl : (lab v =? lab d) = false).
  { apply Nat.eqb_neq. intro Eq. apply Hne. rewrite <- (proj2 (Hlab v Hv)), <- (proj2 (Hlab d Hd)), Eq. reflexivity. }
  rewrite Hl in *. destruct (anc n par (lab v) (lab d)); [symmetry; exact D|split; [reflexivity|symmetry; exact D]].
Qed.
Print Assumptions c29_tree_routes_are_c30_tables.

(** The hypotheses are decidable for a concrete graph: [tree_certb] checks them. *)
Theorem c29_tree_certificate_sound : forall n par g lab unlab, tree_certb n par g lab unlab = true ->
  (forall v, 0 < v < n -> par v < v) /\ length g = n /\
  (forall v, v < n -> lab v < n /\ unlab (lab v) = v) /\
  (forall x, x < n -> unlab x < n /\ lab (unlab x) = x) /\
  (forall v w, v < n -> (In w (nth v g []) <-> w < n /\ tadj par (lab v) (lab w))).
Proof. exact tree_cert_sound. Qed.
Print Assumptions c29_tree_certificate_sound.

(** Non-vacuity on a network as the PCIe connector builds it (root complex with
    the CPU, two switches below it, devices below those; the connector's node
    list is devices 0-3, then switches 4-6): the certificate holds, and the
    routes [EstablishRoute] stores are the tree routes. *)
Example c29_tree_tables_nonvacuous :
  let ops := [AddSwitch; ConnectDevice 0 1; AddSwitch; ConnectSwitches 0 1; ConnectDevice 1 1;
              ConnectDevice 1 2; AddSwitch; ConnectSwitches 2 0; ConnectDevice 2 1] in
  let c := fst (apply_ops conn_empty ops) in
  let par := fun v => nth v [0; 0; 0; 0; 1; 1; 2] 0 in
  let lab := fun v => nth v [3; 4; 5; 6; 0; 1; 2] 0 in
  let unlab := fun v => nth v [4; 5; 6; 0; 1; 2; 3] 0 in
  graph_of c = [[4]; [5]; [5]; [6]; [0; 5; 6]; [4; 1; 2]; [4; 3]] /\
  tree_certb 7 par (graph_of c) lab unlab = true /\
  establish_route c = Some [[0; 1; 1; 2]; [0; 1; 2; 0]; [0; 0; 0; 1]] /\
  exists t, floyd_warshall (graph_of c) = Some t /\
    forallb (fun v => forallb (fun d => (v =? d) ||
       match next t v d with Some (_, w) => lab w =? hopn 7 par (lab v) (lab d) | None => false end)
       (seq 0 7)) (seq 0 7) = true.
Proof.
  cbv zeta. split; [vm_compute; reflexivity|]. split; [vm_compute; reflexivity|]. split; [vm_compute; reflexivity|].
  eexists. split; [vm_compute; reflexivity|]. vm_compute. reflexivity.
Qed.

(** * Why one bounded FIFO channel may stand for a series of switch buffers

    Between two arbitration points a flit crosses, in series: send-out buffer ->
    port outgoing buffer -> link -> peer port incoming buffer -> latency pipeline
    (one slot per stage) -> route buffer -> forward buffer.  With one lane per
    port each is a bounded FIFO handing its head to the next when that has room
    ([push] / [shift i] / [pop] on a [chain]; [abs] = the content oldest first;
    [total] = the sum of the capacities).  The series refines ONE bounded FIFO of
    capacity [total]: a push appends to [abs] and is only possible below [total],
    internal shifts leave [abs] unchanged, a pop removes the head of [abs]
    (order preserved, nothing lost or duplicated, capacities respected). *)
Theorem c29_buffer_series_refines_one_fifo : forall (A : Type) (ch : list (nat * list A)), ok ch ->
  (forall x ch', push x ch = Some ch' ->
     abs ch' = abs ch ++ [x] /\ ok ch' /\ total ch' = total ch /\ length (abs ch) < total ch) /\
  (forall i ch', shift i ch = Some ch' -> abs ch' = abs ch /\ ok ch' /\ total ch' = total ch) /\
  (forall y ch', pop ch = Some (y, ch') -> abs ch = y :: abs ch' /\ ok ch' /\ total ch' = total ch) /\
  length (abs ch) <= total ch.
Proof.
  intros A ch Hok. split; [|split; [|split]].
  - intros x ch' H. exact (push_refines x ch ch' Hok H).
  - intros i ch' H. exact (shift_refines i ch ch' Hok H).
  - intros y ch' H. exact (pop_refines ch y ch' Hok H).
  - exact (abs_length_le ch Hok).
Qed.
Print Assumptions c29_buffer_series_refines_one_fifo.

(** ... and it is as live as that FIFO: internal shifts terminate ([weight]
    strictly decreases), and once none is possible a non-empty series offers its
    oldest item and a series holding fewer than [total] items accepts a new one. *)
Theorem c29_buffer_series_progress : forall (A : Type) (ch : list (nat * list A)),
  ok ch -> caps_pos ch ->
  (forall i ch', shift i ch = Some ch' -> weight ch' < weight ch) /\
  ((forall i, shift i ch = None) ->
     (abs ch <> [] -> exists y ch', pop ch = Some (y, ch')) /\
     (forall x, ch <> [] -> length (abs ch) < total ch -> exists ch', push x ch = Some ch')).
Proof.
  intros A ch Hok Hc. split.
  - intros i ch' H. exact (proj1 (shift_decreases i ch ch' H)).
  - intro Hs. split.
    + intro Hne. exact (stuck_offers ch Hc Hs Hne).
    + intros x Hne Hlt. exact (stuck_accepts x ch Hne Hc Hok Hs Hlt).
Qed.
Print Assumptions c29_buffer_series_progress.

(** Non-vacuity: the series of a mesh link with switch latency 2 (send-out 1, port
    out 1, port in 1, two pipeline stages, route 1, forward 1: total 7). *)
Example c29_chain_nonvacuous :
  let ch : list (nat * list nat) := [(1, [5]); (1, []); (1, [4]); (1, []); (1, [3]); (1, [2]); (1, [1])] in
  ok ch /\ caps_pos ch /\ total ch = 7 /\ abs ch = [1; 2; 3; 4; 5] /\
  push 6 ch = None /\
  (exists ch1, shift 0 ch = Some ch1 /\ abs ch1 = abs ch /\ exists ch2, push 6 ch1 = Some ch2 /\ abs ch2 = [1; 2; 3; 4; 5; 6]) /\
  exists ch3, pop ch = Some (1, ch3) /\ abs ch3 = [2; 3; 4; 5].
Proof.
  cbv zeta. split; [repeat constructor|]. split; [repeat constructor|].
  split; [reflexivity|]. split; [reflexivity|]. split; [reflexivity|]. split.
  - eexists. split; [reflexivity|]. split; [reflexivity|]. eexists. split; reflexivity.
  - eexists. split; reflexivity.
Qed.

(** Non-vacuity of the abstract theorems: a 3-channel line 0 -> 1 -> 2 -> device
    with capacity 1 each and two packets; the greedy schedule delivers both. *)
Example c29_abstract_nonvacuous :
  let next := fun c (_ : nat) => if c <? 2 then Some (S c) else None in
  let cap := fun _ : nat => 1 in
  let st := mk_net [[(7%N, 0)]; [(8%N, 0)]; []] [] in
  wf 3 (fun _ _ => True) st /\
  (forall c d c', True -> next c d = Some c' -> True /\ c' < 3 /\ 3 - c' < 3 - c /\ c < c') /\
  move next cap st 0 = None /\
  exists st', run next cap st [1; 2; 0; 1; 2] = Some st' /\ n_done st' = [(8%N, 0); (7%N, 0)] /\ in_flight st' = [].
Proof.
  cbv zeta. split; [split; [reflexivity|intros; exact I]|]. split.
  - intros c d c' _ H. destruct (c <? 2) eqn:E; [|discriminate]. inversion H; subst. apply Nat.ltb_lt in E. lia.
  - split; [vm_compute; reflexivity|]. eexists. split; [vm_compute; reflexivity|]. split; reflexivity.
Qed.

(** Non-vacuity: a trace with interleaved sends/receives of three messages is
    accepted; dropping RspTo, delivering to another port, delivering twice or
    leaving one outstanding is rejected. *)
Example c29_nonvacuous :
  let m1 := mk_meta 1 10 20 0 1 64 in
  let m2 := mk_meta 2 20 10 1 3 0 in
  let m3 := mk_meta 3 10 21 0 2 7 in
  accepts [DevSend 10 m1; DevSend 10 m3; DevRecv 20 m1; DevSend 20 m2; DevRecv 21 m3; DevRecv 10 m2; End] = true /\
  accepts [DevSend 20 m2; DevRecv 10 (mk_meta 2 20 10 0 3 0); End] = false /\
  accepts [DevSend 10 m1; DevRecv 21 m1; End] = false /\
  accepts [DevSend 10 m1; DevRecv 20 m1; DevRecv 20 m1; End] = false /\
  accepts [DevSend 10 m1; DevSend 10 m3; DevRecv 20 m1; End] = false.
Proof. vm_compute. repeat split; reflexivity. Qed.

(** Link between the evaluator applied to every real run ([Exec.holds_on]) and
    the declarative statement: a run on which it returns [true] satisfies
    [Declarative], was closed by [End], and therefore delivered everything. *)
From Akita Require Import C29.Exec.
Theorem c29_holds_on_sound : forall c, holds_on c = true ->
  Declarative (c_trace c) /\
  exists pre, c_trace c = pre ++ [End] /\ forall m, In m (sent pre) -> In m (recvd pre).
Proof.
  intros c H. unfold holds_on in H. apply andb_true_iff in H. destruct H as [H _].
  apply andb_true_iff in H. destruct H as [Ha He].
  pose proof (accepts_sound _ Ha) as D. split; [exact D|].
  unfold ends_with_end in He. destruct (rev (c_trace c)) as [|e r] eqn:R; [discriminate|].
  destruct e; try discriminate.
  assert (E : c_trace c = rev r ++ [End]).
  { rewrite <- (rev_involutive (c_trace c)), R. reflexivity. }
  exists (rev r). split; [exact E|].
  assert (Hn : nth_error (c_trace c) (length (rev r)) = Some End).
  { rewrite E. rewrite nth_error_app2 by lia. rewrite Nat.sub_diag. reflexivity. }
  pose proof (D _ _ Hn) as Hk. cbn [ok_event] in Hk.
  rewrite E in Hk. rewrite firstn_app, firstn_all, Nat.sub_diag in Hk. cbn [firstn] in Hk. rewrite app_nil_r in Hk.
  exact Hk.
Qed.
Print Assumptions c29_holds_on_sound.
