(** C29 — networks deliver every message exactly once with metadata intact.
    Property theorems only. *)
From Akita Require Import Lib.Base C31.Model C29.Model C29.ProofsAcc.

(** Soundness of the acceptor that every real run is checked against: a trace of
    device-port events that it accepts satisfies, at every position, the
    declarative statement [ok_event] about the history before it. *)
Theorem c29_accepts_sound : forall tr, accepts tr = true -> Declarative tr.
Proof. exact accepts_sound. Qed.
Print Assumptions c29_accepts_sound.

(** Metadata intact, only at the destination: every receive is at the port named
    by the message's destination and is IDENTICAL (ID, Src, Dst, RspTo,
    TrafficClass, TrafficBytes) to a message some device handed to its source
    port strictly earlier. *)
Theorem c29_metadata_intact : forall tr, accepts tr = true ->
  forall i p m, nth_error tr i = Some (DevRecv p m) ->
  p = m_dst m /\ exists j, j < i /\ nth_error tr j = Some (DevSend (m_src m) m).
Proof.
  intros tr H i p m Hn. destruct (accepts_sound tr H i _ Hn) as [Hp [Hs _]].
  split; [exact Hp|]. destruct (in_sent_firstn tr i m Hs) as [j [q [Hj Hq]]].
  exists j. split; [exact Hj|].
  destruct (accepts_sound tr H j _ Hq) as [Hq' _]. rewrite <- Hq'. exact Hq.
Qed.
Print Assumptions c29_metadata_intact.

(** Exactly once: no message (ID) is received twice, and no ID is sent twice, so
    the earlier send a receive matches is unique. *)
Theorem c29_no_duplicates : forall tr, accepts tr = true ->
  (forall i j p m p' m', i < j -> nth_error tr i = Some (DevRecv p m) ->
     nth_error tr j = Some (DevRecv p' m') -> m_id m <> m_id m') /\
  (forall i j p m p' m', i < j -> nth_error tr i = Some (DevSend p m) ->
     nth_error tr j = Some (DevSend p' m') -> m_id m <> m_id m').
Proof.
  intros tr H. split; intros i j p m p' m' Hij Hi Hj E.
  - destruct (accepts_sound tr H j _ Hj) as [_ [_ Hn]]. apply Hn. rewrite <- E.
    apply in_map. eapply recvd_firstn_in; eauto.
  - destruct (accepts_sound tr H j _ Hj) as [_ Hn]. apply Hn. rewrite <- E.
    apply in_map. eapply sent_firstn_in; eauto.
Qed.
Print Assumptions c29_no_duplicates.

(** Nothing outstanding at the end: every message sent before an [End] event has
    been received (by its destination, unchanged) before that [End]. *)
Theorem c29_all_delivered_at_end : forall tr, accepts tr = true ->
  forall k, nth_error tr k = Some End ->
  forall j p m, j < k -> nth_error tr j = Some (DevSend p m) ->
  exists i, i < k /\ nth_error tr i = Some (DevRecv (m_dst m) m).
Proof.
  intros tr H k Hk j p m Hj Hs. pose proof (accepts_sound tr H k _ Hk) as He. cbn [ok_event] in He.
  assert (Hin : In m (recvd (firstn k tr))) by (apply He; eapply sent_firstn_in; eauto).
  destruct (in_recvd_firstn tr k m Hin) as [i [q [Hi Hq]]]. exists i. split; [exact Hi|].
  destruct (accepts_sound tr H i _ Hq) as [Hq' _]. rewrite <- Hq'. exact Hq.
Qed.
Print Assumptions c29_all_delivered_at_end.

(** Non-vacuity: a trace with interleaved sends/receives of three messages is
    accepted; dropping RspTo, delivering to another port, delivering twice or
    leaving one outstanding is rejected. *)
Example c29_nonvacuous :
  let m1 := mk_meta 1 10 20 0 1 64 in
  let m2 := mk_meta 2 20 10 1 3 0 in
  let m3 := mk_meta 3 10 21 0 2 7 in
  accepts [DevSend 10 m1; DevSend 10 m3; DevRecv 20 m1; DevSend 20 m2; DevRecv 21 m3; DevRecv 10 m2; End] = true /\
  accepts [DevSend 20 m2; DevRecv 10 (mk_meta 2 20 10 0 3 0); End] = false /\
  accepts [DevSend 10 m1; DevRecv 21 m1; End] = false /\
  accepts [DevSend 10 m1; DevRecv 20 m1; DevRecv 20 m1; End] = false /\
  accepts [DevSend 10 m1; DevSend 10 m3; DevRecv 20 m1; End] = false.
Proof. vm_compute. repeat split; reflexivity. Qed.
