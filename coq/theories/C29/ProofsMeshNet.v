(** C29 — the abstract channel network instantiated with the mesh: channels are
    the output ports of the switches of an [sx * sy * sz] grid (numbered by their
    position in the enumeration of all (coordinate, direction) pairs), packets
    are routed by C30's model of meshRoutingTable.FindPort.  The hypotheses of the
    abstract theorems are discharged by [mesh_channel_ranking]. *)
From Coq Require Import Permutation.
From Akita Require Import Lib.Base C30.Model C30.ProofsMesh C29.Model C29.ProofsNet C29.ProofsMeshRank.

(** * numbering a finite enumeration *)
Section Index.
  Context {A : Type} (eq_dec : forall x y : A, {x = y} + {x <> y}).

  Fixpoint index_of (x : A) (l : list A) : nat :=
    match l with
    | [] => 0
    | y :: r => if eq_dec x y then 0 else S (index_of x r)
    end.

  Lemma index_of_spec x l d : In x l -> index_of x l < length l /\ nth (index_of x l) l d = x.
  Proof.
    induction l as [|y r IH]; intro H; [destruct H|]. cbn [index_of].
    destruct (eq_dec x y) as [->|Hne]; [cbn; split; [lia|reflexivity]|].
    destruct H as [->|H]; [contradiction|]. destruct (IH H) as [H1 H2]. cbn [length nth]. split; [lia|exact H2].
  Qed.
End Index.

(** * the grid *)
Definition zrange (n : Z) : list Z := map Z.of_nat (seq 0 (Z.to_nat n)).

Lemma in_zrange n x : (0 <= x < n)%Z -> In x (zrange n).
Proof. intro H. unfold zrange. apply in_map_iff. exists (Z.to_nat x). split; [lia|]. apply in_seq. lia. Qed.

Definition box_coords (size : coord) : list coord :=
  let '(sx, sy, sz) := size in
  flat_map (fun x => flat_map (fun y => map (fun z => (x, y, z)) (zrange sz)) (zrange sy)) (zrange sx).

Lemma in_box_coords size c : in_box size c -> In c (box_coords size).
Proof.
  destruct size as [[sx sy] sz], c as [[x y] z]. cbn [in_box box_coords]. intros [Hx [Hy Hz]].
  apply in_flat_map. exists x. split; [apply in_zrange; exact Hx|].
  apply in_flat_map. exists y. split; [apply in_zrange; exact Hy|].
  apply in_map. apply in_zrange. exact Hz.
Qed.

Definition all_dirs : list dir := [Front; Back; Top; Bottom; Left; Right; Local].

Lemma in_all_dirs d : In d all_dirs.
Proof. destruct d; cbn; tauto. Qed.

Definition mesh_chans (size : coord) : list mchan := list_prod (box_coords size) all_dirs.

Lemma dir_eq_dec (a b : dir) : {a = b} + {a <> b}.
Proof. decide equality. Defined.

Lemma mchan_eq_dec (a b : mchan) : {a = b} + {a <> b}.
Proof. decide equality; [apply dir_eq_dec|apply coord_eq_dec]. Defined.

Section MeshNet.
  Variable size : coord.

  Definition chan_no (c : mchan) : nat := index_of mchan_eq_dec c (mesh_chans size).
  Definition chan_of (n : nat) : mchan := nth n (mesh_chans size) ((0, 0, 0)%Z, Local).
  Definition node_no (c : coord) : nat := index_of coord_eq_dec c (box_coords size).
  Definition node_of (n : nat) : coord := nth n (box_coords size) (0, 0, 0)%Z.
  Definition mesh_nchan : nat := length (mesh_chans size).

  Lemma chan_roundtrip c : in_box size (fst c) -> chan_no c < mesh_nchan /\ chan_of (chan_no c) = c.
  Proof.
    intro H. apply index_of_spec. destruct c as [cur d]. apply in_prod; [apply in_box_coords; exact H|apply in_all_dirs].
  Qed.

  Lemma node_roundtrip c : in_box size c -> node_of (node_no c) = c.
  Proof. intro H. apply index_of_spec. apply in_box_coords. exact H. Qed.

  (** the routing function of the numbered network *)
  Definition mnext (c d : nat) : option nat :=
    match mesh_next (chan_of c) (node_of d) with
    | Some c' => Some (chan_no c')
    | None => None
    end.

  Definition mvalid (c d : nat) : Prop := mesh_valid size (chan_of c) (node_of d).
  Definition mpot (c d : nat) : nat := Z.to_nat (manhattan (fst (chan_of c)) (node_of d)).
  Definition mrank (c : nat) : nat := Z.to_nat (mesh_rank size (chan_of c)).

  Lemma manhattan_nonneg' a b : (0 <= manhattan a b)%Z.
  Proof. destruct a as [[x y] z], b as [[dx dy] dz]. cbn [manhattan]. lia. Qed.

  Lemma mnext_ok c d c' : mvalid c d -> mnext c d = Some c' ->
    mvalid c' d /\ c' < mesh_nchan /\ mpot c' d < mpot c d /\ mrank c < mrank c'.
  Proof.
    unfold mvalid, mnext, mpot, mrank. intros Hv H.
    destruct (mesh_next (chan_of c) (node_of d)) as [cm|] eqn:E; [|discriminate]. inversion H; subst c'. clear H.
    destruct (mesh_channel_ranking size _ _ _ Hv E) as [Hv' [Hm Hr]].
    destruct (chan_roundtrip cm (proj1 Hv')) as [Hlt Hrt]. rewrite Hrt.
    split; [exact Hv'|]. split; [exact Hlt|].
    pose proof (manhattan_nonneg' (fst cm) (node_of d)). split; lia.
  Qed.

  (** a packet handed to the network at tile [src] for tile [dst] starts on a valid channel *)
  Lemma inject_valid src dst : in_box size src -> in_box size dst ->
    mvalid (chan_no (src, mesh_find_port src dst)) (node_no dst).
  Proof.
    intros Hs Hd. unfold mvalid.
    destruct (chan_roundtrip (src, mesh_find_port src dst) Hs) as [_ Hrt]. rewrite Hrt, (node_roundtrip dst Hd).
    unfold mesh_valid. cbn [fst snd]. auto.
  Qed.

  Variable cap : nat -> nat.
  Hypothesis cap_pos : forall c, 1 <= cap c.

  (** * delivery in every mesh under every arbitration *)
  Theorem mesh_delivery_progress st : wf mesh_nchan mvalid st ->
    (in_flight st <> [] -> exists c st', move mnext cap st c = Some st') /\
    (forall cs st', run mnext cap st cs = Some st' ->
       Permutation (all_pkts st) (all_pkts st') /\
       length cs + measure mpot st' <= measure mpot st /\
       ((forall c, move mnext cap st' c = None) ->
        in_flight st' = [] /\ Permutation (n_done st') (all_pkts st))) /\
    (exists cs st', run mnext cap st cs = Some st' /\ length cs <= measure mpot st /\
                    in_flight st' = [] /\ Permutation (n_done st') (all_pkts st)).
  Proof.
    intro Hw. split; [|split].
    - intro Hne. eapply no_deadlock; eauto using mnext_ok.
    - intros cs st' Hr. split; [eapply run_conserves; exact Hr|]. split.
      + eapply run_bounded; eauto using mnext_ok.
      + intro Hs. eapply maximal_run_delivers; eauto using mnext_ok.
    - eapply delivering_run_exists; eauto using mnext_ok.
  Qed.
End MeshNet.

(** * an executable scheduler, for concrete instances *)
Fixpoint first_enabled (next : nat -> nat -> option nat) (cap : nat -> nat) (st : net) (cs : list nat) : option (nat * net) :=
  match cs with
  | [] => None
  | c :: r => match move next cap st c with Some st' => Some (c, st') | None => first_enabled next cap st r end
  end.

Fixpoint greedy (next : nat -> nat -> option nat) (cap : nat -> nat) (fuel : nat) (st : net) : list nat * net :=
  match fuel with
  | O => ([], st)
  | S f => match first_enabled next cap st (seq 0 (length (n_chan st))) with
           | Some (c, st') => let '(cs, st2) := greedy next cap f st' in (c :: cs, st2)
           | None => ([], st)
           end
  end.

(** the network state in which every packet [(id, src, dst)] waits on the port its source switch chose *)
Definition mesh_initial (size : coord) (pkts : list (N * coord * coord)) : net :=
  mk_net (map (fun c => map (fun p => (fst (fst p), node_no size (snd p)))
                            (filter (fun p => chan_no size (snd (fst p), mesh_find_port (snd (fst p)) (snd p)) =? c) pkts))
              (seq 0 (mesh_nchan size)))
         [].

(** * the initial state is well-formed and holds exactly the given packets *)
Lemma nth_map_seq0 {A} (f : nat -> A) n : forall s i d, i < n -> nth i (map f (seq s n)) d = f (s + i).
Proof.
  induction n as [|n IH]; intros s i d Hi; [lia|]. cbn [seq map]. destruct i as [|i]; cbn [nth].
  - rewrite Nat.add_0_r. reflexivity.
  - rewrite IH by lia. f_equal. lia.
Qed.

Lemma bucket_perm {A} (f : A -> nat) (l : list A) : forall s n, (forall x, In x l -> s <= f x < s + n) ->
  Permutation (concat (map (fun c => filter (fun x => f x =? c) l) (seq s n))) l.
Proof.
  induction l as [|a l IH]; intros s n H.
  - clear H. revert s. induction n as [|n IHn]; intro s; cbn [seq map concat filter]; [constructor|]. cbn [app]. apply IHn.
  - assert (Ha : s <= f a < s + n) by (apply H; left; reflexivity).
    assert (Hl : forall x, In x l -> s <= f x < s + n) by (intros x Hx; apply H; right; exact Hx).
    specialize (IH s n Hl). etransitivity; [|apply perm_skip; exact IH].
    clear IH H Hl. revert s Ha. induction n as [|n IHn]; intros s Ha; [lia|].
    cbn [seq map concat filter]. destruct (f a =? s) eqn:E.
    + apply Nat.eqb_eq in E. cbn [app]. apply perm_skip. apply Permutation_app_head.
      assert (G : forall m t, f a < t -> map (fun c => filter (fun x => f x =? c) (a :: l)) (seq t m) =
                                          map (fun c => filter (fun x => f x =? c) l) (seq t m)).
      { induction m as [|m IHm]; intros t Ht; [reflexivity|]. cbn [seq map]. rewrite IHm by lia. f_equal.
        cbn [filter]. assert (E' : (f a =? t) = false) by (apply Nat.eqb_neq; lia). rewrite E'. reflexivity. }
      rewrite G by lia. reflexivity.
    + apply Nat.eqb_neq in E. etransitivity; [apply Permutation_app_head; apply (IHn (S s)); lia|].
      apply Permutation_sym. apply Permutation_middle.
Qed.

Section MeshInitial.
  Variable size : coord.
  Variable pkts : list (N * coord * coord).            (* id, source tile, destination tile *)
  Hypothesis in_grid : forall p, In p pkts -> in_box size (snd (fst p)) /\ in_box size (snd p).

  Definition first_chan (p : N * coord * coord) : nat :=
    chan_no size (snd (fst p), mesh_find_port (snd (fst p)) (snd p)).

  Lemma mesh_initial_wf : wf (mesh_nchan size) (mvalid size) (mesh_initial size pkts).
  Proof.
    unfold mesh_initial. split; cbn [n_chan]; [rewrite map_length, seq_length; reflexivity|].
    intros c q Hin. destruct (Nat.lt_ge_cases c (mesh_nchan size)) as [Hc|Hc].
    - rewrite nth_map_seq0 in Hin by exact Hc. cbn [Nat.add] in Hin.
      apply in_map_iff in Hin. destruct Hin as [p [Hq Hp]]. apply filter_In in Hp. destruct Hp as [Hp Hc'].
      apply Nat.eqb_eq in Hc'. subst q c. cbn [snd]. destruct (in_grid p Hp) as [Hs Hd]. apply inject_valid; assumption.
    - rewrite nth_overflow in Hin by (rewrite map_length, seq_length; exact Hc). destruct Hin.
  Qed.

  Lemma mesh_initial_pkts :
    Permutation (all_pkts (mesh_initial size pkts)) (map (fun p => (fst (fst p), node_no size (snd p))) pkts).
  Proof.
    unfold all_pkts, in_flight, mesh_initial. cbn [n_chan n_done]. rewrite app_nil_r.
    rewrite <- (map_map (fun c => filter (fun p => first_chan p =? c) pkts) (map (fun p => (fst (fst p), node_no size (snd p))))).
    rewrite <- concat_map. apply Permutation_map. apply bucket_perm.
    intros p Hp. destruct (in_grid p Hp) as [Hs _].
    destruct (chan_roundtrip size (snd (fst p), mesh_find_port (snd (fst p)) (snd p)) Hs) as [Hlt _].
    unfold first_chan. cbn [Nat.add]. split; [lia|exact Hlt].
  Qed.
End MeshInitial.
