(** C29 — soundness of the network acceptor: accepted traces satisfy the
    declarative statement. *)
From Akita Require Import Lib.Base C31.Model C29.Model.

Fixpoint sent (tr : list event) : list meta :=
  match tr with
  | [] => []
  | DevSend _ m :: r => m :: sent r
  | _ :: r => sent r
  end.

Fixpoint recvd (tr : list event) : list meta :=
  match tr with
  | [] => []
  | DevRecv _ m :: r => m :: recvd r
  | _ :: r => recvd r
  end.

(** what the statement demands of the event [e] that follows the history [pre] *)
Definition ok_event (pre : list event) (e : event) : Prop :=
  match e with
  | DevSend p m =>
      (* handed over at the port that is the message's source; the ID is new *)
      p = m_src m /\ ~ In (m_id m) (map m_id (sent pre))
  | DevRecv p m =>
      (* delivered at the destination port and nowhere else; identical to a message sent
         earlier (ID, Src, Dst, RspTo, TrafficClass, TrafficBytes); not delivered before *)
      p = m_dst m /\ In m (sent pre) /\ ~ In (m_id m) (map m_id (recvd pre))
  | End =>
      (* nothing outstanding *)
      forall m, In m (sent pre) -> In m (recvd pre)
  end.

Definition Declarative (tr : list event) : Prop :=
  forall i e, nth_error tr i = Some e -> ok_event (firstn i tr) e.

Lemma meta_eqb_eq a b : meta_eqb a b = true <-> a = b.
Proof.
  unfold meta_eqb. destruct a, b. simpl. split.
  - intro H. repeat (apply andb_true_iff in H; destruct H as [H ?]).
    repeat match goal with
           | H : (_ =? _)%N = true |- _ => apply N.eqb_eq in H
           | H : (_ =? _)%Z = true |- _ => apply Z.eqb_eq in H
           end. subst. reflexivity.
  - intro H. inversion H; subst. rewrite !N.eqb_refl, Z.eqb_refl. reflexivity.
Qed.

Lemma sent_app a b : sent (a ++ b) = sent a ++ sent b.
Proof. induction a as [|[p m|p m|] a IH]; cbn [sent app]; [reflexivity| | |]; rewrite ?IH; reflexivity. Qed.

Lemma recvd_app a b : recvd (a ++ b) = recvd a ++ recvd b.
Proof. induction a as [|[p m|p m|] a IH]; cbn [recvd app]; [reflexivity| | |]; rewrite ?IH; reflexivity. Qed.

Lemma mem_id_In id l : mem_id id l = true <-> In id l.
Proof.
  unfold mem_id. rewrite existsb_exists. split.
  - intros [x [Hx E]]. apply N.eqb_eq in E. subst. exact Hx.
  - intro H. exists id. split; [exact H|apply N.eqb_refl].
Qed.

Lemma take_spec id l x rest : NoDup (map m_id l) -> take id l = Some (x, rest) ->
  In x l /\ m_id x = id /\ NoDup (map m_id rest) /\
  forall y, In y rest <-> In y l /\ m_id y <> id.
Proof.
  revert x rest. induction l as [|a l IH]; intros x rest Hnd H; [discriminate|].
  cbn [take] in H. cbn [map] in Hnd. inversion Hnd as [|? ? Hn Hl]; subst.
  destruct (m_id a =? id)%N eqn:E.
  - inversion H; subst. apply N.eqb_eq in E. split; [left; reflexivity|]. split; [exact E|].
    split; [exact Hl|]. intro y. split.
    + intro Hy. split; [right; exact Hy|]. intro Ey. apply Hn. rewrite E, <- Ey. apply in_map. exact Hy.
    + intros [[->|Hy] Hne]; [contradiction|exact Hy].
  - destruct (take id l) as [[y r']|] eqn:T; [|discriminate]. inversion H; subst.
    destruct (IH _ _ Hl eq_refl) as [H1 [H2 [H3 H4]]]. apply N.eqb_neq in E.
    split; [right; exact H1|]. split; [exact H2|]. split.
    + cbn [map]. constructor; [|exact H3]. intro Hin. apply Hn.
      apply in_map_iff in Hin. destruct Hin as [z [Ez Hz]]. apply H4 in Hz. rewrite <- Ez. apply in_map. tauto.
    + intro z. cbn [In]. rewrite H4. split.
      * intros [->|[Hz Hne]]; [split; [left; reflexivity|exact E]|split; [right; exact Hz|exact Hne]].
      * intros [[->|Hz] Hne]; [left; reflexivity|right; split; assumption].
Qed.

Lemma take_none id l : take id l = None -> ~ In id (map m_id l).
Proof.
  induction l as [|a l IH]; intro H; [intros []|]. cbn [take] in H.
  destruct (m_id a =? id)%N eqn:E; [discriminate|]. destruct (take id l) as [[y r]|]; [discriminate|].
  cbn [map]. intros [Hh|Hh]; [apply N.eqb_neq in E; auto|apply IH; auto].
Qed.

(** the acceptor's state is an exact summary of the history *)
Record Inv (pre : list event) (a : acc) : Prop := {
  inv_ids : forall id, In id (a_ids a) <-> In id (map m_id (sent pre));
  inv_sent_nodup : NoDup (map m_id (sent pre));
  inv_pending : forall m, In m (a_pending a) <-> In m (sent pre) /\ ~ In (m_id m) (map m_id (recvd pre));
  inv_pending_nodup : NoDup (map m_id (a_pending a));
  inv_recvd_sent : forall m, In m (recvd pre) -> In m (sent pre) }.

Lemma inv_init : Inv [] acc_init.
Proof.
  constructor; cbn [acc_init a_ids a_pending sent recvd map].
  - intro id. tauto.
  - constructor.
  - intro m. split; [intros []|intros [[] _]].
  - constructor.
  - intros m [].
Qed.

Lemma same_id_same_meta l m m' : NoDup (map m_id l) -> In m l -> In m' l -> m_id m = m_id m' -> m = m'.
Proof.
  induction l as [|x l IH]; intros Hnd H1 H2 E; [destruct H1|].
  cbn [map] in Hnd. inversion Hnd as [|? ? Hn Hl]; subst.
  destruct H1 as [->|H1], H2 as [->|H2]; try reflexivity.
  - exfalso. apply Hn. rewrite E. apply in_map. exact H2.
  - exfalso. apply Hn. rewrite <- E. apply in_map. exact H1.
  - apply IH; auto.
Qed.

Lemma NoDup_snoc {A} (l : list A) x : NoDup l -> ~ In x l -> NoDup (l ++ [x]).
Proof.
  intros Hl Hx. induction l as [|y l IH]; cbn [app]; [constructor; [intros []|constructor]|].
  inversion Hl as [|? ? Hy Hl']; subst. constructor.
  - intro Hin. apply in_app_or in Hin. destruct Hin as [Hin|[Hin|[]]]; [auto|].
    apply Hx. left. symmetry. exact Hin.
  - apply IH; auto. intro H. apply Hx. right. exact H.
Qed.

Lemma step_sound pre a e a' : Inv pre a -> acc_step a e = Some a' ->
  ok_event pre e /\ Inv (pre ++ [e]) a'.
Proof.
  intros [I1 I2 I3 I4 I5] H. destruct e as [p m|p m|]; cbn [acc_step] in H.
  - destruct ((p =? m_src m)%N && negb (mem_id (m_id m) (a_ids a))) eqn:C; [|discriminate].
    inversion H; subst. clear H. apply andb_true_iff in C. destruct C as [C1 C2].
    apply N.eqb_eq in C1. apply negb_true_iff in C2.
    assert (Hfresh : ~ In (m_id m) (map m_id (sent pre))).
    { intro Hin. apply I1 in Hin. apply mem_id_In in Hin. congruence. }
    split; [split; assumption|].
    constructor; cbn [a_ids a_pending]; rewrite ?sent_app, ?recvd_app; cbn [sent recvd]; rewrite ?app_nil_r.
    + intro id. rewrite map_app. cbn [map In]. rewrite in_app_iff. cbn [In]. rewrite I1. tauto.
    + rewrite map_app. cbn [map]. apply NoDup_snoc; assumption.
    + intro x. rewrite !in_app_iff. cbn [In]. rewrite I3. split.
      * intros [[H1 H2]|[<-|[]]]; [tauto|]. split; [right; left; reflexivity|].
        intro Hin. apply Hfresh. apply in_map_iff in Hin. destruct Hin as [y [Ey Hy]].
        rewrite <- Ey. apply in_map. apply I5. exact Hy.
      * intros [[H1|[<-|[]]] H2]; [left; tauto|right; left; reflexivity].
    + rewrite map_app. cbn [map]. apply NoDup_snoc; [exact I4|].
      intro Hin. apply Hfresh. apply in_map_iff in Hin. destruct Hin as [y [Ey Hy]].
      rewrite <- Ey. apply in_map. apply I3 in Hy. tauto.
    + intros x Hx. apply in_or_app. left. apply I5. exact Hx.
  - destruct (take (m_id m) (a_pending a)) as [[s rest]|] eqn:T; [|discriminate].
    destruct (meta_eqb s m && (p =? m_dst m)%N) eqn:C; [|discriminate].
    inversion H; subst. clear H. apply andb_true_iff in C. destruct C as [C1 C2].
    apply meta_eqb_eq in C1. apply N.eqb_eq in C2. subst s.
    destruct (take_spec _ _ _ _ I4 T) as [H1 [_ [H3 H4]]].
    apply I3 in H1. destruct H1 as [Hs Hnr].
    split; [repeat split; assumption|].
    constructor; cbn [a_ids a_pending]; rewrite ?sent_app, ?recvd_app; cbn [sent recvd]; rewrite ?app_nil_r.
    + exact I1.
    + exact I2.
    + intro x. rewrite H4, I3, map_app. cbn [map]. rewrite in_app_iff. cbn [In]. split.
      * intros [[Ha Hb] Hc]. split; [exact Ha|]. intros [Hh|[Hh|[]]]; [auto|]. apply Hc. symmetry. exact Hh.
      * intros [Ha Hb]. split; [split; [exact Ha|]|]; intro Hh; apply Hb; [left; exact Hh|right; left; symmetry; exact Hh].
    + exact H3.
    + intros x Hx. apply in_app_or in Hx. destruct Hx as [Hx|[<-|[]]]; [apply I5; exact Hx|exact Hs].
  - destruct (a_pending a) as [|x l] eqn:P; [|discriminate]. inversion H; subst. clear H.
    split.
    + cbn [ok_event]. intros m Hm.
      destruct (in_dec N.eq_dec (m_id m) (map m_id (recvd pre))) as [Hin|Hnin].
      * apply in_map_iff in Hin. destruct Hin as [y [Ey Hy]].
        assert (y = m) by (apply (same_id_same_meta (sent pre)); auto). subst y. exact Hy.
      * exfalso. assert (Hp : In m []) by (apply I3; split; assumption). destruct Hp.
    + constructor; rewrite ?sent_app, ?recvd_app; cbn [sent recvd]; rewrite ?app_nil_r; try rewrite P; assumption.
Qed.

Lemma run_sound tr : forall pre a a', Inv pre a -> acc_run a tr = Some a' ->
  forall i e, nth_error tr i = Some e -> ok_event (pre ++ firstn i tr) e.
Proof.
  induction tr as [|x tr IH]; intros pre a a' I H i e Hn; [destruct i; discriminate|].
  cbn [acc_run] in H. destruct (acc_step a x) as [a1|] eqn:S1; [|discriminate].
  destruct (step_sound _ _ _ _ I S1) as [Hok I'].
  destruct i as [|i]; cbn [nth_error firstn] in *.
  - inversion Hn; subst. rewrite app_nil_r. exact Hok.
  - specialize (IH _ _ _ I' H i e Hn). rewrite <- app_assoc in IH. exact IH.
Qed.

Theorem accepts_sound tr : accepts tr = true -> Declarative tr.
Proof.
  unfold accepts. destruct (acc_run acc_init tr) as [a'|] eqn:R; [|discriminate].
  intros _ i e Hn. exact (run_sound tr [] acc_init a' inv_init R i e Hn).
Qed.

(** index form of "an earlier send" *)
Lemma in_sent_firstn tr i m : In m (sent (firstn i tr)) ->
  exists j p, j < i /\ nth_error tr j = Some (DevSend p m).
Proof.
  revert i. induction tr as [|x tr IH]; intros i H; [destruct i; destruct H|].
  destruct i as [|i]; [destruct H|]. cbn [firstn] in H.
  destruct x as [p m'|p m'|]; cbn [sent] in H.
  - destruct H as [->|H]; [exists 0, p; split; [lia|reflexivity]|].
    destruct (IH _ H) as [j [q [Hj Hq]]]. exists (S j), q. split; [lia|exact Hq].
  - destruct (IH _ H) as [j [q [Hj Hq]]]. exists (S j), q. split; [lia|exact Hq].
  - destruct (IH _ H) as [j [q [Hj Hq]]]. exists (S j), q. split; [lia|exact Hq].
Qed.

Lemma in_recvd_firstn tr i m : In m (recvd (firstn i tr)) ->
  exists j p, j < i /\ nth_error tr j = Some (DevRecv p m).
Proof.
  revert i. induction tr as [|x tr IH]; intros i H; [destruct i; destruct H|].
  destruct i as [|i]; [destruct H|]. cbn [firstn] in H.
  destruct x as [p m'|p m'|]; cbn [recvd] in H.
  - destruct (IH _ H) as [j [q [Hj Hq]]]. exists (S j), q. split; [lia|exact Hq].
  - destruct H as [->|H]; [exists 0, p; split; [lia|reflexivity]|].
    destruct (IH _ H) as [j [q [Hj Hq]]]. exists (S j), q. split; [lia|exact Hq].
  - destruct (IH _ H) as [j [q [Hj Hq]]]. exists (S j), q. split; [lia|exact Hq].
Qed.

Lemma sent_firstn_in tr j i p m : j < i -> nth_error tr j = Some (DevSend p m) -> In m (sent (firstn i tr)).
Proof.
  revert j i. induction tr as [|x tr IH]; intros j i Hj H; [destruct j; discriminate|].
  destruct i as [|i]; [lia|]. cbn [firstn]. destruct j as [|j]; cbn [nth_error] in H.
  - inversion H; subst. left. reflexivity.
  - assert (In m (sent (firstn i tr))) by (apply (IH j); [lia|exact H]).
    destruct x; cbn [sent]; [right|idtac|idtac]; assumption.
Qed.

Lemma recvd_firstn_in tr j i p m : j < i -> nth_error tr j = Some (DevRecv p m) -> In m (recvd (firstn i tr)).
Proof.
  revert j i. induction tr as [|x tr IH]; intros j i Hj H; [destruct j; discriminate|].
  destruct i as [|i]; [lia|]. cbn [firstn]. destruct j as [|j]; cbn [nth_error] in H.
  - inversion H; subst. left. reflexivity.
  - assert (In m (recvd (firstn i tr))) by (apply (IH j); [lia|exact H]).
    destruct x; cbn [recvd]; [idtac|right|idtac]; assumption.
Qed.
