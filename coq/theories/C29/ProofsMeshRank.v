(** C29 — dimension-order (Z, then Y, then X) mesh routing admits a channel
    ranking: along every route the output ports used have strictly increasing
    rank.  This is the hypothesis [next_ok] of the abstract network theorems
    (deadlock freedom with bounded buffers) for the mesh. *)
From Akita Require Import Lib.Base C30.Model C30.ProofsMesh.
Local Open Scope Z_scope.

(** a channel = an output port of a switch *)
Definition mchan := (coord * dir)%type.

Definition mesh_rank (size : coord) (c : mchan) : Z :=
  let '(sx, sy, sz) := size in
  let '((x, y, z), d) := c in
  match d with
  | Front => sz - z
  | Back => z
  | Top => (sz + 1) + (sy - y)
  | Bottom => (sz + 1) + y
  | Left => (sz + sy + 2) + (sx - x)
  | Right => (sz + sy + 2) + x
  | Local => sz + sy + sx + 3
  end.

(** packets for [dst] may sit in the output port [d] of switch [cur] only if the routing table sends them there *)
Definition mesh_valid (size : coord) (c : mchan) (dst : coord) : Prop :=
  in_box size (fst c) /\ in_box size dst /\ snd c = mesh_find_port (fst c) dst.

(** the port the packet is put on at the next switch *)
Definition mesh_next (c : mchan) (dst : coord) : option mchan :=
  match snd c with
  | Local => None                                   (* handed to the endpoint *)
  | d => let cur' := mesh_move (fst c) d in Some (cur', mesh_find_port cur' dst)
  end.

Lemma mesh_channel_ranking size c dst c' :
  mesh_valid size c dst -> mesh_next c dst = Some c' ->
  mesh_valid size c' dst /\
  manhattan (fst c') dst < manhattan (fst c) dst /\
  0 <= mesh_rank size c < mesh_rank size c'.
Proof.
  destruct size as [[sx sy] sz], c as [[[x y] z] d], dst as [[dx dy] dz].
  unfold mesh_valid, mesh_next. cbn [fst snd]. intros [Hb [Hd Hv]] Hn.
  unfold in_box in Hb, Hd. unfold mesh_find_port in Hv.
  destruct (dz <? z) eqn:E1; [subst d; inversion Hn; subst; clear Hn; cbn [fst snd mesh_move in_box manhattan mesh_rank];
    unfold mesh_find_port;
    destruct (dz <? z - 1) eqn:F1; [cbn [mesh_rank]; repeat split; lia|];
    destruct (z - 1 <? dz) eqn:F2; [lia|];
    destruct (dy <? y) eqn:F3; [cbn [mesh_rank]; repeat split; lia|];
    destruct (y <? dy) eqn:F4; [cbn [mesh_rank]; repeat split; lia|];
    destruct (dx <? x) eqn:F5; [cbn [mesh_rank]; repeat split; lia|];
    destruct (x <? dx) eqn:F6; cbn [mesh_rank]; repeat split; lia|].
  destruct (z <? dz) eqn:E2; [subst d; inversion Hn; subst; clear Hn; cbn [fst snd mesh_move in_box manhattan mesh_rank];
    unfold mesh_find_port;
    destruct (dz <? z + 1) eqn:F1; [lia|];
    destruct (z + 1 <? dz) eqn:F2; [cbn [mesh_rank]; repeat split; lia|];
    destruct (dy <? y) eqn:F3; [cbn [mesh_rank]; repeat split; lia|];
    destruct (y <? dy) eqn:F4; [cbn [mesh_rank]; repeat split; lia|];
    destruct (dx <? x) eqn:F5; [cbn [mesh_rank]; repeat split; lia|];
    destruct (x <? dx) eqn:F6; cbn [mesh_rank]; repeat split; lia|].
  destruct (dy <? y) eqn:E3; [subst d; inversion Hn; subst; clear Hn; cbn [fst snd mesh_move in_box manhattan mesh_rank];
    unfold mesh_find_port; rewrite E1, E2;
    destruct (dy <? y - 1) eqn:F3; [cbn [mesh_rank]; repeat split; lia|];
    destruct (y - 1 <? dy) eqn:F4; [lia|];
    destruct (dx <? x) eqn:F5; [cbn [mesh_rank]; repeat split; lia|];
    destruct (x <? dx) eqn:F6; cbn [mesh_rank]; repeat split; lia|].
  destruct (y <? dy) eqn:E4; [subst d; inversion Hn; subst; clear Hn; cbn [fst snd mesh_move in_box manhattan mesh_rank];
    unfold mesh_find_port; rewrite E1, E2;
    destruct (dy <? y + 1) eqn:F3; [lia|];
    destruct (y + 1 <? dy) eqn:F4; [cbn [mesh_rank]; repeat split; lia|];
    destruct (dx <? x) eqn:F5; [cbn [mesh_rank]; repeat split; lia|];
    destruct (x <? dx) eqn:F6; cbn [mesh_rank]; repeat split; lia|].
  destruct (dx <? x) eqn:E5; [subst d; inversion Hn; subst; clear Hn; cbn [fst snd mesh_move in_box manhattan mesh_rank];
    unfold mesh_find_port; rewrite E1, E2, E3, E4;
    destruct (dx <? x - 1) eqn:F5; [cbn [mesh_rank]; repeat split; lia|];
    destruct (x - 1 <? dx) eqn:F6; [lia|]; cbn [mesh_rank]; repeat split; lia|].
  destruct (x <? dx) eqn:E6; [subst d; inversion Hn; subst; clear Hn; cbn [fst snd mesh_move in_box manhattan mesh_rank];
    unfold mesh_find_port; rewrite E1, E2, E3, E4;
    destruct (dx <? x + 1) eqn:F5; [lia|];
    destruct (x + 1 <? dx) eqn:F6; cbn [mesh_rank]; repeat split; lia|].
  subst d. discriminate.
Qed.
