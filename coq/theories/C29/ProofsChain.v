(** C29 — why one bounded FIFO channel may stand for the series of buffers a flit
    crosses between two arbitration points.

    Between winning the crossbar of one switch and waiting at the head of the
    forward buffer of the next, a flit moves through (routeforwardsendmw.go,
    receivepipelinemw.go, messaging ports): the output port's send-out buffer
    (capacity NumOutputChannel) -> the port's outgoing buffer -> the link -> the
    peer port's incoming buffer -> the latency pipeline (one slot per stage and
    lane) -> the route buffer -> the forward buffer (capacity NumInputChannel).
    With one lane per port (NumInputChannel = NumOutputChannel = 1: every PCIe /
    NVLink link, mesh links at <= 1 transfer per cycle) each of these is a bounded
    FIFO and each stage hands its head to the next when that has room.

    [chain]: a series of bounded FIFOs, stage 0 the entry.  Steps: [push] into
    stage 0, [shift i] from stage i to i+1, [pop] from the last stage.  Theorems:
    the series refines ONE bounded FIFO whose content is [abs] and whose capacity
    is the sum of the stage capacities — order preserved, nothing lost or
    duplicated — and it is as live as that FIFO: internal shifts terminate, and
    once none is possible a non-empty series offers its oldest item and a
    non-full series accepts a new one. *)
From Akita Require Import Lib.Base.

Section Chain.
  Context {A : Type}.

  (* a stage = (capacity, content oldest first) *)
  Notation stage := (nat * list A)%type.
  Notation chain := (list (nat * list A)).

  Definition ok (ch : chain) : Prop := Forall (fun s => length (snd s) <= fst s) ch.
  Definition caps_pos (ch : chain) : Prop := Forall (fun s => 1 <= fst s) ch.
  Definition total (ch : chain) : nat := list_sum (map fst ch).

  (** the content of the single FIFO it stands for, oldest first *)
  Definition abs (ch : chain) : list A := concat (rev (map snd ch)).

  Definition push (x : A) (ch : chain) : option chain :=
    match ch with
    | (c, q) :: r => if length q <? c then Some ((c, q ++ [x]) :: r) else None
    | [] => None
    end.

  Fixpoint shift (i : nat) (ch : chain) : option chain :=
    match ch with
    | (c0, q0) :: ((c1, q1) :: r) as rest =>
        match i with
        | O => match q0 with
               | y :: q0' => if length q1 <? c1 then Some ((c0, q0') :: (c1, q1 ++ [y]) :: r) else None
               | [] => None
               end
        | S i' => match shift i' rest with Some rest' => Some ((c0, q0) :: rest') | None => None end
        end
    | _ => None
    end.

  Fixpoint pop (ch : chain) : option (A * chain) :=
    match ch with
    | [] => None
    | [(c, q)] => match q with y :: q' => Some (y, [(c, q')]) | [] => None end
    | s :: r => match pop r with Some (y, r') => Some (y, s :: r') | None => None end
    end.

  Lemma shift_S i s0 s1 r : shift (S i) (s0 :: s1 :: r) =
    match shift i (s1 :: r) with Some rest' => Some (s0 :: rest') | None => None end.
  Proof. destruct s0, s1. reflexivity. Qed.

  Lemma shift_short i s : shift i [s] = None.
  Proof. destruct s, i; reflexivity. Qed.

  Lemma pop_cons s0 s1 r : pop (s0 :: s1 :: r) =
    match pop (s1 :: r) with Some (y, r') => Some (y, s0 :: r') | None => None end.
  Proof. destruct s0. reflexivity. Qed.

  Lemma shift_S_inv i s0 s1 r ch' : shift (S i) (s0 :: s1 :: r) = Some ch' ->
    exists rest', shift i (s1 :: r) = Some rest' /\ ch' = s0 :: rest'.
  Proof.
    rewrite shift_S. destruct (shift i (s1 :: r)) as [rest'|]; intro H; [|discriminate H].
    inversion H. exists rest'. auto.
  Qed.

  Lemma shift_S_none i s0 s1 r : shift (S i) (s0 :: s1 :: r) = None -> shift i (s1 :: r) = None.
  Proof. rewrite shift_S. destruct (shift i (s1 :: r)); intro H; [discriminate H|reflexivity]. Qed.

  Lemma pop_cons_inv s0 s1 r y ch' : pop (s0 :: s1 :: r) = Some (y, ch') ->
    exists r', pop (s1 :: r) = Some (y, r') /\ ch' = s0 :: r'.
  Proof.
    rewrite pop_cons. destruct (pop (s1 :: r)) as [[z r']|]; intro H; [|discriminate H].
    inversion H; subst. exists r'. auto.
  Qed.

  Lemma abs_cons s r : abs (s :: r) = abs r ++ snd s.
  Proof. unfold abs. cbn [map rev]. rewrite concat_app. cbn [concat]. rewrite app_nil_r. reflexivity. Qed.

  Lemma total_cons s r : total (s :: r) = fst s + total r.
  Proof. reflexivity. Qed.

  Lemma abs_length_le ch : ok ch -> length (abs ch) <= total ch.
  Proof.
    induction ch as [|s r IH]; intro H; [cbn; lia|]. inversion H; subst.
    rewrite abs_cons, app_length, total_cons. specialize (IH H3). lia.
  Qed.

  (** ** refinement *)
  Theorem push_refines x ch ch' : ok ch -> push x ch = Some ch' ->
    abs ch' = abs ch ++ [x] /\ ok ch' /\ total ch' = total ch /\ length (abs ch) < total ch.
  Proof.
    intros Hok H. destruct ch as [|[c q] r]; [discriminate|]. cbn [push] in H.
    destruct (length q <? c) eqn:E; [|discriminate]. inversion H; subst. clear H. apply Nat.ltb_lt in E.
    inversion Hok; subst. cbn [fst snd] in *.
    rewrite !abs_cons. cbn [snd]. split; [rewrite app_assoc; reflexivity|].
    split; [constructor; [cbn [fst snd]; rewrite app_length; cbn; lia|assumption]|].
    split; [reflexivity|]. rewrite app_length, total_cons. cbn [fst]. pose proof (abs_length_le r H2). lia.
  Qed.

  Theorem shift_refines : forall i ch ch', ok ch -> shift i ch = Some ch' ->
    abs ch' = abs ch /\ ok ch' /\ total ch' = total ch.
  Proof.
    induction i as [|i IH]; intros ch ch' Hok H.
    - destruct ch as [|[c0 q0] [|[c1 q1] r]]; try discriminate. cbn [shift] in H.
      destruct q0 as [|y q0']; [discriminate|]. destruct (length q1 <? c1) eqn:E; [|discriminate].
      inversion H; subst. clear H. apply Nat.ltb_lt in E.
      inversion Hok as [|? ? H0 Hr]; subst. inversion Hr as [|? ? H1 Hr']; subst. cbn [fst snd] in *.
      rewrite !abs_cons. cbn [snd]. split; [rewrite <- !app_assoc; reflexivity|].
      split; [|reflexivity].
      constructor; [cbn [fst snd length] in *; lia|]. constructor; [cbn [fst snd]; rewrite app_length; cbn; lia|assumption].
    - destruct ch as [|[c0 q0] [|[c1 q1] r]]; try discriminate. apply shift_S_inv in H. destruct H as [rest' [E ->]].
      inversion Hok; subst. destruct (IH _ _ H2 E) as [Ha [Ho Ht]].
      split; [rewrite !abs_cons in *; rewrite Ha; reflexivity|].
      split; [constructor; assumption|].
      rewrite !total_cons in *. lia.
  Qed.

  Theorem pop_refines : forall ch y ch', ok ch -> pop ch = Some (y, ch') ->
    abs ch = y :: abs ch' /\ ok ch' /\ total ch' = total ch.
  Proof.
    induction ch as [|[c q] r IH]; intros y ch' Hok H; [discriminate|].
    destruct r as [|s r'].
    - cbn [pop] in H. destruct q as [|z q']; [discriminate|]. inversion H; subst. clear H.
      unfold abs. cbn. rewrite !app_nil_r. split; [reflexivity|]. split; [|reflexivity].
      inversion Hok; subst. constructor; [cbn [fst snd length] in *; lia|constructor].
    - apply pop_cons_inv in H. destruct H as [r'' [E ->]].
      inversion Hok; subst. destruct (IH _ _ H2 E) as [Ha [Ho Ht]].
      split; [rewrite !abs_cons in *; rewrite Ha; reflexivity|].
      split; [constructor; assumption|].
      rewrite !total_cons in *. lia.
  Qed.

  (** ** liveness *)
  Fixpoint weight (ch : chain) : nat :=
    match ch with
    | [] => 0
    | (_, q) :: r => length q * S (length r) + weight r
    end.

  (** internal moves terminate: each one decreases [weight] *)
  Theorem shift_decreases : forall i ch ch', shift i ch = Some ch' -> weight ch' < weight ch /\ length ch' = length ch.
  Proof.
    induction i as [|i IH]; intros ch ch' H.
    - destruct ch as [|[c0 q0] [|[c1 q1] r]]; try discriminate. cbn [shift] in H.
      destruct q0 as [|y q0']; [discriminate|]. destruct (length q1 <? c1); [|discriminate].
      inversion H; subst. cbn [weight length]. rewrite app_length. cbn [length]. split; [nia|reflexivity].
    - destruct ch as [|[c0 q0] [|[c1 q1] r]]; try discriminate.
      apply shift_S_inv in H. destruct H as [rest' [E ->]].
      destruct (IH _ _ E) as [Hw Hl]. cbn [weight length] in *. rewrite Hl. split; [cbn [length] in *; nia|cbn [length] in *; lia].
  Qed.

  Definition stuck (ch : chain) : Prop := forall i, shift i ch = None.

  Lemma stuck_cons c0 q0 c1 q1 r : stuck ((c0, q0) :: (c1, q1) :: r) ->
    (q0 = [] \/ c1 <= length q1) /\ stuck ((c1, q1) :: r).
  Proof.
    intro H. split.
    - specialize (H 0). cbn [shift] in H. destruct q0 as [|y q]; [left; reflexivity|right].
      destruct (length q1 <? c1) eqn:E; [discriminate|]. apply Nat.ltb_ge in E. exact E.
    - intro i. apply (shift_S_none i (c0, q0)). apply H.
  Qed.

  (** once no internal move is possible, a non-empty series offers its oldest item *)
  Theorem stuck_offers : forall ch, caps_pos ch -> stuck ch -> abs ch <> [] ->
    exists y ch', pop ch = Some (y, ch').
  Proof.
    induction ch as [|[c0 q0] r IH]; intros Hc Hs Hne; [exfalso; apply Hne; reflexivity|].
    destruct r as [|[c1 q1] r'].
    - unfold abs in Hne. cbn in Hne. rewrite app_nil_r in Hne. destruct q0 as [|y q]; [contradiction|].
      eexists. eexists. reflexivity.
    - destruct (stuck_cons _ _ _ _ _ Hs) as [Hfull Hs']. inversion Hc as [|? ? _ Hc']; subst.
      assert (Hne' : abs ((c1, q1) :: r') <> []).
      { intro E. pose proof (abs_cons (c0, q0) ((c1, q1) :: r')) as X. rewrite E in X. cbn [app snd] in X.
        pose proof (abs_cons (c1, q1) r') as Y. rewrite E in Y. symmetry in Y. apply app_eq_nil in Y.
        destruct Y as [_ Y]. cbn [snd] in Y. subst q1.
        destruct Hfull as [->|Hf]; [apply Hne; exact X|]. inversion Hc' as [|? ? H1 _]; subst. cbn [fst length] in *. lia. }
      destruct (IH Hc' Hs' Hne') as [y [ch' E]].
      exists y, ((c0, q0) :: ch').
      rewrite pop_cons, E. reflexivity.
  Qed.

  Lemma stuck_full : forall r c0 q0, caps_pos ((c0, q0) :: r) -> ok ((c0, q0) :: r) -> stuck ((c0, q0) :: r) ->
    q0 <> [] -> length (abs r) = total r.
  Proof.
    induction r as [|[c1 q1] r IH]; intros c0 q0 Hc Hok Hs Hne; [reflexivity|].
    destruct (stuck_cons _ _ _ _ _ Hs) as [[E|Hf] Hs']; [contradiction|].
    inversion Hc as [|? ? _ Hc']; subst. inversion Hok as [|? ? _ Hok']; subst.
    inversion Hc' as [|? ? H1 _]; subst. inversion Hok' as [|? ? H2 _]; subst. cbn [fst snd] in *.
    assert (Hq : q1 <> []) by (intros ->; cbn in Hf; lia).
    rewrite abs_cons, app_length, total_cons. cbn [fst snd]. rewrite (IH c1 q1 Hc' Hok' Hs' Hq). lia.
  Qed.

  (** ... and a series that is not full (as ONE buffer) accepts a new item *)
  Theorem stuck_accepts x ch : ch <> [] -> caps_pos ch -> ok ch -> stuck ch ->
    length (abs ch) < total ch -> exists ch', push x ch = Some ch'.
  Proof.
    intros Hne Hc Hok Hs Hlt. destruct ch as [|[c0 q0] r]; [contradiction|]. cbn [push].
    destruct (length q0 <? c0) eqn:E; [eexists; reflexivity|exfalso]. apply Nat.ltb_ge in E.
    inversion Hc as [|? ? H1 _]; subst. inversion Hok as [|? ? H2 _]; subst. cbn [fst snd] in *.
    assert (Hq : q0 <> []) by (intros ->; cbn in E; lia).
    pose proof (stuck_full r c0 q0 Hc Hok Hs Hq) as Hf.
    rewrite abs_cons, app_length, total_cons in Hlt. cbn [fst snd] in Hlt. lia.
  Qed.
End Chain.
