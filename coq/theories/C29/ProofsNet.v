(** C29 — the abstract channel network: conservation (nothing lost, nothing
    duplicated), termination (every move brings a packet closer), deadlock
    freedom under a channel ranking (Dally–Seitz), hence delivery of everything
    under ANY arbitration as long as devices keep draining. *)
From Coq Require Import Permutation.
From Akita Require Import Lib.Base C30.Model C29.Model.

Definition in_flight (st : net) : list pkt := concat (n_chan st).
Definition all_pkts (st : net) : list pkt := in_flight st ++ n_done st.

(** * lists of channels *)
Lemma upd_split {A} (l : list A) c x d : c < length l ->
  upd l c x = firstn c l ++ x :: skipn (S c) l /\ l = firstn c l ++ nth c l d :: skipn (S c) l.
Proof.
  revert c. induction l as [|y l IH]; intros c Hc; [cbn in Hc; lia|].
  destruct c as [|c]; cbn [upd firstn skipn nth app]; [auto|].
  cbn [length] in Hc. destruct (IH c ltac:(lia)) as [H1 H2]. split; [rewrite H1; reflexivity|].
  f_equal. exact H2.
Qed.

Lemma nth_nonnil_lt {A} (l : list (list A)) c : nth c l [] <> [] -> c < length l.
Proof. intro H. destruct (Nat.lt_ge_cases c (length l)) as [L|L]; [exact L|]. rewrite nth_overflow in H by exact L. contradiction. Qed.

Lemma concat_take (l : list (list pkt)) c p q : nth c l [] = p :: q ->
  Permutation (concat l) (p :: concat (upd l c q)).
Proof.
  intro H. assert (Hc : c < length l) by (apply nth_nonnil_lt; rewrite H; discriminate).
  destruct (upd_split l c q [] Hc) as [H1 H2]. rewrite H1. rewrite H2 at 1. rewrite H.
  rewrite !concat_app. cbn [concat]. rewrite <- app_comm_cons.
  apply Permutation_sym. apply Permutation_middle.
Qed.

Lemma concat_put (l : list (list pkt)) c p : c < length l ->
  Permutation (concat (app_at l c p)) (p :: concat l).
Proof.
  intro Hc. unfold app_at. destruct (upd_split l c (nth c l [] ++ [p]) [] Hc) as [H1 H2].
  rewrite H1. set (A := firstn c l) in *. set (X := nth c l []) in *. set (B := skipn (S c) l) in *.
  assert (E : concat l = concat A ++ X ++ concat B) by (rewrite H2; rewrite concat_app; reflexivity).
  rewrite E. rewrite concat_app. cbn [concat]. rewrite <- app_assoc. cbn [app].
  apply Permutation_sym. etransitivity; [apply Permutation_middle|].
  apply Permutation_app_head. apply Permutation_middle.
Qed.

Section NetProofs.
  Variable next : nat -> nat -> option nat.
  Variable cap : nat -> nat.
  Variable nchan : nat.
  Variable valid : nat -> nat -> Prop.      (* packets for destination d may sit in channel c *)
  Variable pot : nat -> nat -> nat.         (* remaining hops from channel c to destination d *)
  Variable rank : nat -> nat.               (* the channel ranking *)

  Hypothesis cap_pos : forall c, 1 <= cap c.
  Hypothesis next_ok : forall c d c', valid c d -> next c d = Some c' ->
    valid c' d /\ c' < nchan /\ pot c' d < pot c d /\ rank c < rank c'.

  Definition wf (st : net) : Prop :=
    length (n_chan st) = nchan /\ forall c p, In p (nth c (n_chan st) []) -> valid c (snd p).

  Lemma nth_upd_chan (l : list (list pkt)) c x k : nth k (upd l c x) [] = if (k =? c) && (c <? length l) then x else nth k l [].
  Proof.
    revert c k. induction l as [|y l IH]; intros c k; cbn [upd length].
    - destruct c, k; cbn; try reflexivity; rewrite ?andb_false_r; reflexivity.
    - destruct c as [|c], k as [|k]; cbn [nth upd]; try reflexivity. rewrite IH. cbn [Nat.eqb].
      replace (S c <? S (length l)) with (c <? length l); [reflexivity|].
      apply eq_true_iff_eq. rewrite !Nat.ltb_lt. lia.
  Qed.

  Lemma upd_len {A} (l : list A) c x : length (upd l c x) = length l.
  Proof. revert c. induction l as [|y l IH]; intros [|c]; cbn [upd length]; auto. Qed.

  (** ** conservation *)
  Lemma move_conserves st c st' : move next cap st c = Some st' ->
    Permutation (all_pkts st) (all_pkts st').
  Proof.
    unfold move, all_pkts, in_flight. destruct (nth c (n_chan st) []) as [|p q] eqn:E; [discriminate|].
    pose proof (concat_take _ _ _ _ E) as P1.
    destruct (next c (snd p)) as [c'|].
    - destruct ((c' <? length (n_chan st)) && negb (c' =? c) && room cap st c') eqn:G; [|discriminate].
      intro H. inversion H; subst. clear H. cbn [n_chan n_done].
      apply andb_true_iff in G. destruct G as [G _]. apply andb_true_iff in G. destruct G as [G _]. apply Nat.ltb_lt in G.
      apply Permutation_app_tail. etransitivity; [exact P1|].
      apply Permutation_sym. apply concat_put. rewrite upd_len. exact G.
    - intro H. inversion H; subst. clear H. cbn [n_chan n_done].
      etransitivity; [apply Permutation_app_tail; exact P1|]. cbn [app].
      rewrite app_assoc. apply Permutation_cons_append.
  Qed.

  Lemma move_wf st c st' : wf st -> move next cap st c = Some st' -> wf st'.
  Proof.
    intros [Hl Hv]. unfold move. destruct (nth c (n_chan st) []) as [|p q] eqn:E; [discriminate|].
    assert (Hc : c < length (n_chan st)) by (apply nth_nonnil_lt; rewrite E; discriminate).
    assert (Hvp : valid c (snd p)) by (apply Hv; rewrite E; left; reflexivity).
    destruct (next c (snd p)) as [c'|] eqn:En.
    - destruct ((c' <? length (n_chan st)) && negb (c' =? c) && room cap st c') eqn:G; [|discriminate].
      intro H. inversion H; subst. clear H. unfold wf. cbn [n_chan n_done].
      destruct (next_ok _ _ _ Hvp En) as [Hv' _].
      split; [unfold app_at; rewrite !upd_len; exact Hl|].
      intros k x Hin. unfold app_at in Hin. rewrite nth_upd_chan in Hin. rewrite upd_len in Hin.
      destruct ((k =? c') && (c' <? length (n_chan st))) eqn:K.
      + apply andb_true_iff in K. destruct K as [K _]. apply Nat.eqb_eq in K. subst k.
        apply in_app_or in Hin. destruct Hin as [Hin|[<-|[]]]; [|exact Hv'].
        rewrite nth_upd_chan in Hin. destruct ((c' =? c) && (c <? length (n_chan st))) eqn:K2.
        * apply andb_true_iff in K2. destruct K2 as [K2 _]. apply Nat.eqb_eq in K2. subst c'.
          apply Hv. rewrite E. right. exact Hin.
        * apply Hv. exact Hin.
      + rewrite nth_upd_chan in Hin. destruct ((k =? c) && (c <? length (n_chan st))) eqn:K2.
        * apply andb_true_iff in K2. destruct K2 as [K2 _]. apply Nat.eqb_eq in K2. subst k.
          apply Hv. rewrite E. right. exact Hin.
        * apply Hv. exact Hin.
    - intro H. inversion H; subst. clear H. unfold wf. cbn [n_chan n_done].
      split; [rewrite upd_len; exact Hl|]. intros k x Hin. rewrite nth_upd_chan in Hin.
      destruct ((k =? c) && (c <? length (n_chan st))) eqn:K2.
      + apply andb_true_iff in K2. destruct K2 as [K2 _]. apply Nat.eqb_eq in K2. subst k.
        apply Hv. rewrite E. right. exact Hin.
      + apply Hv. exact Hin.
  Qed.

  (** ** termination measure: total remaining hops (+1 for the ejection) *)
  Definition weight (c : nat) (p : pkt) : nat := S (pot c (snd p)).

  Fixpoint meas (k : nat) (l : list (list pkt)) : nat :=
    match l with
    | [] => 0
    | q :: r => list_sum (map (weight k) q) + meas (S k) r
    end.

  Lemma list_sum_cons a l : list_sum (a :: l) = a + list_sum l.
  Proof. reflexivity. Qed.

  Lemma meas_take l : forall k c p q, nth c l [] = p :: q ->
    meas k l = weight (k + c) p + meas k (upd l c q).
  Proof.
    induction l as [|y l IH]; intros k c p q H; [destruct c; discriminate|].
    destruct c as [|c]; cbn [nth upd meas] in *.
    - subst y. cbn [map]. rewrite list_sum_cons. replace (k + 0) with k by lia. lia.
    - rewrite (IH (S k) c p q H). replace (S k + c) with (k + S c) by lia. lia.
  Qed.

  Lemma list_sum_snoc l x : list_sum (l ++ [x]) = list_sum l + x.
  Proof. induction l as [|y l IH]; cbn [app]; [cbn; lia|rewrite !list_sum_cons, IH; lia]. Qed.

  Lemma meas_put l : forall k c p, c < length l ->
    meas k (app_at l c p) = meas k l + weight (k + c) p.
  Proof.
    unfold app_at. induction l as [|y l IH]; intros k c p Hc; [cbn in Hc; lia|].
    destruct c as [|c]; cbn [nth upd meas].
    - rewrite map_app. cbn [map]. rewrite list_sum_snoc. replace (k + 0) with k by lia. lia.
    - cbn [length] in Hc. rewrite (IH (S k) c p ltac:(lia)). replace (S k + c) with (k + S c) by lia. lia.
  Qed.

  Definition measure (st : net) : nat := meas 0 (n_chan st).

  Lemma move_decreases st c st' : wf st -> move next cap st c = Some st' -> measure st' < measure st.
  Proof.
    intros [_ Hv]. unfold move, measure. destruct (nth c (n_chan st) []) as [|p q] eqn:E; [discriminate|].
    assert (Hvp : valid c (snd p)) by (apply Hv; rewrite E; left; reflexivity).
    rewrite (meas_take _ 0 c p q E). cbn [Nat.add].
    destruct (next c (snd p)) as [c'|] eqn:En.
    - destruct ((c' <? length (n_chan st)) && negb (c' =? c) && room cap st c') eqn:G; [|discriminate].
      intro H. inversion H; subst. clear H. cbn [n_chan].
      apply andb_true_iff in G. destruct G as [G _]. apply andb_true_iff in G. destruct G as [G _]. apply Nat.ltb_lt in G.
      rewrite meas_put by (rewrite upd_len; exact G). cbn [Nat.add].
      destruct (next_ok _ _ _ Hvp En) as [_ [_ [Hp _]]]. unfold weight. lia.
    - intro H. inversion H; subst. clear H. cbn [n_chan]. unfold weight. lia.
  Qed.

  (** ** deadlock freedom *)
  Lemma argmax (l : list nat) : l <> [] -> exists x, In x l /\ forall y, In y l -> rank y <= rank x.
  Proof.
    induction l as [|a l IH]; intro H; [contradiction|].
    destruct l as [|b l].
    - exists a. split; [left; reflexivity|]. intros y [<-|[]]. lia.
    - destruct (IH ltac:(discriminate)) as [x [Hx Hmax]].
      destruct (Nat.le_gt_cases (rank a) (rank x)) as [L|L].
      + exists x. split; [right; exact Hx|]. intros y [<-|Hy]; [exact L|apply Hmax; exact Hy].
      + exists a. split; [left; reflexivity|]. intros y [<-|Hy]; [lia|]. specialize (Hmax y Hy). lia.
  Qed.

  Lemma concat_nonnil (l : list (list pkt)) : concat l <> [] -> exists c, nth c l [] <> [].
  Proof.
    induction l as [|q l IH]; intro H; [contradiction|]. cbn [concat] in H.
    destruct q as [|p q]; [|exists 0; discriminate].
    destruct (IH H) as [c Hc]. exists (S c). exact Hc.
  Qed.

  Theorem no_deadlock st : wf st -> in_flight st <> [] -> exists c st', move next cap st c = Some st'.
  Proof.
    intros [Hl Hv] Hne. unfold in_flight in Hne.
    set (ne := filter (fun c => negb (is_nil (nth c (n_chan st) []))) (seq 0 nchan)).
    assert (Hin : forall c, In c ne <-> nth c (n_chan st) [] <> []).
    { intro c. unfold ne. rewrite filter_In, in_seq. split.
      - intros [_ H] E. rewrite E in H. discriminate.
      - intro H. split; [pose proof (nth_nonnil_lt _ _ H); lia|]. destruct (nth c (n_chan st) []); [contradiction|reflexivity]. }
    assert (Hne' : ne <> []).
    { destruct (concat_nonnil _ Hne) as [c Hc]. apply Hin in Hc. intro E. rewrite E in Hc. destruct Hc. }
    destruct (argmax ne Hne') as [c [Hc Hmax]].
    apply Hin in Hc. destruct (nth c (n_chan st) []) as [|p q] eqn:E; [contradiction|].
    exists c. unfold move. rewrite E.
    assert (Hvp : valid c (snd p)) by (apply Hv; rewrite E; left; reflexivity).
    destruct (next c (snd p)) as [c'|] eqn:En; [|eexists; reflexivity].
    destruct (next_ok _ _ _ Hvp En) as [_ [Hlt [_ Hr]]].
    assert (Hempty : nth c' (n_chan st) [] = []).
    { destruct (nth c' (n_chan st) []) as [|x y] eqn:E'; [reflexivity|].
      assert (In c' ne) by (apply Hin; rewrite E'; discriminate). specialize (Hmax c' H). lia. }
    assert (G : (c' <? length (n_chan st)) && negb (c' =? c) && room cap st c' = true).
    { rewrite Hl. apply andb_true_iff. split; [apply andb_true_iff; split|].
      - apply Nat.ltb_lt. exact Hlt.
      - apply negb_true_iff. apply Nat.eqb_neq. intro. subst. lia.
      - unfold room. rewrite Hempty. cbn [length]. apply Nat.ltb_lt. apply cap_pos. }
    rewrite G. eexists. reflexivity.
  Qed.

  (** ** executions *)
  Lemma run_conserves cs : forall st st', run next cap st cs = Some st' -> Permutation (all_pkts st) (all_pkts st').
  Proof.
    induction cs as [|c r IH]; intros st st' H; cbn [run] in H; [inversion H; reflexivity|].
    destruct (move next cap st c) as [s1|] eqn:M; [|discriminate].
    etransitivity; [eapply move_conserves; exact M|]. apply IH. exact H.
  Qed.

  Lemma run_wf cs : forall st st', wf st -> run next cap st cs = Some st' -> wf st'.
  Proof.
    induction cs as [|c r IH]; intros st st' Hw H; cbn [run] in H; [inversion H; subst; exact Hw|].
    destruct (move next cap st c) as [s1|] eqn:M; [|discriminate]. eapply IH; [eapply move_wf; eauto|exact H].
  Qed.

  (** every execution is finite: at most [measure] moves *)
  Lemma run_bounded cs : forall st st', wf st -> run next cap st cs = Some st' ->
    length cs + measure st' <= measure st.
  Proof.
    induction cs as [|c r IH]; intros st st' Hw H; cbn [run] in H; [inversion H; subst; cbn; lia|].
    destruct (move next cap st c) as [s1|] eqn:M; [|discriminate].
    pose proof (move_decreases _ _ _ Hw M). specialize (IH _ _ (move_wf _ _ _ Hw M) H). cbn [length]. lia.
  Qed.

  (** a stuck state has delivered everything *)
  Lemma stuck_done st : wf st -> (forall c, move next cap st c = None) -> in_flight st = [].
  Proof.
    intros Hw Hs. destruct (in_flight st) eqn:E; [reflexivity|].
    destruct (no_deadlock st Hw) as [c [st' M]]; [rewrite E; discriminate|]. rewrite Hs in M. discriminate.
  Qed.

  (** an execution that cannot be extended has handed every packet to its device, exactly once *)
  Theorem maximal_run_delivers st cs st' : wf st -> run next cap st cs = Some st' ->
    (forall c, move next cap st' c = None) ->
    in_flight st' = [] /\ Permutation (n_done st') (all_pkts st).
  Proof.
    intros Hw Hr Hs. pose proof (stuck_done st' (run_wf _ _ _ Hw Hr) Hs) as E. split; [exact E|].
    pose proof (run_conserves _ _ _ Hr) as P. unfold all_pkts in P at 2. rewrite E in P. cbn [app] in P.
    apply Permutation_sym. exact P.
  Qed.

  (** and such an execution always exists, of length at most [measure st] *)
  Theorem delivering_run_exists st : wf st ->
    exists cs st', run next cap st cs = Some st' /\ length cs <= measure st /\
                   in_flight st' = [] /\ Permutation (n_done st') (all_pkts st).
  Proof.
    remember (measure st) as m eqn:Hm. revert st Hm.
    induction m as [m IH] using lt_wf_ind. intros st Hm Hw.
    destruct (in_flight st) as [|x y] eqn:E.
    - exists [], st. cbn [run length]. split; [reflexivity|]. split; [lia|]. split; [exact E|].
      unfold all_pkts. rewrite E. reflexivity.
    - destruct (no_deadlock st Hw) as [c [s1 M]]; [rewrite E; discriminate|].
      pose proof (move_decreases _ _ _ Hw M) as D.
      destruct (IH (measure s1) ltac:(lia) s1 eq_refl (move_wf _ _ _ Hw M)) as [cs [st' [R [L [F P]]]]].
      exists (c :: cs), st'. cbn [run length]. rewrite M. split; [exact R|]. split; [lia|]. split; [exact F|].
      etransitivity; [exact P|]. apply Permutation_sym. eapply move_conserves. exact M.
  Qed.
End NetProofs.
