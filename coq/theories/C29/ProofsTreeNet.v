(** C29 — the abstract channel network instantiated with a tree (PCIe): the nodes
    (switches and, as leaves, device endpoints) are numbered [0 .. n-1], node 0 is
    the root complex and [par v < v] is the parent of [v > 0] — exactly how the
    PCIe connector grows a network (every AddSwitch / PlugInDevice attaches a new
    node below an existing one).  Every link carries an up channel and a down
    channel; routing is the unique shortest path: up until the current node is an
    ancestor of the destination, then down.  Channel rank: up channels by
    decreasing depth, then down channels by increasing depth, then ejection. *)
From Coq Require Import Permutation.
From Akita Require Import Lib.Base C29.Model C29.ProofsNet C29.ProofsMeshNet.

Section Tree.
  Variable n : nat.
  Variable par : nat -> nat.
  Hypothesis par_lt : forall v, 0 < v < n -> par v < v.

  (** the path from [t] up to the root *)
  Fixpoint path_f (f t : nat) : list nat :=
    t :: match f with
         | O => []
         | S f' => if t =? 0 then [] else path_f f' (par t)
         end.
  Definition path (t : nat) : list nat := path_f n t.

  Lemma path_f_enough : forall t f1 f2, t < n -> t <= f1 -> t <= f2 -> path_f f1 t = path_f f2 t.
  Proof.
    induction t as [t IH] using lt_wf_ind. intros f1 f2 Ht H1 H2.
    destruct t as [|t'].
    - destruct f1, f2; reflexivity.
    - destruct f1 as [|f1]; [lia|]. destruct f2 as [|f2]; [lia|]. cbn [path_f Nat.eqb]. f_equal.
      pose proof (par_lt (S t') ltac:(lia)). apply IH; lia.
  Qed.

  Lemma path_unfold t : t < n -> path t = t :: (if t =? 0 then [] else path (par t)).
  Proof.
    intro Ht. unfold path. replace (path_f n t) with (path_f (S (n - 1)) t) by (f_equal; lia).
    cbn [path_f]. f_equal. destruct (t =? 0) eqn:E; [reflexivity|]. apply Nat.eqb_neq in E.
    pose proof (par_lt t ltac:(lia)). apply path_f_enough; lia.
  Qed.

  Lemma path_props : forall t, t < n -> In 0 (path t) /\ (forall x, In x (path t) -> x <= t) /\ 1 <= length (path t) <= S t.
  Proof.
    induction t as [t IH] using lt_wf_ind. intro Ht. rewrite (path_unfold t Ht).
    destruct (t =? 0) eqn:E.
    - apply Nat.eqb_eq in E. subst. cbn. split; [auto|]. split; [intros x [<-|[]]; lia|lia].
    - apply Nat.eqb_neq in E. pose proof (par_lt t ltac:(lia)) as Hp.
      destruct (IH (par t) Hp ltac:(lia)) as [H0 [Hle Hlen]].
      split; [right; exact H0|]. split; [intros x [<-|Hx]; [lia|specialize (Hle x Hx); lia]|cbn [length]; lia].
  Qed.

  Definition depth (t : nat) : nat := length (path t) - 1.

  Lemma depth_step v : 0 < v < n -> depth v = S (depth (par v)).
  Proof.
    intro Hv. unfold depth. rewrite (path_unfold v ltac:(lia)).
    assert (E : (v =? 0) = false) by (apply Nat.eqb_neq; lia). rewrite E. cbn [length].
    pose proof (par_lt v Hv). destruct (path_props (par v) ltac:(lia)) as [_ [_ Hl]]. lia.
  Qed.

  Lemma depth_le v : v < n -> depth v <= v.
  Proof. intro Hv. unfold depth. destruct (path_props v Hv) as [_ [_ Hl]]. lia. Qed.

  (** [u] is [t] or an ancestor of [t] *)
  Definition anc (u t : nat) : bool := existsb (Nat.eqb u) (path t).

  Lemma anc_In u t : anc u t = true <-> In u (path t).
  Proof.
    unfold anc. rewrite existsb_exists. split.
    - intros [x [Hx E]]. apply Nat.eqb_eq in E. subst. exact Hx.
    - intro H. exists u. split; [exact H|apply Nat.eqb_refl].
  Qed.

  (** the element just before [u] in a path: the child of [u] on the way down to [t] *)
  Fixpoint before (u : nat) (l : list nat) : nat :=
    match l with
    | a :: (b :: _) as r => if b =? u then a else before u r
    | _ => 0
    end.
  Definition toward (u t : nat) : nat := before u (path t).

  Lemma toward_props : forall t u, t < n -> In u (path t) -> u <> t ->
    let c := toward u t in par c = u /\ 0 < c < n /\ In c (path t).
  Proof.
    induction t as [t IH] using lt_wf_ind. intros u Ht Hin Hne. cbn zeta. unfold toward.
    rewrite (path_unfold t Ht) in *. destruct (t =? 0) eqn:E.
    - destruct Hin as [<-|[]]. contradiction.
    - apply Nat.eqb_neq in E. pose proof (par_lt t ltac:(lia)) as Hp.
      destruct Hin as [Hin|Hin]; [subst; contradiction|].
      pose proof (path_unfold (par t) ltac:(lia)) as Epp.
      destruct (path (par t)) as [|b r] eqn:Eq; [discriminate|]. injection Epp as Eb Er.
      change (before u (t :: b :: r)) with (if b =? u then t else before u (b :: r)).
      destruct (b =? u) eqn:Eu.
      + apply Nat.eqb_eq in Eu. split; [lia|]. split; [lia|left; reflexivity].
      + apply Nat.eqb_neq in Eu.
        assert (Hin' : In u (path (par t))) by (rewrite Eq; exact Hin).
        destruct (IH (par t) Hp u ltac:(lia) Hin' ltac:(lia)) as [H1 [H2 H3]]. unfold toward in *.
        rewrite Eq in H1, H2, H3. split; [exact H1|]. split; [exact H2|right; exact H3].
  Qed.

  (** * channels *)
  Inductive tchan := Up (v : nat) | Down (v : nat) | Ej (v : nat).

  Definition tenc (c : tchan) : nat :=
    match c with Up v => 3 * v | Down v => 3 * v + 1 | Ej v => 3 * v + 2 end.
  Definition tdec (c : nat) : tchan :=
    match c mod 3 with 0 => Up (c / 3) | 1 => Down (c / 3) | _ => Ej (c / 3) end.

  Lemma tdec_enc c : tdec (tenc c) = c.
  Proof.
    destruct c as [v|v|v]; unfold tdec, tenc.
    - replace ((3 * v) mod 3) with 0 by lia. replace (3 * v / 3) with v by lia. reflexivity.
    - replace ((3 * v + 1) mod 3) with 1 by lia. replace ((3 * v + 1) / 3) with v by lia. reflexivity.
    - replace ((3 * v + 2) mod 3) with 2 by lia. replace ((3 * v + 2) / 3) with v by lia. reflexivity.
  Qed.

  (** the channel a packet for [t] takes at node [u] *)
  Definition route (u t : nat) : tchan :=
    if u =? t then Ej u else if anc u t then Down (toward u t) else Up u.

  Definition tnext_c (c : tchan) (t : nat) : option tchan :=
    match c with
    | Up v => Some (route (par v) t)
    | Down v => Some (route v t)
    | Ej _ => None
    end.

  Definition tvalid_c (c : tchan) (t : nat) : Prop :=
    t < n /\
    match c with
    | Up v => 0 < v < n /\ anc v t = false
    | Down v => 0 < v < n /\ anc v t = true
    | Ej v => v = t
    end.

  Definition trank_c (c : tchan) : nat :=
    match c with
    | Up v => n - depth v
    | Down v => n + 1 + depth v
    | Ej _ => 2 * n + 2
    end.

  Lemma tnode_lt c t : tvalid_c c t -> match c with Up v | Down v | Ej v => v < n end.
  Proof. destruct c; intros [Ht H]; lia. Qed.

  Lemma route_valid u t : u < n -> t < n -> tvalid_c (route u t) t.
  Proof.
    intros Hu Ht. unfold route. destruct (u =? t) eqn:E.
    - apply Nat.eqb_eq in E. split; [exact Ht|exact E].
    - apply Nat.eqb_neq in E. destruct (anc u t) eqn:A.
      + apply anc_In in A. destruct (toward_props t u Ht A E) as [H1 [H2 H3]].
        split; [exact Ht|]. split; [exact H2|apply anc_In; exact H3].
      + split; [exact Ht|]. split; [|exact A].
        destruct (Nat.eq_dec u 0) as [->|Hne]; [|lia].
        exfalso. destruct (path_props t Ht) as [H0 _]. apply anc_In in H0. congruence.
  Qed.

  Lemma tree_channel_ranking c t c' : tvalid_c c t -> tnext_c c t = Some c' ->
    tvalid_c c' t /\ trank_c c < trank_c c' /\ trank_c c' <= 2 * n + 2.
  Proof.
    intros [Ht Hv] H. destruct c as [v|v|v]; cbn [tnext_c] in H; [| |discriminate]; inversion H; subst c'; clear H.
    - destruct Hv as [Hv Ha]. pose proof (par_lt v Hv) as Hp.
      split; [apply route_valid; lia|].
      pose proof (depth_step v Hv) as Hd. pose proof (depth_le v ltac:(lia)) as Hdl.
      unfold route. destruct (par v =? t) eqn:E; cbn [trank_c]; [lia|].
      destruct (anc (par v) t) eqn:A; cbn [trank_c].
      + apply anc_In in A. apply Nat.eqb_neq in E.
        destruct (toward_props t (par v) Ht A E) as [_ [H2 _]]. pose proof (depth_le (toward (par v) t) ltac:(lia)). lia.
      + lia.
    - destruct Hv as [Hv Ha]. split; [apply route_valid; lia|].
      unfold route. destruct (v =? t) eqn:E; cbn [trank_c]; [pose proof (depth_le v ltac:(lia)); lia|].
      rewrite Ha. cbn [trank_c]. apply Nat.eqb_neq in E. apply anc_In in Ha.
      destruct (toward_props t v Ht Ha E) as [H1 [H2 _]].
      pose proof (depth_step (toward v t) H2) as Hd. rewrite H1 in Hd.
      pose proof (depth_le (toward v t) ltac:(lia)). lia.
  Qed.

  (** * the numbered network *)
  Definition tnchan : nat := 3 * n.
  Definition tnext (c d : nat) : option nat :=
    match tnext_c (tdec c) d with Some c' => Some (tenc c') | None => None end.
  Definition tvalid (c d : nat) : Prop := tvalid_c (tdec c) d.
  Definition trank (c : nat) : nat := trank_c (tdec c).
  Definition tpot (c d : nat) : nat := 2 * n + 3 - trank c.

  Lemma tnext_ok c d c' : tvalid c d -> tnext c d = Some c' ->
    tvalid c' d /\ c' < tnchan /\ tpot c' d < tpot c d /\ trank c < trank c'.
  Proof.
    unfold tvalid, tnext, tpot, trank. intros Hv H.
    destruct (tnext_c (tdec c) d) as [cm|] eqn:E; [|discriminate]. inversion H; subst c'. clear H.
    destruct (tree_channel_ranking _ _ _ Hv E) as [Hv' [Hr Hb]]. rewrite tdec_enc.
    split; [exact Hv'|]. split; [|split; lia].
    pose proof (tnode_lt _ _ Hv'). unfold tnchan. destruct cm; cbn [tenc]; lia.
  Qed.

  (** every message [(id, source node, destination node)] starts on the channel its source selects *)
  Definition tree_initial (pkts : list (N * nat * nat)) : net :=
    mk_net (map (fun c => map (fun p => (fst (fst p), snd p))
                              (filter (fun p => tenc (route (snd (fst p)) (snd p)) =? c) pkts))
                (seq 0 tnchan))
           [].

  Section Initial.
    Variable pkts : list (N * nat * nat).
    Hypothesis in_tree : forall p, In p pkts -> snd (fst p) < n /\ snd p < n.

    Lemma tree_initial_wf : wf tnchan tvalid (tree_initial pkts).
    Proof.
      unfold tree_initial. split; cbn [n_chan]; [rewrite map_length, seq_length; reflexivity|].
      intros c q Hin. destruct (Nat.lt_ge_cases c tnchan) as [Hc|Hc].
      - rewrite nth_map_seq0 in Hin by exact Hc. cbn [Nat.add] in Hin.
        apply in_map_iff in Hin. destruct Hin as [p [Hq Hp]]. apply filter_In in Hp. destruct Hp as [Hp Hc'].
        apply Nat.eqb_eq in Hc'. subst q c. cbn [snd]. destruct (in_tree p Hp) as [Hs Hd].
        unfold tvalid. rewrite tdec_enc. apply route_valid; assumption.
      - rewrite nth_overflow in Hin by (rewrite map_length, seq_length; exact Hc). destruct Hin.
    Qed.

    Lemma tree_initial_pkts :
      Permutation (all_pkts (tree_initial pkts)) (map (fun p => (fst (fst p), snd p)) pkts).
    Proof.
      unfold all_pkts, in_flight, tree_initial. cbn [n_chan n_done]. rewrite app_nil_r.
      rewrite <- (map_map (fun c => filter (fun p => tenc (route (snd (fst p)) (snd p)) =? c) pkts)
                          (map (fun p : N * nat * nat => (fst (fst p), snd p)))).
      rewrite <- concat_map. apply Permutation_map. apply bucket_perm.
      intros p Hp. destruct (in_tree p Hp) as [Hs Hd]. cbn [Nat.add]. split; [lia|].
      pose proof (tnode_lt _ _ (route_valid _ _ Hs Hd)). unfold tnchan.
      destruct (route (snd (fst p)) (snd p)); cbn [tenc]; lia.
    Qed.
  End Initial.
End Tree.
