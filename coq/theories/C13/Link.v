(** C13 — agreement with the model implies the property predicate on the
    observed history ([Exec.check_case] -> [Exec.holds_on]). *)
From Akita Require Import Lib.Base C13.Model C13.Proofs C13.Exec.
Local Open Scope N_scope.

Lemma req_eqb_eq a b : req_eqb a b = true -> a = b.
Proof. destruct a, b; cbn; try discriminate; try reflexivity. intro H. apply N.eqb_eq in H. congruence. Qed.

Lemma obs_eqb_eq a b : obs_eqb a b = true -> a = b.
Proof. destruct a, b; cbn; try discriminate; try reflexivity. intro H. apply N.eqb_eq in H. congruence. Qed.

Lemma ev_eqb_eq a b : ev_eqb a b = true -> a = b.
Proof.
  destruct a, b; cbn; try discriminate; intro H.
  - apply N.eqb_eq in H. congruence.
  - apply andb_true_iff in H. destruct H as [H H3]. apply andb_true_iff in H. destruct H as [H1 H2].
    apply req_eqb_eq in H1. apply N.eqb_eq in H2. apply obs_eqb_eq in H3. congruence.
  - apply N.eqb_eq in H. congruence.
Qed.

(** one replayed step *)
Lemma replay_cons c s e r : replay c s (e :: r) <> RBad ->
  (exists s', step s (op_of e) = Ok s' e /\ replay c s' r <> RBad /\ replay c s (e :: r) = replay c s' r) \/
  (step s (op_of e) = Panic /\ panic_ev s e = true /\ r = [] /\ c = false /\ replay c s (e :: r) = RPanicEnd).
Proof.
  cbn [replay]. destruct (step s (op_of e)) as [s' e'| |] eqn:Es.
  - destruct (ev_eqb e e') eqn:Ee; [|congruence]. apply ev_eqb_eq in Ee. subst e'.
    intro H. left. exists s'. auto.
  - destruct (panic_ev s e) eqn:Ep; cbn [andb]; [|congruence].
    destruct r; cbn [andb]; [|congruence]. destruct c; cbn [negb]; [congruence|].
    intros _. right. auto.
  - congruence.
Qed.

Lemma step_req_shape s q s' e : step s (Req q) = Ok s' e -> exists o, e = EReq q (now s) o.
Proof.
  cbn [step]. unfold request. destruct (schedule_wake_at s (req_time q s)) as [[s1 o]|]; [|discriminate].
  intro H. inversion H; subst. eauto.
Qed.

(** a queued timer event bounds the next processor invocation of a replayed history *)
Lemma first_run_replay c u : forall r s, Inv s -> In u (queue s) -> replay c s r <> RBad ->
  match first_run r with Some v => v <= u | None => c = false end.
Proof.
  induction r as [|e r IH]; intros s HI Hin Hr.
  - cbn [first_run]. cbn [replay] in Hr. destruct c; [|reflexivity].
    destruct (queue s); [destruct Hin|congruence].
  - destruct (replay_cons _ _ _ _ Hr) as [[s' [Hs [Hr' _]]]|[Hs [Hp [-> [-> _]]]]].
    + pose proof (inv_step _ _ _ _ HI Hs) as HI'.
      destruct e as [t|q a o|m]; cbn [op_of] in Hs; cbn [first_run].
      * destruct (adv_ok _ _ _ _ Hs) as [_ [_ [_ ->]]]. apply (IH _ HI'); [exact Hin|exact Hr'].
      * destruct (req_ok _ _ _ _ HI Hs) as [_ [_ [[ext Hext] _]]].
        apply (IH _ HI'); [|exact Hr']. rewrite Hext. apply in_or_app. left. exact Hin.
      * destruct (pop_ok _ _ _ Hs) as [m' [Hm [_ [Em _]]]]. inversion Em; subst m'.
        destruct (list_min_spec _ _ Hm) as [_ Hall]. rewrite Forall_forall in Hall. auto.
    + destruct e as [t|q a o|m]; cbn [panic_ev] in Hp; try discriminate. reflexivity.
Qed.

Lemma replay_obligations c : forall es s, Inv s -> replay c s es <> RBad -> obligations c es = true.
Proof.
  induction es as [|e r IH]; intros s HI Hr; [reflexivity|].
  destruct (replay_cons _ _ _ _ Hr) as [[s' [Hs [Hr' _]]]|[Hs [Hp [-> [-> _]]]]].
  - pose proof (inv_step _ _ _ _ HI Hs) as HI'. specialize (IH _ HI' Hr').
    destruct e as [t|q a o|m]; cbn [obligations]; try exact IH.
    rewrite IH, andb_true_r. cbn [op_of] in Hs.
    destruct (step_req_shape _ _ _ _ Hs) as [o' E]. inversion E; subst a o'. clear E.
    assert (Hask : asked q (now s) = req_time q s) by (destruct q; reflexivity).
    rewrite Hask. destruct (now s <=? req_time q s) eqn:El; [|reflexivity].
    destruct (req_ok _ _ _ _ HI Hs) as [_ [_ [_ [u [Hin Hle]]]]].
    pose proof (first_run_replay c u r s' HI' Hin Hr') as Hb.
    unfold no_later. destruct (first_run r) as [v|]; [apply N.leb_le; lia|].
    rewrite Hb. reflexivity.
  - destruct e as [t|q a o|m]; cbn [panic_ev] in Hp; try discriminate.
    cbn [obligations]. unfold no_later. cbn [first_run negb]. destruct (a <=? asked q a); reflexivity.
Qed.

Lemma replay_panic_end c : forall es s, Inv s -> replay c s es = RPanicEnd ->
  ends_in_past_request es = true.
Proof.
  induction es as [|e r IH]; intros s HI Hr.
  - cbn [replay] in Hr. destruct c; [destruct (queue s)|]; discriminate.
  - assert (Hnb : replay c s (e :: r) <> RBad) by congruence.
    destruct (replay_cons _ _ _ _ Hnb) as [[s' [Hs [Hr' Heq]]]|[Hs [Hp [-> [-> _]]]]].
    + pose proof (inv_step _ _ _ _ HI Hs) as HI'. rewrite Heq in Hr.
      specialize (IH _ HI' Hr).
      destruct r as [|e2 r2]; [cbn in IH; discriminate|].
      destruct e as [t|q a o|m]; try exact IH.
      destruct q; try exact IH. destruct o; exact IH.
    + destruct e as [t|q a o|m]; cbn [panic_ev] in Hp; try discriminate.
      destruct o; try discriminate. apply N.eqb_eq in Hp. subst a. cbn [op_of] in Hs.
      cbn [step] in Hs. unfold request in Hs.
      destruct (N.lt_ge_cases (req_time q s) (now s)) as [Hlt|Hge].
      * destruct q; cbn [req_time] in Hlt; try lia. cbn [ends_in_past_request]. apply N.ltb_lt. exact Hlt.
      * destruct (wake_at_spec s (req_time q s) HI) as [_ Hok].
        destruct (Hok Hge) as [s1 [o [H1 _]]]. rewrite H1 in Hs. discriminate.
Qed.

Theorem check_implies_holds c : check_case c = true -> holds_on c = true.
Proof.
  unfold check_case, holds_on. intro H. apply andb_true_iff in H. destruct H as [H1 H2].
  apply andb_true_iff. split.
  - rewrite forallb_forall in *. intros k Hk. specialize (H1 k Hk).
    apply (replay_obligations _ _ init inv_init). intro E. rewrite E in H1. discriminate.
  - destruct (c_completed c) eqn:Ec; [reflexivity|]. cbn [orb] in *.
    rewrite existsb_exists in *. destruct H2 as [k [Hk Hp]]. exists k. split; [exact Hk|].
    apply (replay_panic_end false _ init inv_init).
    destruct (replay false init (cc_hist k)); try discriminate. reflexivity.
Qed.
