(** C13 — model of modeling/eventdriven.go: the [pendingWakeup] dedup guard,
    [ScheduleWakeAt], [ScheduleWakeNow], the notifications and [Handle], seen
    from ONE event-driven component.

    The rest of the simulation is an adversarial environment:
      - [Adv t]     : some other handler runs at engine time [t];
      - [Req (WakeAt t)] : somebody (the processor itself, or anyone) calls ScheduleWakeAt(t);
      - [Req WakeNow], [Req NotifyRecv], [Req NotifyPortFree] : ScheduleWakeAt(engine.CurrentTime());
      - [Pop]       : the engine dispatches the earliest timer event of this
                      component; [Handle] resets the guard and runs the processor
                      at the event's time.  Requests made by the processor are
                      the calls that follow the [Pop].
    Legality of the environment is the engine contract of timing.SerialEngine
    (C01): time never decreases, time cannot pass a queued event, every queued
    event is dispatched once.  [queue] lists this component's timer events that
    are in the engine queue, in scheduling order.

    [math.MaxUint64] is the guard's "nothing pending" value, as in the code.
    [SerialEngine.Schedule] panics for an event earlier than the current time
    (outcome [Panic]); note that the guard has already been overwritten then. *)
From Akita Require Import Lib.Base.
Local Open Scope N_scope.

Definition max64 : N := 18446744073709551615.

Inductive req :=
| WakeAt (t : N)
| WakeNow
| NotifyRecv
| NotifyPortFree.

Inductive op :=
| Adv (t : N)
| Req (r : req)
| Pop.

Inductive obs := ODrop | OSched (t : N) | OPanic.

Inductive ev :=
| EAdv (t : N)
| EReq (q : req) (at_ : N) (r : obs)  (* a request, the engine time of the call, what it did *)
| ERun (t : N).                        (* Handle: the processor ran at time t *)

Record st := mk_st {
  pw : N;              (* pendingWakeup *)
  queue : list N;      (* timer events of this component in the engine queue *)
  now : N }.

Definition init : st := mk_st max64 [] 0.

(** [keep_reset = false] is the mutation "pendingWakeup not reset in Handle";
    [le_guard = false] is the mutation [<=] -> [<] in the guard. *)
Definition schedule_wake_at_g (le_guard : bool) (s : st) (t : N) : option (st * obs) :=
  if negb (pw s =? max64) && (if le_guard then pw s <=? t else pw s <? t) then Some (s, ODrop)
  else if t <? now s then None
  else Some (mk_st t (queue s ++ [t]) (now s), OSched t).

Definition schedule_wake_at := schedule_wake_at_g true.

Fixpoint list_min (l : list N) : option N :=
  match l with
  | [] => None
  | x :: r => match list_min r with
              | None => Some x
              | Some m => Some (if x <=? m then x else m)
              end
  end.

Fixpoint remove_first (x : N) (l : list N) : list N :=
  match l with
  | [] => []
  | y :: r => if x =? y then r else y :: remove_first x r
  end.

Inductive res := Ok (s : st) (e : ev) | Panic | Illegal.

(** the time a request asks for *)
Definition req_time (q : req) (s : st) : N :=
  match q with
  | WakeAt t => t
  | WakeNow | NotifyRecv | NotifyPortFree => now s
  end.

Definition request (q : req) (s : st) : res :=
  match schedule_wake_at s (req_time q s) with
  | None => Panic
  | Some (s', r) => Ok s' (EReq q (now s) r)
  end.

Definition step (s : st) (o : op) : res :=
  match o with
  | Adv t =>
      if t <? now s then Illegal
      else if forallb (fun u => t <=? u) (queue s)
           then Ok (mk_st (pw s) (queue s) t) (EAdv t)
           else Illegal
  | Req q => request q s
  | Pop =>
      match list_min (queue s) with
      | None => Illegal
      | Some t =>
          if t <? now s then Illegal
          else Ok (mk_st max64 (remove_first t (queue s)) t) (ERun t)
      end
  end.

Fixpoint exec (s : st) (ops : list op) : option (st * list ev) :=
  match ops with
  | [] => Some (s, [])
  | o :: r =>
      match step s o with
      | Ok s' e =>
          match exec s' r with
          | Some (s'', es) => Some (s'', e :: es)
          | None => None
          end
      | _ => None
      end
  end.

Fixpoint runs (es : list ev) : list N :=
  match es with
  | [] => []
  | ERun t :: r => t :: runs r
  | _ :: r => runs r
  end.

Definition op_of (e : ev) : op :=
  match e with
  | EAdv t => Adv t
  | EReq q _ _ => Req q
  | ERun _ => Pop
  end.
