(** C13 — case evaluators.  A case is one run of a real timing.SerialEngine with
    real modeling.EventDrivenComponent objects whose processors issue scripted
    wake requests / notifications, plus scripted environment events.  The run is
    projected onto every component: engine time advances, every request with
    what the component really handed to engine.Schedule, and every processor
    invocation with its time. *)
From Akita Require Import Lib.Base C13.Model.
Local Open Scope N_scope.

Record comp := mk_comp { cc_hist : list ev }.
Record case := mk_case { c_comps : list comp; c_completed : bool }.

Definition req_eqb (a b : req) : bool :=
  match a, b with
  | WakeAt x, WakeAt y => x =? y
  | WakeNow, WakeNow | NotifyRecv, NotifyRecv | NotifyPortFree, NotifyPortFree => true
  | _, _ => false
  end.

Definition obs_eqb (a b : obs) : bool :=
  match a, b with
  | ODrop, ODrop => true
  | OSched x, OSched y => x =? y
  | OPanic, OPanic => true
  | _, _ => false
  end.

Definition ev_eqb (a b : ev) : bool :=
  match a, b with
  | EAdv x, EAdv y => x =? y
  | EReq q x o, EReq q' y o' => req_eqb q q' && (x =? y) && obs_eqb o o'
  | ERun x, ERun y => x =? y
  | _, _ => false
  end.

Definition panic_ev (s : st) (e : ev) : bool :=
  match e with
  | EReq _ t OPanic => t =? now s
  | _ => false
  end.

(** outcome of replaying one component's observed history on the model *)
Inductive rres := RBad | RDone | RPanicEnd.

(** every observation must be what the model predicts, every environment step
    must be legal, a run that returned normally leaves no timer event behind; a
    run that aborted must end, for some component, exactly where the model panics *)
Fixpoint replay (completed : bool) (s : st) (es : list ev) : rres :=
  match es with
  | [] => if completed then (match queue s with [] => RDone | _ => RBad end) else RDone
  | e :: r =>
      match step s (op_of e) with
      | Ok s' e' => if ev_eqb e e' then replay completed s' r else RBad
      | Panic => if panic_ev s e && (match r with [] => true | _ => false end) && negb completed
                 then RPanicEnd else RBad
      | Illegal => RBad
      end
  end.

Definition not_bad (r : rres) : bool := match r with RBad => false | _ => true end.
Definition is_panic_end (r : rres) : bool := match r with RPanicEnd => true | _ => false end.

Definition check_case (c : case) : bool :=
  forallb (fun k => not_bad (replay (c_completed c) init (cc_hist k))) (c_comps c)
  && (c_completed c || existsb (fun k => is_panic_end (replay (c_completed c) init (cc_hist k))) (c_comps c)).

(** ------------------------------------------------------------------ *)
(** The property itself on the observed history, without the model.     *)

Fixpoint first_run (es : list ev) : option N :=
  match es with
  | [] => None
  | ERun u :: _ => Some u
  | _ :: r => first_run r
  end.

(** a request made at engine time [a] for time [t >= a]: the next processor
    invocation is at a time <= t (a run that aborted may stop before it). *)
Definition no_later (completed : bool) (t : N) (rest : list ev) : bool :=
  match first_run rest with
  | Some u => u <=? t
  | None => negb completed
  end.

Definition asked (q : req) (a : N) : N :=
  match q with WakeAt t => t | _ => a end.

Fixpoint obligations (completed : bool) (es : list ev) : bool :=
  match es with
  | [] => true
  | EReq q a _ :: r =>
      (if a <=? asked q a then no_later completed (asked q a) r else true)
      && obligations completed r
  | _ :: r => obligations completed r
  end.

(** a run may only abort (Go panic) because of a request for a time in the past *)
Fixpoint ends_in_past_request (es : list ev) : bool :=
  match es with
  | [] => false
  | [EReq (WakeAt t) a OPanic] => t <? a
  | _ :: r => ends_in_past_request r
  end.

Definition holds_on (c : case) : bool :=
  forallb (fun k => obligations (c_completed c) (cc_hist k)) (c_comps c)
  && (c_completed c || existsb (fun k => ends_in_past_request (cc_hist k)) (c_comps c)).
