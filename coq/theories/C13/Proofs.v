(** C13 — proofs about the pendingWakeup model. *)
From Akita Require Import Lib.Base C13.Model.
Local Open Scope N_scope.
