(** C13 — proofs about the pendingWakeup model. *)
From Coq Require Import Sorting.Sorted.
From Akita Require Import Lib.Base C13.Model.
Local Open Scope N_scope.

Lemma list_min_spec l m : list_min l = Some m -> In m l /\ Forall (fun x => m <= x) l.
Proof.
  revert m. induction l as [|x r IH]; intros m H; [discriminate|].
  cbn [list_min] in H. destruct (list_min r) as [m'|] eqn:E.
  - destruct (IH m' eq_refl) as [Hin Hall]. inversion H; subst. clear H.
    destruct (x <=? m') eqn:Ex.
    + split; [left; reflexivity|]. constructor; [lia|].
      eapply Forall_impl; [|exact Hall]. cbn. intros; lia.
    + split; [right; exact Hin|]. constructor; [lia|exact Hall].
  - inversion H; subst. destruct r; [|cbn in E; destruct (list_min r); discriminate].
    split; [left; reflexivity|]. constructor; [lia|constructor].
Qed.

Lemma list_min_none l : list_min l = None -> l = [].
Proof. destruct l as [|x r]; [reflexivity|]. cbn. destruct (list_min r); discriminate. Qed.

Lemma remove_first_subset x l y : In y (remove_first x l) -> In y l.
Proof.
  induction l as [|z r IH]; cbn [remove_first]; [tauto|].
  destruct (x =? z); [intro; right; assumption|].
  intros [->|H]; [left; reflexivity|right; auto].
Qed.

Lemma remove_first_keeps x l y : In y l -> y <> x -> In y (remove_first x l).
Proof.
  induction l as [|z r IH]; cbn [remove_first]; [tauto|].
  intros [->|H] Hne.
  - destruct (x =? y) eqn:E; [apply N.eqb_eq in E; congruence|left; reflexivity].
  - destruct (x =? z); [exact H|right; auto].
Qed.

(** invariant of the guard: a recorded pending wake-up has its timer event queued *)
Record Inv (s : st) : Prop := {
  inv_q : Forall (fun t => now s <= t) (queue s);
  inv_pw : pw s <> max64 -> In (pw s) (queue s) }.

Lemma inv_init : Inv init.
Proof. constructor; cbn; [constructor|congruence]. Qed.

(** ScheduleWakeAt(t): what it does under the invariant *)
Lemma wake_at_spec s t : Inv s ->
  (t < now s -> schedule_wake_at s t = None) /\
  (now s <= t ->
   exists s' o, schedule_wake_at s t = Some (s', o) /\ Inv s' /\ now s' = now s /\
                (exists ext, queue s' = queue s ++ ext) /\
                (exists u, In u (queue s') /\ u <= t) /\
                (o = ODrop \/ o = OSched t)).
Proof.
  intro HI. unfold schedule_wake_at, schedule_wake_at_g.
  destruct (negb (pw s =? max64) && (pw s <=? t)) eqn:G.
  - apply andb_true_iff in G. destruct G as [G1 G2].
    assert (Hne : pw s <> max64) by (intro E; rewrite E, N.eqb_refl in G1; discriminate).
    pose proof (inv_pw s HI Hne) as Hin.
    pose proof (inv_q s HI) as Hq. rewrite Forall_forall in Hq. specialize (Hq _ Hin).
    split; [intro; lia|]. intros _. exists s, ODrop.
    split; [reflexivity|]. split; [exact HI|]. split; [reflexivity|].
    split; [exists []; rewrite app_nil_r; reflexivity|].
    split; [exists (pw s); split; [exact Hin|lia]|left; reflexivity].
  - split; [intro Hlt; apply N.ltb_lt in Hlt; rewrite Hlt; reflexivity|].
    intro Hge. destruct (t <? now s) eqn:E; [lia|].
    eexists. exists (OSched t). split; [reflexivity|]. cbn [now queue pw].
    split; [|split; [reflexivity|split; [exists [t]; reflexivity|split; [|right; reflexivity]]]].
    + constructor; cbn [now queue pw].
      * apply Forall_app. split; [exact (inv_q s HI)|constructor; [exact Hge|constructor]].
      * intros _. apply in_or_app. right. left. reflexivity.
    + exists t. split; [apply in_or_app; right; left; reflexivity|lia].
Qed.

Lemma req_time_ge s q s' e : Inv s -> step s (Req q) = Ok s' e -> now s <= req_time q s.
Proof.
  intros HI H. cbn [step] in H. unfold request in H.
  destruct (N.lt_ge_cases (req_time q s) (now s)) as [Hlt|Hge]; [|exact Hge].
  destruct (wake_at_spec s (req_time q s) HI) as [Hp _]. rewrite (Hp Hlt) in H. discriminate.
Qed.

Lemma req_ok s q s' e : Inv s -> step s (Req q) = Ok s' e ->
  Inv s' /\ now s' = now s /\ (exists ext, queue s' = queue s ++ ext) /\
  (exists u, In u (queue s') /\ u <= req_time q s).
Proof.
  intros HI H. pose proof (req_time_ge s q s' e HI H) as Hge.
  cbn [step] in H. unfold request in H.
  destruct (wake_at_spec s (req_time q s) HI) as [_ Hok].
  destruct (Hok Hge) as [s1 [o [H1 [H2 [H3 [H4 [H5 _]]]]]]].
  rewrite H1 in H. inversion H; subst. auto.
Qed.

Lemma pop_ok s s' e : step s Pop = Ok s' e ->
  exists m, list_min (queue s) = Some m /\ now s <= m /\ e = ERun m /\
            s' = mk_st max64 (remove_first m (queue s)) m.
Proof.
  cbn [step]. destruct (list_min (queue s)) as [m|]; [|discriminate].
  destruct (m <? now s) eqn:E; [discriminate|]. intro H. inversion H; subst.
  exists m. repeat split; auto. lia.
Qed.

Lemma adv_ok s t s' e : step s (Adv t) = Ok s' e ->
  now s <= t /\ Forall (fun u => t <= u) (queue s) /\ e = EAdv t /\ s' = mk_st (pw s) (queue s) t.
Proof.
  cbn [step]. destruct (t <? now s) eqn:E; [discriminate|].
  destruct (forallb (fun u => t <=? u) (queue s)) eqn:Ef; [|discriminate].
  intro H. inversion H; subst. repeat split; auto; [lia|].
  rewrite forallb_forall in Ef. apply Forall_forall. intros x Hx. specialize (Ef x Hx). lia.
Qed.

Lemma inv_step s o s' e : Inv s -> step s o = Ok s' e -> Inv s'.
Proof.
  intros HI H. destruct o as [t|q|].
  - destruct (adv_ok _ _ _ _ H) as [Hge [Hall [_ ->]]].
    constructor; cbn [now queue pw]; [exact Hall|exact (inv_pw s HI)].
  - exact (proj1 (req_ok s q s' e HI H)).
  - destruct (pop_ok _ _ _ H) as [m [Hm [Hge [_ ->]]]].
    destruct (list_min_spec _ _ Hm) as [Hin Hall].
    constructor; cbn [now queue pw]; [|congruence].
    apply Forall_forall. intros x Hx. apply remove_first_subset in Hx.
    rewrite Forall_forall in Hall. auto.
Qed.

Lemma exec_cons s o r s' evs : exec s (o :: r) = Some (s', evs) ->
  exists s1 e es, step s o = Ok s1 e /\ exec s1 r = Some (s', es) /\ evs = e :: es.
Proof.
  cbn [exec]. destruct (step s o) as [s1 e| |]; try discriminate.
  destruct (exec s1 r) as [[s2 es]|] eqn:Ee; [|discriminate].
  intro H. inversion H; subst. exists s1, e, es. auto.
Qed.

Lemma exec_app s a b s' evs : exec s (a ++ b) = Some (s', evs) ->
  exists s1 e1 e2, exec s a = Some (s1, e1) /\ exec s1 b = Some (s', e2) /\ evs = e1 ++ e2.
Proof.
  revert s evs. induction a as [|o a IH]; intros s evs H.
  - exists s, [], evs. auto.
  - rewrite <- app_comm_cons in H.
    destruct (exec_cons _ _ _ _ _ H) as [s1 [e [es [H1 [H3 ->]]]]].
    destruct (IH _ _ H3) as [s2 [e1 [e2 [H4 [H5 ->]]]]].
    exists s2, (e :: e1), e2. cbn [exec]. rewrite H1, H4. auto.
Qed.

Lemma inv_exec s ops s' evs : Inv s -> exec s ops = Some (s', evs) -> Inv s'.
Proof.
  revert s evs. induction ops as [|o r IH]; intros s evs HI H.
  - inversion H; subst. exact HI.
  - destruct (exec_cons _ _ _ _ _ H) as [s1 [e [es [H1 [H3 ->]]]]].
    eapply IH; [|exact H3]. eapply inv_step; eauto.
Qed.

(** engine time and processor invocation times never go back *)
Lemma runs_ge ops : forall s s' evs, Inv s -> exec s ops = Some (s', evs) ->
  Forall (fun v => now s <= v) (runs evs) /\ now s <= now s'.
Proof.
  induction ops as [|o r IH]; intros s s' evs HI H.
  - inversion H; subst. split; [constructor|lia].
  - destruct (exec_cons _ _ _ _ _ H) as [s1 [e [es [H1 [H3 ->]]]]].
    pose proof (inv_step _ _ _ _ HI H1) as HI1.
    destruct (IH _ _ _ HI1 H3) as [IHa IHb].
    assert (Hn : now s <= now s1 /\ forall m, e = ERun m -> now s <= m).
    { destruct o as [t|q|].
      - destruct (adv_ok _ _ _ _ H1) as [Hge [_ [-> ->]]]. cbn. split; [exact Hge|intros; discriminate].
      - destruct (req_ok _ _ _ _ HI H1) as [_ [Hn _]]. split; [lia|].
        intros m E. cbn [step] in H1. unfold request in H1.
        destruct (schedule_wake_at s (req_time q s)) as [[? ?]|]; [|discriminate].
        inversion H1; subst. discriminate.
      - destruct (pop_ok _ _ _ H1) as [m [_ [Hge [-> ->]]]]. cbn. split; [exact Hge|].
        intros m' E. inversion E; subst. exact Hge. }
    destruct Hn as [Hn Hrun]. split; [|lia].
    assert (Hrest : Forall (fun v => now s <= v) (runs es)).
    { eapply Forall_impl; [|exact IHa]. cbn. intros; lia. }
    destruct e; cbn [runs]; try exact Hrest.
    constructor; [apply Hrun; reflexivity|exact Hrest].
Qed.

Lemma runs_sorted ops : forall s s' evs, Inv s -> exec s ops = Some (s', evs) ->
  StronglySorted N.le (runs evs).
Proof.
  induction ops as [|o r IH]; intros s s' evs HI H.
  - inversion H; subst. constructor.
  - destruct (exec_cons _ _ _ _ _ H) as [s1 [e [es [H1 [H3 ->]]]]].
    pose proof (inv_step _ _ _ _ HI H1) as HI1.
    specialize (IH _ _ _ HI1 H3).
    destruct e as [t|q t o'|m]; cbn [runs]; try exact IH.
    constructor; [exact IH|].
    destruct (runs_ge _ _ _ _ HI1 H3) as [Hge _].
    assert (now s1 = m).
    { destruct o as [t0|q|].
      - destruct (adv_ok _ _ _ _ H1) as [_ [_ [Ee _]]]. discriminate.
      - cbn [step] in H1. unfold request in H1.
        destruct (schedule_wake_at s (req_time q s)) as [[? ?]|]; [|discriminate].
        inversion H1.
      - destruct (pop_ok _ _ _ H1) as [m' [_ [_ [Em ->]]]]. inversion Em; subst. reflexivity. }
    subst m. exact Hge.
Qed.

(** a queued timer event bounds the time of the next processor invocation *)
Lemma first_run_bound u ops : forall s s' evs, Inv s -> In u (queue s) ->
  exec s ops = Some (s', evs) ->
  match runs evs with
  | [] => In u (queue s') /\ now s' <= u
  | v :: _ => v <= u
  end.
Proof.
  induction ops as [|o r IH]; intros s s' evs HI Hin H.
  - inversion H; subst. cbn [runs]. split; [exact Hin|].
    pose proof (inv_q s' HI) as Hq. rewrite Forall_forall in Hq. auto.
  - destruct (exec_cons _ _ _ _ _ H) as [s1 [e [es [H1 [H3 ->]]]]].
    pose proof (inv_step _ _ _ _ HI H1) as HI1.
    destruct o as [t|q|].
    + destruct (adv_ok _ _ _ _ H1) as [_ [_ [-> ->]]]. cbn [runs].
      apply (IH _ _ _ HI1); [exact Hin|exact H3].
    + destruct (req_ok _ _ _ _ HI H1) as [_ [_ [[ext Hext] _]]].
      assert (He : runs (e :: es) = runs es).
      { cbn [step] in H1. unfold request in H1.
        destruct (schedule_wake_at s (req_time q s)) as [[? ?]|]; [|discriminate].
        inversion H1; subst. reflexivity. }
      rewrite He. apply (IH _ _ _ HI1); [|exact H3].
      rewrite Hext. apply in_or_app. left. exact Hin.
    + destruct (pop_ok _ _ _ H1) as [m [Hm [_ [-> ->]]]]. cbn [runs].
      destruct (list_min_spec _ _ Hm) as [_ Hall]. rewrite Forall_forall in Hall. auto.
Qed.

Lemma exec_one s o s' evs : exec s [o] = Some (s', evs) ->
  exists e, step s o = Ok s' e /\ evs = [e].
Proof.
  intro H. destruct (exec_cons _ _ _ _ _ H) as [s1 [e [es [H1 [H3 ->]]]]].
  inversion H3; subst. eauto.
Qed.

(** C13, first clause *)
Lemma no_later q ops1 s0 evs0 s1 e ops2 s2 evs2 :
  exec init ops1 = Some (s0, evs0) -> step s0 (Req q) = Ok s1 e ->
  exec s1 ops2 = Some (s2, evs2) ->
  now s0 <= req_time q s0 /\
  match runs evs2 with
  | [] => (exists u, In u (queue s2) /\ u <= req_time q s0) /\ now s2 <= req_time q s0
  | v :: _ => v <= req_time q s0
  end.
Proof.
  intros H0 H1 H2. pose proof (inv_exec _ _ _ _ inv_init H0) as HI0.
  split; [exact (req_time_ge _ _ _ _ HI0 H1)|].
  destruct (req_ok _ _ _ _ HI0 H1) as [HI1 [_ [_ [u [Hin Hle]]]]].
  pose proof (first_run_bound u _ _ _ _ HI1 Hin H2) as Hb.
  destruct (runs evs2); [|lia].
  destruct Hb as [A B]. split; [exists u; auto|lia].
Qed.

Definition is_notify (q : req) : Prop :=
  match q with WakeAt _ => False | _ => True end.

(** C13, second clause *)
Lemma notify_now q ops1 s0 evs0 s1 e ops2 s2 evs2 : is_notify q ->
  exec init ops1 = Some (s0, evs0) -> step s0 (Req q) = Ok s1 e ->
  exec s1 ops2 = Some (s2, evs2) ->
  match runs evs2 with
  | [] => In (now s0) (queue s2) /\ now s2 = now s0
  | v :: _ => v = now s0
  end.
Proof.
  intros Hq H0 H1 H2. pose proof (inv_exec _ _ _ _ inv_init H0) as HI0.
  assert (Ht : req_time q s0 = now s0) by (destruct q; [destruct Hq|..]; reflexivity).
  destruct (req_ok _ _ _ _ HI0 H1) as [HI1 [Hn [_ [u [Hin Hle]]]]].
  assert (Hu : u = now s0).
  { pose proof (inv_q s1 HI1) as Hq1. rewrite Forall_forall in Hq1. specialize (Hq1 _ Hin). lia. }
  subst u.
  pose proof (first_run_bound _ _ _ _ _ HI1 Hin H2) as Hb.
  destruct (runs_ge _ _ _ _ HI1 H2) as [Hge Hmono].
  destruct (runs evs2) as [|v l].
  - destruct Hb as [A B]. split; [exact A|lia].
  - inversion Hge; subst. lia.
Qed.

(** a request for a time in the past panics (engine.Schedule) *)
Lemma past_request_panics ops s evs t : exec init ops = Some (s, evs) -> t < now s ->
  step s (Req (WakeAt t)) = Panic.
Proof.
  intros H Hlt. pose proof (inv_exec _ _ _ _ inv_init H) as HI.
  cbn [step]. unfold request. cbn [req_time].
  destruct (wake_at_spec s t HI) as [Hp _]. rewrite (Hp Hlt). reflexivity.
Qed.
