(** C13 — property theorems. *)
From Akita Require Import Lib.Base C13.Model C13.Proofs.
Local Open Scope N_scope.

Theorem c13_placeholder_init : queue init = [].
Proof. reflexivity. Qed.
Print Assumptions c13_placeholder_init.
