(** C13 — event-driven components wake no later than requested.
    Property theorems only.

    Reading guide.  [exec init ops = Some (s, evs)] says: [ops] is a history of
    one event-driven component, starting from a freshly built one, that respects
    the engine contract (see C13.Model) and in which no call panicked.  [ops] is
    arbitrary: any interleaving of engine time advances, ScheduleWakeAt requests
    (earlier, later, equal, repeated), ScheduleWakeNow / NotifyRecv /
    NotifyPortFree, and dispatches of its timer events (processor invocations;
    requests made by the processor are simply the requests that follow).
    [runs evs] are the times at which the processor ran. *)
From Coq Require Import Sorting.Sorted.
From Akita Require Import Lib.Base C13.Model C13.Proofs.
Local Open Scope N_scope.

(** The invariant of the dedup guard: whenever pendingWakeup is not the
    "nothing pending" value, a timer event with exactly that time is queued;
    and no queued timer event is in the past. *)
Theorem c13_guard_invariant : forall ops s evs, exec init ops = Some (s, evs) ->
  (pw s <> max64 -> In (pw s) (queue s)) /\ Forall (fun t => now s <= t) (queue s).
Proof.
  intros ops s evs H. pose proof (inv_exec _ _ _ _ inv_init H) as HI.
  split; [exact (inv_pw s HI)|exact (inv_q s HI)].
Qed.
Print Assumptions c13_guard_invariant.

(** Clause 1: after any history, a wake-up request [q] for time [t] that is
    accepted (did not panic) is not in the past, and in EVERY continuation the
    next processor invocation happens at a time <= t; as long as the processor has
    not run, a timer event with time <= t stays queued and the engine time has
    not passed [t] (so a run that drains the queue invokes the processor by [t]). *)
Theorem c13_no_later : forall q ops1 s0 evs0 s1 e ops2 s2 evs2,
  exec init ops1 = Some (s0, evs0) -> step s0 (Req q) = Ok s1 e ->
  exec s1 ops2 = Some (s2, evs2) ->
  let t := req_time q s0 in
  now s0 <= t /\
  match runs evs2 with
  | [] => (exists u, In u (queue s2) /\ u <= t) /\ now s2 <= t
  | v :: _ => v <= t
  end.
Proof. intros q ops1 s0 evs0 s1 e ops2 s2 evs2. exact (no_later q _ _ _ _ _ _ _ _). Qed.
Print Assumptions c13_no_later.

(** A request for a time in the past is not silently dropped: it panics in
    engine.Schedule (so "not in the past" is exactly the accepted case). *)
Theorem c13_past_request_panics : forall ops s evs t, exec init ops = Some (s, evs) ->
  t < now s -> step s (Req (WakeAt t)) = Panic.
Proof. exact past_request_panics. Qed.
Print Assumptions c13_past_request_panics.

(** Clause 2: a receive / port-free notification (or ScheduleWakeNow) at time
    [now s0] makes the processor run at the current instant: in every continuation
    the next processor invocation is at exactly that time, and until then a timer
    event for that time is queued and the engine time cannot move on.  (The
    "already-pending earlier wake-up" of the statement can only be one for this
    same instant, since queued events are never in the past.) *)
Theorem c13_notify_now_or_earlier : forall q ops1 s0 evs0 s1 e ops2 s2 evs2,
  q = WakeNow \/ q = NotifyRecv \/ q = NotifyPortFree ->
  exec init ops1 = Some (s0, evs0) -> step s0 (Req q) = Ok s1 e ->
  exec s1 ops2 = Some (s2, evs2) ->
  match runs evs2 with
  | [] => In (now s0) (queue s2) /\ now s2 = now s0
  | v :: _ => v = now s0
  end.
Proof.
  intros q ops1 s0 evs0 s1 e ops2 s2 evs2 Hq.
  apply notify_now. destruct Hq as [-> | [-> | ->]]; exact I.
Qed.
Print Assumptions c13_notify_now_or_earlier.

(** A notification never panics. *)
Theorem c13_notify_never_panics : forall q ops s evs,
  q = WakeNow \/ q = NotifyRecv \/ q = NotifyPortFree ->
  exec init ops = Some (s, evs) -> exists s' e, step s (Req q) = Ok s' e.
Proof.
  intros q ops s evs Hq H. pose proof (inv_exec _ _ _ _ inv_init H) as HI.
  assert (Ht : req_time q s = now s) by (destruct Hq as [-> | [-> | ->]]; reflexivity).
  cbn [step]. unfold request. destruct (wake_at_spec s (req_time q s) HI) as [_ Hok].
  destruct Hok as [s' [o [H1 _]]]; [lia|]. rewrite H1. eauto.
Qed.
Print Assumptions c13_notify_never_panics.

(** Processor invocation times never decrease. *)
Theorem c13_runs_monotone : forall ops s evs, exec init ops = Some (s, evs) ->
  StronglySorted N.le (runs evs).
Proof. intros ops s evs H. exact (runs_sorted ops init s evs inv_init H). Qed.
Print Assumptions c13_runs_monotone.

(** Regression lemma: if Handle did not reset the guard (mutation), a request
    made after the processor ran at 10 for a later time 20 would be dropped with
    nothing queued — the processor would never run again. *)
Theorem c13_no_reset_mutation_refuted :
  let stale := mk_st 10 [] 10 in            (* after Handle at 10 without the reset *)
  schedule_wake_at stale 20 = Some (stale, ODrop) /\ queue stale = [] /\
  exists s', schedule_wake_at (mk_st max64 [] 10) 20 = Some (s', OSched 20).
Proof. repeat split. eexists. reflexivity. Qed.
Print Assumptions c13_no_reset_mutation_refuted.

(** Regression lemma: guard [<=] -> [<] (mutation) queues a second timer event for
    an equal request — harmless for "no later" but no longer deduplicated. *)
Theorem c13_guard_lt_mutation_duplicates :
  exists s1 s2, schedule_wake_at_g false init 7 = Some (s1, OSched 7) /\
                schedule_wake_at_g false s1 7 = Some (s2, OSched 7) /\ queue s2 = [7; 7].
Proof. do 2 eexists. repeat split. Qed.
Print Assumptions c13_guard_lt_mutation_duplicates.

(** MaxUint64 doubles as "nothing pending": wake-ups requested for MaxUint64 are
    queued but never deduplicated (harmless). *)
Theorem c13_max64_not_deduplicated_witness :
  exists s evs, exec init [Req (WakeAt max64); Req (WakeAt max64)] = Some (s, evs) /\
                queue s = [max64; max64].
Proof. do 2 eexists. vm_compute. split; reflexivity. Qed.
Print Assumptions c13_max64_not_deduplicated_witness.

(** Non-vacuity: later / equal / earlier / repeated requests, a superseded timer
    that still fires, notifications, and requests between runs. *)
Example c13_nonvacuous :
  exists s evs,
    exec init [Req (WakeAt 100); Req (WakeAt 200); Req (WakeAt 100); Req (WakeAt 50); Adv 20; Req NotifyRecv;
               Req NotifyPortFree; Pop; Req (WakeAt 300); Pop; Adv 60; Req (WakeAt 70); Pop; Pop; Pop]
    = Some (s, evs) /\ runs evs = [20; 50; 70; 100; 300] /\ queue s = [].
Proof. do 2 eexists. vm_compute. repeat split. Qed.

(** The predicate evaluated on the implementation's observed history
    ([Exec.holds_on]: both clauses re-checked without the model, and "a run may
    only abort on a request in the past") is implied by step-by-step agreement
    of that history with the model ([Exec.check_case]). *)
From Akita Require Import C13.Exec C13.Link.
Theorem c13_model_agreement_implies_property : forall c, check_case c = true -> holds_on c = true.
Proof. exact check_implies_holds. Qed.
Print Assumptions c13_model_agreement_implies_property.

(** Non-vacuity of the hypotheses of clauses 1 and 2. *)
Example c13_no_later_nonvacuous :
  exists s0 evs0 s1 e s2 evs2,
    exec init [Req (WakeAt 100); Adv 30] = Some (s0, evs0) /\
    step s0 (Req (WakeAt 60)) = Ok s1 e /\
    exec s1 [Req (WakeAt 80); Adv 55; Pop; Pop] = Some (s2, evs2) /\
    req_time (WakeAt 60) s0 = 60 /\ runs evs2 = [60; 100].
Proof. do 6 eexists. split; [vm_compute; reflexivity|]. split; [vm_compute; reflexivity|]. split; [vm_compute; reflexivity|]. vm_compute. repeat split. Qed.

Example c13_notify_nonvacuous :
  exists s0 evs0 s1 e s2 evs2,
    exec init [Req (WakeAt 100); Adv 30] = Some (s0, evs0) /\
    step s0 (Req NotifyRecv) = Ok s1 e /\
    exec s1 [Req NotifyPortFree; Pop; Adv 40] = Some (s2, evs2) /\
    now s0 = 30 /\ runs evs2 = [30].
Proof. do 6 eexists. split; [vm_compute; reflexivity|]. split; [vm_compute; reflexivity|]. split; [vm_compute; reflexivity|]. vm_compute. repeat split. Qed.

Example c13_link_nonvacuous :
  let c := mk_case [mk_comp [EAdv 3; EReq (WakeAt 9) 3 (OSched 9); EReq NotifyRecv 3 (OSched 3); ERun 3;
                             EReq (WakeAt 20) 3 (OSched 20); ERun 9; ERun 20]] true in
  check_case c = true /\ holds_on c = true.
Proof. vm_compute. split; reflexivity. Qed.
