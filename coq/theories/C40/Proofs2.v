(** C40 — the requests that are safe on BOTH engines: pause, continue, state and the
    port-buffer levels (read under the port's own lock). *)
From Akita Require Import Lib.Base Lib.Lts C40.Model C40.Proofs.
Local Open Scope N_scope.

Definition basic_req (r : req) : bool :=
  match r with RPause | RContinue | RState | RBuffers => true | _ => false end.

(** every engine-side access to a port buffer holds the port lock *)
Definition buf_ok (a : access) : bool :=
  match a_var a with VBuf => has LPort (a_locks a) | _ => true end.

Definition macc_ok (m : mstep) : bool :=
  match m with
  | MAcc a => match a_var a with VBuf => negb (a_write a) && has LPort (a_locks a) | _ => false end
  | _ => true
  end.

Lemma action_buf_ok par a : forallb buf_ok (action_accs par a) = true.
Proof. destruct par, a; reflexivity. Qed.

Lemma body_buf_ok par prog : forallb buf_ok (body par prog) = true.
Proof.
  unfold body. rewrite forallb_app. replace (forallb buf_ok (dispatch_accs par)) with true by (destruct par; reflexivity).
  cbn [andb]. induction prog as [|a r IH]; cbn [flat_map]; [reflexivity|].
  rewrite forallb_app, action_buf_ok. exact IH.
Qed.

Lemma basic_steps_ok par p r : basic_req r = true -> forallb macc_ok (req_steps par p r) = true.
Proof. destruct r, p, par; cbn; intro H; try discriminate; reflexivity. Qed.

Record BInv (s : st) : Prop := {
  b_body : forall todo, s_epc s = EBody todo -> forallb buf_ok todo = true;
  b_ms : forallb macc_ok (s_msteps s) = true;
  b_reqs : forallb basic_req (s_reqs s) = true;
  b_nr : s_raced s = false
}.

Lemma basic_not_racy par s :
  (forall todo, s_epc s = EBody todo -> forallb buf_ok todo = true) ->
  forallb macc_ok (s_msteps s) = true -> racy par s = false.
Proof.
  intros Hb Hm. unfold racy, eng_next, mon_next.
  destruct (s_epc s) as [| |todo| |] eqn:Epc; try reflexivity.
  destruct todo as [|a todo]; [reflexivity|].
  destruct (s_msteps s) as [|m ms]; [reflexivity|].
  destruct m as [| |b|]; try reflexivity.
  specialize (Hb _ eq_refl). cbn [forallb] in Hb, Hm.
  apply andb_true_iff in Hb. destruct Hb as [Ha _]. apply andb_true_iff in Hm. destruct Hm as [Hm _].
  unfold macc_ok in Hm. unfold buf_ok in Ha.
  destruct (var_eqb (a_var a) (a_var b)) eqn:Ev; [|reflexivity]. cbn [andb].
  destruct (a_var b) eqn:Evb; try discriminate Hm.
  destruct (a_var a) eqn:Eva; try discriminate Ev.
  apply andb_true_iff in Hm. destruct Hm as [_ Hm].
  rewrite (has_not_disjoint LPort); [apply andb_false_r| |].
  - destruct par; [apply has_cons|]; exact Ha.
  - destruct (s_plock s) as [[|]|]; [apply has_cons| |]; exact Hm.
Qed.

Lemma BInv_step par prog : inductive (step par prog) BInv.
Proof.
  intros t s s' [Hb Hm Hr Hnr] Hstep. unfold step in Hstep.
  destruct (match t with TE => step_engine par prog s | TM => step_monitor par s end) as [s1|] eqn:E; [|discriminate].
  inversion Hstep; subst s'. clear Hstep.
  assert (H1 : (forall todo, s_epc s1 = EBody todo -> forallb buf_ok todo = true) /\
               forallb macc_ok (s_msteps s1) = true /\ forallb basic_req (s_reqs s1) = true /\ s_raced s1 = false).
  { destruct s as [epc left flag plock ms reqs mp raced]. sfields.
    destruct t.
    - unfold step_engine in E. sfields.
      destruct epc as [| |todo| |].
      + destruct left; inversion E; subst; sfields; repeat split; auto; discriminate.
      + destruct par.
        * destruct plock; [discriminate|]. inversion E; subst; sfields. repeat split; auto.
          intros todo H. inversion H; subst. apply body_buf_ok.
        * destruct flag; [discriminate|]. inversion E; subst; sfields. repeat split; auto.
          intros todo H. inversion H; subst. apply body_buf_ok.
      + destruct todo as [|a todo].
        * destruct par; inversion E; subst; sfields; repeat split; auto; discriminate.
        * inversion E; subst; sfields. repeat split; auto. intros todo' H. inversion H; subst.
          specialize (Hb _ eq_refl). cbn in Hb. apply andb_true_iff in Hb. apply Hb.
      + inversion E; subst; sfields. repeat split; auto; discriminate.
      + discriminate.
    - unfold step_monitor in E. sfields.
      destruct ms as [|m ms].
      + destruct reqs as [|r rest]; [discriminate|]. inversion E; subst; sfields.
        cbn in Hr. apply andb_true_iff in Hr. destruct Hr as [Hr1 Hr2].
        repeat split; auto. apply basic_steps_ok. exact Hr1.
      + cbn [forallb] in Hm. apply andb_true_iff in Hm. destruct Hm as [_ Hm].
        destruct m as [| |a|b]; sfields.
        * destruct par; [destruct plock; [discriminate|]|]; inversion E; subst; sfields; repeat split; auto.
        * destruct par; inversion E; subst; sfields; repeat split; auto.
        * inversion E; subst; sfields; repeat split; auto.
        * inversion E; subst; sfields; repeat split; auto. }
  destruct H1 as [A [B [C D]]].
  pose proof (basic_not_racy par s1 A B) as Hnot.
  destruct s1 as [epc left flag plock ms reqs mp raced]. unfold mark. sfields.
  constructor; sfields; auto. subst raced. rewrite Hnot. reflexivity.
Qed.

Theorem basic_requests_safe par prog nev reqs o :
  forallb basic_req reqs = true ->
  s_raced (run (step par prog) o (init nev reqs)) = false.
Proof.
  intro H. apply (b_nr _ (run_invariant (step par prog) BInv (BInv_step par prog) o (init nev reqs)
    ltac:(constructor; cbn; auto; discriminate))).
Qed.
