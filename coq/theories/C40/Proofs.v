(** C40 — race freedom of the safe requests on the parallel engine (every oracle),
    and witness interleavings for the racy ones. *)
From Akita Require Import Lib.Base Lib.Lts C40.Model.
Local Open Scope N_scope.

Definition has (l : lock) (ls : list lock) : bool := existsb (lock_eqb l) ls.

(** an engine-side access of the parallel engine carries the lock that protects its variable *)
Definition eng_ok (a : access) : bool :=
  match a_var a with
  | VTime => has LNow (a_locks a)
  | VQueue => has LQueue (a_locks a)
  | VBuf => has LPort (a_locks a)
  | VProg => has LProg (a_locks a)
  | VComp => true
  end.

Lemma action_accs_ok a : forallb eng_ok (action_accs true a) = true.
Proof. destruct a; reflexivity. Qed.

Lemma body_ok prog : forallb eng_ok (body true prog) = true.
Proof.
  unfold body. rewrite forallb_app. cbn [dispatch_accs]. cbn.
  induction prog as [|a r IH]; cbn [flat_map]; [reflexivity|].
  rewrite forallb_app, action_accs_ok. exact IH.
Qed.

(** monitor micro-steps, walked with "the HTTP goroutine holds pauseLock" *)
Fixpoint msteps_ok (hold : bool) (ms : list mstep) : bool :=
  match ms with
  | [] => true
  | MPauseEngine :: r => negb hold && msteps_ok true r
  | MContinueEngine :: r => hold && msteps_ok false r
  | MSetPaused _ :: r => msteps_ok hold r
  | MAcc a :: r =>
      match a_var a with
      | VComp => hold
      | VProg => false
      | _ => eng_ok a
      end && msteps_ok hold r
  end.

Fixpoint end_hold (hold : bool) (ms : list mstep) : bool :=
  match ms with
  | [] => hold
  | MPauseEngine :: r => end_hold true r
  | MContinueEngine :: r => end_hold false r
  | _ :: r => end_hold hold r
  end.

Fixpoint mp_after (p : bool) (ms : list mstep) : bool :=
  match ms with
  | [] => p
  | MSetPaused b :: r => mp_after b r
  | _ :: r => mp_after p r
  end.

Lemma req_steps_ok p r : safe_req true r = true ->
  msteps_ok p (req_steps true p r) = true /\ mp_after p (req_steps true p r) = end_hold p (req_steps true p r).
Proof. destruct r, p; cbn; intro H; try discriminate; auto. Qed.

Definition hold (s : st) : bool := match s_plock s with Some true => true | _ => false end.

Definition eng_in (s : st) : bool := match s_epc s with EBody _ | ERelease => true | _ => false end.

Record Inv (s : st) : Prop := {
  i_body : forall todo, s_epc s = EBody todo -> forallb eng_ok todo = true;
  i_lock : eng_in s = true <-> s_plock s = Some false;
  i_ms : msteps_ok (hold s) (s_msteps s) = true;
  i_mp : mp_after (s_mpaused s) (s_msteps s) = end_hold (hold s) (s_msteps s);
  i_reqs : forallb (safe_req true) (s_reqs s) = true;
  i_nr : s_raced s = false;
  i_racy : racy true s = false
}.

Lemma has_not_disjoint l l1 l2 : has l l1 = true -> has l l2 = true -> disjoint l1 l2 = false.
Proof.
  unfold disjoint, has. intros H1 H2. apply negb_false_iff.
  apply existsb_exists in H1. destruct H1 as [x [Hx1 Hx2]].
  apply existsb_exists. exists x. split; [exact Hx1|].
  destruct l, x; try discriminate; exact H2.
Qed.

Lemma has_cons l x ls : has l ls = true -> has l (x :: ls) = true.
Proof. unfold has. cbn. intro H. rewrite H. apply orb_true_r. Qed.

(** the lockset argument: under the structural facts, no state is racy *)
Lemma not_racy s :
  (forall todo, s_epc s = EBody todo -> forallb eng_ok todo = true) ->
  (eng_in s = true <-> s_plock s = Some false) ->
  msteps_ok (hold s) (s_msteps s) = true ->
  racy true s = false.
Proof.
  intros Hb Hl Hm. unfold racy, eng_next, mon_next.
  destruct (s_epc s) as [| |todo| |] eqn:Epc; try reflexivity.
  destruct todo as [|a todo]; [reflexivity|].
  destruct (s_msteps s) as [|m ms] eqn:Ems; [reflexivity|].
  destruct m as [| |b|]; try reflexivity.
  specialize (Hb _ eq_refl). cbn [forallb] in Hb. apply andb_true_iff in Hb. destruct Hb as [Ha _].
  assert (Hpl : s_plock s = Some false) by (apply Hl; unfold eng_in; rewrite Epc; reflexivity).
  unfold hold in Hm. rewrite Hpl in Hm. cbn [msteps_ok] in Hm.
  rewrite Hpl.
  destruct (var_eqb (a_var a) (a_var b)) eqn:Ev; [|reflexivity].
  cbn [andb].
  unfold eng_ok in Ha.
  destruct (a_var a) eqn:Eva, (a_var b) eqn:Evb; try discriminate Ev; cbn [andb] in Hm.
  - apply andb_true_iff in Hm. destruct Hm as [Hm _]. unfold eng_ok in Hm. rewrite Evb in Hm.
    rewrite (has_not_disjoint LNow); [apply andb_false_r| apply has_cons, Ha | exact Hm].
  - apply andb_true_iff in Hm. destruct Hm as [Hm _]. unfold eng_ok in Hm. rewrite Evb in Hm.
    rewrite (has_not_disjoint LQueue); [apply andb_false_r| apply has_cons, Ha | exact Hm].
  - discriminate Hm.
  - apply andb_true_iff in Hm. destruct Hm as [Hm _]. unfold eng_ok in Hm. rewrite Evb in Hm.
    rewrite (has_not_disjoint LPort); [apply andb_false_r| apply has_cons, Ha | exact Hm].
  - discriminate Hm.
Qed.

Lemma Inv_init nev reqs : forallb (safe_req true) reqs = true -> Inv (init nev reqs).
Proof.
  intro H. constructor; cbn; auto; try discriminate.
  split; discriminate.
Qed.

Ltac sfields := cbn [s_epc s_left s_flag s_plock s_msteps s_reqs s_mpaused s_raced mark] in *.

Ltac fin Hl :=
  repeat split; sfields; auto; try discriminate;
  try (apply Hl; reflexivity);
  try (let H0 := fresh in intro H0; first [ discriminate H0 | apply Hl in H0; discriminate H0 | apply Hl; exact H0 ]);
  try apply Hl.

Lemma Inv_step prog : inductive (step true prog) Inv.
Proof.
  intros t s s' [Hb Hl Hm Hmp Hr Hnr Hrc] Hstep.
  unfold step in Hstep.
  assert (Hgoal : forall s1, (match t with TE => step_engine true prog s | TM => step_monitor true s end) = Some s1 ->
            (forall todo, s_epc s1 = EBody todo -> forallb eng_ok todo = true) /\
            (eng_in s1 = true <-> s_plock s1 = Some false) /\
            msteps_ok (hold s1) (s_msteps s1) = true /\
            mp_after (s_mpaused s1) (s_msteps s1) = end_hold (hold s1) (s_msteps s1) /\
            forallb (safe_req true) (s_reqs s1) = true /\ s_raced s1 = false).
  { intros s1 E. destruct s as [epc left flag plock ms reqs mp raced]. sfields. unfold hold, eng_in in *. sfields.
    destruct t.
    - unfold step_engine in E. sfields.
      destruct epc as [| |todo| |].
      + destruct left; inversion E; subst; sfields; fin Hl.
      + destruct plock as [b|]; [discriminate|]. inversion E; subst; sfields. fin Hl.
        intros todo H. inversion H; subst. apply body_ok.
      + assert (Hp : plock = Some false) by (apply Hl; reflexivity). subst plock.
        destruct todo as [|a todo]; inversion E; subst; sfields; fin Hl.
        intros todo' H. inversion H; subst.
        specialize (Hb _ eq_refl). cbn in Hb. apply andb_true_iff in Hb. apply Hb.
      + assert (Hp : plock = Some false) by (apply Hl; reflexivity). subst plock.
        inversion E; subst; sfields. cbn in Hm, Hmp. fin Hl.
      + discriminate.
    - unfold step_monitor in E. sfields.
      destruct ms as [|m ms].
      + destruct reqs as [|r rest]; [discriminate|]. inversion E; subst; sfields.
        cbn in Hr. apply andb_true_iff in Hr. destruct Hr as [Hr1 Hr2].
        cbn in Hmp. subst mp.
        destruct (req_steps_ok (match plock with Some true => true | _ => false end) r Hr1) as [A B].
        fin Hl.
      + destruct m as [| |a|b]; sfields.
        * destruct plock as [b|]; [discriminate|]. inversion E; subst; sfields. cbn in Hm, Hmp. fin Hl.
        * inversion E; subst; sfields. cbn [msteps_ok] in Hm. apply andb_true_iff in Hm. destruct Hm as [Hh Hm].
          destruct plock as [[|]|]; try discriminate. cbn in Hmp. fin Hl.
        * inversion E; subst; sfields. cbn [msteps_ok] in Hm. apply andb_true_iff in Hm. destruct Hm as [_ Hm]. cbn in Hmp.
          fin Hl.
        * inversion E; subst; sfields. cbn in Hm, Hmp. fin Hl. }
  destruct (match t with TE => step_engine true prog s | TM => step_monitor true s end) as [s1|] eqn:E; [|discriminate].
  inversion Hstep; subst s'. destruct (Hgoal s1 eq_refl) as [A [B [C [D [F G]]]]].
  pose proof (not_racy s1 A B C) as Hnot.
  destruct s1 as [epc left flag plock ms reqs mp raced]. unfold mark. sfields.
  constructor; sfields; auto; try (subst raced; rewrite Hnot; reflexivity).
Qed.

Theorem parallel_safe prog nev reqs o :
  forallb (safe_req true) reqs = true ->
  s_raced (run (step true prog) o (init nev reqs)) = false.
Proof.
  intro H. apply (i_nr _ (run_invariant (step true prog) Inv (Inv_step prog) o _ (Inv_init nev reqs H))).
Qed.
