(** C40 — monitor requests vs. a running simulation: interleaving model with
    per-variable access labels.

    Threads: the engine goroutine (serial: Run loop with the atomic pause flag;
    parallel: Run loop with pauseLock held across the round, one handler at a time —
    the round's internal parallelism is C04's subject) and one HTTP handler goroutine
    executing a sequence of monitor requests (monitoring2/monitor.go).  Every atomic
    step declares the shared variables it reads/writes and the locks protecting that
    access.  A RACE is a reachable state in which the next steps of the two threads
    access the same variable, at least one writes, and they hold no common lock.
    Definitions only. *)
From Akita Require Import Lib.Base Lib.Lts.
Local Open Scope N_scope.

Inductive var :=
| VTime      (* SerialEngine.time / ParallelEngine.now *)
| VQueue     (* the engine's event queues *)
| VComp      (* component state reached by the goseth serializer / handlers *)
| VBuf       (* port buffers *)
| VProg.     (* ProgressBar counters *)

Inductive lock :=
| LPause     (* ParallelEngine.pauseLock *)
| LNow       (* ParallelEngine.nowLock *)
| LQueue     (* ParallelEngine queue check-out channel + EventQueueImpl mutex *)
| LPort      (* defaultPort.lock *)
| LProg      (* ProgressBar mutex *)
| LTick.     (* TickScheduler.lock *)

Definition var_eqb (a b : var) : bool :=
  match a, b with
  | VTime, VTime | VQueue, VQueue | VComp, VComp | VBuf, VBuf | VProg, VProg => true
  | _, _ => false
  end.

Definition lock_eqb (a b : lock) : bool :=
  match a, b with
  | LPause, LPause | LNow, LNow | LQueue, LQueue | LPort, LPort | LProg, LProg | LTick, LTick => true
  | _, _ => false
  end.

(** one memory access: variable, is-write, locks held for it (besides pauseLock, which is state) *)
Record access := mk_acc { a_var : var; a_write : bool; a_locks : list lock }.

(** what a handler of the simulated program may do *)
Inductive action :=
| AComp        (* mutate the component's state *)
| ASched       (* engine.Schedule(evt) *)
| ATick        (* the component's own TickLater: CurrentTime + Schedule under TickScheduler.lock *)
| AProg        (* ProgressBar.IncrementFinished etc. (under the bar's mutex) *)
| APort        (* send / retrieve on a port *)
| ANow.        (* engine.CurrentTime() *)

(** live-monitor requests *)
Inductive req :=
| RPause | RContinue | RState | RNow | RTick | RInspect (* /api/component, /api/field *) | RBuffers | RProgress.

(** micro-steps of the HTTP goroutine *)
Inductive mstep :=
| MPauseEngine       (* engine.Pause() *)
| MContinueEngine    (* engine.Continue() *)
| MAcc (a : access)  (* a memory access *)
| MSetPaused (b : bool).  (* m.enginePaused = b, under engineControlMu *)

Section Kind.
  Variable par : bool.   (* true: ParallelEngine *)

  (** accesses of one handler action, in order *)
  Definition action_accs (a : action) : list access :=
    match a with
    | AComp => [mk_acc VComp true []]
    | ASched => if par then [mk_acc VTime false [LNow]; mk_acc VQueue true [LQueue]]
                else [mk_acc VTime false []; mk_acc VQueue true []]
    | ATick => (* the scheduler's guard fields are component state, written under its own lock *)
               if par then [mk_acc VTime false [LTick; LNow]; mk_acc VComp true [LTick]; mk_acc VQueue true [LTick; LQueue]]
               else [mk_acc VTime false [LTick]; mk_acc VComp true [LTick]; mk_acc VQueue true [LTick]]
    | AProg => [mk_acc VProg true [LProg]]
    | APort => [mk_acc VBuf true [LPort]]
    | ANow => if par then [mk_acc VTime false [LNow]] else [mk_acc VTime false []]
    end.

  (** dispatch of one event by the engine itself: set the time, pop the queue *)
  Definition dispatch_accs : list access :=
    if par then [mk_acc VQueue false [LQueue]; mk_acc VTime true [LNow]; mk_acc VQueue true [LQueue]]
    else [mk_acc VQueue false []; mk_acc VTime true []; mk_acc VQueue true []].

  (** a request as micro-steps, given m.enginePaused *)
  Definition req_steps (paused : bool) (r : req) : list mstep :=
    match r with
    | RPause => if paused then [] else [MPauseEngine; MSetPaused true]
    | RContinue => if paused then [MContinueEngine; MSetPaused false] else []
    | RState => []
    | RNow => [MAcc (if par then mk_acc VTime false [LNow] else mk_acc VTime false [])]
    | RTick => if par then [MAcc (mk_acc VTime false [LTick; LNow]); MAcc (mk_acc VQueue true [LTick; LQueue])]
               else [MAcc (mk_acc VTime false [LTick]); MAcc (mk_acc VQueue true [LTick])]
    | RInspect => if paused then [MAcc (mk_acc VComp false [])]
                  else [MPauseEngine; MAcc (mk_acc VComp false []); MContinueEngine]
    | RBuffers => [MAcc (mk_acc VBuf false [LPort])]
    | RProgress => [MAcc (mk_acc VProg false [])]
    end.

  Inductive epc :=
  | ETop                         (* loop head: any event left? *)
  | EGate                        (* serial: load the flag / wait ; parallel: pauseLock.Lock() *)
  | EBody (todo : list access)   (* dispatch + handler accesses still to perform *)
  | ERelease                     (* parallel: pauseLock.Unlock() *)
  | EEnd.

  Record st := mk_st {
    s_epc : epc; s_left : nat;              (* events still to run *)
    s_flag : bool;                          (* serial: paused flag *)
    s_plock : option bool;                  (* parallel: pauseLock owner: None free, Some false engine, Some true monitor *)
    s_msteps : list mstep;                  (* micro-steps left of the current request *)
    s_reqs : list req;                      (* requests still to come *)
    s_mpaused : bool;                       (* m.enginePaused *)
    s_raced : bool                          (* ghost: a racy state was visited *)
  }.

  Variable prog : list action.   (* the handler program run for every event *)

  Definition body : list access := dispatch_accs ++ flat_map action_accs prog.

  Inductive tid := TE | TM.

  (** locks effectively held for the next access of each thread *)
  Definition eng_next (s : st) : option (var * bool * list lock) :=
    match s_epc s with
    | EBody (a :: _) => Some (a_var a, a_write a, if par then LPause :: a_locks a else a_locks a)
    | _ => None
    end.

  Definition mon_next (s : st) : option (var * bool * list lock) :=
    match s_msteps s with
    | MAcc a :: _ => Some (a_var a, a_write a,
                           match s_plock s with Some true => LPause :: a_locks a | _ => a_locks a end)
    | _ => None
    end.

  Definition disjoint (l1 l2 : list lock) : bool :=
    negb (existsb (fun x => existsb (lock_eqb x) l2) l1).

  Definition racy (s : st) : bool :=
    match eng_next s, mon_next s with
    | Some (v1, w1, l1), Some (v2, w2, l2) => var_eqb v1 v2 && (w1 || w2) && disjoint l1 l2
    | _, _ => false
    end.

  Definition mark (s : st) : st :=
    mk_st (s_epc s) (s_left s) (s_flag s) (s_plock s) (s_msteps s) (s_reqs s) (s_mpaused s) (s_raced s || racy s).

  Definition step_engine (s : st) : option st :=
    match s_epc s with
    | ETop =>
        match s_left s with
        | O => Some (mk_st EEnd O (s_flag s) (s_plock s) (s_msteps s) (s_reqs s) (s_mpaused s) (s_raced s))
        | S n => Some (mk_st EGate n (s_flag s) (s_plock s) (s_msteps s) (s_reqs s) (s_mpaused s) (s_raced s))
        end
    | EGate =>
        if par then
          match s_plock s with
          | None => Some (mk_st (EBody body) (s_left s) (s_flag s) (Some false) (s_msteps s) (s_reqs s) (s_mpaused s) (s_raced s))
          | Some _ => None
          end
        else if s_flag s then None   (* waitForResume: blocked until Continue *)
        else Some (mk_st (EBody body) (s_left s) (s_flag s) (s_plock s) (s_msteps s) (s_reqs s) (s_mpaused s) (s_raced s))
    | EBody (_ :: r) => Some (mk_st (EBody r) (s_left s) (s_flag s) (s_plock s) (s_msteps s) (s_reqs s) (s_mpaused s) (s_raced s))
    | EBody [] =>
        if par then Some (mk_st ERelease (s_left s) (s_flag s) (s_plock s) (s_msteps s) (s_reqs s) (s_mpaused s) (s_raced s))
        else Some (mk_st ETop (s_left s) (s_flag s) (s_plock s) (s_msteps s) (s_reqs s) (s_mpaused s) (s_raced s))
    | ERelease => Some (mk_st ETop (s_left s) (s_flag s) None (s_msteps s) (s_reqs s) (s_mpaused s) (s_raced s))
    | EEnd => None
    end.

  Definition step_monitor (s : st) : option st :=
    match s_msteps s with
    | [] =>
        match s_reqs s with
        | [] => None
        | r :: rest => Some (mk_st (s_epc s) (s_left s) (s_flag s) (s_plock s) (req_steps (s_mpaused s) r) rest (s_mpaused s) (s_raced s))
        end
    | MPauseEngine :: ms =>
        if par then
          match s_plock s with
          | None => Some (mk_st (s_epc s) (s_left s) (s_flag s) (Some true) ms (s_reqs s) (s_mpaused s) (s_raced s))
          | Some _ => None
          end
        else Some (mk_st (s_epc s) (s_left s) true (s_plock s) ms (s_reqs s) (s_mpaused s) (s_raced s))
    | MContinueEngine :: ms =>
        if par then Some (mk_st (s_epc s) (s_left s) (s_flag s) None ms (s_reqs s) (s_mpaused s) (s_raced s))
        else Some (mk_st (s_epc s) (s_left s) false (s_plock s) ms (s_reqs s) (s_mpaused s) (s_raced s))
    | MAcc _ :: ms => Some (mk_st (s_epc s) (s_left s) (s_flag s) (s_plock s) ms (s_reqs s) (s_mpaused s) (s_raced s))
    | MSetPaused b :: ms => Some (mk_st (s_epc s) (s_left s) (s_flag s) (s_plock s) ms (s_reqs s) b (s_raced s))
    end.

  (** every step first records whether the state it leaves is racy *)
  Definition step (t : tid) (s : st) : option st :=
    match (match t with TE => step_engine s | TM => step_monitor s end) with
    | Some s' => Some (mark s')
    | None => None
    end.

  Definition init (nev : nat) (reqs : list req) : st :=
    mk_st ETop nev false None [] reqs false false.
End Kind.

(** the static verdict per engine kind and request: can the request's accesses
    conflict with an engine access that is not protected by a common lock? *)
Definition safe_req (par : bool) (r : req) : bool :=
  match r with
  | RPause | RContinue | RState | RBuffers => true
  | RNow | RTick | RInspect => par
  | RProgress => false
  end.

(** handler actions a request can conflict with (for the witnesses) *)
Definition may_race (par : bool) (prog : list action) (r : req) : bool :=
  match r with
  | RPause | RContinue | RState | RBuffers => false
  | RNow => negb par                       (* races with the engine's own dispatch write of time *)
  | RTick => negb par                      (* reads time, pushes the unsynchronised queue *)
  | RInspect => negb par && existsb (fun a => match a with AComp | ATick => true | _ => false end) prog
  | RProgress => existsb (fun a => match a with AProg => true | _ => false end) prog
  end.
