(** C40 — monitor requests never race with a running simulation.  Theorems only. *)
From Akita Require Import Lib.Base Lib.Lts C40.Model C40.Proofs C40.Proofs2.
Local Open Scope N_scope.

(** Parallel engine: for every handler program, every number of events, every
    sequence of the requests pause / continue / state / now / tick / component and
    field inspection / port buffers, and EVERY interleaving, no reachable state has
    two conflicting accesses without a common lock.  (Inspection is protected by
    the pause lock held across the round; now/tick/buffers by nowLock, the queue
    check-out and the port lock.) *)
Theorem c40_inspection_safe_parallel : forall prog nev reqs o,
  forallb (safe_req true) reqs = true ->
  s_raced (run (step true prog) o (init nev reqs)) = false.
Proof. exact parallel_safe. Qed.
Print Assumptions c40_inspection_safe_parallel.

(** On BOTH engines the requests pause / continue / state / port-buffer levels are
    race-free for every handler program and every interleaving. *)
Theorem c40_basic_requests_safe : forall par prog nev reqs o,
  forallb basic_req reqs = true ->
  s_raced (run (step par prog) o (init nev reqs)) = false.
Proof. exact basic_requests_safe. Qed.
Print Assumptions c40_basic_requests_safe.

(** /api/now on the serial engine reads SerialEngine.time while dispatchNext writes it. *)
Theorem c40_now_races :
  exists o, s_raced (run (step false []) o (init 1 [RNow])) = true.
Proof. exists [TE; TE; TE; TM]. vm_compute. reflexivity. Qed.
Print Assumptions c40_now_races.

(** /api/tick on the serial engine: TickLater reads the time and pushes the
    unsynchronised event queue from the HTTP goroutine. *)
Theorem c40_tick_races :
  exists o, s_raced (run (step false []) o (init 1 [RTick])) = true.
Proof. exists [TE; TE; TE; TM]. vm_compute. reflexivity. Qed.
Print Assumptions c40_tick_races.

(** /api/component and /api/field on the serial engine: Pause returns while a
    handler is in flight (C05), so the serializer reads state a handler is writing. *)
Theorem c40_serial_inspection_races :
  exists o, s_raced (run (step false [AComp]) o (init 1 [RInspect])) = true.
Proof. exists [TE; TE; TE; TE; TE; TM; TM]. vm_compute. reflexivity. Qed.
Print Assumptions c40_serial_inspection_races.

(** /api/progress on both engines: json.Marshal reads the ProgressBar counters
    without the bar's mutex while the simulation updates them under it. *)
Theorem c40_progress_races :
  (exists o, s_raced (run (step true [AProg]) o (init 1 [RProgress])) = true) /\
  (exists o, s_raced (run (step false [AProg]) o (init 1 [RProgress])) = true).
Proof. split; exists [TE; TE; TE; TE; TE; TM]; vm_compute; reflexivity. Qed.
Print Assumptions c40_progress_races.

(** The model treats an inspection as ONE critical section of engineControlMu: the
    micro-steps of a request are never interleaved with those of another HTTP
    goroutine ([req_steps]).  That is a fact about monitoring2/monitor.go
    (pauseForInspection locks engineControlMu before Pause and only its resume
    closure unlocks it; pauseEngine / continueEngine lock the same mutex); the harness
    re-extracts it from the source with go/ast on every run and check_case compares it
    with [Exec.model_lock_scope].  It is necessary: if another goroutine's
    /api/continue can run between the reads of a (user-paused) inspection — the mutex
    not held across the inspection — the engine resumes under the reader and a racy
    state is reachable on BOTH engines. *)
Definition split_inspection : list mstep :=
  [MAcc (mk_acc VComp false []); MContinueEngine; MSetPaused false; MAcc (mk_acc VComp false [])].

Theorem c40_inspection_needs_control_mutex_refuted :
  (exists o, s_raced (run (step true [AComp]) o (mk_st ETop 1 false (Some true) split_inspection [] true false)) = true) /\
  (exists o, s_raced (run (step false [AComp]) o (mk_st ETop 1 true None split_inspection [] true false)) = true).
Proof. split; exists ([TE; TM; TM; TM] ++ repeat TE 6); vm_compute; reflexivity. Qed.
Print Assumptions c40_inspection_needs_control_mutex_refuted.

(** Non-vacuity: a parallel run with a handler doing everything and a request mix
    runs to completion race-free under a round-robin oracle. *)
Example c40_nonvacuous :
  let reqs := [RNow; RInspect; RPause; RTick; RInspect; RBuffers; RContinue; RState] in
  let s := run (step true [AComp; ASched; ATick; APort; ANow]) (concat (repeat [TE; TM] 80)) (init 3 reqs) in
  forallb (safe_req true) reqs = true /\ s_epc s = EEnd /\ s_reqs s = [] /\ s_msteps s = [] /\ s_raced s = false.
Proof. vm_compute. repeat split; reflexivity. Qed.
