(** C40 — case evaluators: the real monitor HTTP handlers hammered while an engine
    runs, under the race detector in a subprocess; the race log is parsed into the
    set of endpoints whose handler frames appear in a report. *)
From Akita Require Import Lib.Base Lib.Lts C40.Model.
Local Open Scope N_scope.

Record case := mk_case {
  c_par : bool;
  c_prog : list action;          (* what every event handler of the simulated component does *)
  c_reqs : list req;             (* the endpoints requested (repeatedly, concurrently with Run) *)
  o_raced : list req;            (* endpoints implicated by the race detector *)
  o_same : bool;                 (* final simulation results equal to an unmonitored run *)
  o_done : bool;                 (* the simulation finished after the last Continue *)
  (* the directed "held inspection" history: user pause, engine observed idle, a component/field
     inspection held open by a client that stops reading, /api/continue sent meanwhile *)
  c_hold : bool;
  o_during : bool;               (* events were handled while that inspection was still in progress *)
  o_scope : bool                 (* fact extracted from monitoring2/monitor.go: pauseForInspection keeps
                                    engineControlMu locked from before Pause until its resume function runs,
                                    and pauseEngine / continueEngine take the same mutex *)
}.

Definition req_eqb (a b : req) : bool :=
  match a, b with
  | RPause, RPause | RContinue, RContinue | RState, RState | RNow, RNow | RTick, RTick
  | RInspect, RInspect | RBuffers, RBuffers | RProgress, RProgress => true
  | _, _ => false
  end.

Definition mem_req (r : req) (l : list req) : bool := existsb (req_eqb r) l.

Definition all_reqs : list req := [RPause; RContinue; RState; RNow; RTick; RInspect; RBuffers; RProgress].

(** detector verdict within the model verdict, endpoint by endpoint: an endpoint the
    race detector implicates must be one the model says MAY race.  The converse is not
    required of a single run: whether a possible race manifests depends on the Go
    scheduler (requiring it made the check flaky on the unchanged tree, e.g. seed 2:
    parallel engine, pause+progress requests, no report in 151 requests). *)
(** the lock scope the model relies on (requests of different HTTP goroutines are
    serialised by engineControlMu, an inspection is one critical section) *)
Definition model_lock_scope : bool := true.

Definition check_case (c : case) : bool :=
  Bool.eqb (o_scope c) model_lock_scope &&
  (* held inspection: the model has the engine stopped for the whole critical section *)
  (* (on the serial engine the detector may still report the inspection: SerialEngine.Pause gives no
     happens-before edge from the engine's earlier handler writes to the inspector — known finding F-C40-3) *)
  (if c_hold c
   then negb (o_during c) && (if c_par c then match o_raced c with [] => true | _ => false end else true) && o_done c
   else true) &&
  forallb (fun r => implb (mem_req r (o_raced c)) (mem_req r (c_reqs c) && may_race (c_par c) (c_prog c) r)) all_reqs &&
  (* when the model predicts no race the run must be undisturbed; a racing run may end in any state *)
  (existsb (may_race (c_par c) (c_prog c)) (c_reqs c) || (o_same c && o_done c)).

(** the property on the observation *)
Definition holds_on (c : case) : bool :=
  match o_raced c with [] => true | _ => false end && o_same c && o_done c && negb (o_during c).
