(** C15 — lane exclusivity and conservation for every history (any sink, any delays). *)
From Coq Require Import Permutation.
From Akita Require Import Lib.Base C15.Model C15.Proofs1.

(** well-formed occupancy: exclusive slots, lanes below the width, stages below the stage count *)
Definition good (w n : nat) (l : list pitem) : Prop :=
  excl l /\ Forall (fun x => p_lane x < w /\ p_stage x < n)%nat l.

(** ** Accept *)
Lemma lane_used0_spec l lane :
  lane_used0 l lane = true <-> In (0%nat, lane) (map slot l).
Proof.
  unfold lane_used0. rewrite existsb_exists. split.
  - intros [x [Hin H]]. apply andb_true_iff in H. destruct H as [H1 H2].
    apply Nat.eqb_eq in H1. apply Nat.eqb_eq in H2. apply in_map_iff. exists x.
    split; [unfold slot; congruence|exact Hin].
  - intro H. apply in_map_iff in H. destruct H as [x [E Hin]]. exists x. split; [exact Hin|].
    unfold slot in E. inversion E. rewrite !Nat.eqb_refl. reflexivity.
Qed.

Lemma first_free_spec l : forall k lane,
  (lane <= first_free l lane k <= lane + k)%nat /\
  ((first_free l lane k < lane + k)%nat -> lane_used0 l (first_free l lane k) = false).
Proof.
  induction k as [|k IH]; intro lane; cbn [first_free].
  - split; lia.
  - destruct (lane_used0 l lane) eqn:E.
    + destruct (IH (S lane)) as [A B]. split; [lia|]. intro H. apply B. lia.
    + split; [lia|]. intros _. exact E.
Qed.

Lemma accept_good w n l it d p' : (1 <= n)%nat -> good w n l ->
  accept (mk_pipe w n l) it d = Some p' ->
  exists lane, p' = mk_pipe w n (l ++ [mk_pitem lane 0 it d]) /\ good w n (l ++ [mk_pitem lane 0 it d]).
Proof.
  intros Hn [Hex Hall]. unfold accept. cbn [items width with_items num_stages].
  destruct (first_free_spec l w 0) as [A B].
  destruct (first_free l 0 w <? w)%nat eqn:E; [|discriminate].
  apply Nat.ltb_lt in E. intros [= <-]. eexists. split; [reflexivity|]. split.
  - unfold excl. rewrite map_app. cbn [map]. apply (Permutation_NoDup (Permutation_cons_append _ _)).
    constructor; [|exact Hex]. intro H. change (In (0%nat, first_free l 0 w) (map slot l)) in H.
    apply (proj2 (lane_used0_spec _ _)) in H. rewrite B in H; [discriminate|lia].
  - apply Forall_app. split; [exact Hall|]. constructor; [|constructor]. cbn. lia.
Qed.

Lemma try_accept_good w n l a : (1 <= n)%nat -> good w n l ->
  let '(p', b) := try_accept (mk_pipe w n l) a in
  exists l', p' = mk_pipe w n l' /\ good w n l' /\
             ((b = false /\ l' = l) \/ (b = true /\ exists lane, l' = l ++ [mk_pitem lane 0 (fst a) (snd a)])).
Proof.
  intros Hn G. unfold try_accept. destruct (can_accept (mk_pipe w n l)).
  - destruct (accept (mk_pipe w n l) (fst a) (snd a)) as [p'|] eqn:E.
    + destruct (accept_good w n l _ _ p' Hn G E) as [lane [-> G']].
      eexists. split; [reflexivity|]. split; [exact G'|]. right. split; [reflexivity|]. eauto.
    + exists l. split; [reflexivity|]. split; [exact G|]. left. split; reflexivity.
  - exists l. split; [reflexivity|]. split; [exact G|]. left. split; reflexivity.
Qed.

(** ids that went in, read off the attempts and the flags *)
Fixpoint accepted_ids (a : list (N * Z)) (f : list bool) : list N :=
  match a, f with
  | x :: a', true :: f' => fst x :: accepted_ids a' f'
  | _ :: a', false :: f' => accepted_ids a' f'
  | _, _ => []
  end.

Lemma try_accepts_good w n : forall acc l, (1 <= n)%nat -> good w n l ->
  let '(p', fl) := try_accepts (mk_pipe w n l) acc in
  exists l', p' = mk_pipe w n l' /\ good w n l' /\
             (exists new, l' = l ++ new /\ map p_item new = accepted_ids acc fl /\
                          Forall (fun x => p_stage x = 0%nat /\ exists a, In a acc /\ p_item x = fst a /\ p_cyc x = snd a) new).
Proof.
  induction acc as [|a r IH]; intros l Hn G; cbn [try_accepts].
  - exists l. split; [reflexivity|]. split; [exact G|]. exists []. rewrite app_nil_r. repeat split; constructor.
  - pose proof (try_accept_good w n l a Hn G) as T. destruct (try_accept (mk_pipe w n l) a) as [p1 b].
    destruct T as [l1 [-> [G1 Hc]]]. specialize (IH l1 Hn G1).
    destruct (try_accepts (mk_pipe w n l1) r) as [p2 bs].
    destruct IH as [l2 [-> [G2 [new [-> [Hids Hnew]]]]]].
    exists (l1 ++ new). split; [reflexivity|]. split; [exact G2|].
    assert (Hnew' : Forall (fun x => p_stage x = 0%nat /\ exists a0, In a0 (a :: r) /\ p_item x = fst a0 /\ p_cyc x = snd a0) new).
    { eapply Forall_impl; [|exact Hnew]. cbn beta. intros x [S0 [a0 [I0 E0]]]. split; [exact S0|].
      exists a0. split; [right; exact I0|exact E0]. }
    destruct Hc as [[-> ->]|[-> [lane ->]]].
    + exists new. split; [reflexivity|]. split; [exact Hids|exact Hnew'].
    + exists (mk_pitem lane 0 (fst a) (snd a) :: new). rewrite <- app_assoc. split; [reflexivity|].
      split; [cbn [map accepted_ids p_item]; congruence|].
      constructor; [|exact Hnew']. cbn. split; [reflexivity|]. exists a. split; [left; reflexivity|split; reflexivity].
Qed.

(** ** Tick *)
Lemma visit_stage x y : visit x y -> (p_stage x <= p_stage y <= S (p_stage x))%nat.
Proof. destruct 1; cbn; lia. Qed.

Lemma Forall2_map_eq {A B} (f : A -> B) (R : A -> A -> Prop) l l' :
  (forall x y, R x y -> f y = f x) -> Forall2 R l l' -> map f l' = map f l.
Proof. intros H F. induction F; cbn [map]; [reflexivity|]. f_equal; auto. Qed.

Lemma Forall2_weaken {A B} (R R' : A -> B -> Prop) l l' :
  (forall x y, R x y -> R' x y) -> Forall2 R l l' -> Forall2 R' l l'.
Proof. intros H F. induction F; constructor; auto. Qed.

Lemma NoDup_app_r {A} (a b : list A) : NoDup (a ++ b) -> NoDup b.
Proof. induction a as [|x a IH]; cbn [app]; intro H; [exact H|]. inversion H; auto. Qed.

(** stage bound of one advanceItems call *)
Lemma adv_pass_bound stage l pre occ m :
  occ_ok occ (pre ++ l) -> excl (pre ++ l) ->
  Forall2 (fun x y => p_stage y <= Nat.max (p_stage x) (S stage))%nat l (fst (fst (adv_pass stage l occ m))).
Proof.
  intros Hok Hex. pose proof (adv_pass_inv stage l pre occ m Hok Hex) as P.
  destruct (adv_pass stage l occ m) as [[l' occ'] m']. cbn [fst]. destruct P as [_ [_ [C D]]].
  clear - C D. induction C as [|x y l l' V C IH]; inversion D; subst; constructor; auto.
  destruct V; cbn [p_stage dec_cyc move]; try lia.
  match goal with H : move x <> x -> _ |- _ => rewrite <- H end; [lia|].
  intro E. apply (f_equal p_stage) in E. cbn in E. lia.
Qed.

Lemma adv_loop_bound : forall k mn l occ m,
  occ_ok occ l -> excl l ->
  Forall2 (fun x y => p_stage y <= Nat.max (p_stage x) (mn + k))%nat l (fst (adv_loop k mn l occ m)).
Proof.
  induction k as [|k IH]; intros mn l occ m Hok Hex; cbn [adv_loop].
  - cbn [fst]. clear. induction l; constructor; auto. lia.
  - pose proof (adv_pass_inv (mn + k) l [] occ m Hok Hex) as P.
    pose proof (adv_pass_bound (mn + k) l [] occ m Hok Hex) as Bd.
    destruct (adv_pass (mn + k) l occ m) as [[l1 occ1] m1]. cbn [app fst] in *.
    destruct P as [A [B _]]. specialize (IH mn l1 occ1 m1 A B).
    destruct (adv_loop k mn l1 occ1 m1) as [l2 m2]. cbn [fst] in *.
    clear - Bd IH. revert l2 IH. induction Bd as [|x y l l1 H Bd IHB]; intros l2 F; inversion F; subst; constructor.
    + lia.
    + apply IHB. assumption.
Qed.

Lemma fold_max_ge l : forall a, (a <= fold_left (fun m y => Nat.max m (p_stage y)) l a)%nat /\
  Forall (fun x => p_stage x <= fold_left (fun m y => Nat.max m (p_stage y)) l a)%nat l.
Proof.
  induction l as [|x r IH]; intro a; cbn [fold_left]; [split; [lia|constructor]|].
  destruct (IH (Nat.max a (p_stage x))) as [A B]. split; [lia|]. constructor; [lia|exact B].
Qed.

Lemma fold_min_le l : forall a, (fold_left (fun m y => Nat.min m (p_stage y)) l a <= a)%nat /\
  Forall (fun x => fold_left (fun m y => Nat.min m (p_stage y)) l a <= p_stage x)%nat l.
Proof.
  induction l as [|x r IH]; intro a; cbn [fold_left]; [split; [lia|constructor]|].
  destruct (IH (Nat.min a (p_stage x))) as [A B]. split; [lia|]. constructor; [lia|exact B].
Qed.

Lemma max_stage_ge l : Forall (fun x => p_stage x <= max_stage_of l)%nat l.
Proof.
  destruct l as [|x r]; [constructor|]. unfold max_stage_of.
  destruct (fold_max_ge r (p_stage x)) as [A B]. constructor; assumption.
Qed.

Lemma min_stage_le l : Forall (fun x => min_stage_of l <= p_stage x)%nat l.
Proof.
  destruct l as [|x r]; [constructor|]. unfold min_stage_of.
  destruct (fold_min_le r (p_stage x)) as [A B]. constructor; assumption.
Qed.

Lemma advance_items_good w n l : good w n l ->
  good w n (fst (advance_items n l)) /\ map p_item (fst (advance_items n l)) = map p_item l.
Proof.
  intros [Hex Hall]. pose proof (advance_items_inv n l Hex) as P.
  assert (Bd : Forall2 (fun x y => p_stage y <= Nat.max (p_stage x) (n - 1))%nat l (fst (advance_items n l))).
  { unfold advance_items. assert (Hid : Forall2 (fun x y => p_stage y <= Nat.max (p_stage x) (n - 1))%nat l l)
      by (clear; induction l; constructor; auto; lia).
    destruct (n <? 2)%nat eqn:E2; [exact Hid|].
    destruct (Nat.min (max_stage_of l) (n - 2) <? min_stage_of l)%nat eqn:E3; [exact Hid|].
    apply Nat.ltb_ge in E2. apply Nat.ltb_ge in E3.
    pose proof (adv_loop_bound (Nat.min (max_stage_of l) (n - 2) - min_stage_of l + 1) (min_stage_of l) l
                  (build_occ l) false (build_occ_ok l) Hex) as B.
    eapply Forall2_weaken; [|exact B]. cbn beta. intros x y H. lia. }
  destruct (advance_items n l) as [l' m']. cbn [fst] in *. destruct P as [Hex' V].
  split; [split; [exact Hex'|]|].
  - clear - Hall V Bd. revert Hall Bd. induction V as [|x y l l' H V IH]; intros Hall Bd; [constructor|].
    inversion Hall; subst. inversion Bd; subst. constructor; [|apply IH; assumption].
    destruct (visits_lane _ _ H) as [L _]. lia.
  - apply (Forall2_map_eq p_item visits); [|exact V]. intros x y H. apply (visits_lane _ _ H).
Qed.

Lemma perm_good w n l l' : Permutation l l' -> good w n l -> good w n l'.
Proof.
  intros P [Hex Hall]. split.
  - unfold excl. eapply Permutation_NoDup; [apply Permutation_map; exact P|exact Hex].
  - eapply Permutation_Forall; eassumption.
Qed.

(** Tick keeps the occupancy well-formed and conserves the items, for any sink *)
Lemma tick_good w n l sink : (1 <= n)%nat -> good w n l ->
  let '(p', out, _) := tick false (mk_pipe w n l) sink in
  exists l', p' = mk_pipe w n l' /\ good w n l' /\
             Permutation (map p_item l) (out ++ map p_item l').
Proof.
  intros Hn G. unfold tick. cbn [items num_stages with_items width].
  destruct l as [|x0 l0] eqn:El; [exists []; repeat split; auto; constructor|]. rewrite <- El in *.
  destruct (n =? 0)%nat eqn:E0; [apply Nat.eqb_eq in E0; lia|].
  pose proof (phase1_spec (n - 1) sink (rev l) [] 0 [] false) as P.
  destruct (phase1 false (n - 1) sink (rev l) [] 0 [] false) as [[kept out] m1].
  destruct P as [em [stay [P [O [K [D _]]]]]]. cbn [app] in *.
  assert (Pl : Permutation l (em ++ stay)) by (rewrite <- P; apply Permutation_rev).
  assert (Gk : good w n kept).
  { apply (perm_good w n (map (p1_keep (n - 1)) stay)); [symmetry; exact K|].
    destruct G as [Hex Hall]. split.
    - unfold excl. rewrite map_map. erewrite map_ext; [|apply p1_keep_slot].
      assert (Hs : NoDup (map slot (em ++ stay))) by (eapply Permutation_NoDup; [apply Permutation_map; exact Pl|exact Hex]).
      rewrite map_app in Hs. apply NoDup_app_r in Hs. exact Hs.
    - apply Forall_map. assert (Hs : Forall (fun x => p_lane x < w /\ p_stage x < n)%nat (em ++ stay))
        by (eapply Permutation_Forall; eassumption).
      apply Forall_app in Hs. destruct Hs as [_ Hs]. eapply Forall_impl; [|exact Hs].
      intros x H. unfold p1_keep. destruct (_ && _)%bool; exact H. }
  assert (Ik : Permutation (map p_item l) (out ++ map p_item kept)).
  { rewrite O. rewrite (Permutation_map p_item Pl), map_app. apply Permutation_app_head.
    rewrite (Permutation_map p_item K), map_map. erewrite map_ext; [reflexivity|]. intro a. symmetry. apply p1_keep_item. }
  destruct kept as [|k0 kr] eqn:Ek.
  - exists []. split; [reflexivity|]. split; [split; constructor|exact Ik].
  - rewrite <- Ek in *. destruct (advance_items_good w n kept Gk) as [G' I'].
    destruct (advance_items n kept) as [l' m2]. cbn [fst] in *.
    exists l'. split; [reflexivity|]. split; [exact G'|]. rewrite I'. exact Ik.
Qed.

(** ** Rounds *)
Definition round_accepted (r : round) (o : robs) : list N := accepted_ids (r_accepts r) (b_accepted o).

Lemma do_round_good w n l r : (1 <= n)%nat -> good w n l ->
  let '(p', o) := do_round false (mk_pipe w n l) r in
  exists l', p' = mk_pipe w n l' /\ good w n l' /\ b_snap o = l' /\
             Permutation (map p_item l ++ round_accepted r o) (b_pushed o ++ map p_item l').
Proof.
  intros Hn G. unfold do_round.
  pose proof (try_accepts_good w n (r_accepts r) l Hn G) as T.
  destruct (try_accepts (mk_pipe w n l) (r_accepts r)) as [p1 fl].
  destruct T as [l1 [-> [G1 [new [-> [Hids _]]]]]].
  pose proof (tick_good w n (l ++ new) (r_sink r) Hn G1) as K.
  destruct (tick false (mk_pipe w n (l ++ new)) (r_sink r)) as [[p2 out] mv].
  destruct K as [l2 [-> [G2 P2]]]. exists l2. cbn [items b_snap b_pushed]. repeat (split; [auto|]).
  unfold round_accepted. cbn [b_accepted]. rewrite <- Hids, <- map_app. exact P2.
Qed.

Fixpoint all_accepted (rs : list round) (os : list robs) : list N :=
  match rs, os with
  | r :: rs', o :: os' => round_accepted r o ++ all_accepted rs' os'
  | _, _ => []
  end.

Lemma run_good w n : forall rs l, (1 <= n)%nat -> good w n l ->
  let '(p', os) := run false (mk_pipe w n l) rs in
  exists l', p' = mk_pipe w n l' /\ good w n l' /\
             Forall (fun o => good w n (b_snap o)) os /\
             Permutation (map p_item l ++ all_accepted rs os)
                         (flat_map b_pushed os ++ map p_item l').
Proof.
  induction rs as [|r rs IH]; intros l Hn G; cbn [run].
  - exists l. repeat (split; [auto|]). cbn. rewrite app_nil_r. reflexivity.
  - pose proof (do_round_good w n l r Hn G) as D. destruct (do_round false (mk_pipe w n l) r) as [p1 o].
    destruct D as [l1 [-> [G1 [S1 P1]]]]. specialize (IH l1 Hn G1).
    destruct (run false (mk_pipe w n l1) rs) as [p2 os]. destruct IH as [l2 [-> [G2 [F2 P2]]]].
    exists l2. split; [reflexivity|]. split; [exact G2|]. split; [constructor; [rewrite S1; exact G1|exact F2]|].
    cbn [all_accepted flat_map]. rewrite app_assoc. rewrite P1. rewrite <- !app_assoc.
    apply Permutation_app_head. exact P2.
Qed.
