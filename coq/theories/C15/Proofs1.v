(** C15 — slots, occupancy table, the two phases of Tick (any sink). *)
From Coq Require Import Permutation.
From Akita Require Import Lib.Base C15.Model.

Definition slot (x : pitem) : nat * nat := (p_stage x, p_lane x).

(** no two records in the same (stage, lane) *)
Definition excl (l : list pitem) : Prop := NoDup (map slot l).

Definition occ_ok (occ : occ_t) (l : list pitem) : Prop :=
  forall s ln, occ s ln = true <-> In (s, ln) (map slot l).

Lemma build_occ_ok l : occ_ok (build_occ l) l.
Proof.
  intros s ln. unfold build_occ. rewrite existsb_exists. split.
  - intros [x [Hin H]]. apply andb_true_iff in H. destruct H as [H1 H2].
    apply Nat.eqb_eq in H1. apply Nat.eqb_eq in H2. apply in_map_iff. exists x.
    split; [unfold slot; congruence|exact Hin].
  - intro H. apply in_map_iff in H. destruct H as [x [E Hin]]. exists x. split; [exact Hin|].
    unfold slot in E. inversion E; subst. rewrite !Nat.eqb_refl. reflexivity.
Qed.

Lemma dec_slot x : slot (dec_cyc x) = slot x.
Proof. reflexivity. Qed.

Lemma dec_item x : p_item (dec_cyc x) = p_item x.
Proof. reflexivity. Qed.

Definition move (x : pitem) : pitem := mk_pitem (p_lane x) (S (p_stage x)) (p_item x) (p_cyc x).

(** what one visit of advanceItems can do to a record *)
Inductive visit : pitem -> pitem -> Prop :=
| v_same x : visit x x
| v_dec x : (0 < p_cyc x)%Z -> visit x (dec_cyc x)
| v_move x : (p_cyc x <= 0)%Z -> visit x (move x).

Lemma occ_ok_move occ pre x r :
  occ_ok occ (pre ++ x :: r) -> excl (pre ++ x :: r) ->
  occ (S (p_stage x)) (p_lane x) = false ->
  occ_ok (occ_set (occ_set occ (p_stage x) (p_lane x) false) (S (p_stage x)) (p_lane x) true)
         (pre ++ move x :: r) /\ excl (pre ++ move x :: r).
Proof.
  intros Hok Hex Hfree.
  assert (Hnot : ~ In (S (p_stage x), p_lane x) (map slot (pre ++ x :: r))).
  { intro H. apply Hok in H. congruence. }
  unfold excl, occ_ok in *. rewrite !map_app in *. cbn [map] in *.
  assert (Hmid := NoDup_remove _ _ _ Hex). destruct Hmid as [Hnd Hnin].
  split.
  - intros s ln. unfold occ_set.
    destruct ((s =? S (p_stage x)) && (ln =? p_lane x))%nat eqn:E1.
    + apply andb_true_iff in E1. destruct E1 as [A B]. apply Nat.eqb_eq in A. apply Nat.eqb_eq in B. subst.
      split; [intros _|reflexivity]. apply in_or_app. right. left. reflexivity.
    + destruct ((s =? p_stage x) && (ln =? p_lane x))%nat eqn:E2.
      * apply andb_true_iff in E2. destruct E2 as [A B]. apply Nat.eqb_eq in A. apply Nat.eqb_eq in B. subst.
        split; [discriminate|]. intro H. exfalso. apply in_app_or in H. destruct H as [H|[H|H]].
        -- apply Hnin. apply in_or_app. left. exact H.
        -- unfold slot, move in H. cbn in H. inversion H. lia.
        -- apply Hnin. apply in_or_app. right. exact H.
      * rewrite (Hok s ln). rewrite !in_app_iff. cbn [In].
        assert (N1 : slot x <> (s, ln)).
        { unfold slot. intro Q. inversion Q. subst. rewrite !Nat.eqb_refl in E2. discriminate. }
        assert (N2 : slot (move x) <> (s, ln)).
        { unfold slot, move. cbn. intro Q. inversion Q. subst. rewrite !Nat.eqb_refl in E1. discriminate. }
        tauto.
  - apply (Permutation_NoDup (Permutation_middle _ _ _)).
    constructor; [|exact Hnd]. intro H. apply Hnot.
    apply in_app_or in H. apply in_or_app. destruct H; [left|right; right]; assumption.
Qed.

(** one pass of the inner loop: records are visited in place; the occupancy
    table stays exact; exclusivity is kept *)
Lemma adv_pass_inv stage : forall l pre occ m,
  occ_ok occ (pre ++ l) -> excl (pre ++ l) ->
  let '(l', occ', _) := adv_pass stage l occ m in
  occ_ok occ' (pre ++ l') /\ excl (pre ++ l') /\ Forall2 visit l l' /\
  Forall2 (fun x x' => x' <> x -> p_stage x = stage) l l'.
Proof.
  induction l as [|x r IH]; intros pre occ m Hok Hex; cbn [adv_pass].
  - split; [exact Hok|split; [exact Hex|split; constructor]].
  - destruct (negb (p_stage x =? stage)%nat) eqn:Es.
    { specialize (IH (pre ++ [x]) occ m). rewrite <- !app_assoc in IH. cbn [app] in IH.
      specialize (IH Hok Hex). destruct (adv_pass stage r occ m) as [[r' occ'] m'].
      rewrite <- !app_assoc in IH. cbn [app] in IH. destruct IH as [A [B [C D]]].
      split; [exact A|split; [exact B|split; constructor; auto; try constructor; try congruence]]. }
    apply negb_false_iff, Nat.eqb_eq in Es.
    destruct (0 <? p_cyc x)%Z eqn:Ec.
    { assert (Hs : map slot (pre ++ dec_cyc x :: r) = map slot (pre ++ x :: r)).
      { rewrite !map_app. reflexivity. }
      specialize (IH (pre ++ [dec_cyc x]) occ true). rewrite <- !app_assoc in IH. cbn [app] in IH.
      assert (Hok' : occ_ok occ (pre ++ dec_cyc x :: r)).
      { intros s ln. rewrite Hs. apply Hok. }
      assert (Hex' : excl (pre ++ dec_cyc x :: r)) by (unfold excl; rewrite Hs; exact Hex).
      specialize (IH Hok' Hex'). destruct (adv_pass stage r occ true) as [[r' occ'] m'].
      rewrite <- !app_assoc in IH. cbn [app] in IH. destruct IH as [A [B [C D]]].
      split; [exact A|split; [exact B|split; constructor; auto; try (apply v_dec; lia)]]. }
    destruct (occ (S stage) (p_lane x)) eqn:Eo.
    { specialize (IH (pre ++ [x]) occ m). rewrite <- !app_assoc in IH. cbn [app] in IH.
      specialize (IH Hok Hex). destruct (adv_pass stage r occ m) as [[r' occ'] m'].
      rewrite <- !app_assoc in IH. cbn [app] in IH. destruct IH as [A [B [C D]]].
      split; [exact A|split; [exact B|split; constructor; auto; try constructor; try congruence]]. }
    subst stage.
    destruct (occ_ok_move occ pre x r Hok Hex Eo) as [Hok' Hex'].
    change (mk_pitem (p_lane x) (S (p_stage x)) (p_item x) (p_cyc x)) with (move x).
    set (occ1 := occ_set (occ_set occ (p_stage x) (p_lane x) false) (S (p_stage x)) (p_lane x) true) in *.
    specialize (IH (pre ++ [move x]) occ1 true). rewrite <- !app_assoc in IH. cbn [app] in IH.
    specialize (IH Hok' Hex'). destruct (adv_pass (p_stage x) r occ1 true) as [[r' occ'] m'].
    rewrite <- !app_assoc in IH. cbn [app] in IH. destruct IH as [A [B [C D]]].
    split; [exact A|split; [exact B|split; constructor; auto; try (apply v_move; lia)]].
Qed.

(** the visit relation, closed under the passes of one advanceItems call *)
Inductive visits : pitem -> pitem -> Prop :=
| vs_refl x : visits x x
| vs_step x y z : visits x y -> visit y z -> visits x z.

Lemma adv_loop_inv : forall k mn l occ m,
  occ_ok occ l -> excl l ->
  let '(l', _) := adv_loop k mn l occ m in
  excl l' /\ Forall2 visits l l'.
Proof.
  induction k as [|k IH]; intros mn l occ m Hok Hex; cbn [adv_loop].
  - split; [exact Hex|]. clear. induction l; constructor; auto. constructor.
  - pose proof (adv_pass_inv (mn + k) l [] occ m Hok Hex) as P.
    destruct (adv_pass (mn + k) l occ m) as [[l1 occ1] m1]. cbn [app] in P.
    destruct P as [A [B [C _]]].
    specialize (IH mn l1 occ1 m1 A B). destruct (adv_loop k mn l1 occ1 m1) as [l2 m2].
    destruct IH as [E F]. split; [exact E|].
    clear - C F. revert l2 F. induction C as [|x y l l1 V C IHC]; intros l2 F; inversion F; subst; constructor.
    + match goal with H : visits y _ |- _ => revert H end. clear - V.
      intro H. induction H as [y|y a b H IHH V2].
      * econstructor; [constructor|exact V].
      * econstructor; [apply IHH; exact V|exact V2].
    + apply IHC. assumption.
Qed.

Lemma visit_lane x y : visit x y -> p_lane y = p_lane x /\ p_item y = p_item x.
Proof. destruct 1; split; reflexivity. Qed.

Lemma visits_lane x y : visits x y -> p_lane y = p_lane x /\ p_item y = p_item x.
Proof.
  induction 1 as [x|x y z H [IH1 IH2] V]; [split; reflexivity|].
  destruct (visit_lane _ _ V). split; congruence.
Qed.

Lemma advance_items_inv n l : excl l ->
  let '(l', _) := advance_items n l in excl l' /\ Forall2 visits l l'.
Proof.
  intro Hex. unfold advance_items.
  assert (Hid : Forall2 visits l l) by (clear; induction l; constructor; auto; constructor).
  destruct (n <? 2)%nat; [split; assumption|].
  destruct (Nat.min (max_stage_of l) (n - 2) <? min_stage_of l)%nat; [split; assumption|].
  apply adv_loop_inv; [apply build_occ_ok|exact Hex].
Qed.

(** ** Phase 1 *)
Lemma swap_remove_perm kept : Permutation (swap_remove kept) kept.
Proof.
  destruct kept as [|a k]; [constructor|]. unfold swap_remove.
  set (d := mk_pitem 0 0 0 0).
  assert (H : a :: k <> []) by discriminate.
  rewrite (app_removelast_last d H) at 3.
  apply Permutation_cons_append.
Qed.

(** record as left behind by Phase 1 when it is not pushed *)
Definition p1_keep (last_stage : nat) (x : pitem) : pitem :=
  if ((p_stage x =? last_stage)%nat && (0 <? p_cyc x)%Z)%bool then dec_cyc x else x.

Definition due (last_stage : nat) (x : pitem) : bool :=
  ((p_stage x =? last_stage)%nat && (p_cyc x <=? 0)%Z)%bool.

Lemma phase1_spec last sink : forall todo kept q out moved,
  let '(kept', out', _) := phase1 false last sink todo kept q out moved in
  exists em stay,
    Permutation todo (em ++ stay) /\
    out' = out ++ map p_item em /\
    Permutation kept' (kept ++ map (p1_keep last) stay) /\
    Forall (fun x => due last x = true) em /\
    ((forall i, sink i = true) -> em = filter (due last) todo /\ stay = filter (fun x => negb (due last x)) todo).
Proof.
  induction todo as [|x t IH]; intros kept q out moved; cbn [phase1].
  - exists [], []. cbn. rewrite !app_nil_r. repeat split; auto.
  - unfold due, p1_keep in *.
    destruct (negb (p_stage x =? last)%nat) eqn:Es.
    { apply negb_true_iff in Es. specialize (IH (x :: kept) q out moved).
      destruct (phase1 false last sink t (x :: kept) q out moved) as [[k' o'] m'].
      destruct IH as [em [stay [P [O [K [D R]]]]]].
      exists em, (x :: stay). split; [|split; [exact O|split; [|split; [exact D|]]]].
      - rewrite P. apply Permutation_middle.
      - rewrite K. cbn [map]. rewrite Es. cbn [andb app]. apply Permutation_middle.
      - intro A. destruct (R A) as [-> ->]. cbn [filter]. rewrite Es. cbn [andb negb]. split; reflexivity. }
    apply negb_false_iff in Es.
    destruct (0 <? p_cyc x)%Z eqn:Ec.
    { cbn [negb andb]. specialize (IH (dec_cyc x :: kept) q out true).
      destruct (phase1 false last sink t (dec_cyc x :: kept) q out true) as [[k' o'] m'].
      destruct IH as [em [stay [P [O [K [D R]]]]]].
      exists em, (x :: stay). split; [|split; [exact O|split; [|split; [exact D|]]]].
      - rewrite P. apply Permutation_middle.
      - rewrite K. cbn [map]. rewrite Es, Ec. cbn [andb app]. apply Permutation_middle.
      - intro A. destruct (R A) as [-> ->]. cbn [filter]. rewrite Es.
        assert ((p_cyc x <=? 0)%Z = false) as -> by lia. cbn [andb negb]. split; reflexivity. }
    cbn [negb andb]. destruct (sink q) eqn:Eq.
    + specialize (IH (swap_remove kept) (S q) (out ++ [p_item x]) true).
      destruct (phase1 false last sink t (swap_remove kept) (S q) (out ++ [p_item x]) true) as [[k' o'] m'].
      destruct IH as [em [stay [P [O [K [D R]]]]]].
      exists (x :: em), stay. split; [|split; [|split; [|split]]].
      * cbn [app]. constructor. exact P.
      * rewrite O. cbn [map]. rewrite <- app_assoc. reflexivity.
      * rewrite K. apply Permutation_app_tail. apply swap_remove_perm.
      * constructor; [|exact D]. rewrite Es. assert ((p_cyc x <=? 0)%Z = true) as -> by lia. reflexivity.
      * intro A. destruct (R A) as [-> ->]. cbn [filter]. rewrite Es.
        assert ((p_cyc x <=? 0)%Z = true) as -> by lia. cbn [andb negb]. split; reflexivity.
    + specialize (IH (x :: kept) (S q) out moved).
      destruct (phase1 false last sink t (x :: kept) (S q) out moved) as [[k' o'] m'].
      destruct IH as [em [stay [P [O [K [D R]]]]]].
      exists em, (x :: stay). split; [|split; [exact O|split; [|split; [exact D|]]]].
      * rewrite P. apply Permutation_middle.
      * rewrite K. cbn [map]. rewrite Es, Ec. cbn [andb app]. apply Permutation_middle.
      * intro A. rewrite A in Eq. discriminate.
Qed.

Lemma p1_keep_slot last x : slot (p1_keep last x) = slot x.
Proof. unfold p1_keep. destruct (_ && _)%bool; reflexivity. Qed.

Lemma p1_keep_item last x : p_item (p1_keep last x) = p_item x.
Proof. unfold p1_keep. destruct (_ && _)%bool; reflexivity. Qed.
