(** C15 — case evaluators for the correspondence check. *)
From Akita Require Import Lib.Base C15.Model.

(** INPUT: geometry and, per round, the accept attempts and the sink script.
    OBSERVED: per round what the implementation did ([robs]). *)
Record cround := mk_cround {
  cr_accepts : list (N * Z); cr_sink : list bool; cr_dflt : bool;
  cr_obs : robs }.

Record case := mk_case { c_w : nat; c_n : nat; c_rounds : list cround }.

Definition pitem_eqb (a b : pitem) : bool :=
  (p_lane a =? p_lane b)%nat && (p_stage a =? p_stage b)%nat &&
  (p_item a =? p_item b)%N && (p_cyc a =? p_cyc b)%Z.

Definition robs_eqb (a b : robs) : bool :=
  list_eqb Bool.eqb (b_accepted a) (b_accepted b) &&
  listN_eqb (b_pushed a) (b_pushed b) &&
  Bool.eqb (b_moved a) (b_moved b) &&
  list_eqb pitem_eqb (b_snap a) (b_snap b).

Definition to_round (c : cround) : round :=
  mk_round (cr_accepts c) (sink_of (cr_sink c) (cr_dflt c)).

(** model output = implementation output, round by round *)
Definition check_case (c : case) : bool :=
  list_eqb robs_eqb
    (snd (run false (new_pipe (c_w c) (c_n c)) (map to_round (c_rounds c))))
    (map cr_obs (c_rounds c)).

(** ** The property on the observed behaviour (no reference to the model's Tick). *)

Fixpoint insN (x : N) (l : list N) : list N :=
  match l with
  | [] => [x]
  | y :: r => if (x <=? y)%N then x :: l else y :: insN x r
  end.
Definition sortNl (l : list N) : list N := fold_right insN [] l.
Definition same_bag (a b : list N) : bool := listN_eqb (sortNl a) (sortNl b).

Fixpoint nodupb (l : list N) : bool :=
  match l with
  | [] => true
  | x :: r => negb (existsb (N.eqb x) r) && nodupb r
  end.

Definition memN (x : N) (l : list N) : bool := existsb (N.eqb x) l.

(** items that went in during a round *)
Fixpoint accepted_of (a : list (N * Z)) (f : list bool) : list (N * Z) :=
  match a, f with
  | x :: a', true :: f' => x :: accepted_of a' f'
  | _ :: a', false :: f' => accepted_of a' f'
  | _, _ => []
  end.

Definition accepted_in (c : cround) : list (N * Z) :=
  accepted_of (cr_accepts c) (b_accepted (cr_obs c)).

(** the sink had room for the whole tick *)
Definition ready (c : cround) : bool := cr_dflt c && forallb (fun b => b) (cr_sink c).

(** no two records in one (stage, lane); lanes and stages in range *)
Fixpoint slots_ok (w n : nat) (l : list pitem) : bool :=
  match l with
  | [] => true
  | x :: r =>
      (p_lane x <? w)%nat && (p_stage x <? n)%nat &&
      negb (existsb (fun y => (p_stage y =? p_stage x)%nat && (p_lane y =? p_lane x)%nat) r) &&
      slots_ok w n r
  end.

(** rounds [i, j] all ready; [rs] is the list of rounds *)
Definition ready_between (rs : list cround) (i j : nat) : bool :=
  forallb ready (firstn (j + 1 - i) (skipn i rs)).

Definition pushed_at (rs : list cround) (j : nat) : list N :=
  match nth_error rs j with Some c => b_pushed (cr_obs c) | None => [] end.

Definition pushed_before (rs : list cround) (j : nat) : list N :=
  flat_map (fun c => b_pushed (cr_obs c)) (firstn j rs).

(** conservation, round by round: previous snapshot + accepted = pushed + snapshot *)
Fixpoint conserved (prev : list N) (rs : list cround) : bool :=
  match rs with
  | [] => true
  | c :: r =>
      let snap := map p_item (b_snap (cr_obs c)) in
      same_bag (prev ++ map fst (accepted_in c)) (b_pushed (cr_obs c) ++ snap) &&
      conserved snap r
  end.

(** latency: an item accepted in round i with delay d >= 0 is never pushed before
    round i + n - 1 + d, and is pushed in exactly that round if the sink was
    ready in rounds i .. i + n - 1 + d *)
Definition latency_ok (n : nat) (rs : list cround) : bool :=
  forallb (fun i =>
    match nth_error rs i with
    | None => true
    | Some c =>
        forallb (fun a : N * Z =>
          if (snd a <? 0)%Z then true else
          let j := (i + n - 1 + Z.to_nat (snd a))%nat in
          negb (memN (fst a) (pushed_before rs j)) &&
          (if (j <? length rs)%nat && ready_between rs i j
           then memN (fst a) (pushed_at rs j) else true))
        (accepted_in c)
    end) (seq 0 (length rs)).

(** progress from any reached state: a record seen after round i at stage s with
    c cycles left leaves in round i + 1 + (n-1-s) + c if the sink is ready from
    round i+1 to then *)
Definition progress_ok (n : nat) (rs : list cround) : bool :=
  forallb (fun i =>
    match nth_error rs i with
    | None => true
    | Some c =>
        forallb (fun x : pitem =>
          if (p_cyc x <? 0)%Z then true else
          let j := (i + 1 + (n - 1 - p_stage x) + Z.to_nat (p_cyc x))%nat in
          if (j <? length rs)%nat && ready_between rs (i + 1) j
          then memN (p_item x) (pushed_at rs j) else true)
        (b_snap (cr_obs c))
    end) (seq 0 (length rs)).

(** a one-lane pipeline is FIFO: the pushes are a prefix of the accepted items, in order *)
Definition fifo_ok (w : nat) (rs : list cround) : bool :=
  if (w =? 1)%nat then
    let pushes := flat_map (fun c => b_pushed (cr_obs c)) rs in
    let accs := flat_map (fun c => map fst (accepted_in c)) rs in
    listN_eqb pushes (firstn (length pushes) accs)
  else true.

Definition holds_on (c : case) : bool :=
  let rs := c_rounds c in
  if (c_n c =? 0)%nat then true
  else if negb (nodupb (flat_map (fun r => map fst (cr_accepts r)) rs)) then true  (* ids must be distinct *)
  else
    forallb (fun r => slots_ok (c_w c) (c_n c) (b_snap (cr_obs r))) rs &&
    conserved [] rs &&
    nodupb (flat_map (fun r => b_pushed (cr_obs r)) rs) &&
    latency_ok (c_n c) rs &&
    progress_ok (c_n c) rs &&
    fifo_ok (c_w c) rs.
