(** C15 — pipelines conserve items, respect lanes, never strand.  Property theorems only. *)
From Akita Require Import Lib.Base C15.Model.

Theorem c15_placeholder : items (new_pipe 1 1) = [].
Proof. reflexivity. Qed.
Print Assumptions c15_placeholder.
