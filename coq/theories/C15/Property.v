(** C15 — pipelines conserve items, respect lanes, never strand.  Property theorems only.

    [run false] is the model of the current queueing.Pipeline driven in rounds:
    some accept attempts (each guarded by CanAccept, with an arbitrary delay),
    then one Tick whose sink answers the q-th CanPush() of that tick by an
    arbitrary oracle [r_sink r q].  Width, stage count (>= 1), delays, accept
    patterns and sink oracles are universally quantified. *)
From Coq Require Import Permutation.
From Akita Require Import Lib.Base C15.Model C15.Proofs1 C15.Proofs2 C15.Proofs3 C15.Proofs4 C15.Proofs5.

(** No two records ever occupy the same lane of the same stage; lanes stay
    below the width and stages below the stage count — in every snapshot of
    every history, whatever the sink does and whatever the delays are. *)
Theorem c15_lane_exclusive : forall w n rs, (1 <= n)%nat ->
  Forall (fun o => NoDup (map slot (b_snap o)) /\
                   Forall (fun x => p_lane x < w /\ p_stage x < n)%nat (b_snap o))
         (snd (run false (new_pipe w n) rs)).
Proof.
  intros w n rs Hn. pose proof (run_good w n rs [] Hn (proj1 (st_ok_new w n))) as R.
  unfold new_pipe. destruct (run false (mk_pipe w n []) rs) as [p os].
  destruct R as [l' [_ [_ [F _]]]]. exact F.
Qed.
Print Assumptions c15_lane_exclusive.

(** Conservation: at the end of every history the accepted items are exactly
    the pushed items plus the items still in the pipeline (as multisets). *)
Theorem c15_conservation : forall w n rs, (1 <= n)%nat ->
  let '(p, os) := run false (new_pipe w n) rs in
  Permutation (all_accepted rs os) (flat_map b_pushed os ++ map p_item (items p)).
Proof.
  intros w n rs Hn. pose proof (run_good w n rs [] Hn (proj1 (st_ok_new w n))) as R.
  unfold new_pipe. destruct (run false (mk_pipe w n []) rs) as [p os].
  destruct R as [l' [-> [_ [_ P]]]]. exact P.
Qed.
Print Assumptions c15_conservation.

(** Exactly once: if the accepted items are pairwise distinct, no item is pushed
    twice and no pushed item is still in the pipeline. *)
Theorem c15_exactly_once : forall w n rs, (1 <= n)%nat ->
  let '(p, os) := run false (new_pipe w n) rs in
  NoDup (all_accepted rs os) -> NoDup (flat_map b_pushed os ++ map p_item (items p)).
Proof.
  intros w n rs Hn. pose proof (c15_conservation w n rs Hn) as C.
  destruct (run false (new_pipe w n) rs) as [p os]. intro H.
  eapply Permutation_NoDup; eassumption.
Qed.
Print Assumptions c15_exactly_once.

(** Latency: an item accepted with delay d >= 0 in a round from which on the sink
    has room is pushed by the Tick number (stages - 1) + d counted from that
    round's own Tick as number 0, i.e. exactly stages + d ticks after acceptance
    (together with [c15_exactly_once]: in no other tick). *)
Theorem c15_latency : forall w n pre r post id d, (1 <= n)%nat ->
  Forall delays_ok pre -> Forall delays_ok (r :: post) -> Forall ready_round (r :: post) ->
  In (id, d) (r_accepts r) -> NoDup (map fst (r_accepts r)) ->
  let os := snd (run false (new_pipe w n) (pre ++ r :: post)) in
  In id (round_accepted r (nth (length pre) os dflt_obs)) ->
  (n - 1 + Z.to_nat d < S (length post))%nat ->
  In id (b_pushed (nth (length pre + (n - 1 + Z.to_nat d)) os dflt_obs)).
Proof. intros w n pre r post id d Hn. apply latency. exact Hn. Qed.
Print Assumptions c15_latency.

(** Every item eventually leaves when the sink has room, whatever the delay and
    stage count: from ANY reachable state (arbitrary earlier sink behaviour), a
    record at stage s with c cycles left is pushed by the tick number
    (stages - 1 - s) + c of the following ready rounds. *)
Theorem c15_eventually_leaves : forall w n pre post x, (1 <= n)%nat ->
  Forall delays_ok pre -> Forall delays_ok post -> Forall ready_round post ->
  In x (items (fst (run false (new_pipe w n) pre))) -> (rem n x < length post)%nat ->
  In (p_item x) (b_pushed (nth (length pre + rem n x)
                               (snd (run false (new_pipe w n) (pre ++ post))) dflt_obs)).
Proof. intros w n pre post x Hn. apply eventually_leaves. exact Hn. Qed.
Print Assumptions c15_eventually_leaves.

(** A one-lane pipeline is first-in-first-out: for every stage count, delays and
    sink behaviour, the sequence of all pushes is a prefix of the sequence of all
    accepted items (in acceptance order). *)
Theorem c15_fifo_width1 : forall n rs, (1 <= n)%nat ->
  let os := snd (run false (new_pipe 1 n) rs) in
  exists rest, all_accepted rs os = flat_map b_pushed os ++ rest.
Proof. exact fifo_width1. Qed.
Print Assumptions c15_fifo_width1.

(** With a ready sink one Tick pushes exactly the due records (last stage, no
    cycles left) and moves every other record by exactly one step. *)
Theorem c15_tick_ready_exact : forall w n l sink, (1 <= n)%nat -> good w n l -> dwell_ok l ->
  (forall i, sink i = true) ->
  let '(p', out, _) := tick false (mk_pipe w n l) sink in
  exists l', p' = mk_pipe w n l' /\
             out = map p_item (filter (is_due n) (rev l)) /\
             Permutation l' (map adv1 (filter (fun x => negb (is_due n x)) (rev l))).
Proof. exact tick_ready. Qed.
Print Assumptions c15_tick_ready_exact.

(** Link between the evaluators of Exec.v: if the implementation's observations
    agree with the model round by round ([check_case]) then the property predicate
    evaluated on those observations ([holds_on]: lane exclusivity, per-round
    conservation, no duplicate push, latency — never before stages+delay ticks
    for ANY sink, exactly then under ready rounds —, progress from every observed
    snapshot, FIFO for one lane) holds.  [wf_case]: the delays are non-negative. *)
From Akita Require Import C15.Exec C15.Proofs6 C15.Proofs7 C15.Proofs8 C15.Proofs9.
Theorem c15_model_agreement_implies_property : forall c, wf_case c ->
  check_case c = true -> holds_on c = true.
Proof. exact check_implies_holds. Qed.
Print Assumptions c15_model_agreement_implies_property.

(** Latency lower bound for an arbitrary sink: an item accepted in round i with
    delay d is never pushed before round i + (stages - 1) + d. *)
Theorem c15_never_early : forall w n crs i c id d k, (1 <= n)%nat -> Forall cdelays_ok crs ->
  map cr_obs crs = snd (run false (new_pipe w n) (map to_round crs)) ->
  NoDup (flat_map (fun r => map fst (cr_accepts r)) crs) ->
  nth_error crs i = Some c -> In (id, d) (accepted_in c) -> In id (pushed_at crs k) ->
  (i + (n - 1) + Z.to_nat d <= k)%nat.
Proof.
  intros w n crs i c id d k Hn Hd H Hnd Ec Ha Hk. unfold new_pipe in H.
  destruct (run_lower w n crs 0 [] [] Hn (st_ok_new w n) Hd H ltac:(intros x []) k id Hk) as [e [He Le]].
  cbn [app] in He. rewrite (hist_unique n crs 0 i c id e d Hnd He Ec Ha) in Le. lia.
Qed.
Print Assumptions c15_never_early.

Example c15_link_nonvacuous :
  let c := mk_case 1 1 [mk_cround [(5%N, 1%Z)] [] true (mk_robs [true] [] true [mk_pitem 0 0 5 0]);
                        mk_cround [] [] true (mk_robs [] [5%N] true [])] in
  wf_case c /\ check_case c = true /\ holds_on c = true.
Proof. split; [repeat constructor; cbn; lia|split; vm_compute; reflexivity]. Qed.

(** Regression lemma for the code before fix 6f910dbe ([run true]): in a
    single-stage pipeline an item accepted with delay 2 is never decremented and
    never leaves (here: 6 ticks with a ready sink), while the current code pushes
    it in the third tick. *)
Theorem c15_single_stage_dwell_old_refuted :
  let rs := mk_round [(7%N, 2%Z)] always_ready :: repeat (mk_round [] always_ready) 5 in
  flat_map b_pushed (snd (run true (new_pipe 1 1) rs)) = [] /\
  map p_cyc (items (fst (run true (new_pipe 1 1) rs))) = [2%Z] /\
  map b_pushed (snd (run false (new_pipe 1 1) rs)) = [[]; []; [7%N]; []; []; []].
Proof. vm_compute. repeat split. Qed.
Print Assumptions c15_single_stage_dwell_old_refuted.

(** Non-vacuity: a 3-stage, 2-lane pipeline with mixed delays, a refused third
    attempt, a blocked sink in rounds 3-4 and room afterwards. *)
Example c15_nonvacuous :
  let blocked := mk_round [] (fun _ => false) in
  let rdy acc := mk_round acc always_ready in
  let rs := [rdy [(1%N, 0%Z); (2%N, 2%Z); (3%N, 0%Z)]; rdy [(4%N, 1%Z)]; rdy []; blocked; blocked;
             rdy []; rdy []; rdy []; rdy []] in
  Forall delays_ok rs /\
  map b_accepted (firstn 2 (snd (run false (new_pipe 2 3) rs))) = [[true; true; false]; [true]] /\
  map b_pushed (snd (run false (new_pipe 2 3) rs)) = [[]; []; [1%N]; []; []; [2%N; 4%N]; []; []; []].
Proof.
  split; [|split].
  - repeat constructor; cbn; lia.
  - vm_compute. reflexivity.
  - vm_compute. reflexivity.
Qed.
