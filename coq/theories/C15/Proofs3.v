(** C15 — with a sink that has room, every record progresses by exactly one step per tick. *)
From Coq Require Import Permutation.
From Akita Require Import Lib.Base C15.Model C15.Proofs1 C15.Proofs2.

(** dwell counters are non-negative and only stage 0 of a multi-stage pipeline dwells *)
Definition dwell_ok (l : list pitem) : Prop :=
  Forall (fun x => (0 <= p_cyc x)%Z /\ ((1 <= p_stage x)%nat -> p_cyc x = 0%Z)) l.

(** one step of progress *)
Definition adv1 (x : pitem) : pitem := if (0 <? p_cyc x)%Z then dec_cyc x else move x.

Definition adv_at (s : nat) (x : pitem) : pitem := if (p_stage x =? s)%nat then adv1 x else x.

(** one pass when stage s+1 is empty: every record of stage s progresses *)
Lemma adv_pass_ready s : forall l pre occ m,
  occ_ok occ (pre ++ l) -> excl (pre ++ l) ->
  Forall (fun y => p_stage y <> S s) l ->
  (forall y x, In y pre -> In x l -> p_stage y = S s -> p_stage x = s -> p_lane y <> p_lane x) ->
  fst (fst (adv_pass s l occ m)) = map (adv_at s) l.
Proof.
  induction l as [|x r IH]; intros pre occ m Hok Hex Hne Hpre; cbn [adv_pass map]; [reflexivity|].
  inversion Hne as [|? ? Hx Hr]; subst.
  assert (Hpre_r : forall x', forall y x0, In y (pre ++ [x']) -> In x0 r -> p_stage y = S s -> p_stage x0 = s ->
             (p_stage x' = S s -> p_stage x0 = s -> p_lane x' <> p_lane x0) -> p_lane y <> p_lane x0).
  { intros x' y x0 Hy Hx0 Sy Sx0 Hnew. apply in_app_or in Hy. destruct Hy as [Hy|[<-|[]]].
    - apply Hpre; auto. right. exact Hx0.
    - apply Hnew; auto. }
  unfold adv_at at 1. destruct (p_stage x =? s)%nat eqn:Es; cbn [negb].
  2:{ specialize (IH (pre ++ [x]) occ m). rewrite <- !app_assoc in IH. cbn [app] in IH.
      specialize (IH Hok Hex Hr). destruct (adv_pass s r occ m) as [[r' occ'] m']. cbn [fst] in *.
      f_equal. apply IH. intros y x0 Hy Hx0 Sy Sx0. apply (Hpre_r x y x0); auto;
      intros A _; apply Nat.eqb_neq in Es; congruence. }
  apply Nat.eqb_eq in Es. unfold adv1.
  destruct (0 <? p_cyc x)%Z eqn:Ec.
  { assert (Hs : map slot (pre ++ dec_cyc x :: r) = map slot (pre ++ x :: r)) by (rewrite !map_app; reflexivity).
    specialize (IH (pre ++ [dec_cyc x]) occ true). rewrite <- !app_assoc in IH. cbn [app] in IH.
    assert (Hok' : occ_ok occ (pre ++ dec_cyc x :: r)) by (intros s' ln; rewrite Hs; apply Hok).
    assert (Hex' : excl (pre ++ dec_cyc x :: r)) by (unfold excl; rewrite Hs; exact Hex).
    specialize (IH Hok' Hex' Hr). destruct (adv_pass s r occ true) as [[r' occ'] m']. cbn [fst] in *.
    f_equal. apply IH. intros y x0 Hy Hx0 Sy Sx0. apply (Hpre_r (dec_cyc x) y x0); auto;
    cbn [p_stage dec_cyc]; intros A _; lia. }
  (* not dwelling: the slot ahead is free *)
  assert (Hfree : occ (S s) (p_lane x) = false).
  { destruct (occ (S s) (p_lane x)) eqn:Eo; [|reflexivity]. exfalso.
    apply Hok in Eo. apply in_map_iff in Eo. destruct Eo as [y [Sy Hy]].
    unfold slot in Sy. inversion Sy as [[S1 S2]]. apply in_app_or in Hy. destruct Hy as [Hy|[<-|Hy]].
    - apply (Hpre y x Hy (or_introl eq_refl) S1 Es). exact S2.
    - lia.
    - rewrite Forall_forall in Hr. apply (Hr y Hy). exact S1. }
  rewrite Hfree. subst s.
  destruct (occ_ok_move occ pre x r Hok Hex Hfree) as [Hok' Hex'].
  change (mk_pitem (p_lane x) (S (p_stage x)) (p_item x) (p_cyc x)) with (move x).
  set (occ1 := occ_set (occ_set occ (p_stage x) (p_lane x) false) (S (p_stage x)) (p_lane x) true) in *.
  specialize (IH (pre ++ [move x]) occ1 true). rewrite <- !app_assoc in IH. cbn [app] in IH.
  specialize (IH Hok' Hex' Hr). destruct (adv_pass (p_stage x) r occ1 true) as [[r' occ'] m']. cbn [fst] in *.
  f_equal. apply IH. intros y x0 Hy Hx0 Sy Sx0. apply (Hpre_r (move x) y x0); auto.
  cbn [p_stage p_lane move]. intros _ _ L.
  (* x and x0 are both at this stage in the list before the move: distinct lanes *)
  unfold excl in Hex. rewrite map_app in Hex. cbn [map] in Hex. apply NoDup_app_r in Hex.
  inversion Hex as [|? ? Hn _]; subst. apply Hn. apply in_map_iff. exists x0. split; [|exact Hx0].
  unfold slot. congruence.
Qed.

Lemma adv_at_slot_other s x : p_stage x <> s -> adv_at s x = x.
Proof. intro H. unfold adv_at. apply Nat.eqb_neq in H. rewrite H. reflexivity. Qed.

Definition adv_range (mn k : nat) (x : pitem) : pitem :=
  if ((mn <=? p_stage x) && (p_stage x <? mn + k))%nat then adv1 x else x.

Lemma dwell_adv_at s l : dwell_ok l -> dwell_ok (map (adv_at s) l).
Proof.
  intro H. apply Forall_map. eapply Forall_impl; [|exact H]. intros x [A B].
  unfold adv_at, adv1. destruct (p_stage x =? s)%nat; [|split; assumption].
  destruct (0 <? p_cyc x)%Z eqn:E; cbn [p_cyc p_stage dec_cyc move].
  - split; [lia|]. intro S1. specialize (B S1). lia.
  - split; [lia|]. intros _. lia.
Qed.

(** the passes from stage mn+k-1 down to mn, when no record sits at stage mn+k *)
Lemma adv_loop_ready : forall k mn l occ m,
  occ_ok occ l -> excl l -> dwell_ok l ->
  ((1 <= k)%nat -> Forall (fun x => p_stage x <> mn + k)%nat l) ->
  fst (adv_loop k mn l occ m) = map (adv_range mn k) l.
Proof.
  induction k as [|k IH]; intros mn l occ m Hok Hex Hd Htop; cbn [adv_loop fst].
  - symmetry. erewrite map_ext; [apply map_id|]. intro x. unfold adv_range.
    destruct (mn <=? p_stage x)%nat eqn:E1; cbn [andb]; [|reflexivity].
    destruct (p_stage x <? mn + 0)%nat eqn:E2; [|reflexivity]. apply Nat.leb_le in E1. apply Nat.ltb_lt in E2. lia.
  - assert (Hne : Forall (fun y => p_stage y <> S (mn + k)) l).
    { eapply Forall_impl; [|apply Htop; lia]. intros x H. cbn beta in H. lia. }
    pose proof (adv_pass_ready (mn + k) l [] occ m Hok Hex Hne ltac:(intros y x []) ) as R.
    pose proof (adv_pass_inv (mn + k) l [] occ m Hok Hex) as P.
    destruct (adv_pass (mn + k) l occ m) as [[l1 occ1] m1]. cbn [fst app] in *. subst l1.
    destruct P as [A [B _]].
    rewrite (IH mn (map (adv_at (mn + k)) l) occ1 m1 A B (dwell_adv_at _ _ Hd)).
    + rewrite map_map. apply map_ext_in. intros x Hx. unfold dwell_ok in Hd.
      rewrite Forall_forall in Hd. destruct (Hd x Hx) as [D1 D2].
      rewrite Forall_forall in Hne. specialize (Hne x Hx).
      unfold adv_at, adv_range. destruct (p_stage x =? mn + k)%nat eqn:Es.
      * apply Nat.eqb_eq in Es.
        assert (((mn <=? p_stage x) && (p_stage x <? mn + S k))%nat = true) as -> by lia.
        unfold adv1. destruct (0 <? p_cyc x)%Z; cbn [p_stage dec_cyc move].
        -- assert (((mn <=? p_stage x) && (p_stage x <? mn + k))%nat = false) as -> by lia. reflexivity.
        -- assert (((mn <=? S (p_stage x)) && (S (p_stage x) <? mn + k))%nat = false) as -> by lia. reflexivity.
      * apply Nat.eqb_neq in Es.
        destruct ((mn <=? p_stage x) && (p_stage x <? mn + k))%nat eqn:E1.
        -- assert (((mn <=? p_stage x) && (p_stage x <? mn + S k))%nat = true) as -> by lia. reflexivity.
        -- assert (((mn <=? p_stage x) && (p_stage x <? mn + S k))%nat = false) as -> by lia. reflexivity.
    + intro Hk. apply Forall_map. unfold dwell_ok in Hd. rewrite Forall_forall in *. intros x Hx.
      destruct (Hd x Hx) as [D1 D2]. specialize (Hne x Hx).
      unfold adv_at. destruct (p_stage x =? mn + k)%nat eqn:Es.
      * apply Nat.eqb_eq in Es. unfold adv1.
        assert ((0 <? p_cyc x)%Z = false) as -> by (rewrite D2; lia).
        cbn [p_stage move]. lia.
      * apply Nat.eqb_neq in Es. exact Es.
Qed.

(** advanceItems on records none of which is at the last stage *)
Lemma advance_items_ready n l : (2 <= n)%nat -> l <> [] -> excl l -> dwell_ok l ->
  Forall (fun x => p_stage x < n - 1)%nat l ->
  fst (advance_items n l) = map adv1 l.
Proof.
  intros Hn Hne Hex Hd Hst. unfold advance_items.
  destruct (n <? 2)%nat eqn:E2; [apply Nat.ltb_lt in E2; lia|].
  pose proof (max_stage_ge l) as Hmax. pose proof (min_stage_le l) as Hmin.
  assert (Hmm : (min_stage_of l <= max_stage_of l /\ max_stage_of l < n - 1)%nat).
  { destruct l as [|x r]; [congruence|]. inversion Hmax; inversion Hmin; subst. split; [lia|].
    (* the maximum is attained *)
    clear - Hst. unfold max_stage_of.
    assert (forall q a, (a < n - 1)%nat -> Forall (fun x => p_stage x < n - 1)%nat q ->
              (fold_left (fun m y => Nat.max m (p_stage y)) q a < n - 1)%nat) as F.
    { intro q. induction q as [|y q IH]; intros a Ha Hq; cbn [fold_left]; [exact Ha|].
      inversion Hq; subst. apply IH; [lia|assumption]. }
    inversion Hst; subst. apply F; assumption. }
  replace (Nat.min (max_stage_of l) (n - 2)) with (max_stage_of l) by lia.
  destruct (max_stage_of l <? min_stage_of l)%nat eqn:E3; [apply Nat.ltb_lt in E3; lia|].
  rewrite adv_loop_ready; auto using build_occ_ok.
  - apply map_ext_in. intros x Hx. unfold adv_range.
    rewrite Forall_forall in Hmax, Hmin. specialize (Hmax x Hx). specialize (Hmin x Hx).
    assert (((min_stage_of l <=? p_stage x) &&
             (p_stage x <? min_stage_of l + (max_stage_of l - min_stage_of l + 1)))%nat = true) as -> by lia.
    reflexivity.
  - intros _. eapply Forall_impl; [|exact Hmax]. intros x H. cbn beta in *. lia.
Qed.

(** ** One tick with a ready sink *)
Definition is_due (n : nat) (x : pitem) : bool := due (n - 1) x.

Lemma tick_ready w n l sink : (1 <= n)%nat -> good w n l -> dwell_ok l ->
  (forall i, sink i = true) ->
  let '(p', out, _) := tick false (mk_pipe w n l) sink in
  exists l', p' = mk_pipe w n l' /\
             out = map p_item (filter (is_due n) (rev l)) /\
             Permutation l' (map adv1 (filter (fun x => negb (is_due n x)) (rev l))).
Proof.
  intros Hn G Hd Hs. unfold tick. cbn [items num_stages with_items width].
  destruct l as [|x0 l0] eqn:El; [exists []; repeat split; auto|]. rewrite <- El in *.
  destruct (n =? 0)%nat eqn:E0; [apply Nat.eqb_eq in E0; lia|].
  pose proof (phase1_spec (n - 1) sink (rev l) [] 0 [] false) as P.
  destruct (phase1 false (n - 1) sink (rev l) [] 0 [] false) as [[kept out] m1].
  destruct P as [em [stay [P [O [K [D R]]]]]]. cbn [app] in *.
  destruct (R Hs) as [-> ->]. unfold is_due.
  set (stay := filter (fun x => negb (due (n - 1) x)) (rev l)) in *.
  assert (Grev : good w n (rev l)) by (apply (perm_good w n l); [apply Permutation_rev|exact G]).
  assert (Drev : dwell_ok (rev l)) by (unfold dwell_ok; apply Forall_rev; exact Hd).
  assert (Gstay : excl stay /\ Forall (fun x => p_lane x < w /\ p_stage x < n)%nat stay /\ dwell_ok stay).
  { destruct Grev as [Hex Hall]. split; [|split].
    - unfold excl, stay. clear - Hex. unfold excl in Hex. induction (rev l) as [|x r IH]; [constructor|].
      cbn [map] in Hex. inversion Hex; subst. cbn [filter]. destruct (negb (due (n - 1) x)); [|auto].
      cbn [map]. constructor; [|auto]. intro H. apply H1. apply in_map_iff in H. destruct H as [y [E Hy]].
      apply filter_In in Hy. apply in_map_iff. exists y. tauto.
    - unfold stay. rewrite Forall_forall in *. intros x Hx. apply filter_In in Hx. apply Hall. tauto.
    - unfold stay, dwell_ok in *. rewrite Forall_forall in *. intros x Hx. apply filter_In in Hx. apply Drev. tauto. }
  destruct Gstay as [Es [As Ds]].
  (* Phase 1 leaves the records that are not due; at most their dwell counter changed *)
  assert (Hk1 : (n = 1)%nat -> map (p1_keep (n - 1)) stay = map adv1 stay).
  { intro N1. apply map_ext_in. intros x Hx. unfold stay in Hx. apply filter_In in Hx. destruct Hx as [Hx Hdue].
    rewrite Forall_forall in As. pose proof (As x ltac:(unfold stay; apply filter_In; tauto)) as [_ St].
    unfold p1_keep, adv1, due in *. assert ((p_stage x =? n - 1)%nat = true) as E by (apply Nat.eqb_eq; lia).
    rewrite E in *. cbn [andb] in *. destruct (0 <? p_cyc x)%Z eqn:Ec; [reflexivity|].
    assert ((p_cyc x <=? 0)%Z = true) as E' by lia. rewrite E' in Hdue. discriminate. }
  assert (Hk2 : (2 <= n)%nat -> map (p1_keep (n - 1)) stay = stay /\ Forall (fun x => p_stage x < n - 1)%nat stay).
  { intro N2. assert (F : Forall (fun x => p_stage x < n - 1)%nat stay).
    { unfold dwell_ok in Ds. rewrite Forall_forall in *. intros x Hx. destruct (As x Hx) as [_ St]. destruct (Ds x Hx) as [C0 C1].
      unfold stay in Hx. apply filter_In in Hx. destruct Hx as [_ Hdue]. unfold due in Hdue.
      destruct (p_stage x =? n - 1)%nat eqn:E; [|apply Nat.eqb_neq in E; lia].
      apply Nat.eqb_eq in E. rewrite (C1 ltac:(lia)) in Hdue. cbn in Hdue. discriminate. }
    split; [|exact F]. erewrite map_ext_in; [apply map_id|]. intros x Hx. rewrite Forall_forall in F.
    specialize (F x Hx). unfold p1_keep. assert ((p_stage x =? n - 1)%nat = false) as -> by (apply Nat.eqb_neq; lia).
    reflexivity. }
  destruct (Nat.eq_dec n 1) as [N1|N1].
  - (* single stage: Phase 2 does nothing *)
    rewrite (Hk1 N1) in K.
    destruct kept as [|k0 kr] eqn:Ek.
    + exists []. repeat split; auto.
    + rewrite <- Ek in *. unfold advance_items. assert ((n <? 2)%nat = true) as -> by (apply Nat.ltb_lt; lia).
      exists kept. repeat split; auto.
  - destruct (Hk2 ltac:(lia)) as [Eq F]. rewrite Eq in K.
    destruct kept as [|k0 kr] eqn:Ek.
    + exists []. repeat split; auto. fold stay. apply Permutation_nil in K. rewrite K. constructor.
    + rewrite <- Ek in *.
      assert (Hkne : kept <> []) by (rewrite Ek; discriminate).
      assert (Ek' : excl kept) by (unfold excl; eapply Permutation_NoDup; [apply Permutation_map; symmetry; exact K|exact Es]).
      assert (Dk : dwell_ok kept) by (unfold dwell_ok; eapply Permutation_Forall; [symmetry; exact K|exact Ds]).
      assert (Fk : Forall (fun x => p_stage x < n - 1)%nat kept) by (eapply Permutation_Forall; [symmetry; exact K|exact F]).
      pose proof (advance_items_ready n kept ltac:(lia) Hkne Ek' Dk Fk) as A.
      destruct (advance_items n kept) as [l' m2]. cbn [fst] in A. subst l'.
      exists (map adv1 kept). repeat split; auto. apply Permutation_map. exact K.
Qed.
