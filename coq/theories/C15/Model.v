(** C15 — model of queueing/pipeline.go (CanAccept, Accept, AcceptWithDelay,
    Tick, advanceItems, stageRange, buildOccupancy).  Definitions only.

    The slice [stages] is a list in slice order.  Lane and stage numbers are
    [nat]: the state is encapsulated and only [Accept] creates records, so they
    are never negative; [CycleLeft] is [Z] because [AcceptWithDelay] stores the
    caller's [int] unchanged.  The occupancy table of [advanceItems] is a
    function of (stage, lane); this equals the flat bool slice of the code as
    long as every lane number is below the width, which [Accept] guarantees when
    it is called with a free lane (calling it without one is outside the API
    contract — callers test [CanAccept] — and is the outcome [None] here).

    The flag [old] selects the code before the dwell fix: Phase 1 of [Tick]
    then ignores last-stage items whose CycleLeft is positive. *)
From Akita Require Import Lib.Base.

Record pitem := mk_pitem { p_lane : nat; p_stage : nat; p_item : N; p_cyc : Z }.

Record pipe := mk_pipe { width : nat; num_stages : nat; items : list pitem }.

Definition new_pipe (w n : nat) : pipe := mk_pipe w n [].

Definition with_items (p : pipe) (l : list pitem) : pipe := mk_pipe (width p) (num_stages p) l.

(** CanAccept: fewer than [width] records at stage 0 *)
Definition occupied0 (l : list pitem) : nat :=
  length (filter (fun x => p_stage x =? 0)%nat l).

Definition can_accept (p : pipe) : bool := (occupied0 (items p) <? width p)%nat.

(** used[lane] of Accept *)
Definition lane_used0 (l : list pitem) (lane : nat) : bool :=
  existsb (fun x => (p_stage x =? 0)%nat && (p_lane x =? lane)%nat) l.

(** the scan `for lane < width { if !used[lane] break; lane++ }`; [k] lanes left to try *)
Fixpoint first_free (l : list pitem) (lane k : nat) : nat :=
  match k with
  | O => lane
  | S k' => if lane_used0 l lane then first_free l (S lane) k' else lane
  end.

(** AcceptWithDelay (Accept = delay 0).  [None]: no free lane (outside the contract). *)
Definition accept (p : pipe) (it : N) (delay : Z) : option pipe :=
  let lane := first_free (items p) 0 (width p) in
  if (lane <? width p)%nat
  then Some (with_items p (items p ++ [mk_pitem lane 0 it delay]))
  else None.

(** ** Tick, phase 1.  The loop runs i = n-1 .. 0 over the slice and removes by
    `p.stages[i] = p.stages[n-1]; n--`.  [todo] is the reversed prefix still to
    visit, [kept] the already visited and retained suffix in slice order.
    [q] counts the sink.CanPush() calls made so far in this tick; the sink is
    the oracle [sink q]. *)
Definition swap_remove (kept : list pitem) : list pitem :=
  match kept with
  | [] => []
  | _ :: _ => last kept (mk_pitem 0 0 0 0) :: removelast kept
  end.

Definition dec_cyc (x : pitem) : pitem :=
  mk_pitem (p_lane x) (p_stage x) (p_item x) (p_cyc x - 1).

Fixpoint phase1 (old : bool) (last_stage : nat) (sink : nat -> bool) (todo kept : list pitem)
         (q : nat) (out : list N) (moved : bool) : list pitem * list N * bool :=
  match todo with
  | [] => (kept, out, moved)
  | x :: todo' =>
      if negb (p_stage x =? last_stage)%nat then
        phase1 old last_stage sink todo' (x :: kept) q out moved
      else if (0 <? p_cyc x)%Z then
        if old then phase1 old last_stage sink todo' (x :: kept) q out moved
        else phase1 old last_stage sink todo' (dec_cyc x :: kept) q out true
      else if old && negb (p_cyc x =? 0)%Z then
        phase1 old last_stage sink todo' (x :: kept) q out moved
      else if sink q then
        phase1 old last_stage sink todo' (swap_remove kept) (S q) (out ++ [p_item x]) true
      else
        phase1 old last_stage sink todo' (x :: kept) (S q) out moved
  end.

(** ** Phase 2: advanceItems *)
Definition occ_t := nat -> nat -> bool.

Definition occ_set (o : occ_t) (s l : nat) (v : bool) : occ_t :=
  fun s' l' => if ((s' =? s) && (l' =? l))%nat then v else o s' l'.

(** buildOccupancy *)
Definition build_occ (l : list pitem) : occ_t :=
  fun s ln => existsb (fun x => (p_stage x =? s)%nat && (p_lane x =? ln)%nat) l.

(** the inner `for i := 0; i < n; i++` loop for one [stage] *)
Fixpoint adv_pass (stage : nat) (l : list pitem) (occ : occ_t) (moved : bool)
  : list pitem * occ_t * bool :=
  match l with
  | [] => ([], occ, moved)
  | x :: r =>
      if negb (p_stage x =? stage)%nat then
        let '(r', occ', m') := adv_pass stage r occ moved in (x :: r', occ', m')
      else if (0 <? p_cyc x)%Z then
        let '(r', occ', m') := adv_pass stage r occ true in (dec_cyc x :: r', occ', m')
      else if occ (S stage) (p_lane x) then
        let '(r', occ', m') := adv_pass stage r occ moved in (x :: r', occ', m')
      else
        let occ1 := occ_set (occ_set occ stage (p_lane x) false) (S stage) (p_lane x) true in
        let '(r', occ', m') := adv_pass stage r occ1 true in
        (mk_pitem (p_lane x) (S stage) (p_item x) (p_cyc x) :: r', occ', m')
  end.

(** `for stage := maxStage; stage >= minStage; stage--`: [k] passes, the first at [min + k - 1] *)
Fixpoint adv_loop (k min_stage : nat) (l : list pitem) (occ : occ_t) (moved : bool)
  : list pitem * bool :=
  match k with
  | O => (l, moved)
  | S k' =>
      let '(l', occ', m') := adv_pass (min_stage + k') l occ moved in
      adv_loop k' min_stage l' occ' m'
  end.

Definition min_stage_of (l : list pitem) : nat :=
  match l with [] => 0 | x :: r => fold_left (fun m y => Nat.min m (p_stage y)) r (p_stage x) end.
Definition max_stage_of (l : list pitem) : nat :=
  match l with [] => 0 | x :: r => fold_left (fun m y => Nat.max m (p_stage y)) r (p_stage x) end.

(** advanceItems; called with a non-empty list.  lastStage - 1 is negative for
    fewer than two stages, in which case the capped maxStage is below minStage
    and nothing happens. *)
Definition advance_items (num_stages : nat) (l : list pitem) : list pitem * bool :=
  if (num_stages <? 2)%nat then (l, false)
  else
    let mn := min_stage_of l in
    let mx := Nat.min (max_stage_of l) (num_stages - 2) in
    if (mx <? mn)%nat then (l, false)
    else adv_loop (mx - mn + 1) mn l (build_occ l) false.

(** Tick: the new pipeline, the items pushed into the sink (in push order) and
    the returned `moved` flag.  With zero stages lastStage = -1 matches no record. *)
Definition tick (old : bool) (p : pipe) (sink : nat -> bool) : pipe * list N * bool :=
  match items p with
  | [] => (p, [], false)
  | _ :: _ =>
      let '(kept, out, moved1) :=
        if (num_stages p =? 0)%nat then (items p, [], false)
        else phase1 old (num_stages p - 1) sink (rev (items p)) [] 0 [] false in
      match kept with
      | [] => (with_items p [], out, moved1)
      | _ :: _ =>
          let '(l', moved2) := advance_items (num_stages p) kept in
          (with_items p l', out, moved2 || moved1)
      end
  end.

(** ** Histories: a round = some accept attempts (each guarded by CanAccept, as
    every caller in the repository does), then one Tick. *)
Record round := mk_round {
  r_accepts : list (N * Z);          (* item, delay *)
  r_sink : nat -> bool }.            (* answer to the q-th CanPush() of this tick *)

(** guarded accept: returns whether the item went in *)
Definition try_accept (p : pipe) (a : N * Z) : pipe * bool :=
  if can_accept p then
    match accept p (fst a) (snd a) with
    | Some p' => (p', true)
    | None => (p, false)
    end
  else (p, false).

Fixpoint try_accepts (p : pipe) (l : list (N * Z)) : pipe * list bool :=
  match l with
  | [] => (p, [])
  | a :: r => let '(p1, b) := try_accept p a in
              let '(p2, bs) := try_accepts p1 r in (p2, b :: bs)
  end.

(** observation of one round: accepted flags, pushes, moved, snapshot after the tick *)
Record robs := mk_robs {
  b_accepted : list bool; b_pushed : list N; b_moved : bool; b_snap : list pitem }.

Definition do_round (old : bool) (p : pipe) (r : round) : pipe * robs :=
  let '(p1, acc) := try_accepts p (r_accepts r) in
  let '(p2, out, moved) := tick old p1 (r_sink r) in
  (p2, mk_robs acc out moved (items p2)).

Fixpoint run (old : bool) (p : pipe) (rs : list round) : pipe * list robs :=
  match rs with
  | [] => (p, [])
  | r :: rest => let '(p1, b) := do_round old p r in
                 let '(p2, bs) := run old p1 rest in (p2, b :: bs)
  end.

(** a sink oracle given by a finite list and the answer once it is exhausted *)
Definition sink_of (l : list bool) (dflt : bool) : nat -> bool := fun q => nth q l dflt.
Definition always_ready : nat -> bool := fun _ => true.
