(** C15 — a one-lane pipeline is first-in-first-out (any sink, any delays). *)
From Coq Require Import Permutation Sorted.
From Akita Require Import Lib.Base C15.Model C15.Proofs1 C15.Proofs2.

(** every record is visited at most once by an advanceItems call *)
Lemma adv_loop_visit : forall k mn l occ m,
  occ_ok occ l -> excl l ->
  Forall2 (fun x z => visit x z /\ (z <> x -> (p_stage x < mn + k)%nat)) l (fst (adv_loop k mn l occ m)).
Proof.
  induction k as [|k IH]; intros mn l occ m Hok Hex; cbn [adv_loop fst].
  - clear. induction l; constructor; auto. split; [constructor|congruence].
  - pose proof (adv_pass_inv (mn + k) l [] occ m Hok Hex) as P.
    destruct (adv_pass (mn + k) l occ m) as [[l1 occ1] m1]. cbn [app] in P.
    destruct P as [A [B [C D]]]. specialize (IH mn l1 occ1 m1 A B).
    destruct (adv_loop k mn l1 occ1 m1) as [l2 m2]. cbn [fst] in *.
    clear - C D IH. revert l2 IH. induction C as [|x y l l1 V C IHC]; intros l2 F;
      inversion F as [|? z ? l2' [Vz Bz] F']; subst; inversion D as [|? ? ? ? Dx D']; subst; constructor.
    + destruct (visit_stage _ _ V) as [S1 S2].
      assert (Hdec : y = x \/ y <> x).
      { clear - V. destruct V as [x|x Hc|x Hc].
        - left; reflexivity.
        - right. intro E. apply (f_equal p_cyc) in E. cbn in E. lia.
        - right. intro E. apply (f_equal p_stage) in E. cbn in E. lia. }
      destruct Hdec as [->|Hne].
      * split; [exact Vz|]. intro Hz. specialize (Bz Hz). lia.
      * specialize (Dx Hne).
        assert (z = y).
        { destruct Vz; try reflexivity; exfalso.
          - assert (Q : dec_cyc x0 <> x0) by (intro E; apply (f_equal p_cyc) in E; cbn in E; lia).
            specialize (Bz Q). lia.
          - assert (Q : move x0 <> x0) by (intro E; apply (f_equal p_stage) in E; cbn in E; lia).
            specialize (Bz Q). lia. }
        subst z. split; [exact V|]. intros _. lia.
    + apply IHC; assumption.
Qed.

Lemma advance_items_visit n l : excl l ->
  Forall2 visit l (fst (advance_items n l)).
Proof.
  intro Hex. unfold advance_items.
  assert (Hid : Forall2 visit l l) by (clear; induction l; constructor; auto; constructor).
  destruct (n <? 2)%nat; [exact Hid|].
  destruct (Nat.min (max_stage_of l) (n - 2) <? min_stage_of l)%nat; [exact Hid|].
  eapply Forall2_weaken; [|apply adv_loop_visit; [apply build_occ_ok|exact Hex]].
  intros x y [V _]. exact V.
Qed.

(** the records from the oldest to the youngest: strictly decreasing stages *)
Definition older (a b : pitem) : Prop := (p_stage b < p_stage a)%nat.

Definition queue_of (l : list pitem) (q : list pitem) : Prop :=
  Permutation q l /\ StronglySorted older q.

Lemma Forall2_in_r {A B} (R : A -> B -> Prop) l l' y :
  Forall2 R l l' -> In y l' -> exists x, In x l /\ R x y.
Proof.
  induction 1 as [|a b l l' H F IH]; intro Hin; [destruct Hin|].
  destruct Hin as [<-|Hin]; [exists a; split; [left; reflexivity|exact H]|].
  destruct (IH Hin) as [x [Hx Rx]]. exists x. split; [right; exact Hx|exact Rx].
Qed.

(** visits keep the order when slots stay exclusive and there is one lane *)
Lemma visit_sorted q q' :
  Forall2 visit q q' -> StronglySorted older q ->
  NoDup (map slot q') -> Forall (fun x => p_lane x = 0%nat) q' ->
  StronglySorted older q'.
Proof.
  intros F. induction F as [|x x' q q' V F IH]; intros S Nd L0; [constructor|].
  inversion S as [|? ? Sq Hx]; subst. cbn [map] in Nd. inversion Nd as [|? ? Hn Nd']; subst.
  inversion L0 as [|? ? Lx Lq]; subst. constructor; [apply IH; assumption|].
  rewrite Forall_forall. intros y' Hy'. destruct (Forall2_in_r _ _ _ _ F Hy') as [y [Hy Vy]].
  rewrite Forall_forall in Hx. specialize (Hx y Hy). unfold older in *.
  destruct (visit_stage _ _ V) as [A1 A2]. destruct (visit_stage _ _ Vy) as [B1 B2].
  assert (p_stage y' <> p_stage x').
  { intro E. apply Hn. apply in_map_iff. exists y'. split; [|exact Hy'].
    rewrite Forall_forall in Lq. unfold slot. rewrite E, Lx, (Lq y' Hy'). reflexivity. }
  lia.
Qed.

(** Phase 1 and Phase 2 of one tick on a one-lane pipeline *)
Lemma tick_fifo n l sink q : (1 <= n)%nat -> good 1 n l -> queue_of l q ->
  let '(p', out, _) := tick false (mk_pipe 1 n l) sink in
  exists q', queue_of (items p') q' /\ map p_item q = out ++ map p_item q'.
Proof.
  intros Hn G [Pq Sq]. unfold tick. cbn [items num_stages with_items width].
  destruct l as [|x0 l0] eqn:El.
  { apply Permutation_sym, Permutation_nil in Pq. subst q. exists []. split; [split; constructor|reflexivity]. }
  rewrite <- El in *.
  destruct (n =? 0)%nat eqn:E0; [apply Nat.eqb_eq in E0; lia|].
  pose proof (phase1_spec (n - 1) sink (rev l) [] 0 [] false) as P.
  destruct (phase1 false (n - 1) sink (rev l) [] 0 [] false) as [[kept out] m1].
  destruct P as [em [stay [P [O [K [D _]]]]]]. cbn [app] in *.
  assert (Pl : Permutation q (em ++ stay)).
  { rewrite Pq. rewrite <- P. apply Permutation_rev. }
  destruct G as [Hex Hall].
  assert (Hq : Forall (fun x => p_lane x < 1 /\ p_stage x < n)%nat q) by (eapply Permutation_Forall; [symmetry; exact Pq|exact Hall]).
  assert (Nq : NoDup (map slot q)) by (eapply Permutation_NoDup; [apply Permutation_map; symmetry; exact Pq|exact Hex]).
  (* em is empty or the head of the queue *)
  assert (Hem : (em = [] /\ Permutation q stay) \/
                (exists x qt, em = [x] /\ q = x :: qt /\ Permutation qt stay)).
  { destruct em as [|x em'].
    - left. split; [reflexivity|exact Pl].
    - right. inversion D as [|? ? Dx D']; subst.
      assert (Sx : p_stage x = (n - 1)%nat).
      { unfold due in Dx. apply andb_true_iff in Dx. destruct Dx as [Dx _]. apply Nat.eqb_eq in Dx. exact Dx. }
      destruct em' as [|y em''].
      + assert (Hxq : In x q) by (eapply Permutation_in; [symmetry; exact Pl|left; reflexivity]).
        destruct q as [|h qt]; [destruct Hxq|].
        inversion Sq as [|? ? Sqt Hh]; subst. inversion Hq as [|? ? [_ Hhs] _]; subst.
        destruct Hxq as [->|Hxq].
        * exists x, qt. repeat split; auto. cbn [app] in Pl. apply Permutation_cons_inv in Pl. exact Pl.
        * rewrite Forall_forall in Hh. specialize (Hh x Hxq). unfold older in Hh. lia.
      + exfalso. inversion D' as [|? ? Dy _]; subst.
        assert (Sy : p_stage y = (n - 1)%nat).
        { unfold due in Dy. apply andb_true_iff in Dy. destruct Dy as [Dy _]. apply Nat.eqb_eq in Dy. exact Dy. }
        assert (Nd : NoDup (map slot (x :: y :: em'' ++ stay))).
        { eapply Permutation_NoDup; [apply Permutation_map; exact Pl|exact Nq]. }
        assert (Hxy : Forall (fun z => p_lane z < 1 /\ p_stage z < n)%nat (x :: y :: em'' ++ stay)).
        { eapply Permutation_Forall; [exact Pl|exact Hq]. }
        inversion Hxy as [|? ? [Lx _] Hy']; subst. inversion Hy' as [|? ? [Ly _] _]; subst.
        cbn [map] in Nd. inversion Nd as [|? ? Hnn _]; subst. apply Hnn. left. unfold slot.
        f_equal; lia. }
  (* the queue after Phase 1 *)
  assert (Hk : exists qk, queue_of kept qk /\ map p_item q = out ++ map p_item qk).
  { destruct Hem as [[-> Ps]|[x [qt [-> [-> Ps]]]]].
    - exists (map (p1_keep (n - 1)) q). split; [split|].
      + rewrite K. apply Permutation_map. exact Ps.
      + clear - Sq. induction Sq as [|a l S IH H]; cbn [map]; constructor; auto.
        rewrite Forall_forall in *. intros y Hy. apply in_map_iff in Hy. destruct Hy as [z [<- Hz]].
        specialize (H z Hz). unfold older in *.
        assert (E : forall u, p_stage (p1_keep (n - 1) u) = p_stage u)
          by (intro u; pose proof (p1_keep_slot (n - 1) u) as Q; unfold slot in Q; congruence).
        rewrite !E. exact H.
      + rewrite O. cbn [map app]. rewrite map_map. apply map_ext. intro a. symmetry. apply p1_keep_item.
    - exists (map (p1_keep (n - 1)) qt). split; [split|].
      + rewrite K. apply Permutation_map. exact Ps.
      + inversion Sq as [|? ? Sqt _]; subst. clear - Sqt.
        induction Sqt as [|a l S IH H]; cbn [map]; constructor; auto.
        rewrite Forall_forall in *. intros y Hy. apply in_map_iff in Hy. destruct Hy as [z [<- Hz]].
        specialize (H z Hz). unfold older in *.
        assert (E : forall u, p_stage (p1_keep (n - 1) u) = p_stage u)
          by (intro u; pose proof (p1_keep_slot (n - 1) u) as Q; unfold slot in Q; congruence).
        rewrite !E. exact H.
      + rewrite O. cbn [map app]. f_equal. rewrite map_map. apply map_ext. intro a. symmetry. apply p1_keep_item. }
  destruct Hk as [qk [[Pk Sk] Ik]].
  assert (Gk : good 1 n kept).
  { apply (perm_good 1 n (map (p1_keep (n - 1)) stay)); [symmetry; exact K|]. split.
    - unfold excl. rewrite map_map. erewrite map_ext; [|apply p1_keep_slot].
      assert (Hs : NoDup (map slot (em ++ stay))) by (eapply Permutation_NoDup; [apply Permutation_map; exact Pl|exact Nq]).
      rewrite map_app in Hs. apply NoDup_app_r in Hs. exact Hs.
    - apply Forall_map. assert (Hs : Forall (fun x => p_lane x < 1 /\ p_stage x < n)%nat (em ++ stay))
        by (eapply Permutation_Forall; eassumption).
      apply Forall_app in Hs. destruct Hs as [_ Hs]. eapply Forall_impl; [|exact Hs].
      intros x H. unfold p1_keep. destruct (_ && _)%bool; exact H. }
  destruct kept as [|k0 kr] eqn:Ek.
  - exists qk. split; [split; assumption|exact Ik].
  - rewrite <- Ek in *. destruct (advance_items_good 1 n kept Gk) as [[Hex' Hall'] _].
    pose proof (advance_items_visit n kept (proj1 Gk)) as V.
    destruct (advance_items n kept) as [l' m2]. cbn [fst items] in *.
    (* transport the visits along the permutation kept ~ qk *)
    destruct (Permutation_Forall2 (Permutation_sym Pk) V) as [q' [Pq' Vq']].
    exists q'. split; [split|].
    + symmetry. exact Pq'.
    + apply (visit_sorted qk q' Vq' Sk).
      * eapply Permutation_NoDup; [apply Permutation_map; exact Pq'|exact Hex'].
      * eapply Permutation_Forall; [exact Pq'|]. eapply Forall_impl; [|exact Hall']. cbn beta. intros x [L _]. lia.
    + rewrite Ik. f_equal. symmetry. apply (Forall2_map_eq p_item visit); [|exact Vq'].
      intros x y H. apply (visit_lane _ _ H).
Qed.

(** accepts append to the queue *)
Lemma accepts_fifo n : forall acc l q, (1 <= n)%nat -> good 1 n l -> queue_of l q ->
  let '(p1, fl) := try_accepts (mk_pipe 1 n l) acc in
  exists q1, queue_of (items p1) q1 /\ good 1 n (items p1) /\ p1 = mk_pipe 1 n (items p1) /\
             map p_item q1 = map p_item q ++ accepted_ids acc fl.
Proof.
  induction acc as [|a r IH]; intros l q Hn G Q; cbn [try_accepts].
  - exists q. cbn [items accepted_ids]. rewrite app_nil_r. split; [exact Q|split; [exact G|split; reflexivity]].
  - unfold try_accept. destruct (can_accept (mk_pipe 1 n l)) eqn:Ec.
    + destruct (accept (mk_pipe 1 n l) (fst a) (snd a)) as [p'|] eqn:Ea.
      * destruct (accept_good 1 n l _ _ p' Hn G Ea) as [lane [-> G']].
        set (x := mk_pitem lane 0 (fst a) (snd a)) in *.
        assert (Q' : queue_of (l ++ [x]) (q ++ [x])).
        { destruct Q as [Pq Sq]. split; [apply Permutation_app_tail; exact Pq|].
          (* stage 0 is free, so every record of the queue is at a higher stage *)
          unfold can_accept, occupied0 in Ec. cbn [items width] in Ec. apply Nat.ltb_lt in Ec.
          assert (H0 : Forall (fun y => older y x) q).
          { rewrite Forall_forall. intros y Hy. unfold older, x. cbn [p_stage].
            destruct (p_stage y) eqn:Sy; [|lia]. exfalso.
            assert (In y (filter (fun z => (p_stage z =? 0)%nat) l)).
            { apply filter_In. split; [eapply Permutation_in; eassumption|rewrite Sy; reflexivity]. }
            destruct (filter (fun z => (p_stage z =? 0)%nat) l); [contradiction|cbn in Ec; lia]. }
          clear - Sq H0. induction Sq as [|b t S IH H]; cbn [app].
          - constructor; constructor.
          - inversion H0; subst. constructor; [apply IH; assumption|].
            apply Forall_app. split; [exact H|constructor; [assumption|constructor]]. }
        specialize (IH (l ++ [x]) (q ++ [x]) Hn G' Q').
        destruct (try_accepts (mk_pipe 1 n (l ++ [x])) r) as [p2 bs].
        destruct IH as [q1 [Q1 [G1 [E1 I1]]]]. exists q1. split; [exact Q1|split; [exact G1|split; [exact E1|]]]; try exact I1.
        rewrite I1, map_app. cbn [map accepted_ids p_item x]. rewrite <- app_assoc. reflexivity.
      * specialize (IH l q Hn G Q). destruct (try_accepts (mk_pipe 1 n l) r) as [p2 bs].
        destruct IH as [q1 [Q1 [G1 [E1 I1]]]]. exists q1. split; [exact Q1|split; [exact G1|split; [exact E1|]]]; try exact I1.
    + specialize (IH l q Hn G Q). destruct (try_accepts (mk_pipe 1 n l) r) as [p2 bs].
      destruct IH as [q1 [Q1 [G1 [E1 I1]]]]. exists q1. split; [exact Q1|split; [exact G1|split; [exact E1|]]]; try exact I1.
Qed.

Lemma run_fifo n : forall rs l q, (1 <= n)%nat -> good 1 n l -> queue_of l q ->
  let '(p, os) := run false (mk_pipe 1 n l) rs in
  exists q', queue_of (items p) q' /\
             map p_item q ++ all_accepted rs os = flat_map b_pushed os ++ map p_item q'.
Proof.
  induction rs as [|r rs IH]; intros l q Hn G Q; cbn [run].
  - exists q. split; [exact Q|]. cbn. rewrite app_nil_r. reflexivity.
  - unfold do_round. pose proof (accepts_fifo n (r_accepts r) l q Hn G Q) as A.
    destruct (try_accepts (mk_pipe 1 n l) (r_accepts r)) as [p1 fl].
    destruct A as [q1 [Q1 [G1 [E1 I1]]]]. rewrite E1.
    pose proof (tick_fifo n (items p1) (r_sink r) q1 Hn G1 Q1) as T.
    pose proof (tick_good 1 n (items p1) (r_sink r) Hn G1) as Tg.
    destruct (tick false (mk_pipe 1 n (items p1)) (r_sink r)) as [[p2 out] mv].
    destruct T as [q2 [Q2 I2]]. destruct Tg as [l2 [-> [G2 _]]]. cbn [items] in *.
    specialize (IH l2 q2 Hn G2 Q2). destruct (run false (mk_pipe 1 n l2) rs) as [p3 os].
    destruct IH as [q3 [Q3 I3]]. exists q3. split; [exact Q3|].
    cbn [all_accepted flat_map b_pushed]. unfold round_accepted. cbn [b_accepted].
    rewrite app_assoc, <- I1, I2, <- !app_assoc. f_equal. exact I3.
Qed.

(** FIFO: the concatenated pushes are a prefix of the concatenated accepted items *)
Lemma fifo_width1 n rs : (1 <= n)%nat ->
  let os := snd (run false (new_pipe 1 n) rs) in
  exists rest, all_accepted rs os = flat_map b_pushed os ++ rest.
Proof.
  intro Hn. pose proof (run_fifo n rs [] [] Hn (conj (NoDup_nil _) (Forall_nil _))
                          (conj (Permutation_refl _) (SSorted_nil _))) as R.
  unfold new_pipe. destruct (run false (mk_pipe 1 n []) rs) as [p os]. cbn [snd].
  destruct R as [q' [_ I]]. exists (map p_item q'). exact I.
Qed.
