(** C15 — latency and progress clauses of [holds_on]; the full link theorem. *)
From Coq Require Import Permutation.
From Akita Require Import Lib.Base C15.Model C15.Proofs1 C15.Proofs2 C15.Proofs3 C15.Proofs4 C15.Proofs5
  C15.Exec C15.Proofs6 C15.Proofs7 C15.Proofs8.

(** one tick with a ready sink, seen from one record *)
Lemma tick_ready_item w n l sink x : (1 <= n)%nat -> st_ok w n l -> (forall i, sink i = true) -> In x l ->
  let '(p', out, _) := tick false (mk_pipe w n l) sink in
  (rem n x = 0%nat -> In (p_item x) out) /\
  (forall k, rem n x = S k -> exists x', In x' (items p') /\ rem n x' = k /\ p_item x' = p_item x).
Proof.
  intros Hn [G1 D1] Hs Hx.
  pose proof (tick_ready w n l sink Hn G1 D1 Hs) as T.
  destruct (tick false (mk_pipe w n l) sink) as [[p2 out] mv].
  destruct T as [l2 [-> [-> P]]]. cbn [items].
  assert (Hx1 : In x (rev l)) by (apply -> in_rev; exact Hx).
  assert (Dx : dwell1 x /\ (p_stage x < n)%nat).
  { destruct G1 as [_ Hall]. unfold dwell_ok in D1. rewrite Forall_forall in *.
    split; [apply D1; exact Hx|apply Hall; exact Hx]. }
  destruct Dx as [Dx Sx]. split.
  - intro R0. apply in_map. apply filter_In. split; [exact Hx1|]. apply due_rem; assumption.
  - intros k Rk. assert (Nd : is_due n x = false).
    { destruct (is_due n x) eqn:E; [|reflexivity]. apply due_rem in E; auto. lia. }
    destruct (adv1_rem n x Dx Sx Nd) as [R1 [_ I1]].
    exists (adv1 x). split; [|split; [lia|exact I1]].
    eapply Permutation_in; [symmetry; exact P|]. apply in_map. apply filter_In. split; [exact Hx1|].
    rewrite Nd. reflexivity.
Qed.

(** progress when only the next k+1 rounds are known to be ready *)
Lemma ready_progress2 w n : forall k rs l x, (1 <= n)%nat -> st_ok w n l ->
  Forall delays_ok rs -> Forall ready_round (firstn (S k) rs) -> In x l -> rem n x = k -> (k < length rs)%nat ->
  In (p_item x) (b_pushed (nth k (snd (run false (mk_pipe w n l) rs)) dflt_obs)).
Proof.
  induction k as [|k IH]; intros rs l x Hn Sok Hd Hr Hx Rk Hlen;
    (destruct rs as [|r rs]; [cbn in Hlen; lia|]); cbn [run];
    inversion Hd; subst; cbn [firstn] in Hr; inversion Hr; subst;
    pose proof (do_round_ready w n l r x Hn Sok ltac:(assumption) ltac:(assumption) Hx) as D;
    destruct (do_round_ok w n l r Hn Sok ltac:(assumption)) as [l1 [E1 S1]];
    destruct (do_round false (mk_pipe w n l) r) as [p1 o]; cbn [fst] in E1; subst p1;
    destruct D as [D0 Dk];
    destruct (run false (mk_pipe w n l1) rs) as [p2 os] eqn:Er; cbn [snd nth].
  - apply D0. exact Rk.
  - destruct (Dk k Rk) as [x' [Hx' [Rx' Ix']]]. cbn [items] in Hx'.
    rewrite <- Ix'. replace os with (snd (run false (mk_pipe w n l1) rs)) by (rewrite Er; reflexivity).
    apply IH; auto. cbn in Hlen. lia.
Qed.

Lemma ready_sound c : ready c = true -> ready_round (to_round c).
Proof.
  unfold ready, ready_round. intro H. apply andb_true_iff in H. destruct H as [Hd Hl].
  intro i. cbn [r_sink to_round]. unfold sink_of.
  destruct (nth_in_or_default i (cr_sink c) (cr_dflt c)) as [Hin|E]; [|rewrite E; exact Hd].
  rewrite forallb_forall in Hl. apply Hl. exact Hin.
Qed.

Lemma ready_window crs k : forallb ready (firstn k crs) = true ->
  Forall ready_round (firstn k (map to_round crs)).
Proof.
  revert crs. induction k as [|k IH]; intros [|c crs] H; cbn [firstn map] in *; try constructor.
  - apply andb_true_iff in H. apply ready_sound. apply H.
  - apply andb_true_iff in H. apply IH. apply H.
Qed.

Lemma ready_between_shift c crs a b : ready_between (c :: crs) (S a) (S b) = ready_between crs a b.
Proof. unfold ready_between. cbn [skipn]. replace (S b + 1 - S a)%nat with (b + 1 - a)%nat by lia. reflexivity. Qed.

Lemma pushed_at_shift c crs k : pushed_at (c :: crs) (S k) = pushed_at crs k.
Proof. reflexivity. Qed.

Lemma delays_map crs : Forall cdelays_ok crs -> Forall delays_ok (map to_round crs).
Proof. intro H. apply Forall_map. eapply Forall_impl; [|exact H]. intros c Hc. exact Hc. Qed.

(** the state after a round is that round's snapshot *)
Lemma round_state w n l c : (1 <= n)%nat -> st_ok w n l -> cdelays_ok c ->
  cr_obs c = snd (do_round false (mk_pipe w n l) (to_round c)) ->
  fst (do_round false (mk_pipe w n l) (to_round c)) = mk_pipe w n (b_snap (cr_obs c)) /\
  st_ok w n (b_snap (cr_obs c)).
Proof.
  intros Hn Sok Dc Ho. destruct (do_round_ok w n l (to_round c) Hn Sok Dc) as [l1 [E1 S1]].
  pose proof (do_round_good w n l (to_round c) Hn (proj1 Sok)) as G.
  destruct (do_round false (mk_pipe w n l) (to_round c)) as [p1 o]. cbn [fst snd] in *.
  destruct G as [l2 [E2 [_ [Sn _]]]]. rewrite E2 in E1. inversion E1 as [El]. rewrite <- El in S1.
  rewrite Ho, Sn. split; [exact E2|exact S1].
Qed.

(** ** latency, exact under a window of ready rounds *)
Lemma latency_run w n : forall crs i l c id d, (1 <= n)%nat -> st_ok w n l -> Forall cdelays_ok crs ->
  map cr_obs crs = snd (run false (mk_pipe w n l) (map to_round crs)) ->
  nth_error crs i = Some c -> In (id, d) (accepted_in c) ->
  (i + (n - 1) + Z.to_nat d < length crs)%nat ->
  ready_between crs i (i + (n - 1) + Z.to_nat d) = true ->
  In id (pushed_at crs (i + (n - 1) + Z.to_nat d)).
Proof.
  induction crs as [|c0 crs IH]; intros i l c id d Hn Sok Hd H Hc Ha Hlen Hr; [destruct i; discriminate|].
  destruct (obs_step w n l c0 crs H) as [Ho Hrest]. inversion Hd as [|? ? Dc Dr]; subst.
  destruct (round_state w n l c0 Hn Sok Dc Ho) as [Es Ss]. rewrite Es in Hrest.
  destruct i as [|i]; cbn [nth_error] in Hc.
  2:{ cbn [plus] in *. rewrite ready_between_shift in Hr. rewrite pushed_at_shift.
      eapply IH; eauto. cbn [length] in Hlen. lia. }
  inversion Hc; subst c0. cbn [plus] in *. set (j := (n - 1 + Z.to_nat d)%nat) in *.
  unfold ready_between in Hr. rewrite Nat.sub_0_r, Nat.add_1_r in Hr. cbn [skipn firstn forallb] in Hr.
  apply andb_true_iff in Hr. destruct Hr as [Rc Rw].
  (* the record of this item when the tick of its round starts *)
  unfold do_round in Ho.
  pose proof (accepts_ok w n l (to_round c) Hn Sok Dc) as A.
  pose proof (try_accepts_pairs (r_accepts (to_round c)) (mk_pipe w n l)) as TP.
  destruct (try_accepts (mk_pipe w n l) (r_accepts (to_round c))) as [p1 fl].
  destruct A as [new [-> [S1 _]]]. destruct TP as [new' [E' [_ [_ [M' F']]]]].
  cbn [items] in E'. apply app_inv_head in E'. subst new'.
  pose proof (tick_dwell w n (l ++ new) (r_sink (to_round c)) Hn (proj1 S1) (proj2 S1)) as TD.
  pose proof (tick_good w n (l ++ new) (r_sink (to_round c)) Hn (proj1 S1)) as TG.
  assert (Hx : exists x, In x new /\ p_item x = id /\ p_cyc x = d /\ p_stage x = 0%nat).
  { unfold accepted_in in Ha.
    assert (Hfl : b_accepted (cr_obs c) = fl).
    { rewrite Ho. destruct (tick false (mk_pipe w n (l ++ new)) (r_sink (to_round c))) as [[? ?] ?]. reflexivity. }
    rewrite Hfl in Ha. cbn [r_accepts to_round] in M'. rewrite <- M' in Ha. apply in_map_iff in Ha.
    destruct Ha as [x [E Hx]]. inversion E. exists x. rewrite Forall_forall in F'. repeat split; auto. }
  destruct Hx as [x [Hx [Ix [Cx Sx]]]].
  assert (Rx : rem n x = j) by (unfold rem, j; rewrite Sx, Cx; lia).
  pose proof (tick_ready_item w n (l ++ new) (r_sink (to_round c)) x Hn S1 (ready_sound c Rc)
                ltac:(apply in_or_app; right; exact Hx)) as TI.
  destruct (tick false (mk_pipe w n (l ++ new)) (r_sink (to_round c))) as [[p2 out] mv].
  cbn [fst snd items] in *. destruct TG as [l2 [-> [G2 _]]]. cbn [items] in *. destruct TI as [T0 Tk].
  assert (Esnap : b_snap (cr_obs c) = l2) by (rewrite Ho; reflexivity).
  destruct j as [|k] eqn:Ej.
  - unfold pushed_at. cbn [nth_error]. rewrite Ho. cbn [b_pushed]. rewrite <- Ix. apply T0. exact Rx.
  - rewrite pushed_at_shift. destruct (Tk k Rx) as [x' [Hx' [Rx' Ix']]].
    rewrite <- pushed_at_nth, Hrest, Esnap, <- Ix, <- Ix'.
    apply ready_progress2; auto.
    + split; assumption.
    + apply delays_map. exact Dr.
    + apply ready_window. exact Rw.
    + rewrite map_length. cbn [length] in Hlen. lia.
Qed.

(** ** progress from any observed snapshot *)
Lemma progress_run w n : forall crs i l c x, (1 <= n)%nat -> st_ok w n l -> Forall cdelays_ok crs ->
  map cr_obs crs = snd (run false (mk_pipe w n l) (map to_round crs)) ->
  nth_error crs i = Some c -> In x (b_snap (cr_obs c)) ->
  (i + 1 + rem n x < length crs)%nat ->
  ready_between crs (i + 1) (i + 1 + rem n x) = true ->
  In (p_item x) (pushed_at crs (i + 1 + rem n x)).
Proof.
  induction crs as [|c0 crs IH]; intros i l c x Hn Sok Hd H Hc Hx Hlen Hr; [destruct i; discriminate|].
  destruct (obs_step w n l c0 crs H) as [Ho Hrest]. inversion Hd as [|? ? Dc Dr]; subst.
  destruct (round_state w n l c0 Hn Sok Dc Ho) as [Es Ss]. rewrite Es in Hrest.
  destruct i as [|i]; cbn [nth_error] in Hc.
  2:{ cbn [plus] in *. rewrite ready_between_shift in Hr. rewrite pushed_at_shift.
      eapply IH; eauto. cbn [length] in Hlen. lia. }
  inversion Hc; subst c0. cbn [plus] in *. rewrite ready_between_shift in Hr. rewrite pushed_at_shift.
  unfold ready_between in Hr. rewrite Nat.sub_0_r, Nat.add_1_r in Hr. cbn [skipn] in Hr.
  rewrite <- pushed_at_nth, Hrest.
  apply ready_progress2; auto.
  - apply delays_map. exact Dr.
  - apply ready_window. exact Hr.
  - rewrite map_length. cbn [length] in Hlen. lia.
Qed.

(** ** assembling [holds_on] *)
Definition wf_case (c : case) : Prop := Forall cdelays_ok (c_rounds c).

Lemma in_pushed_before crs : forall j id, In id (pushed_before crs j) ->
  exists k, (k < j)%nat /\ In id (pushed_at crs k).
Proof.
  unfold pushed_before. induction crs as [|c crs IH]; intros [|j] id H; cbn [firstn flat_map] in H; try (destruct H; fail).
  apply in_app_or in H. destruct H as [H|H].
  - exists 0%nat. split; [lia|exact H].
  - destruct (IH j id H) as [k [Lk Hk]]. exists (S k). split; [lia|exact Hk].
Qed.

Lemma latency_clause w n crs : (1 <= n)%nat -> Forall cdelays_ok crs ->
  map cr_obs crs = snd (run false (new_pipe w n) (map to_round crs)) ->
  NoDup (flat_map (fun r => map fst (cr_accepts r)) crs) ->
  latency_ok n crs = true.
Proof.
  intros Hn Hd H Hnd. unfold latency_ok. apply forallb_forall. intros i _.
  destruct (nth_error crs i) as [c|] eqn:Ec; [|reflexivity].
  apply forallb_forall. intros [id d] Ha. cbn [fst snd].
  destruct (d <? 0)%Z eqn:Ed; [reflexivity|].
  replace (i + n - 1 + Z.to_nat d)%nat with (i + (n - 1) + Z.to_nat d)%nat by lia.
  apply andb_true_iff. split.
  - apply negb_true_iff. destruct (memN id (pushed_before crs (i + (n - 1) + Z.to_nat d))) eqn:E; [|reflexivity].
    exfalso. apply memN_in in E. destruct (in_pushed_before crs _ id E) as [k [Lk Hk]].
    unfold new_pipe in H.
    destruct (run_lower w n crs 0 [] [] Hn (st_ok_new w n) Hd H ltac:(intros x []) k id Hk) as [e [He Le]].
    cbn [app] in He. rewrite (hist_unique n crs 0 i c id e d Hnd He Ec Ha) in Le. lia.
  - destruct ((i + (n - 1) + Z.to_nat d <? length crs)%nat && ready_between crs i (i + (n - 1) + Z.to_nat d)) eqn:E;
      [|reflexivity].
    apply andb_true_iff in E. destruct E as [E1 E2]. apply Nat.ltb_lt in E1. apply memN_in.
    unfold new_pipe in H. eapply latency_run; eauto using st_ok_new.
Qed.

Lemma progress_clause w n crs : (1 <= n)%nat -> Forall cdelays_ok crs ->
  map cr_obs crs = snd (run false (new_pipe w n) (map to_round crs)) ->
  progress_ok n crs = true.
Proof.
  intros Hn Hd H. unfold progress_ok. apply forallb_forall. intros i _.
  destruct (nth_error crs i) as [c|] eqn:Ec; [|reflexivity].
  apply forallb_forall. intros x Hx. destruct (p_cyc x <? 0)%Z eqn:Ed; [reflexivity|].
  replace (i + 1 + (n - 1 - p_stage x) + Z.to_nat (p_cyc x))%nat with (i + 1 + rem n x)%nat by (unfold rem; lia).
  destruct ((i + 1 + rem n x <? length crs)%nat && ready_between crs (i + 1) (i + 1 + rem n x)) eqn:E; [|reflexivity].
  apply andb_true_iff in E. destruct E as [E1 E2]. apply Nat.ltb_lt in E1. apply memN_in.
  unfold new_pipe in H. eapply progress_run; eauto using st_ok_new.
Qed.

(** agreement with the model implies the whole property predicate *)
Lemma check_implies_holds c : wf_case c -> check_case c = true -> holds_on c = true.
Proof.
  intros Hw Hc. unfold holds_on. destruct (c_n c =? 0)%nat eqn:E0; [reflexivity|].
  apply Nat.eqb_neq in E0. assert (Hn : (1 <= c_n c)%nat) by lia.
  destruct (nodupb (flat_map (fun r => map fst (cr_accepts r)) (c_rounds c))) eqn:End; [|reflexivity].
  cbn [negb]. apply nodupb_sound in End.
  assert (H : map cr_obs (c_rounds c) = snd (run false (new_pipe (c_w c) (c_n c)) (map to_round (c_rounds c)))).
  { unfold check_case in Hc. apply (list_eqb_sound _ robs_eqb_eq) in Hc. symmetry. exact Hc. }
  rewrite (check_implies_slots c Hn Hc).
  pose proof (conserved_run (c_w c) (c_n c) (c_rounds c) [] Hn (proj1 (st_ok_new _ _)) H) as Cv.
  cbn [map] in Cv. rewrite Cv.
  rewrite (pushes_nodup (c_w c) (c_n c) (c_rounds c) Hn H End).
  rewrite (latency_clause (c_w c) (c_n c) (c_rounds c) Hn Hw H End).
  rewrite (progress_clause (c_w c) (c_n c) (c_rounds c) Hn Hw H).
  rewrite (check_implies_fifo c Hn Hc). reflexivity.
Qed.
