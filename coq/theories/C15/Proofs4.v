(** C15 — latency and progress at the level of histories. *)
From Coq Require Import Permutation.
From Akita Require Import Lib.Base C15.Model C15.Proofs1 C15.Proofs2 C15.Proofs3.

(** ticks a record still needs before the tick that pushes it *)
Definition rem (n : nat) (x : pitem) : nat := (n - 1 - p_stage x) + Z.to_nat (p_cyc x).

Definition dwell1 (x : pitem) : Prop := (0 <= p_cyc x)%Z /\ ((1 <= p_stage x)%nat -> p_cyc x = 0%Z).

Lemma due_rem n x : dwell1 x -> (p_stage x < n)%nat -> (is_due n x = true <-> rem n x = 0%nat).
Proof.
  intros [A B] S. unfold is_due, due, rem. split.
  - intro H. apply andb_true_iff in H. destruct H as [H1 H2]. apply Nat.eqb_eq in H1. lia.
  - intro H. apply andb_true_iff. split; [apply Nat.eqb_eq; lia|lia].
Qed.

Lemma adv1_rem n x : dwell1 x -> (p_stage x < n)%nat -> is_due n x = false ->
  rem n x = S (rem n (adv1 x)) /\ dwell1 (adv1 x) /\ p_item (adv1 x) = p_item x.
Proof.
  intros [A B] S D. unfold is_due, due in D. unfold adv1, rem, dwell1.
  destruct (0 <? p_cyc x)%Z eqn:Ec; cbn [p_stage p_cyc p_item dec_cyc move].
  - split; [lia|]. split; [|reflexivity]. split; [lia|]. intro S1. specialize (B S1). lia.
  - assert (p_cyc x = 0%Z) as C0 by lia. rewrite C0 in *.
    assert (p_stage x <> n - 1)%nat.
    { intro E. rewrite E, Nat.eqb_refl in D. cbn in D. discriminate. }
    split; [lia|]. split; [|reflexivity]. split; [lia|]. intros _. reflexivity.
Qed.

(** ** dwell counters stay well-formed under any tick *)
Lemma visit_dwell x y : visit x y -> dwell1 x -> dwell1 y.
Proof.
  intros V [A B]. destruct V; unfold dwell1; cbn [p_stage p_cyc dec_cyc move].
  - split; assumption.
  - split; [lia|]. intro S1. specialize (B S1). lia.
  - split; [lia|]. intros _. lia.
Qed.

Lemma visits_dwell x y : visits x y -> dwell1 x -> dwell1 y.
Proof. induction 1; intro D; [exact D|]. eapply visit_dwell; eauto. Qed.

Lemma p1_keep_dwell last x : dwell1 x -> dwell1 (p1_keep last x).
Proof.
  intros [A B]. unfold p1_keep. destruct ((p_stage x =? last)%nat && (0 <? p_cyc x)%Z)%bool eqn:E; [|split; assumption].
  apply andb_true_iff in E. destruct E as [_ E]. unfold dwell1. cbn [p_stage p_cyc dec_cyc].
  split; [lia|]. intro S1. specialize (B S1). lia.
Qed.

Lemma dwell_ok_iff l : dwell_ok l <-> Forall dwell1 l.
Proof. reflexivity. Qed.

Lemma tick_dwell w n l sink : (1 <= n)%nat -> good w n l -> dwell_ok l ->
  dwell_ok (items (fst (fst (tick false (mk_pipe w n l) sink)))).
Proof.
  intros Hn G Hd. unfold tick. cbn [items num_stages with_items width].
  destruct l as [|x0 l0] eqn:El; [constructor|]. rewrite <- El in *.
  destruct (n =? 0)%nat eqn:E0; [apply Nat.eqb_eq in E0; lia|].
  pose proof (phase1_spec (n - 1) sink (rev l) [] 0 [] false) as P.
  destruct (phase1 false (n - 1) sink (rev l) [] 0 [] false) as [[kept out] m1].
  destruct P as [em [stay [P [O [K [D _]]]]]]. cbn [app] in *.
  assert (Dk : dwell_ok kept).
  { unfold dwell_ok. eapply Permutation_Forall; [symmetry; exact K|]. apply Forall_map.
    assert (Hs : Forall dwell1 (em ++ stay)).
    { eapply Permutation_Forall; [exact P|]. apply Forall_rev. exact Hd. }
    apply Forall_app in Hs. destruct Hs as [_ Hs]. eapply Forall_impl; [|exact Hs].
    intros x H. apply p1_keep_dwell. exact H. }
  assert (Ek : excl kept).
  { destruct G as [Hex _]. unfold excl. eapply Permutation_NoDup; [apply Permutation_map; symmetry; exact K|].
    rewrite map_map. erewrite map_ext; [|apply p1_keep_slot].
    assert (Hs : NoDup (map slot (em ++ stay))).
    { eapply Permutation_NoDup; [apply Permutation_map; exact P|]. rewrite map_rev. apply NoDup_rev. exact Hex. }
    rewrite map_app in Hs. apply NoDup_app_r in Hs. exact Hs. }
  destruct kept as [|k0 kr] eqn:Ek'; [constructor|]. rewrite <- Ek' in *.
  pose proof (advance_items_inv n kept Ek) as A. destruct (advance_items n kept) as [l' m2].
  destruct A as [_ V]. cbn [fst items]. unfold dwell_ok in *.
  clear - Dk V. induction V as [|x y q q' H V IH]; [constructor|].
  inversion Dk; subst. constructor; [eapply visits_dwell; eauto|auto].
Qed.

(** ** rounds *)
Definition delays_ok (r : round) : Prop := Forall (fun a : N * Z => (0 <= snd a)%Z) (r_accepts r).
Definition ready_round (r : round) : Prop := forall i, r_sink r i = true.

Definition st_ok (w n : nat) (l : list pitem) : Prop := good w n l /\ dwell_ok l.

Lemma accepts_ok w n l r : (1 <= n)%nat -> st_ok w n l -> delays_ok r ->
  let '(p1, fl) := try_accepts (mk_pipe w n l) (r_accepts r) in
  exists new, p1 = mk_pipe w n (l ++ new) /\ st_ok w n (l ++ new) /\
              map p_item new = accepted_ids (r_accepts r) fl /\
              Forall (fun x => p_stage x = 0%nat /\ exists a, In a (r_accepts r) /\ p_item x = fst a /\ p_cyc x = snd a) new.
Proof.
  intros Hn [G Hd] Hr. pose proof (try_accepts_good w n (r_accepts r) l Hn G) as T.
  destruct (try_accepts (mk_pipe w n l) (r_accepts r)) as [p1 fl].
  destruct T as [l1 [-> [G1 [new [-> [Hids Hnew]]]]]]. exists new. split; [reflexivity|].
  split; [split; [exact G1|]|split; [exact Hids|exact Hnew]].
  unfold dwell_ok. apply Forall_app. split; [exact Hd|].
  eapply Forall_impl; [|exact Hnew]. cbn beta. intros x [S0 [a [Ia [_ Ec]]]].
  unfold delays_ok in Hr. rewrite Forall_forall in Hr. specialize (Hr a Ia).
  split; [lia|]. intro S1. lia.
Qed.

Lemma do_round_ok w n l r : (1 <= n)%nat -> st_ok w n l -> delays_ok r ->
  exists l', fst (do_round false (mk_pipe w n l) r) = mk_pipe w n l' /\ st_ok w n l'.
Proof.
  intros Hn S Hr. unfold do_round. pose proof (accepts_ok w n l r Hn S Hr) as A.
  destruct (try_accepts (mk_pipe w n l) (r_accepts r)) as [p1 fl].
  destruct A as [new [-> [[G1 D1] _]]].
  pose proof (tick_good w n (l ++ new) (r_sink r) Hn G1) as K.
  pose proof (tick_dwell w n (l ++ new) (r_sink r) Hn G1 D1) as Dw.
  destruct (tick false (mk_pipe w n (l ++ new)) (r_sink r)) as [[p2 out] mv].
  destruct K as [l2 [-> [G2 _]]]. cbn [fst items] in *. exists l2. split; [reflexivity|]. split; assumption.
Qed.

Lemma run_ok w n : forall rs l, (1 <= n)%nat -> st_ok w n l -> Forall delays_ok rs ->
  exists l', fst (run false (mk_pipe w n l) rs) = mk_pipe w n l' /\ st_ok w n l'.
Proof.
  induction rs as [|r rs IH]; intros l Hn S Hr; cbn [run].
  - exists l. split; [reflexivity|exact S].
  - inversion Hr; subst. destruct (do_round_ok w n l r Hn S) as [l1 [E1 S1]]; [assumption|].
    destruct (do_round false (mk_pipe w n l) r) as [p1 o]. cbn [fst] in E1. subst p1.
    destruct (IH l1 Hn S1) as [l2 [E2 S2]]; [assumption|].
    destruct (run false (mk_pipe w n l1) rs) as [p2 os]. cbn [fst] in *. exists l2. split; assumption.
Qed.

Definition dflt_obs : robs := mk_robs [] [] false [].

(** one ready round: a record that is due is pushed, any other one progresses *)
Lemma do_round_ready w n l r x : (1 <= n)%nat -> st_ok w n l -> delays_ok r -> ready_round r ->
  In x l ->
  let '(p', o) := do_round false (mk_pipe w n l) r in
  (rem n x = 0%nat -> In (p_item x) (b_pushed o)) /\
  (forall k, rem n x = S k -> exists x', In x' (items p') /\ rem n x' = k /\ p_item x' = p_item x).
Proof.
  intros Hn S Hr Hs Hx. unfold do_round. pose proof (accepts_ok w n l r Hn S Hr) as A.
  destruct (try_accepts (mk_pipe w n l) (r_accepts r)) as [p1 fl].
  destruct A as [new [-> [[G1 D1] _]]].
  pose proof (tick_ready w n (l ++ new) (r_sink r) Hn G1 D1 Hs) as T.
  destruct (tick false (mk_pipe w n (l ++ new)) (r_sink r)) as [[p2 out] mv].
  destruct T as [l2 [-> [-> P]]]. cbn [b_pushed items].
  assert (Hx1 : In x (rev (l ++ new))) by (apply -> in_rev; apply in_or_app; left; exact Hx).
  assert (Dx : dwell1 x /\ (p_stage x < n)%nat).
  { destruct S as [[_ Hall] Hd]. unfold dwell_ok in Hd. rewrite Forall_forall in *.
    split; [apply Hd; exact Hx|apply Hall; exact Hx]. }
  destruct Dx as [Dx Sx]. split.
  - intro R0. apply in_map. apply filter_In. split; [exact Hx1|]. apply due_rem; assumption.
  - intros k Rk. assert (Nd : is_due n x = false).
    { destruct (is_due n x) eqn:E; [|reflexivity]. apply due_rem in E; auto. lia. }
    destruct (adv1_rem n x Dx Sx Nd) as [R1 [_ I1]].
    exists (adv1 x). split; [|split; [lia|exact I1]].
    eapply Permutation_in; [symmetry; exact P|]. apply in_map. apply filter_In. split; [exact Hx1|].
    rewrite Nd. reflexivity.
Qed.

(** progress over a run of ready rounds *)
Lemma ready_progress w n : forall k rs l x, (1 <= n)%nat -> st_ok w n l ->
  Forall delays_ok rs -> Forall ready_round rs -> In x l -> rem n x = k -> (k < length rs)%nat ->
  In (p_item x) (b_pushed (nth k (snd (run false (mk_pipe w n l) rs)) dflt_obs)).
Proof.
  induction k as [|k IH]; intros rs l x Hn S Hd Hr Hx Rk Hlen;
    (destruct rs as [|r rs]; [cbn in Hlen; lia|]); cbn [run];
    inversion Hd; subst; inversion Hr; subst;
    pose proof (do_round_ready w n l r x Hn S ltac:(assumption) ltac:(assumption) Hx) as D;
    destruct (do_round_ok w n l r Hn S ltac:(assumption)) as [l1 [E1 S1]];
    destruct (do_round false (mk_pipe w n l) r) as [p1 o]; cbn [fst] in E1; subst p1;
    destruct D as [D0 Dk];
    destruct (run false (mk_pipe w n l1) rs) as [p2 os] eqn:Er; cbn [snd nth].
  - apply D0. exact Rk.
  - destruct (Dk k Rk) as [x' [Hx' [Rx' Ix']]]. cbn [items] in Hx'.
    rewrite <- Ix'. replace os with (snd (run false (mk_pipe w n l1) rs)) by (rewrite Er; reflexivity).
    apply IH; auto. cbn in Hlen. lia.
Qed.

Lemma run_app old : forall a b p,
  run old p (a ++ b) =
  let '(p1, o1) := run old p a in let '(p2, o2) := run old p1 b in (p2, o1 ++ o2).
Proof.
  induction a as [|r a IH]; intros b p; cbn [app run].
  - destruct (run old p b). reflexivity.
  - destruct (do_round old p r) as [p1 o]. rewrite IH. destruct (run old p1 a) as [p2 o1].
    destruct (run old p2 b) as [p3 o2]. reflexivity.
Qed.

Lemma run_length old : forall rs p, length (snd (run old p rs)) = length rs.
Proof.
  induction rs as [|r rs IH]; intro p; cbn [run]; [reflexivity|].
  destruct (do_round old p r) as [p1 o]. specialize (IH p1). destruct (run old p1 rs). cbn [snd length] in *. lia.
Qed.

Lemma st_ok_new w n : st_ok w n [].
Proof. split; [split; constructor|constructor]. Qed.

(** from any reachable state: once the sink has room, a record at stage s with c
    cycles left is pushed by the tick number (n-1-s)+c (counting from 0) *)
Lemma eventually_leaves w n pre post x : (1 <= n)%nat ->
  Forall delays_ok pre -> Forall delays_ok post -> Forall ready_round post ->
  In x (items (fst (run false (new_pipe w n) pre))) -> (rem n x < length post)%nat ->
  In (p_item x) (b_pushed (nth (length pre + rem n x)
                               (snd (run false (new_pipe w n) (pre ++ post))) dflt_obs)).
Proof.
  intros Hn Dp Dq Rq Hx Hlen. rewrite run_app.
  destruct (run_ok w n pre [] Hn (st_ok_new w n) Dp) as [l1 [E1 S1]].
  pose proof (run_length false pre (new_pipe w n)) as L1.
  unfold new_pipe in *. destruct (run false (mk_pipe w n []) pre) as [p1 o1]. cbn [fst snd] in *. subst p1.
  pose proof (ready_progress w n (rem n x) post l1 x Hn S1 Dq Rq Hx eq_refl Hlen) as P.
  destruct (run false (mk_pipe w n l1) post) as [p2 o2]. cbn [snd] in *.
  rewrite app_nth2 by lia. replace (length o1 + rem n x - length o1)%nat with (rem n x) by lia. rewrite L1.
  replace (length pre + rem n x - length pre)%nat with (rem n x) by lia. exact P.
Qed.

(** an item accepted in a round is in the pipeline when that round's Tick starts *)
Lemma accepted_in_new : forall acc fl new id,
  map p_item new = accepted_ids acc fl ->
  Forall (fun x => p_stage x = 0%nat /\ exists a, In a acc /\ p_item x = fst a /\ p_cyc x = snd a) new ->
  NoDup (map fst acc) -> In id (accepted_ids acc fl) ->
  forall d, In (id, d) acc -> exists x, In x new /\ p_item x = id /\ p_cyc x = d /\ p_stage x = 0%nat.
Proof.
  intros acc fl new id Hm Hf Hnd Hin d Hd. rewrite <- Hm in Hin. apply in_map_iff in Hin.
  destruct Hin as [x [Ix Hx]]. rewrite Forall_forall in Hf. destruct (Hf x Hx) as [S0 [a [Ia [Ea Ec]]]].
  exists x. repeat split; auto. rewrite Ec. subst id.
  (* a and (id, d) have the same id, hence are the same attempt *)
  assert (E : a = (p_item x, d)).
  { clear - Hnd Ia Hd Ea. induction acc as [|b acc IH]; [destruct Ia|].
    cbn [map] in Hnd. inversion Hnd as [|? ? H1 H2]; subst. destruct Ia as [->|Ia]; destruct Hd as [E|Hd].
    - exact E.
    - exfalso. apply H1. apply in_map_iff. exists (p_item x, d). split; [cbn; congruence|exact Hd].
    - exfalso. apply H1. apply in_map_iff. exists a. split; [subst b; cbn; congruence|exact Ia].
    - apply IH; assumption. }
  subst a. reflexivity.
Qed.

(** latency: accepted with delay d in a round whose sink and all later sinks have
    room: pushed by the tick number (n - 1) + d counted from that round's tick *)
Lemma latency w n pre r post id d : (1 <= n)%nat ->
  Forall delays_ok pre -> Forall delays_ok (r :: post) -> Forall ready_round (r :: post) ->
  In (id, d) (r_accepts r) -> NoDup (map fst (r_accepts r)) ->
  let os := snd (run false (new_pipe w n) (pre ++ r :: post)) in
  In id (round_accepted r (nth (length pre) os dflt_obs)) ->
  (n - 1 + Z.to_nat d < S (length post))%nat ->
  In id (b_pushed (nth (length pre + (n - 1 + Z.to_nat d)) os dflt_obs)).
Proof.
  intros Hn Dp Dq Rq Hacc Hnd os Hin Hlen. unfold os in *. clear os. rewrite run_app in *.
  destruct (run_ok w n pre [] Hn (st_ok_new w n) Dp) as [l1 [E1 S1]].
  pose proof (run_length false pre (new_pipe w n)) as L1.
  unfold new_pipe in *. destruct (run false (mk_pipe w n []) pre) as [p1 o1]. cbn [fst snd] in *. subst p1.
  inversion Dq as [|? ? Dr Dpost]; subst. inversion Rq as [|? ? Rr Rpost]; subst.
  cbn [run] in *. unfold do_round in *.
  pose proof (accepts_ok w n l1 r Hn S1 Dr) as A.
  destruct (try_accepts (mk_pipe w n l1) (r_accepts r)) as [pa fl].
  destruct A as [new [-> [Sa [Hids Hnew]]]].
  (* replay the round as a run from the state after the accepts, with no further attempts *)
  pose proof (tick_ready w n (l1 ++ new) (r_sink r) Hn (proj1 Sa) (proj2 Sa) Rr) as T.
  pose proof (tick_good w n (l1 ++ new) (r_sink r) Hn (proj1 Sa)) as Tg.
  pose proof (tick_dwell w n (l1 ++ new) (r_sink r) Hn (proj1 Sa) (proj2 Sa)) as Td.
  destruct (tick false (mk_pipe w n (l1 ++ new)) (r_sink r)) as [[p2 out] mv].
  destruct T as [l2 [-> [Eout P2]]]. destruct Tg as [l2' [E2 [G2 _]]]. inversion E2; subst l2'. cbn [fst items] in Td.
  destruct (run false (mk_pipe w n l2) post) as [p3 o3] eqn:Er. cbn [snd] in *.
  rewrite app_nth2 in * by lia. rewrite L1 in *.
  replace (length pre - length pre)%nat with 0%nat in Hin by lia. cbn [nth] in Hin.
  unfold round_accepted in Hin. cbn [b_accepted] in Hin.
  destruct (accepted_in_new _ _ _ _ Hids Hnew Hnd Hin d Hacc) as [x [Hx [Ix [Cx Sx]]]].
  assert (Rx : rem n x = (n - 1 + Z.to_nat d)%nat) by (unfold rem; rewrite Sx, Cx; lia).
  assert (Hx1 : In x (rev (l1 ++ new))) by (apply -> in_rev; apply in_or_app; right; exact Hx).
  assert (Dx : dwell1 x /\ (p_stage x < n)%nat).
  { destruct Sa as [[_ Hall] Hd]. unfold dwell_ok in Hd. rewrite Forall_forall in *.
    split; [apply Hd|apply Hall]; apply in_or_app; right; exact Hx. }
  destruct Dx as [Dx Stx].
  replace (length pre + (n - 1 + Z.to_nat d) - length pre)%nat with (n - 1 + Z.to_nat d)%nat by lia.
  destruct (n - 1 + Z.to_nat d)%nat as [|k] eqn:Ek.
  - cbn [nth b_pushed]. rewrite <- Ix, Eout. apply in_map. apply filter_In. split; [exact Hx1|].
    apply due_rem; auto.
  - cbn [nth]. assert (Nd : is_due n x = false).
    { destruct (is_due n x) eqn:E; [|reflexivity]. apply due_rem in E; auto. lia. }
    destruct (adv1_rem n x Dx Stx Nd) as [R1 [_ I1]].
    assert (Hx2 : In (adv1 x) l2).
    { eapply Permutation_in; [symmetry; exact P2|]. apply in_map. apply filter_In. split; [exact Hx1|].
      rewrite Nd. reflexivity. }
    pose proof (ready_progress w n k post l2 (adv1 x) Hn (conj G2 Td) Dpost Rpost Hx2 ltac:(lia) ltac:(lia)) as PR.
    rewrite Er in PR. cbn [snd] in PR. rewrite I1, Ix in PR. exact PR.
Qed.
