(** C15 — latency lower bound for any sink; progress under a window of ready rounds. *)
From Coq Require Import Permutation.
From Akita Require Import Lib.Base C15.Model C15.Proofs1 C15.Proofs2 C15.Proofs3 C15.Proofs4 C15.Proofs5
  C15.Exec C15.Proofs6 C15.Proofs7.

(** ** the accepted (item, delay) pairs are the new records *)
Lemma try_accepts_pairs : forall acc p,
  let '(p', fl) := try_accepts p acc in
  exists new, items p' = items p ++ new /\ width p' = width p /\ num_stages p' = num_stages p /\
              map (fun x => (p_item x, p_cyc x)) new = accepted_of acc fl /\
              Forall (fun x => p_stage x = 0%nat) new.
Proof.
  induction acc as [|a r IH]; intro p; cbn [try_accepts].
  - exists []. rewrite app_nil_r. repeat split; constructor.
  - unfold try_accept. destruct (can_accept p).
    + unfold accept. destruct (first_free (items p) 0 (width p) <? width p)%nat.
      * specialize (IH (with_items p (items p ++ [mk_pitem (first_free (items p) 0 (width p)) 0 (fst a) (snd a)]))).
        destruct (try_accepts _ r) as [p2 bs]. destruct IH as [new [E [W [S [M F]]]]].
        cbn [items with_items width num_stages] in *.
        exists (mk_pitem (first_free (items p) 0 (width p)) 0 (fst a) (snd a) :: new).
        rewrite E, <- app_assoc. split; [reflexivity|]. split; [exact W|]. split; [exact S|]. split.
        -- cbn [map accepted_of p_item p_cyc]. rewrite M. destruct a; reflexivity.
        -- constructor; [reflexivity|exact F].
      * specialize (IH p). destruct (try_accepts p r) as [p2 bs]. destruct IH as [new [E [W [S [M F]]]]].
        exists new. repeat split; auto.
    + specialize (IH p). destruct (try_accepts p r) as [p2 bs]. destruct IH as [new [E [W [S [M F]]]]].
      exists new. repeat split; auto.
Qed.

Lemma accepted_of_in a f x : In x (accepted_of a f) -> In x a.
Proof.
  revert f. induction a as [|y a IH]; intros [|[|] f]; cbn [accepted_of In]; try tauto.
  - intros [E|H]; [left; exact E|right; eapply IH; exact H].
  - intro H. right. eapply IH; exact H.
Qed.

(** ** one tick, any sink: pushed records were due; no record gains more than one step *)
Lemma advance_items_visit_bound n l : excl l ->
  Forall2 (fun x z => visit x z /\ (z <> x -> (p_stage x < n - 1)%nat)) l (fst (advance_items n l)).
Proof.
  intro Hex. unfold advance_items.
  assert (Hid : Forall2 (fun x z => visit x z /\ (z <> x -> (p_stage x < n - 1)%nat)) l l).
  { clear. induction l; constructor; auto. split; [constructor|congruence]. }
  destruct (n <? 2)%nat eqn:E2; [exact Hid|].
  destruct (Nat.min (max_stage_of l) (n - 2) <? min_stage_of l)%nat eqn:E3; [exact Hid|].
  apply Nat.ltb_ge in E2. apply Nat.ltb_ge in E3.
  eapply Forall2_weaken; [|apply adv_loop_visit; [apply build_occ_ok|exact Hex]].
  cbn beta. intros x y [V B]. split; [exact V|]. intro Hne. specialize (B Hne). lia.
Qed.

Lemma tick_lower w n l sink : (1 <= n)%nat -> good w n l -> dwell_ok l ->
  let '(p', out, _) := tick false (mk_pipe w n l) sink in
  (forall id, In id out -> exists x, In x l /\ p_item x = id /\ rem n x = 0%nat) /\
  (forall x', In x' (items p') -> exists x, In x l /\ p_item x = p_item x' /\ (rem n x <= S (rem n x'))%nat).
Proof.
  intros Hn G Hd. pose proof (tick_good w n l sink Hn G) as TG. unfold tick in *.
  cbn [items num_stages with_items width] in *.
  destruct l as [|x0 l0] eqn:El; [split; [intros id []|intros x' []]|]. rewrite <- El in *.
  destruct (n =? 0)%nat eqn:E0; [apply Nat.eqb_eq in E0; lia|].
  pose proof (phase1_spec (n - 1) sink (rev l) [] 0 [] false) as P.
  destruct (phase1 false (n - 1) sink (rev l) [] 0 [] false) as [[kept out] m1].
  destruct P as [em [stay [P [O [K [D _]]]]]]. cbn [app] in *.
  destruct G as [Hex Hall]. unfold dwell_ok in Hd.
  assert (Hin : forall x, In x (em ++ stay) -> In x l).
  { intros x Hx. apply in_rev. eapply Permutation_in; [symmetry; exact P|exact Hx]. }
  assert (Hout : forall id, In id out -> exists x, In x l /\ p_item x = id /\ rem n x = 0%nat).
  { intros id Hid. rewrite O in Hid. apply in_map_iff in Hid. destruct Hid as [x [E Hx]].
    exists x. split; [apply Hin; apply in_or_app; left; exact Hx|]. split; [exact E|].
    rewrite Forall_forall in D, Hd, Hall. specialize (D x Hx).
    assert (Hxl : In x l) by (apply Hin; apply in_or_app; left; exact Hx).
    apply (proj1 (due_rem n x (Hd x Hxl) (proj2 (Hall x Hxl)))). exact D. }
  assert (Hkept : forall y, In y kept -> exists x, In x l /\ p_item x = p_item y /\
             ((y = x) \/ (y = dec_cyc x /\ p_stage x = (n - 1)%nat /\ (0 < p_cyc x)%Z))).
  { intros y Hy. assert (Hy' : In y (map (p1_keep (n - 1)) stay)) by (eapply Permutation_in; [exact K|exact Hy]).
    apply in_map_iff in Hy'. destruct Hy' as [x [E Hx]]. exists x.
    split; [apply Hin; apply in_or_app; right; exact Hx|]. subst y. split; [symmetry; apply p1_keep_item|].
    unfold p1_keep. destruct ((p_stage x =? n - 1)%nat && (0 <? p_cyc x)%Z)%bool eqn:Eb; [right|left; reflexivity].
    apply andb_true_iff in Eb. destruct Eb as [B1 B2]. apply Nat.eqb_eq in B1. split; [reflexivity|]. split; [exact B1|lia]. }
  assert (Ek : excl kept).
  { unfold excl. eapply Permutation_NoDup; [apply Permutation_map; symmetry; exact K|].
    rewrite map_map. erewrite map_ext; [|apply p1_keep_slot].
    assert (Hs : NoDup (map slot (em ++ stay))).
    { eapply Permutation_NoDup; [apply Permutation_map; exact P|]. rewrite map_rev. apply NoDup_rev. exact Hex. }
    rewrite map_app in Hs. apply NoDup_app_r in Hs. exact Hs. }
  destruct kept as [|k0 kr] eqn:Ek'.
  { split; [exact Hout|]. cbn [items]. intros x' []. }
  rewrite <- Ek' in *.
  pose proof (advance_items_visit_bound n kept Ek) as V.
  destruct (advance_items n kept) as [l' m2]. cbn [fst items] in *.
  destruct TG as [l2 [E2 [[_ Hall2] _]]]. inversion E2; subst l2.
  split; [exact Hout|]. intros x' Hx'.
  destruct (Forall2_in_r _ _ _ _ V Hx') as [y [Hy [Vy By]]].
  destruct (Hkept y Hy) as [x [Hxl [Ix Hc]]]. exists x. split; [exact Hxl|].
  destruct (visit_lane _ _ Vy) as [_ Iy]. split; [congruence|].
  rewrite Forall_forall in Hall2. destruct (Hall2 x' Hx') as [_ Sx'].
  rewrite Forall_forall in Hd. destruct (Hd x Hxl) as [C0 _].
  unfold rem. destruct Hc as [Ey|[Ey [Sx Cx]]].
  - subst y. destruct Vy as [y|y Hc|y Hc]; cbn [p_stage p_cyc dec_cyc move] in *; lia.
  - assert (Sy : p_stage y = (n - 1)%nat) by (rewrite Ey; exact Sx).
    assert (x' = y).
    { destruct Vy as [y|y Hc|y Hc]; try reflexivity; exfalso.
      - assert (Q : dec_cyc y <> y) by (intro E; apply (f_equal p_cyc) in E; cbn in E; lia).
        specialize (By Q). lia.
      - assert (Q : move y <> y) by (intro E; apply (f_equal p_stage) in E; cbn in E; lia).
        specialize (By Q). lia. }
    subst x' y. cbn [p_stage p_cyc dec_cyc]. lia.
Qed.

(** ** earliest push round of every accepted item *)
Fixpoint hist (n t : nat) (crs : list cround) : list (N * nat) :=
  match crs with
  | [] => []
  | c :: r => map (fun a : N * Z => (fst a, t + (n - 1) + Z.to_nat (snd a))%nat) (accepted_in c) ++ hist n (S t) r
  end.

Definition cdelays_ok (c : cround) : Prop := Forall (fun a : N * Z => (0 <= snd a)%Z) (cr_accepts c).

Lemma run_lower w n : forall crs t l h0, (1 <= n)%nat -> st_ok w n l -> Forall cdelays_ok crs ->
  map cr_obs crs = snd (run false (mk_pipe w n l) (map to_round crs)) ->
  (forall x, In x l -> exists e, In (p_item x, e) h0 /\ (e <= rem n x + t)%nat) ->
  forall k id, In id (pushed_at crs k) -> exists e, In (id, e) (h0 ++ hist n t crs) /\ (e <= t + k)%nat.
Proof.
  induction crs as [|c crs IH]; intros t l h0 Hn Sok Hd H H0 k id Hid.
  { unfold pushed_at in Hid. destruct k; destruct Hid. }
  destruct (obs_step w n l c crs H) as [Ho Hr]. inversion Hd as [|? ? Dc Dr]; subst.
  unfold do_round in *.
  pose proof (accepts_ok w n l (to_round c) Hn Sok Dc) as A.
  pose proof (try_accepts_pairs (r_accepts (to_round c)) (mk_pipe w n l)) as TP.
  destruct (try_accepts (mk_pipe w n l) (r_accepts (to_round c))) as [p1 fl].
  destruct A as [new [-> [[G1 D1] _]]]. destruct TP as [new' [E' [_ [_ [M' F']]]]].
  cbn [items] in E'. apply app_inv_head in E'. subst new'.
  pose proof (tick_lower w n (l ++ new) (r_sink (to_round c)) Hn G1 D1) as TL.
  pose proof (tick_good w n (l ++ new) (r_sink (to_round c)) Hn G1) as TG.
  pose proof (tick_dwell w n (l ++ new) (r_sink (to_round c)) Hn G1 D1) as TD.
  destruct (tick false (mk_pipe w n (l ++ new)) (r_sink (to_round c))) as [[p2 out] mv].
  cbn [fst snd items] in *. destruct TG as [l2 [-> [G2 _]]]. cbn [items] in *. destruct TL as [L1 L2].
  (* every record present when the tick starts has an entry *)
  set (hc := map (fun a : N * Z => (fst a, t + (n - 1) + Z.to_nat (snd a))%nat) (accepted_in c)).
  assert (Hacc : accepted_in c = accepted_of (cr_accepts c) fl).
  { unfold accepted_in. rewrite Ho. reflexivity. }
  assert (H1 : forall x, In x (l ++ new) -> exists e, In (p_item x, e) (h0 ++ hc) /\ (e <= rem n x + t)%nat).
  { intros x Hx. apply in_app_or in Hx. destruct Hx as [Hx|Hx].
    - destruct (H0 x Hx) as [e [He Le]]. exists e. split; [apply in_or_app; left; exact He|exact Le].
    - exists (t + (n - 1) + Z.to_nat (p_cyc x))%nat. split.
      + apply in_or_app. right. unfold hc. apply in_map_iff. exists (p_item x, p_cyc x). split; [reflexivity|].
        rewrite Hacc. cbn [r_accepts to_round] in M'. rewrite <- M'. apply in_map_iff. exists x. split; [reflexivity|exact Hx].
      + rewrite Forall_forall in F'. unfold rem. rewrite (F' x Hx). lia. }
  destruct k as [|k].
  - unfold pushed_at in Hid. cbn [nth_error] in Hid. rewrite Ho in Hid. cbn [b_pushed] in Hid.
    destruct (L1 id Hid) as [x [Hx [Ix Rx]]]. destruct (H1 x Hx) as [e [He Le]].
    exists e. rewrite Ix in He. cbn [hist]. fold hc. rewrite app_assoc. split; [apply in_or_app; left; exact He|lia].
  - assert (Hid' : In id (pushed_at crs k)) by exact Hid.
    destruct (IH (S t) l2 (h0 ++ hc) Hn (conj G2 TD) Dr Hr) with (k := k) (id := id) as [e [He Le]]; [|exact Hid'|].
    + intros x' Hx'. destruct (L2 x' Hx') as [x [Hx [Ix Rx]]]. destruct (H1 x Hx) as [e [He Le]].
      exists e. rewrite <- Ix. split; [exact He|lia].
    + exists e. cbn [hist]. fold hc. rewrite app_assoc. split; [exact He|lia].
Qed.

(** with distinct attempted ids the entry of an item is the one of its own acceptance *)
Lemma pair_unique (a : list (N * Z)) id d d' :
  NoDup (map fst a) -> In (id, d) a -> In (id, d') a -> d = d'.
Proof.
  induction a as [|b a IH]; intros Hn H1 H2; [destruct H1|].
  cbn [map] in Hn. inversion Hn as [|? ? Hb Hn']; subst.
  destruct H1 as [->|H1]; destruct H2 as [E|H2].
  - congruence.
  - exfalso. apply Hb. apply in_map_iff. exists (id, d'). split; [reflexivity|exact H2].
  - exfalso. apply Hb. subst b. apply in_map_iff. exists (id, d). split; [reflexivity|exact H1].
  - apply IH; assumption.
Qed.

Lemma hist_ids n : forall crs t id e, In (id, e) (hist n t crs) ->
  In id (flat_map (fun r => map fst (cr_accepts r)) crs).
Proof.
  induction crs as [|c crs IH]; intros t id e H; [destruct H|].
  cbn [hist flat_map] in *. apply in_app_or in H. apply in_or_app. destruct H as [H|H].
  - left. apply in_map_iff in H. destruct H as [a [E Ha]]. inversion E; subst.
    apply in_map. eapply accepted_of_in. exact Ha.
  - right. eapply IH; exact H.
Qed.

Lemma NoDup_app_disjoint {A} (a b : list A) x : NoDup (a ++ b) -> In x a -> In x b -> False.
Proof.
  induction a as [|y a IH]; cbn [app]; intros Hn Ha Hb; [destruct Ha|].
  inversion Hn as [|? ? Hy Hn']; subst. destruct Ha as [->|Ha].
  - apply Hy. apply in_or_app. right. exact Hb.
  - eapply IH; eassumption.
Qed.

Lemma hist_unique n : forall crs t i c id e d,
  NoDup (flat_map (fun r => map fst (cr_accepts r)) crs) ->
  In (id, e) (hist n t crs) -> nth_error crs i = Some c -> In (id, d) (accepted_in c) ->
  e = (t + i + (n - 1) + Z.to_nat d)%nat.
Proof.
  induction crs as [|c0 crs IH]; intros t i c id e d Hn He Hc Hd; [destruct i; discriminate|].
  cbn [flat_map hist] in *. apply in_app_or in He.
  assert (N0 : NoDup (map fst (cr_accepts c0))) by (eapply NoDup_app_l; exact Hn).
  assert (Nr : NoDup (flat_map (fun r => map fst (cr_accepts r)) crs)) by (eapply NoDup_app_r; exact Hn).
  destruct i as [|i]; cbn [nth_error] in Hc.
  - inversion Hc; subst c0. destruct He as [He|He].
    + apply in_map_iff in He. destruct He as [a [E Ha]]. destruct a as [id' d']. cbn [fst snd] in E. inversion E; subst.
      assert (d' = d).
      { apply (pair_unique (cr_accepts c) id d' d N0); eapply accepted_of_in; eassumption. }
      subst. lia.
    + exfalso. apply (NoDup_app_disjoint _ _ id Hn).
      * apply in_map_iff. exists (id, d). split; [reflexivity|]. eapply accepted_of_in. exact Hd.
      * eapply hist_ids. exact He.
  - destruct He as [He|He].
    + exfalso. apply in_map_iff in He. destruct He as [a [E Ha]]. destruct a as [id' d']. cbn [fst snd] in E. inversion E; subst.
      apply (NoDup_app_disjoint _ _ id Hn).
      * apply in_map_iff. exists (id, d'). split; [reflexivity|]. eapply accepted_of_in. exact Ha.
      * apply in_flat_map. exists c. split; [eapply nth_error_In; exact Hc|].
        apply in_map_iff. exists (id, d). split; [reflexivity|]. eapply accepted_of_in. exact Hd.
    + rewrite (IH (S t) i c id e d Nr He Hc Hd). lia.
Qed.
