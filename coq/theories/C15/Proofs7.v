(** C15 — boolean reflections used by the link theorem: bags, duplicates, conservation. *)
From Coq Require Import Permutation.
From Akita Require Import Lib.Base C15.Model C15.Proofs1 C15.Proofs2 C15.Proofs3 C15.Proofs4 C15.Exec C15.Proofs6.

(** ** bags *)
Lemma insN_comm x y l : insN x (insN y l) = insN y (insN x l).
Proof.
  induction l as [|z r IH]; cbn [insN];
    repeat (match goal with
            | |- context [(?a <=? ?b)%N] => destruct (a <=? b)%N eqn:?; cbn [insN]
            end);
    try reflexivity; try lia;
    try (assert (x = y) by lia; subst; reflexivity).
  rewrite IH. reflexivity.
Qed.

Lemma sortNl_perm l l' : Permutation l l' -> sortNl l = sortNl l'.
Proof.
  induction 1; cbn [sortNl fold_right]; try congruence.
  - fold (sortNl l). fold (sortNl l'). congruence.
  - apply insN_comm.
Qed.

Lemma same_bag_perm a b : Permutation a b -> same_bag a b = true.
Proof. intro P. unfold same_bag. rewrite (sortNl_perm a b P). apply listN_eqb_eq. reflexivity. Qed.

Lemma memN_in x l : memN x l = true <-> In x l.
Proof.
  unfold memN. rewrite existsb_exists. split.
  - intros [y [Hy E]]. apply N.eqb_eq in E. subst. exact Hy.
  - intro H. exists x. split; [exact H|apply N.eqb_refl].
Qed.

Lemma nodupb_complete l : NoDup l -> nodupb l = true.
Proof.
  induction 1 as [|x l Hn Hd IH]; cbn [nodupb]; [reflexivity|]. rewrite IH, andb_true_r.
  apply negb_true_iff. destruct (existsb (N.eqb x) l) eqn:E; [|reflexivity].
  exfalso. apply Hn. apply memN_in. exact E.
Qed.

Lemma nodupb_sound l : nodupb l = true -> NoDup l.
Proof.
  induction l as [|x l IH]; cbn [nodupb]; intro H; [constructor|].
  apply andb_true_iff in H. destruct H as [H1 H2]. constructor; [|apply IH; exact H2].
  intro Hin. apply memN_in in Hin. unfold memN in Hin. rewrite Hin in H1. discriminate.
Qed.

(** ** observations of a run, one round at a time *)
Lemma obs_step w n l c crs :
  map cr_obs (c :: crs) = snd (run false (mk_pipe w n l) (map to_round (c :: crs))) ->
  cr_obs c = snd (do_round false (mk_pipe w n l) (to_round c)) /\
  map cr_obs crs = snd (run false (fst (do_round false (mk_pipe w n l) (to_round c))) (map to_round crs)).
Proof.
  cbn [map run]. destruct (do_round false (mk_pipe w n l) (to_round c)) as [p1 o]. cbn [fst snd].
  destruct (run false p1 (map to_round crs)) as [p2 os]. cbn [fst snd]. intro H. inversion H. split; reflexivity.
Qed.

Lemma pushed_at_nth crs k : b_pushed (nth k (map cr_obs crs) dflt_obs) = pushed_at crs k.
Proof.
  unfold pushed_at. revert k. induction crs as [|c crs IH]; intros [|k]; cbn [map nth nth_error]; try reflexivity.
  apply IH.
Qed.

(** ** conservation clause *)
Lemma conserved_run w n : forall crs l, (1 <= n)%nat -> good w n l ->
  map cr_obs crs = snd (run false (mk_pipe w n l) (map to_round crs)) ->
  conserved (map p_item l) crs = true.
Proof.
  induction crs as [|c crs IH]; intros l Hn G H; [reflexivity|].
  destruct (obs_step w n l c crs H) as [Ho Hr].
  pose proof (do_round_good w n l (to_round c) Hn G) as D.
  destruct (do_round false (mk_pipe w n l) (to_round c)) as [p1 o]. cbn [fst snd] in *.
  destruct D as [l1 [-> [G1 [S1 P1]]]]. cbn [conserved]. rewrite Ho, S1.
  rewrite (IH l1 Hn G1 Hr), andb_true_r. apply same_bag_perm.
  unfold accepted_in. rewrite accepted_of_ids, Ho. exact P1.
Qed.

(** ** no item is pushed twice *)
Lemma accepted_ids_in a f x : In x (accepted_ids a f) -> In x (map fst a).
Proof.
  revert f. induction a as [|y a IH]; intros [|[|] f]; cbn [accepted_ids map In]; try tauto.
  - intros [E|H]; [left; exact E|right; eapply IH; exact H].
  - intro H. right. eapply IH; exact H.
Qed.

Lemma nodup_accepted a f tail tail' :
  (forall x, In x tail' -> In x tail) -> NoDup tail' -> NoDup (map fst a ++ tail) ->
  NoDup (accepted_ids a f ++ tail').
Proof.
  intros Hsub Ht. revert f. induction a as [|y a IH]; intros f Hn; cbn [map app] in Hn.
  - destruct f; exact Ht.
  - inversion Hn as [|? ? Hy Hn']; subst. destruct f as [|[|] f]; cbn [accepted_ids app]; auto.
    constructor; [|auto]. intro Hin. apply Hy. apply in_app_or in Hin. apply in_or_app.
    destruct Hin as [Hin|Hin]; [left; eapply accepted_ids_in; exact Hin|right; apply Hsub; exact Hin].
Qed.

Definition attempted (rs : list round) : list N := flat_map (fun r => map fst (r_accepts r)) rs.

Lemma all_accepted_in : forall rs os x, In x (all_accepted rs os) -> In x (attempted rs).
Proof.
  induction rs as [|r rs IH]; intros [|o os] x H; cbn [all_accepted attempted flat_map] in *;
    try (destruct H; fail).
  apply in_app_or in H. apply in_or_app. destruct H as [H|H].
  - left. unfold round_accepted in H. eapply accepted_ids_in; exact H.
  - right. eapply IH; exact H.
Qed.

Lemma nodup_all_accepted : forall rs os, NoDup (attempted rs) -> NoDup (all_accepted rs os).
Proof.
  induction rs as [|r rs IH]; intros [|o os] H; cbn [all_accepted]; try constructor.
  cbn [attempted flat_map] in H. unfold round_accepted.
  apply (nodup_accepted (r_accepts r) (b_accepted o) (attempted rs) (all_accepted rs os)).
  - intros x Hx. eapply all_accepted_in; exact Hx.
  - apply IH. clear - H. induction (map fst (r_accepts r)) as [|y m IHm]; [exact H|].
    cbn [app] in H. inversion H; auto.
  - exact H.
Qed.

Lemma NoDup_app_l {A} (a b : list A) : NoDup (a ++ b) -> NoDup a.
Proof.
  induction a as [|x a IH]; cbn [app]; intro H; [constructor|]. inversion H as [|? ? Hn Hd]; subst.
  constructor; [|auto]. intro Hin. apply Hn. apply in_or_app. left. exact Hin.
Qed.

Lemma attempted_exec crs :
  flat_map (fun r => map fst (cr_accepts r)) crs = attempted (map to_round crs).
Proof. induction crs as [|c crs IH]; cbn [flat_map map attempted]; [reflexivity|]. rewrite IH. reflexivity. Qed.

Lemma pushes_nodup w n crs : (1 <= n)%nat ->
  map cr_obs crs = snd (run false (new_pipe w n) (map to_round crs)) ->
  NoDup (flat_map (fun r => map fst (cr_accepts r)) crs) ->
  nodupb (flat_map (fun r => b_pushed (cr_obs r)) crs) = true.
Proof.
  intros Hn H Hd. apply nodupb_complete. rewrite flat_map_obs, H.
  pose proof (run_good w n (map to_round crs) [] Hn (proj1 (st_ok_new w n))) as R.
  unfold new_pipe in *. destruct (run false (mk_pipe w n []) (map to_round crs)) as [p os]. cbn [snd].
  destruct R as [l' [_ [_ [_ P]]]]. cbn [map app] in P.
  apply (NoDup_app_l _ (map p_item l')). eapply Permutation_NoDup; [exact P|].
  apply nodup_all_accepted. rewrite <- attempted_exec. exact Hd.
Qed.
