(** C15 — link between the two evaluators of Exec.v (lane-exclusivity clause). *)
From Coq Require Import Permutation.
From Akita Require Import Lib.Base C15.Model C15.Proofs1 C15.Proofs2 C15.Proofs3 C15.Proofs4 C15.Exec.

Lemma pitem_eqb_eq a b : pitem_eqb a b = true -> a = b.
Proof.
  unfold pitem_eqb. intro H. repeat (apply andb_true_iff in H; destruct H as [H ?]).
  apply Nat.eqb_eq in H. apply Nat.eqb_eq in H2. apply N.eqb_eq in H1. apply Z.eqb_eq in H0.
  destruct a, b; cbn in *; congruence.
Qed.

Lemma list_eqb_sound {A} (eqb : A -> A -> bool) (Hs : forall x y, eqb x y = true -> x = y) a b :
  list_eqb eqb a b = true -> a = b.
Proof.
  revert b. induction a as [|x a IH]; intros [|y b]; cbn [list_eqb]; try discriminate; [reflexivity|].
  intro H. apply andb_true_iff in H. destruct H as [H1 H2]. f_equal; auto.
Qed.

Lemma robs_eqb_eq a b : robs_eqb a b = true -> a = b.
Proof.
  unfold robs_eqb. intro H. repeat (apply andb_true_iff in H; destruct H as [H ?]).
  apply (list_eqb_sound _ Bool.eqb_prop) in H. apply listN_eqb_eq in H2.
  apply Bool.eqb_prop in H1. apply (list_eqb_sound _ pitem_eqb_eq) in H0.
  destruct a, b; cbn in *; congruence.
Qed.

Lemma slots_ok_complete w n l :
  NoDup (map slot l) -> Forall (fun x => p_lane x < w /\ p_stage x < n)%nat l -> slots_ok w n l = true.
Proof.
  induction l as [|x r IH]; intros Nd F; cbn [slots_ok]; [reflexivity|].
  cbn [map] in Nd. inversion Nd as [|? ? Hn Nd']; subst. inversion F as [|? ? [L S] F']; subst.
  rewrite IH by assumption.
  assert ((p_lane x <? w)%nat = true) as -> by (apply Nat.ltb_lt; exact L).
  assert ((p_stage x <? n)%nat = true) as -> by (apply Nat.ltb_lt; exact S).
  destruct (existsb (fun y => (p_stage y =? p_stage x)%nat && (p_lane y =? p_lane x)%nat) r) eqn:E; [|reflexivity].
  exfalso. apply existsb_exists in E. destruct E as [y [Hy Hb]]. apply andb_true_iff in Hb.
  destruct Hb as [B1 B2]. apply Nat.eqb_eq in B1. apply Nat.eqb_eq in B2.
  apply Hn. apply in_map_iff. exists y. split; [unfold slot; congruence|exact Hy].
Qed.

(** agreement with the model implies the lane-exclusivity clause of [holds_on] *)
Lemma check_implies_slots c : (1 <= c_n c)%nat -> check_case c = true ->
  forallb (fun r => slots_ok (c_w c) (c_n c) (b_snap (cr_obs r))) (c_rounds c) = true.
Proof.
  intros Hn H. unfold check_case in H. apply (list_eqb_sound _ robs_eqb_eq) in H.
  pose proof (run_good (c_w c) (c_n c) (map to_round (c_rounds c)) [] Hn (proj1 (st_ok_new _ _))) as R.
  unfold new_pipe in H. destruct (run false (mk_pipe (c_w c) (c_n c) []) (map to_round (c_rounds c))) as [p os].
  cbn [snd] in H. destruct R as [l' [_ [_ [F _]]]]. subst os.
  apply forallb_forall. intros r Hr. rewrite Forall_forall in F.
  destruct (F (cr_obs r) (in_map cr_obs _ _ Hr)) as [Hex Hall]. apply slots_ok_complete; assumption.
Qed.

(** ** FIFO clause *)
From Akita Require Import C15.Proofs5.

Lemma accepted_of_ids a f : map fst (accepted_of a f) = accepted_ids a f.
Proof.
  revert f. induction a as [|x a IH]; intros [|[|] f]; cbn [accepted_of accepted_ids map]; try reflexivity.
  - f_equal. apply IH.
  - apply IH.
Qed.

Lemma all_accepted_exec rs :
  flat_map (fun c => map fst (accepted_in c)) rs = all_accepted (map to_round rs) (map cr_obs rs).
Proof.
  induction rs as [|c rs IH]; cbn [flat_map map all_accepted]; [reflexivity|].
  rewrite IH. f_equal. unfold accepted_in, round_accepted. cbn [r_accepts to_round]. apply accepted_of_ids.
Qed.

Lemma flat_map_obs rs : flat_map (fun c => b_pushed (cr_obs c)) rs = flat_map b_pushed (map cr_obs rs).
Proof. induction rs as [|c rs IH]; cbn [flat_map map]; [reflexivity|]. rewrite IH. reflexivity. Qed.

Lemma firstn_app_len {A} (a b : list A) : firstn (length a) (a ++ b) = a.
Proof. induction a as [|x a IH]; cbn [length firstn app]; [reflexivity|]. f_equal. exact IH. Qed.

Lemma check_implies_fifo c : (1 <= c_n c)%nat -> check_case c = true -> fifo_ok (c_w c) (c_rounds c) = true.
Proof.
  intros Hn H. unfold fifo_ok. destruct (c_w c =? 1)%nat eqn:Ew; [|reflexivity].
  apply Nat.eqb_eq in Ew. unfold check_case in H. apply (list_eqb_sound _ robs_eqb_eq) in H. rewrite Ew in H.
  destruct (fifo_width1 (c_n c) (map to_round (c_rounds c)) Hn) as [rest E]. rewrite H in E.
  rewrite all_accepted_exec, flat_map_obs, E, firstn_app_len. apply listN_eqb_eq. reflexivity.
Qed.
