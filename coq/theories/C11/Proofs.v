(** C11 — proofs.  One master lemma ([step_ref]): on well-formed port states every
    call of the port model is accepted by the reference acceptor of Model.v and
    moves the reference (two plain lists) in lockstep.  Boundedness, FIFO order, size
    reports and the exactness of the notifications are then proved on the reference
    and transferred. *)
From Akita Require Import Lib.Base Lib.Fifo Lib.Port C11.Model C11.Exec.

Definition ref_of (p : port) : ref :=
  mk_ref (p_name p) (p_has_comp p) (b_cap (p_in p)) (b_cap (p_out p))
         (content (p_in p)) (content (p_out p)).

Definition is_some {A} (o : option A) : bool := match o with Some _ => true | None => false end.

Lemma msg_eqb_refl m : msg_eqb m m = true.
Proof. apply msg_eqb_eq. reflexivity. Qed.
Lemma omsg_eqb_refl m : omsg_eqb m m = true.
Proof. apply omsg_eqb_eq. reflexivity. Qed.
Lemma out_eqb_refl x : out_eqb x x = true.
Proof.
  destruct x; cbn [out_eqb]; try reflexivity.
  - destruct b; reflexivity.
  - apply Z.eqb_refl.
  - apply omsg_eqb_refl.
Qed.
Lemma notif_eqb_eq a b : notif_eqb a b = true <-> a = b.
Proof. destruct a, b; cbn; split; intro H; try reflexivity; try discriminate. Qed.
Lemma nlist_eqb_eq a b : nlist_eqb a b = true <-> a = b.
Proof. apply list_eqb_eq. apply notif_eqb_eq. Qed.
Lemma nlist_eqb_refl a : nlist_eqb a a = true.
Proof. apply nlist_eqb_eq. reflexivity. Qed.
Lemma out_eqb_true a b : out_eqb a b = true -> a = b.
Proof.
  destruct a, b; cbn [out_eqb]; intro H; try discriminate; try reflexivity.
  - apply Bool.eqb_prop in H. subst. reflexivity.
  - apply Z.eqb_eq in H. subst. reflexivity.
  - apply omsg_eqb_eq in H. subst. reflexivity.
Qed.

Lemma lenZ_size (b : buf (A := option msg)) : lenZ (content b) = size b.
Proof. reflexivity. Qed.

Lemma isnil_size (b : buf (A := option msg)) : isnil (content b) = (size b =? 0)%Z.
Proof. rewrite size_zero_nil. destruct (content b); reflexivity. Qed.

Lemma port_eta p : set_in p (p_in p) = p /\ set_out p (p_out p) = p.
Proof. destruct p; split; reflexivity. Qed.

(** ------------------------------------------------------------------ *)
(** Well-formedness is preserved by every call. *)
Lemma step_ok p o x ns q : port_ok p -> step p o = (x, ns, Some q) -> port_ok q.
Proof.
  intros Hp H. unfold step, step_gen in H.
  destruct o; try (injection H as _ _ <-; exact Hp).
  - destruct (send m p) as [[] p' ns'| |] eqn:E; cbn [of_unit] in H; try discriminate.
    + injection H as _ _ <-. eapply send_ok; eauto.
    + injection H as _ _ <-. exact Hp.
  - destruct (deliver m p) as [[] p' ns'| |] eqn:E; cbn [of_unit] in H; try discriminate.
    + injection H as _ _ <-. eapply deliver_ok; eauto.
    + injection H as _ _ <-. exact Hp.
  - destruct (retrieve_incoming p) as [v p' ns'| |] eqn:E; cbn [of_msg] in H; try discriminate.
    + injection H as _ _ <-. eapply retrieve_incoming_ok; eauto.
    + injection H as _ _ <-. exact Hp.
  - destruct (retrieve_outgoing p) as [v p' ns'| |] eqn:E; cbn [of_msg] in H; try discriminate.
    + injection H as _ _ <-. eapply retrieve_outgoing_ok; eauto.
    + injection H as _ _ <-. exact Hp.
Qed.

Lemma ref_bounded_of p : port_ok p -> ref_bounded (ref_of p) = true.
Proof.
  intros [Hi [Ho _]]. unfold ref_bounded, ref_of, bounded, lenZ in *. cbn [r_in r_out r_icap r_ocap]. lia.
Qed.

(** ------------------------------------------------------------------ *)
(** The master lemma: the port model returns, notifies and moves exactly as the
    reference demands. *)
Lemma step_expect p o : port_ok p ->
  ref_expect (ref_of p) o =
    (fst (fst (step p o)), snd (fst (step p o)),
     match snd (step p o) with Some q => ref_of q | None => ref_of p end,
     is_some (snd (step p o))).
Proof.
  intros [Hi [Ho Hn]]. unfold step, step_gen.
  destruct o as [|m| |m| | | | | | |]; cbn [ref_expect].
  - (* CanSend *) reflexivity.
  - (* Send *)
    unfold send. destruct m as [mm|]; [|reflexivity].
    change (valid_ref (ref_of p) (Some mm)) with (msg_valid p mm).
    destruct (msg_valid p mm) eqn:Ev; cbn [negb]; [|reflexivity].
    cbn [ref_of r_out r_ocap]. rewrite lenZ_size, can_push_leb, push_unfold.
    destruct (b_cap (p_out p) <=? size (p_out p))%Z eqn:Ef; [reflexivity|].
    cbn [of_unit fst snd is_some]. rewrite isnil_size.
    destruct (size (p_out p) =? 0)%Z; reflexivity.
  - (* CanDeliver *) reflexivity.
  - (* Deliver *)
    unfold deliver. cbn [ref_of r_in r_icap r_comp]. rewrite lenZ_size, can_push_leb, push_unfold.
    destruct (b_cap (p_in p) <=? size (p_in p))%Z eqn:Ef; [reflexivity|].
    cbn [of_unit fst snd is_some]. rewrite isnil_size.
    rewrite (andb_comm (p_has_comp p)).
    destruct ((size (p_in p) =? 0)%Z && p_has_comp p); reflexivity.
  - (* RetrieveIncoming *)
    unfold retrieve_incoming. rewrite size_zero_nil. cbn [ref_of r_in r_icap].
    destruct (content (p_in p)) as [|v rest] eqn:Ec.
    + reflexivity.
    + rewrite (pop_cons nilmsg _ _ _ Ec). cbn [of_msg fst snd is_some].
      change (size (with_elems (p_in p) (Some rest))) with (lenZ rest).
      change (b_cap (with_elems (p_in p) (Some rest))) with (b_cap (p_in p)).
      assert (Hl : lenZ (v :: rest) = (lenZ rest + 1)%Z) by (unfold lenZ; cbn [length]; lia).
      rewrite Hl.
      replace ((b_cap (p_in p) <=? lenZ rest + 1)%Z && (lenZ rest <? b_cap (p_in p))%Z)
        with (lenZ rest =? b_cap (p_in p) - 1)%Z by lia.
      reflexivity.
  - (* RetrieveOutgoing *)
    unfold retrieve_outgoing. cbn [ref_of r_out r_ocap r_comp].
    destruct (content (p_out p)) as [|v rest] eqn:Ec.
    + unfold pop. rewrite Ec. cbn [of_msg fst snd is_some].
      destruct (port_eta p) as [_ ->]. reflexivity.
    + rewrite (pop_cons nilmsg _ _ _ Ec).
      inversion Hn as [|? ? Hv _]; subst. destruct v as [mv|]; [|congruence].
      change (size (with_elems (p_out p) (Some rest))) with (lenZ rest).
      change (b_cap (with_elems (p_out p) (Some rest))) with (b_cap (p_out p)).
      assert (Hl : lenZ (Some mv :: rest) = (lenZ rest + 1)%Z) by (unfold lenZ; cbn [length]; lia).
      rewrite Hl.
      replace ((b_cap (p_out p) <=? lenZ rest + 1)%Z && (lenZ rest <? b_cap (p_out p))%Z)
        with (lenZ rest =? b_cap (p_out p) - 1)%Z by lia.
      destruct (lenZ rest =? b_cap (p_out p) - 1)%Z; cbn [andb].
      * destruct (p_has_comp p) eqn:Ehc; cbn [negb of_msg fst snd is_some]; [|reflexivity].
        unfold ref_of, set_out, set_ref_out. cbn. rewrite Ehc. reflexivity.
      * reflexivity.
  - unfold peek_incoming, peek. cbn [fst snd is_some ref_of r_in].
    destruct (content (p_in p)); reflexivity.
  - unfold peek_outgoing, peek. cbn [fst snd is_some ref_of r_out].
    destruct (content (p_out p)); reflexivity.
  - reflexivity.
  - reflexivity.
  - reflexivity.
Qed.

Lemma step_ref p o : port_ok p ->
  ref_step (ref_of p) o (fst (fst (step p o))) (snd (fst (step p o))) =
    Some (match snd (step p o) with Some q => ref_of q | None => ref_of p end,
          is_some (snd (step p o))).
Proof.
  intro Hp. unfold ref_step. rewrite (step_expect p o Hp).
  rewrite out_eqb_refl, nlist_eqb_refl. reflexivity.
Qed.

(** ------------------------------------------------------------------ *)
(** Every history of the model is accepted by the reference acceptor. *)
Definition op_of (t : op * out * list notif) : op := fst (fst t).
Definition obs_of (t : op * out * list notif) : out * list notif := (snd (fst t), snd t).

Lemma run_cons p o r :
  run p (o :: r) =
    (fst (fst (step p o)), snd (fst (step p o))) ::
    match snd (step p o) with Some q => run q r | None => [] end.
Proof.
  unfold run, step. cbn [run_gen]. destruct (step_gen retrieve_incoming p o) as [[x ns] q]. reflexivity.
Qed.

Lemma accepts_of_check (t : list (op * out * list notif)) : forall p, port_ok p ->
  list_eqb obs_eqb (run p (map op_of t)) (map obs_of t) = true ->
  accepts (ref_of p) t = true.
Proof.
  induction t as [|[[o x] ns] rest IH]; intros p Hp H; [reflexivity|].
  cbn [map] in H. change (op_of (o, x, ns)) with o in H. change (obs_of (o, x, ns)) with (x, ns) in H.
  rewrite run_cons in H. cbn [list_eqb] in H.
  apply andb_true_iff in H. destruct H as [Hobs Htail].
  unfold obs_eqb in Hobs. cbn [fst snd] in Hobs. apply andb_true_iff in Hobs.
  destruct Hobs as [Hx Hns]. apply out_eqb_true in Hx. apply nlist_eqb_eq in Hns.
  cbn [accepts]. rewrite <- Hx, <- Hns. rewrite (step_ref p o Hp).
  destruct (snd (step p o)) as [q|] eqn:Eq; cbn [is_some].
  - assert (Hq : port_ok q).
    { eapply step_ok; [exact Hp|]. rewrite (surjective_pairing (step p o)), (surjective_pairing (fst (step p o))), Eq. reflexivity. }
    rewrite (ref_bounded_of q Hq). cbn [andb]. apply IH; assumption.
  - rewrite (ref_bounded_of p Hp). cbn [andb].
    destruct rest; [reflexivity|discriminate].
Qed.

Lemma check_implies_holds c : check_case c = true -> holds_on c = true.
Proof.
  unfold check_case, holds_on. intro H.
  change (mk_ref (c_name c) (c_comp c) (c_icap c) (c_ocap c) [] [])
    with (ref_of (new_port (c_name c) (c_comp c) (c_icap c) (c_ocap c))).
  apply accepts_of_check; [apply new_port_ok|exact H].
Qed.

(** ------------------------------------------------------------------ *)
(** States reached by a history. *)
Lemma final_ok h : forall p q, port_ok p -> final p h = Some q -> port_ok q.
Proof.
  induction h as [|o r IH]; intros p q Hp H; cbn [final] in H; [injection H as <-; exact Hp|].
  destruct (snd (step p o)) as [p'|] eqn:E; [|discriminate].
  eapply IH; [|exact H]. eapply step_ok; [exact Hp|].
  rewrite (surjective_pairing (step p o)), (surjective_pairing (fst (step p o))), E. reflexivity.
Qed.

Definition statics (r : ref) := (r_name r, r_comp r, r_icap r, r_ocap r).

Lemma ref_expect_statics r o : statics (snd (fst (ref_expect r o))) = statics r.
Proof.
  destruct o as [|m| |m| | | | | | |]; cbn [ref_expect]; try reflexivity.
  - destruct (negb (valid_ref r m)); [reflexivity|].
    destruct (r_ocap r <=? lenZ (r_out r))%Z; reflexivity.
  - destruct (r_icap r <=? lenZ (r_in r))%Z; reflexivity.
  - destruct (r_in r); reflexivity.
  - destruct (r_out r) as [|v rest]; [reflexivity|].
    destruct ((r_ocap r <=? lenZ (v :: rest))%Z && (lenZ rest <? r_ocap r)%Z && negb (r_comp r)); reflexivity.
Qed.

Lemma step_statics p o q : port_ok p -> snd (step p o) = Some q -> statics (ref_of q) = statics (ref_of p).
Proof.
  intros Hp E. pose proof (ref_expect_statics (ref_of p) o) as H.
  rewrite (step_expect p o Hp), E in H. exact H.
Qed.

Lemma final_statics h : forall p q, port_ok p -> final p h = Some q -> statics (ref_of q) = statics (ref_of p).
Proof.
  induction h as [|o r IH]; intros p q Hp H; cbn [final] in H; [injection H as <-; reflexivity|].
  destruct (snd (step p o)) as [p'|] eqn:E; [|discriminate].
  assert (Hp' : port_ok p').
  { eapply step_ok; [exact Hp|].
    rewrite (surjective_pairing (step p o)), (surjective_pairing (fst (step p o))), E. reflexivity. }
  rewrite (IH p' q Hp' H). eapply step_statics; eauto.
Qed.

(** ------------------------------------------------------------------ *)
(** Notifications are exactly the edges, on the reference. *)
Definition in_empty (r : ref) : bool := isnil (r_in r).
Definition out_empty (r : ref) : bool := isnil (r_out r).
Definition in_full (r : ref) : bool := (r_icap r <=? lenZ (r_in r))%Z.
Definition out_full (r : ref) : bool := (r_ocap r <=? lenZ (r_out r))%Z.
Definition is_avail (o : op) : bool := match o with ONotifyAvailable => true | _ => false end.

(** the callbacks a transition r -o-> r' must make, from the two states alone *)
Definition edges (r : ref) (o : op) (r' : ref) : list notif :=
  (if in_empty r && negb (in_empty r') && r_comp r then [NRecv] else []) ++
  (if in_full r && negb (in_full r') then [NAvailable] else []) ++
  (if out_empty r && negb (out_empty r') then [NSend] else []) ++
  (if (out_full r && negb (out_full r')) || (is_avail o && r_comp r) then [NPortFree] else []).

Lemma x_negb_x b : b && negb b = false.
Proof. destruct b; reflexivity. Qed.

Lemma edges_same r o : is_avail o = false -> edges r o r = [].
Proof. intro H. unfold edges. rewrite !x_negb_x, H. reflexivity. Qed.

Lemma isnil_app1 {A} (l : list A) x : isnil (l ++ [x]) = false.
Proof. destruct l; reflexivity. Qed.

Lemma lenZ_app1 {A} (l : list A) x : lenZ (l ++ [x]) = (lenZ l + 1)%Z.
Proof. unfold lenZ. rewrite app_length. cbn [length]. lia. Qed.

Lemma lenZ_cons {A} (l : list A) x : lenZ (x :: l) = (lenZ l + 1)%Z.
Proof. unfold lenZ. cbn [length]. lia. Qed.

Lemma lenZ_nonneg {A} (l : list A) : (0 <= lenZ l)%Z.
Proof. unfold lenZ. lia. Qed.

Lemma isnil_lenZ {A} (l : list A) : isnil l = (lenZ l =? 0)%Z.
Proof. destruct l; [reflexivity|]. rewrite lenZ_cons. pose proof (lenZ_nonneg l). cbn [isnil]. lia. Qed.

Ltac boolcases :=
  repeat match goal with
         | |- context [if ?c then _ else _] => destruct c eqn:?
         end; try reflexivity; try lia.

Lemma expect_edges r o :
  let '(x, ns, r', go) := ref_expect r o in go = true -> ns = edges r o r'.
Proof.
  destruct o as [|m| |m| | | | | | |]; cbn [ref_expect];
    try (intros _; rewrite edges_same by reflexivity; reflexivity).
  - (* Send *)
    destruct (negb (valid_ref r m)); [discriminate|].
    destruct (r_ocap r <=? lenZ (r_out r))%Z eqn:Ef; intros _; [rewrite edges_same by reflexivity; reflexivity|].
    unfold edges, in_empty, out_empty, in_full, out_full, set_ref_out.
    cbn [r_in r_out r_icap r_ocap r_comp is_avail]. rewrite !x_negb_x, isnil_app1, lenZ_app1, Ef.
    cbn [andb orb negb app]. destruct (isnil (r_out r)); reflexivity.
  - (* Deliver *)
    destruct (r_icap r <=? lenZ (r_in r))%Z eqn:Ef; intros _; [rewrite edges_same by reflexivity; reflexivity|].
    unfold edges, in_empty, out_empty, in_full, out_full, set_ref_in.
    cbn [r_in r_out r_icap r_ocap r_comp is_avail]. rewrite !x_negb_x, isnil_app1, lenZ_app1, Ef.
    cbn [andb orb negb app]. destruct (isnil (r_in r)), (r_comp r); reflexivity.
  - (* RetrieveIn *)
    destruct (r_in r) as [|v rest] eqn:E; intros _.
    + rewrite edges_same by reflexivity. reflexivity.
    + unfold edges, in_empty, out_empty, in_full, out_full, set_ref_in.
      cbn [r_in r_out r_icap r_ocap r_comp is_avail]. rewrite E, !x_negb_x.
      cbn [isnil andb orb app]. rewrite Z.ltb_antisym. rewrite app_nil_r. reflexivity.
  - (* RetrieveOut *)
    destruct (r_out r) as [|v rest] eqn:E.
    + intros _. rewrite edges_same by reflexivity. reflexivity.
    + destruct ((r_ocap r <=? lenZ (v :: rest))%Z && (lenZ rest <? r_ocap r)%Z) eqn:Ee;
        destruct (r_comp r) eqn:Ec; cbn [andb negb]; try discriminate; intros _;
        unfold edges, in_empty, out_empty, in_full, out_full, set_ref_out;
        cbn [r_in r_out r_icap r_ocap r_comp is_avail]; rewrite E, !x_negb_x, ?Ec;
        cbn [isnil andb orb app]; rewrite Z.ltb_antisym in Ee; rewrite Ee; reflexivity.
  - (* NotifyAvailable *)
    intros _. unfold edges. rewrite !x_negb_x. cbn [is_avail andb orb app]. reflexivity.
Qed.

(** transferred to the port model *)
Lemma step_notifs_exact p o x ns q : port_ok p -> step p o = (x, ns, Some q) ->
  ns = edges (ref_of p) o (ref_of q).
Proof.
  intros Hp H. pose proof (expect_edges (ref_of p) o) as He.
  rewrite (step_expect p o Hp), H in He. cbn [fst snd is_some] in He. apply He. reflexivity.
Qed.

Lemma in_single (n m : notif) (b : bool) : In n (if b then [m] else []) <-> b = true /\ n = m.
Proof.
  destruct b; cbn; split; intro H.
  - destruct H as [H|[]]; auto.
  - destruct H as [_ H]. auto.
  - destruct H.
  - destruct H; discriminate.
Qed.

Ltac edge_tac := unfold edges; rewrite !in_app_iff, !in_single.

Lemma edges_recv r o r' :
  In NRecv (edges r o r') <-> in_empty r = true /\ in_empty r' = false /\ r_comp r = true.
Proof.
  edge_tac. destruct (in_empty r), (in_empty r'), (r_comp r); cbn [andb negb];
    intuition (try discriminate; try congruence).
Qed.

Lemma edges_available r o r' :
  In NAvailable (edges r o r') <-> in_full r = true /\ in_full r' = false.
Proof.
  edge_tac. destruct (in_full r), (in_full r'); cbn [andb negb];
    intuition (try discriminate; try congruence).
Qed.

Lemma edges_send r o r' :
  In NSend (edges r o r') <-> out_empty r = true /\ out_empty r' = false.
Proof.
  edge_tac. destruct (out_empty r), (out_empty r'); cbn [andb negb];
    intuition (try discriminate; try congruence).
Qed.

Lemma edges_portfree r o r' :
  In NPortFree (edges r o r') <->
    (out_full r = true /\ out_full r' = false) \/ (o = ONotifyAvailable /\ r_comp r = true).
Proof.
  edge_tac. destruct (out_full r), (out_full r'), (r_comp r), o; cbn [andb negb orb is_avail];
    intuition (try discriminate; try congruence).
Qed.

Lemma edges_nodup r o r' : NoDup (edges r o r').
Proof.
  unfold edges.
  destruct (in_empty r && negb (in_empty r') && r_comp r),
           (in_full r && negb (in_full r')),
           (out_empty r && negb (out_empty r')),
           (out_full r && negb (out_full r') || is_avail o && r_comp r); cbn [app];
    repeat constructor; cbn; intuition discriminate.
Qed.

(** ------------------------------------------------------------------ *)
(** History level: the callbacks of a whole run are the edges along its trajectory. *)
Fixpoint run_edges (p : port) (h : list op) : list (list notif) :=
  match h with
  | [] => []
  | o :: r =>
      match snd (step p o) with
      | Some q => edges (ref_of p) o (ref_of q) :: run_edges q r
      | None => [[]]
      end
  end.

Lemma expect_locked r o :
  let '(x, ns, r', go) := ref_expect r o in go = false -> ns = [].
Proof.
  destruct o as [|m| |m| | | | | | |]; cbn [ref_expect]; try discriminate.
  - destruct (negb (valid_ref r m)); [reflexivity|].
    destruct (r_ocap r <=? lenZ (r_out r))%Z; discriminate.
  - destruct (r_icap r <=? lenZ (r_in r))%Z; discriminate.
  - destruct (r_in r); discriminate.
  - destruct (r_out r) as [|v rest]; [discriminate|].
    destruct ((r_ocap r <=? lenZ (v :: rest))%Z && (lenZ rest <? r_ocap r)%Z && negb (r_comp r));
      [reflexivity|discriminate].
Qed.

Lemma step_some p o q : snd (step p o) = Some q ->
  step p o = (fst (fst (step p o)), snd (fst (step p o)), Some q).
Proof.
  intro E. rewrite (surjective_pairing (step p o)) at 1.
  rewrite (surjective_pairing (fst (step p o))) at 1. rewrite E. reflexivity.
Qed.

Lemma run_notifs_exact h : forall p, port_ok p -> map snd (run p h) = run_edges p h.
Proof.
  induction h as [|o r IH]; intros p Hp; [reflexivity|].
  rewrite run_cons. cbn [map snd run_edges].
  destruct (snd (step p o)) as [q|] eqn:E.
  - pose proof (step_some p o q E) as Hs.
    rewrite (step_notifs_exact p o _ _ q Hp Hs) at 1.
    rewrite IH; [reflexivity|]. eapply step_ok; eauto.
  - pose proof (expect_locked (ref_of p) o) as Hl.
    rewrite (step_expect p o Hp), E in Hl. cbn [is_some] in Hl. rewrite Hl; reflexivity.
Qed.

(** ------------------------------------------------------------------ *)
(** FIFO order on traces, for each of the two buffers. *)
Definition put_in (p : port) (o : op) : list omsg :=
  match o with ODeliver m => if can_deliver p then [m] else [] | _ => [] end.
Definition got_in (p : port) (o : op) : list omsg :=
  match o with ORetrieveIn => firstn 1 (content (p_in p)) | _ => [] end.
Definition put_out (p : port) (o : op) : list omsg :=
  match o with OSend m => if valid_ref (ref_of p) m && can_send p then [m] else [] | _ => [] end.
Definition got_out (p : port) (o : op) : list omsg :=
  match o with
  | ORetrieveOut => if is_some (snd (step p o)) then firstn 1 (content (p_out p)) else []
  | _ => []
  end.

Section Along.
Variable f : port -> op -> list omsg.
Fixpoint along (p : port) (h : list op) : list omsg :=
  match h with
  | [] => []
  | o :: r => f p o ++ match snd (step p o) with Some q => along q r | None => [] end
  end.
End Along.

(** the last state in which the port was still usable *)
Fixpoint last_port (p : port) (h : list op) : port :=
  match h with
  | [] => p
  | o :: r => match snd (step p o) with Some q => last_port q r | None => p end
  end.

Lemma step_next p o q : port_ok p -> snd (step p o) = Some q ->
  ref_of q = snd (fst (ref_expect (ref_of p) o)).
Proof. intros Hp E. rewrite (step_expect p o Hp), E. reflexivity. Qed.

Lemma step_go p o : port_ok p -> is_some (snd (step p o)) = snd (ref_expect (ref_of p) o).
Proof. intros Hp. rewrite (step_expect p o Hp). reflexivity. Qed.

Lemma can_deliver_ref p : can_deliver p = negb (r_icap (ref_of p) <=? lenZ (r_in (ref_of p)))%Z.
Proof. unfold can_deliver, can_push. cbn [ref_of r_icap r_in]. rewrite lenZ_size. lia. Qed.

Lemma can_send_ref p : can_send p = negb (r_ocap (ref_of p) <=? lenZ (r_out (ref_of p)))%Z.
Proof. unfold can_send, can_push. cbn [ref_of r_ocap r_out]. rewrite lenZ_size. lia. Qed.

Lemma step_in_law p o q : port_ok p -> snd (step p o) = Some q ->
  content (p_in p) ++ put_in p o = got_in p o ++ content (p_in q).
Proof.
  intros Hp E. change (content (p_in q)) with (r_in (ref_of q)).
  rewrite (step_next p o q Hp E). unfold put_in, got_in. rewrite can_deliver_ref.
  change (content (p_in p)) with (r_in (ref_of p)).
  generalize (ref_of p). intro r.
  destruct o as [|m| |m| | | | | | |]; cbn [ref_expect]; try (cbn [fst snd app]; rewrite app_nil_r; reflexivity).
  - destruct (negb (valid_ref r m)); [cbn; rewrite app_nil_r; reflexivity|].
    destruct (r_ocap r <=? lenZ (r_out r))%Z; cbn; rewrite app_nil_r; reflexivity.
  - destruct (r_icap r <=? lenZ (r_in r))%Z; cbn [negb fst snd set_ref_in r_in app]; [rewrite app_nil_r|]; reflexivity.
  - destruct (r_in r) as [|v rest] eqn:Er; cbn; rewrite ?Er, ?app_nil_r; reflexivity.
  - destruct (r_out r) as [|v rest]; [cbn; rewrite app_nil_r; reflexivity|].
    destruct ((r_ocap r <=? lenZ (v :: rest))%Z && (lenZ rest <? r_ocap r)%Z && negb (r_comp r));
      cbn; rewrite app_nil_r; reflexivity.
Qed.

Lemma step_out_law p o q : port_ok p -> snd (step p o) = Some q ->
  content (p_out p) ++ put_out p o = got_out p o ++ content (p_out q).
Proof.
  intros Hp E. change (content (p_out q)) with (r_out (ref_of q)).
  rewrite (step_next p o q Hp E). unfold put_out, got_out. rewrite E, can_send_ref. cbn [is_some].
  change (content (p_out p)) with (r_out (ref_of p)).
  pose proof (step_go p o Hp) as Hg. rewrite E in Hg. cbn [is_some] in Hg.
  revert Hg. generalize (ref_of p). intros r Hg.
  destruct o as [|m| |m| | | | | | |]; cbn [ref_expect]; try (cbn [fst snd app]; rewrite app_nil_r; reflexivity).
  - destruct (valid_ref r m); cbn [negb andb]; [|cbn; rewrite app_nil_r; reflexivity].
    destruct (r_ocap r <=? lenZ (r_out r))%Z; cbn [negb fst snd set_ref_out r_out app]; [rewrite app_nil_r|]; reflexivity.
  - destruct (r_icap r <=? lenZ (r_in r))%Z; cbn; rewrite app_nil_r; reflexivity.
  - destruct (r_in r) as [|v rest]; cbn; rewrite app_nil_r; reflexivity.
  - cbn [ref_expect] in Hg.
    destruct (r_out r) as [|v rest] eqn:Er; [cbn; rewrite ?Er, ?app_nil_r; reflexivity|].
    destruct ((r_ocap r <=? lenZ (v :: rest))%Z && (lenZ rest <? r_ocap r)%Z && negb (r_comp r));
      [cbn in Hg; discriminate|]. cbn. rewrite ?app_nil_r. reflexivity.
Qed.

Lemma step_locked_puts p o : port_ok p -> snd (step p o) = None ->
  put_in p o = [] /\ got_in p o = [] /\ put_out p o = [] /\ got_out p o = [].
Proof.
  intros Hp E. pose proof (step_go p o Hp) as Hg. rewrite E in Hg. cbn [is_some] in Hg.
  unfold put_in, got_in, put_out, got_out. rewrite E, can_send_ref. cbn [is_some].
  revert Hg. generalize (ref_of p). intros r Hg.
  destruct o as [|m| |m| | | | | | |]; cbn [ref_expect] in Hg; try discriminate; try (repeat split; reflexivity).
  - destruct (valid_ref r m); cbn [negb andb] in *; [|repeat split; reflexivity].
    destruct (r_ocap r <=? lenZ (r_out r))%Z; cbn in Hg; [|discriminate]. repeat split; reflexivity.
  - destruct (r_icap r <=? lenZ (r_in r))%Z; discriminate.
  - destruct (r_in r); discriminate.
Qed.

Lemma fifo_in h : forall p, port_ok p ->
  content (p_in p) ++ along put_in p h = along got_in p h ++ content (p_in (last_port p h)).
Proof.
  induction h as [|o r IH]; intros p Hp; cbn [along last_port]; [rewrite app_nil_r; reflexivity|].
  destruct (snd (step p o)) as [q|] eqn:E.
  - assert (Hq : port_ok q) by (eapply step_ok; [exact Hp|apply step_some; exact E]).
    rewrite app_assoc, (step_in_law p o q Hp E), <- !app_assoc, (IH q Hq). reflexivity.
  - destruct (step_locked_puts p o Hp E) as [-> [-> _]]. cbn [app]. rewrite app_nil_r. reflexivity.
Qed.

Lemma fifo_out h : forall p, port_ok p ->
  content (p_out p) ++ along put_out p h = along got_out p h ++ content (p_out (last_port p h)).
Proof.
  induction h as [|o r IH]; intros p Hp; cbn [along last_port]; [rewrite app_nil_r; reflexivity|].
  destruct (snd (step p o)) as [q|] eqn:E.
  - assert (Hq : port_ok q) by (eapply step_ok; [exact Hp|apply step_some; exact E]).
    rewrite app_assoc, (step_out_law p o q Hp E), <- !app_assoc, (IH q Hq). reflexivity.
  - destruct (step_locked_puts p o Hp E) as [_ [_ [-> ->]]]. cbn [app]. rewrite app_nil_r. reflexivity.
Qed.

(** ------------------------------------------------------------------ *)
(** Regression: RetrieveIncoming before the fix. A nil message at the head of a full
    capacity-1 incoming buffer is removed (full -> not full) without NotifyAvailable. *)
Lemma retrieve_incoming_old_misses_edge :
  let p0 := new_port 1 true 1 1 in
  let h := [ODeliver None; ONumIn; OCanDeliver; ORetrieveIn; ONumIn; OCanDeliver] in
  run_gen retrieve_incoming_old p0 h =
    [(RUnit, [NRecv]); (RInt 1, []); (RBool false, []); (RMsg None, []); (RInt 0, []); (RBool true, [])] /\
  run p0 h =
    [(RUnit, [NRecv]); (RInt 1, []); (RBool false, []); (RMsg None, [NAvailable]); (RInt 0, []); (RBool true, [])].
Proof. vm_compute. split; reflexivity. Qed.
