(** C11 — case evaluators for the correspondence check. *)
From Akita Require Import Lib.Base Lib.Fifo Lib.Port C11.Model.

(** One executed history on a real port: NewPort arguments (name number, owner
    present?, capacities) and, per call, the returned value and the callbacks the
    stub owner / stub connection received during the call, in order. *)
Record case := mk_case {
  c_name : N; c_comp : bool; c_icap : Z; c_ocap : Z;
  c_trace : list (op * out * list notif) }.

Definition obs_eqb (a b : out * list notif) : bool :=
  out_eqb (fst a) (fst b) && nlist_eqb (snd a) (snd b).

(** model = implementation: same return value and same callbacks for every call,
    and the model's history ends (port left locked) exactly where the real one did *)
Definition check_case (c : case) : bool :=
  list_eqb obs_eqb
    (run (new_port (c_name c) (c_comp c) (c_icap c) (c_ocap c)) (map (fun t => fst (fst t)) (c_trace c)))
    (map (fun t => (snd (fst t), snd t)) (c_trace c)).

(** the property on the observed trace (bounded, FIFO, sizes, notifications iff edges) *)
Definition holds_on (c : case) : bool :=
  accepts (mk_ref (c_name c) (c_comp c) (c_icap c) (c_ocap c) [] []) (c_trace c).
