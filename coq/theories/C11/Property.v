(** C11 — ports are bounded FIFO channels with accurate capacity and notifications.
    Property theorems only.  [step p o] is one call on the model of
    [messaging.defaultPort] ([Lib/Port.v]): returned value, callbacks made (in order)
    and the next state ([None] when the call panicked holding the port mutex, after
    which no call can complete).  [final]/[run] iterate it over a history. *)
From Akita Require Import Lib.Base Lib.Fifo Lib.Port C11.Model C11.Exec C11.Proofs.

(** Every state reachable from NewPort by any history of the 11 operations is
    well formed (both buffers within capacity, no nil in the outgoing buffer) — the
    hypothesis [port_ok] of the theorems below is therefore always met. *)
Theorem c11_reachable_well_formed : forall name comp icap ocap (h : list op) q,
  final (new_port name comp icap ocap) h = Some q -> port_ok q.
Proof. intros. eapply final_ok; [apply new_port_ok|eassumption]. Qed.
Print Assumptions c11_reachable_well_formed.

(** Bounded: after any history (hence at every point of every history) neither
    buffer holds more messages than its capacity, and name/capacities never change. *)
Theorem c11_bounded : forall name comp icap ocap (h : list op) q,
  final (new_port name comp icap ocap) h = Some q ->
  (lenZ (content (p_in q)) <= Z.max 0 icap)%Z /\ (lenZ (content (p_out q)) <= Z.max 0 ocap)%Z /\
  b_cap (p_in q) = icap /\ b_cap (p_out q) = ocap /\ p_name q = name /\ p_has_comp q = comp.
Proof.
  intros name comp icap ocap h q H.
  pose proof (final_ok h _ q (new_port_ok name comp icap ocap) H) as Hq.
  pose proof (final_statics h _ q (new_port_ok name comp icap ocap) H) as Hs.
  unfold statics, ref_of in Hs. cbn in Hs. injection Hs as Hn Hc Hi Ho.
  pose proof (ref_bounded_of q Hq) as Hb. unfold ref_bounded, ref_of in Hb. cbn [r_in r_out r_icap r_ocap] in Hb.
  rewrite Hi, Ho in Hb. repeat split; try assumption; lia.
Qed.
Print Assumptions c11_bounded.

(** FIFO: over any history, the messages accepted by Deliver (resp. Send), in order,
    are exactly the messages returned by RetrieveIncoming (resp. RetrieveOutgoing), in
    order, followed by what the buffer still holds: each message leaves once, unmodified,
    in the order it entered. *)
Theorem c11_fifo : forall name comp icap ocap (h : list op),
  let p0 := new_port name comp icap ocap in
  along put_in p0 h = along got_in p0 h ++ content (p_in (last_port p0 h)) /\
  along put_out p0 h = along got_out p0 h ++ content (p_out (last_port p0 h)).
Proof.
  intros name comp icap ocap h p0. split.
  - exact (fifo_in h p0 (new_port_ok name comp icap ocap)).
  - exact (fifo_out h p0 (new_port_ok name comp icap ocap)).
Qed.
Print Assumptions c11_fifo.

(** ... and from any well-formed state *)
Theorem c11_fifo_general : forall (h : list op) p, port_ok p ->
  content (p_in p) ++ along put_in p h = along got_in p h ++ content (p_in (last_port p h)) /\
  content (p_out p) ++ along put_out p h = along got_out p h ++ content (p_out (last_port p h)).
Proof. intros h p Hp. split; [apply fifo_in|apply fifo_out]; exact Hp. Qed.
Print Assumptions c11_fifo_general.

(** Reported sizes match the contents; CanSend / CanDeliver are "size < capacity";
    peeks return the oldest message (nil when empty); none of these changes the port
    or notifies anybody. *)
Theorem c11_sizes : forall p,
  step p ONumIn = (RInt (lenZ (content (p_in p))), [], Some p) /\
  step p ONumOut = (RInt (lenZ (content (p_out p))), [], Some p) /\
  step p OCanDeliver = (RBool (lenZ (content (p_in p)) <? b_cap (p_in p))%Z, [], Some p) /\
  step p OCanSend = (RBool (lenZ (content (p_out p)) <? b_cap (p_out p))%Z, [], Some p) /\
  step p OPeekIn = (RMsg (hd None (content (p_in p))), [], Some p) /\
  step p OPeekOut = (RMsg (hd None (content (p_out p))), [], Some p).
Proof.
  intro p. repeat split; try reflexivity.
Qed.
Print Assumptions c11_sizes.

(** Notifications, if and only if: for every call on every well-formed port,
    - the owner gets NotifyRecv      iff the incoming buffer went empty -> non-empty (and there is an owner);
    - the connection gets NotifyAvailable iff the incoming buffer went full -> not full;
    - the connection gets NotifySend iff the outgoing buffer went empty -> non-empty;
    - the owner gets NotifyPortFree  iff the outgoing buffer went full -> not full, or the call
      is the connection's own NotifyAvailable (forwarded to an existing owner);
    and no callback is made twice.  ("full" = size >= capacity, so capacity 0 never has an edge.) *)
Theorem c11_notify_iff : forall p o x ns q, port_ok p -> step p o = (x, ns, Some q) ->
  let r := ref_of p in let r' := ref_of q in
  (In NRecv ns <-> in_empty r = true /\ in_empty r' = false /\ p_has_comp p = true) /\
  (In NAvailable ns <-> in_full r = true /\ in_full r' = false) /\
  (In NSend ns <-> out_empty r = true /\ out_empty r' = false) /\
  (In NPortFree ns <->
     (out_full r = true /\ out_full r' = false) \/ (o = ONotifyAvailable /\ p_has_comp p = true)) /\
  NoDup ns.
Proof.
  intros p o x ns q Hp H r r'. rewrite (step_notifs_exact p o x ns q Hp H). fold r r'.
  split; [apply edges_recv|]. split; [apply edges_available|]. split; [apply edges_send|].
  split; [apply edges_portfree|apply edges_nodup].
Qed.
Print Assumptions c11_notify_iff.

(** The same over whole histories: the callback log of a run is, call by call, the
    list of edges along the trajectory of buffer states; a call that leaves the port
    locked notifies nobody. *)
Theorem c11_notify_history : forall (h : list op) p, port_ok p ->
  map snd (run p h) = run_edges p h.
Proof. exact run_notifs_exact. Qed.
Print Assumptions c11_notify_history.

(** Regression lemma for the fix in /repo: before it, RetrieveIncoming took a nil
    popped value for "empty"; a nil message delivered into a capacity-1 buffer was
    removed (NumIncoming 1 -> 0, CanDeliver false -> true) with no NotifyAvailable. *)
Theorem c11_retrieve_incoming_old_refuted :
  let p0 := new_port 1 true 1 1 in
  let h := [ODeliver None; ONumIn; OCanDeliver; ORetrieveIn; ONumIn; OCanDeliver] in
  run_gen retrieve_incoming_old p0 h =
    [(RUnit, [NRecv]); (RInt 1, []); (RBool false, []); (RMsg None, []); (RInt 0, []); (RBool true, [])] /\
  run p0 h =
    [(RUnit, [NRecv]); (RInt 1, []); (RBool false, []); (RMsg None, [NAvailable]); (RInt 0, []); (RBool true, [])].
Proof. exact retrieve_incoming_old_misses_edge. Qed.
Print Assumptions c11_retrieve_incoming_old_refuted.

(** Link between the evaluators of the check: if the real port returned and notified,
    call by call, what the model computes, the observed trace is accepted by the
    reference acceptor (two plain lists; bounds, FIFO, sizes, notifications iff edges). *)
Theorem c11_model_agreement_implies_property : forall c,
  check_case c = true -> holds_on c = true.
Proof. exact check_implies_holds. Qed.
Print Assumptions c11_model_agreement_implies_property.

(** Non-vacuity: a 1/1 port run through all four edges. *)
Example c11_nonvacuous :
  let m := Some (mk_msg 7 1 2 9) in let d := Some (mk_msg 8 2 1 3) in
  let p0 := new_port 1 true 1 1 in
  port_ok p0 /\
  run p0 [OSend m; OSend m; ODeliver d; ORetrieveOut; ORetrieveIn; ORetrieveIn] =
    [(RUnit, [NSend]); (RPanic, []); (RUnit, [NRecv]); (RMsg m, [NPortFree]);
     (RMsg d, [NAvailable]); (RMsg None, [])].
Proof. split; [apply new_port_ok|vm_compute; reflexivity]. Qed.
