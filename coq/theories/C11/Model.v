(** C11 — one [messaging.defaultPort] driven by an arbitrary history of calls from
    its owner (CanSend, Send, RetrieveIncoming, PeekIncoming, NumIncoming ...) and
    from its connection (CanDeliver, Deliver, RetrieveOutgoing, PeekOutgoing,
    NotifyAvailable ...).  The port operations are in [Lib/Port.v]; this file fixes the
    call alphabet, the observable result of a call (return value + callbacks made)
    and the interpreter of a history.  A history ends when a call panics while
    holding the port mutex (every later call would block). *)
From Akita Require Import Lib.Base Lib.Fifo Lib.Port.

Inductive op :=
| OCanSend | OSend (m : omsg)
| OCanDeliver | ODeliver (m : omsg)
| ORetrieveIn | ORetrieveOut
| OPeekIn | OPeekOut
| ONumIn | ONumOut
| ONotifyAvailable.

Inductive out :=
| RUnit | RPanic | RPanicLocked
| RBool (b : bool) | RInt (i : Z) | RMsg (m : omsg).

Definition of_unit (p : port) (r : res unit) : out * list notif * option port :=
  match r with
  | Ok _ p' ns => (RUnit, ns, Some p')
  | PanicClean => (RPanic, [], Some p)
  | PanicLocked => (RPanicLocked, [], None)
  end.

Definition of_msg (p : port) (r : res omsg) : out * list notif * option port :=
  match r with
  | Ok v p' ns => (RMsg v, ns, Some p')
  | PanicClean => (RPanic, [], Some p)
  | PanicLocked => (RPanicLocked, [], None)
  end.

(** [ri] is the RetrieveIncoming variant (current code / code before the fix). *)
Definition step_gen (ri : port -> res omsg) (p : port) (o : op) : out * list notif * option port :=
  match o with
  | OCanSend => (RBool (can_send p), [], Some p)
  | OSend m => of_unit p (send m p)
  | OCanDeliver => (RBool (can_deliver p), [], Some p)
  | ODeliver m => of_unit p (deliver m p)
  | ORetrieveIn => of_msg p (ri p)
  | ORetrieveOut => of_msg p (retrieve_outgoing p)
  | OPeekIn => (RMsg (peek_incoming p), [], Some p)
  | OPeekOut => (RMsg (peek_outgoing p), [], Some p)
  | ONumIn => (RInt (num_incoming p), [], Some p)
  | ONumOut => (RInt (num_outgoing p), [], Some p)
  | ONotifyAvailable => of_unit p (notify_available p)
  end.

Definition step := step_gen retrieve_incoming.
Definition step_old := step_gen retrieve_incoming_old.

(** results of a history, call by call; the history stops at a locked panic *)
Fixpoint run_gen (ri : port -> res omsg) (p : port) (h : list op) : list (out * list notif) :=
  match h with
  | [] => []
  | o :: r =>
      let '(x, ns, p') := step_gen ri p o in
      (x, ns) :: match p' with Some q => run_gen ri q r | None => [] end
  end.

Definition run := run_gen retrieve_incoming.

(** the port after a history ([None]: left locked) *)
Fixpoint final (p : port) (h : list op) : option port :=
  match h with
  | [] => Some p
  | o :: r => match snd (step p o) with Some q => final q r | None => None end
  end.

(** ------------------------------------------------------------------ *)
(** The property as an acceptor over an observed trace, with no port model: two
    reference lists, the capacities, the port's name and whether it has an owner. *)
Record ref := mk_ref { r_name : N; r_comp : bool; r_icap : Z; r_ocap : Z;
                       r_in : list omsg; r_out : list omsg }.

Definition lenZ {A} (l : list A) : Z := Z.of_nat (length l).
Definition isnil {A} (l : list A) : bool := match l with [] => true | _ => false end.

Definition valid_ref (r : ref) (m : omsg) : bool :=
  match m with
  | None => false
  | Some mm => (m_src mm =? r_name r)%N && negb (m_dst mm =? 0)%N && negb (m_src mm =? m_dst mm)%N
  end.

Definition nlist_eqb := list_eqb notif_eqb.

Definition out_eqb (a b : out) : bool :=
  match a, b with
  | RUnit, RUnit | RPanic, RPanic | RPanicLocked, RPanicLocked => true
  | RBool x, RBool y => Bool.eqb x y
  | RInt x, RInt y => (x =? y)%Z
  | RMsg x, RMsg y => omsg_eqb x y
  | _, _ => false
  end.

(** What the property demands of one call, from the reference alone: the returned
    value, the callbacks, the next reference, and whether the history may continue
    (false after a call that leaves the port locked). *)
Definition set_ref_in (r : ref) (l : list omsg) : ref :=
  mk_ref (r_name r) (r_comp r) (r_icap r) (r_ocap r) l (r_out r).
Definition set_ref_out (r : ref) (l : list omsg) : ref :=
  mk_ref (r_name r) (r_comp r) (r_icap r) (r_ocap r) (r_in r) l.

Definition ref_expect (r : ref) (o : op) : out * list notif * ref * bool :=
  match o with
  | OCanSend => (RBool (lenZ (r_out r) <? r_ocap r)%Z, [], r, true)
  | OCanDeliver => (RBool (lenZ (r_in r) <? r_icap r)%Z, [], r, true)
  | ONumIn => (RInt (lenZ (r_in r)), [], r, true)
  | ONumOut => (RInt (lenZ (r_out r)), [], r, true)
  | OPeekIn => (RMsg (hd None (r_in r)), [], r, true)
  | OPeekOut => (RMsg (hd None (r_out r)), [], r, true)
  | OSend m =>
      if negb (valid_ref r m) then (RPanicLocked, [], r, false)
      else if (r_ocap r <=? lenZ (r_out r))%Z then (RPanic, [], r, true)   (* full: refused *)
      else (RUnit,
            (* connection notified iff the outgoing buffer went empty -> non-empty *)
            (if isnil (r_out r) then [NSend] else []),
            set_ref_out r (r_out r ++ [m]), true)
  | ODeliver m =>
      if (r_icap r <=? lenZ (r_in r))%Z then (RPanic, [], r, true)          (* full: refused *)
      else (RUnit,
            (* owner notified iff the incoming buffer went empty -> non-empty *)
            (if isnil (r_in r) && r_comp r then [NRecv] else []),
            set_ref_in r (r_in r ++ [m]), true)
  | ORetrieveIn =>
      match r_in r with
      | [] => (RMsg None, [], r, true)
      | v :: rest =>
          (* connection notified iff the incoming buffer went full -> not full *)
          let edge := (r_icap r <=? lenZ (r_in r))%Z && (lenZ rest <? r_icap r)%Z in
          (RMsg v, (if edge then [NAvailable] else []), set_ref_in r rest, true)
      end
  | ORetrieveOut =>
      match r_out r with
      | [] => (RMsg None, [], r, true)
      | v :: rest =>
          (* owner notified iff the outgoing buffer went full -> not full *)
          let edge := (r_ocap r <=? lenZ (r_out r))%Z && (lenZ rest <? r_ocap r)%Z in
          if edge && negb (r_comp r)
          then (RPanicLocked, [], r, false)                                 (* no owner to notify *)
          else (RMsg v, (if edge then [NPortFree] else []), set_ref_out r rest, true)
      end
  | ONotifyAvailable => (RUnit, (if r_comp r then [NPortFree] else []), r, true)
  end.

(** [Some (r', go)]: the observation is what the property demands; [None]: violated. *)
Definition ref_step (r : ref) (o : op) (x : out) (ns : list notif) : option (ref * bool) :=
  let '(x', ns', r', go) := ref_expect r o in
  if out_eqb x x' && nlist_eqb ns ns' then Some (r', go) else None.

Definition ref_bounded (r : ref) : bool :=
  (lenZ (r_in r) <=? Z.max 0 (r_icap r))%Z && (lenZ (r_out r) <=? Z.max 0 (r_ocap r))%Z.

Fixpoint accepts (r : ref) (t : list (op * out * list notif)) : bool :=
  match t with
  | [] => true
  | (o, x, ns) :: rest =>
      match ref_step r o x ns with
      | None => false
      | Some (r', go) => ref_bounded r' && (if go then accepts r' rest else isnil rest)
      end
  end.
