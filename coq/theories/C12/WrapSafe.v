(** C12 — clauses 1 and 2 without the representable-range hypothesis: tick times
    are multiples of the period and strictly increasing for EVERY history of
    64-bit engine times, including those in which ThisTick / NextTick wrap
    around 2^64 (the wrapped time is then before the current time, so the guard
    drops the request or engine.Schedule panics — never a stray tick event). *)
From Coq Require Import Sorting.Sorted.
From Akita Require Import Lib.Base C42.Model C42.Proofs C12.Model C12.Proofs.
Local Open Scope N_scope.

(** [run]: like [exec] but without the range check: stops (None) only on an
    illegal environment step or a Go panic *)
Fixpoint run (f : N) (s : st) (ops : list op) : option (st * list ev) :=
  match ops with
  | [] => Some (s, [])
  | o :: r =>
      match step f s o with
      | Ok s' e =>
          match run f s' r with
          | Some (s'', es) => Some (s'', e :: es)
          | None => None
          end
      | _ => None
      end
  end.

(** engine times are uint64 values *)
Fixpoint times64 (ops : list op) : Prop :=
  match ops with
  | [] => True
  | Adv t :: r => t < two64 /\ times64 r
  | _ :: r => times64 r
  end.

Section WithFreq.
Variable f p : N.
Hypothesis Hf : in_range f.
Hypothesis Hp : period f = Some p.

Let Hp1 : 1 <= p.
Proof.
  destruct (period_in_range f Hf) as [p' [Hp' [H1 _]]]. rewrite Hp in Hp'.
  inversion Hp'; subst. exact H1.
Qed.

Let Hpmax : p <= ps_per_second.
Proof.
  destruct (period_in_range f Hf) as [p' [Hp' [_ Hpe]]]. rewrite Hp in Hp'.
  assert (Hpe' : p = ps_per_second / f) by congruence.
  rewrite Hpe'. apply N.div_le_upper_bound; [unfold in_range in Hf; lia|].
  unfold in_range in Hf. nia.
Qed.

Notation lmgt := (least_multiple_gt p).
Notation lmge := (least_multiple_ge p).

Lemma w64_wrap_once m : two64 <= m -> m < 2 * two64 -> w64 m = m - two64.
Proof.
  intros H1 H2. unfold w64. symmetry. apply (N.mod_unique m two64 1 (m - two64)); lia.
Qed.

(** a ThisTick result that is not before [t] is the true (unwrapped) edge *)
Lemma this_tick_not_before t r : t < two64 -> this_tick f t = Some r -> t <= r ->
  r = lmge t /\ r mod p = 0 /\ r < two64.
Proof.
  intros Ht H Hle. destruct (lmge_spec p t Hp1) as [Hm [Hge [Hlt _]]].
  destruct (N.lt_ge_cases (lmge t) two64) as [Hfit|Hbig].
  - rewrite (this_tick_exact f t Hf Ht p Hp Hfit) in H. inversion H; subst. auto.
  - exfalso. unfold this_tick in H. rewrite Hp in H.
    destruct (p =? 0) eqn:E; [apply N.eqb_eq in E; lia|]. inversion H; subst r. clear H.
    assert (Hp0 : p <> 0) by lia.
    pose proof (N.div_mod t p Hp0) as D. pose proof (N.mod_lt t p Hp0) as L.
    unfold least_multiple_ge in *.
    destruct (t mod p =? 0) eqn:Em.
    + apply N.eqb_eq in Em.
      assert ((t + p - 1) / p = t / p).
      { symmetry. apply (N.div_unique (t + p - 1) p (t / p) (p - 1)); [lia|]. nia. }
      rewrite H in *. nia.
    + apply N.eqb_neq in Em.
      assert (Hq : (t + p - 1) / p = t / p + 1).
      { symmetry. apply (N.div_unique (t + p - 1) p (t / p + 1) (t mod p - 1)); [lia|]. nia. }
      rewrite Hq in *.
      assert (Hs : t / p + 1 < two64).
      { assert (t / p <= t) by (apply N.div_le_upper_bound; nia). 
        destruct (N.eq_dec p 1) as [->|]; [rewrite N.mod_1_r in Em; congruence|].
        assert (t / p * 2 <= t) by nia. unfold two64 in *. lia. }
      rewrite (w64_small _ Hs) in Hle.
      rewrite w64_wrap_once in Hle; [|lia|unfold ps_per_second, two64 in *; lia].
      unfold ps_per_second, two64 in *. lia.
Qed.

Lemma next_tick_not_before t r : t < two64 -> next_tick f t = Some r -> t <= r ->
  r = lmgt t /\ r mod p = 0 /\ t < r /\ r < two64.
Proof.
  intros Ht H Hle. destruct (lmgt_spec p t Hp1) as [Hm [Hgt [Hlt _]]].
  destruct (N.lt_ge_cases (lmgt t) two64) as [Hfit|Hbig].
  - rewrite (next_tick_exact f t Hf Ht p Hp Hfit) in H. inversion H; subst. auto.
  - exfalso. unfold next_tick in H. rewrite Hp in H.
    destruct (p =? 0) eqn:E; [apply N.eqb_eq in E; lia|]. inversion H; subst r. clear H.
    assert (Hp0 : p <> 0) by lia.
    unfold least_multiple_gt in *.
    assert (Hdle : t / p <= t) by (apply N.div_le_upper_bound; nia).
    destruct (N.lt_ge_cases (t / p + 1) two64) as [Hs|Hs].
    + rewrite (w64_small _ Hs) in Hle.
      rewrite w64_wrap_once in Hle; [|lia|unfold ps_per_second, two64 in *; lia].
      unfold ps_per_second, two64 in *. lia.
    + assert (Hq : t / p + 1 = two64) by lia. rewrite Hq in Hle.
      unfold w64 in Hle at 2. rewrite N.mod_same in Hle by (unfold two64; lia).
      rewrite N.mul_0_l in Hle. unfold w64 in Hle. rewrite N.mod_0_l in Hle by (unfold two64; lia).
      unfold two64 in *. lia.
Qed.

(** the safety part of the guard invariant (no range hypothesis) *)
Record W (s : st) : Prop := {
  w_now : now s < two64;
  w_pend : Forall (fun t => now s <= t /\ t mod p = 0 /\ t < two64) (pend s);
  w_sorted : StronglySorted N.lt (pend s);
  w_nohas : has s = false -> pend s = [];
  w_bound : Forall (fun t => t <= next s) (pend s) }.

Lemma w_init : W init.
Proof. constructor; cbn; try constructor; auto; try (unfold two64; lia). Qed.

(** what any call does, wrap or not *)
Definition call_effect (s s' : st) : Prop :=
  s' = s \/
  (exists r, s' = mk_st true r (pend s ++ [r]) (now s) (inh s) (hdl s) /\ now s <= r /\ r mod p = 0 /\
             r < two64 /\ (has s = true -> next s < r)).

Lemma tick_now_effect s s' o : W s -> tick_now f s = Some (s', o) -> call_effect s s'.
Proof.
  intros HW H. unfold tick_now in H.
  destruct (has s && (now s <? next s)) eqn:G.
  - inversion H; subst. left. reflexivity.
  - destruct (this_tick f (now s)) as [r0|] eqn:Et; [|discriminate].
    destruct (has s && (next s =? now s)) eqn:G2.
    + destruct (handled_now s); [|inversion H; subst; left; reflexivity].
      (* the tick of this instant already ran: NextTick, possibly wrapped *)
      destruct (next_tick f (now s)) as [r|] eqn:En; [|discriminate].
      unfold sched_at in H. destruct (r <? now s) eqn:El; [discriminate|].
      inversion H; subst. right. exists r.
      destruct (next_tick_not_before (now s) r (w_now s HW) En) as [_ [Hm [Hgt H64]]]; [lia|].
      apply andb_true_iff in G2. destruct G2 as [_ G2].
      repeat split; auto; [lia|]. intros _. lia.
    + unfold sched_at in H. destruct (r0 <? now s) eqn:El; [discriminate|].
      inversion H; subst. right. exists r0.
      destruct (this_tick_not_before (now s) r0 (w_now s HW) Et) as [_ [Hm H64]]; [lia|].
      repeat split; auto; [lia|]. intro Hh. rewrite Hh in G, G2. cbn [andb] in G, G2. lia.
Qed.

Lemma tick_later_effect s s' o : W s -> tick_later f s = Some (s', o) -> call_effect s s'.
Proof.
  intros HW H. unfold tick_later, tick_later_g in H.
  destruct (next_tick f (now s)) as [r|] eqn:Et; [|discriminate].
  destruct (has s && guard_hit GGe (next s) r) eqn:G.
  - inversion H; subst. left. reflexivity.
  - unfold sched_at in H. destruct (r <? now s) eqn:El; [discriminate|].
    inversion H; subst. right. exists r.
    destruct (next_tick_not_before (now s) r (w_now s HW) Et) as [_ [Hm [_ H64]]]; [lia|].
    repeat split; auto; [lia|]. intro Hh. rewrite Hh in G. cbn [andb guard_hit] in G. lia.
Qed.

Lemma w_effect s s' : W s -> call_effect s s' -> W s'.
Proof.
  intros HW [->|[r [-> [Hge [Hm [H64 Hnx]]]]]]; [exact HW|].
  assert (Hlt : Forall (fun u => u < r) (pend s)).
  { destruct (has s) eqn:Eh.
    - specialize (Hnx eq_refl). pose proof (w_bound s HW) as Hb.
      rewrite Forall_forall in *. intros x Hx. specialize (Hb x Hx). lia.
    - rewrite (w_nohas s HW Eh). constructor. }
  constructor; cbn [has next pend now inh].
  - exact (w_now s HW).
  - apply Forall_app. split; [exact (w_pend s HW)|constructor; [auto|constructor]].
  - apply sorted_app_one; [exact (w_sorted s HW)|exact Hlt].
  - discriminate.
  - apply Forall_app. split; [eapply Forall_impl; [|exact Hlt]; cbn; intros; lia|].
    constructor; [lia|constructor].
Qed.

(** [L] was dispatched earlier *)
Definition LBw (L : N) (s : st) : Prop :=
  has s = true /\ L <= next s /\ Forall (fun t => L < t) (pend s).

Lemma lbw_effect L s s' : LBw L s -> call_effect s s' -> LBw L s'.
Proof.
  intros [Hh [Hn Hall]] [->|[r [-> [Hge [Hm [H64 Hnx]]]]]]; [repeat split; auto|].
  specialize (Hnx Hh). unfold LBw. cbn [has next pend]. split; [reflexivity|]. split; [lia|].
  apply Forall_app. split; [exact Hall|constructor; [lia|constructor]].
Qed.

(** one step: invariant, bound, and what a dispatched tick looks like *)
Lemma w_step s o s' e : W s -> (match o with Adv t => t < two64 | _ => True end) ->
  step f s o = Ok s' e ->
  W s' /\
  (forall L, LBw L s -> LBw L s' /\ (forall t, e = EPop t -> L < t)) /\
  (forall t, e = EPop t -> t mod p = 0 /\ LBw t s').
Proof.
  intros HW Ht H. destruct o as [t|k| |b].
  - cbn [step] in H. destruct (inh s); [discriminate|]. destruct (t <? now s) eqn:El; [discriminate|].
    destruct (forallb (fun u => t <=? u) (pend s)) eqn:Ef; [|discriminate].
    inversion H; subst. clear H. apply forallb_le_Forall in Ef. split; [|split].
    + constructor; cbn [has next pend now inh].
      * exact Ht.
      * pose proof (w_pend s HW) as Hpd. rewrite Forall_forall in *. intros x Hx.
        specialize (Hpd x Hx). specialize (Ef x Hx). split; [lia|tauto].
      * exact (w_sorted s HW).
      * exact (w_nohas s HW).
      * exact (w_bound s HW).
    + intros L HL. split; [exact HL|intros; discriminate].
    + intros; discriminate.
  - cbn [step] in H. destruct (do_call k f s) as [[s1 o1]|] eqn:Ec; [|discriminate].
    inversion H; subst. clear H.
    assert (He : call_effect s s').
    { destruct k; cbn [do_call] in Ec;
        [exact (tick_now_effect _ _ _ HW Ec)|exact (tick_later_effect _ _ _ HW Ec)..]. }
    split; [exact (w_effect _ _ HW He)|]. split.
    + intros L HL. split; [exact (lbw_effect _ _ _ HL He)|intros; discriminate].
    + intros; discriminate.
  - cbn [step] in H. destruct (inh s) eqn:Ei; [discriminate|].
    destruct (pend s) as [|t r] eqn:Ep; [cbn in H; discriminate|].
    pose proof (w_sorted s HW) as Hs. rewrite Ep in Hs.
    rewrite (sorted_head_min t r Hs) in H.
    destruct (t <? now s) eqn:El; [discriminate|].
    rewrite remove_first_head in H. inversion H; subst. clear H.
    pose proof (w_pend s HW) as Hpd. pose proof (w_bound s HW) as Hb. rewrite Ep in *.
    inversion Hpd as [|? ? [Ht1 [Ht2 Ht3]] Hpd']; subst.
    inversion Hs as [|? ? Hs' Hall]; subst.
    inversion Hb as [|? ? Hb1 Hb']; subst.
    assert (Hh : has s = true).
    { destruct (has s) eqn:Eh; [reflexivity|]. pose proof (w_nohas s HW Eh). congruence. }
    split; [|split].
    + constructor; cbn [has next pend now inh].
      * exact Ht3.
      * rewrite Forall_forall in *. intros x Hx. specialize (Hpd' x Hx). specialize (Hall x Hx).
        split; [lia|tauto].
      * exact Hs'.
      * congruence.
      * exact Hb'.
    + intros L [_ [HLn HLall]]. rewrite Ep in HLall. inversion HLall; subst.
      split; [repeat split; auto|]. intros t' E. inversion E; subst. assumption.
    + intros t' E. inversion E; subst. split; [exact Ht2|]. repeat split; auto.
  - cbn [step] in H. destruct (negb (inh s)); [discriminate|]. destruct b.
    + destruct (tick_later f s) as [[s1 o1]|] eqn:Ec; [|discriminate].
      inversion H; subst. clear H.
      pose proof (tick_later_effect _ _ _ HW Ec) as He.
      pose proof (w_effect _ _ HW He) as HW1. split; [|split].
      * destruct HW1. constructor; cbn [has next pend now inh] in *; auto.
      * intros L HL. pose proof (lbw_effect _ _ _ HL He) as HL1.
        split; [exact HL1|intros; discriminate].
      * intros; discriminate.
    + inversion H; subst. clear H. split; [|split].
      * destruct HW. constructor; cbn [has next pend now inh] in *; auto.
      * intros L HL. split; [exact HL|intros; discriminate].
      * intros; discriminate.
Qed.

Lemma run_safe ops : forall s s' evs, W s -> times64 ops -> run f s ops = Some (s', evs) ->
  Forall (fun t => t mod p = 0) (pops evs) /\ StronglySorted N.lt (pops evs) /\
  (forall L, LBw L s -> Forall (fun t => L < t) (pops evs)) /\ W s'.
Proof.
  induction ops as [|o r IH]; intros s s' evs HW Ht H.
  - inversion H; subst. cbn [pops]. split; [constructor|]. split; [constructor|]. split; [intros; constructor|exact HW].
  - cbn [run] in H. destruct (step f s o) as [s1 e| |] eqn:Es; try discriminate.
    destruct (run f s1 r) as [[s2 es]|] eqn:Er; [|discriminate]. inversion H; subst. clear H.
    assert (Ht1 : match o with Adv t => t < two64 | _ => True end /\ times64 r).
    { destruct o; cbn [times64] in Ht; tauto. }
    destruct Ht1 as [Hto Htr].
    destruct (w_step s o s1 e HW Hto Es) as [HW1 [Hlb Hpop]].
    destruct (IH _ _ _ HW1 Htr Er) as [IHm [IHs [IHl IHw]]].
    destruct e as [t|k t o'|t|b o']; cbn [pops];
      try (split; [exact IHm|split; [exact IHs|split; [|exact IHw]]];
           intros L HL; apply IHl; exact (proj1 (Hlb L HL))).
    destruct (Hpop t eq_refl) as [Hm HLt].
    split; [constructor; [exact Hm|exact IHm]|].
    split; [constructor; [exact IHs|exact (IHl t HLt)]|].
    split; [|exact IHw].
    intros L HL. destruct (Hlb L HL) as [HL1 Hlt].
    constructor; [exact (Hlt t eq_refl)|exact (IHl L HL1)].
Qed.

End WithFreq.
