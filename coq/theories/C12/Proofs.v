(** C12 — proofs about the TickScheduler model. *)
From Coq Require Import Sorting.Sorted.
From Akita Require Import Lib.Base C42.Model C42.Proofs C12.Model.
Local Open Scope N_scope.

(** ------------------------------------------------------------------ *)
(** list helpers *)

Lemma sorted_head_min x r : StronglySorted N.lt (x :: r) -> list_min (x :: r) = Some x.
Proof.
  revert x. induction r as [|y r IH]; intros x Hs; [reflexivity|].
  inversion Hs as [|? ? Hs' Hall]; subst.
  change (list_min (x :: y :: r)) with
    (match list_min (y :: r) with None => Some x | Some m => Some (if x <=? m then x else m) end).
  rewrite (IH y Hs'). inversion Hall; subst.
  destruct (x <=? y) eqn:E; [reflexivity|lia].
Qed.

Lemma remove_first_head x r : remove_first x (x :: r) = r.
Proof. cbn [remove_first]. rewrite N.eqb_refl. reflexivity. Qed.

Lemma sorted_app_one l t : StronglySorted N.lt l -> Forall (fun u => u < t) l ->
  StronglySorted N.lt (l ++ [t]).
Proof.
  induction l as [|x l IH]; intros Hs Hf; cbn [app].
  - constructor; constructor.
  - inversion Hs as [|? ? Hs' Hall]; subst. inversion Hf as [|? ? Hx Hf']; subst.
    constructor; [apply IH; assumption|].
    apply Forall_app. split; [assumption|constructor; [assumption|constructor]].
Qed.

Lemma sorted_in_lower_is_head l u : StronglySorted N.lt l -> In u l ->
  Forall (fun x => u <= x) l -> exists r, l = u :: r.
Proof.
  intros Hs Hin Hf. destruct l as [|x r]; [destruct Hin|].
  destruct Hin as [->|Hin]; [eauto|].
  inversion Hs as [|? ? _ Hall]; subst. inversion Hf as [|? ? Hux _]; subst.
  rewrite Forall_forall in Hall. specialize (Hall u Hin). lia.
Qed.

Lemma forallb_le_Forall t l : forallb (fun u => t <=? u) l = true -> Forall (fun u => t <= u) l.
Proof.
  intro H. rewrite forallb_forall in H. apply Forall_forall. intros x Hx.
  specialize (H x Hx). lia.
Qed.

(** ------------------------------------------------------------------ *)
Section WithFreq.
Variable f p : N.
Hypothesis Hf : in_range f.
Hypothesis Hp : period f = Some p.

Let Hp1 : 1 <= p.
Proof.
  destruct (period_in_range f Hf) as [p' [Hp' [H1 _]]]. rewrite Hp in Hp'.
  inversion Hp'; subst. exact H1.
Qed.

Notation lmgt := (least_multiple_gt p).
Notation lmge := (least_multiple_ge p).

Lemma lmge_le_lmgt t : lmge t <= lmgt t.
Proof.
  destruct (lmge_spec p t Hp1) as [_ [_ [_ Hleast]]].
  destruct (lmgt_spec p t Hp1) as [Hm [Hgt _]].
  apply Hleast; [exact Hm|lia].
Qed.

Lemma lmgt_mono a b : a <= b -> lmgt a <= lmgt b.
Proof.
  intro Hab.
  destruct (lmgt_spec p a Hp1) as [_ [_ [_ Hleast]]].
  destruct (lmgt_spec p b Hp1) as [Hm [Hgt _]].
  apply Hleast; [exact Hm|lia].
Qed.

Lemma multiple_gt_ge_lmgt t m : m mod p = 0 -> t < m -> lmgt t <= m.
Proof. intros. destruct (lmgt_spec p t Hp1) as [_ [_ [_ Hleast]]]. auto. Qed.

Lemma multiple_ge_ge_lmge t m : m mod p = 0 -> t <= m -> lmge t <= m.
Proof. intros. destruct (lmge_spec p t Hp1) as [_ [_ [_ Hleast]]]. auto. Qed.

Lemma fits_spec s : fits f s = true <-> lmgt (now s) < two64.
Proof. unfold fits. rewrite Hp. apply N.ltb_lt. Qed.

Lemma next_tick_fit t : lmgt t < two64 -> next_tick f t = Some (lmgt t).
Proof.
  intro H. apply next_tick_exact; auto.
  destruct (lmgt_spec p t Hp1) as [_ [Hgt _]]. lia.
Qed.

Lemma this_tick_fit t : lmgt t < two64 -> this_tick f t = Some (lmge t).
Proof.
  intro H. pose proof (lmge_le_lmgt t).
  destruct (lmgt_spec p t Hp1) as [_ [Hgt _]].
  apply this_tick_exact; auto; lia.
Qed.

(** the invariant of the dedup guard *)
Record Inv (s : st) : Prop := {
  inv_fit : lmgt (now s) < two64;
  inv_pend : Forall (fun t => now s <= t /\ t mod p = 0) (pend s);
  inv_sorted : StronglySorted N.lt (pend s);
  inv_nohas : has s = false -> pend s = [];
  inv_mul : has s = true -> next s mod p = 0;
  inv_le : has s = true -> next s <= lmgt (now s);
  inv_bound : Forall (fun t => t <= next s) (pend s);
  inv_in : has s = true -> now s < next s -> In (next s) (pend s);
  inv_inh : inh s = true ->
            has s = true /\ now s <= next s /\ Forall (fun t => now s < t) (pend s);
  (* the last scheduled tick is still queued, or it has been handled *)
  inv_nx : has s = true -> In (next s) (pend s) \/ exists h, hdl s = Some h /\ next s <= h;
  inv_hle : forall h, hdl s = Some h -> h <= now s }.

Lemma inv_init : Inv init.
Proof.
  constructor; cbn; try (constructor; fail); try discriminate; auto.
  destruct (lmgt_spec p 0 Hp1) as [_ [_ [Hle _]]].
  destruct (period_in_range f Hf) as [p' [Hp' [_ Hpe]]]. rewrite Hp in Hp'.
  assert (Hpe' : p = ps_per_second / f) by congruence.
  assert (p <= ps_per_second).
  { rewrite Hpe'. apply N.div_le_upper_bound; [unfold in_range in Hf; lia|].
    unfold in_range in Hf. nia. }
  unfold ps_per_second, two64 in *. lia.
Qed.

(** scheduling a tick at an edge [t] beyond [next], not before [now] *)
Lemma inv_sched s t :
  Inv s -> t mod p = 0 -> now s <= t -> t <= lmgt (now s) ->
  (has s = true -> next s < t) ->
  exists s', sched_at s t = Some s' /\ Inv s' /\
             has s' = true /\ next s' = t /\ pend s' = pend s ++ [t] /\
             now s' = now s /\ inh s' = inh s /\ hdl s' = hdl s.
Proof.
  intros HI Hm Hge Hle Hnx. unfold sched_at.
  destruct (t <? now s) eqn:E; [lia|]. eexists. split; [reflexivity|].
  assert (Hlt : Forall (fun u => u < t) (pend s)).
  { destruct (has s) eqn:Eh.
    - specialize (Hnx eq_refl). pose proof (inv_bound s HI) as Hb.
      rewrite Forall_forall in *. intros x Hx. specialize (Hb x Hx). lia.
    - rewrite (inv_nohas s HI Eh). constructor. }
  split; [|cbn; auto 10].
  constructor; cbn [has next pend now inh hdl].
  - exact (inv_fit s HI).
  - apply Forall_app. split; [exact (inv_pend s HI)|constructor; [auto|constructor]].
  - apply sorted_app_one; [exact (inv_sorted s HI)|exact Hlt].
  - discriminate.
  - auto.
  - auto.
  - apply Forall_app. split.
    + eapply Forall_impl; [|exact Hlt]. cbn. intros; lia.
    + constructor; [lia|constructor].
  - intros _ _. apply in_or_app. right. left. reflexivity.
  - intro Hi. destruct (inv_inh s HI Hi) as [Hh [Hn Hall]].
    split; [reflexivity|]. specialize (Hnx Hh). split; [lia|].
    apply Forall_app. split; [exact Hall|constructor; [lia|constructor]].
  - intros _. left. apply in_or_app. right. left. reflexivity.
  - exact (inv_hle s HI).
Qed.

(** a call either leaves the state alone or schedules one tick beyond [next] *)
Definition grows (s s' : st) : Prop :=
  s' = s \/ (has s' = true /\ (has s = true -> next s < next s') /\
             pend s' = pend s ++ [next s']).

(** TickLater never panics inside the representable range, keeps the invariant,
    and leaves a tick pending at the next edge. *)
Lemma tick_later_ok s : Inv s ->
  exists s' o, tick_later f s = Some (s', o) /\ Inv s' /\
               now s' = now s /\ inh s' = inh s /\ has s' = true /\
               In (lmgt (now s)) (pend s') /\
               (exists ext, pend s' = pend s ++ ext) /\
               (o = ODrop \/ o = OSched (lmgt (now s))) /\ grows s s'.
Proof.
  intro HI. pose proof (inv_fit s HI) as Hfit.
  destruct (lmgt_spec p (now s) Hp1) as [Hm [Hgt _]].
  unfold tick_later, tick_later_g. rewrite (next_tick_fit _ Hfit).
  destruct (has s && guard_hit GGe (next s) (lmgt (now s))) eqn:G.
  - apply andb_true_iff in G. destruct G as [Hh G]. cbn [guard_hit] in G.
    assert (Hin : In (lmgt (now s)) (pend s)).
    { pose proof (inv_le s HI Hh) as Hle. assert (E : next s = lmgt (now s)) by lia.
      rewrite <- E. apply (inv_in s HI Hh). lia. }
    exists s, ODrop.
    split; [reflexivity|]. split; [exact HI|]. split; [reflexivity|]. split; [reflexivity|].
    split; [exact Hh|]. split; [exact Hin|]. split; [|split; [left; reflexivity|left; reflexivity]].
    exists []. rewrite app_nil_r. reflexivity.
  - destruct (inv_sched s (lmgt (now s)) HI Hm) as [s' [Hs [HI' [Hh' [Hn' [Hp' [Hnow' [Hinh' _]]]]]]]]; try lia.
    { intro Hh. rewrite Hh in G. cbn [andb guard_hit] in G. lia. }
    rewrite Hs. exists s', (OSched (lmgt (now s))).
    split; [reflexivity|]. split; [exact HI'|]. split; [exact Hnow'|]. split; [exact Hinh'|].
    assert (Hg : grows s s').
    { right. rewrite Hn'. split; [exact Hh'|]. split; [|exact Hp'].
      intro Hh. rewrite Hh in G. cbn [andb guard_hit] in G. lia. }
    split; [exact Hh'|]. split; [|split; [|split; [right; reflexivity|exact Hg]]].
    + rewrite Hp'. apply in_or_app. right. left. reflexivity.
    + exists [lmgt (now s)]. exact Hp'.
Qed.

(** TickNow (repaired): never panics in range, keeps the invariant, and leaves a
    tick pending at this clock edge or at the next one — also when the tick of this
    very instant has already been handled (then the next edge is scheduled). *)
Lemma tick_now_ok s : Inv s ->
  exists s' o, tick_now f s = Some (s', o) /\ Inv s' /\
               now s' = now s /\ inh s' = inh s /\
               (exists ext, pend s' = pend s ++ ext) /\
               (o = ODrop \/ o = OSched (lmge (now s)) \/ o = OSched (lmgt (now s))) /\ grows s s' /\
               (In (lmge (now s)) (pend s') \/ In (lmgt (now s)) (pend s')).
Proof.
  intro HI. pose proof (inv_fit s HI) as Hfit.
  destruct (lmge_spec p (now s) Hp1) as [Hm [Hge [_ _]]].
  destruct (lmgt_spec p (now s) Hp1) as [Hmg [Hgt _]].
  pose proof (lmge_le_lmgt (now s)) as Hlg.
  unfold tick_now.
  destruct (has s && (now s <? next s)) eqn:G.
  - (* a later tick is pending: it is the one at the next edge *)
    apply andb_true_iff in G. destruct G as [Hh G].
    assert (Hlt : now s < next s) by lia.
    exists s, ODrop.
    split; [reflexivity|]. split; [exact HI|]. split; [reflexivity|]. split; [reflexivity|].
    split; [exists []; rewrite app_nil_r; reflexivity|]. split; [left; reflexivity|].
    split; [left; reflexivity|].
    pose proof (inv_le s HI Hh) as Hle. pose proof (inv_mul s HI Hh) as Hmul.
    pose proof (inv_in s HI Hh Hlt) as Hin.
    pose proof (multiple_gt_ge_lmgt (now s) (next s) Hmul Hlt).
    right. assert (E2 : next s = lmgt (now s)) by lia. rewrite <- E2. exact Hin.
  - rewrite (this_tick_fit _ Hfit).
    destruct (has s && (next s =? now s)) eqn:G2.
    + apply andb_true_iff in G2. destruct G2 as [Hh G2]. apply N.eqb_eq in G2.
      destruct (handled_now s) eqn:Ehd.
      * (* the tick of this instant already ran: schedule the next edge *)
        rewrite (next_tick_fit _ Hfit).
        destruct (inv_sched s (lmgt (now s)) HI Hmg) as [s' [Hs [HI' [Hh' [Hn' [Hp' [Hnow' [Hinh' _]]]]]]]]; try lia.
        rewrite Hs. exists s', (OSched (lmgt (now s))).
        split; [reflexivity|]. split; [exact HI'|]. split; [exact Hnow'|]. split; [exact Hinh'|].
        split; [exists [lmgt (now s)]; exact Hp'|]. split; [right; right; reflexivity|].
        split.
        { right. rewrite Hn'. split; [exact Hh'|]. split; [intros _; lia|exact Hp']. }
        right. rewrite Hp'. apply in_or_app. right. left. reflexivity.
      * (* the tick of this instant is still queued *)
        exists s, ODrop.
        split; [reflexivity|]. split; [exact HI|]. split; [reflexivity|]. split; [reflexivity|].
        split; [exists []; rewrite app_nil_r; reflexivity|]. split; [left; reflexivity|].
        split; [left; reflexivity|].
        pose proof (inv_mul s HI Hh) as Hmul. rewrite G2 in Hmul.
        assert (Heq : lmge (now s) = now s).
        { pose proof (multiple_ge_ge_lmge (now s) (now s) Hmul (N.le_refl _)). lia. }
        left. rewrite Heq, <- G2.
        destruct (inv_nx s HI Hh) as [Hin|[h [Hh1 Hh2]]]; [exact Hin|].
        pose proof (inv_hle s HI h Hh1). unfold handled_now in Ehd. rewrite Hh1 in Ehd. lia.
    + (* nothing scheduled, or the last scheduled tick is in the past *)
      destruct (inv_sched s (lmge (now s)) HI Hm) as [s' [Hs [HI' [Hh' [Hn' [Hp' [Hnow' [Hinh' _]]]]]]]]; try lia.
      { intro Hh. rewrite Hh in G, G2. cbn [andb] in G, G2. lia. }
      rewrite Hs. exists s', (OSched (lmge (now s))).
      split; [reflexivity|]. split; [exact HI'|]. split; [exact Hnow'|]. split; [exact Hinh'|].
      split; [exists [lmge (now s)]; exact Hp'|]. split; [right; left; reflexivity|].
      split.
      { right. rewrite Hn'. split; [exact Hh'|]. split; [|exact Hp'].
        intro Hh. rewrite Hh in G, G2. cbn [andb] in G, G2. lia. }
      left. rewrite Hp'. apply in_or_app. right. left. reflexivity.
Qed.

Lemma do_call_ok k s : Inv s ->
  exists s' o, do_call k f s = Some (s', o) /\ Inv s' /\
               now s' = now s /\ inh s' = inh s /\
               (exists ext, pend s' = pend s ++ ext) /\ grows s s'.
Proof.
  intro HI. destruct k; cbn [do_call].
  - destruct (tick_now_ok s HI) as [s' [o [H1 [H2 [H3 [H4 [H5 [_ [H6 _]]]]]]]]].
    exists s', o. auto 10.
  - destruct (tick_later_ok s HI) as [s' [o [H1 [H2 [H3 [H4 [_ [_ [H5 [_ H6]]]]]]]]]].
    exists s', o. auto 10.
  - destruct (tick_later_ok s HI) as [s' [o [H1 [H2 [H3 [H4 [_ [_ [H5 [_ H6]]]]]]]]]].
    exists s', o. auto 10.
  - destruct (tick_later_ok s HI) as [s' [o [H1 [H2 [H3 [H4 [_ [_ [H5 [_ H6]]]]]]]]]].
    exists s', o. auto 10.
Qed.

Lemma lb_grows L s s' : (has s = true /\ L <= next s /\ Forall (fun t => L < t) (pend s)) ->
  grows s s' -> has s' = true /\ L <= next s' /\ Forall (fun t => L < t) (pend s').
Proof.
  intros [Hh [Hn Hall]] [->|[Hh' [Hlt Hpd]]]; [auto|].
  specialize (Hlt Hh). split; [exact Hh'|]. split; [lia|].
  rewrite Hpd. apply Forall_app. split; [exact Hall|constructor; [lia|constructor]].
Qed.

(** what a legal Pop does *)
Lemma pop_ok s s' e : Inv s -> step f s Pop = Ok s' e ->
  exists t r, pend s = t :: r /\ e = EPop t /\ inh s = false /\
              s' = mk_st (has s) (next s) r t true (Some t).
Proof.
  intros HI H. cbn [step] in H.
  destruct (inh s) eqn:Ei; [discriminate|].
  destruct (pend s) as [|t r] eqn:Ep; [cbn in H; discriminate|].
  pose proof (inv_sorted s HI) as Hs. rewrite Ep in Hs.
  rewrite (sorted_head_min t r Hs) in H.
  destruct (t <? now s); [discriminate|].
  rewrite remove_first_head in H. inversion H; subst. eauto 10.
Qed.

Lemma inv_step s o s' e : Inv s -> step f s o = Ok s' e -> fits f s' = true -> Inv s'.
Proof.
  intros HI H Hfit. apply fits_spec in Hfit. destruct o as [t|k| |b].
  - (* Adv *)
    cbn [step] in H. destruct (inh s) eqn:Ei; [discriminate|].
    destruct (t <? now s) eqn:Et; [discriminate|].
    destruct (forallb (fun u => t <=? u) (pend s)) eqn:Ef; [|discriminate].
    inversion H; subst. clear H. apply forallb_le_Forall in Ef.
    constructor; cbn [has next pend now inh hdl] in *.
    + exact Hfit.
    + pose proof (inv_pend s HI) as Hpd. rewrite Forall_forall in *.
      intros x Hx. specialize (Hpd x Hx). specialize (Ef x Hx). split; [lia|tauto].
    + exact (inv_sorted s HI).
    + exact (inv_nohas s HI).
    + exact (inv_mul s HI).
    + intro Hh. pose proof (inv_le s HI Hh). pose proof (lmgt_mono (now s) t). lia.
    + exact (inv_bound s HI).
    + intros Hh Hlt. apply (inv_in s HI Hh). lia.
    + discriminate.
    + exact (inv_nx s HI).
    + intros h Hh. pose proof (inv_hle s HI h Hh). lia.
  - (* Call *)
    cbn [step] in H. destruct (do_call_ok k s HI) as [s1 [o [H1 [H2 _]]]].
    rewrite H1 in H. inversion H; subst. exact H2.
  - (* Pop *)
    destruct (pop_ok s s' e HI H) as [t [r [Ep [-> [Ei ->]]]]].
    cbn [now] in Hfit.
    pose proof (inv_pend s HI) as Hpd. pose proof (inv_sorted s HI) as Hs.
    pose proof (inv_bound s HI) as Hb. rewrite Ep in *.
    inversion Hpd as [|? ? [Ht1 Ht2] Hpd']; subst.
    inversion Hs as [|? ? Hs' Hall]; subst.
    inversion Hb as [|? ? Hb1 Hb']; subst.
    assert (Hh : has s = true).
    { destruct (has s) eqn:Eh; [reflexivity|]. pose proof (inv_nohas s HI Eh). congruence. }
    constructor; cbn [has next pend now inh hdl].
    + exact Hfit.
    + rewrite Forall_forall in *. intros x Hx. specialize (Hpd' x Hx). specialize (Hall x Hx).
      split; [lia|tauto].
    + exact Hs'.
    + congruence.
    + exact (inv_mul s HI).
    + intros _. pose proof (inv_le s HI Hh). pose proof (lmgt_mono (now s) t). lia.
    + exact Hb'.
    + intros _ Hlt. pose proof (inv_in s HI Hh) as Hin. rewrite Ep in Hin.
      destruct Hin as [E|Hin]; [lia|lia|exact Hin].
    + intros _. repeat split; auto.
    + intros _. destruct (inv_nx s HI Hh) as [Hin|[h [Hh1 Hh2]]].
      * rewrite Ep in Hin. destruct Hin as [E|Hin]; [|left; exact Hin].
        right. exists t. split; [reflexivity|lia].
      * right. exists t. split; [reflexivity|]. pose proof (inv_hle s HI h Hh1). lia.
    + intros h Hh'. injection Hh' as <-. lia.
  - (* Ret *)
    cbn [step] in H. destruct (inh s) eqn:Ei; cbn [negb] in H; [|discriminate].
    destruct b.
    + destruct (tick_later_ok s HI) as [s1 [o [H1 [H2 [H3 [H4 _]]]]]].
      rewrite H1 in H. inversion H; subst. clear H.
      destruct H2. constructor; cbn [has next pend now inh hdl] in *; auto; try discriminate.
    + inversion H; subst. clear H.
      destruct HI. constructor; cbn [has next pend now inh hdl] in *; auto; try discriminate.
Qed.

(** ------------------------------------------------------------------ *)
(** exec: inversion and invariants along a run *)

Lemma exec_cons s o r s' evs : exec f s (o :: r) = Some (s', evs) ->
  exists s1 e es, step f s o = Ok s1 e /\ fits f s1 = true /\
                  exec f s1 r = Some (s', es) /\ evs = e :: es.
Proof.
  cbn [exec]. destruct (step f s o) as [s1 e| |]; try discriminate.
  destruct (fits f s1) eqn:Ef; [|discriminate].
  destruct (exec f s1 r) as [[s2 es]|] eqn:Ee; [|discriminate].
  intro H. inversion H; subst. exists s1, e, es. repeat split; auto.
Qed.

Lemma exec_app s a b s' evs : exec f s (a ++ b) = Some (s', evs) ->
  exists s1 e1 e2, exec f s a = Some (s1, e1) /\ exec f s1 b = Some (s', e2) /\ evs = e1 ++ e2.
Proof.
  revert s evs. induction a as [|o a IH]; intros s evs H.
  - exists s, [], evs. auto.
  - rewrite <- app_comm_cons in H.
    destruct (exec_cons _ _ _ _ _ H) as [s1 [e [es [H1 [H2 [H3 ->]]]]]].
    destruct (IH _ _ H3) as [s2 [e1 [e2 [H4 [H5 ->]]]]].
    exists s2, (e :: e1), e2. cbn [exec]. rewrite H1, H2, H4. auto.
Qed.

Lemma inv_exec s ops s' evs : Inv s -> exec f s ops = Some (s', evs) -> Inv s'.
Proof.
  revert s evs. induction ops as [|o r IH]; intros s evs HI H.
  - inversion H; subst. exact HI.
  - destruct (exec_cons _ _ _ _ _ H) as [s1 [e [es [H1 [H2 [H3 ->]]]]]].
    eapply IH; [|exact H3]. eapply inv_step; eauto.
Qed.

(** [L] was dispatched earlier: everything pending or yet to be scheduled is later *)
Definition LB (L : N) (s : st) : Prop :=
  has s = true /\ L <= next s /\ Forall (fun t => L < t) (pend s).

Lemma lb_step L s o s' e : Inv s -> LB L s -> step f s o = Ok s' e ->
  LB L s' /\ (forall t, e = EPop t -> L < t).
Proof.
  intros HI HL H. pose proof HL as [Hh [Hn Hall]]. destruct o as [t|k| |b].
  - cbn [step] in H. destruct (inh s); [discriminate|]. destruct (t <? now s); [discriminate|].
    destruct (forallb _ _); [|discriminate]. inversion H; subst.
    split; [exact HL|intros; discriminate].
  - cbn [step] in H. destruct (do_call_ok k s HI) as [s1 [o [H1 [H2 [_ [_ [_ Hg]]]]]]].
    rewrite H1 in H. inversion H; subst. split; [|intros; discriminate].
    exact (lb_grows L s s' HL Hg).
  - destruct (pop_ok s s' e HI H) as [t [r [Ep [-> [Ei ->]]]]].
    rewrite Ep in Hall. inversion Hall; subst.
    split; [repeat split; auto|]. intros t' E. inversion E; subst. assumption.
  - cbn [step] in H. destruct (negb (inh s)); [discriminate|]. destruct b.
    + destruct (tick_later_ok s HI) as [s1 [o [H1 [H2 [_ [_ [_ [_ [_ [_ Hg]]]]]]]]]].
      rewrite H1 in H. inversion H; subst. split; [|intros; discriminate].
      exact (lb_grows L s s1 HL Hg).
    + inversion H; subst. split; [exact HL|intros; discriminate].
Qed.

Lemma lb_after_pop s s' t : Inv s -> step f s Pop = Ok s' (EPop t) -> LB t s'.
Proof.
  intros HI H. destruct (pop_ok s s' _ HI H) as [t' [r [Ep [E [Ei ->]]]]].
  inversion E; subst t'. unfold LB. cbn [has next pend].
  pose proof (inv_sorted s HI) as Hs. pose proof (inv_bound s HI) as Hb. rewrite Ep in *.
  inversion Hs; subst. inversion Hb; subst.
  repeat split; auto.
  destruct (has s) eqn:Eh; [reflexivity|]. pose proof (inv_nohas s HI Eh). congruence.
Qed.

Lemma step_epop s o s' t : step f s o = Ok s' (EPop t) -> o = Pop.
Proof.
  destruct o as [t0|k| |b]; cbn [step]; intro H; [ | |reflexivity| ].
  - destruct (inh s); [discriminate|]. destruct (t0 <? now s); [discriminate|].
    destruct (forallb _ _); discriminate.
  - destruct (do_call k f s) as [[s1 o1]|]; discriminate.
  - destruct (negb (inh s)); [discriminate|].
    destruct b; [destruct (tick_later f s) as [[s1 o1]|]; discriminate|discriminate].
Qed.

(** once per instant: the dispatched tick times of a run are strictly increasing *)
Lemma pops_increasing ops : forall s s' evs, Inv s -> exec f s ops = Some (s', evs) ->
  StronglySorted N.lt (pops evs) /\ (forall L, LB L s -> Forall (fun t => L < t) (pops evs)).
Proof.
  induction ops as [|o r IH]; intros s s' evs HI H.
  - inversion H; subst. cbn. split; [constructor|intros; constructor].
  - destruct (exec_cons _ _ _ _ _ H) as [s1 [e [es [H1 [H2 [H3 ->]]]]]].
    pose proof (inv_step _ _ _ _ HI H1 H2) as HI1.
    destruct (IH _ _ _ HI1 H3) as [IHs IHl].
    destruct e as [t|k t o'|t|b o']; cbn [pops];
      try (split; [exact IHs|intros L HL; apply IHl; exact (proj1 (lb_step _ _ _ _ _ HI HL H1))]).
    assert (o = Pop) by (eapply step_epop; exact H1).
    subst o. pose proof (lb_after_pop _ _ _ HI H1) as HLt.
    split.
    + constructor; [exact IHs|apply IHl; exact HLt].
    + intros L HL. destruct (lb_step _ _ _ _ _ HI HL H1) as [HL1 Hlt].
      constructor; [apply Hlt; reflexivity|apply IHl; exact HL1].
Qed.

(** on edge: every dispatched tick time is a multiple of the period, and is not before the start *)
Lemma pops_on_edge ops : forall s s' evs, Inv s -> exec f s ops = Some (s', evs) ->
  Forall (fun t => t mod p = 0 /\ now s <= t) (pops evs) /\ now s <= now s'.
Proof.
  induction ops as [|o r IH]; intros s s' evs HI H.
  - inversion H; subst. cbn. split; [constructor|lia].
  - destruct (exec_cons _ _ _ _ _ H) as [s1 [e [es [H1 [H2 [H3 ->]]]]]].
    pose proof (inv_step _ _ _ _ HI H1 H2) as HI1.
    destruct (IH _ _ _ HI1 H3) as [IHa IHb].
    assert (Hnow : now s <= now s1 /\ (forall t, e = EPop t -> t mod p = 0 /\ now s <= t)).
    { destruct o as [t|k| |b].
      - cbn [step] in H1. destruct (inh s); [discriminate|]. destruct (t <? now s) eqn:E; [discriminate|].
        destruct (forallb _ _); [|discriminate]. inversion H1; subst. cbn. split; [lia|intros; discriminate].
      - cbn [step] in H1. destruct (do_call_ok k s HI) as [s2 [o [Hc [_ [Hn _]]]]].
        rewrite Hc in H1. inversion H1; subst. split; [lia|intros; discriminate].
      - destruct (pop_ok s s1 e HI H1) as [t [r' [Ep [-> [Ei ->]]]]].
        pose proof (inv_pend s HI) as Hpd. rewrite Ep in Hpd. inversion Hpd; subst.
        cbn [now]. split; [tauto|]. intros t' E. inversion E; subst. tauto.
      - cbn [step] in H1. destruct (negb (inh s)); [discriminate|]. destruct b.
        + destruct (tick_later_ok s HI) as [s2 [o [Hc [_ [Hn _]]]]].
          rewrite Hc in H1. inversion H1; subst. cbn [now]. split; [lia|intros; discriminate].
        + inversion H1; subst. cbn [now]. split; [lia|intros; discriminate]. }
    destruct Hnow as [Hn Hpop]. split; [|lia].
    assert (Hrest : Forall (fun t => t mod p = 0 /\ now s <= t) (pops es)).
    { eapply Forall_impl; [|exact IHa]. cbn. intros a [A B]. split; [exact A|lia]. }
    destruct e; cbn [pops]; try exact Hrest.
    constructor; [apply Hpop; reflexivity|exact Hrest].
Qed.

(** a pending tick is never skipped: it is dispatched, or it is still pending
    and the engine time has not passed it *)
Lemma pending_not_skipped u ops : forall s s' evs, Inv s -> In u (pend s) ->
  exec f s ops = Some (s', evs) ->
  In u (pops evs) \/ (In u (pend s') /\ now s' <= u).
Proof.
  induction ops as [|o r IH]; intros s s' evs HI Hin H.
  - inversion H; subst. right. split; [exact Hin|].
    pose proof (inv_pend s' HI) as Hpd. rewrite Forall_forall in Hpd. apply (Hpd u Hin).
  - destruct (exec_cons _ _ _ _ _ H) as [s1 [e [es [H1 [H2 [H3 ->]]]]]].
    pose proof (inv_step _ _ _ _ HI H1 H2) as HI1.
    destruct o as [t|k| |b].
    + cbn [step] in H1. destruct (inh s); [discriminate|]. destruct (t <? now s); [discriminate|].
      destruct (forallb _ _); [|discriminate]. inversion H1; subst. cbn [pops].
      eapply IH; eauto.
    + cbn [step] in H1. destruct (do_call_ok k s HI) as [s2 [o [Hc [_ [_ [_ [[ext Hext] _]]]]]]].
      rewrite Hc in H1. inversion H1; subst. cbn [pops].
      eapply IH; eauto. rewrite Hext. apply in_or_app. left. exact Hin.
    + destruct (pop_ok s s1 e HI H1) as [t [r' [Ep [-> [Ei ->]]]]].
      cbn [pops]. rewrite Ep in Hin. destruct Hin as [->|Hin]; [left; left; reflexivity|].
      destruct (IH _ _ _ HI1 Hin H3) as [A|A]; [left; right; exact A|right; exact A].
    + cbn [step] in H1. destruct (negb (inh s)); [discriminate|]. destruct b.
      * destruct (tick_later_ok s HI) as [s2 [o [Hc [_ [_ [_ [_ [_ [[ext Hext] _]]]]]]]]].
        rewrite Hc in H1. inversion H1; subst. cbn [pops].
        eapply IH; eauto. cbn [pend]. rewrite Hext. apply in_or_app. left. exact Hin.
      * inversion H1; subst. cbn [pops]. eapply IH; eauto.
Qed.

(** the head of the pending list is the next tick to be dispatched *)
Lemma head_pops_first u ops : forall s s' evs rest, Inv s -> pend s = u :: rest ->
  exec f s ops = Some (s', evs) ->
  match pops evs with
  | [] => (exists rest', pend s' = u :: rest') /\ now s' <= u
  | v :: _ => v = u
  end.
Proof.
  induction ops as [|o r IH]; intros s s' evs rest HI Hpd H.
  - inversion H; subst. cbn [pops]. split; [eauto|].
    pose proof (inv_pend s' HI) as Hp'. rewrite Hpd in Hp'. inversion Hp'; subst. tauto.
  - destruct (exec_cons _ _ _ _ _ H) as [s1 [e [es [H1 [H2 [H3 ->]]]]]].
    pose proof (inv_step _ _ _ _ HI H1 H2) as HI1.
    destruct o as [t|k| |b].
    + cbn [step] in H1. destruct (inh s); [discriminate|]. destruct (t <? now s); [discriminate|].
      destruct (forallb _ _); [|discriminate]. inversion H1; subst. cbn [pops].
      eapply IH; eauto.
    + cbn [step] in H1. destruct (do_call_ok k s HI) as [s2 [o [Hc [_ [_ [_ [[ext Hext] _]]]]]]].
      rewrite Hc in H1. inversion H1; subst. cbn [pops].
      eapply IH; eauto. rewrite Hext, Hpd. rewrite <- app_comm_cons. reflexivity.
    + destruct (pop_ok s s1 e HI H1) as [t [r' [Ep [-> [Ei ->]]]]].
      cbn [pops]. congruence.
    + cbn [step] in H1. destruct (negb (inh s)); [discriminate|]. destruct b.
      * destruct (tick_later_ok s HI) as [s2 [o [Hc [_ [_ [_ [_ [_ [[ext Hext] _]]]]]]]]].
        rewrite Hc in H1. inversion H1; subst. cbn [pops].
        eapply IH; eauto. cbn [pend]. rewrite Hext, Hpd. rewrite <- app_comm_cons. reflexivity.
      * inversion H1; subst. cbn [pops]. eapply IH; eauto.
Qed.

(** after a tick that made progress: the next edge is the head of the pending list *)
Lemma ret_true_head s s' e : Inv s -> step f s (Ret true) = Ok s' e -> fits f s' = true ->
  exists rest, pend s' = lmgt (now s) :: rest /\ now s' = now s.
Proof.
  intros HI H Hfit. pose proof (inv_step _ _ _ _ HI H Hfit) as HI'.
  cbn [step] in H. destruct (inh s) eqn:Ei; cbn [negb] in H; [|discriminate].
  destruct (tick_later_ok s HI) as [s1 [o [H1 [HI1 [Hn [Hi [_ [Hin [[ext Hext] _]]]]]]]]].
  rewrite H1 in H. inversion H; subst. clear H. cbn [pend now] in *.
  destruct (inv_inh s1 HI1) as [_ [_ Hall]]; [congruence|].
  destruct (sorted_in_lower_is_head (pend s1) (lmgt (now s)) (inv_sorted s1 HI1) Hin) as [rest Hr].
  - pose proof (inv_pend s1 HI1) as Hpd. rewrite Forall_forall in *.
    intros x Hx. specialize (Hall x Hx). specialize (Hpd x Hx).
    apply multiple_gt_ge_lmgt; [tauto|lia].
  - exists rest. auto.
Qed.

Lemma exec_one s o s' evs : exec f s [o] = Some (s', evs) ->
  exists e, step f s o = Ok s' e /\ fits f s' = true /\ evs = [e].
Proof.
  intro H. destruct (exec_cons _ _ _ _ _ H) as [s1 [e [es [H1 [H2 [H3 ->]]]]]].
  inversion H3; subst. eauto.
Qed.

(** C12, third clause *)
Lemma progress_reticks ops1 s1 evs1 ops2 s2 evs2 :
  exec f init (ops1 ++ [Ret true]) = Some (s1, evs1) ->
  exec f s1 ops2 = Some (s2, evs2) ->
  match pops evs2 with
  | [] => In (lmgt (now s1)) (pend s2) /\ now s2 <= lmgt (now s1)
  | v :: _ => v = lmgt (now s1)
  end.
Proof.
  intros H1 H2. destruct (exec_app _ _ _ _ _ H1) as [s0 [e1 [e2 [Ha [Hb _]]]]].
  pose proof (inv_exec _ _ _ _ inv_init Ha) as HI0.
  destruct (exec_one _ _ _ _ Hb) as [e [Hs [Hfit _]]].
  destruct (ret_true_head _ _ _ HI0 Hs Hfit) as [rest [Hpd Hnow]].
  pose proof (inv_step _ _ _ _ HI0 Hs Hfit) as HI1.
  pose proof (head_pops_first _ _ _ _ _ _ HI1 Hpd H2) as Hh. rewrite Hnow.
  destruct (pops evs2); [|exact Hh].
  destruct Hh as [[rest' Hr] Hle]. split; [rewrite Hr; left; reflexivity|exact Hle].
Qed.

Definition later_call (k : callk) : Prop := k <> KTickNow.

(** C12, fourth clause *)
Lemma notify_later_edge k ops1 s1 evs1 ops2 s2 evs2 : later_call k ->
  exec f init (ops1 ++ [Call k]) = Some (s1, evs1) ->
  exec f s1 ops2 = Some (s2, evs2) ->
  let u := lmgt (now s1) in
  (In u (pops evs2) \/ (In u (pend s2) /\ now s2 <= u)) /\
  Forall (fun v => v = now s1 \/ u <= v) (pops evs2).
Proof.
  intros Hk H1 H2 u. destruct (exec_app _ _ _ _ _ H1) as [s0 [e1 [e2 [Ha [Hb _]]]]].
  pose proof (inv_exec _ _ _ _ inv_init Ha) as HI0.
  destruct (exec_one _ _ _ _ Hb) as [e [Hs [Hfit _]]].
  pose proof (inv_step _ _ _ _ HI0 Hs Hfit) as HI1.
  assert (Hin : In (lmgt (now s1)) (pend s1)).
  { cbn [step] in Hs.
    destruct (tick_later_ok s0 HI0) as [s' [o [Ht [_ [Hn [_ [_ [Hin _]]]]]]]].
    assert (Hc : do_call k f s0 = tick_later f s0) by (destruct k; [exfalso; apply Hk|..]; reflexivity).
    rewrite Hc, Ht in Hs. inversion Hs; subst. rewrite Hn. exact Hin. }
  split; [exact (pending_not_skipped _ _ _ _ _ HI1 Hin H2)|].
  destruct (pops_on_edge _ _ _ _ HI1 H2) as [Hall _].
  eapply Forall_impl; [|exact Hall]. cbn. intros v [Hm Hge].
  destruct (N.eq_dec v (now s1)) as [->|Hne]; [left; reflexivity|right].
  apply multiple_gt_ge_lmgt; [exact Hm|lia].
Qed.

(** TickNow: after the call a tick at this clock edge or at the next one is queued *)
Lemma tick_now_where ops1 s1 evs1 :
  exec f init (ops1 ++ [Call KTickNow]) = Some (s1, evs1) ->
  In (lmge (now s1)) (pend s1) \/ In (lmgt (now s1)) (pend s1).
Proof.
  intro H1. destruct (exec_app _ _ _ _ _ H1) as [s0 [e1 [e2 [Ha [Hb _]]]]].
  pose proof (inv_exec _ _ _ _ inv_init Ha) as HI0.
  destruct (exec_one _ _ _ _ Hb) as [e [Hs [Hfit _]]].
  cbn [step do_call] in Hs.
  destruct (tick_now_ok s0 HI0) as [s' [o [Ht [_ [Hn [_ [_ [_ [_ Hw]]]]]]]]].
  rewrite Ht in Hs. inversion Hs; subst. rewrite Hn. exact Hw.
Qed.

(** inside the representable range no call and no Tick() return panics *)
Lemma no_panic ops s evs o : exec f init ops = Some (s, evs) -> step f s o <> Panic.
Proof.
  intros H. pose proof (inv_exec _ _ _ _ inv_init H) as HI. destruct o as [t|k| |b]; cbn [step].
  - destruct (inh s); [discriminate|]. destruct (t <? now s); [discriminate|].
    destruct (forallb _ _); discriminate.
  - destruct (do_call_ok k s HI) as [s' [o [Hc _]]]. rewrite Hc. discriminate.
  - destruct (inh s); [discriminate|]. destruct (list_min (pend s)); [|discriminate].
    destruct (_ <? _); discriminate.
  - destruct (negb (inh s)); [discriminate|]. destruct b; [|discriminate].
    destruct (tick_later_ok s HI) as [s' [o [Hc _]]]. rewrite Hc. discriminate.
Qed.

End WithFreq.
