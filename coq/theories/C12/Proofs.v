(** C12 — proofs about the TickScheduler model. *)
From Akita Require Import Lib.Base C42.Model C42.Proofs C12.Model.
Local Open Scope N_scope.
