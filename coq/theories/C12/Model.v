(** C12 — model of modeling/ticker.go: the [TickScheduler] dedup guard
    ([hasScheduledTick], [nextTickTime]), [TickNow], [TickLater], the
    [TickingComponent] notifications and [Handle], seen from ONE component.

    The rest of the simulation (the engine, every other handler) is an
    adversarial environment.  What the component can observe of it is:
      - [Adv t]   : some other handler runs at engine time [t];
      - [Call k]  : somebody calls TickNow / TickLater / NotifyRecv / NotifyPortFree;
      - [Pop]     : the engine dispatches the earliest tick event of this
                    component (its time becomes the engine time) and enters
                    [TickingComponent.Handle], which first records that time as
                    the last handled tick;
      - [Ret b]   : the component's [Tick()] returns the progress bit [b]
                    ([Handle] then calls [TickLater] when [b] is true).
    Calls between [Pop] and [Ret] are calls made from inside [Tick()].

    The engine contract the environment must respect (legality, outcome
    [Illegal] otherwise) is exactly what timing.SerialEngine guarantees (C01):
    time never decreases, no event is skipped (time cannot pass a pending tick
    event), a scheduled event is dispatched once, handlers are not re-entered.
    [pend] is the list of this component's tick events that are in the engine
    queue, in scheduling order.

    Clock arithmetic is C42's model (64-bit wrap, [None] = Go panic).
    [SerialEngine.Schedule] panics for an event earlier than the current time:
    outcome [Panic]. *)
From Akita Require Import Lib.Base C42.Model.
Local Open Scope N_scope.

Inductive callk := KTickNow | KTickLater | KNotifyRecv | KNotifyPortFree.

Inductive op :=
| Adv (t : N)
| Call (k : callk)
| Pop
| Ret (b : bool).

(** what a call did: guard dropped it, scheduled a tick event at [t], or panicked *)
Inductive obs := ODrop | OSched (t : N) | OPanic.

(** one observed step of a component's history *)
Inductive ev :=
| EAdv (t : N)
| ECall (k : callk) (at_ : N) (o : obs)
| EPop (t : N)
| ERet (b : bool) (o : obs).

Record st := mk_st {
  has : bool;        (* hasScheduledTick *)
  next : N;          (* nextTickTime *)
  pend : list N;     (* tick events of this component in the engine queue *)
  now : N;           (* engine.CurrentTime() *)
  inh : bool;        (* inside this component's Handle *)
  hdl : option N }.  (* lastHandledTime when hasHandledTick: the time of the last tick
                        event dispatched to this component (set by Handle before Tick()) *)

Definition init : st := mk_st false 0 [] 0 false None.

(** guard comparison variants, for the regression lemmas:
    the code uses [>=] ([GGe]); [GGt] is the mutation [>]. *)
Inductive guard := GGe | GGt.
Definition guard_hit (g : guard) (nxt t : N) : bool :=
  match g with GGe => t <=? nxt | GGt => t <? nxt end.

(** engine.Schedule(tick at t) issued by the scheduler: panics when t < now. *)
Definition sched_at (s : st) (t : N) : option st :=
  if t <? now s then None
  else Some (mk_st true t (pend s ++ [t]) (now s) (inh s) (hdl s)).

Definition handled_now (s : st) : bool :=
  match hdl s with Some h => h =? now s | None => false end.

(** TickScheduler.TickNow (as repaired by fix commit f717b29c):
      if has && next > now                      -> return          (a later tick is pending)
      tickTime := ThisTick(now)
      if has && next == now:
          if !(hasHandled && lastHandled == now) -> return          (this instant's tick is still pending)
          tickTime = NextTick(now)                                  (it already ran: next clock edge)
      schedule tickTime *)
Definition tick_now (f : N) (s : st) : option (st * obs) :=
  if has s && (now s <? next s) then Some (s, ODrop)
  else match this_tick f (now s) with
       | None => None
       | Some t0 =>
           if has s && (next s =? now s) then
             if handled_now s then
               match next_tick f (now s) with
               | None => None
               | Some t => match sched_at s t with
                           | None => None
                           | Some s' => Some (s', OSched t)
                           end
               end
             else Some (s, ODrop)
           else match sched_at s t0 with
                | None => None
                | Some s' => Some (s', OSched t0)
                end
       end.

(** TickNow before the fix: dropped whenever [has && next >= now], also when the
    tick at [next = now] had already been handled (the lost wake-up of C09). *)
Definition tick_now_old (f : N) (s : st) : option (st * obs) :=
  if has s && guard_hit GGe (next s) (now s) then Some (s, ODrop)
  else match this_tick f (now s) with
       | None => None
       | Some t => match sched_at s t with
                   | None => None
                   | Some s' => Some (s', OSched t)
                   end
       end.

(** TickScheduler.TickLater ([use_this] = the mutation NextTick -> ThisTick) *)
Definition tick_later_g (g : guard) (use_this : bool) (f : N) (s : st) : option (st * obs) :=
  match (if use_this then this_tick f (now s) else next_tick f (now s)) with
  | None => None
  | Some t =>
      if has s && guard_hit g (next s) t then Some (s, ODrop)
      else match sched_at s t with
           | None => None
           | Some s' => Some (s', OSched t)
           end
  end.

Definition tick_later := tick_later_g GGe false.

Fixpoint list_min (l : list N) : option N :=
  match l with
  | [] => None
  | x :: r => match list_min r with
              | None => Some x
              | Some m => Some (if x <=? m then x else m)
              end
  end.

Fixpoint remove_first (x : N) (l : list N) : list N :=
  match l with
  | [] => []
  | y :: r => if x =? y then r else y :: remove_first x r
  end.

Inductive res := Ok (s : st) (e : ev) | Panic | Illegal.

Definition do_call (k : callk) (f : N) (s : st) : option (st * obs) :=
  match k with
  | KTickNow => tick_now f s
  | KTickLater | KNotifyRecv | KNotifyPortFree => tick_later f s
  end.

Definition step (f : N) (s : st) (o : op) : res :=
  match o with
  | Adv t =>
      if inh s then Illegal
      else if t <? now s then Illegal
      else if forallb (fun u => t <=? u) (pend s)
           then Ok (mk_st (has s) (next s) (pend s) t false (hdl s)) (EAdv t)
           else Illegal
  | Call k =>
      match do_call k f s with
      | None => Panic
      | Some (s', o) => Ok s' (ECall k (now s) o)
      end
  | Pop =>
      if inh s then Illegal
      else match list_min (pend s) with
           | None => Illegal
           | Some t =>
               if t <? now s then Illegal
               else Ok (mk_st (has s) (next s) (remove_first t (pend s)) t true (Some t)) (EPop t)
           end
  | Ret b =>
      if negb (inh s) then Illegal
      else if b then
             match tick_later f s with
             | None => Panic
             | Some (s', o) => Ok (mk_st (has s') (next s') (pend s') (now s') false (hdl s')) (ERet true o)
             end
           else Ok (mk_st (has s) (next s) (pend s) (now s) false (hdl s)) (ERet false ODrop)
  end.

(** the next clock edge after the current time is representable *)
Definition fits (f : N) (s : st) : bool :=
  match period f with
  | Some p => least_multiple_gt p (now s) <? two64
  | None => false
  end.

(** [exec]: run a history; [None] as soon as a step is illegal, panics, or
    leaves the 64-bit range of representable next edges. *)
Fixpoint exec (f : N) (s : st) (ops : list op) : option (st * list ev) :=
  match ops with
  | [] => Some (s, [])
  | o :: r =>
      match step f s o with
      | Ok s' e =>
          if fits f s' then
            match exec f s' r with
            | Some (s'', es) => Some (s'', e :: es)
            | None => None
            end
          else None
      | _ => None
      end
  end.

(** projections of an observed history *)
Fixpoint pops (es : list ev) : list N :=
  match es with
  | [] => []
  | EPop t :: r => t :: pops r
  | _ :: r => pops r
  end.

Definition op_of (e : ev) : op :=
  match e with
  | EAdv t => Adv t
  | ECall k _ _ => Call k
  | EPop _ => Pop
  | ERet b _ => Ret b
  end.
