(** C12 — property theorems. *)
From Akita Require Import Lib.Base C42.Model C42.Proofs C12.Model C12.Proofs.
Local Open Scope N_scope.

Theorem c12_placeholder_init : pend init = [].
Proof. reflexivity. Qed.
Print Assumptions c12_placeholder_init.
