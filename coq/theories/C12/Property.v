(** C12 — ticking components tick on clock edges, once per instant, while busy.
    Property theorems only.

    Reading guide.  [exec f init ops = Some (s, evs)] says: [ops] is a history of
    one ticking component with frequency [f], starting from a freshly built
    component, that respects the engine contract (see C12.Model), in which no
    call panicked and every engine time had a representable next clock edge
    (< 2^64 ps).  [ops] is arbitrary: any interleaving of engine time advances,
    TickNow / TickLater / NotifyRecv / NotifyPortFree calls from anywhere
    (environment, other components with other frequencies, the component's own
    Tick()), dispatches of its tick events and Tick() results with any progress
    bit.  [pops evs] are the times at which the component was ticked. *)
From Coq Require Import Sorting.Sorted.
From Akita Require Import Lib.Base C42.Model C42.Proofs C12.Model C12.Proofs.
Local Open Scope N_scope.

(** Clause 1: a ticking component is only ever ticked at multiples of its clock period. *)
Theorem c12_on_edge : forall f p ops s evs, in_range f -> period f = Some p ->
  exec f init ops = Some (s, evs) ->
  Forall (fun t => t mod p = 0) (pops evs).
Proof.
  intros f p ops s evs Hf Hp H.
  destruct (pops_on_edge f p Hf Hp ops init s evs (inv_init f p Hf Hp) H) as [Hall _].
  eapply Forall_impl; [|exact Hall]. cbn. tauto.
Qed.
Print Assumptions c12_on_edge.

(** Clause 2: at most once per instant — the times at which it is ticked are
    strictly increasing (the invariant on the dedup guard). *)
Theorem c12_once_per_instant : forall f p ops s evs, in_range f -> period f = Some p ->
  exec f init ops = Some (s, evs) ->
  StronglySorted N.lt (pops evs) /\ NoDup (pops evs).
Proof.
  intros f p ops s evs Hf Hp H.
  destruct (pops_increasing f p Hf Hp ops init s evs (inv_init f p Hf Hp) H) as [Hs _].
  split; [exact Hs|].
  induction Hs as [|a l Hs IH Hall]; constructor; [|exact IH].
  intro Hin. rewrite Forall_forall in Hall. specialize (Hall a Hin). lia.
Qed.
Print Assumptions c12_once_per_instant.

(** ... and the guard never lets two tick events of one component with the same
    time into the engine queue. *)
Theorem c12_no_duplicate_tick_events : forall f p ops s evs, in_range f -> period f = Some p ->
  exec f init ops = Some (s, evs) -> StronglySorted N.lt (pend s).
Proof.
  intros f p ops s evs Hf Hp H.
  exact (inv_sorted p s (inv_exec f p Hf Hp init ops s evs (inv_init f p Hf Hp) H)).
Qed.
Print Assumptions c12_no_duplicate_tick_events.

(** Clause 3: after a tick that made progress (history ending in [Ret true] at
    time [now s1]) the component is ticked again at its next clock edge: in every
    continuation the next tick is exactly at the least multiple of the period
    after that time; until then that tick event stays queued and the engine time
    cannot pass it (so a run that drains the queue dispatches it). *)
Theorem c12_progress_reticks : forall f p ops1 s1 evs1 ops2 s2 evs2,
  in_range f -> period f = Some p ->
  exec f init (ops1 ++ [Ret true]) = Some (s1, evs1) ->
  exec f s1 ops2 = Some (s2, evs2) ->
  match pops evs2 with
  | [] => In (least_multiple_gt p (now s1)) (pend s2) /\ now s2 <= least_multiple_gt p (now s1)
  | v :: _ => v = least_multiple_gt p (now s1)
  end.
Proof. intros f p ops1 s1 evs1 ops2 s2 evs2 Hf Hp. exact (progress_reticks f p Hf Hp _ _ _ _ _ _). Qed.
Print Assumptions c12_progress_reticks.

(** Clause 4: a component that receives a message or gets a freed port (or is
    asked to TickLater) at time [now s1] is ticked at a later clock edge: the tick
    at the next edge [u] is dispatched, or is still queued with the engine time not
    beyond it; and no tick happens strictly between the notification and [u]. *)
Theorem c12_notify_later_edge : forall f p k ops1 s1 evs1 ops2 s2 evs2,
  in_range f -> period f = Some p -> k <> KTickNow ->
  exec f init (ops1 ++ [Call k]) = Some (s1, evs1) ->
  exec f s1 ops2 = Some (s2, evs2) ->
  let u := least_multiple_gt p (now s1) in
  now s1 < u /\ u mod p = 0 /\
  (In u (pops evs2) \/ (In u (pend s2) /\ now s2 <= u)) /\
  Forall (fun v => v = now s1 \/ u <= v) (pops evs2).
Proof.
  intros f p k ops1 s1 evs1 ops2 s2 evs2 Hf Hp Hk H1 H2 u.
  destruct (period_in_range f Hf) as [p' [Hp' [Hp1 _]]]. rewrite Hp in Hp'.
  assert (p' = p) by congruence. subst p'.
  destruct (lmgt_spec p (now s1) Hp1) as [Hm [Hgt _]].
  split; [exact Hgt|]. split; [exact Hm|].
  exact (notify_later_edge f p Hf Hp k _ _ _ _ _ _ Hk H1 H2).
Qed.
Print Assumptions c12_notify_later_edge.

(** Where a TickNow request ends up (TickNow as repaired by fix commit f717b29c):
    after the call a tick at this clock edge or at the next one is queued — also when
    the tick of this very instant has already been handled (then the next edge is
    scheduled: the component still ticks at most once per instant, clause 2). *)
Theorem c12_tick_now_where : forall f p ops1 s1 evs1, in_range f -> period f = Some p ->
  exec f init (ops1 ++ [Call KTickNow]) = Some (s1, evs1) ->
  In (least_multiple_ge p (now s1)) (pend s1) \/ In (least_multiple_gt p (now s1)) (pend s1).
Proof. intros f p ops1 s1 evs1 Hf Hp. exact (tick_now_where f p Hf Hp _ _ _). Qed.
Print Assumptions c12_tick_now_where.

(** TickNow in the instant whose tick already ran (1 GHz, t = 5000 ps): the next edge
    6000 is queued; the instant 5000 is not ticked twice. *)
Theorem c12_tick_now_after_handled_next_edge_witness :
  exists s evs, exec 1000000000 init [Adv 5000; Call KTickNow; Pop; Ret false; Call KTickNow] = Some (s, evs)
                /\ pend s = [6000] /\ pops evs = [5000].
Proof. eexists. eexists. vm_compute. repeat split. Qed.
Print Assumptions c12_tick_now_after_handled_next_edge_witness.

(** Regression lemma: TickNow before the fix dropped that request with nothing queued
    (the lost wake-up recorded under C09, F-C09-1). *)
Theorem c12_tick_now_old_refuted :
  exists s evs, exec 1000000000 init [Adv 5000; Call KTickNow; Pop; Ret false] = Some (s, evs) /\
                pend s = [] /\ now s = 5000 /\
                tick_now_old 1000000000 s = Some (s, ODrop) /\
                exists s', tick_now 1000000000 s = Some (s', OSched 6000).
Proof. eexists. eexists. split; [vm_compute; reflexivity|]. vm_compute. repeat split. eexists. reflexivity. Qed.
Print Assumptions c12_tick_now_old_refuted.

(** Inside the representable range no call and no Tick() return panics. *)
Theorem c12_no_panic : forall f p ops s evs o, in_range f -> period f = Some p ->
  exec f init ops = Some (s, evs) -> step f s o <> Panic.
Proof. intros f p ops s evs o Hf Hp. exact (no_panic f p Hf Hp ops s evs o). Qed.
Print Assumptions c12_no_panic.

(** Regression lemmas: the two guard mutations break the property on the model.
    [>=] -> [>] in TickLater: two notifications in one instant queue two tick
    events with the same time. *)
Theorem c12_guard_gt_mutation_refuted :
  exists s1 s2 o1 o2,
    tick_later_g GGt false 1000000000 init = Some (s1, o1) /\
    tick_later_g GGt false 1000000000 s1 = Some (s2, o2) /\ pend s2 = [1000; 1000].
Proof. do 4 eexists. split; [vm_compute; reflexivity|]. split; [vm_compute; reflexivity|]. vm_compute. repeat split. Qed.
Print Assumptions c12_guard_gt_mutation_refuted.

(** NextTick -> ThisTick in TickLater: after a tick at an edge that made progress
    the re-tick request is dropped by the guard. *)
Theorem c12_this_tick_mutation_refuted :
  let s := mk_st true 1000 [] 1000 true (Some 1000) in   (* inside Handle of the tick at 1000 ps, 1 GHz *)
  tick_later_g GGe true 1000000000 s = Some (s, ODrop) /\
  exists s', tick_later 1000000000 s = Some (s', OSched 2000).
Proof. split; [reflexivity|eexists; reflexivity]. Qed.
Print Assumptions c12_this_tick_mutation_refuted.

(** Beyond the representable range the code silently stops re-ticking: the wrapped
    next edge is "before" the guard's time (1 GHz, last edges before 2^64). *)
Theorem c12_wrap_stops_ticking_witness :
  let t := 18446744073709551000 in
  let s := mk_st true t [] t true (Some t) in
  tick_later 1000000000 s = Some (s, ODrop) /\ fits 1000000000 s = false.
Proof. split; reflexivity. Qed.
Print Assumptions c12_wrap_stops_ticking_witness.

(** Non-vacuity: a history with duplicate same-instant requests, a self call from
    inside Tick(), progress, and a 1.5 GHz clock (period 666 ps) satisfies the hypotheses. *)
Example c12_nonvacuous :
  in_range 1500000000 /\ period 1500000000 = Some 666 /\
  exists s evs,
    exec 1500000000 init
      [Adv 100; Call KNotifyRecv; Call KNotifyRecv; Call KTickNow; Adv 666; Pop; Call KTickLater; Ret true;
       Call KNotifyPortFree; Adv 700; Call KTickNow; Pop; Ret true; Adv 1500; Pop; Ret false] = Some (s, evs)
    /\ pops evs = [666; 1332; 1998].
Proof. split; [unfold in_range; lia|]. split; [reflexivity|]. do 2 eexists. vm_compute. split; reflexivity. Qed.

(** The predicate evaluated on the implementation's observed histories
    ([Exec.holds_on]: the four clauses re-checked without the model) is implied by
    step-by-step agreement of those histories with the model ([Exec.check_case]),
    for cases whose frequencies are in 1 Hz..1 THz and whose engine times all have
    a representable next clock edge ([Exec.wf_case]). *)
From Akita Require Import C12.Exec C12.Link.
Theorem c12_model_agreement_implies_property : forall c,
  wf_case c = true -> check_case c = true -> holds_on c = true.
Proof. exact check_implies_holds. Qed.
Print Assumptions c12_model_agreement_implies_property.

(** Non-vacuity of the hypotheses of clauses 3 and 4 (700 MHz, period 1428 ps):
    a history ending in [Ret true] resp. a notification, and a continuation in
    which other handlers run, a duplicate request arrives and the tick is dispatched. *)
Example c12_progress_reticks_nonvacuous :
  exists s1 evs1 s2 evs2,
    exec 700000000 init ([Adv 10; Call KTickNow; Adv 1428; Pop] ++ [Ret true]) = Some (s1, evs1) /\
    exec 700000000 s1 [Adv 2000; Call KTickNow; Call KNotifyRecv; Adv 2856; Pop; Ret false] = Some (s2, evs2) /\
    now s1 = 1428 /\ least_multiple_gt 1428 (now s1) = 2856 /\ pops evs2 = [2856].
Proof. do 4 eexists. split; [vm_compute; reflexivity|]. split; [vm_compute; reflexivity|]. vm_compute. repeat split. Qed.

Example c12_notify_later_edge_nonvacuous :
  exists s1 evs1 s2 evs2,
    exec 700000000 init ([Adv 1428; Call KTickNow] ++ [Call KNotifyPortFree]) = Some (s1, evs1) /\
    exec 700000000 s1 [Pop; Ret false; Adv 2000; Pop; Ret false] = Some (s2, evs2) /\
    now s1 = 1428 /\ pops evs2 = [1428; 2856] /\ least_multiple_gt 1428 1428 = 2856.
Proof. do 4 eexists. split; [vm_compute; reflexivity|]. split; [vm_compute; reflexivity|]. vm_compute. repeat split. Qed.

Example c12_link_nonvacuous :
  let c := mk_case [mk_comp 1000000000
      [EAdv 5; ECall KNotifyRecv 5 (OSched 1000); ECall KTickNow 5 ODrop; EPop 1000; ERet true (OSched 2000);
       EPop 2000; ERet false ODrop]] true in
  wf_case c = true /\ check_case c = true /\ holds_on c = true.
Proof. vm_compute. repeat split. Qed.

(** Clauses 1 and 2 WITHOUT the representable-range hypothesis: for every
    frequency 1 Hz..1 THz and every legal history over 64-bit engine times that
    did not panic ([WrapSafe.run] is [exec] without the range check) — including
    histories in which ThisTick / NextTick wrap around 2^64 — every tick time is a
    multiple of the period, tick times are strictly increasing, and no two queued
    tick events share a time.  (Clauses 3 and 4 are false beyond the range: see
    [c12_wrap_stops_ticking_witness].) *)
From Akita Require Import C12.WrapSafe.
Theorem c12_on_edge_once_per_instant_all_histories : forall f p ops s evs,
  in_range f -> period f = Some p -> times64 ops ->
  run f init ops = Some (s, evs) ->
  Forall (fun t => t mod p = 0) (pops evs) /\ StronglySorted N.lt (pops evs) /\
  StronglySorted N.lt (pend s).
Proof.
  intros f p ops s evs Hf Hp Ht H.
  destruct (run_safe f p Hf Hp ops init s evs (w_init p) Ht H) as [A [B [_ D]]].
  split; [exact A|]. split; [exact B|exact (w_sorted p s D)].
Qed.
Print Assumptions c12_on_edge_once_per_instant_all_histories.

(** non-vacuity: a 1 GHz history that runs into the wrap (the last re-tick requests are dropped;
    a TickNow issued there would wrap NextTick below the engine time and panic in engine.Schedule) *)
Example c12_all_histories_nonvacuous :
  exists s evs,
    run 1000000000 init [Adv 18446744073709549115; Call KTickLater; Pop; Ret true; Pop; Ret true;
                         Call KNotifyRecv] = Some (s, evs) /\
    pops evs = [18446744073709550000; 18446744073709551000] /\ pend s = [] /\
    times64 [Adv 18446744073709549115].
Proof. do 2 eexists. split; [vm_compute; reflexivity|]. vm_compute. repeat split. Qed.
