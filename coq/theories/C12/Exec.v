(** C12 — case evaluators.  A case is one run of a real timing.SerialEngine with
    several real modeling.TickingComponent objects (different frequencies,
    primary and secondary), scripted environment events and scripted Tick()
    functions.  For every component the harness projects the run onto that
    component: the list [ev] of engine time advances, calls (with what the
    scheduler really handed to engine.Schedule), dispatched tick events and
    Tick() results, in the order they happened. *)
From Akita Require Import Lib.Base C42.Model C12.Model.
Local Open Scope N_scope.

Record comp := mk_comp { cc_f : N; cc_hist : list ev }.
Record case := mk_case { c_comps : list comp; c_completed : bool }.

Definition callk_eqb (a b : callk) : bool :=
  match a, b with
  | KTickNow, KTickNow | KTickLater, KTickLater
  | KNotifyRecv, KNotifyRecv | KNotifyPortFree, KNotifyPortFree => true
  | _, _ => false
  end.

Definition obs_eqb (a b : obs) : bool :=
  match a, b with
  | ODrop, ODrop => true
  | OSched x, OSched y => x =? y
  | OPanic, OPanic => true
  | _, _ => false
  end.

Definition ev_eqb (a b : ev) : bool :=
  match a, b with
  | EAdv x, EAdv y => x =? y
  | ECall k x o, ECall k' y o' => callk_eqb k k' && (x =? y) && obs_eqb o o'
  | EPop x, EPop y => x =? y
  | ERet b o, ERet b' o' => Bool.eqb b b' && obs_eqb o o'
  | _, _ => false
  end.

(** the observed event reports a panic at the current engine time *)
Definition panic_ev (s : st) (e : ev) : bool :=
  match e with
  | ECall _ t OPanic => t =? now s
  | ERet true OPanic => true
  | _ => false
  end.

(** outcome of replaying one component's observed history on the model *)
Inductive rres := RBad | RDone | RPanicEnd.

(** model replay of one component's observed history: every observation must be
    what the model predicts, every environment step must be legal, a run that
    returned normally leaves no tick event behind; a run that aborted must end,
    for some component, exactly where the model panics. *)
Fixpoint replay (f : N) (completed : bool) (s : st) (es : list ev) : rres :=
  match es with
  | [] => if completed
          then (if negb (inh s) && (match pend s with [] => true | _ => false end) then RDone else RBad)
          else RDone
  | e :: r =>
      match step f s (op_of e) with
      | Ok s' e' => if ev_eqb e e' then replay f completed s' r else RBad
      | Panic => if panic_ev s e && (match r with [] => true | _ => false end) && negb completed
                 then RPanicEnd else RBad
      | Illegal => RBad
      end
  end.

Definition not_bad (r : rres) : bool := match r with RBad => false | _ => true end.
Definition is_panic_end (r : rres) : bool := match r with RPanicEnd => true | _ => false end.

Definition check_case (c : case) : bool :=
  forallb (fun k => not_bad (replay (cc_f k) (c_completed c) init (cc_hist k))) (c_comps c)
  && (c_completed c ||
      existsb (fun k => is_panic_end (replay (cc_f k) (c_completed c) init (cc_hist k))) (c_comps c)).

(** ------------------------------------------------------------------ *)
(** The property itself on the observed history, without the model.     *)

Fixpoint strictly_increasing (l : list N) : bool :=
  match l with
  | [] => true
  | x :: r => (match r with [] => true | y :: _ => x <? y end) && strictly_increasing r
  end.

(** first dispatched tick strictly after time [t] *)
Fixpoint first_pop_after (t : N) (es : list ev) : option N :=
  match es with
  | [] => None
  | EPop u :: r => if t <? u then Some u else first_pop_after t r
  | _ :: r => first_pop_after t r
  end.

(** after a tick that made progress at [t] / a notification at [t], the next tick
    after [t] is at the next clock edge (when that edge is representable);
    a run that did not complete may stop before it. *)
Definition next_edge_ok (p : N) (completed : bool) (t : N) (rest : list ev) : bool :=
  if least_multiple_gt p t <? two64 then
    match first_pop_after t rest with
    | Some u => u =? least_multiple_gt p t
    | None => negb completed
    end
  else true.

Definition is_later_call (k : callk) : bool :=
  match k with KTickNow => false | _ => true end.

Fixpoint obligations (p : N) (completed : bool) (cur : N) (es : list ev) : bool :=
  match es with
  | [] => true
  | EAdv t :: r => obligations p completed t r
  | EPop t :: r => obligations p completed t r
  | ECall k t _ :: r =>
      (if is_later_call k then next_edge_ok p completed t r else true)
      && obligations p completed t r
  | ERet b _ :: r =>
      (if b then next_edge_ok p completed cur r else true)
      && obligations p completed cur r
  end.

Definition freq_ok (f : N) : bool := (1 <=? f) && (f <=? ps_per_second).

Definition comp_holds (completed : bool) (k : comp) : bool :=
  if freq_ok (cc_f k) then
    let p := ps_per_second / cc_f k in
    forallb (fun t => t mod p =? 0) (pops (cc_hist k))
    && strictly_increasing (pops (cc_hist k))
    && obligations p completed 0 (cc_hist k)
  else true.

(** a run may only abort (Go panic) when a component's next clock edge is not
    representable in 64 bits or its frequency is outside 1 Hz..1 THz *)
Fixpoint last_time (cur : N) (es : list ev) : N :=
  match es with
  | [] => cur
  | EAdv t :: r | EPop t :: r | ECall _ t _ :: r => last_time t r
  | ERet _ _ :: r => last_time cur r
  end.

Fixpoint ends_in_panic (es : list ev) : bool :=
  match es with
  | [] => false
  | [ECall _ _ OPanic] | [ERet _ OPanic] => true
  | _ :: r => ends_in_panic r
  end.

Definition abort_excused (k : comp) : bool :=
  ends_in_panic (cc_hist k) &&
  (negb (freq_ok (cc_f k)) ||
   (two64 <=? least_multiple_gt (ps_per_second / cc_f k) (last_time 0 (cc_hist k)))).

Definition holds_on (c : case) : bool :=
  forallb (comp_holds (c_completed c)) (c_comps c)
  && (c_completed c || existsb abort_excused (c_comps c)).

(** well-formed for the link theorem: frequencies in 1 Hz..1 THz and every
    engine time of the history has a representable next clock edge *)
Definition ev_fits (p : N) (e : ev) : bool :=
  match e with
  | EAdv t | ECall _ t _ | EPop t => least_multiple_gt p t <? two64
  | ERet _ _ => true
  end.

Definition wf_case (c : case) : bool :=
  forallb (fun k => freq_ok (cc_f k) && forallb (ev_fits (ps_per_second / cc_f k)) (cc_hist k)) (c_comps c).
