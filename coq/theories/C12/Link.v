(** C12 — agreement with the model implies the property predicate on the
    observed history ([Exec.check_case] -> [Exec.holds_on]) for well-formed cases
    (frequencies in range, every engine time has a representable next edge). *)
From Coq Require Import Sorting.Sorted.
From Akita Require Import Lib.Base C42.Model C42.Proofs C12.Model C12.Proofs C12.Exec.
Local Open Scope N_scope.

Lemma callk_eqb_eq a b : callk_eqb a b = true -> a = b.
Proof. destruct a, b; cbn; congruence. Qed.

Lemma obs_eqb_eq a b : obs_eqb a b = true -> a = b.
Proof. destruct a, b; cbn; try discriminate; try reflexivity. intro H. apply N.eqb_eq in H. congruence. Qed.

Lemma ev_eqb_eq a b : ev_eqb a b = true -> a = b.
Proof.
  destruct a, b; cbn; try discriminate; intro H.
  - apply N.eqb_eq in H. congruence.
  - apply andb_true_iff in H. destruct H as [H H3]. apply andb_true_iff in H. destruct H as [H1 H2].
    apply callk_eqb_eq in H1. apply N.eqb_eq in H2. apply obs_eqb_eq in H3. congruence.
  - apply N.eqb_eq in H. congruence.
  - apply andb_true_iff in H. destruct H as [H1 H2]. apply Bool.eqb_prop in H1.
    apply obs_eqb_eq in H2. congruence.
Qed.

Lemma strictly_increasing_sorted l : StronglySorted N.lt l -> strictly_increasing l = true.
Proof.
  induction 1 as [|a l Hs IH Hall]; [reflexivity|].
  cbn [strictly_increasing]. rewrite IH, andb_true_r.
  destruct l as [|y r]; [reflexivity|]. inversion Hall; subst. apply N.ltb_lt. assumption.
Qed.

Section WithFreq.
Variable f p : N.
Hypothesis Hf : in_range f.
Hypothesis Hp : period f = Some p.

Let Hp1 : 1 <= p.
Proof.
  destruct (period_in_range f Hf) as [p' [Hp' [H1 _]]]. rewrite Hp in Hp'.
  inversion Hp'; subst. exact H1.
Qed.

Notation lmgt := (least_multiple_gt p).
Notation Inv := (Inv p).

(** the time of the state after a step is the event's time, or unchanged *)
Lemma step_fits s e s' : Inv s -> step f s (op_of e) = Ok s' e -> ev_fits p e = true -> fits f s' = true.
Proof.
  intros HI Hs He. apply (fits_spec f p Hp).
  destruct e as [t|k a o|t|b o]; cbn [op_of ev_fits] in *.
  - cbn [step] in Hs. destruct (inh s); [discriminate|]. destruct (t <? now s); [discriminate|].
    destruct (forallb _ _); [|discriminate]. inversion Hs; subst. cbn [now]. apply N.ltb_lt. exact He.
  - cbn [step] in Hs. destruct (do_call_ok f p Hf Hp k s HI) as [s1 [o1 [H1 [_ [Hn _]]]]].
    rewrite H1 in Hs. inversion Hs; subst. rewrite Hn. exact (inv_fit p s HI).
  - destruct (pop_ok f p s s' _ HI Hs) as [t' [r [_ [E [_ ->]]]]]. inversion E; subst. cbn [now].
    apply N.ltb_lt. exact He.
  - cbn [step] in Hs. destruct (negb (inh s)); [discriminate|]. destruct b.
    + destruct (tick_later_ok f p Hf Hp s HI) as [s1 [o1 [H1 [_ [Hn _]]]]].
      rewrite H1 in Hs. inversion Hs; subst. cbn [now]. rewrite Hn. exact (inv_fit p s HI).
    + inversion Hs; subst. cbn [now]. exact (inv_fit p s HI).
Qed.

Lemma step_no_panic s o : Inv s -> step f s o <> Panic.
Proof.
  intro HI. destruct o as [t|k| |b]; cbn [step].
  - destruct (inh s); [discriminate|]. destruct (t <? now s); [discriminate|].
    destruct (forallb _ _); discriminate.
  - destruct (do_call_ok f p Hf Hp k s HI) as [s' [o [Hc _]]]. rewrite Hc. discriminate.
  - destruct (inh s); [discriminate|]. destruct (list_min (pend s)); [|discriminate].
    destruct (_ <? _); discriminate.
  - destruct (negb (inh s)); [discriminate|]. destruct b; [|discriminate].
    destruct (tick_later_ok f p Hf Hp s HI) as [s' [o [Hc _]]]. rewrite Hc. discriminate.
Qed.

(** a well-formed replayed history is an [exec] history of the model *)
Lemma replay_exec c : forall es s, Inv s -> forallb (ev_fits p) es = true ->
  replay f c s es <> RBad ->
  exists s', exec f s (map op_of es) = Some (s', es) /\
             (c = true -> pend s' = [] /\ inh s' = false) /\ replay f c s es = RDone.
Proof.
  induction es as [|e r IH]; intros s HI Hw Hr.
  - exists s. split; [reflexivity|]. cbn [replay] in *. destruct c.
    + destruct (inh s); cbn [negb andb] in *; [congruence|].
      destruct (pend s); [|congruence]. auto.
    + split; [discriminate|reflexivity].
  - cbn [forallb] in Hw. apply andb_true_iff in Hw. destruct Hw as [He Hw].
    cbn [replay] in Hr |- *. cbn [map exec].
    destruct (step f s (op_of e)) as [s1 e1| |] eqn:Es.
    + destruct (ev_eqb e e1) eqn:Ee; [|congruence]. apply ev_eqb_eq in Ee. subst e1.
      pose proof (step_fits _ _ _ HI Es He) as Hfit. rewrite Hfit.
      pose proof (inv_step f p Hf Hp _ _ _ _ HI Es Hfit) as HI1.
      destruct (IH s1 HI1 Hw Hr) as [s' [Hex [Hc Hd]]]. rewrite Hex. exists s'. auto.
    + exfalso. exact (step_no_panic s (op_of e) HI Es).
    + congruence.
Qed.

(** the tick at the next edge after [t] is the first tick after [t] *)
Lemma first_pop_after_edge t u ops : forall s s' evs, Inv s ->
  t < u -> In u (pend s) -> Forall (fun x => x <= t \/ u <= x) (pend s) ->
  exec f s ops = Some (s', evs) ->
  match first_pop_after t evs with
  | Some v => v = u
  | None => In u (pend s')
  end.
Proof.
  induction ops as [|o r IH]; intros s s' evs HI Htu Hin Hall H.
  - inversion H; subst. exact Hin.
  - destruct (exec_cons f _ _ _ _ _ H) as [s1 [e [es [H1 [H2 [H3 ->]]]]]].
    pose proof (inv_step f p Hf Hp _ _ _ _ HI H1 H2) as HI1.
    assert (Hext : forall s2, grows s s2 ->
                   In u (pend s2) /\ Forall (fun x => x <= t \/ u <= x) (pend s2)).
    { intros s2 [->|[Hh [Hlt Hpd']]]; [split; assumption|].
      rewrite Hpd'. split; [apply in_or_app; left; exact Hin|].
      apply Forall_app. split; [exact Hall|]. constructor; [|constructor].
      right. pose proof (inv_bound p s HI) as Hb. rewrite Forall_forall in Hb. specialize (Hb u Hin).
      assert (Hhs : has s = true).
      { destruct (has s) eqn:Eh; [reflexivity|]. rewrite (inv_nohas p s HI Eh) in Hin. destruct Hin. }
      specialize (Hlt Hhs). lia. }
    destruct o as [t0|k| |b].
    + cbn [step] in H1. destruct (inh s); [discriminate|]. destruct (t0 <? now s); [discriminate|].
      destruct (forallb _ _); [|discriminate]. inversion H1; subst. cbn [first_pop_after].
      apply (IH _ _ _ HI1 Htu); [exact Hin|exact Hall|exact H3].
    + cbn [step] in H1. destruct (do_call_ok f p Hf Hp k s HI) as [s2 [o [Hc [_ [_ [_ [[ext Hpd] Hg]]]]]]].
      rewrite Hc in H1. inversion H1; subst. cbn [first_pop_after].
      destruct (Hext _ Hg) as [A B]. apply (IH _ _ _ HI1 Htu A B H3).
    + destruct (pop_ok f p s s1 e HI H1) as [v [r' [Ep [-> [Ei ->]]]]].
      cbn [first_pop_after]. rewrite Ep in Hin, Hall.
      inversion Hall as [|? ? Hv Hall']; subst.
      pose proof (inv_sorted p s HI) as Hs. rewrite Ep in Hs. inversion Hs as [|? ? Hs' Hlt]; subst.
      destruct (t <? v) eqn:Etv.
      * destruct Hv as [Hv|Hv]; [lia|]. destruct Hin as [->|Hin]; [reflexivity|].
        rewrite Forall_forall in Hlt. specialize (Hlt u Hin). lia.
      * destruct Hin as [->|Hin]; [lia|].
        apply (IH _ _ _ HI1 Htu); [exact Hin|exact Hall'|exact H3].
    + cbn [step] in H1. destruct (negb (inh s)); [discriminate|]. destruct b.
      * destruct (tick_later_ok f p Hf Hp s HI) as [s2 [o [Hc [_ [_ [_ [_ [_ [[ext Hpd] [_ Hg]]]]]]]]]].
        rewrite Hc in H1. inversion H1; subst. cbn [first_pop_after].
        destruct (Hext _ Hg) as [A B].
        apply (IH _ _ _ HI1 Htu); [exact A|exact B|exact H3].
      * inversion H1; subst. cbn [first_pop_after].
        apply (IH _ _ _ HI1 Htu); [exact Hin|exact Hall|exact H3].
Qed.

Lemma edge_all s : Inv s -> Forall (fun x => x <= now s \/ lmgt (now s) <= x) (pend s).
Proof.
  intro HI. pose proof (inv_pend p s HI) as Hpd. eapply Forall_impl; [|exact Hpd].
  cbn. intros x [Hge Hm]. destruct (N.eq_dec x (now s)) as [->|Hne]; [left; lia|right].
  apply (multiple_gt_ge_lmgt f p Hf Hp); [exact Hm|lia].
Qed.

Lemma next_edge_from c s1 s' r : Inv s1 -> In (lmgt (now s1)) (pend s1) ->
  exec f s1 (map op_of r) = Some (s', r) -> (c = true -> pend s' = []) ->
  next_edge_ok p c (now s1) r = true.
Proof.
  intros HI Hin Hex Hc. unfold next_edge_ok.
  pose proof (inv_fit p s1 HI) as Hfit. apply N.ltb_lt in Hfit. rewrite Hfit.
  destruct (lmgt_spec p (now s1) Hp1) as [_ [Hgt _]].
  pose proof (first_pop_after_edge (now s1) (lmgt (now s1)) _ _ _ _ HI Hgt Hin (edge_all s1 HI) Hex) as Hb.
  destruct (first_pop_after (now s1) r) as [v|]; [apply N.eqb_eq; exact Hb|].
  destruct c; [|reflexivity]. rewrite (Hc eq_refl) in Hb. destruct Hb.
Qed.

Lemma obligations_ok c : forall es s s', Inv s ->
  exec f s (map op_of es) = Some (s', es) -> (c = true -> pend s' = []) ->
  obligations p c (now s) es = true.
Proof.
  induction es as [|e r IH]; intros s s' HI Hex Hc; [reflexivity|].
  cbn [map] in Hex.
  destruct (exec_cons f _ _ _ _ _ Hex) as [s1 [e0 [es0 [H1 [H2 [H3 E]]]]]].
  inversion E; subst e0 es0. clear E.
  pose proof (inv_step f p Hf Hp _ _ _ _ HI H1 H2) as HI1.
  destruct e as [t|k a o|t|b o]; cbn [op_of] in H1; cbn [obligations].
  - assert (now s1 = t).
    { cbn [step] in H1. destruct (inh s); [discriminate|]. destruct (t <? now s); [discriminate|].
      destruct (forallb _ _); [|discriminate]. inversion H1; subst. reflexivity. }
    subst t. apply (IH _ _ HI1 H3 Hc).
  - cbn [step] in H1.
    destruct (do_call k f s) as [[s2 o2]|] eqn:Ec; [|discriminate]. inversion H1; subst s2 a o2. clear H1.
    destruct (do_call_ok f p Hf Hp k s HI) as [s2 [o2 [Hc2 [_ [Hn _]]]]].
    rewrite Ec in Hc2. inversion Hc2; subst s2 o2. clear Hc2.
    rewrite <- Hn. rewrite (IH _ _ HI1 H3 Hc), andb_true_r.
    destruct (is_later_call k) eqn:Ek; [|reflexivity].
    apply (next_edge_from c s1 s' r HI1); [|exact H3|exact Hc].
    destruct (tick_later_ok f p Hf Hp s HI) as [s3 [o3 [Ht [_ [Hn3 [_ [_ [Hin _]]]]]]]].
    assert (Hd : do_call k f s = tick_later f s) by (destruct k; [discriminate|..]; reflexivity).
    rewrite Hd, Ht in Ec. inversion Ec; subst s3 o3. rewrite Hn. exact Hin.
  - assert (now s1 = t).
    { destruct (pop_ok f p s s1 _ HI H1) as [t' [r' [_ [E [_ ->]]]]]. inversion E; subst. reflexivity. }
    subst t. apply (IH _ _ HI1 H3 Hc).
  - cbn [step] in H1. destruct (negb (inh s)) eqn:Ei; [discriminate|]. destruct b.
    + destruct (tick_later_ok f p Hf Hp s HI) as [s3 [o3 [Ht [_ [Hn3 [_ [_ [Hin _]]]]]]]].
      rewrite Ht in H1. inversion H1; subst s1 o. clear H1.
      assert (Hn : now (mk_st (has s3) (next s3) (pend s3) (now s3) false (hdl s3)) = now s) by exact Hn3.
      rewrite <- Hn. rewrite (IH _ _ HI1 H3 Hc), andb_true_r.
      apply (next_edge_from c _ s' r HI1); [|exact H3|exact Hc].
      cbn [now pend]. rewrite Hn3. exact Hin.
    + inversion H1; subst s1 o. clear H1.
      change (now s) with (now (mk_st (has s) (next s) (pend s) (now s) false (hdl s))).
      apply (IH _ _ HI1 H3 Hc).
Qed.

(** one component: agreement with the model implies the three C12 checks *)
Lemma comp_link c hist : forallb (ev_fits p) hist = true ->
  replay f c init hist <> RBad ->
  replay f c init hist = RDone /\
  forallb (fun t => t mod p =? 0) (pops hist) && strictly_increasing (pops hist)
  && obligations p c 0 hist = true.
Proof.
  intros Hw Hr. pose proof (inv_init f p Hf Hp) as HI0.
  destruct (replay_exec c hist init HI0 Hw Hr) as [s' [Hex [Hc Hd]]]. split; [exact Hd|].
  destruct (pops_on_edge f p Hf Hp _ _ _ _ HI0 Hex) as [Hedge _].
  destruct (pops_increasing f p Hf Hp _ _ _ _ HI0 Hex) as [Hinc _].
  apply andb_true_iff. split; [apply andb_true_iff; split|].
  - apply forallb_forall. intros t Ht. rewrite Forall_forall in Hedge.
    apply N.eqb_eq. exact (proj1 (Hedge t Ht)).
  - apply strictly_increasing_sorted. exact Hinc.
  - change 0 with (now init). apply (obligations_ok c hist init s' HI0 Hex).
    intro E. exact (proj1 (Hc E)).
Qed.

End WithFreq.

Lemma freq_ok_range f : freq_ok f = true -> in_range f /\ period f = Some (ps_per_second / f).
Proof.
  unfold freq_ok, in_range. intro H. apply andb_true_iff in H. destruct H as [H1 H2].
  apply N.leb_le in H1. apply N.leb_le in H2. unfold ps_per_second in *. split; [lia|].
  unfold period. destruct (f =? 0) eqn:E; [apply N.eqb_eq in E; lia|reflexivity].
Qed.

Theorem check_implies_holds c : wf_case c = true -> check_case c = true -> holds_on c = true.
Proof.
  unfold wf_case, check_case, holds_on. intros Hw H.
  apply andb_true_iff in H. destruct H as [H1 H2].
  rewrite forallb_forall in Hw, H1.
  assert (Hk : forall k, In k (c_comps c) ->
            replay (cc_f k) (c_completed c) init (cc_hist k) = RDone /\
            comp_holds (c_completed c) k = true).
  { intros k Hin. specialize (Hw k Hin). specialize (H1 k Hin).
    apply andb_true_iff in Hw. destruct Hw as [Hfo Hfit].
    destruct (freq_ok_range _ Hfo) as [Hf Hp].
    destruct (comp_link (cc_f k) _ Hf Hp (c_completed c) (cc_hist k) Hfit) as [Hd Hh].
    { intro E. rewrite E in H1. discriminate. }
    split; [exact Hd|]. unfold comp_holds. rewrite Hfo. exact Hh. }
  apply andb_true_iff. split.
  - apply forallb_forall. intros k Hin. exact (proj2 (Hk k Hin)).
  - destruct (c_completed c) eqn:Ec; [reflexivity|]. cbn [orb] in H2.
    apply existsb_exists in H2. destruct H2 as [k [Hin Hpe]].
    rewrite (proj1 (Hk k Hin)) in Hpe. discriminate.
Qed.
