(** C20 — corollaries, the link between the two evaluators, regression lemmas. *)
From Coq Require Import Permutation.
From Akita Require Import Lib.Base C20.Model C20.Proofs1 C20.Proofs2 C20.Proofs3 C20.Proofs4 C20.Exec.
Local Open Scope N_scope.

Lemma flat_main cap unit ops :
  0 < unit -> unit < two64 -> cap < two64 -> Forall wf_op ops ->
  map proj (snd (run false (new_storage cap unit) ops)) = map Some (snd (run_flat cap unit [] ops)) /\
  (forall a, contents (fst (run false (new_storage cap unit) ops)) a =
             flat_get (fst (run_flat cap unit [] ops)) a).
Proof.
  intros Hu Hu64 Hc W.
  destruct (run_refines cap unit ops _ _ (ref_new cap unit Hu Hu64 Hc) W) as [P R].
  rewrite run_eq, run_flat_eq. cbn [fst snd].
  split; [exact P|apply (proj1 R)].
Qed.

(** the flat reference does not look at the unit size, except to compare shape headers *)
Definition shape_free (o : op) : bool := match o with OLoadShape _ _ => false | _ => true end.

Lemma runx_flat_unit_free cap u1 u2 : forall ops x, forallb shape_free ops = true ->
  runx_flat cap u1 x ops = runx_flat cap u2 x ops.
Proof.
  induction ops as [|o r IH]; intros x H; [reflexivity|].
  cbn [forallb] in H. apply andb_true_iff in H. destruct H as [Ho Hr].
  cbn [runx_flat]. assert (E : flat_step cap u1 x o = flat_step cap u2 x o)
    by (destruct x; destruct o; try reflexivity; discriminate).
  rewrite E. destruct (flat_step cap u2 x o) as [x1 b]. rewrite (IH x1 Hr). reflexivity.
Qed.

Lemma run_flat_unit_free cap u1 u2 ops l : forallb shape_free ops = true ->
  run_flat cap u1 l ops = run_flat cap u2 l ops.
Proof. intro H. unfold run_flat. rewrite (runx_flat_unit_free cap u1 u2 ops _ H). reflexivity. Qed.

Lemma unit_irrelevant cap u1 u2 ops :
  0 < u1 -> u1 < two64 -> 0 < u2 -> u2 < two64 -> cap < two64 ->
  Forall wf_op ops -> forallb shape_free ops = true ->
  map proj (snd (run false (new_storage cap u1) ops)) = map proj (snd (run false (new_storage cap u2) ops)) /\
  (forall a, contents (fst (run false (new_storage cap u1) ops)) a =
             contents (fst (run false (new_storage cap u2) ops)) a).
Proof.
  intros H1 H1' H2 H2' Hc W F.
  destruct (flat_main cap u1 ops H1 H1' Hc W) as [P1 C1].
  destruct (flat_main cap u2 ops H2 H2' Hc W) as [P2 C2].
  rewrite (run_flat_unit_free cap u1 u2 ops [] F) in *. split; [congruence|].
  intro a. rewrite C1, C2. reflexivity.
Qed.

(** reachable states satisfy the invariant *)
Lemma run_inv cap unit ops :
  0 < unit -> unit < two64 -> cap < two64 -> Forall wf_op ops ->
  Inv (fst (run false (new_storage cap unit) ops)).
Proof.
  intros Hu Hu64 Hc W.
  destruct (run_refines cap unit ops _ _ (ref_new cap unit Hu Hu64 Hc) W) as [_ R].
  rewrite run_eq. cbn [fst]. apply (proj1 R).
Qed.

Lemma ckpt_roundtrip st iter : Inv st -> Permutation iter (s_data st) ->
  save_iter iter st = save st /\
  exists st', load (new_storage (s_cap st) (s_unit st)) (save_iter iter st) = Some st' /\
              Inv st' /\ s_cap st' = s_cap st /\ s_unit st' = s_unit st /\
              (forall a, contents st' a = contents st a) /\
              save st' = save st.
Proof.
  intros I P. rewrite (save_iter_perm iter st P). split; [reflexivity|].
  assert (Sh : same_shape (new_storage (s_cap st) (s_unit st)) st) by (split; reflexivity).
  destruct (load_save st _ I Sh) as [st' [L [I' [[Sc Su] M]]]].
  exists st'. repeat (split; [assumption|]). split.
  - apply contents_meq; assumption.
  - apply save_meq; [exact I|exact I'|split; assumption|exact M].
Qed.

(** ** link between the evaluators *)
Lemma rres_eqb_eq a b : rres_eqb a b = true -> a = b.
Proof.
  destruct a, b; cbn; try discriminate; try reflexivity.
  intro H. apply listN_eqb_eq in H. congruence.
Qed.

Lemma obs_eqb_eq a b : obs_eqb a b = true -> a = b.
Proof.
  destruct a as [x|s1 k1 r1|k1|s1], b as [y|s2 k2 r2|k2|s2]; cbn; try discriminate.
  - intro H. apply rres_eqb_eq in H. congruence.
  - intro H. apply andb_true_iff in H. destruct H as [H1 H3]. apply andb_true_iff in H1. destruct H1 as [H1 H2].
    apply listN_eqb_eq in H1. apply Bool.eqb_prop in H2. apply Bool.eqb_prop in H3. congruence.
  - intro H. apply Bool.eqb_prop in H. congruence.
  - intro H. apply listN_eqb_eq in H. congruence.
Qed.

Lemma list_eqb_sound {A} (eqb : A -> A -> bool) (Hs : forall x y, eqb x y = true -> x = y) a b :
  list_eqb eqb a b = true -> a = b.
Proof.
  revert b. induction a as [|x a IH]; intros [|y b]; cbn [list_eqb]; try discriminate; [reflexivity|].
  intro H. apply andb_true_iff in H. destruct H as [H1 H2]. f_equal; auto.
Qed.

Lemma list_eqb_refl {A} (eqb : A -> A -> bool) (Hr : forall x, eqb x x = true) a :
  list_eqb eqb a a = true.
Proof. induction a as [|x a IH]; cbn [list_eqb]; [reflexivity|]. rewrite Hr, IH. reflexivity. Qed.

Lemma fobs_eqb_refl x : fobs_eqb x x = true.
Proof. destruct x; cbn; [apply listN_eqb_eq|]; reflexivity. Qed.

Definition wf_case (c : case) : Prop :=
  c_cap c < two64 /\ c_unit c < two64 /\ Forall wf_op (c_ops c).

Lemma check_implies_holds c : wf_case c -> check_case c = true -> holds_on c = true.
Proof.
  intros [Hc [Hu W]] H. unfold check_case in H. apply (list_eqb_sound _ obs_eqb_eq) in H.
  unfold holds_on. destruct (c_unit c =? 0) eqn:E0; [reflexivity|].
  rewrite <- H.
  destruct (flat_main (c_cap c) (c_unit c) (c_ops c) ltac:(lia) Hu Hc W) as [P _].
  rewrite P. apply list_eqb_refl. intros [x|]; cbn; [apply fobs_eqb_refl|reflexivity].
Qed.

(** ** the code before the fix (old = true) *)

(** a write at address == capacity succeeded and the byte was stored beyond the capacity *)
Lemma old_at_capacity :
  let '(st, outs) := run true (new_storage 16 8) [OWrite 16 [9]; ORead 16 1] in
  outs = [BRes (ROk []); BRes (ROk [9])] /\
  snd (run_flat 16 8 [] [OWrite 16 [9]; ORead 16 1]) = [FErr; FErr] /\
  snd (run false (new_storage 16 8) [OWrite 16 [9]; ORead 16 1]) = [BRes RErr; BRes RErr].
Proof. vm_compute. repeat split. Qed.

(** a write spanning the capacity was applied up to the end of the unit, then failed:
    an error that changed the contents (address 6..9 of a 10-byte storage) *)
Lemma old_spanning :
  let ops := [OWrite 6 [1; 2; 3; 4; 5; 6; 7; 8]; ORead 0 10] in
  snd (run true (new_storage 10 4) ops) = [BRes RErr; BRes (ROk [0; 0; 0; 0; 0; 0; 1; 2; 3; 4])] /\
  snd (run_flat 10 4 [] ops) = [FErr; FOk [0; 0; 0; 0; 0; 0; 0; 0; 0; 0]] /\
  snd (run false (new_storage 10 4) ops) = [BRes RErr; BRes (ROk [0; 0; 0; 0; 0; 0; 0; 0; 0; 0])].
Proof. vm_compute. repeat split. Qed.

(** a read whose address + len wraps 2^64 returned len zero bytes without error *)
Lemma old_wrap :
  let ops := [ORead 18446744073709551612 8] in
  snd (run true (new_storage 100 16) ops) = [BRes (ROk [0; 0; 0; 0; 0; 0; 0; 0])] /\
  snd (run_flat 100 16 [] ops) = [FErr] /\
  snd (run false (new_storage 100 16) ops) = [BRes RErr].
Proof. vm_compute. repeat split. Qed.
