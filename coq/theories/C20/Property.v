(** C20 — storage is a bounded flat byte array.  Property theorems only.

    [run false] is the model of the current mem.Storage (Read, Write,
    SaveCheckpoint, LoadCheckpoint; uint64 arithmetic with explicit wrap, the
    unit map as an association list); [run_flat] is a zero-initialised flat
    array of [cap] bytes kept as a write log, in which an access with
    addr + len > cap (computed without wrap) is an error that leaves the
    state unchanged.  [wf_op] only says that addresses and lengths are 64-bit
    values. *)
From Coq Require Import Permutation.
From Akita Require Import Lib.Base C20.Model C20.Proofs1 C20.Proofs2 C20.Proofs3 C20.Proofs4 C20.Proofs5 C20.Exec.
Local Open Scope N_scope.

(** For every capacity, unit size > 0 and history of reads, writes, checkpoint
    round trips into a fresh storage, saves kept aside and later restored into
    the current (dirty, non-fresh) storage, truncated and re-shaped checkpoint
    loads: every result equals
    that of the flat array (reads return the bytes last written, out-of-range
    accesses fail), and the final contents are the flat array's contents at
    every address. *)
Theorem c20_flat : forall cap unit ops,
  0 < unit -> unit < two64 -> cap < two64 -> Forall wf_op ops ->
  map proj (snd (run false (new_storage cap unit) ops)) = map Some (snd (run_flat cap unit [] ops)) /\
  (forall a, contents (fst (run false (new_storage cap unit) ops)) a =
             flat_get (fst (run_flat cap unit [] ops)) a).
Proof. exact flat_main. Qed.
Print Assumptions c20_flat.

(** ... regardless of the allocation unit size. *)
Theorem c20_unit_size_irrelevant : forall cap u1 u2 ops,
  0 < u1 -> u1 < two64 -> 0 < u2 -> u2 < two64 -> cap < two64 ->
  Forall wf_op ops -> forallb shape_free ops = true ->
  map proj (snd (run false (new_storage cap u1) ops)) = map proj (snd (run false (new_storage cap u2) ops)) /\
  (forall a, contents (fst (run false (new_storage cap u1) ops)) a =
             contents (fst (run false (new_storage cap u2) ops)) a).
Proof. exact unit_irrelevant. Qed.
Print Assumptions c20_unit_size_irrelevant.

(** Any access that touches an address at or beyond the capacity — including
    ranges whose end wraps around 2^64, since the sum is taken in N — is an
    error and returns the very same storage. *)
Theorem c20_out_of_range_errors : forall st addr len data,
  addr < two64 -> len < two64 -> lenN data < two64 ->
  (s_cap st < addr + len -> read false st addr len = (st, RErr)) /\
  (s_cap st < addr + lenN data -> write false st addr data = (st, RErr)).
Proof.
  intros st addr len data Ha Hl Hd. split; intro H; [apply read_err|apply write_err]; assumption.
Qed.
Print Assumptions c20_out_of_range_errors.

(** In range, a read returns the stored bytes and changes no contents; a write
    changes exactly the addressed bytes. *)
Theorem c20_in_range : forall st addr len data, Inv st ->
  (addr + len <= s_cap st ->
     exists st', read false st addr len = (st', ROk (map (contents st) (seqN addr len))) /\
                 Inv st' /\ forall a, contents st' a = contents st a) /\
  (addr + lenN data <= s_cap st ->
     exists st', write false st addr data = (st', ROk []) /\ Inv st' /\
                 forall a, contents st' a =
                   if (addr <=? a) && (a <? addr + lenN data) then nth (N.to_nat (a - addr)) data 0
                   else contents st a).
Proof.
  intros st addr len data I. split; intro H.
  - destruct (read_ok st addr len I H) as [st' [R [I' [_ C]]]]. eauto.
  - destruct (write_ok st addr data I H) as [st' [R [I' [_ C]]]]. exists st'. auto.
Qed.
Print Assumptions c20_in_range.

(** Every state reached by a history satisfies the invariant used above. *)
Theorem c20_reachable_inv : forall cap unit ops,
  0 < unit -> unit < two64 -> cap < two64 -> Forall wf_op ops ->
  Inv (fst (run false (new_storage cap unit) ops)).
Proof. exact run_inv. Qed.
Print Assumptions c20_reachable_inv.

(** Rolling back: a stream saved from ANY storage of the same shape, loaded into
    ANY other storage of that shape (whatever units it has allocated since),
    replaces the contents by the saved ones at every address. *)
Theorem c20_load_replaces : forall saved cur, Inv saved -> Inv cur ->
  s_cap cur = s_cap saved -> s_unit cur = s_unit saved ->
  exists st', load cur (save saved) = Some st' /\ Inv st' /\
              (forall a, contents st' a = contents saved a) /\ save st' = save saved.
Proof.
  intros saved cur I Ic Sc Su. destruct (load_save saved cur I (conj Sc Su)) as [st' [L [I' [[Sc' Su'] M]]]].
  exists st'. split; [exact L|]. split; [exact I'|]. split.
  - apply contents_meq; assumption.
  - apply save_meq; [exact I|exact I'|split; assumption|exact M].
Qed.
Print Assumptions c20_load_replaces.

(** Checkpoint: whatever order the unit map is ranged over, the stream is the
    same; loading it into a fresh storage of the same shape succeeds and
    reproduces the contents at every address (and saves to the same stream). *)
Theorem c20_checkpoint_roundtrip : forall st iter, Inv st -> Permutation iter (s_data st) ->
  save_iter iter st = save st /\
  exists st', load (new_storage (s_cap st) (s_unit st)) (save_iter iter st) = Some st' /\
              Inv st' /\ s_cap st' = s_cap st /\ s_unit st' = s_unit st /\
              (forall a, contents st' a = contents st a) /\
              save st' = save st.
Proof. exact ckpt_roundtrip. Qed.
Print Assumptions c20_checkpoint_roundtrip.

(** A strict prefix of a checkpoint stream and a stream with another shape
    header are rejected (the storage is left as it was: [load] returns None). *)
Theorem c20_bad_stream_rejected : forall st, Inv st ->
  (forall k, (k < length (save st))%nat -> load st (firstn k (save st)) = None) /\
  (forall c u rest, c < two64 -> u < two64 -> (c =? s_cap st) && (u =? s_unit st) = false ->
     load st (put_u64 c ++ put_u64 u ++ rest) = None).
Proof.
  intros st I. split.
  - intros k Hk. apply load_trunc; assumption.
  - intros. apply load_other_shape; assumption.
Qed.
Print Assumptions c20_bad_stream_rejected.

(** Regression lemmas for the code before fix c7cb86be ([run true]). *)
Theorem c20_at_capacity_old_refuted :
  let '(st, outs) := run true (new_storage 16 8) [OWrite 16 [9]; ORead 16 1] in
  outs = [BRes (ROk []); BRes (ROk [9])] /\
  snd (run_flat 16 8 [] [OWrite 16 [9]; ORead 16 1]) = [FErr; FErr] /\
  snd (run false (new_storage 16 8) [OWrite 16 [9]; ORead 16 1]) = [BRes RErr; BRes RErr].
Proof. exact old_at_capacity. Qed.
Print Assumptions c20_at_capacity_old_refuted.

Theorem c20_spanning_old_refuted :
  let ops := [OWrite 6 [1; 2; 3; 4; 5; 6; 7; 8]; ORead 0 10] in
  snd (run true (new_storage 10 4) ops) = [BRes RErr; BRes (ROk [0; 0; 0; 0; 0; 0; 1; 2; 3; 4])] /\
  snd (run_flat 10 4 [] ops) = [FErr; FOk [0; 0; 0; 0; 0; 0; 0; 0; 0; 0]] /\
  snd (run false (new_storage 10 4) ops) = [BRes RErr; BRes (ROk [0; 0; 0; 0; 0; 0; 0; 0; 0; 0])].
Proof. exact old_spanning. Qed.
Print Assumptions c20_spanning_old_refuted.

Theorem c20_wrap_old_refuted :
  let ops := [ORead 18446744073709551612 8] in
  snd (run true (new_storage 100 16) ops) = [BRes (ROk [0; 0; 0; 0; 0; 0; 0; 0])] /\
  snd (run_flat 100 16 [] ops) = [FErr] /\
  snd (run false (new_storage 100 16) ops) = [BRes RErr].
Proof. exact old_wrap. Qed.
Print Assumptions c20_wrap_old_refuted.

(** The predicate evaluated on the implementation's observed outputs
    ([Exec.holds_on], which only uses the flat array) follows from agreement
    with the model. *)
Theorem c20_model_agreement_implies_property : forall c, wf_case c ->
  check_case c = true -> holds_on c = true.
Proof. exact check_implies_holds. Qed.
Print Assumptions c20_model_agreement_implies_property.

(** Non-vacuity: a history across unit boundaries with an access at the
    capacity, a wrapping read and a checkpoint in the middle. *)
Example c20_nonvacuous :
  let ops := [OWrite 5 [1; 2; 3; 4; 5; 6]; ORead 3 10; OWrite 11 [7; 8; 9]; OCkpt;
              ORead 18446744073709551612 8; ORead 0 13; OLoadTrunc 30; ORead 12 1;
              OSave; OWrite 0 [9; 9]; OWrite 6 [8]; ORestore; ORead 0 13] in
  Forall wf_op ops /\
  map proj (snd (run false (new_storage 13 4) ops)) =
    [Some (FOk []); Some (FOk [0; 0; 1; 2; 3; 4; 5; 6; 0; 0]); Some FErr; Some (FOk []);
     Some FErr; Some (FOk [0; 0; 0; 0; 0; 1; 2; 3; 4; 5; 6; 0; 0]); Some FErr; Some (FOk [0]);
     Some (FOk []); Some (FOk []); Some (FOk []); Some (FOk []);
     Some (FOk [0; 0; 0; 0; 0; 1; 2; 3; 4; 5; 6; 0; 0])] /\
  Inv (fst (run false (new_storage 13 4) ops)).
Proof.
  intro ops.
  assert (W : Forall wf_op ops) by (repeat constructor).
  split; [exact W|split].
  - vm_compute. reflexivity.
  - exact (run_inv 13 4 ops eq_refl eq_refl eq_refl W).
Qed.
