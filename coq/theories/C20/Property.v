(** C20 — storage is a bounded flat byte array.  Property theorems only. *)
From Akita Require Import Lib.Base C20.Model.
Local Open Scope N_scope.

Theorem c20_placeholder : new_storage 1 1 = mk_storage 1 1 [].
Proof. reflexivity. Qed.
Print Assumptions c20_placeholder.
