(** C20 — list, map and arithmetic lemmas. *)
From Akita Require Import Lib.Base C20.Model.
Local Open Scope N_scope.

(** ** 64-bit arithmetic *)

Lemma add64_small a b : a + b < two64 -> add64 a b = a + b.
Proof. intro H. unfold add64. apply w64_small. exact H. Qed.

Lemma sub64_exact a b : b <= a -> a < two64 -> sub64 a b = a - b.
Proof.
  intros Hle Ha. unfold sub64, w64, two64 in *.
  replace (a + 18446744073709551616 - b) with ((a - b) + 1 * 18446744073709551616) by lia.
  rewrite N.mod_add by lia. apply N.mod_small. lia.
Qed.

(** baseAddr + unitSize - currAddr, computed modulo 2^64, is the room left in the unit *)
Lemma len_in_unit base unit curr inU :
  curr = base + inU -> inU < unit -> unit < two64 -> curr < two64 ->
  sub64 (add64 base unit) curr = unit - inU.
Proof.
  intros -> Hin Hu Hc. unfold sub64, add64, w64, two64 in *.
  destruct (N.lt_ge_cases (base + unit) 18446744073709551616) as [Hs|Hs].
  - rewrite (N.mod_small (base + unit)) by lia.
    replace (base + unit + 18446744073709551616 - (base + inU))
      with ((unit - inU) + 1 * 18446744073709551616) by lia.
    rewrite N.mod_add by lia. apply N.mod_small. lia.
  - assert (E : (base + unit) mod 18446744073709551616 = base + unit - 18446744073709551616).
    { symmetry. apply N.mod_unique with (q := 1); lia. }
    rewrite E.
    replace (base + unit - 18446744073709551616 + 18446744073709551616 - (base + inU))
      with (unit - inU) by lia.
    apply N.mod_small. lia.
Qed.

Lemma base_decomp unit a : 0 < unit ->
  a - a mod unit = unit * (a / unit) /\ a = unit * (a / unit) + a mod unit /\ a mod unit < unit.
Proof.
  intro Hu. pose proof (N.div_mod' a unit) as E.
  pose proof (N.mod_lt a unit ltac:(lia)) as L.
  revert E L. generalize (unit * (a / unit)) as p. generalize (a mod unit) as r.
  intros r p E L. repeat split; lia.
Qed.

Lemma div_unique_block unit q a : 0 < unit -> unit * q <= a < unit * q + unit -> a / unit = q.
Proof.
  intros Hu [H1 H2]. symmetry. apply N.div_unique with (r := a - unit * q); lia.
Qed.

Lemma mod_block unit q a : 0 < unit -> unit * q <= a < unit * q + unit -> a mod unit = a - unit * q.
Proof.
  intros Hu H. pose proof (div_unique_block unit q a Hu H) as D.
  pose proof (N.div_mod' a unit) as E. rewrite D in E.
  revert E H. generalize (unit * q) as p. generalize (a mod unit) as r. intros r p E H. lia.
Qed.

Lemma mul64_base curr unit : 0 < unit -> curr < two64 ->
  mul64 (curr / unit) unit = curr - curr mod unit.
Proof.
  intros Hu Hc. destruct (base_decomp unit curr Hu) as [B [E L]].
  unfold mul64. rewrite (N.mul_comm (curr / unit) unit). rewrite w64_small; [lia|].
  revert B E. generalize (unit * (curr / unit)) as p. generalize (curr mod unit) as r.
  intros r p B E. lia.
Qed.

(** ** Lists *)

Lemma lenN_app {A} (a b : list A) : lenN (a ++ b) = lenN a + lenN b.
Proof. unfold lenN. rewrite app_length. lia. Qed.

Lemma zeros_length n : lenN (zeros n) = n.
Proof. unfold lenN, zeros. rewrite repeat_length. lia. Qed.

Lemma nth_zeros n i : nth i (zeros n) 0 = 0.
Proof.
  unfold zeros. generalize (N.to_nat n) as k. intro k. revert i.
  induction k as [|k IH]; intros [|i]; cbn [repeat nth]; auto.
Qed.

Lemma seqN_length a n : length (seqN a n) = N.to_nat n.
Proof. unfold seqN. rewrite map_length, seq_length. reflexivity. Qed.

Lemma seq_shift_k k start len : seq (k + start) len = map (fun i => (k + i)%nat) (seq start len).
Proof.
  revert start. induction len as [|len IH]; intro start; cbn [seq map]; [reflexivity|].
  f_equal. rewrite <- IH. f_equal. lia.
Qed.

Lemma seqN_split a n m : seqN a (n + m) = seqN a n ++ seqN (a + n) m.
Proof.
  unfold seqN. rewrite N2Nat.inj_add, seq_app, map_app. f_equal.
  replace (0 + N.to_nat n)%nat with (N.to_nat n + 0)%nat by lia.
  rewrite seq_shift_k, map_map. apply map_ext. intro i. lia.
Qed.

Lemma nth_skipn_N {A} (l : list A) n i d : nth i (skipn n l) d = nth (n + i) l d.
Proof.
  revert l. induction n as [|n IH]; intro l; [reflexivity|].
  destruct l as [|x l]; cbn [skipn plus nth]; [destruct i; reflexivity|apply IH].
Qed.

Lemma skipn_cons_nth (u : list N) from :
  (from < length u)%nat -> skipn from u = nth from u 0 :: skipn (S from) u.
Proof.
  revert u. induction from as [|from IH]; intros [|x u] H; cbn [length] in H; try lia.
  - reflexivity.
  - cbn [skipn nth]. rewrite IH by lia. reflexivity.
Qed.

Lemma slice_nth (u : list N) from n :
  (from + n <= length u)%nat ->
  firstn n (skipn from u) = map (fun j => nth j u 0) (seq from n).
Proof.
  revert from. induction n as [|n IH]; intros from H; cbn [seq map firstn]; [reflexivity|].
  rewrite skipn_cons_nth by lia. cbn [firstn]. f_equal. apply IH. lia.
Qed.

Lemma nth_firstn_lt {A} (l : list A) n i d : (i < n)%nat -> nth i (firstn n l) d = nth i l d.
Proof.
  revert l i. induction n as [|n IH]; intros l i H; [lia|].
  destruct l as [|x l]; [destruct i; reflexivity|]. destruct i as [|i]; cbn [firstn nth]; [reflexivity|].
  apply IH. lia.
Qed.

(** splice: copy of a chunk into a unit *)
Lemma splice_length u from chunk :
  (from + length chunk <= length u)%nat ->
  length (splice u (N.of_nat from) chunk) = length u.
Proof.
  intro H. unfold splice. rewrite Nat2N.id, !app_length, firstn_length, skipn_length. lia.
Qed.

Lemma splice_nth u from chunk j :
  (from + length chunk <= length u)%nat ->
  nth j (splice u (N.of_nat from) chunk) 0 =
  if ((from <=? j) && (j <? from + length chunk))%nat then nth (j - from) chunk 0 else nth j u 0.
Proof.
  intro H. unfold splice. rewrite Nat2N.id.
  assert (Lf : length (firstn from u) = from) by (rewrite firstn_length; lia).
  destruct (Nat.leb_spec from j) as [H1|H1]; cbn [andb].
  - rewrite app_nth2 by lia. rewrite Lf.
    destruct (Nat.ltb_spec j (from + length chunk)) as [H2|H2].
    + rewrite app_nth1 by lia. reflexivity.
    + rewrite app_nth2 by lia. rewrite nth_skipn_N. f_equal. lia.
  - rewrite app_nth1 by lia. apply nth_firstn_lt. lia.
Qed.

(** ** The unit map *)

Lemma get_set_same k v m : amap_get k (amap_set k v m) = Some v.
Proof.
  induction m as [|[k' v'] r IH]; cbn [amap_set amap_get].
  - rewrite N.eqb_refl. reflexivity.
  - destruct (k =? k') eqn:E; cbn [amap_get]; rewrite ?N.eqb_refl, ?E; auto.
Qed.

Lemma get_set_other k k' v m : k <> k' -> amap_get k' (amap_set k v m) = amap_get k' m.
Proof.
  intro Hne. induction m as [|[k2 v2] r IH]; cbn [amap_set amap_get].
  - destruct (k' =? k) eqn:E; [apply N.eqb_eq in E; congruence|reflexivity].
  - destruct (k =? k2) eqn:E; cbn [amap_get].
    + apply N.eqb_eq in E. subst k2.
      destruct (k' =? k) eqn:E2; [apply N.eqb_eq in E2; congruence|reflexivity].
    + destruct (k' =? k2); auto.
Qed.

Lemma get_set k k' v m :
  amap_get k' (amap_set k v m) = if k' =? k then Some v else amap_get k' m.
Proof.
  destruct (k' =? k) eqn:E.
  - apply N.eqb_eq in E. subst. apply get_set_same.
  - apply get_set_other. intro H. subst. rewrite N.eqb_refl in E. discriminate.
Qed.

Lemma keys_set k v m :
  forall x, In x (map fst (amap_set k v m)) <-> x = k \/ In x (map fst m).
Proof.
  induction m as [|[k' v'] r IH]; intro x; cbn [amap_set map fst In].
  - intuition.
  - destruct (k =? k') eqn:E; cbn [map fst In].
    + apply N.eqb_eq in E. subst. intuition.
    + rewrite IH. intuition.
Qed.

Lemma nodup_set k v m : NoDup (map fst m) -> NoDup (map fst (amap_set k v m)).
Proof.
  induction m as [|[k' v'] r IH]; intro H; cbn [amap_set map fst].
  - constructor; [intros []|constructor].
  - inversion H as [|? ? Hn Hr]; subst. destruct (k =? k') eqn:E; cbn [map fst].
    + apply N.eqb_eq in E. subst. constructor; auto.
    + constructor; [|auto]. rewrite keys_set. intros [->|Hin]; [|auto].
      rewrite N.eqb_refl in E. discriminate.
Qed.

Lemma get_in_keys k m : amap_get k m <> None <-> In k (map fst m).
Proof.
  induction m as [|[k' v'] r IH]; cbn [amap_get map fst In].
  - intuition.
  - destruct (k =? k') eqn:E.
    + apply N.eqb_eq in E. subst. split; [auto|discriminate].
    + rewrite IH. split; [auto|]. intros [->|]; auto. rewrite N.eqb_refl in E. discriminate.
Qed.
