(** C20 — Read and Write refine the flat array. *)
From Akita Require Import Lib.Base C20.Model C20.Proofs1.
Local Open Scope N_scope.

(** Invariant of a storage. *)
Record Inv (st : storage) : Prop := {
  inv_unit : 0 < s_unit st;
  inv_unit64 : s_unit st < two64;
  inv_cap64 : s_cap st < two64;
  inv_len : forall k u, amap_get k (s_data st) = Some u -> lenN u = s_unit st;
  inv_keys : forall k u, amap_get k (s_data st) = Some u -> k < s_cap st;
  inv_nodup : NoDup (map fst (s_data st)) }.

Definition same_shape (a b : storage) : Prop := s_cap a = s_cap b /\ s_unit a = s_unit b.

Lemma inv_new cap unit : 0 < unit -> unit < two64 -> cap < two64 -> Inv (new_storage cap unit).
Proof.
  intros. constructor; cbn; auto; try discriminate. constructor.
Qed.

Lemma contents_set st base u a :
  contents (with_data st (amap_set base u (s_data st))) a =
  if (a - a mod s_unit st) =? base then nth (N.to_nat (a mod s_unit st)) u 0 else contents st a.
Proof.
  unfold contents. cbn [s_unit s_data with_data]. rewrite get_set.
  destruct (a - a mod s_unit st =? base); reflexivity.
Qed.

(** createOrGetStorageUnit inside the capacity *)
Lemma create_or_get_ok st addr : Inv st -> addr < s_cap st ->
  exists st' u, create_or_get false st addr = COk st' u /\ Inv st' /\ same_shape st' st /\
    (forall a, contents st' a = contents st a) /\
    amap_get (addr - addr mod s_unit st) (s_data st') = Some u /\ lenN u = s_unit st.
Proof.
  intros I H. unfold create_or_get, beyond.
  destruct (s_cap st <=? addr) eqn:E; [lia|].
  pose proof (inv_unit _ I) as Hu.
  destruct (s_unit st =? 0) eqn:E0; [lia|].
  destruct (amap_get (addr - addr mod s_unit st) (s_data st)) as [u|] eqn:G.
  - exists st, u. split; [reflexivity|]. split; [exact I|]. split; [split; reflexivity|].
    split; [reflexivity|]. split; [exact G|]. eapply inv_len; eauto.
  - eexists _, _. split; [reflexivity|]. split; [|split; [|split; [|split]]].
    + constructor; cbn [s_unit s_cap s_data with_data]; try apply I.
      * intros k u. rewrite get_set. destruct (k =? _).
        -- intros [= <-]. apply zeros_length.
        -- apply (inv_len _ I).
      * intros k u. rewrite get_set. destruct (k =? _) eqn:Ek.
        -- intros _. apply N.eqb_eq in Ek. subst k. lia.
        -- apply (inv_keys _ I).
      * apply nodup_set. apply I.
    + split; reflexivity.
    + intro a. rewrite contents_set.
      destruct (a - a mod s_unit st =? addr - addr mod s_unit st) eqn:Ea; [|reflexivity].
      apply N.eqb_eq in Ea. unfold new_unit. rewrite nth_zeros.
      unfold contents. rewrite Ea, G. reflexivity.
    + cbn [s_data with_data]. apply get_set_same.
    + apply zeros_length.
Qed.

(** bytes of one unit seen through [contents] *)
Lemma contents_in_unit st curr u i :
  0 < s_unit st ->
  amap_get (curr - curr mod s_unit st) (s_data st) = Some u ->
  curr mod s_unit st + i < s_unit st ->
  contents st (curr + i) = nth (N.to_nat (curr mod s_unit st + i)) u 0.
Proof.
  intros Hu G Hi. destruct (base_decomp (s_unit st) curr Hu) as [B [E L]].
  assert (M : (curr + i) mod s_unit st = curr mod s_unit st + i).
  { rewrite (mod_block (s_unit st) (curr / s_unit st)); auto;
      revert B E; generalize (s_unit st * (curr / s_unit st)) as p; intros p B E; lia. }
  unfold contents. rewrite M.
  replace (curr + i - (curr mod s_unit st + i)) with (curr - curr mod s_unit st) by lia.
  rewrite G. reflexivity.
Qed.

Lemma slice_contents st curr u n :
  0 < s_unit st ->
  amap_get (curr - curr mod s_unit st) (s_data st) = Some u -> lenN u = s_unit st ->
  curr mod s_unit st + n <= s_unit st ->
  slice u (curr mod s_unit st) n = map (contents st) (seqN curr n).
Proof.
  intros Hu G Hl Hn. unfold slice, seqN. rewrite slice_nth by (unfold lenN in Hl; lia).
  rewrite map_map.
  replace (N.to_nat (curr mod s_unit st)) with (N.to_nat (curr mod s_unit st) + 0)%nat by lia.
  rewrite seq_shift_k, map_map. apply map_ext_in. intros i Hi. apply in_seq in Hi.
  rewrite (contents_in_unit st curr u (N.of_nat i)); auto; [f_equal; lia|lia].
Qed.

Ltac same_state I :=
  split; [try reflexivity|split; [exact I|split; [split; reflexivity|intro; reflexivity]]].

(** ** The Read loop *)
Lemma read_loop_ok : forall fuel st endA curr lenLeft acc,
  Inv st -> curr + lenLeft = endA -> endA <= s_cap st -> (N.to_nat lenLeft <= fuel)%nat ->
  exists st', read_loop false fuel st endA curr lenLeft acc =
                (st', ROk (acc ++ map (contents st) (seqN curr lenLeft))) /\
              Inv st' /\ same_shape st' st /\ (forall a, contents st' a = contents st a).
Proof.
  induction fuel as [|f IH]; intros st endA curr lenLeft acc I Hend Hcap Hfuel.
  - assert (lenLeft = 0) by lia. subst lenLeft. cbn [read_loop].
    destruct (curr <? endA) eqn:E; [lia|]. exists st. cbn [seqN N.to_nat seq map]. rewrite app_nil_r.
    same_state I.
  - cbn [read_loop]. destruct (curr <? endA) eqn:E.
    2:{ assert (lenLeft = 0) by lia. subst lenLeft. exists st. cbn [seqN N.to_nat seq map]. rewrite app_nil_r.
        same_state I. }
    assert (Hlt : curr < s_cap st) by lia.
    destruct (create_or_get_ok st curr I Hlt) as [st1 [u [C [I1 [[Sc Su] [Ceq [G Lu]]]]]]].
    rewrite C.
    pose proof (inv_unit _ I) as Hu. pose proof (inv_unit64 _ I) as Hu64. pose proof (inv_cap64 _ I) as Hc64.
    destruct (base_decomp (s_unit st) curr Hu) as [B [Ed Lm]].
    rewrite (len_in_unit (curr - curr mod s_unit st) (s_unit st) curr (curr mod s_unit st)) by lia.
    set (n := if lenLeft <? s_unit st - curr mod s_unit st then lenLeft
              else s_unit st - curr mod s_unit st).
    assert (Hn : 0 < n /\ n <= lenLeft /\ curr mod s_unit st + n <= s_unit st).
    { unfold n. destruct (lenLeft <? s_unit st - curr mod s_unit st) eqn:En; lia. }
    rewrite add64_small by lia.
    destruct (IH st1 endA (curr + n) (lenLeft - n)
                 (acc ++ slice u (curr mod s_unit st) n) I1) as [st2 [R [I2 [[Sc2 Su2] Ceq2]]]];
      try lia.
    exists st2. split; [|split; [auto|split; [split; congruence|]]].
    + rewrite R. f_equal. f_equal. rewrite <- app_assoc. f_equal.
      replace lenLeft with (n + (lenLeft - n)) at 2 by lia. rewrite seqN_split, map_app. f_equal.
      * rewrite <- Su in *. rewrite (slice_contents st1 curr u n); auto; try lia.
        apply map_ext. exact Ceq.
      * apply map_ext. exact Ceq.
    + intro a. rewrite Ceq2. apply Ceq.
Qed.

Lemma pad_exact len acc : lenN acc = len -> pad len acc = acc.
Proof.
  intro H. unfold pad. rewrite H, N.sub_diag. unfold zeros. cbn. apply app_nil_r.
Qed.

Lemma check_range_spec st addr len : addr < two64 -> len < two64 ->
  check_range st addr len = negb (s_cap st <? addr + len).
Proof.
  intros Ha Hl. unfold check_range. f_equal.
  destruct (s_cap st <? len) eqn:E1; destruct (s_cap st - len <? addr) eqn:E2;
    destruct (s_cap st <? addr + len) eqn:E3; cbn; lia.
Qed.

Lemma read_ok st addr len : Inv st -> addr + len <= s_cap st ->
  exists st', read false st addr len = (st', ROk (map (contents st) (seqN addr len))) /\
              Inv st' /\ same_shape st' st /\ (forall a, contents st' a = contents st a).
Proof.
  intros I H. pose proof (inv_cap64 _ I) as Hc. unfold read. cbn [negb andb].
  rewrite check_range_spec by lia. destruct (s_cap st <? addr + len) eqn:E; [lia|]. cbn [negb].
  rewrite add64_small by lia.
  destruct (read_loop_ok (S (N.to_nat len)) st (addr + len) addr len [] I eq_refl H ltac:(lia))
    as [st' [R [I' [S' C']]]].
  rewrite R. exists st'. cbn [app]. rewrite pad_exact.
  - split; [reflexivity|]. split; [exact I'|]. split; [exact S'|exact C'].
  - unfold lenN. rewrite map_length, seqN_length. lia.
Qed.

Lemma read_err st addr len : addr < two64 -> len < two64 -> s_cap st < addr + len ->
  read false st addr len = (st, RErr).
Proof.
  intros Ha Hl H. unfold read. cbn [negb andb]. rewrite check_range_spec by lia.
  destruct (s_cap st <? addr + len) eqn:E; [reflexivity|lia].
Qed.

(** ** The Write loop *)
Definition written (curr : N) (data : list N) (old : N -> N) (a : N) : N :=
  if (curr <=? a) && (a <? curr + lenN data) then nth (N.to_nat (a - curr)) data 0 else old a.

Lemma written_nil curr f a : written curr [] f a = f a.
Proof.
  unfold written, lenN. cbn [length N.of_nat].
  destruct ((curr <=? a) && (a <? curr + 0)) eqn:E; [lia|reflexivity].
Qed.

Ltac same_state_w I :=
  split; [try reflexivity|split; [exact I|split; [split; reflexivity|intro; rewrite written_nil; reflexivity]]].

Lemma write_loop_ok : forall fuel st curr data,
  Inv st -> curr + lenN data <= s_cap st -> (length data <= fuel)%nat ->
  exists st', write_loop false fuel st curr data = (st', ROk []) /\
              Inv st' /\ same_shape st' st /\
              (forall a, contents st' a = written curr data (contents st) a).
Proof.
  induction fuel as [|f IH]; intros st curr data I Hcap Hfuel.
  - destruct data; [|cbn in Hfuel; lia]. exists st. cbn [write_loop]. same_state_w I.
  - destruct data as [|b data0] eqn:Ed.
    { exists st. cbn [write_loop]. same_state_w I. }
    rewrite <- Ed in *. assert (Hne : 0 < lenN data) by (subst data; unfold lenN; cbn; lia).
    replace (write_loop false (S f) st curr data) with
      (match create_or_get false st curr with
       | CErr => (st, RErr) | CPanic => (st, RPanic)
       | COk st' u =>
           let unit := s_unit st in
           let inU := curr mod unit in
           let base := curr - inU in
           let lenInData := lenN data in
           let lenInUnit := sub64 (add64 (mul64 (curr / unit) unit) unit) curr in
           let n := if lenInData <? lenInUnit then lenInData else lenInUnit in
           let chunk := firstn (N.to_nat n) data in
           let u' := splice u inU chunk in
           write_loop false f (with_data st' (amap_set base u' (s_data st')))
                      (add64 curr n) (skipn (N.to_nat n) data)
       end) by (subst data; reflexivity).
    assert (Hlt : curr < s_cap st) by lia.
    destruct (create_or_get_ok st curr I Hlt) as [st1 [u [C [I1 [[Sc Su] [Ceq [G Lu]]]]]]].
    rewrite C. cbv zeta.
    pose proof (inv_unit _ I) as Hu. pose proof (inv_unit64 _ I) as Hu64. pose proof (inv_cap64 _ I) as Hc64.
    destruct (base_decomp (s_unit st) curr Hu) as [B [Edm Lm]].
    rewrite mul64_base by lia.
    rewrite (len_in_unit (curr - curr mod s_unit st) (s_unit st) curr (curr mod s_unit st)) by lia.
    set (inU := curr mod s_unit st) in *.
    set (n := if lenN data <? s_unit st - inU then lenN data else s_unit st - inU).
    assert (Hn : 0 < n /\ n <= lenN data /\ inU + n <= s_unit st).
    { unfold n. destruct (lenN data <? s_unit st - inU) eqn:En; lia. }
    rewrite add64_small by lia.
    set (chunk := firstn (N.to_nat n) data).
    assert (Lchunk : length chunk = N.to_nat n).
    { unfold chunk. rewrite firstn_length. unfold lenN in Hn. lia. }
    set (u' := splice u inU chunk).
    assert (Lu' : lenN u' = s_unit st).
    { unfold u', lenN. replace inU with (N.of_nat (N.to_nat inU)) by lia.
      rewrite splice_length; [exact Lu|]. unfold lenN in Lu. lia. }
    set (st2 := with_data st1 (amap_set (curr - inU) u' (s_data st1))).
    assert (I2 : Inv st2).
    { constructor; unfold st2; cbn [s_unit s_cap s_data with_data]; try apply I1.
      - intros k v. rewrite get_set. destruct (k =? _).
        + intros [= <-]. congruence.
        + apply (inv_len _ I1).
      - intros k v. rewrite get_set. destruct (k =? _) eqn:Ek.
        + intros _. apply N.eqb_eq in Ek. subst k. lia.
        + apply (inv_keys _ I1).
      - apply nodup_set. apply I1. }
    assert (C2 : forall a, contents st2 a = written curr chunk (contents st) a).
    { intro a. unfold st2. rewrite contents_set. rewrite Su. unfold written.
      assert (Lc : lenN chunk = n) by (unfold lenN; lia). rewrite Lc.
      destruct (base_decomp (s_unit st) a Hu) as [Ba [Ea La]].
      destruct (a - a mod s_unit st =? curr - inU) eqn:Eb.
      - apply N.eqb_eq in Eb. unfold u'.
        replace inU with (N.of_nat (N.to_nat inU)) at 1 by lia.
        rewrite splice_nth by (unfold lenN in Lu; lia). rewrite Lchunk.
        destruct ((N.to_nat inU <=? N.to_nat (a mod s_unit st))%nat &&
                  (N.to_nat (a mod s_unit st) <? N.to_nat inU + N.to_nat n)%nat) eqn:Ec.
        + destruct ((curr <=? a) && (a <? curr + n)) eqn:Ew; [f_equal; lia|lia].
        + destruct ((curr <=? a) && (a <? curr + n)) eqn:Ew; [lia|].
          rewrite <- Ceq. unfold contents. rewrite Su, Eb, G. reflexivity.
      - apply N.eqb_neq in Eb.
        destruct ((curr <=? a) && (a <? curr + n)) eqn:Ew; [|apply Ceq].
        exfalso. apply Eb. rewrite Ba, B.
        f_equal. apply div_unique_block; [exact Hu|].
        revert B Edm. generalize (s_unit st * (curr / s_unit st)) as p. intros p B Edm. lia. }
    assert (Lsk : lenN (skipn (N.to_nat n) data) = lenN data - n).
    { unfold lenN. rewrite skipn_length. lia. }
    destruct (IH st2 (curr + n) (skipn (N.to_nat n) data) I2) as [st3 [R [I3 [[Sc3 Su3] C3]]]].
    { rewrite Lsk. unfold st2. cbn [s_cap with_data]. lia. }
    { rewrite skipn_length. lia. }
    exists st3. split; [exact R|]. split; [exact I3|]. split.
    { unfold st2 in *. cbn [s_cap s_unit with_data] in *. split; congruence. }
    intro a. rewrite C3. unfold written at 1. rewrite Lsk.
    destruct ((curr + n <=? a) && (a <? curr + n + (lenN data - n))) eqn:E1.
    + unfold written. destruct ((curr <=? a) && (a <? curr + lenN data)) eqn:E2; [|lia].
      rewrite nth_skipn_N. f_equal. lia.
    + rewrite C2. unfold written. assert (Lc : lenN chunk = n) by (unfold lenN; lia). rewrite Lc.
      destruct ((curr <=? a) && (a <? curr + n)) eqn:E2.
      * destruct ((curr <=? a) && (a <? curr + lenN data)) eqn:E3; [|lia].
        unfold chunk. apply nth_firstn_lt. lia.
      * destruct ((curr <=? a) && (a <? curr + lenN data)) eqn:E3; [lia|reflexivity].
Qed.

Lemma write_ok st addr data : Inv st -> addr + lenN data <= s_cap st ->
  exists st', write false st addr data = (st', ROk []) /\
              Inv st' /\ same_shape st' st /\
              (forall a, contents st' a = written addr data (contents st) a).
Proof.
  intros I H. pose proof (inv_cap64 _ I) as Hc. unfold write. cbn [negb andb].
  rewrite check_range_spec by lia. destruct (s_cap st <? addr + lenN data) eqn:E; [lia|]. cbn [negb].
  apply write_loop_ok; auto.
Qed.

Lemma write_err st addr data : addr < two64 -> lenN data < two64 -> s_cap st < addr + lenN data ->
  write false st addr data = (st, RErr).
Proof.
  intros Ha Hl H. unfold write. cbn [negb andb]. rewrite check_range_spec by lia.
  destruct (s_cap st <? addr + lenN data) eqn:E; [reflexivity|lia].
Qed.

Lemma flat_get_cons b d l a : flat_get ((b, d) :: l) a = written b d (flat_get l) a.
Proof. reflexivity. Qed.
