(** C20 — case evaluators for the correspondence check. *)
From Akita Require Import Lib.Base C20.Model.
Local Open Scope N_scope.

(** INPUT: capacity, unit size, history.  OBSERVED: one observation per operation. *)
Record case := mk_case {
  c_cap : N; c_unit : N; c_ops : list op;
  o_obs : list obs }.

Definition rres_eqb (a b : rres) : bool :=
  match a, b with
  | ROk x, ROk y => listN_eqb x y
  | RErr, RErr => true
  | RPanic, RPanic => true
  | RFuel, RFuel => true
  | _, _ => false
  end.

Definition obs_eqb (a b : obs) : bool :=
  match a, b with
  | BRes x, BRes y => rres_eqb x y
  | BCkpt s1 k1 r1, BCkpt s2 k2 r2 => listN_eqb s1 s2 && Bool.eqb k1 k2 && Bool.eqb r1 r2
  | BLoad k1, BLoad k2 => Bool.eqb k1 k2
  | BSave s1, BSave s2 => listN_eqb s1 s2
  | _, _ => false
  end.

Definition fobs_eqb (a b : fobs) : bool :=
  match a, b with
  | FOk x, FOk y => listN_eqb x y
  | FErr, FErr => true
  | _, _ => false
  end.

(** model output = implementation output, operation by operation *)
Definition check_case (c : case) : bool :=
  list_eqb obs_eqb (snd (run false (new_storage (c_cap c) (c_unit c)) (c_ops c))) (o_obs c).

(** the property itself on the implementation's observed behaviour: the
    observations are those of a zero-initialised flat array of [cap] bytes
    (no reference to the unit-map model).  A zero unit size is outside the
    property (the constructor's contract); it is tied by [check_case] only. *)
Definition holds_on (c : case) : bool :=
  if c_unit c =? 0 then true
  else list_eqb (opt_eqb fobs_eqb)
         (map proj (o_obs c))
         (map Some (snd (run_flat (c_cap c) (c_unit c) [] (c_ops c)))).
