(** C20 — truncated streams are rejected; histories refine the flat array. *)
From Coq Require Import Permutation.
From Akita Require Import Lib.Base C20.Model C20.Proofs1 C20.Proofs2 C20.Proofs3.
Local Open Scope N_scope.

(** ** strict prefixes of a checkpoint stream are rejected *)
Lemma firstn_app_ge {A} (a b : list A) k : (length a <= k)%nat ->
  firstn k (a ++ b) = a ++ firstn (k - length a) b.
Proof. intro H. rewrite firstn_app, firstn_all2 by lia. reflexivity. Qed.

Lemma get_u64_short s : (length s < 8)%nat -> get_u64 s = None.
Proof. intro H. unfold get_u64. destruct (Nat.ltb_spec (length s) 8); [reflexivity|lia]. Qed.

Lemma put_u64_length x : length (put_u64 x) = 8%nat.
Proof. apply le_enc_length. Qed.

Lemma firstn_short {A} (l : list A) k : (length (firstn k l) <= k)%nat.
Proof. rewrite firstn_length. lia. Qed.

Lemma load_units_trunc d unit : forall addrs fuel acc j,
  (forall a, In a addrs -> a < two64 /\ lenN (unit_of d a) = unit) ->
  (j < length (ser_units d addrs))%nat ->
  load_units fuel unit (lenN addrs) (firstn j (ser_units d addrs)) acc = None.
Proof.
  induction addrs as [|a r IH]; intros fuel acc j H Hj.
  - cbn in Hj. lia.
  - destruct fuel as [|f]; cbn [load_units];
      (destruct (lenN (a :: r) =? 0) eqn:E0; [unfold lenN in E0; cbn in E0; lia|]); [reflexivity|].
    destruct (H a (or_introl eq_refl)) as [Ha La].
    assert (Ll : length (unit_of d a) = N.to_nat unit) by (unfold lenN in La; lia).
    cbn [ser_units flat_map] in *. fold (ser_units d r) in *. rewrite <- app_assoc in *.
    destruct (Nat.lt_ge_cases j 8) as [J8|J8].
    { rewrite get_u64_short; [reflexivity|]. eapply Nat.le_lt_trans; [apply firstn_short|lia]. }
    rewrite firstn_app_ge by (rewrite put_u64_length; exact J8). rewrite put_u64_length.
    rewrite get_put_u64 by exact Ha.
    destruct (Nat.lt_ge_cases (j - 8) (N.to_nat unit)) as [Ju|Ju].
    { destruct (Nat.ltb_spec (length (firstn (j - 8) (unit_of d a ++ ser_units d r))) (N.to_nat unit)) as [_|C];
        [reflexivity|].
      pose proof (firstn_short (unit_of d a ++ ser_units d r) (j - 8)). lia. }
    rewrite firstn_app_ge by lia. rewrite Ll.
    destruct (Nat.ltb_spec (length (unit_of d a ++ firstn (j - 8 - N.to_nat unit) (ser_units d r))) (N.to_nat unit)) as [C|_].
    { rewrite app_length in C. lia. }
    rewrite skipn_app_exact, firstn_app_exact by exact Ll.
    replace (lenN (a :: r) - 1) with (lenN r) by (unfold lenN; cbn [length]; lia).
    apply IH.
    + intros x Hx. apply H. right. exact Hx.
    + rewrite !app_length, put_u64_length in Hj. lia.
Qed.

Lemma load_trunc st k : Inv st -> (k < length (save st))%nat ->
  load st (firstn k (save st)) = None.
Proof.
  intros I Hk. unfold save, save_iter in *.
  set (addrs := sortN (map fst (s_data st))) in *.
  fold (unit_of (s_data st)) in *.
  change (flat_map (fun a => put_u64 a ++ unit_of (s_data st) a) addrs)
    with (ser_units (s_data st) addrs) in *.
  pose proof (inv_cap64 _ I) as Hc. pose proof (inv_unit64 _ I) as Hu.
  assert (Hcount : lenN addrs < two64).
  { unfold addrs, lenN. rewrite sortN_length. apply (keys_count_lt st I). }
  assert (Hall : forall a, In a addrs -> a < two64 /\ lenN (unit_of (s_data st) a) = s_unit st).
  { intros a Ha. unfold addrs in Ha. apply in_sortN, get_in_keys in Ha. unfold unit_of.
    destruct (amap_get a (s_data st)) as [u|] eqn:G; [|congruence].
    split; [pose proof (inv_keys _ I a u G); lia|]. apply (inv_len _ I a u G). }
  unfold load.
  destruct (Nat.lt_ge_cases k 8) as [K1|K1].
  { rewrite get_u64_short; [reflexivity|]. eapply Nat.le_lt_trans; [apply firstn_short|lia]. }
  rewrite firstn_app_ge by (rewrite put_u64_length; exact K1). rewrite put_u64_length.
  rewrite get_put_u64 by exact Hc.
  destruct (Nat.lt_ge_cases (k - 8) 8) as [K2|K2].
  { rewrite get_u64_short; [reflexivity|]. eapply Nat.le_lt_trans; [apply firstn_short|lia]. }
  rewrite firstn_app_ge by (rewrite put_u64_length; exact K2). rewrite put_u64_length.
  rewrite get_put_u64 by exact Hu. rewrite !N.eqb_refl. cbn [negb].
  destruct (Nat.lt_ge_cases (k - 8 - 8) 8) as [K3|K3].
  { rewrite get_u64_short; [reflexivity|]. eapply Nat.le_lt_trans; [apply firstn_short|lia]. }
  rewrite firstn_app_ge by (rewrite put_u64_length; exact K3). rewrite put_u64_length.
  rewrite get_put_u64 by exact Hcount.
  change (flat_map (fun a : N => put_u64 a ++ match amap_get a (s_data st) with Some u => u | None => [] end) addrs)
    with (ser_units (s_data st) addrs) in *.
  rewrite load_units_trunc; [reflexivity|exact Hall|].
  rewrite !app_length, !put_u64_length in Hk. lia.
Qed.

Lemma save_length_pos st : (24 <= length (save st))%nat.
Proof.
  unfold save, save_iter. rewrite !app_length, !put_u64_length. lia.
Qed.

(** ** histories *)
Definition wf_op (o : op) : Prop :=
  match o with
  | ORead a n => a < two64 /\ n < two64
  | OWrite a d => a < two64 /\ lenN d < two64
  | OLoadShape c u => c < two64 /\ u < two64
  | _ => True
  end.

(** refinement relation between a storage and a flat write log *)
Record Ref (cap unit : N) (st : storage) (l : flog) : Prop := {
  ref_inv : Inv st;
  ref_cap : s_cap st = cap;
  ref_unit : s_unit st = unit;
  ref_contents : forall a, contents st a = flat_get l a }.

(** ... extended to the stream / array kept aside by OSave *)
Definition XRef (cap unit : N) (x : xst) (y : fst_t) : Prop :=
  Ref cap unit (fst x) (fst y) /\
  match snd x, snd y with
  | None, None => True
  | Some s, Some l0 => exists st0, Ref cap unit st0 l0 /\ s = save st0
  | _, _ => False
  end.

Lemma step_refines cap unit x y o : XRef cap unit x y -> wf_op o ->
  proj (snd (step false x o)) = Some (snd (flat_step cap unit y o)) /\
  XRef cap unit (fst (step false x o)) (fst (flat_step cap unit y o)).
Proof.
  destruct x as [st sv]. destruct y as [l sl]. intros [[I Hc Hu Hcon] Hsv] W. cbn [fst snd] in *.
  assert (R0 : Ref cap unit st l) by (constructor; auto).
  destruct o as [a n|a d| |k|c u| |]; cbn [step flat_step wf_op] in *.
  - destruct W as [Wa Wn]. destruct (cap <? a + n) eqn:E.
    + rewrite read_err by lia. cbn [fst snd proj]. split; [reflexivity|]. split; assumption.
    + destruct (read_ok st a n I ltac:(lia)) as [st' [R [I' [[Sc Su] C']]]]. rewrite R. cbn [fst snd proj].
      split.
      * f_equal. f_equal. apply map_ext. exact Hcon.
      * split; [cbn [fst snd]|exact Hsv]. constructor; auto; try congruence; try (intro z; rewrite C'; apply Hcon).
  - destruct W as [Wa Wn]. destruct (cap <? a + lenN d) eqn:E.
    + rewrite write_err by lia. cbn [fst snd proj]. split; [reflexivity|]. split; assumption.
    + destruct (write_ok st a d I ltac:(lia)) as [st' [R [I' [[Sc Su] C']]]]. rewrite R. cbn [fst snd proj].
      split; [reflexivity|]. split; [cbn [fst snd]|exact Hsv]. constructor; auto; try congruence;
        try (intro z; rewrite C', flat_get_cons; unfold written; rewrite Hcon; reflexivity).
  - assert (Sh : same_shape (new_storage (s_cap st) (s_unit st)) st) by (split; reflexivity).
    destruct (load_save st _ I Sh) as [st' [L [I' [[Sc Su] M]]]]. rewrite L. cbn [fst snd proj].
    rewrite (save_meq st st' I I' (conj Sc Su) M).
    assert (listN_eqb (save st) (save st) = true) as -> by (apply listN_eqb_eq; reflexivity).
    split; [reflexivity|]. split; [cbn [fst snd]|exact Hsv]. constructor; auto; try congruence;
      try (intro z; rewrite (contents_meq st' st Su M); apply Hcon).
  - rewrite load_trunc; [cbn [fst snd proj]; split; [reflexivity|split; assumption]|exact I|].
    pose proof (save_length_pos st) as L.
    assert (k mod lenN (save st) < lenN (save st)) by (apply N.mod_lt; unfold lenN; lia).
    unfold lenN in *. lia.
  - destruct W as [Wc Wu]. destruct ((c =? cap) && (u =? unit)) eqn:E.
    + assert (c = s_cap st /\ u = s_unit st) as [-> ->] by lia.
      rewrite <- save_header.
      assert (Sh : same_shape st st) by (split; reflexivity).
      destruct (load_save st st I Sh) as [st' [L [I' [[Sc Su] M]]]]. rewrite L. cbn [fst snd proj].
      split; [reflexivity|]. split; [cbn [fst snd]|exact Hsv]. constructor; auto; try congruence;
        try (intro z; rewrite (contents_meq st' st Su M); apply Hcon).
    + rewrite load_other_shape; auto; [|rewrite Hc, Hu; exact E].
      cbn [fst snd proj]. split; [reflexivity|split; assumption].
  - cbn [fst snd proj]. split; [reflexivity|]. split; [exact R0|]. cbn [snd]. exists st. split; [exact R0|reflexivity].
  - destruct sv as [s|]; destruct sl as [l0|]; try contradiction.
    + destruct Hsv as [st0 [[I0 Hc0 Hu0 Hcon0] ->]].
      assert (Sh : same_shape st st0) by (split; congruence).
      destruct (load_save st0 st I0 Sh) as [st' [L [I' [[Sc Su] M]]]]. rewrite L. cbn [fst snd proj].
      split; [reflexivity|]. split.
      * cbn [fst snd]. constructor; auto; try congruence. intro z. rewrite (contents_meq st' st0 Su M). apply Hcon0.
      * cbn [snd]. exists st0. split; [constructor; auto|reflexivity].
    + cbn [fst snd proj]. split; [reflexivity|]. split; [exact R0|exact Logic.I].
Qed.

Lemma run_refines cap unit : forall ops x y, XRef cap unit x y -> Forall wf_op ops ->
  map proj (snd (runx false x ops)) = map Some (snd (runx_flat cap unit y ops)) /\
  XRef cap unit (fst (runx false x ops)) (fst (runx_flat cap unit y ops)).
Proof.
  induction ops as [|o r IH]; intros x y R W; cbn [runx runx_flat].
  - cbn. split; [reflexivity|exact R].
  - inversion W as [|? ? Wo Wr]; subst.
    destruct (step_refines cap unit x y o R Wo) as [P R1].
    destruct (step false x o) as [x1 b]. destruct (flat_step cap unit y o) as [y1 fb].
    cbn [fst snd] in *. destruct (IH x1 y1 R1 Wr) as [P2 R2].
    destruct (runx false x1 r) as [x2 bs]. destruct (runx_flat cap unit y1 r) as [y2 fbs].
    cbn [fst snd map] in *. split; [congruence|exact R2].
Qed.

Lemma ref_new cap unit : 0 < unit -> unit < two64 -> cap < two64 ->
  XRef cap unit (new_storage cap unit, None) ([], None).
Proof.
  intros. split; [|exact Logic.I]. cbn [fst]. constructor; auto using inv_new.
Qed.

Lemma run_eq old st ops :
  run old st ops = (fst (fst (runx old (st, None) ops)), snd (runx old (st, None) ops)).
Proof. unfold run. destruct (runx old (st, None) ops) as [[a b] c]. reflexivity. Qed.

Lemma run_flat_eq cap unit l ops :
  run_flat cap unit l ops = (fst (fst (runx_flat cap unit (l, None) ops)), snd (runx_flat cap unit (l, None) ops)).
Proof. unfold run_flat. destruct (runx_flat cap unit (l, None) ops) as [[a b] c]. reflexivity. Qed.
