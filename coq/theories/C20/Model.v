(** C20 — model of mem/storage.go (createOrGetStorageUnit, parseAddress,
    checkRange, Read, Write) and mem/storage_checkpoint.go (SaveCheckpoint,
    LoadCheckpoint).  Definitions only.

    uint64 arithmetic that can wrap in the Go text is written with explicit
    wrap ([add64], [sub64], [mul64]).  The Go map [data] is an association
    list; the only place where the map is ranged over (SaveCheckpoint) takes
    the iteration order as an argument.  A run-time panic (integer division by
    a zero unit size) is the outcome [RPanic]; loops carry fuel and running out
    of it is the outcome [RFuel].

    The flag [old : bool] selects the code before the bounds fix
    ([old = true]: no range check, unit check [address > capacity]) or the
    current code ([old = false]). *)
From Akita Require Import Lib.Base.
Local Open Scope N_scope.

Definition add64 (a b : N) : N := w64 (a + b).
Definition sub64 (a b : N) : N := w64 (a + two64 - b).   (* a, b < 2^64 *)
Definition mul64 (a b : N) : N := w64 (a * b).

Definition lenN {A} (l : list A) : N := N.of_nat (length l).

(** the Go map[uint64]*storageUnit *)
Definition umap := list (N * list N).

Fixpoint amap_get (k : N) (m : umap) : option (list N) :=
  match m with
  | [] => None
  | (k', v) :: r => if k =? k' then Some v else amap_get k r
  end.

Fixpoint amap_set (k : N) (v : list N) (m : umap) : umap :=
  match m with
  | [] => [(k, v)]
  | (k', v') :: r => if k =? k' then (k, v) :: r else (k', v') :: amap_set k v r
  end.

Record storage := mk_storage { s_cap : N; s_unit : N; s_data : umap }.

Definition with_data (st : storage) (d : umap) : storage :=
  mk_storage (s_cap st) (s_unit st) d.

Definition new_storage (cap unit : N) : storage := mk_storage cap unit [].

(** result of one API call *)
Inductive rres :=
| ROk (bytes : list N)     (* success; Read returns the bytes, Write returns [] *)
| RErr                     (* an error value was returned *)
| RPanic                   (* run-time panic *)
| RFuel.                   (* model ran out of fuel (excluded by the theorems) *)

Definition zeros (n : N) : list N := repeat 0 (N.to_nat n).

(** newStorageUnit *)
Definition new_unit (unit : N) : list N := zeros unit.

(** the capacity test of createOrGetStorageUnit *)
Definition beyond (old : bool) (cap addr : N) : bool :=
  if old then cap <? addr else cap <=? addr.

Inductive cres :=
| COk (st : storage) (u : list N)
| CErr
| CPanic.

(** createOrGetStorageUnit: capacity test, parseAddress (panics for a zero
    unit size), map lookup, allocation of a zero unit on a miss. *)
Definition create_or_get (old : bool) (st : storage) (addr : N) : cres :=
  if beyond old (s_cap st) addr then CErr
  else if s_unit st =? 0 then CPanic
  else
    let base := addr - addr mod s_unit st in
    match amap_get base (s_data st) with
    | Some u => COk st u
    | None => let u := new_unit (s_unit st) in
              COk (with_data st (amap_set base u (s_data st))) u
    end.

(** checkRange (added by the fix): length > capacity || address > capacity - length *)
Definition check_range (st : storage) (addr len : N) : bool :=
  negb ((s_cap st <? len) || (s_cap st - len <? addr)).

Definition slice (u : list N) (from n : N) : list N :=
  firstn (N.to_nat n) (skipn (N.to_nat from) u).

(** copy(unit.data[inU:inU+n], chunk) with length chunk = n *)
Definition splice (u : list N) (from : N) (chunk : list N) : list N :=
  firstn (N.to_nat from) u ++ chunk ++ skipn (N.to_nat from + length chunk) u.

(** the loop of Read.  [acc] is the filled prefix of [res]. *)
Fixpoint read_loop (old : bool) (fuel : nat) (st : storage) (endA curr lenLeft : N)
         (acc : list N) : storage * rres :=
  if curr <? endA then
    match fuel with
    | O => (st, RFuel)
    | S f =>
        match create_or_get old st curr with
        | CErr => (st, RErr)
        | CPanic => (st, RPanic)
        | COk st' u =>
            let unit := s_unit st in
            let inU := curr mod unit in
            let base := curr - inU in
            let lenInUnit := sub64 (add64 base unit) curr in
            let n := if lenLeft <? lenInUnit then lenLeft else lenInUnit in
            read_loop old f st' endA (add64 curr n) (lenLeft - n) (acc ++ slice u inU n)
        end
    end
  else (st, ROk acc).

(** res := make([]byte, len); the loop fills a prefix *)
Definition pad (len : N) (acc : list N) : list N :=
  acc ++ zeros (len - lenN acc).

Definition read (old : bool) (st : storage) (addr len : N) : storage * rres :=
  if negb old && negb (check_range st addr len) then (st, RErr)
  else
    match read_loop old (S (N.to_nat len)) st (add64 addr len) addr len [] with
    | (st', ROk acc) => (st', ROk (pad len acc))
    | r => r
    end.

(** the loop of Write.  [data] is data[dataOffset:]. *)
Fixpoint write_loop (old : bool) (fuel : nat) (st : storage) (curr : N) (data : list N)
  : storage * rres :=
  match data with
  | [] => (st, ROk [])
  | _ :: _ =>
      match fuel with
      | O => (st, RFuel)
      | S f =>
          match create_or_get old st curr with
          | CErr => (st, RErr)
          | CPanic => (st, RPanic)
          | COk st' u =>
              let unit := s_unit st in
              let inU := curr mod unit in
              let base := curr - inU in
              let lenInData := lenN data in
              let lenInUnit := sub64 (add64 (mul64 (curr / unit) unit) unit) curr in
              let n := if lenInData <? lenInUnit then lenInData else lenInUnit in
              let chunk := firstn (N.to_nat n) data in
              let u' := splice u inU chunk in
              write_loop old f (with_data st' (amap_set base u' (s_data st')))
                         (add64 curr n) (skipn (N.to_nat n) data)
          end
      end
  end.

Definition write (old : bool) (st : storage) (addr : N) (data : list N) : storage * rres :=
  if negb old && negb (check_range st addr (lenN data)) then (st, RErr)
  else write_loop old (S (length data)) st addr data.

(** ** Checkpoint stream *)

(** binary.LittleEndian.PutUint64 *)
Fixpoint le_enc (n : nat) (x : N) : list N :=
  match n with
  | O => []
  | S n' => (x mod 256) :: le_enc n' (x / 256)
  end.

Fixpoint le_dec (l : list N) : N :=
  match l with
  | [] => 0
  | b :: r => b + 256 * le_dec r
  end.

Definition put_u64 (x : N) : list N := le_enc 8 x.

(** readUint64: io.ReadFull of 8 bytes; a short stream is an error *)
Definition get_u64 (s : list N) : option (N * list N) :=
  if (length s <? 8)%nat then None else Some (le_dec (firstn 8 s), skipn 8 s).

(** sort.Slice(addrs, <) — only the resulting order matters: insertion sort *)
Fixpoint ins_sorted (x : N) (l : list N) : list N :=
  match l with
  | [] => [x]
  | y :: r => if x <=? y then x :: l else y :: ins_sorted x r
  end.

Definition sortN (l : list N) : list N := fold_right ins_sorted [] l.

(** SaveCheckpoint; [iter] is the order in which `range s.data` yields the entries *)
Definition save_iter (iter : umap) (st : storage) : list N :=
  let addrs := sortN (map fst iter) in
  put_u64 (s_cap st) ++ put_u64 (s_unit st) ++ put_u64 (lenN addrs) ++
  flat_map (fun a => put_u64 a ++
                     match amap_get a (s_data st) with Some u => u | None => [] end) addrs.

Definition save (st : storage) : list N := save_iter (s_data st) st.

(** the unit-reading loop of LoadCheckpoint *)
Fixpoint load_units (fuel : nat) (unit : N) (num : N) (s : list N) (acc : umap) : option umap :=
  if num =? 0 then Some acc
  else
    match fuel with
    | O => None
    | S f =>
        match get_u64 s with
        | None => None
        | Some (addr, s1) =>
            if (length s1 <? N.to_nat unit)%nat then None
            else load_units f unit (num - 1) (skipn (N.to_nat unit) s1)
                            (amap_set addr (firstn (N.to_nat unit) s1) acc)
        end
    end.

(** LoadCheckpoint: [Some st'] on success, [None] when an error is returned
    (the storage is then left as it was). *)
Definition load (st : storage) (s : list N) : option storage :=
  match get_u64 s with
  | None => None
  | Some (cap, s1) =>
      match get_u64 s1 with
      | None => None
      | Some (unit, s2) =>
          if negb (cap =? s_cap st) then None
          else if negb (unit =? s_unit st) then None
          else
            match get_u64 s2 with
            | None => None
            | Some (num, s3) =>
                match load_units (S (length s3)) (s_unit st) num s3 [] with
                | None => None
                | Some d => Some (with_data st d)
                end
            end
      end
  end.

(** ** Histories *)

Inductive op :=
| ORead (addr len : N)
| OWrite (addr : N) (data : list N)
| OCkpt                      (* save; load into a fresh storage of the same shape; continue with it *)
| OLoadTrunc (k : N)         (* save; keep the first (k mod length) bytes, a strict prefix; load into the same storage *)
| OLoadShape (cap unit : N)  (* save; overwrite the shape header; load into the same storage *)
| OSave                      (* save and keep the stream aside *)
| ORestore.                  (* load the stream kept aside into the CURRENT (non-fresh) storage *)

(** what one operation shows *)
Inductive obs :=
| BRes (r : rres)
| BCkpt (stream : list N) (ok : bool) (resave_same : bool)  (* the restored storage saves to the same stream *)
| BLoad (ok : bool)
| BSave (stream : list N).

(** a history runs on the storage plus the stream kept aside by the last OSave *)
Definition xst := (storage * option (list N))%type.

Definition step (old : bool) (x : xst) (o : op) : xst * obs :=
  let '(st, sv) := x in
  match o with
  | ORead a n => let '(st', r) := read old st a n in ((st', sv), BRes r)
  | OWrite a d => let '(st', r) := write old st a d in ((st', sv), BRes r)
  | OCkpt =>
      let s := save st in
      match load (new_storage (s_cap st) (s_unit st)) s with
      | Some st' => ((st', sv), BCkpt s true (listN_eqb (save st') s))
      | None => ((st, sv), BCkpt s false false)
      end
  | OLoadTrunc k =>
      match load st (firstn (N.to_nat (k mod lenN (save st))) (save st)) with
      | Some st' => ((st', sv), BLoad true)
      | None => ((st, sv), BLoad false)
      end
  | OLoadShape c u =>
      match load st (put_u64 c ++ put_u64 u ++ skipn 16 (save st)) with
      | Some st' => ((st', sv), BLoad true)
      | None => ((st, sv), BLoad false)
      end
  | OSave => ((st, Some (save st)), BSave (save st))
  | ORestore =>
      match sv with
      | None => ((st, sv), BLoad false)
      | Some s =>
          match load st s with
          | Some st' => ((st', sv), BLoad true)
          | None => ((st, sv), BLoad false)
          end
      end
  end.

Fixpoint runx (old : bool) (x : xst) (ops : list op) : xst * list obs :=
  match ops with
  | [] => (x, [])
  | o :: r => let '(x1, b) := step old x o in
              let '(x2, bs) := runx old x1 r in (x2, b :: bs)
  end.

Definition run (old : bool) (st : storage) (ops : list op) : storage * list obs :=
  let '((st', _), bs) := runx old (st, None) ops in (st', bs).

(** byte stored at address [a] *)
Definition contents (st : storage) (a : N) : N :=
  match amap_get (a - a mod s_unit st) (s_data st) with
  | Some u => nth (N.to_nat (a mod s_unit st)) u 0
  | None => 0
  end.

(** ** The reference: a zero-initialised flat array of [cap] bytes, kept as
    the log of accepted writes (most recent first). *)
Definition flog := list (N * list N).

Fixpoint flat_get (l : flog) (a : N) : N :=
  match l with
  | [] => 0
  | (b, d) :: r =>
      if (b <=? a) && (a <? b + lenN d) then nth (N.to_nat (a - b)) d 0 else flat_get r a
  end.

Definition seqN (a n : N) : list N := map (fun i => a + N.of_nat i) (seq 0 (N.to_nat n)).

(** projection of an observation to what the flat array can say about it *)
Inductive fobs := FOk (bytes : list N) | FErr.

(** addr + len is computed WITHOUT wrap; the array kept aside by OSave is restored by ORestore *)
Definition fst_t := (flog * option flog)%type.

Definition flat_step (cap unit : N) (x : fst_t) (o : op) : fst_t * fobs :=
  let '(l, sl) := x in
  match o with
  | ORead a n => if cap <? a + n then (x, FErr) else (x, FOk (map (flat_get l) (seqN a n)))
  | OWrite a d => if cap <? a + lenN d then (x, FErr) else (((a, d) :: l, sl), FOk [])
  | OCkpt => (x, FOk [])
  | OLoadTrunc _ => (x, FErr)
  | OLoadShape c u => if (c =? cap) && (u =? unit) then (x, FOk []) else (x, FErr)
  | OSave => ((l, Some l), FOk [])
  | ORestore => match sl with None => (x, FErr) | Some l0 => ((l0, sl), FOk []) end
  end.

Fixpoint runx_flat (cap unit : N) (x : fst_t) (ops : list op) : fst_t * list fobs :=
  match ops with
  | [] => (x, [])
  | o :: r => let '(x1, b) := flat_step cap unit x o in
              let '(x2, bs) := runx_flat cap unit x1 r in (x2, b :: bs)
  end.

Definition run_flat (cap unit : N) (l : flog) (ops : list op) : flog * list fobs :=
  let '((l', _), bs) := runx_flat cap unit (l, None) ops in (l', bs).

Definition proj (b : obs) : option fobs :=
  match b with
  | BRes (ROk x) => Some (FOk x)
  | BRes RErr => Some FErr
  | BRes _ => None
  | BCkpt _ true true => Some (FOk [])
  | BCkpt _ _ _ => Some FErr
  | BLoad true => Some (FOk [])
  | BLoad false => Some FErr
  | BSave _ => Some (FOk [])
  end.
