(** C20 — checkpoint stream: save is canonical, load inverts save. *)
From Coq Require Import Permutation.
From Akita Require Import Lib.Base C20.Model C20.Proofs1 C20.Proofs2.
Local Open Scope N_scope.

(** ** little-endian words *)
Lemma le_enc_length n x : length (le_enc n x) = n.
Proof. revert x. induction n as [|n IH]; intro x; cbn [le_enc length]; auto. Qed.

Lemma le_dec_enc n x : le_dec (le_enc n x) = x mod 256 ^ N.of_nat n.
Proof.
  revert x. induction n as [|n IH]; intro x.
  - cbn. rewrite N.mod_1_r. reflexivity.
  - cbn [le_enc le_dec]. rewrite IH.
    replace (N.of_nat (S n)) with (N.succ (N.of_nat n)) by lia. rewrite N.pow_succ_r'.
    pose proof (N.pow_nonzero 256 (N.of_nat n) ltac:(lia)) as Hp.
    rewrite N.mod_mul_r by lia. reflexivity.
Qed.

Lemma firstn_app_exact {A} (a b : list A) n : length a = n -> firstn n (a ++ b) = a.
Proof.
  intros <-. induction a as [|x a IH]; cbn [length firstn app]; [reflexivity|]. f_equal. exact IH.
Qed.

Lemma skipn_app_exact {A} (a b : list A) n : length a = n -> skipn n (a ++ b) = b.
Proof.
  intros <-. induction a as [|x a IH]; cbn [length skipn app]; [reflexivity|exact IH].
Qed.

Lemma get_put_u64 x rest : x < two64 -> get_u64 (put_u64 x ++ rest) = Some (x, rest).
Proof.
  intro H. unfold get_u64, put_u64.
  assert (L : length (le_enc 8 x) = 8%nat) by apply le_enc_length.
  destruct (length (le_enc 8 x ++ rest) <? 8)%nat eqn:E.
  - rewrite app_length in E. apply Nat.ltb_lt in E. lia.
  - rewrite firstn_app_exact, skipn_app_exact by exact L.
    rewrite le_dec_enc. f_equal. f_equal. apply N.mod_small. exact H.
Qed.

(** ** sorting is independent of the iteration order *)
Lemma ins_comm x y l : ins_sorted x (ins_sorted y l) = ins_sorted y (ins_sorted x l).
Proof.
  induction l as [|z r IH]; cbn [ins_sorted];
    repeat (match goal with
            | |- context [?a <=? ?b] => destruct (a <=? b) eqn:?; cbn [ins_sorted]
            end);
    try reflexivity; try lia;
    try (assert (x = y) by lia; subst; reflexivity).
  rewrite IH. reflexivity.
Qed.

Lemma sortN_perm l l' : Permutation l l' -> sortN l = sortN l'.
Proof.
  induction 1; cbn [sortN fold_right]; try congruence.
  - fold (sortN l). fold (sortN l'). congruence.
  - apply ins_comm.
Qed.

Lemma in_ins x y l : In x (ins_sorted y l) <-> x = y \/ In x l.
Proof.
  induction l as [|z r IH]; cbn [ins_sorted In]; [intuition|].
  destruct (y <=? z); cbn [In]; [intuition|]. rewrite IH. intuition.
Qed.

Lemma in_sortN x l : In x (sortN l) <-> In x l.
Proof.
  induction l as [|z r IH]; cbn [sortN fold_right In]; [intuition|].
  fold (sortN r). rewrite in_ins, IH. intuition.
Qed.

Lemma sortN_length l : length (sortN l) = length l.
Proof.
  induction l as [|z r IH]; cbn [sortN fold_right length]; [reflexivity|]. fold (sortN r).
  rewrite <- IH. generalize (sortN r) as s. induction s as [|w s IHs]; cbn [ins_sorted length]; auto.
  destruct (z <=? w); cbn [length]; auto.
Qed.

(** SaveCheckpoint does not depend on the order in which the map is ranged over *)
Lemma save_iter_perm iter st : Permutation iter (s_data st) -> save_iter iter st = save st.
Proof.
  intro P. unfold save, save_iter.
  rewrite (sortN_perm (map fst iter) (map fst (s_data st))); [reflexivity|].
  apply Permutation_map. exact P.
Qed.

(** ** load inverts save *)
Definition unit_of (d : umap) (a : N) : list N :=
  match amap_get a d with Some u => u | None => [] end.

Definition ser_units (d : umap) (addrs : list N) : list N :=
  flat_map (fun a => put_u64 a ++ unit_of d a) addrs.

Definition rebuild (d : umap) (addrs : list N) (acc : umap) : umap :=
  fold_left (fun m a => amap_set a (unit_of d a) m) addrs acc.

Lemma load_units_ser d unit : forall addrs fuel acc,
  (forall a, In a addrs -> a < two64 /\ lenN (unit_of d a) = unit) ->
  (length addrs <= fuel)%nat ->
  load_units fuel unit (lenN addrs) (ser_units d addrs) acc = Some (rebuild d addrs acc).
Proof.
  induction addrs as [|a r IH]; intros fuel acc H Hf.
  - destruct fuel; reflexivity.
  - destruct fuel as [|f]; [cbn in Hf; lia|].
    cbn [load_units]. destruct (lenN (a :: r) =? 0) eqn:E0; [unfold lenN in E0; cbn in E0; lia|].
    destruct (H a (or_introl eq_refl)) as [Ha La].
    cbn [ser_units flat_map]. rewrite <- app_assoc, get_put_u64 by exact Ha.
    fold (ser_units d r).
    assert (Ll : length (unit_of d a) = N.to_nat unit) by (unfold lenN in La; lia).
    destruct (length (unit_of d a ++ ser_units d r) <? N.to_nat unit)%nat eqn:El.
    { rewrite app_length in El. apply Nat.ltb_lt in El. lia. }
    rewrite skipn_app_exact, firstn_app_exact by exact Ll.
    replace (lenN (a :: r) - 1) with (lenN r) by (unfold lenN; cbn [length]; lia).
    rewrite IH; [reflexivity| |cbn in Hf; lia].
    intros x Hx. apply H. right. exact Hx.
Qed.

Lemma rebuild_get d : forall addrs acc k,
  (In k addrs -> amap_get k (rebuild d addrs acc) = Some (unit_of d k)) /\
  (~ In k addrs -> amap_get k (rebuild d addrs acc) = amap_get k acc).
Proof.
  induction addrs as [|a r IH]; intros acc k; cbn [rebuild fold_left In].
  - split; [intros []|reflexivity].
  - fold (rebuild d r (amap_set a (unit_of d a) acc)).
    destruct (IH (amap_set a (unit_of d a) acc) k) as [I1 I2]. split.
    + intros [->|Hin].
      * destruct (in_dec N.eq_dec k r) as [Hr|Hr]; [auto|].
        rewrite I2 by exact Hr. apply get_set_same.
      * auto.
    + intro Hn. rewrite I2 by tauto. apply get_set_other. tauto.
Qed.

Lemma rebuild_nodup d : forall addrs acc, NoDup (map fst acc) -> NoDup (map fst (rebuild d addrs acc)).
Proof.
  induction addrs as [|a r IH]; intros acc H; cbn [rebuild fold_left]; [exact H|].
  apply IH. apply nodup_set. exact H.
Qed.

(** pigeonhole: fewer than 2^64 units *)
Lemma keys_count_lt st : Inv st -> lenN (map fst (s_data st)) < two64.
Proof.
  intro I. pose proof (inv_cap64 _ I) as Hc.
  assert (Hincl : incl (map fst (s_data st)) (map N.of_nat (seq 0 (N.to_nat (s_cap st))))).
  { intros k Hk. apply get_in_keys in Hk.
    destruct (amap_get k (s_data st)) as [u|] eqn:G; [|congruence].
    pose proof (inv_keys _ I k u G) as Hlt.
    apply in_map_iff. exists (N.to_nat k). split; [lia|]. apply in_seq. lia. }
  pose proof (NoDup_incl_length (inv_nodup _ I) Hincl) as L.
  rewrite !map_length, seq_length in L. unfold lenN. rewrite map_length. lia.
Qed.

Definition meq (m m' : umap) : Prop := forall k, amap_get k m = amap_get k m'.

Lemma contents_meq st st' : s_unit st = s_unit st' -> meq (s_data st) (s_data st') ->
  forall a, contents st a = contents st' a.
Proof. intros Hu Hm a. unfold contents. rewrite Hu, Hm. reflexivity. Qed.

Lemma load_header st rest :
  s_cap st < two64 -> s_unit st < two64 ->
  load st (put_u64 (s_cap st) ++ put_u64 (s_unit st) ++ rest) =
  match get_u64 rest with
  | None => None
  | Some (num, s3) =>
      match load_units (S (length s3)) (s_unit st) num s3 [] with
      | None => None
      | Some d => Some (with_data st d)
      end
  end.
Proof.
  intros Hc Hu. unfold load. rewrite get_put_u64 by exact Hc. rewrite get_put_u64 by exact Hu.
  rewrite !N.eqb_refl. cbn [negb]. reflexivity.
Qed.

(** the central round-trip statement, for an arbitrary target of the same shape *)
Lemma load_save st tgt : Inv st -> same_shape tgt st ->
  exists st', load tgt (save st) = Some st' /\ Inv st' /\ same_shape st' st /\
              meq (s_data st') (s_data st).
Proof.
  intros I [Sc Su]. unfold save, save_iter.
  set (addrs := sortN (map fst (s_data st))).
  rewrite <- Sc, <- Su. rewrite (load_header tgt); try (rewrite ?Sc, ?Su; apply I).
  assert (Hcount : lenN addrs < two64).
  { unfold addrs, lenN. rewrite sortN_length. apply (keys_count_lt st I). }
  rewrite get_put_u64 by exact Hcount.
  assert (Hall : forall a, In a addrs -> a < two64 /\ lenN (unit_of (s_data st) a) = s_unit tgt).
  { intros a Ha. unfold addrs in Ha. apply in_sortN, get_in_keys in Ha. unfold unit_of.
    destruct (amap_get a (s_data st)) as [u|] eqn:G; [|congruence].
    split; [pose proof (inv_keys _ I a u G); pose proof (inv_cap64 _ I); lia|].
    rewrite Su. apply (inv_len _ I a u G). }
  fold (unit_of (s_data st)).
  change (flat_map (fun a => put_u64 a ++ unit_of (s_data st) a) addrs) with (ser_units (s_data st) addrs).
  rewrite (load_units_ser (s_data st) (s_unit tgt) addrs _ [] Hall).
  2:{ assert (length addrs <= length (ser_units (s_data st) addrs))%nat; [|unfold ser_units, unit_of in *; lia].
      clear. induction addrs as [|a r IH]; cbn [ser_units flat_map length]; [lia|].
      fold (ser_units (s_data st) r). rewrite !app_length. unfold put_u64. rewrite le_enc_length. lia. }
  eexists. split; [reflexivity|].
  assert (M : meq (rebuild (s_data st) addrs []) (s_data st)).
  { intro k. destruct (rebuild_get (s_data st) addrs [] k) as [R1 R2].
    destruct (in_dec N.eq_dec k addrs) as [Hin|Hin].
    - rewrite R1 by exact Hin. unfold addrs in Hin. apply in_sortN, get_in_keys in Hin.
      unfold unit_of. destruct (amap_get k (s_data st)); congruence.
    - rewrite R2 by exact Hin. cbn [amap_get].
      destruct (amap_get k (s_data st)) eqn:G; [|reflexivity].
      exfalso. apply Hin. unfold addrs. apply in_sortN, get_in_keys. congruence. }
  split; [|split; [split; cbn [s_cap s_unit with_data]; congruence|exact M]].
  constructor; cbn [s_cap s_unit s_data with_data]; rewrite ?Sc, ?Su; try apply I.
  - intros k u. rewrite M. apply (inv_len _ I).
  - intros k u. rewrite M. apply (inv_keys _ I).
  - apply rebuild_nodup. constructor.
Qed.

(** a stream whose shape header differs is rejected *)
Lemma load_other_shape st c u rest : c < two64 -> u < two64 ->
  (c =? s_cap st) && (u =? s_unit st) = false ->
  load st (put_u64 c ++ put_u64 u ++ rest) = None.
Proof.
  intros Hc Hu E. unfold load. rewrite get_put_u64 by exact Hc. rewrite get_put_u64 by exact Hu.
  destruct (c =? s_cap st); cbn [negb]; [|reflexivity].
  destruct (u =? s_unit st); cbn [negb]; [discriminate|reflexivity].
Qed.

Lemma save_header st :
  save st = put_u64 (s_cap st) ++ put_u64 (s_unit st) ++ skipn 16 (save st).
Proof.
  unfold save, save_iter. set (tl := put_u64 _ ++ flat_map _ _).
  rewrite app_assoc.
  assert (L : length (put_u64 (s_cap st) ++ put_u64 (s_unit st)) = 16%nat).
  { rewrite app_length. unfold put_u64. rewrite !le_enc_length. reflexivity. }
  rewrite skipn_app_exact by exact L. rewrite <- app_assoc. reflexivity.
Qed.

(** storages with the same shape and the same map contents save to the same stream *)
Lemma save_meq st st' : Inv st -> Inv st' -> same_shape st' st -> meq (s_data st') (s_data st) ->
  save st' = save st.
Proof.
  intros I I' [Sc Su] M. unfold save, save_iter. rewrite Sc, Su.
  assert (K : sortN (map fst (s_data st')) = sortN (map fst (s_data st))).
  { apply sortN_perm. apply NoDup_Permutation; try apply I; try apply I'.
    intro k. rewrite <- !get_in_keys, M. reflexivity. }
  rewrite K. f_equal. f_equal. f_equal. apply flat_map_ext. intro a. rewrite M. reflexivity.
Qed.
