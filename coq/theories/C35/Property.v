(** C35 — the data recorder persists every entry exactly once.  Theorems only. *)
From Coq Require Import Permutation.
From Akita Require Import Lib.Base Lib.Lts C35.Model C35.Proofs C35.Proofs2 C35.Proofs3.
Local Open Scope N_scope.

(** Sequential sessions.  For every set of tables (any shapes), every batch size,
    every sequence of InsertData / Flush calls with ANY map iteration order in each
    flush (an oracle per flush that visits every table), followed by Close: if no
    call panicked, then for every table the rows in the database — location ids
    resolved through the location table, as the datareader does — are exactly the
    inserted entries of that table, in insertion order, each once, with every
    non-ignored field unchanged; nothing is left in a buffer. *)
Theorem c35_seq_exactly_once : forall shapes batch ops ord s,
  Forall (covers (map fst shapes)) ops -> (forall n, In n (map fst shapes) -> In n ord) ->
  run_ops (ops ++ [OFlush ord]) (rec_init shapes batch) = Some s ->
  (forall n t, tab_get n (r_tabs s) = Some t ->
     t_buf t = [] /\ map (resolve (r_locrows s)) (t_rows t) = map proj (inserted n ops)) /\
  map fst (r_tabs s) = map fst shapes /\
  r_locbuf s = [] /\ r_locrows s = number_from 1 (r_locs s) /\ NoDup (r_locs s).
Proof. exact seq_exactly_once. Qed.
Print Assumptions c35_seq_exactly_once.

(** The location table: ids are exactly 1..n in row order, the strings are pairwise
    distinct, and every id stored in any row is a key of the table. *)
Theorem c35_location_bijection : forall shapes batch ops ord s,
  Forall (covers (map fst shapes)) ops -> (forall n, In n (map fst shapes) -> In n ord) ->
  run_ops (ops ++ [OFlush ord]) (rec_init shapes batch) = Some s ->
  map fst (r_locrows s) = map (fun i => 1 + N.of_nat i) (seq 0 (length (r_locrows s))) /\
  NoDup (map snd (r_locrows s)) /\
  (forall n t r id, tab_get n (r_tabs s) = Some t -> In r (t_rows t) -> In (CLoc id) r ->
     In (id, loc_lookup id (r_locrows s)) (r_locrows s)).
Proof. exact location_bijection. Qed.
Print Assumptions c35_location_bijection.

(** No call panics on a well-formed session: distinct table names, every inserted
    entry has its table's shape, storable plain fields (no uint64 >= 2^63, no
    complex) and string location fields — for every batch size and flush order.
    Together with c35_seq_exactly_once this makes exactly-once unconditional on
    that domain. *)
Theorem c35_no_panic : forall shapes batch ops,
  NoDup (map fst shapes) -> Forall (op_ok shapes) ops ->
  exists s, run_ops ops (rec_init shapes batch) = Some s.
Proof. exact no_panic. Qed.
Print Assumptions c35_no_panic.

(** The two value-domain defects: a storable-looking entry of allowed kinds makes
    the flush panic (model outcome None). *)
Theorem c35_value_domain_refuted :
  run_ops [OInsert 0 [(TPlain, VUint 9223372036854775808)] [0]; OFlush [0]] (rec_init [(0, [TPlain])] 10) = None /\
  run_ops [OInsert 0 [(TPlain, VComplex)] [0]; OFlush [0]] (rec_init [(0, [TPlain])] 10) = None /\
  run_ops [OInsert 0 [(TPlain, VUint 9223372036854775807)] [0]; OFlush [0]] (rec_init [(0, [TPlain])] 10) <> None.
Proof. vm_compute. repeat split; congruence. Qed.
Print Assumptions c35_value_domain_refuted.

(** InsertData ∥ Flush as coded BEFORE fix 1220fc1b (Flush not under the mutex): two
    goroutines, batchSize 1.  Witness 1: a second BEGIN inside the open transaction
    (mustExecute panics).  Witness 2: an entry appended while another goroutine is
    between "range table.entries" and "table.entries = nil" is lost, silently. *)
Definition c_init2 : cst := mk_c [ILock; ILock] false [] [] 0 false false.

Theorem c35_concurrent_old_refuted :
  (exists o, c_panic (run c_step_old o c_init2) = true) /\
  (exists o, let s := run c_step_old o c_init2 in
             c_panic s = false /\ c_pcs s = [IDone; IDone] /\ c_rows s = [0] /\ c_buf s = []).
Proof.
  split.
  - exists [0; 0; 0; 0; 1; 1; 1; 1]%nat. vm_compute. reflexivity.
  - exists [0; 0; 0; 0; 0; 1; 1; 0; 0; 0; 0; 0; 1]%nat. vm_compute. repeat split; reflexivity.
Qed.
Print Assumptions c35_concurrent_old_refuted.

(** AFTER the fix, in general: ANY number of goroutines, each making ANY list of
    InsertData / Flush calls (well-formed: existing table, entry of the table's
    shape, storable values), any batch size, EVERY schedule oracle.  No panic is
    reachable (no BEGIN inside a transaction, no COMMIT without one); whenever the
    connection is inside a transaction the mutex is held and the goroutine between
    BEGIN and COMMIT is the only one not idle; the recorder state is the SEQUENTIAL
    recorder applied to the completed calls in the order their effects took place
    (linearizability), and completed + pending calls = all calls. *)
Theorem c35_concurrent_fixed : forall shapes batch progs o,
  NoDup (map fst shapes) -> Forall (Forall (op_ok shapes)) progs ->
  let s := run g_step o (g_init shapes batch progs) in
  g_panic s = false /\
  (g_txn s = true -> g_mu s = true /\
     exists a pc prog b, g_ths s = a ++ (pc, prog) :: b /\ Forall idle a /\ Forall idle b /\ in_txn pc = true) /\
  run_ops (g_lin s) (rec_init shapes batch) = Some (g_rec s) /\
  Permutation (g_lin s ++ concat (map pend (g_ths s))) (concat progs).
Proof. exact concurrent_fixed. Qed.
Print Assumptions c35_concurrent_fixed.

(** ... and when every goroutine has finished and Close (the final flush, any
    iteration order) has run, each table holds exactly the multiset of the entries
    inserted into it by all goroutines — each exactly once, every non-ignored field
    unchanged, nothing left in a buffer. *)
Theorem c35_concurrent_fixed_exactly_once : forall shapes batch progs o ord,
  NoDup (map fst shapes) -> Forall (Forall (op_ok shapes)) progs ->
  Forall (Forall (covers (map fst shapes))) progs -> (forall n, In n (map fst shapes) -> In n ord) ->
  let s := run g_step o (g_init shapes batch progs) in
  g_all_done s ->
  exists s', flush ord (g_rec s) = Some s' /\
    forall n t, tab_get n (r_tabs s') = Some t ->
      t_buf t = [] /\
      Permutation (map (resolve (r_locrows s')) (t_rows t)) (map proj (inserted n (concat progs))).
Proof. exact concurrent_fixed_exactly_once. Qed.
Print Assumptions c35_concurrent_fixed_exactly_once.

(** Regression example (the coarse 3-goroutine model, exhaustive): three
    inserting goroutines, every batch size 1..4, EVERY schedule of length 6 over the
    three goroutines (exhaustive, finite domain — each goroutine has two steps and a
    disabled choice stutters): every entry of a finished goroutine is in rows ++
    buffer exactly once and complete schedules lose nothing. *)
Definition f_init3 (batch : N) : fst_ := mk_f [JLock; JLock; JLock] false [] [] 0 batch.

Fixpoint all_oracles (n : nat) : list (list nat) :=
  match n with
  | O => [[]]
  | S k => flat_map (fun o => [0%nat :: o; 1%nat :: o; 2%nat :: o]) (all_oracles k)
  end.

Definition count_in (x : N) (l : list N) : nat := length (filter (N.eqb x) l).

Definition fixed_ok (s : fst_) : bool :=
  forallb (fun i => match nth_error (f_pcs s) i with
                    | Some JDone => Nat.eqb (count_in (N.of_nat i) (f_rows s ++ f_buf s)) 1
                    | _ => Nat.eqb (count_in (N.of_nat i) (f_rows s ++ f_buf s)) 0
                    end) [0; 1; 2]%nat.

Theorem c35_concurrent_fixed_3 :
  forallb (fun b => forallb (fun o => fixed_ok (run c_step_fixed o (f_init3 b))) (all_oracles 6)) [1; 2; 3; 4] = true.
Proof. vm_compute. reflexivity. Qed.
Print Assumptions c35_concurrent_fixed_3.

(** Non-vacuity: two tables sharing location strings, batch size 2, flush orders
    alternating between the two map iteration orders. *)
(** Non-vacuity of the concurrent theorems: three goroutines (two tables, shared
    location strings, batch size 2) under a round-robin schedule all finish. *)
Definition cv_shapes : list (N * list ftag) := [(0, [TPlain; TLoc]); (1, [TLoc; TPlain])].
Definition cv_progs : list (list op) :=
  [[OInsert 0 [(TPlain, VInt 1); (TLoc, VStr [65])] [0; 1]; OInsert 1 [(TLoc, VStr [66]); (TPlain, VInt 2)] [0; 1]];
   [OInsert 1 [(TLoc, VStr [65]); (TPlain, VInt 3)] [0; 1]; OFlush [0; 1]];
   [OInsert 0 [(TPlain, VInt 4); (TLoc, VStr [66])] [0; 1]]].

Example c35_concurrent_nonvacuous :
  NoDup (map fst cv_shapes) /\ Forall (Forall (op_ok cv_shapes)) cv_progs /\
  Forall (Forall (covers (map fst cv_shapes))) cv_progs /\
  (let s := run g_step (concat (repeat [0; 1; 2]%nat 40)) (g_init cv_shapes 2 cv_progs) in
   g_ths s = [(GIdle, []); (GIdle, []); (GIdle, [])] /\ g_panic s = false /\ length (g_lin s) = 5%nat).
Proof.
  split; [repeat constructor; cbn; intuition congruence|].
  split.
  - repeat constructor; cbn; eexists; (split; [|split]);
      try (left; reflexivity); try (right; left; reflexivity); try reflexivity;
      intros sh' [H|[H|[]]]; inversion H; reflexivity.
  - split.
    + repeat (apply Forall_cons || apply Forall_nil); cbn; try (intros n [H|[H|[]]]; subst; auto).
    + vm_compute. repeat split; reflexivity.
Qed.

Example c35_nonvacuous :
  let shapes := [(0, [TPlain; TLoc; TIgnore]); (1, [TLoc; TPlain; TLoc])] in
  let ops := [OInsert 0 [(TPlain, VInt 1); (TLoc, VStr [65]); (TIgnore, VInt 9)] [1; 0];
              OInsert 1 [(TLoc, VStr [66]); (TPlain, VStr [39; 34]); (TLoc, VStr [65])] [1; 0];
              OFlush [1; 0];
              OInsert 0 [(TPlain, VInt 2); (TLoc, VStr [66]); (TIgnore, VInt 8)] [1; 0]] in
  Forall (covers (map fst shapes)) ops /\
  exists s, run_ops (ops ++ [OFlush [0; 1]]) (rec_init shapes 2) = Some s /\
            r_locrows s = [(1, [66]); (2, [65])].
Proof.
  split.
  - repeat (constructor; [cbn; intros n [H|[H|[]]]; subst; auto|]). constructor.
  - eexists. split; vm_compute; reflexivity.
Qed.
