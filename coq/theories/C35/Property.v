(** C35 — the data recorder persists every entry exactly once.  Theorems only. *)
From Akita Require Import Lib.Base Lib.Lts C35.Model.
Local Open Scope N_scope.

(** InsertData ∥ Flush as coded before the fix (Flush not under the mutex): two
    goroutines, batchSize 1.  Witness 1: the second BEGIN/COMMIT pair fails
    (mustExecute panics).  Witness 2: an entry appended while another goroutine is
    between "range table.entries" and "table.entries = nil" is lost, silently. *)
Definition c_init2 : cst := mk_c [ILock; ILock] false [] [] 0 false false.

Theorem c35_concurrent_refuted :
  (exists o, c_panic (run c_step_old o c_init2) = true) /\
  (exists o, let s := run c_step_old o c_init2 in
             c_panic s = false /\ c_pcs s = [IDone; IDone] /\ c_rows s = [0] /\ c_buf s = []).
Proof.
  split.
  - exists [0; 0; 0; 0; 1; 1; 1; 1]%nat. vm_compute. reflexivity.
  - exists [0; 0; 0; 0; 0; 1; 1; 0; 0; 0; 0; 0; 1]%nat. vm_compute. repeat split; reflexivity.
Qed.
Print Assumptions c35_concurrent_refuted.
