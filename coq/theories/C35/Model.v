(** C35 — model of datarecording/datarecorder.go (sqliteWriter: InsertData, Flush,
    insertEntryForTable, getLocationID, flushLocationTable, Close) as a sequential
    state machine, and of InsertData ∥ Flush with the locks as coded (before and
    after the fix).  Definitions only. *)
From Akita Require Import Lib.Base Lib.Lts.
Local Open Scope N_scope.

(** field values of the allowed kinds; floats are opaque bit patterns, strings byte lists *)
Inductive val :=
| VInt (z : Z) | VUint (n : N) | VBool (b : bool) | VFloat (bits : N) | VStr (s : list N) | VComplex.

Inductive ftag := TPlain | TIgnore | TLoc.      (* akita_data tag: none/unique/index | ignore | location *)

Definition entry := list (ftag * val).          (* every struct field, in declaration order *)

(** what database/sql + SQLite can bind: a uint64 with the high bit set and any
    complex value are rejected by the driver's value converter (ExecContext error -> panic) *)
Definition storable (v : val) : bool :=
  match v with
  | VUint n => n <? 9223372036854775808
  | VComplex => false
  | _ => true
  end.

Inductive cell := CVal (v : val) | CLoc (id : N).
Definition row := list cell.

Definition str := list N.
Definition str_eqb : str -> str -> bool := list_eqb N.eqb.

Record tbl := mk_tbl { t_shape : list ftag; t_buf : list entry; t_rows : list row }.

Record rec := mk_rec {
  r_tabs : list (N * tbl);        (* t.tables without "location": name -> table *)
  r_locs : list str;              (* locationInfo: string -> id = position + 1 *)
  r_locbuf : list (N * str);      (* buffered entries of the location table *)
  r_locrows : list (N * str);     (* rows of the location table in the database *)
  r_count : N;                    (* entryCount *)
  r_batch : N                     (* batchSize *)
}.

Fixpoint index_of (s : str) (l : list str) (i : N) : option N :=
  match l with
  | [] => None
  | x :: r => if str_eqb x s then Some i else index_of s r (i + 1)
  end.

(** getLocationID *)
Definition intern (s : str) (locs : list str) (lb : list (N * str)) (cnt : N) : N * list str * list (N * str) * N :=
  match index_of s locs 1 with
  | Some id => (id, locs, lb, cnt)
  | None => let id := N.of_nat (length locs) + 1 in (id, locs ++ [s], lb ++ [(id, s)], cnt + 1)
  end.

(** insertEntryForTable: the bound values of one entry; None = panic *)
Fixpoint to_row (e : entry) (locs : list str) (lb : list (N * str)) (cnt : N)
  : option (row * list str * list (N * str) * N) :=
  match e with
  | [] => Some ([], locs, lb, cnt)
  | (TIgnore, _) :: r => to_row r locs lb cnt
  | (TPlain, v) :: r =>
      if storable v then
        match to_row r locs lb cnt with
        | Some (row, l', b', c') => Some (CVal v :: row, l', b', c')
        | None => None
        end
      else None
  | (TLoc, VStr s) :: r =>
      let '(id, l1, b1, c1) := intern s locs lb cnt in
      match to_row r l1 b1 c1 with
      | Some (row, l', b', c') => Some (CLoc id :: row, l', b', c')
      | None => None
      end
  | (TLoc, _) :: r => None
  end.

Definition shape_eqb (a b : list ftag) : bool :=
  list_eqb (fun x y => match x, y with TPlain, TPlain | TIgnore, TIgnore | TLoc, TLoc => true | _, _ => false end) a b.

(** the entries of one table, in buffer order *)
Fixpoint flush_entries (shape : list ftag) (es : list entry) (rows : list row) (locs : list str) (lb : list (N * str)) (cnt : N)
  : option (list row * list str * list (N * str) * N) :=
  match es with
  | [] => Some (rows, locs, lb, cnt)
  | e :: r =>
      if shape_eqb (map fst e) shape then     (* vType != table.structType -> panic *)
        match to_row e locs lb cnt with
        | Some (row, l', b', c') => flush_entries shape r (rows ++ [row]) l' b' c'
        | None => None
        end
      else None
  end.

Fixpoint tab_get (name : N) (ts : list (N * tbl)) : option tbl :=
  match ts with [] => None | (k, t) :: r => if k =? name then Some t else tab_get name r end.

Fixpoint tab_set (name : N) (t : tbl) (ts : list (N * tbl)) : list (N * tbl) :=
  match ts with [] => [] | (k, x) :: r => if k =? name then (k, t) :: r else (k, x) :: tab_set name t r end.

(** the loop "for tableName, table := range t.tables" in the iteration order [order]
    (a Go map: any order, chosen by an oracle) *)
Fixpoint flush_tables (order : list N) (ts : list (N * tbl)) (locs : list str) (lb : list (N * str)) (cnt : N)
  : option (list (N * tbl) * list str * list (N * str) * N) :=
  match order with
  | [] => Some (ts, locs, lb, cnt)
  | name :: rest =>
      match tab_get name ts with
      | None => flush_tables rest ts locs lb cnt
      | Some t =>
          match flush_entries (t_shape t) (t_buf t) (t_rows t) locs lb cnt with
          | Some (rows, l', b', c') =>
              flush_tables rest (tab_set name (mk_tbl (t_shape t) [] rows) ts) l' b' c'
          | None => None
          end
      end
  end.

(** Flush (flushLocked after the fix): None = panic *)
Definition flush (order : list N) (s : rec) : option rec :=
  if r_count s =? 0 then Some s
  else match flush_tables order (r_tabs s) (r_locs s) (r_locbuf s) (r_count s) with
       | Some (ts, locs, lb, _) => Some (mk_rec ts locs [] (r_locrows s ++ lb) 0 (r_batch s))
       | None => None
       end.

(** InsertData *)
Definition insert (name : N) (e : entry) (order : list N) (s : rec) : option rec :=
  match tab_get name (r_tabs s) with
  | None => None                                   (* table does not exist: panic *)
  | Some t =>
      let s1 := mk_rec (tab_set name (mk_tbl (t_shape t) (t_buf t ++ [e]) (t_rows t)) (r_tabs s))
                       (r_locs s) (r_locbuf s) (r_locrows s) (r_count s + 1) (r_batch s) in
      if r_batch s <=? r_count s + 1 then flush order s1 else Some s1
  end.

Inductive op :=
| OInsert (name : N) (e : entry) (order : list N)   (* order: map iteration order if this insert flushes *)
| OFlush (order : list N).

Definition do_op (o : op) (s : rec) : option rec :=
  match o with
  | OInsert n e ord => insert n e ord s
  | OFlush ord => flush ord s
  end.

Fixpoint run_ops (ops : list op) (s : rec) : option rec :=
  match ops with
  | [] => Some s
  | o :: r => match do_op o s with Some s' => run_ops r s' | None => None end
  end.

(** CreateTable for every shape, then nothing buffered *)
Definition rec_init (shapes : list (N * list ftag)) (batch : N) : rec :=
  mk_rec (map (fun ns => (fst ns, mk_tbl (snd ns) [] [])) shapes) [] [] [] 0 batch.

(** ** what a reader sees: location ids resolved through the location table *)
Inductive pcell := PVal (v : val) | PLoc (s : str).

Fixpoint proj (e : entry) : list pcell :=
  match e with
  | [] => []
  | (TIgnore, _) :: r => proj r
  | (TPlain, v) :: r => PVal v :: proj r
  | (TLoc, VStr s) :: r => PLoc s :: proj r
  | (TLoc, _) :: r => PLoc [] :: proj r
  end.

Fixpoint loc_lookup (id : N) (rows : list (N * str)) : str :=
  match rows with [] => [] | (k, s) :: r => if k =? id then s else loc_lookup id r end.

Definition resolve (lrows : list (N * str)) (r : row) : list pcell :=
  map (fun c => match c with CVal v => PVal v | CLoc id => PLoc (loc_lookup id lrows) end) r.

Fixpoint inserted (name : N) (ops : list op) : list entry :=
  match ops with
  | [] => []
  | OInsert n e _ :: r => if n =? name then e :: inserted name r else inserted name r
  | _ :: r => inserted name r
  end.

(** ** InsertData ∥ Flush as coded BEFORE the fix: two goroutines, each inserting
    one entry into table 0 with batchSize = 1.  The shared database connection has
    a transaction flag; BEGIN inside a transaction and COMMIT outside one fail
    (mustExecute panics). *)
Inductive ipc :=
| ILock            (* InsertData: t.mu.Lock() *)
| IAppend          (* append, entryCount++, compare with batchSize, Unlock *)
| FCheck           (* Flush: if entryCount == 0 return *)
| FBegin           (* BEGIN TRANSACTION *)
| FRange           (* range table.entries: the slice header is read once *)
| FWrite (todo : list N)  (* insertEntryForTable for each snapshot entry (lock; exec; unlock) *)
| FClear           (* table.entries = nil *)
| FCount           (* entryCount = 0 *)
| FCommit          (* COMMIT TRANSACTION *)
| IDone.

Record cst := mk_c {
  c_pcs : list ipc;          (* one per goroutine; goroutine i inserts entry i *)
  c_mu : bool;
  c_buf : list N; c_rows : list N; c_count : N;
  c_txn : bool; c_panic : bool
}.

Definition set_pc_at (i : nat) (pc : ipc) (l : list ipc) : list ipc :=
  (fix go (k : nat) (l : list ipc) := match l, k with
     | [], _ => [] | _ :: r, O => pc :: r | x :: r, S j => x :: go j r end) i l.

Definition c_step_old (i : nat) (s : cst) : option cst :=
  if c_panic s then None else
  match nth_error (c_pcs s) i with
  | Some ILock => if c_mu s then None else Some (mk_c (set_pc_at i IAppend (c_pcs s)) true (c_buf s) (c_rows s) (c_count s) (c_txn s) false)
  | Some IAppend =>
      let cnt := c_count s + 1 in
      Some (mk_c (set_pc_at i (if 1 <=? cnt then FCheck else IDone) (c_pcs s)) false (c_buf s ++ [N.of_nat i]) (c_rows s) cnt (c_txn s) false)
  | Some FCheck => Some (mk_c (set_pc_at i (if c_count s =? 0 then IDone else FBegin) (c_pcs s)) (c_mu s) (c_buf s) (c_rows s) (c_count s) (c_txn s) false)
  | Some FBegin =>
      if c_txn s then Some (mk_c (c_pcs s) (c_mu s) (c_buf s) (c_rows s) (c_count s) (c_txn s) true)
      else Some (mk_c (set_pc_at i FRange (c_pcs s)) (c_mu s) (c_buf s) (c_rows s) (c_count s) true false)
  | Some FRange => Some (mk_c (set_pc_at i (FWrite (c_buf s)) (c_pcs s)) (c_mu s) (c_buf s) (c_rows s) (c_count s) (c_txn s) false)
  | Some (FWrite []) => Some (mk_c (set_pc_at i FClear (c_pcs s)) (c_mu s) (c_buf s) (c_rows s) (c_count s) (c_txn s) false)
  | Some (FWrite (e :: r)) =>
      if c_mu s then None
      else Some (mk_c (set_pc_at i (FWrite r) (c_pcs s)) (c_mu s) (c_buf s) (c_rows s ++ [e]) (c_count s) (c_txn s) false)
  | Some FClear => Some (mk_c (set_pc_at i FCount (c_pcs s)) (c_mu s) [] (c_rows s) (c_count s) (c_txn s) false)
  | Some FCount => Some (mk_c (set_pc_at i FCommit (c_pcs s)) (c_mu s) (c_buf s) (c_rows s) 0 (c_txn s) false)
  | Some FCommit =>
      if c_txn s then Some (mk_c (set_pc_at i IDone (c_pcs s)) (c_mu s) (c_buf s) (c_rows s) (c_count s) false false)
      else Some (mk_c (c_pcs s) (c_mu s) (c_buf s) (c_rows s) (c_count s) (c_txn s) true)
  | _ => None
  end.

(** AFTER the fix: the whole of InsertData, including the flush it may trigger,
    runs under t.mu (flushLocked); Flush itself takes t.mu. *)
Inductive jpc := JLock | JBody | JDone.

Record fst_ := mk_f {
  f_pcs : list jpc; f_mu : bool; f_buf : list N; f_rows : list N; f_count : N; f_batch : N
}.

Definition set_jpc_at (i : nat) (pc : jpc) (l : list jpc) : list jpc :=
  (fix go (k : nat) (l : list jpc) := match l, k with
     | [], _ => [] | _ :: r, O => pc :: r | x :: r, S j => x :: go j r end) i l.

Definition c_step_fixed (i : nat) (s : fst_) : option fst_ :=
  match nth_error (f_pcs s) i with
  | Some JLock => if f_mu s then None else Some (mk_f (set_jpc_at i JBody (f_pcs s)) true (f_buf s) (f_rows s) (f_count s) (f_batch s))
  | Some JBody =>
      let buf := f_buf s ++ [N.of_nat i] in
      let cnt := f_count s + 1 in
      if f_batch s <=? cnt
      then Some (mk_f (set_jpc_at i JDone (f_pcs s)) false [] (f_rows s ++ buf) 0 (f_batch s))
      else Some (mk_f (set_jpc_at i JDone (f_pcs s)) false buf (f_rows s) cnt (f_batch s))
  | _ => None
  end.

(** ** The fixed recorder with ANY number of goroutines, each running any list of
    InsertData / Flush calls on the full recorder state.  Granularity: t.mu.Lock();
    BEGIN TRANSACTION (fails inside an open transaction); the buffered writes of the
    call (the sequential [do_op], invisible to others under the mutex); COMMIT
    (fails without a transaction); t.mu.Unlock().  A call that does not flush
    (counter below the batch size, or Flush with nothing buffered) takes the mutex,
    updates the buffers and releases it without touching the transaction. *)
Inductive gpc := GIdle | GLocked | GInTxn | GCommit | GUnlock.

Record gst := mk_g {
  g_ths : list (gpc * list op);    (* per goroutine: program counter, calls still to make (head = current call) *)
  g_mu : bool;                     (* t.mu *)
  g_txn : bool;                    (* the connection is inside a transaction *)
  g_panic : bool;
  g_rec : rec;                     (* the recorder *)
  g_lin : list op                  (* ghost: completed calls in the order their effects took place *)
}.

Fixpoint set_nth {A} (i : nat) (x : A) (l : list A) : list A :=
  match l, i with
  | [], _ => []
  | _ :: r, O => x :: r
  | y :: r, S j => y :: set_nth j x r
  end.

Definition will_flush (o : op) (s : rec) : bool :=
  match o with
  | OInsert _ _ _ => r_batch s <=? r_count s + 1
  | OFlush _ => negb (r_count s =? 0)
  end.

Definition g_panicked (s : gst) : gst := mk_g (g_ths s) (g_mu s) (g_txn s) true (g_rec s) (g_lin s).

Definition g_step (i : nat) (s : gst) : option gst :=
  if g_panic s then None else
  match nth_error (g_ths s) i with
  | Some (GIdle, o :: r) =>
      if g_mu s then None
      else Some (mk_g (set_nth i (GLocked, o :: r) (g_ths s)) true (g_txn s) false (g_rec s) (g_lin s))
  | Some (GLocked, o :: r) =>
      if will_flush o (g_rec s) then
        if g_txn s then Some (g_panicked s)          (* cannot start a transaction within a transaction *)
        else Some (mk_g (set_nth i (GInTxn, o :: r) (g_ths s)) (g_mu s) true false (g_rec s) (g_lin s))
      else
        match do_op o (g_rec s) with
        | Some rc => Some (mk_g (set_nth i (GUnlock, o :: r) (g_ths s)) (g_mu s) (g_txn s) false rc (g_lin s ++ [o]))
        | None => Some (g_panicked s)
        end
  | Some (GInTxn, o :: r) =>
      match do_op o (g_rec s) with
      | Some rc => Some (mk_g (set_nth i (GCommit, o :: r) (g_ths s)) (g_mu s) (g_txn s) false rc (g_lin s ++ [o]))
      | None => Some (g_panicked s)
      end
  | Some (GCommit, o :: r) =>
      if g_txn s
      then Some (mk_g (set_nth i (GUnlock, o :: r) (g_ths s)) (g_mu s) false false (g_rec s) (g_lin s))
      else Some (g_panicked s)                       (* cannot commit - no transaction is active *)
  | Some (GUnlock, o :: r) =>
      Some (mk_g (set_nth i (GIdle, r) (g_ths s)) false (g_txn s) false (g_rec s) (g_lin s))
  | _ => None
  end.

Definition g_init (shapes : list (N * list ftag)) (batch : N) (progs : list (list op)) : gst :=
  mk_g (map (fun p => (GIdle, p)) progs) false false false (rec_init shapes batch) [].

Definition g_all_done (s : gst) : Prop := Forall (fun th => th = (GIdle, [])) (g_ths s).
