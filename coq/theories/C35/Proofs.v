(** C35 — the sequential recorder: every inserted entry is in the database exactly
    once, in order, with every non-ignored field unchanged, whatever the batch size,
    the explicit flushes and the map iteration order of each flush; the location
    table is a bijection. *)
From Akita Require Import Lib.Base Lib.Lts C35.Model.
Local Open Scope N_scope.

Definition lenN {A} (l : list A) : N := N.of_nat (length l).

Lemma lenN_app {A} (a b : list A) : lenN (a ++ b) = lenN a + lenN b.
Proof. unfold lenN. rewrite app_length. lia. Qed.

Lemma lenN_cons {A} (x : A) l : lenN (x :: l) = 1 + lenN l.
Proof. unfold lenN. cbn [length]. lia. Qed.

Lemma str_eqb_eq a b : str_eqb a b = true <-> a = b.
Proof. apply listN_eqb_eq. Qed.

Fixpoint number_from (k : N) (l : list str) : list (N * str) :=
  match l with [] => [] | s :: r => (k, s) :: number_from (k + 1) r end.

Lemma number_from_app k a b : number_from k (a ++ b) = number_from k a ++ number_from (k + lenN a) b.
Proof.
  revert k. induction a as [|x r IH]; intro k; cbn [app number_from].
  - unfold lenN. cbn. rewrite N.add_0_r. reflexivity.
  - rewrite IH, lenN_cons. f_equal. f_equal. f_equal. lia.
Qed.

Lemma lookup_below id k l : id < k -> loc_lookup id (number_from k l) = [].
Proof.
  revert k. induction l as [|x r IH]; intros k H; cbn [number_from loc_lookup]; [reflexivity|].
  destruct (k =? id) eqn:E; [lia|]. apply IH. lia.
Qed.

Lemma lookup_app_l id k a rest : k <= id < k + lenN a ->
  loc_lookup id (number_from k a ++ rest) = loc_lookup id (number_from k a).
Proof.
  revert k. induction a as [|x r IH]; intros k H.
  - unfold lenN in H. cbn in H. lia.
  - cbn [number_from app loc_lookup]. destruct (k =? id) eqn:E; [reflexivity|].
    apply IH. rewrite lenN_cons in H. lia.
Qed.

Lemma lookup_in id k l : k <= id < k + lenN l -> In (loc_lookup id (number_from k l)) l.
Proof.
  revert k. induction l as [|x r IH]; intros k H.
  - unfold lenN in H. cbn in H. lia.
  - cbn [number_from loc_lookup]. destruct (k =? id) eqn:E; [left; reflexivity|].
    right. apply IH. rewrite lenN_cons in H. lia.
Qed.

Lemma index_of_some s l : forall k id, index_of s l k = Some id ->
  k <= id < k + lenN l /\ loc_lookup id (number_from k l) = s.
Proof.
  induction l as [|x r IH]; intros k id H; cbn [index_of] in H; [discriminate|].
  rewrite lenN_cons. destruct (str_eqb x s) eqn:E.
  - inversion H; subst. apply str_eqb_eq in E. subst. split; [lia|].
    cbn [number_from loc_lookup]. rewrite N.eqb_refl. reflexivity.
  - destruct (IH _ _ H) as [A B]. split; [lia|].
    cbn [number_from loc_lookup]. destruct (k =? id) eqn:E2; [lia|exact B].
Qed.

Lemma index_of_none s l : forall k, index_of s l k = None -> ~ In s l.
Proof.
  induction l as [|x r IH]; intros k H; cbn [index_of] in H; [intros []|].
  destruct (str_eqb x s) eqn:E; [discriminate|].
  intros [A|A]; [subst; rewrite (proj2 (str_eqb_eq s s) eq_refl) in E; discriminate|].
  eapply IH; eauto.
Qed.

Lemma lookup_new k a s : loc_lookup (k + lenN a) (number_from k (a ++ [s])) = s.
Proof.
  rewrite number_from_app. cbn [number_from].
  assert (H : forall k, loc_lookup (k + lenN a) (number_from k a ++ [(k + lenN a, s)]) = s).
  { clear. induction a as [|x r IH]; intro k.
    - unfold lenN. cbn. rewrite N.add_0_r, N.eqb_refl. reflexivity.
    - cbn [number_from app loc_lookup]. rewrite lenN_cons.
      destruct (k =? k + (1 + lenN r)) eqn:E; [lia|].
      replace (k + (1 + lenN r)) with (k + 1 + lenN r) by lia. apply IH. }
  apply H.
Qed.

(** rows only mention ids of the current dictionary *)
Definition cell_ok (n : N) (c : cell) : Prop := match c with CLoc id => 1 <= id <= n | CVal _ => True end.
Definition in_range (n : N) (r : row) : Prop := Forall (cell_ok n) r.

Lemma in_range_mono n m r : n <= m -> in_range n r -> in_range m r.
Proof.
  intros H. apply Forall_impl. intros [v|id]; cbn; auto. lia.
Qed.

Lemma resolve_ext locs ext r : in_range (lenN locs) r ->
  resolve (number_from 1 (locs ++ ext)) r = resolve (number_from 1 locs) r.
Proof.
  intro H. unfold resolve. apply map_ext_in. intros c Hc.
  destruct c as [v|id]; [reflexivity|].
  unfold in_range in H. rewrite Forall_forall in H. specialize (H _ Hc). cbn in H.
  rewrite number_from_app, lookup_app_l by lia. reflexivity.
Qed.

Lemma NoDup_snoc {A} (l : list A) x : NoDup l -> ~ In x l -> NoDup (l ++ [x]).
Proof.
  intros H Hn. induction H as [|y r Hy Hr IH]; cbn.
  - constructor; [intros []|constructor].
  - constructor.
    + intro Hin. apply in_app_or in Hin. destruct Hin as [Hin|[Hin|[]]]; [auto|]. subst. apply Hn. left. reflexivity.
    + apply IH. intro Hin. apply Hn. right. exact Hin.
Qed.

Lemma intern_spec s locs lb cnt id locs' lb' cnt' :
  intern s locs lb cnt = (id, locs', lb', cnt') -> NoDup locs ->
  exists ext, locs' = locs ++ ext /\ lb' = lb ++ number_from (1 + lenN locs) ext /\ NoDup locs' /\
              1 <= id <= lenN locs' /\ loc_lookup id (number_from 1 locs') = s /\ cnt' = cnt + lenN ext.
Proof.
  unfold intern. intros H Hnd. destruct (index_of s locs 1) as [i|] eqn:E.
  - inversion H; subst. exists []. rewrite !app_nil_r. destruct (index_of_some _ _ _ _ E) as [A B].
    repeat split; auto; try lia. unfold lenN. cbn. lia.
  - inversion H; subst. exists [s]. fold (lenN locs). repeat split; auto.
    + cbn [number_from]. f_equal. f_equal. f_equal. lia.
    + apply NoDup_snoc; [exact Hnd|]. eapply index_of_none; eauto.
    + lia.
    + rewrite lenN_app. change (lenN [s]) with 1. lia.
    + replace (lenN locs + 1) with (1 + lenN locs) by lia. apply lookup_new.
Qed.

Definition ext_spec (locs : list str) (lb : list (N * str)) (cnt : N) (locs' : list str) (lb' : list (N * str)) (cnt' : N) : Prop :=
  exists ext, locs' = locs ++ ext /\ lb' = lb ++ number_from (1 + lenN locs) ext /\ cnt' = cnt + lenN ext.

Lemma ext_refl locs lb cnt : ext_spec locs lb cnt locs lb cnt.
Proof. exists []. rewrite !app_nil_r. repeat split. unfold lenN. cbn. lia. Qed.

Lemma ext_trans l0 b0 c0 l1 b1 c1 l2 b2 c2 :
  ext_spec l0 b0 c0 l1 b1 c1 -> ext_spec l1 b1 c1 l2 b2 c2 -> ext_spec l0 b0 c0 l2 b2 c2.
Proof.
  intros [e1 [A1 [B1 C1]]] [e2 [A2 [B2 C2]]]. exists (e1 ++ e2). subst.
  rewrite <- !app_assoc. repeat split.
  - rewrite number_from_app. f_equal. f_equal. f_equal. rewrite lenN_app. lia.
  - rewrite lenN_app. lia.
Qed.

Lemma ext_len l0 b0 c0 l1 b1 c1 : ext_spec l0 b0 c0 l1 b1 c1 -> lenN l0 <= lenN l1.
Proof. intros [e [A _]]. subst. rewrite lenN_app. lia. Qed.

Lemma ext_resolve l0 b0 c0 l1 b1 c1 r : ext_spec l0 b0 c0 l1 b1 c1 -> in_range (lenN l0) r ->
  resolve (number_from 1 l1) r = resolve (number_from 1 l0) r.
Proof. intros [e [A _]] H. subst. apply resolve_ext. exact H. Qed.

Lemma to_row_spec e : forall locs lb cnt row locs' lb' cnt',
  to_row e locs lb cnt = Some (row, locs', lb', cnt') -> NoDup locs ->
  ext_spec locs lb cnt locs' lb' cnt' /\ NoDup locs' /\ in_range (lenN locs') row /\
  resolve (number_from 1 locs') row = proj e.
Proof.
  induction e as [|[tag v] r IH]; intros locs lb cnt row locs' lb' cnt' H Hnd; cbn [to_row] in H.
  - inversion H; subst. repeat split; auto. apply ext_refl. constructor.
  - destruct tag.
    + destruct (storable v); [|discriminate].
      destruct (to_row r locs lb cnt) as [[[[row0 l0] b0] c0]|] eqn:E; [|discriminate]. inversion H; subst.
      destruct (IH _ _ _ _ _ _ _ E Hnd) as [A [B [C D]]]. repeat split; auto.
      * constructor; [exact I|exact C].
      * cbn [resolve map proj]. f_equal. exact D.
    + destruct (IH _ _ _ _ _ _ _ H Hnd) as [A [B [C D]]]. repeat split; auto.
    + destruct v; try discriminate.
      destruct (intern s locs lb cnt) as [[[id l1] b1] c1] eqn:Ei.
      destruct (to_row r l1 b1 c1) as [[[[row0 l0] b0] c0]|] eqn:E; [|discriminate]. inversion H; subst.
      destruct (intern_spec _ _ _ _ _ _ _ _ Ei Hnd) as [ext [A1 [A2 [A3 [A4 [A5 A6]]]]]].
      assert (X1 : ext_spec locs lb cnt l1 b1 c1) by (exists ext; auto).
      destruct (IH _ _ _ _ _ _ _ E A3) as [X2 [B [C D]]].
      repeat split; auto.
      * eapply ext_trans; eauto.
      * constructor; [|exact C]. cbn. pose proof (ext_len _ _ _ _ _ _ X2). lia.
      * cbn [resolve map proj]. f_equal; [|exact D]. f_equal.
        destruct X2 as [e2 [Y _]]. subst locs'. rewrite number_from_app, lookup_app_l by lia. exact A5.
Qed.

Lemma flush_entries_spec shape es : forall rows locs lb cnt rows' locs' lb' cnt',
  flush_entries shape es rows locs lb cnt = Some (rows', locs', lb', cnt') -> NoDup locs ->
  Forall (in_range (lenN locs)) rows ->
  ext_spec locs lb cnt locs' lb' cnt' /\ NoDup locs' /\ Forall (in_range (lenN locs')) rows' /\
  map (resolve (number_from 1 locs')) rows' = map (resolve (number_from 1 locs)) rows ++ map proj es.
Proof.
  induction es as [|e r IH]; intros rows locs lb cnt rows' locs' lb' cnt' H Hnd Hr; cbn [flush_entries] in H.
  - inversion H; subst. rewrite app_nil_r. repeat split; auto. apply ext_refl.
  - destruct (shape_eqb (map fst e) shape); [|discriminate].
    destruct (to_row e locs lb cnt) as [[[[row l1] b1] c1]|] eqn:E; [|discriminate].
    destruct (to_row_spec _ _ _ _ _ _ _ _ E Hnd) as [X1 [A [B C]]].
    assert (Hr1 : Forall (in_range (lenN l1)) (rows ++ [row])).
    { apply Forall_app. split; [|constructor; [exact B|constructor]].
      eapply Forall_impl; [|exact Hr]. intros x Hx. eapply in_range_mono; [|exact Hx]. eapply ext_len; eauto. }
    destruct (IH _ _ _ _ _ _ _ _ H A Hr1) as [X2 [A' [B' C']]].
    repeat split; auto.
    + eapply ext_trans; eauto.
    + rewrite C', map_app. cbn [map]. rewrite <- app_assoc. cbn [app]. f_equal; [|f_equal; exact C].
      apply map_ext_in. intros x Hx. rewrite Forall_forall in Hr. eapply ext_resolve; eauto.
Qed.

(** tables *)
Definition tview (lrows : list (N * str)) (t : tbl) : list (list pcell) :=
  map (resolve lrows) (t_rows t) ++ map proj (t_buf t).

Definition TInv (locs : list str) (t : tbl) : Prop := Forall (in_range (lenN locs)) (t_rows t).

Lemma tab_get_set n m t ts :
  tab_get n (tab_set m t ts) = if n =? m then (match tab_get m ts with Some _ => Some t | None => None end) else tab_get n ts.
Proof.
  induction ts as [|[k x] r IH]; cbn [tab_set tab_get].
  - destruct (n =? m); reflexivity.
  - destruct (k =? m) eqn:Ekm; cbn [tab_get]; rewrite ?Ekm.
    + apply N.eqb_eq in Ekm. subst k. destruct (n =? m) eqn:Enm.
      * apply N.eqb_eq in Enm. subst. rewrite N.eqb_refl. reflexivity.
      * rewrite (N.eqb_sym m n), Enm. reflexivity.
    + destruct (k =? n) eqn:Ekn.
      * apply N.eqb_eq in Ekn. subst k. rewrite Ekm. reflexivity.
      * rewrite IH. reflexivity.
Qed.

Lemma tab_set_names m t ts : map fst (tab_set m t ts) = map fst ts.
Proof.
  induction ts as [|[k x] r IH]; cbn [tab_set map]; [reflexivity|].
  destruct (k =? m); cbn [map fst]; [reflexivity|]. rewrite IH. reflexivity.
Qed.

Lemma tab_get_in n ts t : tab_get n ts = Some t -> In n (map fst ts).
Proof.
  induction ts as [|[k x] r IH]; cbn [tab_get map fst]; [discriminate|].
  destruct (k =? n) eqn:E; [apply N.eqb_eq in E; subst; left; reflexivity|]. intro H. right. apply IH, H.
Qed.

(** the relation between the tables before and after the loop of one flush *)
Definition tabs_rel (order : list N) (locs locs' : list str) (ts ts' : list (N * tbl)) : Prop :=
  map fst ts' = map fst ts /\
  forall n t', tab_get n ts' = Some t' ->
    exists t, tab_get n ts = Some t /\ t_shape t' = t_shape t /\ TInv locs' t' /\
              tview (number_from 1 locs') t' = tview (number_from 1 locs) t /\
              (In n order -> t_buf t' = []) /\ (t_buf t' = [] \/ t_buf t' = t_buf t).

Lemma flush_tables_spec order : forall ts locs lb cnt ts' locs' lb' cnt',
  flush_tables order ts locs lb cnt = Some (ts', locs', lb', cnt') -> NoDup locs ->
  (forall n t, tab_get n ts = Some t -> TInv locs t) ->
  ext_spec locs lb cnt locs' lb' cnt' /\ NoDup locs' /\ tabs_rel order locs locs' ts ts'.
Proof.
  induction order as [|name rest IH]; intros ts locs lb cnt ts' locs' lb' cnt' H Hnd Hti; cbn [flush_tables] in H.
  - inversion H; subst. split; [apply ext_refl|]. split; [exact Hnd|]. split; [reflexivity|].
    intros n t' Hg. exists t'. repeat split; auto; try (intros []); try (eapply Hti; eauto).
  - destruct (tab_get name ts) as [t|] eqn:Eg.
    + destruct (flush_entries (t_shape t) (t_buf t) (t_rows t) locs lb cnt) as [[[[rows l1] b1] c1]|] eqn:Ef; [|discriminate].
      destruct (flush_entries_spec _ _ _ _ _ _ _ _ _ _ Ef Hnd (Hti _ _ Eg)) as [X1 [A [B C]]].
      set (ts1 := tab_set name (mk_tbl (t_shape t) [] rows) ts) in *.
      assert (Hti1 : forall n x, tab_get n ts1 = Some x -> TInv l1 x).
      { intros n x Hx. unfold ts1 in Hx. rewrite tab_get_set in Hx. destruct (n =? name) eqn:En.
        - rewrite Eg in Hx. inversion Hx; subst. exact B.
        - unfold TInv. eapply Forall_impl; [|apply (Hti _ _ Hx)]. intros r Hr.
          eapply in_range_mono; [|exact Hr]. eapply ext_len; eauto. }
      destruct (IH _ _ _ _ _ _ _ _ H A Hti1) as [X2 [A' [Hn Hrel]]].
      split; [eapply ext_trans; eauto|]. split; [exact A'|]. split.
      * rewrite Hn. unfold ts1. apply tab_set_names.
      * intros n t' Hg'. destruct (Hrel _ _ Hg') as [t1 [G1 [G2 [G3 [G4 [G5 G6]]]]]].
        unfold ts1 in G1. rewrite tab_get_set in G1. destruct (n =? name) eqn:En.
        -- apply N.eqb_eq in En. subst n. rewrite Eg in G1. inversion G1; subst t1. cbn [t_shape t_buf] in *.
           exists t. repeat split; auto.
           ++ rewrite G4. unfold tview. cbn [t_rows t_buf map]. rewrite app_nil_r. exact C.
           ++ intros _. destruct G6 as [G6|G6]; exact G6.
           ++ left. destruct G6 as [G6|G6]; exact G6.
        -- exists t1. repeat split; auto.
           ++ rewrite G4. unfold tview. f_equal. apply map_ext_in. intros r Hr.
              eapply ext_resolve; eauto. pose proof (Hti _ _ G1) as Ht. unfold TInv in Ht. rewrite Forall_forall in Ht. auto.
           ++ intros [Hin|Hin]; [subst; rewrite N.eqb_refl in En; discriminate|auto].
    + destruct (IH _ _ _ _ _ _ _ _ H Hnd Hti) as [X2 [A' [Hn Hrel]]].
      split; [exact X2|]. split; [exact A'|]. split; [exact Hn|].
      intros n t' Hg'. destruct (Hrel _ _ Hg') as [t1 [G1 [G2 [G3 [G4 [G5 G6]]]]]].
      exists t1. repeat split; auto.
      intros [Hin|Hin]; [subst; congruence|auto].
Qed.

(** ** the invariant over operation histories *)
Definition covers (names : list N) (o : op) : Prop :=
  match o with
  | OInsert _ _ ord => forall n, In n names -> In n ord
  | OFlush ord => forall n, In n names -> In n ord
  end.

Lemma inserted_app n a b : inserted n (a ++ b) = inserted n a ++ inserted n b.
Proof.
  induction a as [|o r IH]; cbn [app inserted]; [reflexivity|].
  destruct o as [m e ord|ord]; [destruct (m =? n)|]; cbn [app]; rewrite IH; reflexivity.
Qed.

Record RInv (names : list N) (done : list op) (s : rec) : Prop := {
  ri_names : map fst (r_tabs s) = names;
  ri_nodup : NoDup (r_locs s);
  ri_locs : r_locrows s ++ r_locbuf s = number_from 1 (r_locs s);
  ri_tabs : forall n t, tab_get n (r_tabs s) = Some t ->
            TInv (r_locs s) t /\ tview (number_from 1 (r_locs s)) t = map proj (inserted n done);
  ri_zero : r_count s = 0 -> (forall n t, tab_get n (r_tabs s) = Some t -> t_buf t = []) /\ r_locbuf s = []
}.

Lemma RInv_init shapes batch : RInv (map fst shapes) [] (rec_init shapes batch).
Proof.
  constructor; cbn [rec_init r_tabs r_locs r_locrows r_locbuf r_count].
  - rewrite map_map. reflexivity.
  - constructor.
  - reflexivity.
  - intros n t H. induction shapes as [|[k sh] r IH]; cbn in H; [discriminate|].
    destruct (k =? n); [inversion H; subst; split; [constructor|reflexivity]|auto].
  - intros _. split; [|reflexivity]. intros n t H.
    induction shapes as [|[k sh] r IH]; cbn in H; [discriminate|].
    destruct (k =? n); [inversion H; subst; reflexivity|auto].
Qed.

Lemma RInv_flush names done ord s s' :
  RInv names done s -> (forall n, In n names -> In n ord) -> flush ord s = Some s' ->
  RInv names (done ++ [OFlush ord]) s' /\ r_count s' = 0.
Proof.
  intros [Hn Hnd Hl Ht Hz] Hcov H. unfold flush in H.
  assert (Hins : forall n, inserted n (done ++ [OFlush ord]) = inserted n done).
  { intro n. rewrite inserted_app. cbn. apply app_nil_r. }
  destruct (r_count s =? 0) eqn:Ec.
  - inversion H; subst s'. apply N.eqb_eq in Ec. split; [|exact Ec].
    constructor; auto. intros n t Hg. rewrite Hins. auto.
  - destruct (flush_tables ord (r_tabs s) (r_locs s) (r_locbuf s) (r_count s)) as [[[[ts l1] b1] c1]|] eqn:Ef; [|discriminate].
    inversion H; subst s'. clear H.
    destruct (flush_tables_spec _ _ _ _ _ _ _ _ _ Ef Hnd (fun n t Hg => proj1 (Ht n t Hg))) as [[ext [E1 [E2 E3]]] [A [Hnm Hrel]]].
    split; [|reflexivity].
    constructor; cbn [r_tabs r_locs r_locrows r_locbuf r_count].
    + rewrite Hnm. exact Hn.
    + exact A.
    + rewrite app_nil_r. subst l1 b1. rewrite app_assoc, Hl, number_from_app. reflexivity.
    + intros n t' Hg. destruct (Hrel _ _ Hg) as [t [G1 [G2 [G3 [G4 [G5 G6]]]]]].
      split; [exact G3|]. rewrite Hins, G4. apply (Ht _ _ G1).
    + intros _. split; [|reflexivity]. intros n t' Hg. destruct (Hrel _ _ Hg) as [t [G1 [G2 [G3 [G4 [G5 G6]]]]]].
      apply G5. apply Hcov. rewrite <- Hn, <- Hnm. eapply tab_get_in; eauto.
Qed.

Lemma RInv_step names done o s s' :
  RInv names done s -> covers names o -> do_op o s = Some s' -> RInv names (done ++ [o]) s'.
Proof.
  intros HI Hcov H. destruct o as [name e ord|ord]; cbn [do_op covers] in *.
  - unfold insert in H. destruct (tab_get name (r_tabs s)) as [t|] eqn:Eg; [|discriminate].
    set (s1 := mk_rec (tab_set name (mk_tbl (t_shape t) (t_buf t ++ [e]) (t_rows t)) (r_tabs s))
                      (r_locs s) (r_locbuf s) (r_locrows s) (r_count s + 1) (r_batch s)) in *.
    assert (H1 : RInv names (done ++ [OInsert name e ord]) s1).
    { destruct HI as [Hn Hnd Hl Ht Hz]. constructor; cbn [s1 r_tabs r_locs r_locrows r_locbuf r_count].
      - rewrite tab_set_names. exact Hn.
      - exact Hnd.
      - exact Hl.
      - intros n x Hx. rewrite tab_get_set in Hx. rewrite inserted_app. cbn [inserted].
        destruct (n =? name) eqn:En.
        + apply N.eqb_eq in En. subst n. rewrite Eg in Hx. inversion Hx; subst x. rewrite N.eqb_refl.
          destruct (Ht _ _ Eg) as [A B]. split; [exact A|].
          unfold tview in *. cbn [t_rows t_buf]. rewrite map_app, app_assoc, B, map_app. reflexivity.
        + rewrite (N.eqb_sym name n), En. rewrite app_nil_r. apply Ht. exact Hx.
      - intro Hc. lia. }
    destruct (r_batch s <=? r_count s + 1).
    + (* the insert triggers a flush *)
      destruct (RInv_flush names _ ord s1 s' H1 Hcov H) as [[Hn Hnd Hl Ht Hz] _].
      constructor; auto. intros n x Hx. destruct (Ht _ _ Hx) as [A B]. split; [exact A|].
      rewrite B, inserted_app. cbn. rewrite app_nil_r. reflexivity.
    + inversion H; subst s'. exact H1.
  - apply (RInv_flush names done ord s s' HI Hcov H).
Qed.

Lemma RInv_run names ops : forall done s s',
  RInv names done s -> Forall (covers names) ops -> run_ops ops s = Some s' -> RInv names (done ++ ops) s'.
Proof.
  induction ops as [|o r IH]; intros done s s' HI Hc H; cbn [run_ops] in H.
  - inversion H; subst. rewrite app_nil_r. exact HI.
  - destruct (do_op o s) as [s1|] eqn:E; [|discriminate]. inversion Hc; subst.
    replace (done ++ o :: r) with ((done ++ [o]) ++ r) by (rewrite <- app_assoc; reflexivity).
    eapply IH; eauto. eapply RInv_step; eauto.
Qed.

(** the session: CreateTable for every shape, any operations, Close (= a final flush) *)
Theorem seq_exactly_once shapes batch ops ord s :
  Forall (covers (map fst shapes)) ops -> (forall n, In n (map fst shapes) -> In n ord) ->
  run_ops (ops ++ [OFlush ord]) (rec_init shapes batch) = Some s ->
  (forall n t, tab_get n (r_tabs s) = Some t ->
     t_buf t = [] /\ map (resolve (r_locrows s)) (t_rows t) = map proj (inserted n ops)) /\
  map fst (r_tabs s) = map fst shapes /\
  r_locbuf s = [] /\ r_locrows s = number_from 1 (r_locs s) /\ NoDup (r_locs s).
Proof.
  intros Hc Hord H.
  assert (Hc' : Forall (covers (map fst shapes)) (ops ++ [OFlush ord])).
  { apply Forall_app. split; [exact Hc|]. constructor; [exact Hord|constructor]. }
  pose proof (RInv_run _ _ [] _ _ (RInv_init shapes batch) Hc' H) as HI. cbn [app] in HI.
  (* the last operation was a flush, so the counter is zero *)
  assert (Hz : r_count s = 0).
  { clear HI Hc' Hc. revert H. generalize (rec_init shapes batch). induction ops as [|o r IH]; intros s0 H; cbn [app run_ops] in H.
    - destruct (do_op (OFlush ord) s0) as [s1|] eqn:E; [|discriminate]. inversion H; subst s1.
      cbn [do_op] in E. unfold flush in E. destruct (r_count s0 =? 0) eqn:Ec.
      + inversion E; subst. apply N.eqb_eq. exact Ec.
      + destruct (flush_tables ord (r_tabs s0) (r_locs s0) (r_locbuf s0) (r_count s0)) as [[[[? ?] ?] ?]|]; [|discriminate].
        inversion E; subst. reflexivity.
    - destruct (do_op o s0) as [s1|]; [|discriminate]. eapply IH; eauto. }
  destruct HI as [Hn Hnd Hl Ht Hzero]. destruct (Hzero Hz) as [Hb Hlb].
  rewrite Hlb, app_nil_r in Hl.
  split; [|repeat split; auto].
  intros n t Hg. split; [eapply Hb; eauto|].
  destruct (Ht _ _ Hg) as [_ B]. unfold tview in B. rewrite (Hb _ _ Hg) in B. cbn in B. rewrite app_nil_r in B.
  rewrite Hl, B, inserted_app. cbn. rewrite app_nil_r. reflexivity.
Qed.

(** the location table is a bijection between 1..n and n distinct strings *)
Lemma number_from_fst k l : map fst (number_from k l) = map (fun i => k + N.of_nat i) (seq 0 (length l)).
Proof.
  revert k. induction l as [|x r IH]; intro k; cbn [number_from map length seq]; [reflexivity|].
  rewrite IH. f_equal; [cbn; lia|]. rewrite <- seq_shift, map_map. apply map_ext. intro i.
  rewrite Nat2N.inj_succ. lia.
Qed.

Lemma number_from_snd k l : map snd (number_from k l) = l.
Proof. revert k. induction l as [|x r IH]; intro k; cbn; [reflexivity|]. rewrite IH. reflexivity. Qed.

Lemma number_from_length k l : length (number_from k l) = length l.
Proof. revert k. induction l as [|x r IH]; intro k; cbn; auto. Qed.

Lemma lookup_in_pairs id l : forall k, k <= id < k + lenN l ->
  In (id, loc_lookup id (number_from k l)) (number_from k l).
Proof.
  induction l as [|x r IH]; intros k A.
  - unfold lenN in A. cbn in A. lia.
  - cbn [number_from loc_lookup]. destruct (k =? id) eqn:E.
    + apply N.eqb_eq in E. subst. left. reflexivity.
    + right. apply IH. rewrite lenN_cons in A. lia.
Qed.

Theorem location_bijection shapes batch ops ord s :
  Forall (covers (map fst shapes)) ops -> (forall n, In n (map fst shapes) -> In n ord) ->
  run_ops (ops ++ [OFlush ord]) (rec_init shapes batch) = Some s ->
  map fst (r_locrows s) = map (fun i => 1 + N.of_nat i) (seq 0 (length (r_locrows s))) /\
  NoDup (map snd (r_locrows s)) /\
  (forall n t r id, tab_get n (r_tabs s) = Some t -> In r (t_rows t) -> In (CLoc id) r ->
     In (id, loc_lookup id (r_locrows s)) (r_locrows s)).
Proof.
  intros Hc Hord H. destruct (seq_exactly_once _ _ _ _ _ Hc Hord H) as [_ [_ [_ [Hl Hnd]]]].
  assert (Hc' : Forall (covers (map fst shapes)) (ops ++ [OFlush ord])).
  { apply Forall_app. split; [exact Hc|]. constructor; [exact Hord|constructor]. }
  pose proof (RInv_run _ _ [] _ _ (RInv_init shapes batch) Hc' H) as HI.
  rewrite Hl. split; [|split].
  - rewrite number_from_fst, number_from_length. reflexivity.
  - rewrite number_from_snd. exact Hnd.
  - intros n t r id Hg Hr Hid. destruct (ri_tabs _ _ _ HI _ _ Hg) as [A _].
    unfold TInv in A. rewrite Forall_forall in A. specialize (A _ Hr). unfold in_range in A.
    rewrite Forall_forall in A. specialize (A _ Hid). cbn in A.
    apply lookup_in_pairs. lia.
Qed.
