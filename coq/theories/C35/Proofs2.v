(** C35 — no call panics on well-formed sessions: entries of the table's shape whose
    plain fields are storable and whose location fields are strings. *)
From Akita Require Import Lib.Base Lib.Lts C35.Model C35.Proofs.
Local Open Scope N_scope.

Definition fld_ok (f : ftag * val) : bool :=
  match f with
  | (TPlain, v) => storable v
  | (TIgnore, _) => true
  | (TLoc, VStr _) => true
  | (TLoc, _) => false
  end.

Definition entry_ok (shape : list ftag) (e : entry) : bool :=
  shape_eqb (map fst e) shape && forallb fld_ok e.

Lemma to_row_total e : forall locs lb cnt, forallb fld_ok e = true -> to_row e locs lb cnt <> None.
Proof.
  induction e as [|[tag v] r IH]; intros locs lb cnt H; cbn [to_row]; [discriminate|].
  cbn [forallb] in H. apply andb_true_iff in H. destruct H as [H1 H2].
  destruct tag; cbn [fld_ok] in H1.
  - rewrite H1. specialize (IH locs lb cnt H2). destruct (to_row r locs lb cnt) as [[[[? ?] ?] ?]|]; [discriminate|congruence].
  - apply IH, H2.
  - destruct v; try discriminate.
    destruct (intern s locs lb cnt) as [[[id l1] b1] c1].
    specialize (IH l1 b1 c1 H2). destruct (to_row r l1 b1 c1) as [[[[? ?] ?] ?]|]; [discriminate|congruence].
Qed.

Lemma flush_entries_total shape es : forall rows locs lb cnt,
  forallb (entry_ok shape) es = true -> flush_entries shape es rows locs lb cnt <> None.
Proof.
  induction es as [|e r IH]; intros rows locs lb cnt H; cbn [flush_entries]; [discriminate|].
  cbn [forallb] in H. apply andb_true_iff in H. destruct H as [H1 H2].
  unfold entry_ok in H1. apply andb_true_iff in H1. destruct H1 as [Hs Hf]. rewrite Hs.
  pose proof (to_row_total e locs lb cnt Hf) as Ht.
  destruct (to_row e locs lb cnt) as [[[[row l1] b1] c1]|]; [|congruence]. apply IH, H2.
Qed.

Definition tbl_ok (t : tbl) : bool := forallb (entry_ok (t_shape t)) (t_buf t).
Definition tabs_ok (ts : list (N * tbl)) : Prop := forall n t, tab_get n ts = Some t -> tbl_ok t = true.

Lemma flush_tables_total order : forall ts locs lb cnt,
  tabs_ok ts -> exists ts' l' b' c', flush_tables order ts locs lb cnt = Some (ts', l', b', c') /\ tabs_ok ts' /\
    (forall n t', tab_get n ts' = Some t' -> exists t, tab_get n ts = Some t /\ t_shape t' = t_shape t).
Proof.
  induction order as [|name rest IH]; intros ts locs lb cnt Hok; cbn [flush_tables].
  - exists ts, locs, lb, cnt. repeat split; auto. intros n t' H. exists t'. auto.
  - destruct (tab_get name ts) as [t|] eqn:Eg; [|apply IH, Hok].
    pose proof (flush_entries_total (t_shape t) (t_buf t) (t_rows t) locs lb cnt (Hok _ _ Eg)) as Hf.
    destruct (flush_entries (t_shape t) (t_buf t) (t_rows t) locs lb cnt) as [[[[rows l1] b1] c1]|]; [|congruence].
    set (ts1 := tab_set name (mk_tbl (t_shape t) [] rows) ts).
    assert (Hok1 : tabs_ok ts1).
    { intros n x Hx. unfold ts1 in Hx. rewrite tab_get_set in Hx. destruct (n =? name).
      - rewrite Eg in Hx. inversion Hx; subst. reflexivity.
      - apply (Hok _ _ Hx). }
    destruct (IH ts1 l1 b1 c1 Hok1) as [ts' [l' [b' [c' [E [Hok' Hsh]]]]]].
    exists ts', l', b', c'. repeat split; auto.
    intros n t' Hg. destruct (Hsh _ _ Hg) as [t1 [G1 G2]].
    unfold ts1 in G1. rewrite tab_get_set in G1. destruct (n =? name) eqn:En.
    + apply N.eqb_eq in En. subst n. rewrite Eg in G1. inversion G1; subst t1. exists t. auto.
    + exists t1. auto.
Qed.

(** shapes of the tables never change; buffered entries are well-formed *)
Definition SInv (shapes : list (N * list ftag)) (s : rec) : Prop :=
  tabs_ok (r_tabs s) /\
  (forall n t, tab_get n (r_tabs s) = Some t -> exists sh, In (n, sh) shapes /\ t_shape t = sh) /\
  (forall n sh, In (n, sh) shapes -> exists t, tab_get n (r_tabs s) = Some t).

Definition op_ok (shapes : list (N * list ftag)) (o : op) : Prop :=
  match o with
  | OInsert n e _ => exists sh, In (n, sh) shapes /\ entry_ok sh e = true /\
                               (forall sh', In (n, sh') shapes -> sh' = sh)
  | OFlush _ => True
  end.

Lemma flush_total shapes ord s : SInv shapes s -> exists s', flush ord s = Some s' /\ SInv shapes s'.
Proof.
  intros [Hok [Hsh Hex]]. unfold flush. destruct (r_count s =? 0); [exists s; repeat split; auto|].
  destruct (flush_tables_total ord (r_tabs s) (r_locs s) (r_locbuf s) (r_count s) Hok) as [ts' [l' [b' [c' [E [Hok' Hs']]]]]].
  rewrite E. eexists. split; [reflexivity|]. repeat split; cbn [r_tabs]; auto.
  - intros n t' Hg. destruct (Hs' _ _ Hg) as [t [G1 G2]]. destruct (Hsh _ _ G1) as [sh [A B]]. exists sh. split; congruence.
  - intros n sh Hin. destruct (Hex _ _ Hin) as [t Hg].
    (* names are preserved by the loop *)
    assert (Hnames : forall order ts locs lb cnt ts2 l2 b2 c2, flush_tables order ts locs lb cnt = Some (ts2, l2, b2, c2) ->
                     forall n, (exists t, tab_get n ts = Some t) -> exists t2, tab_get n ts2 = Some t2).
    { clear. induction order as [|name rest IH]; intros ts locs lb cnt ts2 l2 b2 c2 H n [t Ht]; cbn [flush_tables] in H.
      - inversion H; subst. eauto.
      - destruct (tab_get name ts) as [tn|] eqn:Eg; [|eapply IH; eauto].
        destruct (flush_entries (t_shape tn) (t_buf tn) (t_rows tn) locs lb cnt) as [[[[rows l1] b1] c1]|]; [|discriminate].
        eapply IH; [exact H|]. rewrite tab_get_set. destruct (n =? name) eqn:En; [rewrite Eg; eauto|eauto]. }
    eapply Hnames; eauto.
Qed.

Lemma shape_eqb_refl a : shape_eqb a a = true.
Proof. unfold shape_eqb. induction a as [|x r IH]; cbn; [reflexivity|]. rewrite IH. destruct x; reflexivity. Qed.

Lemma op_total shapes o s : SInv shapes s -> op_ok shapes o -> exists s', do_op o s = Some s' /\ SInv shapes s'.
Proof.
  intros HI Ho. destruct o as [n e ord|ord]; cbn [do_op op_ok] in *; [|apply flush_total, HI].
  destruct Ho as [sh [Hin [He Huniq]]]. destruct HI as [Hok [Hsh Hex]].
  destruct (Hex _ _ Hin) as [t Hg]. unfold insert. rewrite Hg.
  set (s1 := mk_rec (tab_set n (mk_tbl (t_shape t) (t_buf t ++ [e]) (t_rows t)) (r_tabs s))
                    (r_locs s) (r_locbuf s) (r_locrows s) (r_count s + 1) (r_batch s)).
  assert (H1 : SInv shapes s1).
  { repeat split; cbn [s1 r_tabs].
    - intros m x Hx. rewrite tab_get_set in Hx. destruct (m =? n) eqn:Em.
      + rewrite Hg in Hx. inversion Hx; subst x. unfold tbl_ok. cbn [t_shape t_buf]. rewrite forallb_app.
        pose proof (Hok _ _ Hg) as Ht0. unfold tbl_ok in Ht0. rewrite Ht0. cbn [forallb andb]. destruct (Hsh _ _ Hg) as [sh' [A B]]. rewrite B, (Huniq _ A), He. reflexivity.
      + apply (Hok _ _ Hx).
    - intros m x Hx. rewrite tab_get_set in Hx. destruct (m =? n) eqn:Em.
      + apply N.eqb_eq in Em. subst m. rewrite Hg in Hx. inversion Hx; subst x. cbn [t_shape]. apply (Hsh _ _ Hg).
      + apply (Hsh _ _ Hx).
    - intros m sh' Hin'. rewrite tab_get_set. destruct (m =? n) eqn:Em.
      + rewrite Hg. eauto.
      + apply (Hex _ _ Hin'). }
  destruct (r_batch s <=? r_count s + 1); [apply flush_total, H1|exists s1; auto].
Qed.

Lemma SInv_init shapes batch : NoDup (map fst shapes) -> SInv shapes (rec_init shapes batch).
Proof.
  intro Hnd. unfold rec_init. repeat split; cbn [r_tabs].
  - intros n t H. induction shapes as [|[k sh] r IH]; cbn in H; [discriminate|].
    destruct (k =? n); [inversion H; subst; reflexivity|]. inversion Hnd; subst. auto.
  - intros n t H. induction shapes as [|[k sh] r IH]; cbn in H; [discriminate|].
    destruct (k =? n) eqn:E.
    + inversion H; subst. apply N.eqb_eq in E. subst. exists sh. split; [left; reflexivity|reflexivity].
    + inversion Hnd; subst. destruct (IH H3 H) as [sh' [A B]]. exists sh'. split; [right; exact A|exact B].
  - intros n sh Hin. induction shapes as [|[k sh0] r IH]; [destruct Hin|]. cbn.
    destruct (k =? n) eqn:E; [eauto|]. destruct Hin as [Hin|Hin]; [inversion Hin; subst; rewrite N.eqb_refl in E; discriminate|].
    inversion Hnd; subst. auto.
Qed.

Theorem no_panic shapes batch ops :
  NoDup (map fst shapes) -> Forall (op_ok shapes) ops ->
  exists s, run_ops ops (rec_init shapes batch) = Some s.
Proof.
  intros Hnd Hops. pose proof (SInv_init shapes batch Hnd) as HI. revert HI. generalize (rec_init shapes batch).
  induction Hops as [|o r Ho Hr IH]; intros s0 HI; cbn [run_ops]; [eauto|].
  destruct (op_total shapes o s0 HI Ho) as [s1 [E HI1]]. rewrite E. apply IH, HI1.
Qed.
