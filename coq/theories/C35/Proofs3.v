(** C35 — the fixed recorder under ANY number of goroutines and EVERY schedule:
    mutual exclusion of the transaction, no panic, and linearizability to the
    sequential recorder (hence exactly-once after Close). *)
From Coq Require Import Permutation.
From Akita Require Import Lib.Base Lib.Lts C35.Model C35.Proofs C35.Proofs2.
Local Open Scope N_scope.

Definition applied (pc : gpc) : bool := match pc with GCommit | GUnlock => true | _ => false end.
Definition pend (th : gpc * list op) : list op := if applied (fst th) then tl (snd th) else snd th.
Definition in_txn (pc : gpc) : bool := match pc with GInTxn | GCommit => true | _ => false end.
Definition idle (th : gpc * list op) : Prop := fst th = GIdle.

Lemma nth_error_split_cases {A} (a : list A) x b j th :
  nth_error (a ++ x :: b) j = Some th -> (j = length a /\ th = x) \/ In th a \/ In th b.
Proof.
  revert j. induction a as [|y r IH]; intros j H.
  - destruct j; cbn in H.
    + inversion H; subst. left. auto.
    + right. right. eapply nth_error_In; eauto.
  - destruct j; cbn in H.
    + inversion H; subst. right. left. left. reflexivity.
    + destruct (IH _ H) as [[A1 A2]|[A1|A1]].
      * left. split; [cbn; congruence|exact A2].
      * right. left. right. exact A1.
      * right. right. exact A1.
Qed.

Lemma set_nth_split {A} (l : list A) i x y :
  nth_error l i = Some x -> exists a b, l = a ++ x :: b /\ set_nth i y l = a ++ y :: b /\ length a = i.
Proof.
  revert i. induction l as [|z r IH]; intros [|i] H; cbn in *; try discriminate.
  - inversion H; subst. exists [], r. auto.
  - destruct (IH _ H) as [a [b [E1 [E2 E3]]]]. exists (z :: a), b. cbn. rewrite <- E1, E2, E3. auto.
Qed.

Lemma set_nth_mid {A} (a : list A) x y b : set_nth (length a) y (a ++ x :: b) = a ++ y :: b.
Proof. induction a as [|z r IH]; cbn; [reflexivity|]. rewrite IH. reflexivity. Qed.

Lemma run_ops_snoc ops o s0 s1 s2 : run_ops ops s0 = Some s1 -> do_op o s1 = Some s2 -> run_ops (ops ++ [o]) s0 = Some s2.
Proof.
  revert s0. induction ops as [|x r IH]; intros s0 H1 H2; cbn [run_ops app] in *.
  - inversion H1; subst. rewrite H2. reflexivity.
  - destruct (do_op x s0) as [s'|]; [|discriminate]. eapply IH; eauto.
Qed.

Lemma inserted_perm n a b : Permutation a b -> Permutation (inserted n a) (inserted n b).
Proof.
  induction 1; cbn [inserted].
  - constructor.
  - destruct x as [m e ord|ord]; [destruct (m =? n)|]; auto.
  - destruct x as [m e ord|ord], y as [m' e' ord'|ord']; try destruct (m =? n); try destruct (m' =? n);
      try apply Permutation_refl. apply perm_swap.
  - eapply perm_trans; eauto.
Qed.

Lemma concat_pend_mid a x b : concat (map pend (a ++ x :: b)) = concat (map pend a) ++ pend x ++ concat (map pend b).
Proof. rewrite map_app, concat_app. cbn. reflexivity. Qed.

Section Conc.
  Variables (shapes : list (N * list ftag)) (batch : N) (all : list op).

  Record GInv (s : gst) : Prop := {
    gi_panic : g_panic s = false;
    gi_shape : (g_mu s = false /\ g_txn s = false /\ Forall idle (g_ths s)) \/
               (exists a pc prog b, g_ths s = a ++ (pc, prog) :: b /\ Forall idle a /\ Forall idle b /\
                                    pc <> GIdle /\ prog <> [] /\ g_mu s = true /\ g_txn s = in_txn pc);
    gi_lin : run_ops (g_lin s) (rec_init shapes batch) = Some (g_rec s);
    gi_sinv : SInv shapes (g_rec s);
    gi_ops : Forall (fun th => Forall (op_ok shapes) (snd th)) (g_ths s);
    gi_perm : Permutation (g_lin s ++ concat (map pend (g_ths s))) all
  }.

  Ltac gfields := cbn [g_ths g_mu g_txn g_panic g_rec g_lin g_panicked] in *.

  Lemma idle_step_blocked i s th :
    g_mu s = true -> g_panic s = false -> nth_error (g_ths s) i = Some th -> idle th -> g_step i s = None.
  Proof.
    intros Hmu Hp Hn Hi. unfold g_step. rewrite Hp, Hn. destruct th as [pc prog]. unfold idle in Hi. cbn in Hi. subst pc.
    destruct prog; [reflexivity|]. rewrite Hmu. reflexivity.
  Qed.

  Lemma GInv_step : inductive g_step GInv.
  Proof.
    intros i s s' [Hp Hsh Hlin Hsi Hops Hperm] Hstep.
    destruct s as [ths mu txn panic rc lin]. gfields. subst panic.
    destruct Hsh as [[Hmu [Htx Hidle]]|[a [pc [prog [b [Eths [Ha [Hb [Hpc [Hprog [Hmu Htx]]]]]]]]]]].
    - (* nobody holds the mutex *)
      subst mu txn. unfold g_step in Hstep. gfields.
      destruct (nth_error ths i) as [[pc prog]|] eqn:En; [|discriminate].
      assert (Hi : idle (pc, prog)) by (rewrite Forall_forall in Hidle; apply Hidle; eapply nth_error_In; eauto).
      unfold idle in Hi. cbn in Hi. subst pc. destruct prog as [|o r]; [discriminate|].
      inversion Hstep; subst s'; clear Hstep.
      destruct (set_nth_split ths i (GIdle, o :: r) (GLocked, o :: r) En) as [a [b [E1 [E2 _]]]]. rewrite E2. subst ths.
      apply Forall_app in Hidle. destruct Hidle as [Ha Hb]. inversion Hb; subst.
      apply Forall_app in Hops. destruct Hops as [Hoa Hob]. inversion Hob; subst.
      constructor; gfields; auto.
      + right. exists a, GLocked, (o :: r), b. repeat split; auto; discriminate.
      + apply Forall_app. split; auto.
      + rewrite concat_pend_mid in *. exact Hperm.
    - (* thread [length a] holds the mutex *)
      subst ths mu. unfold g_step in Hstep. gfields.
      destruct (nth_error (a ++ (pc, prog) :: b) i) as [th|] eqn:En; [|discriminate].
      destruct (nth_error_split_cases _ _ _ _ _ En) as [[Ei Eth]|Hin].
      2:{ (* an idle thread cannot move: the mutex is taken *)
          assert (Hi : idle th) by (rewrite Forall_forall in Ha, Hb; destruct Hin; auto).
          destruct th as [pc' prog']. unfold idle in Hi. cbn in Hi. subst pc'. destruct prog'; discriminate. }
      subst i th.
      apply Forall_app in Hops. destruct Hops as [Hoa Hob]. inversion Hob as [|? ? Hoth Hob']; subst. cbn [snd] in Hoth.
      rewrite concat_pend_mid in Hperm.
      destruct prog as [|o r]; [congruence|]. inversion Hoth as [|? ? Hok Hrest]; subst.
      destruct pc; [congruence| | | |].
      + (* GLocked *)
        cbn [in_txn] in *.
        destruct (will_flush o rc).
        * inversion Hstep; subst s'; clear Hstep. rewrite set_nth_mid.
          constructor; gfields; auto.
          -- right. exists a, GInTxn, (o :: r), b. repeat split; auto; discriminate.
          -- apply Forall_app. split; auto.
          -- rewrite concat_pend_mid. exact Hperm.
        * destruct (op_total shapes o rc Hsi Hok) as [rc' [E Hsi']]. rewrite E in Hstep.
          inversion Hstep; subst s'; clear Hstep. rewrite set_nth_mid.
          constructor; gfields; auto.
          -- right. exists a, GUnlock, (o :: r), b. repeat split; auto; discriminate.
          -- eapply run_ops_snoc; eauto.
          -- apply Forall_app. split; auto.
          -- rewrite concat_pend_mid. cbn [pend applied fst snd tl] in *.
             eapply perm_trans; [|exact Hperm]. rewrite <- app_assoc. apply Permutation_app_head. cbn [app].
             apply Permutation_sym. eapply perm_trans; [apply Permutation_sym, Permutation_middle|]. apply Permutation_refl.
      + (* GInTxn *)
        cbn [in_txn] in *.
        destruct (op_total shapes o rc Hsi Hok) as [rc' [E Hsi']]. rewrite E in Hstep.
        inversion Hstep; subst s'; clear Hstep. rewrite set_nth_mid.
        constructor; gfields; auto.
        * right. exists a, GCommit, (o :: r), b. repeat split; auto; discriminate.
        * eapply run_ops_snoc; eauto.
        * apply Forall_app. split; auto.
        * rewrite concat_pend_mid. cbn [pend applied fst snd tl] in *.
          eapply perm_trans; [|exact Hperm]. rewrite <- app_assoc. apply Permutation_app_head. cbn [app].
          apply Permutation_sym. eapply perm_trans; [apply Permutation_sym, Permutation_middle|]. apply Permutation_refl.
      + (* GCommit *)
        cbn [in_txn] in *.
        inversion Hstep; subst s'; clear Hstep. rewrite set_nth_mid.
        constructor; gfields; auto.
        * right. exists a, GUnlock, (o :: r), b. repeat split; auto; discriminate.
        * apply Forall_app. split; auto.
        * rewrite concat_pend_mid. exact Hperm.
      + (* GUnlock *)
        cbn [in_txn] in *.
        inversion Hstep; subst s'; clear Hstep. rewrite set_nth_mid.
        constructor; gfields; auto.
        * left. repeat split; auto. apply Forall_app. split; [exact Ha|]. constructor; [reflexivity|exact Hb].
        * apply Forall_app. split; auto.
        * rewrite concat_pend_mid. exact Hperm.
  Qed.
End Conc.

Lemma GInv_init shapes batch progs :
  NoDup (map fst shapes) -> Forall (Forall (op_ok shapes)) progs ->
  GInv shapes batch (concat progs) (g_init shapes batch progs).
Proof.
  intros Hnd Hops. constructor; cbn [g_init g_ths g_mu g_txn g_panic g_rec g_lin]; auto.
  - left. repeat split; auto. apply Forall_forall. intros th Hin. apply in_map_iff in Hin. destruct Hin as [p [<- _]]. reflexivity.
  - apply SInv_init. exact Hnd.
  - apply Forall_forall. intros th Hin. apply in_map_iff in Hin. destruct Hin as [p [<- Hp]]. cbn.
    rewrite Forall_forall in Hops. auto.
  - cbn [app]. rewrite map_map. cbn [pend applied fst snd]. rewrite map_id. apply Permutation_refl.
Qed.

(** For any number of goroutines, any calls, any batch size and every schedule. *)
Theorem concurrent_fixed shapes batch progs o :
  NoDup (map fst shapes) -> Forall (Forall (op_ok shapes)) progs ->
  let s := run g_step o (g_init shapes batch progs) in
  (* no double BEGIN, no COMMIT without a transaction, no other panic *)
  g_panic s = false /\
  (* the goroutine holding the mutex is the only one between BEGIN and COMMIT *)
  (g_txn s = true -> g_mu s = true /\
     exists a pc prog b, g_ths s = a ++ (pc, prog) :: b /\ Forall idle a /\ Forall idle b /\ in_txn pc = true) /\
  (* the recorder is the sequential recorder applied to the completed calls in effect order;
     completed + pending = all calls *)
  run_ops (g_lin s) (rec_init shapes batch) = Some (g_rec s) /\
  Permutation (g_lin s ++ concat (map pend (g_ths s))) (concat progs).
Proof.
  intros Hnd Hops s.
  pose proof (run_invariant g_step _ (GInv_step shapes batch (concat progs)) o _ (GInv_init shapes batch progs Hnd Hops)) as H.
  fold s in H. destruct H as [Hp Hsh Hlin _ _ Hperm]. repeat split; auto.
  - destruct Hsh as [[_ [A _]]|[a [pc [prog [b [_ [_ [_ [_ [_ [A _]]]]]]]]]]]; [congruence|exact A].
  - destruct Hsh as [[_ [A _]]|[a [pc [prog [b [E [Ha [Hb [_ [_ [_ A]]]]]]]]]]]; [congruence|].
    exists a, pc, prog, b. repeat split; auto. congruence.
Qed.

(** When every goroutine has finished and Close (a final flush) has run: each table
    holds exactly the multiset of entries inserted into it, each once, unchanged. *)
Theorem concurrent_fixed_exactly_once shapes batch progs o ord :
  NoDup (map fst shapes) -> Forall (Forall (op_ok shapes)) progs ->
  Forall (Forall (covers (map fst shapes))) progs -> (forall n, In n (map fst shapes) -> In n ord) ->
  let s := run g_step o (g_init shapes batch progs) in
  g_all_done s ->
  exists s', flush ord (g_rec s) = Some s' /\
    forall n t, tab_get n (r_tabs s') = Some t ->
      t_buf t = [] /\
      Permutation (map (resolve (r_locrows s')) (t_rows t)) (map proj (inserted n (concat progs))).
Proof.
  intros Hnd Hops Hcov Hord s Hdone.
  destruct (concurrent_fixed shapes batch progs o Hnd Hops) as [_ [_ [Hlin Hperm]]]. fold s in Hlin, Hperm.
  assert (Hpend : concat (map pend (g_ths s)) = []).
  { unfold g_all_done in Hdone. induction (g_ths s) as [|th r IH]; [reflexivity|].
    inversion Hdone; subst. cbn. rewrite IH by assumption. reflexivity. }
  rewrite Hpend, app_nil_r in Hperm.
  pose proof (run_invariant g_step _ (GInv_step shapes batch (concat progs)) o _ (GInv_init shapes batch progs Hnd Hops)) as HI.
  fold s in HI.
  destruct (flush_total shapes ord (g_rec s) (gi_sinv _ _ _ _ HI)) as [s' [Ef _]].
  exists s'. split; [exact Ef|].
  assert (Hcov' : Forall (covers (map fst shapes)) (g_lin s)).
  { apply Forall_forall. intros x Hx. apply (Permutation_in _ Hperm) in Hx. apply in_concat in Hx.
    destruct Hx as [p [Hp Hxp]]. rewrite Forall_forall in Hcov. specialize (Hcov _ Hp). rewrite Forall_forall in Hcov. auto. }
  assert (Hrun : run_ops (g_lin s ++ [OFlush ord]) (rec_init shapes batch) = Some s') by (eapply run_ops_snoc; eauto).
  destruct (seq_exactly_once shapes batch (g_lin s) ord s' Hcov' Hord Hrun) as [Htab _].
  intros n t Hg. destruct (Htab _ _ Hg) as [A B]. split; [exact A|].
  rewrite B. apply Permutation_map. apply inserted_perm. exact Hperm.
Qed.
