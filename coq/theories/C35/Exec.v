(** C35 — case evaluators: SQLite contents read back with the datareader. *)
From Akita Require Import Lib.Base Lib.Lts C35.Model.
Local Open Scope N_scope.

Record case := mk_case {
  c_shapes : list (N * list ftag);          (* CreateTable calls: name, field tags *)
  c_batch : N;
  c_ops : list op;                          (* inserts and flushes, in issue order; Close is the last flush *)
  c_conc : bool;                            (* the inserts were issued from several goroutines *)
  o_panic : bool;
  o_tabs : list (N * list (list pcell));    (* per table: rows read back, location ids resolved by the reader *)
  o_locs : list (N * str)                   (* the location table *)
}.

Definition val_eqb (a b : val) : bool :=
  match a, b with
  | VInt x, VInt y => Z.eqb x y
  | VUint x, VUint y => x =? y
  | VBool x, VBool y => Bool.eqb x y
  | VFloat x, VFloat y => x =? y
  | VStr x, VStr y => str_eqb x y
  | VComplex, VComplex => true
  | _, _ => false
  end.

Definition pcell_eqb (a b : pcell) : bool :=
  match a, b with
  | PVal x, PVal y => val_eqb x y
  | PLoc x, PLoc y => str_eqb x y
  | _, _ => false
  end.

Definition prow_eqb := list_eqb pcell_eqb.
Definition prows_eqb := list_eqb prow_eqb.

(** rows are keyed by their first cell (a unique sequence number in every generated entry) *)
Definition key_of (r : list pcell) : Z := match r with PVal (VInt z) :: _ => z | _ => 0%Z end.
Fixpoint ins_row (x : list pcell) (l : list (list pcell)) : list (list pcell) :=
  match l with [] => [x] | y :: r => if (key_of x <=? key_of y)%Z then x :: l else y :: ins_row x r end.
Definition sort_rows (l : list (list pcell)) : list (list pcell) := fold_right ins_row [] l.

Fixpoint str_leb (a b : str) : bool :=
  match a, b with
  | [], _ => true
  | _ :: _, [] => false
  | x :: a', y :: b' => if x <? y then true else if y <? x then false else str_leb a' b'
  end.
Fixpoint ins_str (x : str) (l : list str) : list str :=
  match l with [] => [x] | y :: r => if str_leb x y then x :: l else y :: ins_str x r end.
Definition sort_strs (l : list str) : list str := fold_right ins_str [] l.

Fixpoint obs_get (name : N) (ts : list (N * list (list pcell))) : list (list pcell) :=
  match ts with [] => [] | (k, v) :: r => if k =? name then v else obs_get name r end.

Definition canon_order (c : case) : list N := map fst (c_shapes c).

(** the oracle-free replay: every flush iterates the tables in creation order
    (c35_seq_exactly_once shows the resolved view does not depend on the order) *)
Definition canon_op (ord : list N) (o : op) : op :=
  match o with OInsert n e _ => OInsert n e ord | OFlush _ => OFlush ord end.

Definition model_run (c : case) : option rec :=
  run_ops (map (canon_op (canon_order c)) (c_ops c)) (rec_init (c_shapes c) (c_batch c)).

Fixpoint ids_from (k : N) (l : list (N * str)) : bool :=
  match l with [] => true | (i, _) :: r => (i =? k) && ids_from (k + 1) r end.

Fixpoint nodup_strs (l : list str) : bool :=
  match l with [] => true | x :: r => negb (existsb (str_eqb x) r) && nodup_strs r end.

Definition check_case (c : case) : bool :=
  match model_run c with
  | None => o_panic c
  | Some s =>
      negb (o_panic c) &&
      forallb (fun nt =>
                 let rows := map (resolve (r_locrows s)) (t_rows (snd nt)) in
                 let obs := obs_get (fst nt) (o_tabs c) in
                 if c_conc c then prows_eqb (sort_rows obs) (sort_rows rows) else prows_eqb obs rows)
              (r_tabs s) &&
      (* Flush visits the tables in sorted name order (= creation order here), so the
         location table is reproduced exactly in sequential sessions *)
      (if c_conc c
       then list_eqb str_eqb (sort_strs (map snd (o_locs c))) (sort_strs (map snd (r_locrows s)))
       else list_eqb (fun a b => (fst a =? fst b) && str_eqb (snd a) (snd b)) (o_locs c) (r_locrows s)) &&
      ids_from 1 (o_locs c)
  end.

(** the property on the database contents, independent of the recorder model *)
Fixpoint loc_strings (rows : list (list pcell)) : list str :=
  match rows with
  | [] => []
  | r :: rest => flat_map (fun c => match c with PLoc s => [s] | _ => [] end) r ++ loc_strings rest
  end.

Definition holds_on (c : case) : bool :=
  negb (o_panic c) &&
  (* every inserted entry is present exactly once with every non-ignored field unchanged *)
  forallb (fun ns =>
             let want := map proj (inserted (fst ns) (c_ops c)) in
             let obs := obs_get (fst ns) (o_tabs c) in
             if c_conc c then prows_eqb (sort_rows obs) (sort_rows want) else prows_eqb obs want)
          (c_shapes c) &&
  (* the location table is a bijection id <-> string covering every location used *)
  ids_from 1 (o_locs c) && nodup_strs (map snd (o_locs c)) &&
  forallb (fun ns => forallb (fun s => existsb (str_eqb s) (map snd (o_locs c)))
                             (loc_strings (map proj (inserted (fst ns) (c_ops c)))))
          (c_shapes c).
