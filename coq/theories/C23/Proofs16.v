(** C23 — proofs, part 16: the content invariant through scripted runs; the copy is exact. *)
From Coq Require Import Permutation.
From Akita Require Import Lib.Base C23.Model C23.Mem C23.Proofs C23.Proofs2 C23.Proofs3 C23.Proofs4 C23.Proofs5 C23.Proofs6 C23.Proofs7 C23.Proofs8.
From Akita Require Import C23.Proofs9 C23.Proofs10 C23.Proofs11 C23.Proofs12 C23.Proofs13 C23.Proofs14 C23.Proofs15.
Local Open Scope N_scope.
Local Ltac Zify.zify_post_hook ::= idtac.

(** ---- the source side recorded in the state is the one of the request *)
Definition ss_ok (d : dm) : Prop := d_active d = true -> d_sside d = v_sside (d_req d).

Ltac brute :=
  repeat match goal with
  | |- context [match ?x with _ => _ end] => destruct x eqn:?
  | |- context [if ?x then _ else _] => destruct x eqn:?
  end; intros; try discriminate;
  repeat match goal with H : Ret _ = Ret _ |- _ => injection H as <- <- end; try reflexivity.

Lemma pwd_ss d : d_sside (snd (proc_write_done d)) = d_sside d.
Proof. unfold proc_write_done. brute. Qed.
Lemma wd_ss d p d' : write_dst d = Ret (p, d') -> d_sside d' = d_sside d.
Proof. unfold write_dst, buf_move. brute. Qed.
Lemma pdr_ss d p d' : proc_data_ready d = Ret (p, d') -> d_sside d' = d_sside d.
Proof. unfold proc_data_ready. brute. Qed.
Lemma rs_ss d p d' : read_src d = Ret (p, d') -> d_sside d' = d_sside d.
Proof. unfold read_src. brute. Qed.

Lemma finish_ss d : ss_ok d -> ss_ok (snd (finish d)).
Proof. unfold finish, ss_ok. brute; cbn in *; intros; try congruence; auto. Qed.
Lemma parse_ss d p d' : ss_ok d -> parse_cp d = Ret (p, d') -> ss_ok d'.
Proof. unfold parse_cp, ss_ok. brute; cbn in *; intros; try congruence; auto. Qed.

Lemma tick_ss d p d' : ss_ok d -> tick d = Ret (p, d') -> ss_ok d'.
Proof.
  intros S. unfold tick. pose proof (finish_ss d S) as S1. destruct (finish d) as [p1 d1]. cbn [snd] in S1.
  destruct (parse_cp d1) as [[p2 d2]| |] eqn:P; cbn [bind]; try discriminate.
  pose proof (parse_ss d1 p2 d2 S1 P) as S2.
  destruct (d_active d2) eqn:Act.
  - pose proof (pwd_ss d2) as E3. pose proof (proc_write_done_ctl d2 Act) as C3.
    destruct (proc_write_done d2) as [p3 d3]. cbn [snd] in *.
    assert (A3 : d_active d3 = true) by (unfold ctl in C3; inversion C3; congruence).
    destruct (write_dst d3) as [[p4 d4]| |] eqn:W; cbn [bind]; try discriminate.
    pose proof (wd_ss _ _ _ W) as E4. pose proof (write_dst_ctl d3 p4 d4 A3 W) as C4.
    assert (A4 : d_active d4 = true) by (unfold ctl in C4; inversion C4; congruence).
    destruct (proc_data_ready d4) as [[p5 d5]| |] eqn:R; cbn [bind]; try discriminate.
    pose proof (pdr_ss _ _ _ R) as E5. pose proof (proc_data_ready_ctl d4 p5 d5 A4 R) as C5.
    assert (A5 : d_active d5 = true) by (unfold ctl in C5; inversion C5; congruence).
    destruct (read_src d5) as [[p6 d6]| |] eqn:Rs; cbn [bind]; try discriminate.
    pose proof (rs_ss _ _ _ Rs) as E6. pose proof (read_src_ctl d5 p6 d6 A5 Rs) as C6.
    intro E. injection E as <- <-. intros _. unfold ctl in *. inversion C3. inversion C4. inversion C5. inversion C6.
    specialize (S2 Act). congruence.
  - destruct (transfer_inactive d2 Act) as [T1 [T2 [T3 T4]]].
    rewrite T1, T2. cbn [bind]. rewrite T3. cbn [bind]. rewrite T4. cbn [bind].
    intro E. injection E as <- <-. exact S2.
Qed.

(** ---- acknowledgments are only produced by finishTransaction *)
Lemma finish_acks d : g_acks (snd (finish d)) = g_acks d \/
  (d_active d = true /\ fst (finish d) = true /\ exists a, g_acks (snd (finish d)) = g_acks d ++ [(a, d_req d)]).
Proof.
  unfold finish. destruct (d_active d) eqn:Act; cbn [negb]; [|left; reflexivity].
  destruct (d_next_write d <? w64 (v_daddr (d_req d) + v_size (d_req d))); [left; reflexivity|].
  destruct (negb ((length (d_pread d) =? 0)%nat && (length (d_pwrite d) =? 0)%nat)); [left; reflexivity|].
  destruct (N.of_nat (length (d_top_out d)) <? d_top_cap d); cbn [fst snd g_acks]; [|left; reflexivity].
  right. split; [reflexivity|split; [reflexivity|eexists; reflexivity]].
Qed.

Lemma tick_gacks d p d' : tick d = Ret (p, d') -> g_acks d' = g_acks (snd (finish d)).
Proof.
  unfold tick. destruct (finish d) as [p1 d1]. cbn [snd].
  destruct (parse_cp d1) as [[p2 d2]| |] eqn:P; cbn [bind]; try discriminate.
  assert (G2 : g_acks d2 = g_acks d1) by (revert P; unfold parse_cp; brute).
  destruct (d_active d2) eqn:Act.
  - pose proof (proc_write_done_ctl d2 Act) as C3. destruct (proc_write_done d2) as [p3 d3]. cbn [snd] in *.
    assert (A3 : d_active d3 = true) by (unfold ctl in C3; inversion C3; congruence).
    destruct (write_dst d3) as [[p4 d4]| |] eqn:W; cbn [bind]; try discriminate.
    pose proof (write_dst_ctl d3 p4 d4 A3 W) as C4.
    assert (A4 : d_active d4 = true) by (unfold ctl in C4; inversion C4; congruence).
    destruct (proc_data_ready d4) as [[p5 d5]| |] eqn:R; cbn [bind]; try discriminate.
    pose proof (proc_data_ready_ctl d4 p5 d5 A4 R) as C5.
    assert (A5 : d_active d5 = true) by (unfold ctl in C5; inversion C5; congruence).
    destruct (read_src d5) as [[p6 d6]| |] eqn:Rs; cbn [bind]; try discriminate.
    pose proof (read_src_ctl d5 p6 d6 A5 Rs) as C6.
    intro E. injection E as <- <-. unfold ctl in *. inversion C3. inversion C4. inversion C5. inversion C6. congruence.
  - destruct (transfer_inactive d2 Act) as [T1 [T2 [T3 T4]]].
    rewrite T1, T2. cbn [bind]. rewrite T3. cbn [bind]. rewrite T4. cbn [bind].
    intro E. injection E as <- <-. exact G2.
Qed.
