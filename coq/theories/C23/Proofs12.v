(** C23 — proofs, part 12: the content invariant through processDataReadyFromSrc and readFromSrc. *)
From Coq Require Import Permutation.
From Akita Require Import Lib.Base C23.Model C23.Mem C23.Proofs C23.Proofs3 C23.Proofs4 C23.Proofs5 C23.Proofs6 C23.Proofs9 C23.Proofs10 C23.Proofs11.
Local Open Scope N_scope.
Local Ltac Zify.zify_post_hook ::= idtac.

Lemma buf_add_spec b off x b' : buf_add b off x = Ret b' ->
  b_gran b' = b_gran b /\ b_off b' = b_off b /\ b_off b <= off /\ 0 < b_gran b /\ off mod b_gran b = 0 /\
  forall i c, nth_error (b_chunks b') i = Some c -> ch_valid c = true ->
    (i = N.to_nat (sub64 off (b_off b) / b_gran b) /\ c = mk_chunk x true) \/ nth_error (b_chunks b) i = Some c.
Proof.
  unfold buf_add. destruct (b_gran b =? 0) eqn:Z; [discriminate|].
  destruct (off mod b_gran b =? 0) eqn:M; cbn [negb]; [|discriminate].
  destruct (off <? b_off b) eqn:L; [discriminate|].
  intro E. inversion E; subst b'. cbn [b_gran b_off b_chunks].
  split; [reflexivity|split; [reflexivity|split; [lia|split; [lia|split; [lia|]]]]].
  set (n := N.to_nat (sub64 off (b_off b) / b_gran b)).
  set (padded := b_chunks b ++ repeat (mk_chunk [] false) (S n - length (b_chunks b))).
  assert (Lp : (n < length padded)%nat) by (unfold padded; rewrite app_length, repeat_length; lia).
  intros i c Hi Hv. rewrite (nth_error_set_nth _ n padded i Lp) in Hi.
  destruct (Nat.eqb i n) eqn:En.
  - left. apply Nat.eqb_eq in En. inversion Hi. tauto.
  - right. unfold padded in Hi. rewrite nth_error_pad in Hi.
    destruct (i <? length (b_chunks b))%nat; [exact Hi|].
    destruct (i <? length (b_chunks b) + (S n - length (b_chunks b)))%nat; [|discriminate].
    inversion Hi; subst c. discriminate.
Qed.

(** ---- processDataReadyFromSrc *)
Lemma proc_data_ready_cinv d mi mo pi po p d' : d_active d = true -> sinv d -> cinv d mi mo pi po -> UB d pi po ->
  proc_data_ready d = Ret (p, d') -> cinv d' mi mo pi po /\ UB d' pi po.
Proof.
  intros Act S C U. pose proof C as [Hss Hds Hne Fs Fd R B W].
  unfold proc_data_ready. rewrite Act. cbn [negb]. rewrite (side_port_of d _ Hss).
  set (q := port_of d (d_sside d)) in *.
  destruct (p_in q) as [|[r x|r] rest] eqn:Pin.
  - intro E. injection E as <- <-. split; assumption.
  - (* data-ready *)
    set (d1 := with_port d (d_sside d) (mk_port rest (p_out q) (p_cap q))).
    assert (Pds : port_of d1 (d_dside d) = port_of d (d_dside d)).
    { unfold d1. rewrite port_of_with_port by assumption. destruct (d_sside d =? d_dside d) eqn:E; [lia|reflexivity]. }
    assert (Pss : port_of d1 (d_sside d) = mk_port rest (p_out q) (p_cap q)).
    { unfold d1. rewrite port_of_with_port by assumption. rewrite N.eqb_refl. reflexivity. }
    assert (U1 : UB d1 pi po).
    { apply (UB_shrink d d1 pi po pi po); [apply N.le_refl| |exact U].
      intros s Hs. unfold d1. rewrite idlist_with_port by assumption. destruct (d_sside d =? s) eqn:E.
      - assert (s = d_sside d) by lia. subst s. exists [r]. unfold idlist. fold q. rewrite Pin. cbn [p_out p_in map rid].
        apply Permutation_sym. cbn [app]. apply Permutation_middle.
      - exists []. apply Permutation_refl. }
    destruct R as [R1 [R2 R3]].
    assert (R' : forall pr, (forall k v, aget k pr = Some v -> aget k (d_pread d) = Some v) ->
                 RB (mk_port rest (p_out q) (p_cap q)) (pick (d_sside d) pi po) pr (pick (d_sside d) mi mo) (d_sg d)).
    { intros pr Hpr. split; [|split].
      - intros id a n Hin a' Ha'. cbn [p_out] in Hin. apply (R1 id a n Hin a' (Hpr _ _ Ha')).
      - intros id x0 Hin a Ha. cbn [p_in] in Hin. apply (R2 id x0); [rewrite Pin; right; exact Hin|apply Hpr; exact Ha].
      - intros id a x0 Hin. cbn [p_out] in Hin. apply (R3 id a x0 Hin). }
    destruct (aget r (d_pread d)) as [a|] eqn:AG.
    2:{ intro E. injection E as <- <-. split; [|exact U1].
        constructor; try assumption.
        - change (port_of d1 (d_sside d1)) with (port_of d1 (d_sside d)). rewrite Pss. apply R'. auto.
        - change (port_of d1 (d_dside d1)) with (port_of d1 (d_dside d)). rewrite Pds. exact W. }
    destruct (buf_add (d_buf d) (sub64 a (v_saddr (d_req d))) x) as [bf| |] eqn:BA; try discriminate.
    intro E. injection E as <- <-.
    match goal with |- cinv ?D _ _ _ _ /\ _ => set (du := D) end.
    split; [|intros s Hs; exact (U1 s Hs)].
    constructor; [exact Hss|exact Hds|exact Hne|exact Fs|exact Fd| | |].
    + change (port_of du (d_sside du)) with (port_of d1 (d_sside d)). rewrite Pss.
      change (d_pread du) with (adel r (d_pread d)). apply R'.
      intros k v Hk. apply aget_adel_some in Hk. tauto.
    + (* the new chunk holds its granule *)
      change (d_buf du) with bf. change (d_req du) with (d_req d). change (d_sside du) with (d_sside d). change (d_sg du) with (d_sg d).
      destruct (buf_add_spec _ _ _ _ BA) as [Bg [Bo [Ble [Bgp [Bmod Bn]]]]].
      destruct S as [gs gd ms md ws wd sal sside [rd1 [rd2 rd3]] [wr1 [wr2 wr3]] bg bo ch pr pn].
      destruct (pr r a (aget_In _ _ _ AG)) as [P1 [P2 [P3 [P4 P5]]]].
      assert (Ha64 : a < two64) by (clear - P1 P3 rd1 rd3 ws gs; lia).
      rewrite (sub64_small a _ P1 Ha64) in *.
      intros i c Hi Hv. rewrite Bo. destruct (Bn i c Hi Hv) as [[-> ->]|Hold]; [|apply (B i c Hold Hv)].
      cbn [ch_data]. rewrite (R2 r x ltac:(rewrite Pin; left; reflexivity) a AG). f_equal.
      rewrite bg in *. rewrite (sub64_small _ _ P4 ltac:(clear - Ha64; lia)).
      destruct (floor_mult (d_sg d) (d_next_write d - v_daddr (d_req d)) gs) as [kb [Hkb _]]. rewrite bo, Hkb in *.
      destruct (mult_of (d_sg d) _ gs P2) as [kr Hkr]. rewrite Hkr in *.
      rewrite <- N.mul_sub_distr_r, (mult_div _ _ gs), N2Nat.id.
      assert (kb <= kr) by (apply (N.mul_le_mono_pos_r _ _ (d_sg d) gs); exact P4).
      replace (v_saddr (d_req d) + kb * d_sg d + (kr - kb) * d_sg d) with (v_saddr (d_req d) + kr * d_sg d) by (clear - H; nia).
      clear - Hkr P1. lia.
    + change (port_of du (d_dside du)) with (port_of d1 (d_dside d)). rewrite Pds. exact W.
  - (* orphan write-done on the source port *)
    assert (negb (d_sside d =? d_dside d) = true) as -> by (apply negb_true_iff, N.eqb_neq; exact Hne).
    intro E. injection E as <- <-.
    set (d1 := with_port d (d_sside d) (mk_port rest (p_out q) (p_cap q))).
    assert (Pds : port_of d1 (d_dside d) = port_of d (d_dside d)).
    { unfold d1. rewrite port_of_with_port by assumption. destruct (d_sside d =? d_dside d) eqn:E; [lia|reflexivity]. }
    assert (Pss : port_of d1 (d_sside d) = mk_port rest (p_out q) (p_cap q)).
    { unfold d1. rewrite port_of_with_port by assumption. rewrite N.eqb_refl. reflexivity. }
    split.
    + destruct R as [R1 [R2 R3]]. constructor; try assumption.
      * change (port_of d1 (d_sside d1)) with (port_of d1 (d_sside d)). rewrite Pss. split; [|split].
        -- intros id a n Hin. cbn [p_out] in Hin. apply (R1 id a n Hin).
        -- intros id x0 Hin. cbn [p_in] in Hin. apply (R2 id x0). rewrite Pin. right. exact Hin.
        -- intros id a x0 Hin. cbn [p_out] in Hin. apply (R3 id a x0 Hin).
      * change (port_of d1 (d_dside d1)) with (port_of d1 (d_dside d)). rewrite Pds. exact W.
    + apply (UB_shrink d d1 pi po pi po); [apply N.le_refl| |exact U].
      intros s Hs. unfold d1. rewrite idlist_with_port by assumption. destruct (d_sside d =? s) eqn:E.
      * assert (s = d_sside d) by lia. subst s. exists [r]. unfold idlist. fold q. rewrite Pin. cbn [p_out p_in map rid].
        apply Permutation_sym. cbn [app]. apply Permutation_middle.
      * exists []. apply Permutation_refl.
Qed.
