(** C23 — proofs, part 12: the content invariant through processDataReadyFromSrc and readFromSrc. *)
From Coq Require Import Permutation.
From Akita Require Import Lib.Base C23.Model C23.Mem C23.Proofs C23.Proofs3 C23.Proofs4 C23.Proofs5 C23.Proofs6 C23.Proofs9 C23.Proofs10 C23.Proofs11.
Local Open Scope N_scope.
Local Ltac Zify.zify_post_hook ::= idtac.

Lemma buf_add_spec b off x b' : buf_add b off x = Ret b' ->
  b_gran b' = b_gran b /\ b_off b' = b_off b /\ b_off b <= off /\ 0 < b_gran b /\ off mod b_gran b = 0 /\
  forall i c, nth_error (b_chunks b') i = Some c -> ch_valid c = true ->
    (i = N.to_nat (sub64 off (b_off b) / b_gran b) /\ c = mk_chunk x true) \/ nth_error (b_chunks b) i = Some c.
Proof.
  unfold buf_add. destruct (b_gran b =? 0) eqn:Z; [discriminate|].
  destruct (off mod b_gran b =? 0) eqn:M; cbn [negb]; [|discriminate].
  destruct (off <? b_off b) eqn:L; [discriminate|].
  intro E. inversion E; subst b'. cbn [b_gran b_off b_chunks].
  split; [reflexivity|split; [reflexivity|split; [lia|split; [lia|split; [lia|]]]]].
  set (n := N.to_nat (sub64 off (b_off b) / b_gran b)).
  set (padded := b_chunks b ++ repeat (mk_chunk [] false) (S n - length (b_chunks b))).
  assert (Lp : (n < length padded)%nat) by (unfold padded; rewrite app_length, repeat_length; lia).
  intros i c Hi Hv. rewrite (nth_error_set_nth _ n padded i Lp) in Hi.
  destruct (Nat.eqb i n) eqn:En.
  - left. apply Nat.eqb_eq in En. inversion Hi. tauto.
  - right. unfold padded in Hi. rewrite nth_error_pad in Hi.
    destruct (i <? length (b_chunks b))%nat; [exact Hi|].
    destruct (i <? length (b_chunks b) + (S n - length (b_chunks b)))%nat; [|discriminate].
    inversion Hi; subst c. discriminate.
Qed.

(** ---- processDataReadyFromSrc *)
Lemma proc_data_ready_cinv d mi mo pi po p d' : d_active d = true -> sinv d -> cinv d mi mo pi po -> UB d pi po ->
  proc_data_ready d = Ret (p, d') -> cinv d' mi mo pi po /\ UB d' pi po.
Proof.
  intros Act S C U. pose proof C as [Hss Hds Sep Nw Fs Fd R B W].
  unfold proc_data_ready. rewrite Act. cbn [negb]. rewrite (side_port_of d _ Hss).
  set (q := port_of d (d_sside d)) in *.
  destruct (p_in q) as [|[r x|r] rest] eqn:Pin.
  - intro E. injection E as <- <-. split; assumption.
  - (* data-ready *)
    destruct (cinv_popped d mi mo pi po (d_sside d) _ rest Hss Pin C U) as [C1 U1].
    fold q in C1, U1. change (with_port d (d_sside d) (mk_port rest (p_out q) (p_cap q))) with (popped d (d_sside d) rest).
    set (d1 := popped d (d_sside d) rest) in *.
    destruct (aget r (d_pread d)) as [a|] eqn:AG.
    2:{ intro E. injection E as <- <-. split; assumption. }
    destruct (buf_add (d_buf d) (sub64 a (v_saddr (d_req d))) x) as [bf| |] eqn:BA; try discriminate.
    intro E. injection E as <- <-.
    destruct C1 as [Hss1 Hds1 Sep1 Nw1 Fs1 Fd1 R1 B1 W1].
    match goal with |- cinv ?D _ _ _ _ /\ _ => set (du := D) end.
    split; [|intros s Hs; exact (U1 s Hs)].
    constructor; [exact Hss1|exact Hds1|exact Sep1|exact Nw1|exact Fs1|exact Fd1| | |exact W1].
    + change (port_of du (d_sside du)) with (port_of d1 (d_sside d1)). change (d_pread du) with (adel r (d_pread d)).
      apply (RB_mono (port_of d1 (d_sside d1)) (pick (d_sside d1) pi po) _ _ (d_pread d1) _ _ _); [auto|auto| |exact R1].
      intros k v Hk. apply aget_adel_some in Hk. tauto.
    + (* the new chunk holds its granule *)
      change (d_buf du) with bf. change (d_req du) with (d_req d). change (d_sside du) with (d_sside d). change (d_sg du) with (d_sg d).
      destruct (buf_add_spec _ _ _ _ BA) as [Bg [Bo [Ble [Bgp [Bmod Bn]]]]].
      destruct S as [gs gd ms md ws wd sal sside [rd1 [rd2 rd3]] [wr1 [wr2 wr3]] bg bo ch pr pn].
      destruct (pr r a (aget_In _ _ _ AG)) as [P1 [P2 [P3 [P4 P5]]]].
      assert (Ha64 : a < two64) by (clear - P1 P3 rd1 rd3 ws gs; lia).
      rewrite (sub64_small a _ P1 Ha64) in *.
      intros i c Hi Hv. rewrite Bo. destruct (Bn i c Hi Hv) as [[-> ->]|Hold]; [|apply (B i c Hold Hv)].
      cbn [ch_data]. destruct R as [_ R2]. rewrite (R2 r x ltac:(fold q; rewrite Pin; left; reflexivity) a AG). f_equal.
      rewrite bg in *. rewrite (sub64_small _ _ P4 ltac:(clear - Ha64; lia)).
      destruct (floor_mult (d_sg d) (d_next_write d - v_daddr (d_req d)) gs) as [kb [Hkb _]]. rewrite bo, Hkb in *.
      destruct (mult_of (d_sg d) _ gs P2) as [kr Hkr]. rewrite Hkr in *.
      rewrite <- N.mul_sub_distr_r, (mult_div _ _ gs), N2Nat.id.
      assert (kb <= kr) by (apply (N.mul_le_mono_pos_r _ _ (d_sg d) gs); exact P4).
      replace (v_saddr (d_req d) + kb * d_sg d + (kr - kb) * d_sg d) with (v_saddr (d_req d) + kr * d_sg d) by (clear - H; nia).
      clear - Hkr P1. lia.
  - (* a write-done on the source port: an orphan unless both sides share the port *)
    destruct (negb (d_sside d =? d_dside d)); intro E; injection E as <- <-; [|split; assumption].
    apply (cinv_popped d mi mo pi po (d_sside d) _ rest Hss Pin C U).
Qed.
