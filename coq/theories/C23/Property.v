(** C23 — data movers copy exactly the requested range.  Property theorems only. *)
From Akita Require Import Lib.Base C23.Model C23.Exec.
From Akita Require Import C23.Proofs C23.Proofs2 C23.Proofs3 C23.Proofs4 C23.Proofs5 C23.Proofs6 C23.Proofs7 C23.Proofs8.
From Akita Require Import C23.Mem C23.Proofs9 C23.Proofs10 C23.Proofs11 C23.Proofs12 C23.Proofs13 C23.Proofs14 C23.Proofs15 C23.Proofs16 C23.Proofs17 C23.Proofs18.
Local Open Scope N_scope.

(** The full statement is false of the code when ByteSize is not a multiple of the
    granularities (confirmed on the real component, known finding F-C23-1):
    100 bytes at 64/64 — the second 64-byte write overwrites destination bytes 100..127;
    100 bytes with a 256-byte destination granularity — never acknowledged.
    The environment serves every request immediately and drains every port. *)
Definition pat (n : nat) (seed : N) : list N := map (fun i => (N.of_nat i * 3 + seed) mod 256) (seq 0 n).

Definition serve_all : instant := mk_instant [] [0; 0; 0; 0]%nat [0; 0; 0; 0]%nat [] [] 4 8 8.

Definition unaligned_run (gin gout bufsize size : N) (n : nat) : env * list tick_obs * N :=
  env_run (mk_env (dm_init bufsize gin gout 2 8 8) (pat 512 1) (pat 512 101) [] [])
          (mk_instant [mk_move 77 1 0 256 size 0 1] [] [] [] [] 1 2 2 :: repeat serve_all n).

Theorem c23_unaligned_size_refuted :
  (* 100 B, granularities 64/64: acknowledged, but bytes outside [256, 356) of the destination changed *)
  (let '(e, obs, oc) := unaligned_run 64 64 128 100 40 in
   oc = 0 /\ length (flat_map to_acks obs) = 1%nat /\
   mem_read (e_mem_out e) 256 100 = mem_read (pat 512 1) 0 100 /\
   mem_read (e_mem_out e) 356 28 = mem_read (pat 512 1) 100 28 /\
   mem_read (e_mem_out e) 356 28 <> mem_read (pat 512 101) 356 28) /\
  (* 100 B, granularities 64/256: no acknowledgment in 200 fully served ticks, transaction still active *)
  (let '(e, obs, oc) := unaligned_run 64 256 512 100 200 in
   oc = 0 /\ flat_map to_acks obs = [] /\ d_active (e_dm e) = true /\ d_pread (e_dm e) = [] /\ d_pwrite (e_dm e) = []).
Proof. vm_compute. repeat split; discriminate. Qed.
Print Assumptions c23_unaligned_size_refuted.

(** Buffer smaller than the destination granularity (buffer 32, granularities 16/64, 128 bytes):
    the read window admits two 16-byte chunks, a 64-byte write never becomes extractable, the
    accepted move is never acknowledged (confirmed on the real component, known finding F-C23-2). *)
Theorem c23_small_buffer_refuted :
  let '(e, obs, oc) := unaligned_run 16 64 32 128 200 in
  oc = 0 /\ flat_map to_acks obs = [] /\ d_active (e_dm e) = true /\
  d_pread (e_dm e) = [] /\ d_pwrite (e_dm e) = [] /\ g_writes (e_dm e) = [].
Proof. vm_compute. repeat split. Qed.
Print Assumptions c23_small_buffer_refuted.

(** Same side, overlapping ranges (inside -> inside, destination 16 bytes above the source, 64
    bytes, granularity 16; confirmed on the real component, known finding F-C23-3): with a
    one-granule buffer each granule is written over the next source granule before that one is
    read, the move is acknowledged and the destination holds the first granule four times, not
    the bytes the source range held when the move was requested.  With a buffer that lets all
    four reads go ahead of the writes the same move is exact: for overlapping ranges the result
    depends on the buffer size and on when the memory answers. *)
Definition overlap_run (bufsize : N) : env * list tick_obs * N :=
  env_run (mk_env (dm_init bufsize 16 16 2 8 8) (pat 128 1) (pat 128 101) [] [])
          (mk_instant [mk_move 77 1 0 16 64 0 0] [] [] [] [] 1 2 2 :: repeat serve_all 60).

Theorem c23_same_side_overlap_refuted :
  (let '(e, obs, oc) := overlap_run 16 in
   oc = 0 /\ length (flat_map to_acks obs) = 1%nat /\
   mem_read (e_mem_in e) 16 64 <> mem_read (pat 128 1) 0 64 /\
   mem_read (e_mem_in e) 16 64 = mem_read (pat 128 1) 0 16 ++ mem_read (pat 128 1) 0 16 ++ mem_read (pat 128 1) 0 16 ++ mem_read (pat 128 1) 0 16) /\
  (let '(e, obs, oc) := overlap_run 64 in
   oc = 0 /\ length (flat_map to_acks obs) = 1%nat /\ mem_read (e_mem_in e) 16 64 = mem_read (pat 128 1) 0 64).
Proof. vm_compute. repeat split; discriminate. Qed.
Print Assumptions c23_same_side_overlap_refuted.

(** Setting for the universally quantified theorems: [env_run (mk_env (dm_init ...) mi mo [] []) script]
    is the data mover driven for any number of ticks by ANY script: any moves arrive at Top, the
    two memories serve the requests taken from the ports in any order and after any delay,
    arbitrary further responses (any kind, any RspTo, any data) may be injected on both ports,
    any number of messages is drained from each port.  [arrivals script obs] are the moves that
    entered the Top port, in order. *)

(** One acknowledgment per move, served one at a time in arrival order — for every script:
    the moves that arrived are exactly the acknowledged moves, followed by the one in
    progress (if any), followed by those still waiting in the Top buffer, in this order;
    every acknowledgment carries RspTo = the ID of the move it closes and goes to its requester;
    and the acknowledgments put on the Top port are exactly these, in order.  Hence the k-th
    acknowledgment answers the k-th arrived move, no move is acknowledged twice, and a move is
    started only after all earlier ones were acknowledged. *)
Theorem c23_serial_one_ack : forall b gi go tc ic oc mi mo script e obs out,
  env_run (mk_env (dm_init b gi go tc ic oc) mi mo [] []) script = (e, obs, out) ->
  let d := e_dm e in
  arrivals script obs = map snd (g_acks d) ++ (if d_active d then [d_req d] else []) ++ d_top_in d /\
  Forall (fun x => a_rspto (fst x) = v_id (snd x) /\ a_dst (fst x) = v_src (snd x)) (g_acks d) /\
  flat_map to_acks obs ++ d_top_out d = map fst (g_acks d).
Proof.
  intros b gi go tc ic oc mi mo script e obs out E.
  pose proof (env_run_ainv script [] [] (mk_env (dm_init b gi go tc ic oc) mi mo [] []) e obs out (ainv_init b gi go tc ic oc) E) as [A B C].
  cbn [app] in A, C. split; [exact A|split; [exact B|symmetry; exact C]].
Qed.
Print Assumptions c23_serial_one_ack.

(** Nothing outside the destination range is written — for every script in which every move
    has a ByteSize that is a multiple of the granularities of both of its sides (and ranges that
    do not wrap around 2^64), whatever the memories answer: every write request the data mover
    ever sends goes to the destination side of a move that arrived and lies entirely inside that
    move's destination range.  (The ghost [g_writes] is extended exactly where writeToDst puts
    the WriteReq on the port.)  The run never reaches the unbounded-growth outcome either. *)
Theorem c23_nothing_else_written : forall b gi go tc ic oc mi mo script e obs out,
  Forall (fun i => Forall (nice gi go) (i_top i)) script ->
  env_run (mk_env (dm_init b gi go tc ic oc) mi mo [] []) script = (e, obs, out) ->
  forall side addr data, In (side, addr, data) (g_writes (e_dm e)) ->
  exists v, In v (arrivals script obs) /\ side = v_dside v /\
            v_daddr v <= addr /\ addr + N.of_nat (length data) <= v_daddr v + v_size v.
Proof.
  intros b gi go tc ic oc mi mo script e obs out Hn E side addr data Hin.
  pose proof (env_run_ginv gi go script Hn (mk_env (dm_init b gi go tc ic oc) mi mo [] []) e obs out (ginv_init b gi go tc ic oc) E) as G.
  pose proof (env_run_ainv script [] [] (mk_env (dm_init b gi go tc ic oc) mi mo [] []) e obs out (ainv_init b gi go tc ic oc) E) as [A _ _]. cbn [app] in A.
  pose proof (proj1 (Forall_forall _ _) (g_w _ _ _ G) _ Hin) as [v [Hv Hr]].
  exists v. split; [|exact Hr].
  rewrite A. unfold moves_so_far in Hv. rewrite app_assoc. apply in_or_app. left. exact Hv.
Qed.
Print Assumptions c23_nothing_else_written.

(** Structure of a transfer (used by c23_copy_exact below): in every reachable state of a
    script whose sizes are multiples of the granularities the transfer in progress satisfies the
    structural invariant [sinv] (reads and writes advance in whole granules, never pass the end
    of the range, writes never pass reads, every valid chunk lies below the read cursor, every
    outstanding read has a free slot at or above the buffer offset), and an acknowledgment is
    only sent when the write cursor has reached exactly the end of the destination range and no
    read or write is outstanding. *)
Theorem c23_transfer_structure : forall b gi go tc ic oc mi mo script e obs out,
  Forall (fun i => Forall (nice gi go) (i_top i)) script ->
  env_run (mk_env (dm_init b gi go tc ic oc) mi mo [] []) script = (e, obs, out) ->
  let d := e_dm e in
  (d_active d = true -> sinv d) /\
  (d_active d = true -> fst (finish d) = true ->
     d_next_write d = v_daddr (d_req d) + v_size (d_req d) /\ d_pread d = [] /\ d_pwrite d = []).
Proof.
  intros b gi go tc ic oc mi mo script e obs out Hn E d.
  pose proof (env_run_ginv gi go script Hn (mk_env (dm_init b gi go tc ic oc) mi mo [] []) e obs out (ginv_init b gi go tc ic oc) E) as G.
  split; [apply (g_s _ _ _ G)|].
  intros Act F. pose proof (g_s _ _ _ G Act) as S. fold d in S.
  destruct S as [gs gd ms md ws wd sal sside [rd1 [rd2 rd3]] [wr1 [wr2 wr3]] bg bo ch pr pn].
  unfold finish in F. rewrite Act in F. cbn [negb] in F.
  rewrite (w64_small _ wd) in F.
  destruct (d_next_write d <? v_daddr (d_req d) + v_size (d_req d)) eqn:Lt; [discriminate|].
  destruct (d_pread d) as [|x r]; [|discriminate]. destruct (d_pwrite d) as [|y r']; [|discriminate].
  split; [|split; reflexivity]. lia.
Qed.
Print Assumptions c23_transfer_structure.

(** Copy exact.  Setting: any script whose instants satisfy [inst_ok]: every move has a ByteSize
    that is a multiple of both granularities and ranges inside the memories, and goes from one
    side to the other or, inside one side, between two ranges that do not overlap; the environment hypothesis is explicit in the model of the environment and
    in [inst_ok]: the two memories answer exactly the requests they were sent (no injected
    responses), a read with the memory's current content, a write by storing it, each request
    once, in ANY order and after ANY delay, and nobody but the data mover's own requests changes
    the memories.  (Buffer sizes smaller than a granularity only prevent the acknowledgment,
    F-C23-2; the statement is about acknowledged moves.)
    Take any reachable state [e] (the result of any such script) and any further instant [i]:
    if that instant sends the acknowledgment of a move [v], then in the resulting state — whose
    memories are the ones at the tick of the acknowledgment, also recorded in the observation —
    the destination range of [v] holds exactly the bytes of the source range of [v]. *)
Theorem c23_copy_exact : forall b gi go tc ic oc mi mo script i e obs out e' ob,
  Forall (inst_ok gi go (length mi) (length mo)) (script ++ [i]) ->
  env_run (mk_env (dm_init b gi go tc ic oc) mi mo [] []) script = (e, obs, out) ->
  env_step e i = Ret (e', ob) ->
  forall a v, g_acks (e_dm e') = g_acks (e_dm e) ++ [(a, v)] ->
    mem_read (pick (v_dside v) (e_mem_in e') (e_mem_out e')) (v_daddr v) (v_size v) =
    mem_read (pick (v_sside v) (e_mem_in e') (e_mem_out e')) (v_saddr v) (v_size v) /\
    to_snap ob = Some (e_mem_in e', e_mem_out e').
Proof.
  intros b gi go tc ic oc mi mo script i e obs out e' ob Hs R St.
  apply Forall_app in Hs. destruct Hs as [Hs Hi]. inversion Hi as [|? ? Hi' _]; subst.
  pose proof (env_run_einv gi go _ _ script Hs _ e obs out (einv_init b gi go tc ic oc mi mo) R) as E.
  destruct (env_step_einv gi go _ _ e i e' ob E Hi' St) as [_ [_ C]]. exact C.
Qed.
Print Assumptions c23_copy_exact.

(** ... and these are the bytes the source range held when the move was accepted: while a move
    [v] is in progress no instant changes the bytes of its source range (the data mover sends
    writes only into the destination range, which is on the other side or disjoint from the
    source range, and no write of an earlier move is still on its way), so the source range at
    the acknowledgment is the source range at acceptance. *)
Theorem c23_source_stable : forall b gi go tc ic oc mi mo script i e obs out e' ob,
  Forall (inst_ok gi go (length mi) (length mo)) (script ++ [i]) ->
  env_run (mk_env (dm_init b gi go tc ic oc) mi mo [] []) script = (e, obs, out) ->
  env_step e i = Ret (e', ob) ->
  d_active (e_dm e) = true ->
  let v := d_req (e_dm e) in
  mem_read (pick (v_sside v) (e_mem_in e') (e_mem_out e')) (v_saddr v) (v_size v) =
  mem_read (pick (v_sside v) (e_mem_in e) (e_mem_out e)) (v_saddr v) (v_size v).
Proof.
  intros b gi go tc ic oc mi mo script i e obs out e' ob Hs R St Act v.
  apply Forall_app in Hs. destruct Hs as [Hs Hi]. inversion Hi as [|? ? Hi' _]; subst.
  pose proof (env_run_einv gi go _ _ script Hs _ e obs out (einv_init b gi go tc ic oc mi mo) R) as E.
  destruct (env_step_einv gi go _ _ e i e' ob E Hi' St) as [_ [M _]].
  unfold v. rewrite <- (e_s _ _ _ _ _ E Act). apply (M Act).
Qed.
Print Assumptions c23_source_stable.

(** The domain of c23_copy_exact is exactly the complement of the three known findings.
    [accepted]: what parseFromCP and the memories require of a move (known sides, aligned
    addresses, ranges inside the memories).  [in_domain]: the hypothesis of the theorem.  The three
    classifiers are the shapes of F-C23-1 (size not a multiple of a granularity), F-C23-2 (buffer
    smaller than a granularity: the move may never be acknowledged, so the theorem, which speaks
    about acknowledged moves, says nothing) and F-C23-3 (same side, overlapping ranges). *)
Definition gran_s (gi go s : N) : N := if s =? 0 then gi else go.

Definition accepted (gi go : N) (li lo : nat) (v : move) : Prop :=
  v_sside v <= 1 /\ v_dside v <= 1 /\ 0 < gran_s gi go (v_sside v) /\ 0 < gran_s gi go (v_dside v) /\
  v_saddr v + v_size v <= N.of_nat (pick (v_sside v) li lo) /\ v_daddr v + v_size v <= N.of_nat (pick (v_dside v) li lo) /\
  v_saddr v + v_size v < two64 /\ v_daddr v + v_size v < two64.

Definition in_domain (b gi go : N) (li lo : nat) (v : move) : Prop :=
  nice gi go v /\ gmove li lo v /\ gran_s gi go (v_sside v) <= b /\ gran_s gi go (v_dside v) <= b.

Definition cls_size (gi go : N) (v : move) : bool :=
  negb (v_size v mod gran_s gi go (v_sside v) =? 0) || negb (v_size v mod gran_s gi go (v_dside v) =? 0).
Definition cls_buffer (b gi go : N) (v : move) : bool :=
  (b <? gran_s gi go (v_sside v)) || (b <? gran_s gi go (v_dside v)).
Definition cls_overlap (v : move) : bool :=
  (v_sside v =? v_dside v) && (0 <? v_size v) && (v_saddr v <? v_daddr v + v_size v) && (v_daddr v <? v_saddr v + v_size v).

Theorem c23_domain_is_complement_of_findings : forall b gi go li lo v, accepted gi go li lo v ->
  (in_domain b gi go li lo v <->
   cls_size gi go v = false /\ cls_buffer b gi go v = false /\ cls_overlap v = false).
Proof.
  intros b gi go li lo v (A1 & A2 & A3 & A4 & A5 & A6 & A7 & A8).
  unfold in_domain, nice, gmove, cls_size, cls_buffer, cls_overlap. fold (gran_s gi go (v_sside v)) (gran_s gi go (v_dside v)).
  rewrite !orb_false_iff, !negb_false_iff, !N.eqb_eq, !N.ltb_ge.
  split.
  - intros [[N1 [N2 _]] [[G1 _] [B1 B2]]]. split; [tauto|split; [tauto|]].
    destruct (v_sside v =? v_dside v) eqn:E; [|reflexivity]. cbn [andb].
    destruct (0 <? v_size v) eqn:Z; [|reflexivity]. cbn [andb].
    destruct G1 as [G1|[G1|G1]]; [lia| |].
    + assert (v_saddr v <? v_daddr v + v_size v = true -> v_daddr v <? v_saddr v + v_size v = false) by lia.
      destruct (v_saddr v <? v_daddr v + v_size v); [rewrite H by reflexivity; reflexivity|reflexivity].
    + assert (v_saddr v <? v_daddr v + v_size v = false) as -> by lia. reflexivity.
  - intros [[N1 N2] [[B1 B2] O]]. split; [tauto|split; [|tauto]]. split; [|tauto].
    destruct (v_sside v =? v_dside v) eqn:E; [|left; lia]. right. cbn [andb] in O.
    destruct (0 <? v_size v) eqn:Z; cbn [andb] in O; [|lia].
    destruct (v_saddr v <? v_daddr v + v_size v) eqn:L1; cbn [andb] in O; lia.
Qed.
Print Assumptions c23_domain_is_complement_of_findings.

(** the copy theorem with its hypothesis in that form *)
Definition inst_dom (b gi go : N) (li lo : nat) (i : instant) : Prop :=
  Forall (in_domain b gi go li lo) (i_top i) /\ i_stray_in i = [] /\ i_stray_out i = [].

Lemma inst_dom_ok b gi go li lo i : inst_dom b gi go li lo i -> inst_ok gi go li lo i.
Proof.
  intros [F [S1 S2]]. split; [|split; [|split; assumption]].
  - eapply Forall_impl; [|exact F]. intros v [H _]. exact H.
  - eapply Forall_impl; [|exact F]. intros v [_ [H _]]. exact H.
Qed.

Theorem c23_copy_exact_in_domain : forall b gi go tc ic oc mi mo script i e obs out e' ob,
  Forall (inst_dom b gi go (length mi) (length mo)) (script ++ [i]) ->
  env_run (mk_env (dm_init b gi go tc ic oc) mi mo [] []) script = (e, obs, out) ->
  env_step e i = Ret (e', ob) ->
  forall a v, g_acks (e_dm e') = g_acks (e_dm e) ++ [(a, v)] ->
    mem_read (pick (v_dside v) (e_mem_in e') (e_mem_out e')) (v_daddr v) (v_size v) =
    mem_read (pick (v_sside v) (e_mem_in e') (e_mem_out e')) (v_saddr v) (v_size v) /\
    to_snap ob = Some (e_mem_in e', e_mem_out e').
Proof.
  intros b gi go tc ic oc mi mo script i e obs out e' ob Hs. apply c23_copy_exact.
  eapply Forall_impl; [|exact Hs]. intros x. apply inst_dom_ok.
Qed.
Print Assumptions c23_copy_exact_in_domain.

(** Link to the implementation: when the correspondence check succeeds on a run case, the
    acknowledgments OBSERVED on the real data mover's Top port (ro_ticks c) are, in order, the
    acknowledgments of the moves that arrived, in arrival order, each with the ID and requester
    of its move; and (when all sizes are multiples of the granularities) every write request the
    real component sent stays inside the destination range of an arrived move. *)
From Akita Require Import C23.Link.
Theorem c23_model_agreement_implies_property : forall c, check_case (CRun c) = true ->
  exists e,
    let d := e_dm e in
    arrivals (rc_script c) (ro_ticks c) = map snd (g_acks d) ++ (if d_active d then [d_req d] else []) ++ d_top_in d /\
    Forall (fun x => a_rspto (fst x) = v_id (snd x) /\ a_dst (fst x) = v_src (snd x)) (g_acks d) /\
    flat_map to_acks (ro_ticks c) ++ d_top_out d = map fst (g_acks d) /\
    (Forall (fun i => Forall (nice (rc_gin c) (rc_gout c)) (i_top i)) (rc_script c) ->
     forall side addr data, In (side, addr, data) (g_writes d) ->
     exists v, In v (arrivals (rc_script c) (ro_ticks c)) /\ side = v_dside v /\
               v_daddr v <= addr /\ addr + N.of_nat (length data) <= v_daddr v + v_size v).
Proof.
  intros c H. destruct (check_run_obs c H) as [e E]. exists e. unfold init_env in E.
  destruct (c23_serial_one_ack _ _ _ _ _ _ _ _ _ _ _ _ E) as [A [B C]].
  split; [exact A|split; [exact B|split; [exact C|]]].
  intros Hn. apply (c23_nothing_else_written _ _ _ _ _ _ _ _ _ _ _ _ Hn E).
Qed.
Print Assumptions c23_model_agreement_implies_property.

(** Non-vacuity and an instance of the full statement: two moves (inside->outside 64 bytes at
    granularities 16/32, then outside->inside 32 bytes), memories answering youngest-first with
    delays; both acknowledged in order and the final memories are exactly the two copies. *)
Definition lifo : instant := mk_instant [] [3; 2; 1; 0]%nat [3; 2; 1; 0]%nat [] [] 1 2 2.
Definition demo_moves : list move := [mk_move 7 2 16 32 64 0 1; mk_move 9 1 64 0 32 1 0].
Definition demo_run : env * list tick_obs * N :=
  env_run (mk_env (dm_init 64 16 32 2 3 3) (pat 128 1) (pat 128 101) [] [])
          (mk_instant demo_moves [] [] [] [] 0 1 1 :: repeat lifo 60).

Example c23_nonvacuous_inst_ok :
  Forall (inst_ok 16 32 128 128) (mk_instant demo_moves [] [] [] [] 0 1 1 :: repeat lifo 60).
Proof.
  constructor.
  - unfold inst_ok, demo_moves. cbn [i_top i_stray_in i_stray_out]. repeat split;
      repeat (constructor; [unfold nice, gmove, pick; cbn; repeat split; try lia; discriminate|]); constructor.
  - apply Forall_forall. intros x Hx. apply repeat_spec in Hx. subst x. unfold inst_ok, lifo. cbn. repeat split; constructor.
Qed.

Example c23_nonvacuous :
  Forall (nice 16 32) demo_moves /\
  let '(e, obs, oc) := demo_run in
  oc = 0 /\ map (fun a => (a_dst a, a_rspto a)) (flat_map to_acks obs) = [(2, 7); (1, 9)] /\
  let mo1 := mem_write (pat 128 101) 32 (mem_read (pat 128 1) 16 64) in
  e_mem_out e = mo1 /\ e_mem_in e = mem_write (pat 128 1) 0 (mem_read mo1 64 32).
Proof.
  split.
  - repeat constructor; vm_compute; reflexivity.
  - vm_compute. repeat split.
Qed.

(** Non-vacuity of the same-side case: a move inside one memory between two disjoint ranges
    (0..31 -> 64..95, granularity 16, buffer of one granule), the memory answering youngest
    first; the instants are in the domain and the copy is exact while the source range is intact. *)
Definition same_side_script : list instant :=
  mk_instant [mk_move 7 2 0 64 32 0 0] [] [] [] [] 0 1 1 :: repeat lifo 40.

Example c23_nonvacuous_same_side :
  Forall (inst_dom 16 16 16 128 128) same_side_script /\
  let '(e, obs, oc) := env_run (mk_env (dm_init 16 16 16 2 3 3) (pat 128 1) (pat 128 101) [] []) same_side_script in
  oc = 0 /\ length (flat_map to_acks obs) = 1%nat /\
  mem_read (e_mem_in e) 64 32 = mem_read (pat 128 1) 0 32 /\ mem_read (e_mem_in e) 0 32 = mem_read (pat 128 1) 0 32.
Proof.
  split.
  - constructor.
    + unfold inst_dom. cbn [i_top i_stray_in i_stray_out]. split; [|split; reflexivity].
      constructor; [|constructor]. unfold in_domain, nice, gmove, gran_s, pick. cbn. repeat split; try lia; try (right; left; lia).
    + apply Forall_forall. intros x Hx. apply repeat_spec in Hx. subst x. unfold inst_dom, lifo. cbn. repeat split; constructor.
  - vm_compute. repeat split.
Qed.
