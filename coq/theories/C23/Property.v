(** C23 — data movers copy exactly the requested range.  Property theorems only. *)
From Akita Require Import Lib.Base C23.Model C23.Exec.
Local Open Scope N_scope.

(** The full statement is false of the code when ByteSize is not a multiple of the
    granularities (confirmed on the real component, known finding F-C23-1):
    100 bytes at 64/64 — the second 64-byte write overwrites destination bytes 100..127;
    100 bytes with a 256-byte destination granularity — never acknowledged.
    The environment serves every request immediately and drains every port. *)
Definition pat (n : nat) (seed : N) : list N := map (fun i => (N.of_nat i * 3 + seed) mod 256) (seq 0 n).

Definition serve_all : instant := mk_instant [] [0; 0; 0; 0]%nat [0; 0; 0; 0]%nat [] [] 4 8 8.

Definition unaligned_run (gin gout bufsize size : N) (n : nat) : env * list tick_obs * N :=
  env_run (mk_env (dm_init bufsize gin gout 2 8 8) (pat 512 1) (pat 512 101) [] [])
          (mk_instant [mk_move 77 1 0 256 size 0 1] [] [] [] [] 1 2 2 :: repeat serve_all n).

Theorem c23_unaligned_size_refuted :
  (* 100 B, granularities 64/64: acknowledged, but bytes outside [256, 356) of the destination changed *)
  (let '(e, obs, oc) := unaligned_run 64 64 128 100 40 in
   oc = 0 /\ length (flat_map to_acks obs) = 1%nat /\
   mem_read (e_mem_out e) 256 100 = mem_read (pat 512 1) 0 100 /\
   mem_read (e_mem_out e) 356 28 = mem_read (pat 512 1) 100 28 /\
   mem_read (e_mem_out e) 356 28 <> mem_read (pat 512 101) 356 28) /\
  (* 100 B, granularities 64/256: no acknowledgment in 200 fully served ticks, transaction still active *)
  (let '(e, obs, oc) := unaligned_run 64 256 512 100 200 in
   oc = 0 /\ flat_map to_acks obs = [] /\ d_active (e_dm e) = true /\ d_pread (e_dm e) = [] /\ d_pwrite (e_dm e) = []).
Proof. vm_compute. repeat split; discriminate. Qed.
Print Assumptions c23_unaligned_size_refuted.
