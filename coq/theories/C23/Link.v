(** C23 — link between the correspondence check and the theorems. *)
From Akita Require Import Lib.Base C23.Model C23.Exec.
Local Open Scope N_scope.

Lemma data_eqb_eq a b : data_eqb a b = true <-> a = b.
Proof. apply listN_eqb_eq. Qed.

Lemma ack_eqb_eq a b : ack_eqb a b = true <-> a = b.
Proof.
  destruct a as [a1 a2 a3], b as [b1 b2 b3]. unfold ack_eqb. cbn [a_id a_dst a_rspto].
  rewrite !andb_true_iff, !N.eqb_eq. split.
  - intros [[-> ->] ->]. reflexivity.
  - intro H. inversion H. tauto.
Qed.

Lemma mreq_eqb_eq a b : mreq_eqb a b = true <-> a = b.
Proof.
  destruct a as [i1 a1 n1|i1 a1 x1], b as [i2 a2 n2|i2 a2 x2]; cbn [mreq_eqb];
    try (split; [discriminate|intro H; inversion H]).
  - rewrite !andb_true_iff, !N.eqb_eq. split; [intros [[-> ->] ->]; reflexivity|intro H; inversion H; tauto].
  - rewrite !andb_true_iff, !N.eqb_eq, data_eqb_eq. split; [intros [[-> ->] ->]; reflexivity|intro H; inversion H; tauto].
Qed.

Lemma snap_eqb_eq (a b : option (list N * list N)) :
  opt_eqb (fun x y => data_eqb (fst x) (fst y) && data_eqb (snd x) (snd y)) a b = true <-> a = b.
Proof.
  destruct a as [[a1 a2]|], b as [[b1 b2]|]; cbn [opt_eqb fst snd]; try (split; [discriminate|intro H; inversion H]).
  - rewrite andb_true_iff, !data_eqb_eq. split; [intros [-> ->]; reflexivity|intro H; inversion H; tauto].
  - tauto.
Qed.

Lemma tobs_eqb_eq a b : tobs_eqb a b = true <-> a = b.
Proof.
  destruct a as [a1 a2 a3 a4 a5 a6 a7], b as [b1 b2 b3 b4 b5 b6 b7]. unfold tobs_eqb.
  cbn [to_progress to_acks to_in to_out to_active to_ntop to_snap].
  rewrite !andb_true_iff, !Bool.eqb_true_iff, (list_eqb_eq ack_eqb ack_eqb_eq), !(list_eqb_eq mreq_eqb mreq_eqb_eq),
    Nat.eqb_eq, snap_eqb_eq.
  split.
  - intros [[[[[[-> ->] ->] ->] ->] ->] ->]. reflexivity.
  - intro H. inversion H. tauto.
Qed.

Lemma check_run_obs c : check_case (CRun c) = true ->
  exists e, env_run (init_env c) (rc_script c) = (e, ro_ticks c, ro_outcome c).
Proof.
  cbn [check_case]. destruct (env_run (init_env c) (rc_script c)) as [[e obs] oc].
  rewrite !andb_true_iff, N.eqb_eq. intros [[[H1 H2] _] _].
  apply (list_eqb_eq tobs_eqb tobs_eqb_eq) in H2. subst. exists e. reflexivity.
Qed.
