(** C23 — proofs, part 8: the write-range invariant through scripted runs. *)
From Akita Require Import Lib.Base C23.Model C23.Proofs C23.Proofs2 C23.Proofs3 C23.Proofs4 C23.Proofs5 C23.Proofs6 C23.Proofs7.
Local Open Scope N_scope.
Local Ltac Zify.zify_post_hook ::= idtac.

Definition same_core (d' d : dm) : Prop :=
  sview d' = sview d /\ g_writes d' = g_writes d /\ g_acks d' = g_acks d /\ d_active d' = d_active d /\
  d_gin d' = d_gin d /\ d_gout d' = d_gout d.

Lemma same_core_refl d : same_core d d.
Proof. repeat split. Qed.

Lemma ginv_core gin gout d d' : same_core d' d -> Forall (nice gin gout) (d_top_in d') -> ginv gin gout d -> ginv gin gout d'.
Proof.
  intros (E1 & E2 & E3 & E4 & E5 & E6). intros Nc [W S Gi Go _].
  assert (MS : moves_so_far d' = moves_so_far d).
  { unfold moves_so_far. rewrite E3, E4. unfold sview in E1. inversion E1. congruence. }
  constructor; [apply (winv_same d d' E2 MS W)|rewrite E4; intro A; apply (sinv_view d d' E1 (S A))|congruence|congruence|exact Nc].
Qed.

Lemma deliver_top_ginv gin gout vs : Forall (nice gin gout) vs -> forall d, ginv gin gout d -> ginv gin gout (deliver_top d vs).
Proof.
  unfold deliver_top. induction vs as [|v r IH]; intros Hn d G; cbn [fold_left]; [exact G|].
  inversion Hn as [|? ? Hv Hr]; subst.
  destruct (N.of_nat (length (d_top_in d)) <? d_top_cap d); [|apply IH; assumption].
  apply IH; [exact Hr|]. apply (ginv_core gin gout d); [repeat split| |exact G].
  cbn [d_top_in]. apply Forall_app. split; [apply (g_nice _ _ _ G)|constructor; [exact Hv|constructor]].
Qed.

Lemma serve_core side e k : same_core (e_dm (serve side e k)) (e_dm e) /\ d_top_in (e_dm (serve side e k)) = d_top_in (e_dm e).
Proof.
  unfold serve.
  destruct (nth_error (if side =? 0 then e_pend_in e else e_pend_out e) k) as [rq|]; [|split; [apply same_core_refl|reflexivity]].
  destruct (N.of_nat (length (p_in (if side =? 0 then d_inside (e_dm e) else d_outside (e_dm e)))) <?
            p_cap (if side =? 0 then d_inside (e_dm e) else d_outside (e_dm e))); [|split; [apply same_core_refl|reflexivity]].
  destruct rq; destruct (side =? 0); split; try reflexivity; repeat split.
Qed.

Lemma stray_core side e x : same_core (e_dm (stray side e x)) (e_dm e) /\ d_top_in (e_dm (stray side e x)) = d_top_in (e_dm e).
Proof.
  unfold stray.
  destruct (N.of_nat (length (p_in (if side =? 0 then d_inside (e_dm e) else d_outside (e_dm e)))) <?
            p_cap (if side =? 0 then d_inside (e_dm e) else d_outside (e_dm e))); split; try reflexivity; repeat split.
Qed.

Lemma fold_ginv {A} gin gout (f : env -> A -> env) (l : list A) :
  (forall e x, same_core (e_dm (f e x)) (e_dm e) /\ d_top_in (e_dm (f e x)) = d_top_in (e_dm e)) ->
  forall e, ginv gin gout (e_dm e) -> ginv gin gout (e_dm (fold_left f l e)).
Proof.
  intro H. induction l as [|x r IH]; intros e G; cbn [fold_left]; [exact G|].
  apply IH. destruct (H e x) as [C T]. apply (ginv_core gin gout (e_dm e)); [exact C|rewrite T; apply (g_nice _ _ _ G)|exact G].
Qed.

Lemma env_step_ginv gin gout e i e' ob : Forall (nice gin gout) (i_top i) -> ginv gin gout (e_dm e) ->
  env_step e i = Ret (e', ob) -> ginv gin gout (e_dm e').
Proof.
  intros Hn G. unfold env_step.
  pose proof (deliver_top_ginv gin gout (i_top i) Hn (e_dm e) G) as G0.
  set (d0 := deliver_top (e_dm e) (i_top i)) in *.
  set (e1 := fold_left (serve 0) (i_serve_in i) (mk_env d0 (e_mem_in e) (e_mem_out e) (e_pend_in e) (e_pend_out e))).
  set (e2a := fold_left (serve 1) (i_serve_out i) e1).
  set (e2 := fold_left (stray 1) (i_stray_out i) (fold_left (stray 0) (i_stray_in i) e2a)).
  assert (G2 : ginv gin gout (e_dm e2)).
  { unfold e2. apply (fold_ginv gin gout (stray 1) _ (stray_core 1)). apply (fold_ginv gin gout (stray 0) _ (stray_core 0)).
    unfold e2a. apply (fold_ginv gin gout (serve 1) _ (serve_core 1)). unfold e1. apply (fold_ginv gin gout (serve 0) _ (serve_core 0)).
    exact G0. }
  destruct (tick (e_dm e2)) as [[p d1]| |] eqn:T; cbn [bind]; try discriminate.
  pose proof (tick_ginv gin gout _ _ _ G2 T) as G1.
  intro E. injection E as <- <-. cbn [e_dm].
  apply (ginv_core gin gout d1); [repeat split|cbn [d_top_in]; apply (g_nice _ _ _ G1)|exact G1].
Qed.

Lemma env_run_ginv gin gout s : Forall (fun i => Forall (nice gin gout) (i_top i)) s ->
  forall e e' obs oc, ginv gin gout (e_dm e) -> env_run e s = (e', obs, oc) -> ginv gin gout (e_dm e').
Proof.
  induction s as [|i rest IH]; intros Hn e e' obs oc G; cbn [env_run].
  - intro E. injection E as <- <- <-. exact G.
  - inversion Hn as [|? ? Hi Hr]; subst.
    destruct (env_step e i) as [[e1 ob]| |] eqn:ES.
    + destruct (env_run e1 rest) as [[e2 obs2] oc2] eqn:ER. intro E. injection E as <- <- <-.
      apply (IH Hr e1 e2 obs2 oc2 (env_step_ginv gin gout e i e1 ob Hi G ES) ER).
    + intro E. injection E as <- <- <-. exact G.
    + intro E. injection E as <- <- <-. exact G.
Qed.

Lemma ginv_init b gi go tc ic oc : ginv gi go (dm_init b gi go tc ic oc).
Proof.
  constructor; cbn.
  - unfold winv. cbn. constructor.
  - discriminate.
  - reflexivity.
  - reflexivity.
  - constructor.
Qed.
