(** C23 — proofs, part 7: the write-range invariant through finishTransaction, parseFromCP,
    Tick and scripted runs. *)
From Akita Require Import Lib.Base C23.Model C23.Proofs C23.Proofs2 C23.Proofs3 C23.Proofs4 C23.Proofs5 C23.Proofs6.
Local Open Scope N_scope.
Local Ltac Zify.zify_post_hook ::= idtac.

Record ginv (gin gout : N) (d : dm) : Prop := mk_ginv {
  g_w : winv d;
  g_s : d_active d = true -> sinv d;
  g_gi : d_gin d = gin; g_go : d_gout d = gout;
  g_nice : Forall (nice gin gout) (d_top_in d) }.

Definition cfg (d : dm) := (d_gin d, d_gout d, d_top_in d).

Lemma ginv_keeps gin gout d d' : ginv gin gout d -> d_active d = true -> keeps d d' -> cfg d' = cfg d -> ginv gin gout d'.
Proof.
  intros [W S Gi Go Nc] Act [S' [W' [A' M']]] C. unfold cfg in C. inversion C as [[C1 C2 C3]].
  constructor; [exact W'|intros _; exact S'|congruence|congruence|rewrite C3; exact Nc].
Qed.

Lemma finish_ginv gin gout d : ginv gin gout d -> ginv gin gout (snd (finish d)).
Proof.
  intros G. pose proof G as [W S Gi Go Nc]. unfold finish.
  destruct (d_active d) eqn:Act; cbn [negb snd]; [|exact G].
  destruct (d_next_write d <? w64 (v_daddr (d_req d) + v_size (d_req d))); [exact G|].
  destruct (negb ((length (d_pread d) =? 0)%nat && (length (d_pwrite d) =? 0)%nat)); [exact G|].
  destruct (N.of_nat (length (d_top_out d)) <? d_top_cap d); cbn [snd].
  - constructor; cbn [d_active d_gin d_gout d_top_in]; try assumption; [|discriminate].
    apply (winv_same d); [reflexivity| |exact W].
    unfold moves_so_far. cbn [g_acks d_active d_req]. rewrite Act, map_app. cbn [map snd]. rewrite app_nil_r. reflexivity.
  - apply (ginv_keeps gin gout d); [exact G|exact Act| |reflexivity].
    apply keeps_view; auto; unfold sview, upd; cbn; rewrite ?Act; reflexivity.
Qed.

Lemma gran_of_nice gin gout d s g : d_gin d = gin -> d_gout d = gout -> gran_of d s = Some g ->
  g = (if s =? 0 then gin else gout).
Proof.
  intros <- <-. unfold gran_of. destruct (s =? 0); [intro H; inversion H; reflexivity|].
  destruct (s =? 1); [intro H; inversion H; reflexivity|discriminate].
Qed.

Lemma parse_cp_ginv gin gout d p d' : ginv gin gout d -> parse_cp d = Ret (p, d') -> ginv gin gout d'.
Proof.
  intros G. pose proof G as [W S Gi Go Nc]. unfold parse_cp.
  destruct (d_active d) eqn:Act. { intro E. injection E as <- <-. exact G. }
  destruct (d_top_in d) as [|v rest] eqn:T. { intro E. injection E as <- <-. exact G. }
  destruct (gran_of d (v_sside v)) as [sg|] eqn:Gs; [|discriminate].
  destruct (gran_of d (v_dside v)) as [dg|] eqn:Gd; [|discriminate].
  destruct ((sg =? 0) || negb (v_saddr v mod sg =? 0)) eqn:C1; [discriminate|].
  destruct ((dg =? 0) || negb (v_daddr v mod dg =? 0)) eqn:C2; [discriminate|].
  intro E. injection E as <- <-.
  apply Forall_cons_iff in Nc. destruct Nc as [Nv Nr].
  destruct Nv as [N1 [N2 [N3 N4]]].
  rewrite <- (gran_of_nice gin gout d _ sg Gi Go Gs) in N1. rewrite <- (gran_of_nice gin gout d _ dg Gi Go Gd) in N2.
  assert (Hsg : 0 < sg) by (clear - C1; lia). assert (Hdg : 0 < dg) by (clear - C2; lia).
  constructor; cbn [d_active d_gin d_gout d_top_in]; try assumption.
  - unfold winv in *. cbn [g_writes]. eapply Forall_impl; [|exact W].
    intros x [v0 [Hv0 Hr]]. exists v0. split; [|exact Hr].
    unfold moves_so_far in *. cbn [g_acks d_active d_req]. rewrite Act in Hv0. rewrite app_nil_r in Hv0.
    apply in_or_app. left. exact Hv0.
  - intros _. constructor; cbn [d_sg d_dg d_req d_dside d_next_read d_next_write d_pread d_buf b_gran b_off b_chunks]; try assumption.
    + clear - C1 Hsg. lia.
    + reflexivity.
    + rewrite N.sub_diag. split; [apply N.le_refl|split; [apply N.mod_0_l; clear - Hsg; lia|apply N.le_0_l]].
    + rewrite !N.sub_diag. split; [apply N.le_refl|split; [apply N.mod_0_l; clear - Hdg; lia|apply N.le_refl]].
    + reflexivity.
    + rewrite N.sub_diag, N.div_0_l by (clear - Hsg; lia). reflexivity.
    + intros [|i] c Hi; discriminate.
    + intros id a [].
    + constructor.
Qed.

Lemma tick_ginv gin gout d p d' : ginv gin gout d -> tick d = Ret (p, d') -> ginv gin gout d'.
Proof.
  intros G. unfold tick.
  pose proof (finish_ginv gin gout d G) as G1. destruct (finish d) as [p1 d1]. cbn [snd] in G1.
  destruct (parse_cp d1) as [[p2 d2]| |] eqn:P; cbn [bind]; try discriminate.
  pose proof (parse_cp_ginv gin gout d1 p2 d2 G1 P) as G2.
  destruct (d_active d2) eqn:Act.
  - pose proof (proc_write_done_sinv d2 Act (g_s _ _ _ G2 Act) (g_w _ _ _ G2)) as K3.
    pose proof (proc_write_done_ctl d2 Act) as C3.
    assert (F3 : cfg (snd (proc_write_done d2)) = cfg d2).
    { unfold proc_write_done. rewrite Act. cbn [negb]. destruct (side_port d2 (d_dside d2)) as [q|]; [|reflexivity].
      destruct (p_in q) as [|[r x|r] rest]; [reflexivity| |].
      - destruct (negb (d_sside d2 =? d_dside d2)); reflexivity.
      - destruct (aget r (d_pwrite d2)); reflexivity. }
    destruct (proc_write_done d2) as [p3 d3]. cbn [snd] in K3, C3, F3.
    pose proof (ginv_keeps gin gout d2 d3 G2 Act K3 F3) as G3.
    assert (A3 : d_active d3 = true) by apply K3.
    destruct (write_dst d3) as [[p4 d4]| |] eqn:Wd; cbn [bind]; try discriminate.
    pose proof (write_dst_sinv d3 p4 d4 A3 (g_s _ _ _ G3 A3) (g_w _ _ _ G3) Wd) as K4.
    assert (F4 : cfg d4 = cfg d3).
    { pose proof (write_dst_ctl d3 p4 d4 A3 Wd) as C. unfold ctl in C. inversion C.
      revert Wd. unfold write_dst. rewrite A3. cbn [negb].
      destruct (buf_extract (d_buf d3) (sub64 (d_next_write d3) (v_daddr (d_req d3))) (d_dg d3)) as [[data|]| |]; try discriminate.
      2:{ intro E. injection E as <- <-. reflexivity. }
      destruct (side_port d3 (d_dside d3)) as [q|]; [|discriminate].
      destruct (can_send q).
      - destruct (buf_move (d_buf d3) (sub64 (w64 (d_next_write d3 + d_dg d3)) (v_daddr (d_req d3)))); try discriminate.
        intro E. injection E as <- <-. reflexivity.
      - intro E. injection E as <- <-. reflexivity. }
    pose proof (ginv_keeps gin gout d3 d4 G3 A3 K4 F4) as G4.
    assert (A4 : d_active d4 = true) by apply K4.
    destruct (proc_data_ready d4) as [[p5 d5]| |] eqn:Rd; cbn [bind]; try discriminate.
    pose proof (proc_data_ready_sinv d4 p5 d5 A4 (g_s _ _ _ G4 A4) (g_w _ _ _ G4) Rd) as K5.
    assert (F5 : cfg d5 = cfg d4).
    { revert Rd. unfold proc_data_ready. rewrite A4. cbn [negb].
      destruct (side_port d4 (d_sside d4)) as [q|]; [|discriminate].
      destruct (p_in q) as [|[r x|r] rest].
      - intro E. injection E as <- <-. reflexivity.
      - destruct (aget r (d_pread d4)).
        + destruct (buf_add (d_buf d4) (sub64 n (v_saddr (d_req d4))) x); try discriminate.
          intro E. injection E as <- <-. reflexivity.
        + intro E. injection E as <- <-. reflexivity.
      - destruct (negb (d_sside d4 =? d_dside d4)); intro E; injection E as <- <-; reflexivity. }
    pose proof (ginv_keeps gin gout d4 d5 G4 A4 K5 F5) as G5.
    assert (A5 : d_active d5 = true) by apply K5.
    destruct (read_src d5) as [[p6 d6]| |] eqn:Rs; cbn [bind]; try discriminate.
    pose proof (read_src_sinv d5 p6 d6 A5 (g_s _ _ _ G5 A5) (g_w _ _ _ G5) Rs) as K6.
    assert (F6 : cfg d6 = cfg d5).
    { revert Rs. unfold read_src. rewrite A5. cbn [negb].
      destruct (d_sg d5 =? 0); [discriminate|]. cbv zeta.
      destruct (w64 (b_off (d_buf d5) + d_bufsize d5) <=? sub64 (d_next_read d5 / d_sg d5 * d_sg d5) (v_saddr (d_req d5))).
      { intro E. injection E as <- <-. reflexivity. }
      destruct (w64 (v_saddr (d_req d5) + v_size (d_req d5)) <=? d_next_read d5 / d_sg d5 * d_sg d5).
      { intro E. injection E as <- <-. reflexivity. }
      destruct (side_port d5 (d_sside d5)) as [q|]; [|discriminate].
      destruct (can_send q); intro E; injection E as <- <-; reflexivity. }
    intro E. injection E as <- <-. apply (ginv_keeps gin gout d5 d6 G5 A5 K6 F6).
  - destruct (transfer_inactive d2 Act) as [T1 [T2 [T3 T4]]].
    rewrite T1, T2. cbn [bind]. rewrite T3. cbn [bind]. rewrite T4. cbn [bind].
    intro E. injection E as <- <-. exact G2.
Qed.
