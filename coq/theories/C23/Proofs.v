(** C23 — proofs, part 1: acknowledgments.  Whatever the two memories do (any order, delay,
    stray or wrong answers) and whatever the back-pressure: moves are served one at a time in
    arrival order, every acknowledgment answers the oldest unacknowledged move with its ID and
    goes to its requester, and no move is acknowledged twice. *)
From Akita Require Import Lib.Base C23.Model.
Local Open Scope N_scope.

(** the projection of the state that matters here *)
Definition ctl (d : dm) : list (ack * move) * bool * move * list move * list ack * N :=
  (g_acks d, d_active d, d_req d, d_top_in d, d_top_out d, d_top_cap d).

Ltac crush_ctl :=
  repeat match goal with
  | |- context [match ?x with _ => _ end] => destruct x eqn:?
  | |- context [if ?x then _ else _] => destruct x eqn:?
  end; try reflexivity; try discriminate.

Lemma with_port_ctl d s p : ctl (with_port d s p) = ctl d.
Proof. reflexivity. Qed.

Lemma proc_write_done_ctl d : d_active d = true -> ctl (snd (proc_write_done d)) = ctl d.
Proof.
  intro A. unfold proc_write_done. rewrite A. cbn [negb].
  destruct (side_port d (d_dside d)) as [p|]; [|reflexivity].
  destruct (p_in p) as [|[r x|r] rest]; [reflexivity| |].
  - destruct (negb (d_sside d =? d_dside d)); reflexivity.
  - destruct (aget r (d_pwrite d)); cbn [snd]; unfold ctl, upd, with_port; cbn; rewrite ?A; reflexivity.
Qed.

Lemma write_dst_ctl d p d' : d_active d = true -> write_dst d = Ret (p, d') -> ctl d' = ctl d.
Proof.
  intro A. unfold write_dst. rewrite A. cbn [negb].
  destruct (buf_extract (d_buf d) (sub64 (d_next_write d) (v_daddr (d_req d))) (d_dg d)) as [[data|]| |]; try discriminate.
  2:{ intro E. inversion E; subst. reflexivity. }
  destruct (side_port d (d_dside d)) as [q|]; [|discriminate].
  destruct (can_send q).
  - destruct (buf_move (d_buf d) (sub64 (w64 (d_next_write d + d_dg d)) (v_daddr (d_req d)))) as [bf| |]; try discriminate.
    intro E. inversion E; subst. unfold ctl, upd, with_port; cbn. rewrite ?A. reflexivity.
  - intro E. inversion E; subst. unfold ctl, upd; cbn. rewrite ?A. reflexivity.
Qed.

Lemma proc_data_ready_ctl d p d' : d_active d = true -> proc_data_ready d = Ret (p, d') -> ctl d' = ctl d.
Proof.
  intro A. unfold proc_data_ready. rewrite A. cbn [negb].
  destruct (side_port d (d_sside d)) as [q|]; [|discriminate].
  destruct (p_in q) as [|[r x|r] rest].
  - intro E. inversion E; subst. reflexivity.
  - destruct (aget r (d_pread d)).
    + destruct (buf_add (d_buf d) (sub64 n (v_saddr (d_req d))) x); try discriminate.
      intro E. inversion E; subst. unfold ctl, upd, with_port; cbn. rewrite ?A. reflexivity.
    + intro E. inversion E; subst. reflexivity.
  - destruct (negb (d_sside d =? d_dside d)); intro E; inversion E; subst; reflexivity.
Qed.

Lemma read_src_ctl d p d' : d_active d = true -> read_src d = Ret (p, d') -> ctl d' = ctl d.
Proof.
  intro A. unfold read_src. rewrite A. cbn [negb].
  destruct (d_sg d =? 0); [discriminate|].
  destruct (w64 (b_off (d_buf d) + d_bufsize d) <=? sub64 (d_next_read d / d_sg d * d_sg d) (v_saddr (d_req d))).
  { intro E. inversion E; subst. reflexivity. }
  destruct (w64 (v_saddr (d_req d) + v_size (d_req d)) <=? d_next_read d / d_sg d * d_sg d).
  { intro E. inversion E; subst. reflexivity. }
  destruct (side_port d (d_sside d)) as [q|]; [|discriminate].
  destruct (can_send q); intro E; inversion E; subst; unfold ctl, upd, with_port; cbn; rewrite ?A; reflexivity.
Qed.

(** inactive: the four transfer steps do nothing *)
Lemma transfer_inactive d : d_active d = false ->
  proc_write_done d = (false, d) /\ write_dst d = Ret (false, d) /\
  proc_data_ready d = Ret (false, d) /\ read_src d = Ret (false, d).
Proof.
  intro A. unfold proc_write_done, write_dst, proc_data_ready, read_src. rewrite A. cbn [negb]. tauto.
Qed.

(** [arrived]: every move that entered the Top port so far, in order *)
Record ainv (arrived : list move) (sent : list ack) (d : dm) : Prop := mk_ainv {
  a_order : arrived = map snd (g_acks d) ++ (if d_active d then [d_req d] else []) ++ d_top_in d;
  a_acks : Forall (fun x => a_rspto (fst x) = v_id (snd x) /\ a_dst (fst x) = v_src (snd x)) (g_acks d);
  a_sent : map fst (g_acks d) = sent ++ d_top_out d }.

Lemma ainv_ctl arrived sent d d' : ctl d' = ctl d -> ainv arrived sent d -> ainv arrived sent d'.
Proof.
  unfold ctl. intro E. inversion E as [[E1 E2 E3 E4 E5 E6]]. intros [A B C].
  constructor; rewrite ?E1, ?E2, ?E3, ?E4, ?E5; assumption.
Qed.

Lemma finish_ainv arrived sent d : ainv arrived sent d -> ainv arrived sent (snd (finish d)).
Proof.
  intros [A B C]. unfold finish. destruct (d_active d) eqn:Act; cbn [negb]; [|cbn [snd]; constructor; rewrite ?Act; assumption].
  destruct (d_next_write d <? w64 (v_daddr (d_req d) + v_size (d_req d))); [cbn [snd]; constructor; rewrite ?Act; assumption|].
  destruct (negb ((length (d_pread d) =? 0)%nat && (length (d_pwrite d) =? 0)%nat)); [cbn [snd]; constructor; rewrite ?Act; assumption|].
  destruct (N.of_nat (length (d_top_out d)) <? d_top_cap d); cbn [snd].
  - constructor; cbn [g_acks d_active d_req d_top_in d_top_out].
    + rewrite A, map_app. cbn [map snd app]. rewrite <- app_assoc. reflexivity.
    + apply Forall_app. split; [exact B|]. constructor; [|constructor]. cbn. split; reflexivity.
    + rewrite map_app, C. cbn [map fst]. rewrite <- app_assoc. reflexivity.
  - constructor; unfold upd; cbn [g_acks d_active d_req d_top_in d_top_out]; rewrite ?Act; assumption.
Qed.

Lemma parse_cp_ainv arrived sent d p d' : ainv arrived sent d -> parse_cp d = Ret (p, d') -> ainv arrived sent d'.
Proof.
  intros [A B C]. unfold parse_cp. destruct (d_active d) eqn:Act.
  { intro E. injection E as <- <-. constructor; rewrite ?Act; assumption. }
  destruct (d_top_in d) as [|v rest] eqn:T.
  { intro E. injection E as <- <-. constructor; rewrite ?Act, ?T; assumption. }
  destruct (gran_of d (v_sside v)) as [sg|]; [|discriminate].
  destruct (gran_of d (v_dside v)) as [dg|]; [|discriminate].
  destruct ((sg =? 0) || negb (v_saddr v mod sg =? 0)); [discriminate|].
  destruct ((dg =? 0) || negb (v_daddr v mod dg =? 0)); [discriminate|].
  intro E. injection E as <- <-. constructor; cbn [g_acks d_active d_req d_top_in d_top_out]; try assumption.
Qed.

Lemma tick_ainv arrived sent d p d' : ainv arrived sent d -> tick d = Ret (p, d') -> ainv arrived sent d'.
Proof.
  intros I. unfold tick.
  pose proof (finish_ainv arrived sent d I) as I1. destruct (finish d) as [p1 d1]. cbn [snd] in I1.
  destruct (parse_cp d1) as [[p2 d2]| |] eqn:P; cbn [bind]; try discriminate.
  pose proof (parse_cp_ainv arrived sent d1 p2 d2 I1 P) as I2.
  destruct (d_active d2) eqn:Act.
  - pose proof (proc_write_done_ctl d2 Act) as C3. destruct (proc_write_done d2) as [p3 d3]. cbn [snd] in C3.
    assert (A3 : d_active d3 = true) by (unfold ctl in C3; inversion C3; congruence).
    destruct (write_dst d3) as [[p4 d4]| |] eqn:W; cbn [bind]; try discriminate.
    pose proof (write_dst_ctl d3 p4 d4 A3 W) as C4.
    assert (A4 : d_active d4 = true) by (unfold ctl in C4; inversion C4; congruence).
    destruct (proc_data_ready d4) as [[p5 d5]| |] eqn:R; cbn [bind]; try discriminate.
    pose proof (proc_data_ready_ctl d4 p5 d5 A4 R) as C5.
    assert (A5 : d_active d5 = true) by (unfold ctl in C5; inversion C5; congruence).
    destruct (read_src d5) as [[p6 d6]| |] eqn:S; cbn [bind]; try discriminate.
    pose proof (read_src_ctl d5 p6 d6 A5 S) as C6.
    intro E. injection E as <- <-.
    apply (ainv_ctl _ _ d5 _ C6). apply (ainv_ctl _ _ d4 d5 C5). apply (ainv_ctl _ _ d3 d4 C4).
    apply (ainv_ctl _ _ d2 d3 C3). exact I2.
  - destruct (transfer_inactive d2 Act) as [T1 [T2 [T3 T4]]].
    rewrite T1, T2. cbn [bind]. rewrite T3. cbn [bind]. rewrite T4. cbn [bind].
    intro E. injection E as <- <-. exact I2.
Qed.
