(** C23 — proofs, part 9: what bufferExtractData returns when the chunks hold consecutive
    granules of a byte memory. *)
From Akita Require Import Lib.Base C23.Model C23.Mem C23.Proofs3.
Local Open Scope N_scope.

Lemma extract_loop_content M G : forall cs base so left acc out, 0 < G -> so < G -> 0 < left ->
  (forall i c, nth_error cs i = Some c -> ch_valid c = true -> ch_data c = mem_read M (base + N.of_nat i * G) G) ->
  extract_loop G cs so left acc = Ret (Some out) ->
  out = acc ++ mem_read M (base + so) left.
Proof.
  induction cs as [|c rest IH]; intros base so left acc out HG Hso Hleft Hc; cbn [extract_loop]; [discriminate|].
  destruct (ch_valid c) eqn:Vc; cbn [negb]; [|discriminate].
  pose proof (Hc 0%nat c eq_refl Vc) as D0. cbn [N.of_nat] in D0. rewrite N.mul_0_l, N.add_0_r in D0.
  set (n := N.min (G - so) left).
  destruct (N.of_nat (length (ch_data c)) <? so + n); [discriminate|].
  assert (Hpiece : firstn (N.to_nat n) (skipn (N.to_nat so) (ch_data c)) = mem_read M (base + so) n).
  { rewrite D0. apply mem_read_slice. unfold n. lia. }
  rewrite Hpiece.
  destruct (left - n =? 0) eqn:Z.
  - intro E. inversion E; subst out. f_equal. f_equal. unfold n in *. lia.
  - intro E. assert (Hn : n = G - so) by (unfold n in *; lia).
    assert (Hl : 0 < left - n) by lia.
    rewrite (IH (base + G) 0 (left - n) (acc ++ mem_read M (base + so) n) out HG HG Hl); [| |exact E].
    + rewrite <- app_assoc. f_equal. rewrite N.add_0_r.
      replace (base + G) with (base + so + n) by lia. rewrite mem_read_app. f_equal. lia.
    + intros i c' Hi Hv. rewrite (Hc (S i) c' Hi Hv). f_equal. lia.
Qed.

(** the situation of writeToDst: the requested offset lies in chunk 0 *)
Lemma buf_extract_content M base b off n out : 0 < b_gran b -> b_off b <= off -> off < two64 ->
  off - b_off b < b_gran b -> 0 < n ->
  (forall i c, nth_error (b_chunks b) i = Some c -> ch_valid c = true ->
               ch_data c = mem_read M (base + N.of_nat i * b_gran b) (b_gran b)) ->
  buf_extract b off n = Ret (Some out) ->
  out = mem_read M (base + (off - b_off b)) n.
Proof.
  intros HG Ho H64 Hrel Hn Hc. unfold buf_extract.
  destruct (b_gran b =? 0) eqn:Z; [lia|].
  rewrite (sub64_small off (b_off b) Ho H64).
  rewrite (N.div_small _ _ Hrel). cbn [N.to_nat skipn]. rewrite N.mul_0_l, N.sub_0_r.
  destruct (N.of_nat (length (b_chunks b)) <=? 0); [discriminate|].
  intro E. apply (extract_loop_content M (b_gran b) _ base _ _ [] out HG Hrel Hn Hc E).
Qed.
