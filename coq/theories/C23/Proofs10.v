(** C23 — proofs, part 10: the content invariant of a transfer (between the two sides, or inside
    one side with disjoint ranges), relating the staging buffer, the cursors and the outstanding
    requests to the memories.
    Definitions and the steps of dataTransferMW. *)
From Coq Require Import Permutation.
From Akita Require Import Lib.Base C23.Model C23.Mem C23.Proofs C23.Proofs3 C23.Proofs4 C23.Proofs5 C23.Proofs6 C23.Proofs9.
Local Open Scope N_scope.
Local Ltac Zify.zify_post_hook ::= idtac.

Definition pick {A} (s : N) (x y : A) : A := if s =? 0 then x else y.
Definition port_of (d : dm) (s : N) : port := pick s (d_inside d) (d_outside d).
Definition mid (m : mreq) : N := match m with MRead i _ _ => i | MWrite i _ _ => i end.
Definition rid (r : mrsp) : N := match r with MData i _ => i | MDone i => i end.

(** reads: requests on their way to the source memory and answers on their way back *)
Definition RB (pss : port) (pends : list mreq) (pread : list (N * N)) (src : list N) (sg : N) : Prop :=
  (forall id a n, In (MRead id a n) (p_out pss ++ pends) -> forall a', aget id pread = Some a' -> a' = a /\ n = sg) /\
  (forall id x, In (MData id x) (p_in pss) -> forall a, aget id pread = Some a -> x = mem_read src a sg).

(** staging buffer: every valid chunk holds its granule of the source memory *)
Definition BB (b : buffer) (src : list N) (saddr sg : N) : Prop :=
  forall i c, nth_error (b_chunks b) i = Some c -> ch_valid c = true ->
              ch_data c = mem_read src (saddr + b_off b + N.of_nat i * sg) sg.

(** writes: every write on its way to the destination memory is outstanding and carries the
    source bytes of its granule; every granule below the write cursor is either already in the
    destination memory or still on its way *)
Definition WB (pds : port) (pendd : list mreq) (pwrite : list (N * N)) (wr : N) (src dst : list N)
              (saddr daddr dg : N) : Prop :=
  (forall id a x, In (MWrite id a x) (p_out pds ++ pendd) ->
      (exists a', aget id pwrite = Some a') /\
      exists o, a = daddr + o /\ o mod dg = 0 /\ o < wr /\ x = mem_read src (saddr + o) dg) /\
  (forall o, o mod dg = 0 -> o < wr ->
      mem_read dst (daddr + o) dg = mem_read src (saddr + o) dg \/
      exists id, In (MWrite id (daddr + o) (mem_read src (saddr + o) dg)) (p_out pds ++ pendd)).

(** message ids are pairwise distinct per side and below the generator *)
Definition idlist (d : dm) (pi po : list mreq) (s : N) : list N :=
  map mid (p_out (port_of d s) ++ pick s pi po) ++ map rid (p_in (port_of d s)).

Definition UB (d : dm) (pi po : list mreq) : Prop :=
  forall s, s <= 1 -> NoDup (idlist d pi po s) /\ forall id, In id (idlist d pi po s) -> id < d_next_id d.

Definition no_writes (d : dm) (pi po : list mreq) : Prop :=
  forall s, s <= 1 -> forall id a x, ~ In (MWrite id a x) (p_out (port_of d s) ++ pick s pi po).

Record cinv (d : dm) (mi mo : list N) (pi po : list mreq) : Prop := mk_cinv {
  c_ss : d_sside d <= 1; c_ds : d_dside d <= 1;
  (* two different sides, or two disjoint ranges of one side *)
  c_sep : d_sside d <> d_dside d \/
          v_saddr (d_req d) + v_size (d_req d) <= v_daddr (d_req d) \/ v_daddr (d_req d) + v_size (d_req d) <= v_saddr (d_req d);
  (* writes travel to the destination side only *)
  c_nw : forall s, s <= 1 -> forall id a x, In (MWrite id a x) (p_out (port_of d s) ++ pick s pi po) -> s = d_dside d;
  c_fs : v_saddr (d_req d) + v_size (d_req d) <= N.of_nat (length (pick (d_sside d) mi mo));
  c_fd : v_daddr (d_req d) + v_size (d_req d) <= N.of_nat (length (pick (d_dside d) mi mo));
  c_r : RB (port_of d (d_sside d)) (pick (d_sside d) pi po) (d_pread d) (pick (d_sside d) mi mo) (d_sg d);
  c_b : BB (d_buf d) (pick (d_sside d) mi mo) (v_saddr (d_req d)) (d_sg d);
  c_w : WB (port_of d (d_dside d)) (pick (d_dside d) pi po) (d_pwrite d)
           (d_next_write d - v_daddr (d_req d)) (pick (d_sside d) mi mo) (pick (d_dside d) mi mo)
           (v_saddr (d_req d)) (v_daddr (d_req d)) (d_dg d) }.

Lemma aget_adel_other k k' m : k <> k' -> aget k' (adel k m) = aget k' m.
Proof.
  intro H. induction m as [|[j v] r IH]; cbn [adel aget]; [reflexivity|].
  destruct (j =? k) eqn:E.
  - destruct (j =? k') eqn:E'; [lia|exact IH].
  - cbn [aget]. destruct (j =? k'); [reflexivity|exact IH].
Qed.

Lemma aget_adel_some k k' m v : aget k' (adel k m) = Some v -> aget k' m = Some v /\ k' <> k.
Proof.
  intro H. destruct (N.eq_dec k k') as [->|Hne].
  - exfalso. clear -H. induction m as [|[j w] r IH]; cbn [adel aget] in H; [discriminate|].
    destruct (j =? k') eqn:E; [auto|]. cbn [aget] in H. rewrite E in H. auto.
  - rewrite (aget_adel_other k k' m Hne) in H. split; [exact H|congruence].
Qed.

Lemma port_of_with_port d s p s' : s <= 1 -> s' <= 1 ->
  port_of (with_port d s p) s' = if s =? s' then p else port_of d s'.
Proof.
  intros H H'. unfold port_of, pick, with_port. cbn [d_inside d_outside].
  destruct (s =? 0) eqn:E, (s' =? 0) eqn:E'; destruct (s =? s') eqn:E''; try reflexivity; lia.
Qed.

(** ---- transfer of the blocks between ports *)
Lemma RB_mono p pend p' pend' pr pr' src sg :
  (forall id a n, In (MRead id a n) (p_out p' ++ pend') -> In (MRead id a n) (p_out p ++ pend)) ->
  (forall id x, In (MData id x) (p_in p') -> In (MData id x) (p_in p)) ->
  (forall k v, aget k pr' = Some v -> aget k pr = Some v) ->
  RB p pend pr src sg -> RB p' pend' pr' src sg.
Proof.
  intros H1 H2 H3 [R1 R2]. split.
  - intros id a n Hin a' Ha'. apply (R1 id a n (H1 _ _ _ Hin) a' (H3 _ _ Ha')).
  - intros id x Hin a Ha. apply (R2 id x (H2 _ _ Hin) a (H3 _ _ Ha)).
Qed.

Lemma WB_eqw p pend p' pend' pw wr src dst sa da dg :
  (forall id a x, In (MWrite id a x) (p_out p' ++ pend') <-> In (MWrite id a x) (p_out p ++ pend)) ->
  WB p pend pw wr src dst sa da dg -> WB p' pend' pw wr src dst sa da dg.
Proof.
  intros H [W1 W2]. split.
  - intros id a x Hin. apply (W1 id a x). apply H. exact Hin.
  - intros o H1 H2. destruct (W2 o H1 H2) as [L|[id Hin]]; [left; exact L|right; exists id; apply H; exact Hin].
Qed.

(** the head of the incoming buffer of side [s0] is taken *)
Definition popped (d : dm) (s0 : N) (rest : list mrsp) : dm :=
  with_port d s0 (mk_port rest (p_out (port_of d s0)) (p_cap (port_of d s0))).

Lemma popped_ports d s0 x rest s : s0 <= 1 -> s <= 1 -> p_in (port_of d s0) = x :: rest ->
  p_out (port_of (popped d s0 rest) s) = p_out (port_of d s) /\
  (forall r, In r (p_in (port_of (popped d s0 rest) s)) -> In r (p_in (port_of d s))).
Proof.
  intros H0 Hs Hin. unfold popped. rewrite port_of_with_port by assumption. destruct (s0 =? s) eqn:E.
  - assert (s = s0) by lia. subst s. cbn [p_out p_in]. split; [reflexivity|]. intros r Hr. rewrite Hin. right. exact Hr.
  - split; [reflexivity|tauto].
Qed.

(** one more request is put on the port of side [s0] *)
Definition sent (d : dm) (s0 : N) (m : mreq) : dm :=
  with_port d s0 (mk_port (p_in (port_of d s0)) (p_out (port_of d s0) ++ [m]) (p_cap (port_of d s0))).

Lemma sent_ports d s0 m s pend : s0 <= 1 -> s <= 1 ->
  p_in (port_of (sent d s0 m) s) = p_in (port_of d s) /\
  (forall y, In y (p_out (port_of (sent d s0 m) s) ++ pend) <-> (s = s0 /\ y = m) \/ In y (p_out (port_of d s) ++ pend)).
Proof.
  intros H0 Hs. unfold sent. rewrite port_of_with_port by assumption. destruct (s0 =? s) eqn:E.
  - assert (s = s0) by lia. subst s. cbn [p_out p_in]. split; [reflexivity|]. intro y.
    rewrite !in_app_iff. cbn [In]. split; [intros [[H|[H|[]]]|H]; auto|intros [[_ H]|[H|H]]; auto].
  - split; [reflexivity|]. intro y. split; [auto|]. intros [[H _]|H]; [lia|exact H].
Qed.
