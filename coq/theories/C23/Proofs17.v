(** C23 — proofs, part 17: scripted runs keep the content invariant. *)
From Coq Require Import Permutation.
From Akita Require Import Lib.Base C23.Model C23.Mem C23.Proofs C23.Proofs2 C23.Proofs3 C23.Proofs4 C23.Proofs5 C23.Proofs6 C23.Proofs7 C23.Proofs8.
From Akita Require Import C23.Proofs9 C23.Proofs10 C23.Proofs11 C23.Proofs12 C23.Proofs13 C23.Proofs14 C23.Proofs15 C23.Proofs16.
Local Open Scope N_scope.
Local Ltac Zify.zify_post_hook ::= idtac.

Lemma RB_perm p pend p' pend' pr src sg : Permutation (p_out p ++ pend) (p_out p' ++ pend') -> p_in p' = p_in p ->
  RB p pend pr src sg -> RB p' pend' pr src sg.
Proof.
  intros P Hin [R1 R2]. split.
  - intros id a n H. apply (R1 id a n). apply (Permutation_in _ (Permutation_sym P) H).
  - intros id x H. rewrite Hin in H. apply (R2 id x H).
Qed.

Lemma WB_perm p pend p' pend' pw wr src dst sa da dg : Permutation (p_out p ++ pend) (p_out p' ++ pend') ->
  WB p pend pw wr src dst sa da dg -> WB p' pend' pw wr src dst sa da dg.
Proof.
  intros P [W1 W2]. split.
  - intros id a x H. apply (W1 id a x). apply (Permutation_in _ (Permutation_sym P) H).
  - intros o H1 H2. destruct (W2 o H1 H2) as [L|[id H]]; [left; exact L|right; exists id; apply (Permutation_in _ P H)].
Qed.

Lemma drain_perm {A} (out pend : list A) n : Permutation (out ++ pend) (skipn n out ++ pend ++ firstn n out).
Proof.
  rewrite <- (firstn_skipn n out) at 1. rewrite <- app_assoc.
  apply Permutation_trans with (l' := skipn n out ++ firstn n out ++ pend).
  - rewrite !app_assoc. apply Permutation_app_tail. apply Permutation_app_comm.
  - apply Permutation_app_head. apply Permutation_app_comm.
Qed.

(** the ports are drained into the environment's pending lists *)
Lemma kinv_drain li lo d mi mo pi po d2 pi2 po2 :
  (forall s, s <= 1 -> p_in (port_of d2 s) = p_in (port_of d s) /\
                       Permutation (p_out (port_of d s) ++ pick s pi po) (p_out (port_of d2 s) ++ pick s pi2 po2)) ->
  d_next_id d2 = d_next_id d -> d_active d2 = d_active d -> d_top_in d2 = d_top_in d ->
  (d_sside d2, d_dside d2, d_req d2, d_pread d2, d_pwrite d2, d_buf d2, d_next_write d2, d_sg d2, d_dg d2) =
  (d_sside d, d_dside d, d_req d, d_pread d, d_pwrite d, d_buf d, d_next_write d, d_sg d, d_dg d) ->
  kinv li lo d mi mo pi po -> kinv li lo d2 mi mo pi2 po2.
Proof.
  intros HP Hid Hact Htop Hf [U Li Lo A I T]. inversion Hf as [[F1 F2 F3 F4 F5 F6 F7 F8 F9]].
  constructor; [|exact Li|exact Lo| | |rewrite Htop; exact T].
  - apply (UB_shrink d d2 pi po pi2 po2); [rewrite Hid; apply N.le_refl| |exact U].
    intros s Hs. exists []. cbn [app]. unfold idlist. destruct (HP s Hs) as [Hin P]. rewrite Hin.
    apply Permutation_app_tail. apply Permutation_map. exact P.
  - rewrite Hact. intro Act. destruct (A Act) as [Hss Hds Sep Nw Fs Fd R B W].
    constructor; rewrite ?F1, ?F2, ?F3, ?F4, ?F5, ?F6, ?F7, ?F8, ?F9; try assumption.
    + intros s Hs id a x H. destruct (HP s Hs) as [_ P]. apply (Nw s Hs id a x). apply (Permutation_in _ (Permutation_sym P) H).
    + destruct (HP _ Hss) as [Hin P]. apply (RB_perm _ _ _ _ _ _ _ P Hin R).
    + destruct (HP _ Hds) as [Hin P]. apply (WB_perm _ _ _ _ _ _ _ _ _ _ _ P W).
  - rewrite Hact. intros Act s Hs id a x H. destruct (HP s Hs) as [_ P].
    apply (I Act s Hs id a x). apply (Permutation_in _ (Permutation_sym P) H).
Qed.

Lemma deliver_top_kinv li lo mi mo pi po vs : Forall (gmove li lo) vs -> forall d,
  kinv li lo d mi mo pi po -> kinv li lo (deliver_top d vs) mi mo pi po.
Proof.
  unfold deliver_top. induction vs as [|v r IH]; intros Hv d K; cbn [fold_left]; [exact K|].
  inversion Hv as [|? ? Hg Hr]; subst.
  destruct (N.of_nat (length (d_top_in d)) <? d_top_cap d); [|apply IH; assumption].
  apply IH; [exact Hr|]. destruct K as [U Li Lo A I T].
  constructor; [exact U|exact Li|exact Lo|intro Act; destruct (A Act); constructor; assumption|exact I|].
  cbn [d_top_in]. apply Forall_app. split; [exact T|constructor; [exact Hg|constructor]].
Qed.

(** the whole state between two instants *)
Record einv (gi go : N) (li lo : nat) (e : env) : Prop := mk_einv {
  e_g : ginv gi go (e_dm e);
  e_k : kinv li lo (e_dm e) (e_mem_in e) (e_mem_out e) (e_pend_in e) (e_pend_out e);
  e_s : ss_ok (e_dm e) }.

(** the bytes of the source range of the move in progress *)
Definition src_mem (e : env) : list N :=
  mem_read (pick (d_sside (e_dm e)) (e_mem_in e) (e_mem_out e)) (v_saddr (d_req (e_dm e))) (v_size (d_req (e_dm e))).

Lemma serve_einv gi go li lo s e k : s <= 1 -> einv gi go li lo e ->
  einv gi go li lo (serve s e k) /\
  (d_active (e_dm e) = true -> src_mem (serve s e k) = src_mem e) /\ ctl (e_dm (serve s e k)) = ctl (e_dm e).
Proof.
  intros Hs [G K S].
  destruct (serve_kinv li lo s e k Hs (g_s _ _ _ G) K) as [K' [M [C [V [Gw [Gi Go]]]]]].
  assert (Hss : d_sside (e_dm (serve s e k)) = d_sside (e_dm e)).
  { unfold serve. brute. }
  split; [|split; [|exact C]].
  - constructor; [|exact K'|].
    + destruct (serve_core s e k) as [SC T]. apply (ginv_core gi go (e_dm e)); [exact SC|rewrite T; apply (g_nice _ _ _ G)|exact G].
    + unfold ss_ok in *. unfold ctl in C. inversion C as [[C1 C2 C3 C4 C5 C6]]. rewrite C2, C3, Hss. exact S.
  - intro Act. unfold src_mem. rewrite Hss. unfold ctl in C. inversion C as [[C1 C2 C3 C4 C5 C6]]. rewrite C3.
    apply (M Act); [apply N.le_refl|apply N.le_refl].
Qed.

Lemma serve_fold_einv gi go li lo s ks : s <= 1 -> forall e, einv gi go li lo e ->
  einv gi go li lo (fold_left (serve s) ks e) /\
  (d_active (e_dm e) = true -> src_mem (fold_left (serve s) ks e) = src_mem e) /\
  ctl (e_dm (fold_left (serve s) ks e)) = ctl (e_dm e).
Proof.
  intros Hs. induction ks as [|k r IH]; intros e E; cbn [fold_left]; [split; [exact E|split; [reflexivity|reflexivity]]|].
  destruct (serve_einv gi go li lo s e k Hs E) as [E1 [M1 C1]].
  destruct (IH _ E1) as [E2 [M2 C2]]. split; [exact E2|split; [|congruence]].
  intro Act. rewrite M2; [apply (M1 Act)|]. unfold ctl in C1. inversion C1. congruence.
Qed.
