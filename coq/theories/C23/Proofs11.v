(** C23 — proofs, part 11: the id invariant, and the content invariant through
    processWriteDoneFromDst, processDataReadyFromSrc and readFromSrc. *)
From Coq Require Import Permutation.
From Akita Require Import Lib.Base C23.Model C23.Mem C23.Proofs C23.Proofs3 C23.Proofs4 C23.Proofs5 C23.Proofs6 C23.Proofs9 C23.Proofs10.
Local Open Scope N_scope.
Local Ltac Zify.zify_post_hook ::= idtac.

Lemma side_port_of d s : s <= 1 -> side_port d s = Some (port_of d s).
Proof.
  intro H. unfold side_port, port_of, pick. destruct (s =? 0) eqn:E; [reflexivity|].
  destruct (s =? 1) eqn:E1; [reflexivity|lia].
Qed.

Lemma NoDup_app_r {A} (l r : list A) : NoDup (l ++ r) -> NoDup r.
Proof. induction l as [|x l IH]; cbn [app]; intro H; [exact H|]. inversion H; auto. Qed.

Lemma UB_shrink d d' pi po pi' po' : d_next_id d <= d_next_id d' ->
  (forall s, s <= 1 -> exists extra, Permutation (idlist d pi po s) (extra ++ idlist d' pi' po' s)) ->
  UB d pi po -> UB d' pi' po'.
Proof.
  intros Hid Hp U s Hs. destruct (U s Hs) as [Nd Fr]. destruct (Hp s Hs) as [extra P]. split.
  - apply (Permutation_NoDup P) in Nd. apply NoDup_app_r in Nd. exact Nd.
  - intros id Hin. assert (In id (idlist d pi po s)).
    { apply (Permutation_in id (Permutation_sym P)). apply in_or_app. right. exact Hin. }
    pose proof (Fr id H). lia.
Qed.

Lemma UB_grow d d' pi po s0 : s0 <= 1 -> d_next_id d' = d_next_id d + 1 ->
  Permutation (idlist d' pi po s0) (d_next_id d :: idlist d pi po s0) ->
  (forall s, s <= 1 -> s <> s0 -> idlist d' pi po s = idlist d pi po s) ->
  UB d pi po -> UB d' pi po.
Proof.
  intros H0 Hid P Hs U s Hle. destruct (N.eq_dec s s0) as [->|Hne].
  - destruct (U s0 H0) as [Nd Fr]. split.
    + apply (Permutation_NoDup (Permutation_sym P)). constructor; [|exact Nd].
      intro Hin. pose proof (Fr _ Hin). lia.
    + intros id Hin. apply (Permutation_in id P) in Hin. destruct Hin as [<-|Hin]; [lia|]. pose proof (Fr id Hin). lia.
  - rewrite (Hs s Hle Hne). destruct (U s Hle) as [Nd Fr]. split; [exact Nd|]. intros id Hin. pose proof (Fr id Hin). lia.
Qed.

(** the ids of a port's flight and incoming buffer, for a port given explicitly *)
Lemma idlist_with_port d s p pi po s' : s <= 1 -> s' <= 1 ->
  idlist (with_port d s p) pi po s' =
  if s =? s' then map mid (p_out p ++ pick s' pi po) ++ map rid (p_in p) else idlist d pi po s'.
Proof.
  intros H H'. unfold idlist. rewrite (port_of_with_port d s p s' H H'). destruct (s =? s'); reflexivity.
Qed.

(** taking the head of an incoming buffer keeps everything *)
Lemma cinv_popped d mi mo pi po s0 x rest : s0 <= 1 -> p_in (port_of d s0) = x :: rest ->
  cinv d mi mo pi po -> UB d pi po -> cinv (popped d s0 rest) mi mo pi po /\ UB (popped d s0 rest) pi po.
Proof.
  intros H0 Hin [Hss Hds Sep Nw Fs Fd R B W] U. split.
  - constructor; try assumption.
    + intros s Hs id a y Hy. destruct (popped_ports d s0 x rest s H0 Hs Hin) as [Po _]. rewrite Po in Hy. apply (Nw s Hs id a y Hy).
    + destruct (popped_ports d s0 x rest _ H0 Hss Hin) as [Po Pi]. change (d_sside (popped d s0 rest)) with (d_sside d).
      apply (RB_mono (port_of d (d_sside d)) (pick (d_sside d) pi po) _ _ (d_pread d) _ _ _); [| | |exact R].
      * intros id a n Hy. rewrite Po in Hy. exact Hy.
      * intros id y Hy. apply Pi. exact Hy.
      * auto.
    + destruct (popped_ports d s0 x rest _ H0 Hds Hin) as [Po _]. change (d_dside (popped d s0 rest)) with (d_dside d).
      apply (WB_eqw (port_of d (d_dside d)) (pick (d_dside d) pi po)); [|exact W].
      intros id a y. rewrite Po. tauto.
  - apply (UB_shrink d (popped d s0 rest) pi po pi po); [apply N.le_refl| |exact U].
    intros s Hs. unfold popped. rewrite idlist_with_port by assumption. destruct (s0 =? s) eqn:E.
    + assert (s = s0) by lia. subst s. exists [rid x]. unfold idlist. rewrite Hin. cbn [p_out p_in map].
      apply Permutation_sym. cbn [app]. apply Permutation_middle.
    + exists []. apply Permutation_refl.
Qed.

(** ---- processWriteDoneFromDst *)
Lemma proc_write_done_cinv d mi mo pi po : d_active d = true -> cinv d mi mo pi po -> UB d pi po ->
  cinv (snd (proc_write_done d)) mi mo pi po /\ UB (snd (proc_write_done d)) pi po.
Proof.
  intros Act C U. pose proof C as [Hss Hds Sep Nw Fs Fd R B W].
  unfold proc_write_done. rewrite Act. cbn [negb]. rewrite (side_port_of d _ Hds).
  set (p := port_of d (d_dside d)) in *.
  destruct (p_in p) as [|[r x|r] rest] eqn:Pin; cbn [snd]; [split; assumption| |].
  - (* a data-ready on the destination port: an orphan unless both sides share the port *)
    destruct (negb (d_sside d =? d_dside d)); cbn [snd]; [|split; assumption].
    apply (cinv_popped d mi mo pi po (d_dside d) _ rest Hds Pin C U).
  - (* write-done *)
    destruct (cinv_popped d mi mo pi po (d_dside d) _ rest Hds Pin C U) as [C1 U1].
    fold p in C1, U1. change (with_port d (d_dside d) (mk_port rest (p_out p) (p_cap p))) with (popped d (d_dside d) rest).
    set (d1 := popped d (d_dside d) rest) in *.
    destruct (aget r (d_pwrite d)) as [a0|] eqn:AG; cbn [snd]; [|split; assumption].
    destruct C1 as [Hss1 Hds1 Sep1 Nw1 Fs1 Fd1 R1 B1 [W1 W2]].
    match goal with |- cinv ?D _ _ _ _ /\ _ => set (du := D) end.
    split; [|intros s Hs; exact (U1 s Hs)].
    constructor; [exact Hss1|exact Hds1|exact Sep1|exact Nw1|exact Fs1|exact Fd1|exact R1|exact B1|].
    split; [|exact W2].
    intros id a x Hin. change (port_of du (d_dside du)) with (port_of d1 (d_dside d)) in Hin.
    destruct (W1 id a x Hin) as [[a' Ha'] Ho]. split; [|exact Ho].
    exists a'. change (d_pwrite du) with (adel r (d_pwrite d)). change (d_pwrite d1) with (d_pwrite d) in Ha'.
    rewrite aget_adel_other; [exact Ha'|].
    (* the write still in flight has another id than the acknowledged one *)
    intro Heq. subst id. destruct (U (d_dside d) Hds) as [Nd _]. unfold idlist in Nd. fold p in Nd. rewrite Pin in Nd.
    cbn [map rid] in Nd. apply NoDup_remove_2 in Nd. apply Nd. apply in_or_app. left.
    destruct (popped_ports d (d_dside d) (MDone r) rest _ Hds Hds Pin) as [Po _]. fold d1 in Po. rewrite Po in Hin.
    apply (in_map mid) in Hin. exact Hin.
Qed.
