(** C23 — proofs, part 4: the structural invariant of a transfer and "nothing outside the
    destination range is written", for every behaviour of the two memories. *)
From Akita Require Import Lib.Base C23.Model C23.Proofs C23.Proofs3.
Local Open Scope N_scope.

(** ---- arithmetic of multiples *)
Lemma mult_of g a : 0 < g -> a mod g = 0 -> exists k, a = k * g.
Proof. intros Hg H. apply N.mod_divide in H; [|lia]. destruct H as [k Hk]. exists k. exact Hk. Qed.

Lemma mult_mod g k : 0 < g -> (k * g) mod g = 0.
Proof. intro Hg. apply N.mod_mul. lia. Qed.

Lemma mult_div g k : 0 < g -> k * g / g = k.
Proof. intro Hg. apply N.div_mul. lia. Qed.

Lemma floor_mult g x : 0 < g -> exists k, x / g * g = k * g /\ k * g <= x /\ x < k * g + g.
Proof.
  intro Hg. exists (x / g). split; [reflexivity|].
  pose proof (N.div_mod x g ltac:(lia)). pose proof (N.mod_lt x g ltac:(lia)). nia.
Qed.

(** two floors: a <= b implies floor(a/sg) <= floor(b/sg) (direct, nia is slow in the large contexts below) *)
Lemma floor_mono sg a b ka kb : 0 < sg -> kb * sg <= a -> a <= b -> b < ka * sg + sg -> kb <= ka.
Proof.
  intros Hg H1 H2 H3. destruct (N.le_gt_cases kb ka) as [L|G]; [exact L|exfalso].
  assert ((ka + 1) * sg <= kb * sg) by (apply N.mul_le_mono_r; lia).
  rewrite N.mul_add_distr_r, N.mul_1_l in H. lia.
Qed.

Lemma shift_le sg ka kb x rd : kb <= ka -> kb * sg + (ka - kb + x) * sg <= rd -> ka * sg + x * sg <= rd.
Proof. intros H1 H2. replace (ka * sg + x * sg) with (kb * sg + (ka - kb + x) * sg); [exact H2|nia]. Qed.

Lemma slot_bound sg kr ka kb wr dg i : 0 < sg -> kr < ka -> ka * sg <= wr + dg ->
  wr - kb * sg + dg <= (i + 1) * sg -> kb * sg <= wr -> kr - kb <= i.
Proof.
  intros Hg H1 H2 H3 H4.
  assert ((kr + 1) * sg <= (kb + i + 1) * sg) by nia.
  apply N.mul_le_mono_pos_r in H; lia.
Qed.

Lemma if_ret {A} (c : bool) (a b : A) : (if c then Ret a else Ret b) = Ret (if c then a else b).
Proof. destruct c; reflexivity. Qed.

Lemma aget_In k v m : aget k m = Some v -> In (k, v) m.
Proof.
  induction m as [|[k' v'] r IH]; cbn [aget]; [discriminate|].
  destruct (k' =? k) eqn:E; [|intro H; right; auto].
  intro H. inversion H; subst. left. f_equal. lia.
Qed.

Lemma In_adel k m x : In x (adel k m) -> In x m /\ fst x <> k.
Proof.
  induction m as [|[k' v'] r IH]; cbn [adel]; [intros []|].
  destruct (k' =? k) eqn:E.
  - intro H. destruct (IH H). split; [right; assumption|assumption].
  - intros [<-|H]; [split; [left; reflexivity|cbn; lia]|]. destruct (IH H). split; [right; assumption|assumption].
Qed.

Lemma NoDup_adel k m : NoDup (map snd m) -> NoDup (map snd (adel k m)).
Proof.
  induction m as [|[k' v'] r IH]; cbn [adel map snd]; intro H; [constructor|].
  inversion H as [|? ? Hni Hnd]; subst. destruct (k' =? k); [auto|].
  cbn [map snd]. constructor; [|auto].
  intro Hin. apply Hni. apply in_map_iff in Hin. destruct Hin as [x [Hx Hin]].
  apply In_adel in Hin. apply in_map_iff. exists x. tauto.
Qed.

Lemma NoDup_snd_inj (m : list (N * N)) x y : NoDup (map snd m) -> In x m -> In y m -> snd x = snd y -> x = y.
Proof.
  induction m as [|z r IH]; cbn [map]; intros Hnd Hx Hy E; [destruct Hx|].
  inversion Hnd as [|? ? Hni Hnd']; subst.
  destruct Hx as [->|Hx], Hy as [->|Hy]; try reflexivity.
  - exfalso. apply Hni. rewrite E. apply in_map. exact Hy.
  - exfalso. apply Hni. rewrite <- E. apply in_map. exact Hx.
  - apply IH; assumption.
Qed.

(* From here on lia/nia treat div and mod as opaque atoms (all facts about them come from the
   lemmas above); the div_mod_to_equations hook makes the big contexts below intractable. *)
Local Ltac Zify.zify_post_hook ::= idtac.

(** ---- the structural invariant of the active transfer *)
Record sinv (d : dm) : Prop := mk_sinv {
  s_gs : 0 < d_sg d; s_gd : 0 < d_dg d;
  s_ms : v_size (d_req d) mod d_sg d = 0; s_md : v_size (d_req d) mod d_dg d = 0;
  s_ws : v_saddr (d_req d) + v_size (d_req d) < two64; s_wd : v_daddr (d_req d) + v_size (d_req d) < two64;
  s_as : v_saddr (d_req d) mod d_sg d = 0;
  s_side : d_dside d = v_dside (d_req d);
  s_rd : v_saddr (d_req d) <= d_next_read d /\ (d_next_read d - v_saddr (d_req d)) mod d_sg d = 0 /\
         d_next_read d - v_saddr (d_req d) <= v_size (d_req d);
  s_wr : v_daddr (d_req d) <= d_next_write d /\ (d_next_write d - v_daddr (d_req d)) mod d_dg d = 0 /\
         d_next_write d - v_daddr (d_req d) <= d_next_read d - v_saddr (d_req d);
  s_bg : b_gran (d_buf d) = d_sg d;
  s_bo : b_off (d_buf d) = (d_next_write d - v_daddr (d_req d)) / d_sg d * d_sg d;
  s_ch : forall i c, nth_error (b_chunks (d_buf d)) i = Some c -> ch_valid c = true ->
           b_off (d_buf d) + (N.of_nat i + 1) * d_sg d <= d_next_read d - v_saddr (d_req d);
  s_pr : forall id a, In (id, a) (d_pread d) ->
           v_saddr (d_req d) <= a /\ (a - v_saddr (d_req d)) mod d_sg d = 0 /\
           (a - v_saddr (d_req d)) + d_sg d <= d_next_read d - v_saddr (d_req d) /\
           b_off (d_buf d) <= a - v_saddr (d_req d) /\
           forall c, nth_error (b_chunks (d_buf d)) (N.to_nat ((a - v_saddr (d_req d) - b_off (d_buf d)) / d_sg d)) = Some c ->
                     ch_valid c = false;
  s_pn : NoDup (map snd (d_pread d)) }.

(** the fields sinv reads *)
Definition sview (d : dm) :=
  (d_sg d, d_dg d, d_req d, d_dside d, d_next_read d, d_next_write d, d_buf d, d_pread d).

Lemma sinv_view d d' : sview d' = sview d -> sinv d -> sinv d'.
Proof.
  unfold sview. intro E. inversion E as [[E1 E2 E3 E4 E5 E6 E7 E8]]. intros [].
  constructor; rewrite ?E1, ?E2, ?E3, ?E4, ?E5, ?E6, ?E7, ?E8; assumption.
Qed.

(** every write lies inside the destination range of a move accepted so far *)
Definition in_range (v : move) (x : N * N * list N) : Prop :=
  let '(side, addr, data) := x in
  side = v_dside v /\ v_daddr v <= addr /\ addr + N.of_nat (length data) <= v_daddr v + v_size v.

Definition moves_so_far (d : dm) : list move :=
  map snd (g_acks d) ++ (if d_active d then [d_req d] else []).

Definition winv (d : dm) : Prop :=
  Forall (fun x => exists v, In v (moves_so_far d) /\ in_range v x) (g_writes d).

(** moves for which the statement is claimed: ByteSize a multiple of both granularities
    (and the ranges do not wrap around 2^64) *)
Definition nice (gin gout : N) (v : move) : Prop :=
  let g := fun s => if s =? 0 then gin else gout in
  v_size v mod g (v_sside v) = 0 /\ v_size v mod g (v_dside v) = 0 /\
  v_saddr v + v_size v < two64 /\ v_daddr v + v_size v < two64.

(** ---- writeToDst *)
Lemma write_dst_sinv d p d' : d_active d = true -> sinv d -> winv d -> write_dst d = Ret (p, d') ->
  sinv d' /\ winv d' /\ d_active d' = true /\ moves_so_far d' = moves_so_far d.
Proof.
  intros Act S W. unfold write_dst. rewrite Act. cbn [negb].
  destruct S as [gs gd ms md ws wd sal sside [rd1 [rd2 rd3]] [wr1 [wr2 wr3]] bg bo ch pr pn].
  set (v := d_req d) in *. set (sg := d_sg d) in *. set (dg := d_dg d) in *.
  set (wr := d_next_write d - v_daddr v) in *. set (rd := d_next_read d - v_saddr v) in *.
  assert (Hnw64 : d_next_write d < two64) by lia.
  rewrite (sub64_small _ _ wr1 Hnw64). fold wr.
  destruct (floor_mult sg wr gs) as [kb [Hkb [Hkb1 Hkb2]]].
  destruct (buf_extract (d_buf d) wr dg) as [[data|]| |] eqn:EX; try discriminate.
  2:{ intro E. injection E as <- <-. split; [constructor; try assumption; tauto|]. split; [exact W|]. split; [exact Act|reflexivity]. }
  destruct (side_port d (d_dside d)) as [q|]; [|discriminate].
  assert (COV := buf_extract_cover (d_buf d) wr dg data ltac:(rewrite bg; exact gs) ltac:(rewrite bo, Hkb; exact Hkb1)
                   ltac:(lia) ltac:(rewrite bo, bg, Hkb; lia) gd EX).
  destruct COV as [Ldata [i [Vi Ci]]]. rewrite bg, bo, Hkb in Ci.
  destruct (Vi i (le_n i)) as [ci [Hci Hvi]].
  pose proof (ch i ci Hci Hvi) as Bi. rewrite bo, Hkb in Bi. fold sg rd in Bi.
  assert (Hwd : wr + dg <= rd) by lia.
  destruct (can_send q).
  2:{ intro E. injection E as <- <-. split; [|split; [|split; [reflexivity|]]].
      - apply (sinv_view d); [reflexivity|]. constructor; try assumption; tauto.
      - unfold winv, moves_so_far in *. cbn [upd g_writes g_acks d_active d_req]. rewrite Act in W. exact W.
      - unfold moves_so_far. cbn [upd g_acks d_active d_req]. rewrite Act. reflexivity. }
  assert (Hw64 : d_next_write d + dg < two64) by lia.
  rewrite (w64_small _ Hw64).
  assert (Hsub : sub64 (d_next_write d + dg) (v_daddr v) = wr + dg).
  { rewrite sub64_small by lia. unfold wr. lia. }
  rewrite Hsub.
  destruct (floor_mult sg (wr + dg) gs) as [ka [Hka [Hka1 Hka2]]].
  unfold buf_move. rewrite bg. destruct (sg =? 0) eqn:Zs; [lia|]. rewrite Hka, bo, Hkb.
  assert (Hkab : kb <= ka) by (apply (floor_mono sg wr (wr + dg) ka kb gs Hkb1 ltac:(lia) Hka2)).
  destruct (mult_of dg wr gd wr2) as [kw Hkw].
  (* the new buffer, in both cases *)
  assert (NEW : forall bf,
    bf = (if ka * sg <=? kb * sg then d_buf d
          else mk_buf (ka * sg) sg (if N.of_nat (length (b_chunks (d_buf d))) <? (ka * sg - kb * sg) / sg then []
                                    else skipn (N.to_nat ((ka * sg - kb * sg) / sg)) (b_chunks (d_buf d)))) ->
    b_gran bf = sg /\ b_off bf = ka * sg /\
    (forall j c, nth_error (b_chunks bf) j = Some c -> nth_error (b_chunks (d_buf d)) (N.to_nat (ka - kb) + j) = Some c)).
  { intros bf ->. destruct (ka * sg <=? kb * sg) eqn:Le.
    - assert (ka = kb) by (apply N.leb_le in Le; apply N.mul_le_mono_pos_r in Le; [lia|exact gs]). subst ka. split; [exact bg|split; [rewrite bo, Hkb; reflexivity|]].
      intros j c Hj. replace (N.to_nat (kb - kb)) with 0%nat by lia. exact Hj.
    - cbn [b_gran b_off b_chunks]. split; [reflexivity|split; [reflexivity|]].
      replace (ka * sg - kb * sg) with ((ka - kb) * sg) by (rewrite N.mul_sub_distr_r; reflexivity). rewrite (mult_div sg _ gs).
      destruct (N.of_nat (length (b_chunks (d_buf d))) <? ka - kb); intros j c Hj; [destruct j; discriminate|].
      rewrite nth_error_skipn' in Hj. exact Hj. }
  rewrite if_ret. intro E. injection E as <- <-.
  match goal with |- sinv ?D /\ _ => set (dn := D) end.
  specialize (NEW (d_buf dn) eq_refl). destruct NEW as [Ng [No Nc]].
  split; [|split; [|split; [reflexivity|unfold moves_so_far; subst dn; cbn [g_acks d_active d_req]; rewrite Act; reflexivity]]].
  - constructor; cbn [dn d_sg d_dg d_req d_dside d_next_read d_next_write d_pread upd with_port]; fold v sg dg rd; try assumption.
    + tauto.
    + split; [lia|]. replace (d_next_write d + dg - v_daddr v) with (wr + dg) by (unfold wr; lia).
      split; [|exact Hwd]. rewrite Hkw. replace (kw * dg + dg) with ((kw + 1) * dg) by lia. apply mult_mod. exact gd.
    + replace (d_next_write d + dg - v_daddr v) with (wr + dg) by (unfold wr; lia). rewrite No, Hka. reflexivity.
    + intros j c Hj Hv. rewrite No. apply Nc in Hj. pose proof (ch _ c Hj Hv) as B. rewrite bo, Hkb in B. fold sg rd in B.
      rewrite Nat2N.inj_add, N2Nat.id in B.
      replace ((N.of_nat j + 1) * sg) with ((N.of_nat j + 1) * sg) by reflexivity.
      apply (shift_le sg ka kb (N.of_nat j + 1) rd Hkab).
      replace (ka - kb + (N.of_nat j + 1)) with (ka - kb + N.of_nat j + 1) by (clear; lia). exact B.
    + intros id a Hin. destruct (pr id a Hin) as [P1 [P2 [P3 [P4 P5]]]]. fold v sg rd in P1, P2, P3, P4, P5.
      rewrite bo, Hkb in P4, P5. set (r := a - v_saddr v) in *.
      destruct (mult_of sg r gs P2) as [kr Hkr]. rewrite Hkr in P4, P5. rewrite <- N.mul_sub_distr_r, (mult_div sg _ gs) in P5.
      assert (Hkbr : kb <= kr) by (apply (N.mul_le_mono_pos_r _ _ sg gs); exact P4).
      assert (Hge : ka <= kr).
      { destruct (N.le_gt_cases ka kr) as [|Hlt]; [assumption|exfalso].
        pose proof (slot_bound sg kr ka kb wr dg (N.of_nat i) gs Hlt Hka1 Ci Hkb1) as Hb.
        assert (Hj : (N.to_nat (kr - kb) <= i)%nat) by (clear - Hb; lia).
        destruct (Vi _ Hj) as [c [Hc Hcv]].
        rewrite (P5 c Hc) in Hcv. discriminate. }
      split; [exact P1|split; [exact P2|split; [exact P3|]]]. rewrite No, Hkr.
      split; [apply N.mul_le_mono_r; exact Hge|].
      intros c Hc. apply Nc in Hc. apply P5.
      rewrite <- N.mul_sub_distr_r, (mult_div sg _ gs) in Hc.
      replace (N.to_nat (kr - kb)) with (N.to_nat (ka - kb) + N.to_nat (kr - ka))%nat by (clear - Hkab Hge; lia). exact Hc.
  - assert (MS : moves_so_far dn = moves_so_far d)
      by (unfold moves_so_far, dn; cbn [g_acks d_active d_req]; rewrite Act; reflexivity).
    unfold winv. rewrite MS. cbn [dn g_writes]. apply Forall_app. split; [exact W|].
    constructor; [|constructor]. exists v. split.
    + unfold moves_so_far. rewrite Act. apply in_or_app. right. left. reflexivity.
    + unfold in_range. split; [exact sside|]. split; [exact wr1|]. rewrite Ldata. unfold wr in Hwd. clear - Hwd rd3 wr1. lia.
Qed.
