(** C23 — facts about the byte memories ([mem_read] / [mem_write]) and list slicing. *)
From Coq Require Import Permutation.
From Akita Require Import Lib.Base C23.Model.
Local Open Scope N_scope.

Lemma firstn_add {A} (l : list A) : forall n k, firstn n l ++ firstn k (skipn n l) = firstn (n + k) l.
Proof.
  induction l as [|x r IH]; intros [|n] k; cbn [firstn skipn plus app]; try reflexivity.
  - destruct k; reflexivity.
  - rewrite IH. reflexivity.
Qed.

Lemma skipn_add {A} (l : list A) : forall n k, skipn k (skipn n l) = skipn (n + k) l.
Proof.
  induction l as [|x r IH]; intros [|n] k; cbn [skipn plus]; try reflexivity.
  - destruct k; reflexivity.
  - apply IH.
Qed.

Lemma firstn_skipn_firstn {A} (l : list A) : forall g so n, (so + n <= g)%nat ->
  firstn n (skipn so (firstn g l)) = firstn n (skipn so l).
Proof.
  induction l as [|x r IH]; intros g so n H.
  - rewrite firstn_nil. reflexivity.
  - destruct g as [|g].
    + assert (so = 0 /\ n = 0)%nat as [-> ->] by lia. reflexivity.
    + destruct so as [|so]; cbn [firstn skipn].
      * destruct n as [|n]; [reflexivity|]. cbn [firstn]. f_equal.
        apply (IH g 0%nat n). lia.
      * apply IH. lia.
Qed.

(** consecutive reads concatenate *)
Lemma mem_read_app m a n k : mem_read m a n ++ mem_read m (a + n) k = mem_read m a (n + k).
Proof.
  unfold mem_read. rewrite !N2Nat.inj_add, <- skipn_add. apply firstn_add.
Qed.

(** a slice of a read is a read *)
Lemma mem_read_slice m a g so n : so + n <= g ->
  firstn (N.to_nat n) (skipn (N.to_nat so) (mem_read m a g)) = mem_read m (a + so) n.
Proof.
  intro H. unfold mem_read. rewrite N2Nat.inj_add, <- skipn_add.
  apply firstn_skipn_firstn. lia.
Qed.

Lemma mem_read_length m a n : a + n <= N.of_nat (length m) -> length (mem_read m a n) = N.to_nat n.
Proof. intro H. unfold mem_read. rewrite firstn_length, skipn_length. lia. Qed.

Lemma mem_write_length m a x : length (mem_write m a x) = length m.
Proof.
  unfold mem_write. destruct (length m <=? N.to_nat a)%nat eqn:E; [reflexivity|].
  apply Nat.leb_gt in E. rewrite !app_length, !firstn_length, skipn_length. lia.
Qed.

Lemma firstn_skipn_app_l {A} (a r : list A) kb kn : (kb + kn <= length a)%nat ->
  firstn kn (skipn kb (a ++ r)) = firstn kn (skipn kb a).
Proof.
  intro H. rewrite skipn_app, firstn_app, skipn_length.
  replace (kb - length a)%nat with 0%nat by lia. replace (kn - (length a - kb))%nat with 0%nat by lia.
  cbn [skipn firstn]. apply app_nil_r.
Qed.

Lemma skipn_app_r {A} (a r : list A) kb : (length a <= kb)%nat -> skipn kb (a ++ r) = skipn (kb - length a) r.
Proof. intro H. rewrite skipn_app. rewrite (@skipn_all2 _ kb a) by lia. reflexivity. Qed.

(** a write that fits replaces exactly its range *)
Lemma mem_write_fits m a x : a + N.of_nat (length x) <= N.of_nat (length m) -> 0 < N.of_nat (length x) ->
  mem_write m a x = firstn (N.to_nat a) m ++ x ++ skipn (N.to_nat a + length x)%nat m.
Proof.
  intros H Hx. unfold mem_write. destruct (length m <=? N.to_nat a)%nat eqn:E; [apply Nat.leb_le in E; lia|].
  rewrite (firstn_all2 (n := (length m - N.to_nat a)%nat) x) by lia. reflexivity.
Qed.

Lemma mem_split {A} (m : list A) (ka lx : nat) : m = firstn ka m ++ firstn lx (skipn ka m) ++ skipn (ka + lx)%nat m.
Proof. rewrite app_assoc, firstn_add. symmetry. apply firstn_skipn. Qed.

(** read after write, same range *)
Lemma mem_read_write_same m a x : a + N.of_nat (length x) <= N.of_nat (length m) -> 0 < N.of_nat (length x) ->
  mem_read (mem_write m a x) a (N.of_nat (length x)) = x.
Proof.
  intros H Hx. rewrite (mem_write_fits m a x H Hx). unfold mem_read.
  rewrite skipn_app_r by (rewrite firstn_length; lia).
  rewrite firstn_length. replace (N.to_nat a - Nat.min (N.to_nat a) (length m))%nat with 0%nat by lia.
  cbn [skipn]. rewrite Nat2N.id, firstn_app, Nat.sub_diag, firstn_all. cbn [firstn]. apply app_nil_r.
Qed.

(** read after write, disjoint range *)
Lemma mem_read_write_disjoint m a x b n : a + N.of_nat (length x) <= N.of_nat (length m) -> 0 < N.of_nat (length x) ->
  b + n <= a \/ a + N.of_nat (length x) <= b ->
  mem_read (mem_write m a x) b n = mem_read m b n.
Proof.
  intros H Hx D. rewrite (mem_write_fits m a x H Hx). unfold mem_read.
  set (ka := N.to_nat a). set (kb := N.to_nat b). set (kn := N.to_nat n). set (lx := length x).
  rewrite (mem_split m ka lx) at 3.
  assert (La : length (firstn ka m) = ka) by (rewrite firstn_length; lia).
  destruct D as [D|D].
  - rewrite !firstn_skipn_app_l by lia. reflexivity.
  - rewrite !skipn_app_r by lia. rewrite La.
    rewrite !skipn_app_r by (rewrite ?firstn_length, ?skipn_length; lia).
    rewrite firstn_length, skipn_length. replace (Nat.min lx (length m - ka)) with lx by lia. reflexivity.
Qed.

(** chunk-wise equality of two ranges gives equality of the ranges *)
Lemma mem_read_chunks ms md sa da g : 0 < g -> forall k : nat,
  (forall j : nat, (j < k)%nat -> mem_read md (da + N.of_nat j * g) g = mem_read ms (sa + N.of_nat j * g) g) ->
  mem_read md da (N.of_nat k * g) = mem_read ms sa (N.of_nat k * g).
Proof.
  intros Hg. induction k as [|k IH]; intro H.
  - cbn. unfold mem_read. reflexivity.
  - replace (N.of_nat (S k) * g) with (N.of_nat k * g + g) by lia.
    rewrite <- !mem_read_app. rewrite IH by (intros j Hj; apply H; lia).
    rewrite (H k) by lia. reflexivity.
Qed.

(** removing the k-th element *)
Lemma remove_nth_perm {A} (l : list A) : forall k y, nth_error l k = Some y -> Permutation l (y :: remove_nth k l).
Proof.
  induction l as [|x r IH]; intros [|k] y H; cbn [nth_error] in H; try discriminate.
  - inversion H; subst. apply Permutation_refl.
  - cbn [remove_nth]. eapply Permutation_trans; [apply perm_skip, (IH k y H)|apply perm_swap].
Qed.

Lemma In_remove_nth {A} (l : list A) k x : In x (remove_nth k l) -> In x l.
Proof.
  revert k. induction l as [|y r IH]; intros [|k]; cbn [remove_nth]; try tauto.
  - intro H. right. exact H.
  - intros [->|H]; [left; reflexivity|right; apply (IH k H)].
Qed.
