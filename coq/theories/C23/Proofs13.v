(** C23 — proofs, part 13: the content invariant through readFromSrc and writeToDst. *)
From Coq Require Import Permutation.
From Akita Require Import Lib.Base C23.Model C23.Mem C23.Proofs C23.Proofs3 C23.Proofs4 C23.Proofs5 C23.Proofs6 C23.Proofs9 C23.Proofs10 C23.Proofs11 C23.Proofs12.
Local Open Scope N_scope.
Local Ltac Zify.zify_post_hook ::= idtac.

Lemma perm_snoc_mid {A} (l r : list A) x : Permutation ((l ++ [x]) ++ r) (x :: l ++ r).
Proof. rewrite <- app_assoc. cbn [app]. apply Permutation_sym, Permutation_middle. Qed.

Lemma in_snoc_mid {A} (l r : list A) x y : In y ((l ++ [x]) ++ r) <-> y = x \/ In y (l ++ r).
Proof.
  rewrite !in_app_iff. cbn [In]. split; [intros [[H|[H|[]]]|H]; auto|intros [H|[H|H]]; auto].
Qed.

(** sending one more request with the next id on side [s0] *)
Lemma UB_send d d' pi po s0 m : s0 <= 1 -> d_next_id d' = d_next_id d + 1 -> mid m = d_next_id d ->
  port_of d' s0 = mk_port (p_in (port_of d s0)) (p_out (port_of d s0) ++ [m]) (p_cap (port_of d s0)) ->
  (forall s, s <= 1 -> s <> s0 -> port_of d' s = port_of d s) ->
  UB d pi po -> UB d' pi po.
Proof.
  intros H0 Hid Hm P0 Ps U. apply (UB_grow d d' pi po s0 H0 Hid); [| |exact U].
  - unfold idlist. rewrite P0. cbn [p_out p_in]. rewrite <- Hm.
    change (mid m :: map mid (p_out (port_of d s0) ++ pick s0 pi po) ++ map rid (p_in (port_of d s0)))
      with ((mid m :: map mid (p_out (port_of d s0) ++ pick s0 pi po)) ++ map rid (p_in (port_of d s0))).
    apply Permutation_app_tail. change (mid m :: map mid (p_out (port_of d s0) ++ pick s0 pi po))
      with (map mid (m :: p_out (port_of d s0) ++ pick s0 pi po)).
    apply Permutation_map. apply perm_snoc_mid.
  - intros s Hs Hne. unfold idlist. rewrite (Ps s Hs Hne). reflexivity.
Qed.

Lemma UB_bump d d' pi po : d_next_id d <= d_next_id d' -> (forall s, port_of d' s = port_of d s) -> UB d pi po -> UB d' pi po.
Proof.
  intros Hid Hp U. apply (UB_shrink d d' pi po pi po Hid); [|exact U].
  intros s Hs. exists []. unfold idlist. rewrite Hp. apply Permutation_refl.
Qed.

(** ---- readFromSrc *)
Lemma read_src_cinv d mi mo pi po p d' : d_active d = true -> cinv d mi mo pi po -> UB d pi po ->
  read_src d = Ret (p, d') -> cinv d' mi mo pi po /\ UB d' pi po.
Proof.
  intros Act C U. pose proof C as [Hss Hds Sep Nw Fs Fd R B W].
  unfold read_src. rewrite Act. cbn [negb].
  destruct (d_sg d =? 0); [discriminate|]. cbv zeta.
  destruct (w64 (b_off (d_buf d) + d_bufsize d) <=? sub64 (d_next_read d / d_sg d * d_sg d) (v_saddr (d_req d))).
  { intro E. injection E as <- <-. split; assumption. }
  destruct (w64 (v_saddr (d_req d) + v_size (d_req d)) <=? d_next_read d / d_sg d * d_sg d).
  { intro E. injection E as <- <-. split; assumption. }
  rewrite (side_port_of d _ Hss). set (q := port_of d (d_sside d)) in *.
  set (addr := d_next_read d / d_sg d * d_sg d).
  destruct (can_send q).
  2:{ intro E. injection E as <- <-. split.
      - constructor; assumption.
      - apply (UB_bump d); [cbn; lia|reflexivity|exact U]. }
  intro E. injection E as <- <-.
  match goal with |- cinv ?D _ _ _ _ /\ _ => set (du := D) end.
  set (m := MRead (d_next_id d) addr (d_sg d)).
  assert (Pss : port_of du (d_sside d) = mk_port (p_in q) (p_out q ++ [m]) (p_cap q)).
  { unfold du. change (port_of (upd ?x _ _ _ _ _ _ _ _) ?s) with (port_of x s).
    rewrite port_of_with_port by assumption. rewrite N.eqb_refl. reflexivity. }
  assert (Pother : forall s, s <= 1 -> s <> d_sside d -> port_of du s = port_of d s).
  { intros s Hs Hn. unfold du. change (port_of (upd ?x _ _ _ _ _ _ _ _) ?s) with (port_of x s).
    rewrite port_of_with_port by assumption. destruct (d_sside d =? s) eqn:E; [lia|reflexivity]. }
  assert (Fresh : forall id, In id (idlist d pi po (d_sside d)) -> id <> d_next_id d).
  { intros id Hin. destruct (U _ Hss) as [_ Fr]. pose proof (Fr id Hin). lia. }
  assert (Pall : forall s, port_of du s = port_of (sent d (d_sside d) m) s) by reflexivity.
  split.
  - destruct R as [R1 R2].
    constructor; [exact Hss|exact Hds|exact Sep| |exact Fs|exact Fd| |exact B|].
    + intros s Hs id a x Hin. rewrite Pall in Hin. apply (sent_ports d (d_sside d) m s _ Hss Hs) in Hin.
      destruct Hin as [[_ Heq]|Hin]; [discriminate|apply (Nw s Hs id a x Hin)].
    + change (port_of du (d_sside du)) with (port_of du (d_sside d)). rewrite Pss.
      change (d_pread du) with ((d_next_id d, addr) :: d_pread d). cbn [p_out p_in].
      split.
      * intros id a n Hin a' Ha'. apply in_snoc_mid in Hin. cbn [aget] in Ha'. destruct Hin as [Heq|Hin].
        -- inversion Heq; subst. rewrite N.eqb_refl in Ha'. inversion Ha'. split; reflexivity.
        -- assert (id <> d_next_id d).
           { apply Fresh. unfold idlist. fold q. apply in_or_app. left. apply (in_map mid) in Hin. exact Hin. }
           destruct (d_next_id d =? id) eqn:E; [lia|]. apply (R1 id a n Hin a' Ha').
      * intros id x Hin a Ha. cbn [aget] in Ha.
        assert (id <> d_next_id d).
        { apply Fresh. unfold idlist. fold q. apply in_or_app. right. apply (in_map rid) in Hin. exact Hin. }
        destruct (d_next_id d =? id) eqn:E; [lia|]. apply (R2 id x Hin a Ha).
    + change (port_of du (d_dside du)) with (port_of du (d_dside d)). rewrite Pall.
      apply (WB_eqw (port_of d (d_dside d)) (pick (d_dside d) pi po)); [|exact W].
      intros id a x. rewrite (proj2 (sent_ports d (d_sside d) m (d_dside d) _ Hss Hds)).
      split; [intros [[_ Heq]|H]; [discriminate|exact H]|auto].
  - apply (UB_send d du pi po (d_sside d) m Hss); [reflexivity|reflexivity|exact Pss|exact Pother|exact U].
Qed.

Lemma buf_move_spec b new b' : buf_move b new = Ret b' -> 0 < b_gran b ->
  b_gran b' = b_gran b /\
  ((b' = b /\ new / b_gran b * b_gran b <= b_off b) \/
   (b_off b' = new / b_gran b * b_gran b /\ b_off b < b_off b' /\
    forall j c, nth_error (b_chunks b') j = Some c ->
                nth_error (b_chunks b) (N.to_nat ((b_off b' - b_off b) / b_gran b) + j) = Some c)).
Proof.
  unfold buf_move. intros E Hg. destruct (b_gran b =? 0) eqn:Z; [lia|].
  destruct (new / b_gran b * b_gran b <=? b_off b) eqn:L.
  - inversion E; subst. split; [reflexivity|left; split; [reflexivity|lia]].
  - inversion E; subst b'. cbn [b_gran b_off b_chunks]. split; [reflexivity|right].
    split; [reflexivity|split; [lia|]].
    destruct (N.of_nat (length (b_chunks b)) <? (new / b_gran b * b_gran b - b_off b) / b_gran b); intros j c Hj.
    + destruct j; discriminate.
    + rewrite nth_error_skipn' in Hj. exact Hj.
Qed.

(** ---- writeToDst *)
Lemma write_dst_cinv d mi mo pi po p d' : d_active d = true -> sinv d -> cinv d mi mo pi po -> UB d pi po ->
  write_dst d = Ret (p, d') -> cinv d' mi mo pi po /\ UB d' pi po.
Proof.
  intros Act S C U. pose proof C as [Hss Hds Sep Nw Fs Fd R B W].
  unfold write_dst. rewrite Act. cbn [negb].
  destruct S as [gs gd ms md ws wd sal sside [rd1 [rd2 rd3]] [wr1 [wr2 wr3]] bg bo ch pr pn].
  set (v := d_req d) in *. set (sg := d_sg d) in *. set (dg := d_dg d) in *.
  set (wr := d_next_write d - v_daddr v) in *. set (rd := d_next_read d - v_saddr v) in *.
  assert (Hnw64 : d_next_write d < two64) by (clear - wr1 wr3 rd3 wd; lia).
  rewrite (sub64_small _ _ wr1 Hnw64). fold wr.
  destruct (floor_mult sg wr gs) as [kb [Hkb [Hkb1 Hkb2]]].
  destruct (buf_extract (d_buf d) wr dg) as [[data|]| |] eqn:EX; try discriminate.
  2:{ intro E. injection E as <- <-. split; assumption. }
  rewrite (side_port_of d _ Hds). set (q := port_of d (d_dside d)) in *.
  assert (G1 : 0 < b_gran (d_buf d)) by (rewrite bg; exact gs).
  assert (G2 : b_off (d_buf d) <= wr) by (rewrite bo, Hkb; exact Hkb1).
  assert (G3 : wr < two64) by (clear - Hnw64; lia).
  assert (G4 : wr - b_off (d_buf d) < b_gran (d_buf d)) by (rewrite bo, bg, Hkb; clear - Hkb1 Hkb2; lia).
  destruct (buf_extract_cover (d_buf d) wr dg data G1 G2 G3 G4 gd EX) as [Ldata [i [Vi Ci]]].
  rewrite bg, bo, Hkb in Ci. destruct (Vi i (le_n i)) as [ci [Hci Hvi]].
  pose proof (ch i ci Hci Hvi) as Bi. rewrite bo, Hkb in Bi. fold sg rd in Bi.
  assert (Hwd : wr + dg <= rd) by (clear - Ci Bi Hkb1; lia).
  (* what was extracted *)
  assert (Hdata : data = mem_read (pick (d_sside d) mi mo) (v_saddr v + wr) dg).
  { rewrite (buf_extract_content (pick (d_sside d) mi mo) (v_saddr v + b_off (d_buf d)) (d_buf d) wr dg data G1 G2 G3 G4 gd).
    - f_equal. clear - G2. lia.
    - intros j c Hj Hv. rewrite bg. apply (B j c Hj Hv).
    - exact EX. }
  destruct (can_send q).
  2:{ intro E. injection E as <- <-. split.
      - constructor; assumption.
      - apply (UB_bump d); [cbn; lia|reflexivity|exact U]. }
  assert (Hw64 : d_next_write d + dg < two64) by (unfold wr, rd in *; clear - Hwd rd3 wr1 wd; lia).
  rewrite (w64_small _ Hw64).
  assert (Hsub : sub64 (d_next_write d + dg) (v_daddr v) = wr + dg).
  { rewrite sub64_small by (clear - wr1 Hw64; lia). unfold wr. clear - wr1. lia. }
  rewrite Hsub.
  destruct (buf_move (d_buf d) (wr + dg)) as [bf| |] eqn:BM; try discriminate.
  destruct (buf_move_spec _ _ _ BM G1) as [Mg Mc].
  intro E. injection E as <- <-.
  match goal with |- cinv ?D _ _ _ _ /\ _ => set (du := D) end.
  set (m := MWrite (d_next_id d) (d_next_write d) data).
  assert (Pds : port_of du (d_dside d) = mk_port (p_in q) (p_out q ++ [m]) (p_cap q)).
  { unfold du, port_of, pick. cbn [d_inside d_outside upd with_port]. fold (pick (d_dside d) (d_inside d) (d_outside d)).
    destruct (d_dside d =? 0) eqn:E0; reflexivity. }
  assert (Pother : forall s, s <= 1 -> s <> d_dside d -> port_of du s = port_of d s).
  { intros s Hs Hn. unfold du, port_of, pick. cbn [d_inside d_outside upd with_port].
    destruct (d_dside d =? 0) eqn:E0, (s =? 0) eqn:E1; try reflexivity; lia. }
  assert (Pall : forall s, port_of du s = port_of (sent d (d_dside d) m) s).
  { intro s. unfold du, sent, port_of, pick. cbn [d_inside d_outside upd with_port]. fold (pick (d_dside d) (d_inside d) (d_outside d)). reflexivity. }
  split.
  - constructor; [exact Hss|exact Hds|exact Sep| |exact Fs|exact Fd| | |].
    + intros s Hs id a x Hin. rewrite Pall in Hin. apply (sent_ports d (d_dside d) m s _ Hds Hs) in Hin.
      destruct Hin as [[Heq _]|Hin]; [exact Heq|apply (Nw s Hs id a x Hin)].
    + change (port_of du (d_sside du)) with (port_of du (d_sside d)). rewrite Pall.
      destruct (sent_ports d (d_dside d) m (d_sside d) (pick (d_sside d) pi po) Hds Hss) as [Pi Po].
      apply (RB_mono (port_of d (d_sside d)) (pick (d_sside d) pi po) _ _ (d_pread d) _ _ _); [| |auto|exact R].
      * intros id a n Hin. apply Po in Hin. destruct Hin as [[_ Heq]|Hin]; [discriminate|exact Hin].
      * intros id x. rewrite Pi. tauto.
    + (* the moved buffer *)
      change (d_buf du) with bf. change (d_req du) with v. change (d_sside du) with (d_sside d). change (d_sg du) with sg.
      destruct Mc as [[-> _]|[Mo [Mlt Mn]]]; [exact B|].
      intros j c Hj Hv. rewrite (B _ c (Mn j c Hj) Hv). f_equal. rewrite bg.
      destruct (floor_mult sg (wr + dg) gs) as [ka [Hka _]]. rewrite bg in Mo. rewrite Mo, Hka, bo, Hkb in *.
      assert (kb < ka) by (clear - Mlt gs; nia).
      rewrite <- N.mul_sub_distr_r, (mult_div sg _ gs), Nat2N.inj_add, N2Nat.id. clear - H. nia.
    + (* writes *)
      change (port_of du (d_dside du)) with (port_of du (d_dside d)). rewrite Pds. cbn [p_out].
      change (d_pwrite du) with ((d_next_id d, d_next_write d) :: d_pwrite d).
      change (d_next_write du) with (d_next_write d + dg). change (d_req du) with v. change (d_dg du) with dg.
      change (d_sside du) with (d_sside d). change (d_dside du) with (d_dside d).
      replace (d_next_write d + dg - v_daddr v) with (wr + dg) by (unfold wr; clear - wr1; lia).
      destruct W as [W1 W2]. fold v dg wr in W1, W2. split.
      * intros id a x Hin. apply in_snoc_mid in Hin. destruct Hin as [Heq|Hin].
        -- inversion Heq; subst id a x. split; [exists (d_next_write d); cbn [aget]; rewrite N.eqb_refl; reflexivity|].
           exists wr. split; [unfold wr; clear - wr1; lia|split; [exact wr2|split; [clear - gd; lia|exact Hdata]]].
        -- destruct (W1 id a x Hin) as [[a' Ha'] [o [O1 [O2 [O3 O4]]]]]. split.
           ++ cbn [aget]. destruct (d_next_id d =? id); eauto.
           ++ exists o. split; [exact O1|split; [exact O2|split; [clear - O3; lia|exact O4]]].
      * intros o Ho1 Ho2. destruct (N.lt_ge_cases o wr) as [Hlt|Hge].
        -- destruct (W2 o Ho1 Hlt) as [L|[id Hin]]; [left; exact L|right]. exists id. apply in_snoc_mid. right. exact Hin.
        -- assert (o = wr).
           { destruct (mult_of dg o gd Ho1) as [ko Hko]. destruct (mult_of dg wr gd wr2) as [kw Hkw].
             rewrite Hko, Hkw in *. assert (ko = kw) by (clear - Hge Ho2 gd; nia). subst. reflexivity. }
           subst o. right. exists (d_next_id d). apply in_snoc_mid. left. unfold m. f_equal; [unfold wr; clear - wr1; lia|symmetry; exact Hdata].
  - apply (UB_send d du pi po (d_dside d) m Hds); [reflexivity|reflexivity|exact Pds|exact Pother|exact U].
Qed.
