(** C23 — executable model of the data mover (mem/datamover): the buffer helpers of comp.go
    (bufferAddData / bufferExtractData / bufferMoveOffsetForwardTo), ctrlparsemw.go
    (parseFromCP / finishTransaction) and datatransfermw.go (the four transfer steps), driven
    tick by tick through the component's real Top / Inside / Outside ports (bounded FIFOs),
    with the sequential ID generator as a counter.  uint64 arithmetic wraps.

    Outcomes that are not normal returns are explicit: [Panic] (log.Panicf / index out of
    range / division by zero) and [Blowup] (bufferAddData asked for a slot below the buffer
    offset: the uint64 subtraction wraps and the chunk slice is grown without bound).
    No control traffic: the component stays Enabled; the mappers are "single". *)
From Akita Require Import Lib.Base.
Local Open Scope N_scope.

Definition sub64 (a b : N) : N := (a + two64 - b mod two64) mod two64.

(** ---- the buffer *)
Record chunk := mk_chunk { ch_data : list N; ch_valid : bool }.
Record buffer := mk_buf { b_off : N; b_gran : N; b_chunks : list chunk }.

Inductive outcome (A : Type) := Ret (x : A) | Panic | Blowup.
Arguments Ret {A} x. Arguments Panic {A}. Arguments Blowup {A}.

Fixpoint set_nth {A} (n : nat) (x : A) (l : list A) : list A :=
  match n, l with
  | O, _ :: r => x :: r
  | S k, y :: r => y :: set_nth k x r
  | _, [] => []
  end.

(** bufferAddData *)
Definition buf_add (b : buffer) (offset : N) (data : list N) : outcome buffer :=
  if b_gran b =? 0 then Panic                               (* offset % 0 *)
  else if negb (offset mod b_gran b =? 0) then Panic        (* addressMustBeAligned *)
  else
    let slot := sub64 offset (b_off b) / b_gran b in
    if offset <? b_off b then Blowup
    else
      let n := N.to_nat slot in
      let padded := b_chunks b ++ repeat (mk_chunk [] false) (S n - length (b_chunks b)) in
      Ret (mk_buf (b_off b) (b_gran b) (set_nth n (mk_chunk data true) padded)).

(** the copy loop of bufferExtractData over the chunks from [slot] on *)
Fixpoint extract_loop (g : N) (cs : list chunk) (slot_off size_left : N) (acc : list N) : outcome (option (list N)) :=
  match cs with
  | [] => Ret None
  | c :: rest =>
      if negb (ch_valid c) then Ret None
      else
        let n := N.min (g - slot_off) size_left in
        if N.of_nat (length (ch_data c)) <? slot_off + n then Panic        (* slice bounds out of range *)
        else
          let acc' := acc ++ firstn (N.to_nat n) (skipn (N.to_nat slot_off) (ch_data c)) in
          if size_left - n =? 0 then Ret (Some acc') else extract_loop g rest 0 (size_left - n) acc'
  end.

(** bufferExtractData: [Ret None] is the (nil, false) result *)
Definition buf_extract (b : buffer) (offset size : N) : outcome (option (list N)) :=
  if b_gran b =? 0 then Panic
  else
    let rel := sub64 offset (b_off b) in
    let slot := rel / b_gran b in
    let slot_off := rel - slot * b_gran b in
    if N.of_nat (length (b_chunks b)) <=? slot then Ret None        (* the loop body never runs *)
    else extract_loop (b_gran b) (skipn (N.to_nat slot) (b_chunks b)) slot_off size [].

(** bufferMoveOffsetForwardTo *)
Definition buf_move (b : buffer) (new_off : N) : outcome buffer :=
  if b_gran b =? 0 then Panic
  else
    let aligned := new_off / b_gran b * b_gran b in
    if aligned <=? b_off b then Ret b
    else
      let discard := (aligned - b_off b) / b_gran b in
      Ret (mk_buf aligned (b_gran b)
                  (if N.of_nat (length (b_chunks b)) <? discard then [] else skipn (N.to_nat discard) (b_chunks b))).

(** ---- messages *)
Record move := mk_move { v_id : N; v_src : N; v_saddr : N; v_daddr : N; v_size : N; v_sside : N; v_dside : N }.
   (* sides: 0 = "inside", 1 = "outside", anything else = an unknown side string *)
Record ack := mk_ack { a_id : N; a_dst : N; a_rspto : N }.
Inductive mreq := MRead (id addr size : N) | MWrite (id addr : N) (data : list N).
Inductive mrsp := MData (rspto : N) (data : list N) | MDone (rspto : N).

Record port := mk_port { p_in : list mrsp; p_out : list mreq; p_cap : N }.

Record dm := mk_dm {
  d_bufsize : N; d_gin : N; d_gout : N;          (* Spec *)
  d_next_id : N;
  d_active : bool; d_req : move;                 (* CurrentTransaction *)
  d_next_read : N; d_next_write : N;
  d_pread : list (N * N);                        (* PendingRead: id -> address *)
  d_pwrite : list (N * N);                       (* PendingWrite: id -> address *)
  d_buf : buffer;
  d_sg : N; d_dg : N; d_sside : N; d_dside : N;  (* State.Src/DstByteGranularity, Src/DstSide *)
  d_top_in : list move; d_top_out : list ack; d_top_cap : N;
  d_inside : port; d_outside : port;
  g_acks : list (ack * move);                    (* ghost: acknowledgments with the move they close *)
  g_writes : list (N * N * list N)               (* ghost: (side, addr, data) of every write sent *)
}.

Definition no_move : move := mk_move 0 0 0 0 0 0 0.

Definition side_port (d : dm) (side : N) : option port :=
  if side =? 0 then Some (d_inside d) else if side =? 1 then Some (d_outside d) else None.

Definition with_port (d : dm) (side : N) (p : port) : dm :=
  mk_dm (d_bufsize d) (d_gin d) (d_gout d) (d_next_id d) (d_active d) (d_req d) (d_next_read d) (d_next_write d)
        (d_pread d) (d_pwrite d) (d_buf d) (d_sg d) (d_dg d) (d_sside d) (d_dside d)
        (d_top_in d) (d_top_out d) (d_top_cap d)
        (if side =? 0 then p else d_inside d) (if side =? 0 then d_outside d else p) (g_acks d) (g_writes d).

Definition can_send (p : port) : bool := N.of_nat (length (p_out p)) <? p_cap p.

Fixpoint aget (k : N) (m : list (N * N)) : option N :=
  match m with [] => None | (k', v) :: r => if k' =? k then Some v else aget k r end.
Fixpoint adel (k : N) (m : list (N * N)) : list (N * N) :=
  match m with [] => [] | (k', v) :: r => if k' =? k then adel k r else (k', v) :: adel k r end.

Definition gran_of (d : dm) (side : N) : option N :=
  if side =? 0 then Some (d_gin d) else if side =? 1 then Some (d_gout d) else None.

(** the fields the transfer steps change *)
Definition upd (d : dm) id act rq nr nw pr pw bf : dm :=
  mk_dm (d_bufsize d) (d_gin d) (d_gout d) id act rq nr nw pr pw bf (d_sg d) (d_dg d) (d_sside d) (d_dside d)
        (d_top_in d) (d_top_out d) (d_top_cap d) (d_inside d) (d_outside d) (g_acks d) (g_writes d).

(** finishTransaction *)
Definition finish (d : dm) : bool * dm :=
  if negb (d_active d) then (false, d)
  else if d_next_write d <? w64 (v_daddr (d_req d) + v_size (d_req d)) then (false, d)
  else if negb ((length (d_pread d) =? 0)%nat && (length (d_pwrite d) =? 0)%nat) then (false, d)
  else
    let a := mk_ack (d_next_id d) (v_src (d_req d)) (v_id (d_req d)) in
    let id' := d_next_id d + 1 in
    if N.of_nat (length (d_top_out d)) <? d_top_cap d then
      (true, mk_dm (d_bufsize d) (d_gin d) (d_gout d) id' false no_move 0 0 [] []
                   (mk_buf (v_saddr (d_req d) / d_sg d * d_sg d) (d_sg d) []) (d_sg d) (d_dg d) (d_sside d) (d_dside d)
                   (d_top_in d) (d_top_out d ++ [a]) (d_top_cap d) (d_inside d) (d_outside d)
                   (g_acks d ++ [(a, d_req d)]) (g_writes d))
    else (false, upd d id' (d_active d) (d_req d) (d_next_read d) (d_next_write d) (d_pread d) (d_pwrite d) (d_buf d)).

(** parseFromCP: the request is retrieved before the checks that can panic *)
Definition parse_cp (d : dm) : outcome (bool * dm) :=
  if d_active d then Ret (false, d)
  else
    match d_top_in d with
    | [] => Ret (false, d)
    | v :: rest =>
        match gran_of d (v_sside v), gran_of d (v_dside v) with
        | Some sg, Some dg =>
            if (sg =? 0) || negb (v_saddr v mod sg =? 0) then Panic
            else if (dg =? 0) || negb (v_daddr v mod dg =? 0) then Panic
            else
              Ret (true, mk_dm (d_bufsize d) (d_gin d) (d_gout d) (d_next_id d) true v (v_saddr v) (v_daddr v) [] []
                               (mk_buf 0 sg []) sg dg (v_sside v) (v_dside v)
                               rest (d_top_out d) (d_top_cap d) (d_inside d) (d_outside d) (g_acks d) (g_writes d))
        | _, _ => Panic
        end
    end.

(** processWriteDoneFromDst *)
Definition proc_write_done (d : dm) : bool * dm :=
  if negb (d_active d) then (false, d)
  else
    match side_port d (d_dside d) with
    | None => (false, d)
    | Some p =>
        match p_in p with
        | MDone r :: rest =>
            let d' := with_port d (d_dside d) (mk_port rest (p_out p) (p_cap p)) in
            match aget r (d_pwrite d) with
            | None => (true, d')
            | Some _ => (true, upd d' (d_next_id d') (d_active d') (d_req d') (d_next_read d') (d_next_write d')
                                   (d_pread d') (adel r (d_pwrite d')) (d_buf d'))
            end
        | MData _ _ :: rest =>
            (* not a write-done: left for processDataReadyFromSrc when both sides share the port,
               otherwise an orphan that is dropped *)
            if negb (d_sside d =? d_dside d)
            then (true, with_port d (d_dside d) (mk_port rest (p_out p) (p_cap p)))
            else (false, d)
        | [] => (false, d)
        end
    end.

(** writeToDst *)
Definition write_dst (d : dm) : outcome (bool * dm) :=
  if negb (d_active d) then Ret (false, d)
  else
    let offset := sub64 (d_next_write d) (v_daddr (d_req d)) in
    match buf_extract (d_buf d) offset (d_dg d) with
    | Panic => Panic
    | Blowup => Blowup
    | Ret None => Ret (false, d)
    | Ret (Some data) =>
        match side_port d (d_dside d) with
        | None => Panic                                    (* nil port *)
        | Some p =>
            let id := d_next_id d in
            if can_send p then
              let nw := w64 (d_next_write d + d_dg d) in
              match buf_move (d_buf d) (sub64 nw (v_daddr (d_req d))) with
              | Ret bf =>
                  let d1 := with_port d (d_dside d) (mk_port (p_in p) (p_out p ++ [MWrite id (d_next_write d) data]) (p_cap p)) in
                  let d2 := upd d1 (id + 1) true (d_req d) (d_next_read d) nw (d_pread d) ((id, d_next_write d) :: d_pwrite d) bf in
                  Ret (true, mk_dm (d_bufsize d2) (d_gin d2) (d_gout d2) (d_next_id d2) (d_active d2) (d_req d2) (d_next_read d2)
                                   (d_next_write d2) (d_pread d2) (d_pwrite d2) (d_buf d2) (d_sg d2) (d_dg d2) (d_sside d2) (d_dside d2)
                                   (d_top_in d2) (d_top_out d2) (d_top_cap d2) (d_inside d2) (d_outside d2) (g_acks d2)
                                   (g_writes d ++ [(d_dside d, d_next_write d, data)]))
              | Panic => Panic
              | Blowup => Blowup
              end
            else Ret (false, upd d (id + 1) (d_active d) (d_req d) (d_next_read d) (d_next_write d) (d_pread d) (d_pwrite d) (d_buf d))
        end
    end.

(** processDataReadyFromSrc *)
Definition proc_data_ready (d : dm) : outcome (bool * dm) :=
  if negb (d_active d) then Ret (false, d)
  else
    match side_port d (d_sside d) with
    | None => Panic
    | Some p =>
        match p_in p with
        | MData r data :: rest =>
            let d' := with_port d (d_sside d) (mk_port rest (p_out p) (p_cap p)) in
            match aget r (d_pread d) with
            | None => Ret (true, d')
            | Some addr =>
                match buf_add (d_buf d) (sub64 addr (v_saddr (d_req d))) data with
                | Ret bf => Ret (true, upd d' (d_next_id d') (d_active d') (d_req d') (d_next_read d') (d_next_write d')
                                           (adel r (d_pread d')) (d_pwrite d') bf)
                | Panic => Panic
                | Blowup => Blowup
                end
            end
        | MDone _ :: rest =>
            if negb (d_sside d =? d_dside d)
            then Ret (true, with_port d (d_sside d) (mk_port rest (p_out p) (p_cap p)))
            else Ret (false, d)
        | [] => Ret (false, d)
        end
    end.

(** readFromSrc *)
Definition read_src (d : dm) : outcome (bool * dm) :=
  if negb (d_active d) then Ret (false, d)
  else if d_sg d =? 0 then Panic
  else
    let addr := d_next_read d / d_sg d * d_sg d in
    let rel := sub64 addr (v_saddr (d_req d)) in
    if w64 (b_off (d_buf d) + d_bufsize d) <=? rel then Ret (false, d)
    else if w64 (v_saddr (d_req d) + v_size (d_req d)) <=? addr then Ret (false, d)
    else
      match side_port d (d_sside d) with
      | None => Panic
      | Some p =>
          let id := d_next_id d in
          if can_send p then
            let d1 := with_port d (d_sside d) (mk_port (p_in p) (p_out p ++ [MRead id addr (d_sg d)]) (p_cap p)) in
            Ret (true, upd d1 (id + 1) true (d_req d) (w64 (d_next_read d + d_sg d)) (d_next_write d)
                           ((id, addr) :: d_pread d) (d_pwrite d) (d_buf d))
          else Ret (false, upd d (id + 1) (d_active d) (d_req d) (d_next_read d) (d_next_write d) (d_pread d) (d_pwrite d) (d_buf d))
      end.

Definition bind {A B} (x : outcome A) (f : A -> outcome B) : outcome B :=
  match x with Ret a => f a | Panic => Panic | Blowup => Blowup end.

(** Component.Tick: ctrlMiddleware (nothing to do), ctrlParseMW, dataTransferMW *)
Definition tick (d : dm) : outcome (bool * dm) :=
  let '(p1, d1) := finish d in
  bind (parse_cp d1) (fun '(p2, d2) =>
  let '(p3, d3) := proc_write_done d2 in
  bind (write_dst d3) (fun '(p4, d4) =>
  bind (proc_data_ready d4) (fun '(p5, d5) =>
  bind (read_src d5) (fun '(p6, d6) =>
  Ret (p1 || p2 || p3 || p4 || p5 || p6, d6))))).

Definition dm_init (bufsize gin gout tcap icap ocap : N) : dm :=
  mk_dm bufsize gin gout 0 false no_move 0 0 [] [] (mk_buf 0 0 []) 0 0 2 2 [] [] tcap
        (mk_port [] [] icap) (mk_port [] [] ocap) [] [].

(** ---- the scripted environment: two byte memories served in any order *)
Definition mem_read (m : list N) (a n : N) : list N := firstn (N.to_nat n) (skipn (N.to_nat a) m).
Definition mem_write (m : list N) (a : N) (x : list N) : list N :=
  let k := N.to_nat a in
  if (length m <=? k)%nat then m
  else firstn k m ++ firstn (length m - k) x ++ skipn (k + length x) m.

Record env := mk_env {
  e_dm : dm;
  e_mem_in : list N; e_mem_out : list N;            (* memory behind Inside / Outside *)
  e_pend_in : list mreq; e_pend_out : list mreq }.  (* requests taken from the ports, not yet served *)

Fixpoint remove_nth {A} (n : nat) (l : list A) : list A :=
  match n, l with
  | O, _ :: r => r
  | S k, x :: r => x :: remove_nth k r
  | _, [] => []
  end.

(** serve the [k]-th pending request of a side (if the port can take the response) *)
Definition serve (side : N) (e : env) (k : nat) : env :=
  let pend := if side =? 0 then e_pend_in e else e_pend_out e in
  let mem := if side =? 0 then e_mem_in e else e_mem_out e in
  let p := if side =? 0 then d_inside (e_dm e) else d_outside (e_dm e) in
  match nth_error pend k with
  | None => e
  | Some rq =>
      if N.of_nat (length (p_in p)) <? p_cap p then
        let '(rsp, mem') :=
          match rq with
          | MRead id a n => (MData id (mem_read mem a n), mem)
          | MWrite id a x => (MDone id, mem_write mem a x)
          end in
        let d' := with_port (e_dm e) side (mk_port (p_in p ++ [rsp]) (p_out p) (p_cap p)) in
        if side =? 0 then mk_env d' mem' (e_mem_out e) (remove_nth k pend) (e_pend_out e)
        else mk_env d' (e_mem_in e) mem' (e_pend_in e) (remove_nth k pend)
      else e
  end.

(** a response nobody asked for (unknown RspTo), delivered if the port has room *)
Definition stray (side : N) (e : env) (x : mrsp) : env :=
  let p := if side =? 0 then d_inside (e_dm e) else d_outside (e_dm e) in
  if N.of_nat (length (p_in p)) <? p_cap p
  then mk_env (with_port (e_dm e) side (mk_port (p_in p ++ [x]) (p_out p) (p_cap p)))
              (e_mem_in e) (e_mem_out e) (e_pend_in e) (e_pend_out e)
  else e.

Record instant := mk_instant {
  i_top : list move; i_serve_in : list nat; i_serve_out : list nat;
  i_stray_in : list mrsp; i_stray_out : list mrsp;
  i_drain_top : nat; i_drain_in : nat; i_drain_out : nat }.

Definition deliver_top (d : dm) (vs : list move) : dm :=
  fold_left (fun d v =>
    if N.of_nat (length (d_top_in d)) <? d_top_cap d then
      mk_dm (d_bufsize d) (d_gin d) (d_gout d) (d_next_id d) (d_active d) (d_req d) (d_next_read d) (d_next_write d)
            (d_pread d) (d_pwrite d) (d_buf d) (d_sg d) (d_dg d) (d_sside d) (d_dside d)
            (d_top_in d ++ [v]) (d_top_out d) (d_top_cap d) (d_inside d) (d_outside d) (g_acks d) (g_writes d)
    else d) vs d.

Record tick_obs := mk_tobs {
  to_progress : bool; to_acks : list ack; to_in : list mreq; to_out : list mreq;
  to_active : bool; to_ntop : nat;
  to_snap : option (list N * list N) }.   (* both memories, at a tick in which an acknowledgment was sent *)

Definition env_step (e : env) (i : instant) : outcome (env * tick_obs) :=
  let d0 := deliver_top (e_dm e) (i_top i) in
  let ntop := (length (d_top_in d0) - length (d_top_in (e_dm e)))%nat in
  let e1 := fold_left (serve 0) (i_serve_in i) (mk_env d0 (e_mem_in e) (e_mem_out e) (e_pend_in e) (e_pend_out e)) in
  let e2a := fold_left (serve 1) (i_serve_out i) e1 in
  let e2 := fold_left (stray 1) (i_stray_out i) (fold_left (stray 0) (i_stray_in i) e2a) in
  bind (tick (e_dm e2)) (fun '(p, d1) =>
    let pi := d_inside d1 in let po := d_outside d1 in
    let d2 := mk_dm (d_bufsize d1) (d_gin d1) (d_gout d1) (d_next_id d1) (d_active d1) (d_req d1) (d_next_read d1) (d_next_write d1)
            (d_pread d1) (d_pwrite d1) (d_buf d1) (d_sg d1) (d_dg d1) (d_sside d1) (d_dside d1)
            (d_top_in d1) (skipn (i_drain_top i) (d_top_out d1)) (d_top_cap d1)
            (mk_port (p_in pi) (skipn (i_drain_in i) (p_out pi)) (p_cap pi))
            (mk_port (p_in po) (skipn (i_drain_out i) (p_out po)) (p_cap po)) (g_acks d1) (g_writes d1) in
    Ret (mk_env d2 (e_mem_in e2) (e_mem_out e2)
                (e_pend_in e2 ++ firstn (i_drain_in i) (p_out pi)) (e_pend_out e2 ++ firstn (i_drain_out i) (p_out po)),
         mk_tobs p (firstn (i_drain_top i) (d_top_out d1)) (firstn (i_drain_in i) (p_out pi)) (firstn (i_drain_out i) (p_out po))
                 (d_active d1) ntop
                 (if (length (g_acks d1) =? length (g_acks (e_dm e2)))%nat then None else Some (e_mem_in e2, e_mem_out e2)))).

(** runs until the script ends or the component panics; the flag says which *)
Fixpoint env_run (e : env) (s : list instant) : env * list tick_obs * N :=
  match s with
  | [] => (e, [], 0)
  | i :: rest =>
      match env_step e i with
      | Ret (e1, ob) => let '(e2, obs, oc) := env_run e1 rest in (e2, ob :: obs, oc)
      | Panic => (e, [], 1)
      | Blowup => (e, [], 2)
      end
  end.
