(** C23 — proofs, part 15: the content invariant through the environment: a memory serving a
    request, the ports being drained, moves arriving. *)
From Coq Require Import Permutation.
From Akita Require Import Lib.Base C23.Model C23.Mem C23.Proofs C23.Proofs3 C23.Proofs4 C23.Proofs5 C23.Proofs6 C23.Proofs7.
From Akita Require Import C23.Proofs9 C23.Proofs10 C23.Proofs11 C23.Proofs12 C23.Proofs13 C23.Proofs14.
Local Open Scope N_scope.
Local Ltac Zify.zify_post_hook ::= idtac.

Lemma pick_same {A} s (x y : A) s' : s <= 1 -> s' <= 1 -> s <> s' -> forall x', pick s' (pick s x' x) (pick s y x') = pick s' x y.
Proof. intros H H' Hn x'. unfold pick. destruct (s =? 0) eqn:E, (s' =? 0) eqn:E'; try reflexivity; lia. Qed.

(** replacing the component of side [s] *)
Definition setp {A} (s : N) (v x y : A) : A * A := if s =? 0 then (v, y) else (x, v).

Lemma pick_setp_same {A} s (v x y : A) : pick s (fst (setp s v x y)) (snd (setp s v x y)) = v.
Proof. unfold pick, setp. destruct (s =? 0); reflexivity. Qed.

Lemma pick_setp_other {A} s s' (v x y : A) : s <= 1 -> s' <= 1 -> s <> s' ->
  pick s' (fst (setp s v x y)) (snd (setp s v x y)) = pick s' x y.
Proof. intros H H' Hn. unfold pick, setp. destruct (s =? 0) eqn:E, (s' =? 0) eqn:E'; try reflexivity; lia. Qed.

Lemma setp_length s (v x y : list N) li lo : length x = li -> length y = lo -> length v = length (pick s x y) ->
  length (fst (setp s v x y)) = li /\ length (snd (setp s v x y)) = lo.
Proof. unfold setp, pick. destruct (s =? 0); cbn [fst snd]; intros; split; congruence. Qed.

(** the state after one request of side [s] was served *)
Lemma serve_kinv li lo s e k : s <= 1 -> (d_active (e_dm e) = true -> sinv (e_dm e)) ->
  kinv li lo (e_dm e) (e_mem_in e) (e_mem_out e) (e_pend_in e) (e_pend_out e) ->
  let e' := serve s e k in
  kinv li lo (e_dm e') (e_mem_in e') (e_mem_out e') (e_pend_in e') (e_pend_out e') /\
  (d_active (e_dm e) = true -> forall a0 n0,
     v_saddr (d_req (e_dm e)) <= a0 -> a0 + n0 <= v_saddr (d_req (e_dm e)) + v_size (d_req (e_dm e)) ->
     mem_read (pick (d_sside (e_dm e)) (e_mem_in e') (e_mem_out e')) a0 n0 =
     mem_read (pick (d_sside (e_dm e)) (e_mem_in e) (e_mem_out e)) a0 n0) /\
  ctl (e_dm e') = ctl (e_dm e) /\ sview (e_dm e') = sview (e_dm e) /\ g_writes (e_dm e') = g_writes (e_dm e) /\
  d_gin (e_dm e') = d_gin (e_dm e) /\ d_gout (e_dm e') = d_gout (e_dm e).
Proof.
  intros Hs HS K. set (d := e_dm e) in *.
  set (mi := e_mem_in e) in *. set (mo := e_mem_out e) in *. set (pi := e_pend_in e) in *. set (po := e_pend_out e) in *.
  assert (Same : forall e0, e0 = e ->
            kinv li lo (e_dm e0) (e_mem_in e0) (e_mem_out e0) (e_pend_in e0) (e_pend_out e0) /\
            (d_active d = true -> forall a0 n0, v_saddr (d_req d) <= a0 -> a0 + n0 <= v_saddr (d_req d) + v_size (d_req d) ->
               mem_read (pick (d_sside d) (e_mem_in e0) (e_mem_out e0)) a0 n0 = mem_read (pick (d_sside d) mi mo) a0 n0) /\
            ctl (e_dm e0) = ctl d /\ sview (e_dm e0) = sview d /\ g_writes (e_dm e0) = g_writes d /\
            d_gin (e_dm e0) = d_gin d /\ d_gout (e_dm e0) = d_gout d).
  { intros e0 ->. split; [exact K|split; [intros _ a0 n0 _ _; reflexivity|repeat split]]. }
  unfold serve. cbv zeta. fold d mi mo pi po.
  change (if s =? 0 then pi else po) with (pick s pi po). change (if s =? 0 then mi else mo) with (pick s mi mo).
  change (if s =? 0 then d_inside d else d_outside d) with (port_of d s).
  set (p := port_of d s). set (pend := pick s pi po). set (mem := pick s mi mo).
  destruct (nth_error pend k) as [rq|] eqn:Nk; [|apply Same; reflexivity].
  destruct (N.of_nat (length (p_in p)) <? p_cap p); [|apply Same; reflexivity].
  pose proof (remove_nth_perm pend k rq Nk) as Pk.
  (* the two cases of the request, described uniformly *)
  set (rsp := match rq with MRead id a n => MData id (mem_read mem a n) | MWrite id _ _ => MDone id end).
  set (mem' := match rq with MRead _ _ _ => mem | MWrite _ a x => mem_write mem a x end).
  set (d' := with_port d s (mk_port (p_in p ++ [rsp]) (p_out p) (p_cap p))).
  set (mm := setp s mem' mi mo). set (pp := setp s (remove_nth k pend) pi po).
  match goal with |- context [kinv li lo (e_dm ?X)] =>
    assert (Shape : X = mk_env d' (fst mm) (snd mm) (fst pp) (snd pp)) end.
  { unfold mm, pp, setp, d', rsp, mem'. destruct rq; destruct (s =? 0); reflexivity. }
  rewrite Shape. cbn [e_dm e_mem_in e_mem_out e_pend_in e_pend_out]. clear Shape.
  assert (Hrid : rid rsp = mid rq) by (unfold rsp; destruct rq; reflexivity).
  assert (Pin' : forall s', s' <= 1 -> port_of d' s' = if s =? s' then mk_port (p_in p ++ [rsp]) (p_out p) (p_cap p) else port_of d s').
  { intros s' Hs'. unfold d'. apply port_of_with_port; assumption. }
  assert (Ppend : forall s', s' <= 1 -> pick s' (fst pp) (snd pp) = if s =? s' then remove_nth k pend else pick s' pi po).
  { intros s' Hs'. unfold pp. destruct (s =? s') eqn:E.
    - assert (s' = s) by lia. subst s'. apply pick_setp_same.
    - apply pick_setp_other; [assumption|assumption|lia]. }
  assert (Pmem : forall s', s' <= 1 -> pick s' (fst mm) (snd mm) = if s =? s' then mem' else pick s' mi mo).
  { intros s' Hs'. unfold mm. destruct (s =? s') eqn:E.
    - assert (s' = s) by lia. subst s'. apply pick_setp_same.
    - apply pick_setp_other; [assumption|assumption|lia]. }
  destruct K as [U Li Lo A I T].
  (* ids *)
  assert (U' : UB d' (fst pp) (snd pp)).
  { apply (UB_shrink d d' pi po (fst pp) (snd pp)); [apply N.le_refl| |exact U].
    intros s' Hs'. exists []. cbn [app]. unfold idlist. rewrite (Pin' s' Hs'), (Ppend s' Hs').
    destruct (s =? s') eqn:E; [|apply Permutation_refl].
    assert (s' = s) by lia. subst s'. fold p pend. cbn [p_out p_in].
    rewrite !map_app. cbn [map]. rewrite Hrid.
    apply Permutation_trans with (l' := (map mid (p_out p) ++ mid rq :: map mid (remove_nth k pend)) ++ map rid (p_in p)).
    - apply Permutation_app_tail. apply Permutation_app_head. apply (Permutation_map mid) in Pk. exact Pk.
    - rewrite <- !app_assoc. apply Permutation_app_head. cbn [app].
      apply Permutation_trans with (l' := mid rq :: map mid (remove_nth k pend) ++ map rid (p_in p)); [apply Permutation_refl|].
      apply Permutation_trans with (l' := (map mid (remove_nth k pend) ++ map rid (p_in p)) ++ [mid rq]).
      + apply Permutation_cons_append.
      + rewrite <- app_assoc. apply Permutation_refl. }
  assert (Hflight : forall s' y, s' <= 1 -> In y (p_out (port_of d' s') ++ pick s' (fst pp) (snd pp)) -> In y (p_out (port_of d s') ++ pick s' pi po)).
  { intros s' y Hs' Hin. rewrite (Pin' s' Hs'), (Ppend s' Hs') in Hin. destruct (s =? s') eqn:E; [|exact Hin].
    assert (s' = s) by lia. subst s'. cbn [p_out] in Hin. fold p pend. apply in_app_or in Hin. apply in_or_app.
    destruct Hin as [H|H]; [left; exact H|right; apply (In_remove_nth _ _ _ H)]. }
  assert (Hkeep : forall y, y <> rq -> In y (p_out p ++ pend) -> In y (p_out (port_of d' s) ++ pick s (fst pp) (snd pp))).
  { intros y Hy Hin. rewrite (Pin' s Hs), (Ppend s Hs), N.eqb_refl. cbn [p_out]. apply in_app_or in Hin. apply in_or_app.
    destruct Hin as [H|H]; [left; exact H|right]. apply (Permutation_in y Pk) in H. destruct H as [H|H]; [congruence|exact H]. }
  destruct (d_active d) eqn:Act.
  2:{ (* idle: nothing to write *)
      pose proof (I eq_refl) as NW.
      assert (mem' = mem) as Hm.
      { unfold mem'. destruct rq as [id a n|id a x]; [reflexivity|]. exfalso. apply (NW s Hs id a x). fold p pend.
        apply in_or_app. right. apply (nth_error_In _ _ Nk). }
      assert (fst mm = mi /\ snd mm = mo) as [-> ->].
      { unfold mm, setp. rewrite Hm. unfold mem, pick. destruct (s =? 0); split; reflexivity. }
      split; [|split; [intro; discriminate|repeat split]].
      constructor; [exact U'|exact Li|exact Lo|cbn; rewrite Act; discriminate| |exact T].
      intros _ s' Hs' id a x Hin. apply (NW s' Hs' id a x). apply Hflight; assumption. }
  pose proof (A eq_refl) as C. pose proof (HS eq_refl) as S.
  destruct C as [Hss Hds Sep Nw Fs Fd R B W].
  destruct S as [gs gd ms md ws wd sal sside [rd1 [rd2 rd3]] [wr1 [wr2 wr3]] bg bo ch pr pn].
  destruct R as [R1 R2]. destruct W as [W1 W2].
  set (v := d_req d) in *. set (sg := d_sg d) in *. set (dg := d_dg d) in *.
  set (wr := d_next_write d - v_daddr v) in *. set (rd := d_next_read d - v_saddr v) in *.
  set (src := pick (d_sside d) mi mo) in *. set (dst := pick (d_dside d) mi mo) in *.
  (* incoming buffers: only the response was added, on side s *)
  assert (Hpin : forall s' r, s' <= 1 -> In r (p_in (port_of d' s')) -> In r (p_in (port_of d s')) \/ (s' = s /\ r = rsp)).
  { intros s' r Hs' Hr. rewrite (Pin' s' Hs') in Hr. destruct (s =? s') eqn:E; [|left; exact Hr].
    assert (s' = s) by lia. subst s'. cbn [p_in] in Hr. fold p. apply in_app_or in Hr. destruct Hr as [H|[H|[]]]; [left; exact H|right; split; [reflexivity|symmetry; exact H]]. }
  assert (Hnw' : forall s', s' <= 1 -> forall id a x, In (MWrite id a x) (p_out (port_of d' s') ++ pick s' (fst pp) (snd pp)) -> s' = d_dside d).
  { intros s' Hs' id a x Hin. apply (Nw s' Hs' id a x). apply Hflight; assumption. }
  destruct rq as [id a n|id a x].
  - (* a read is answered: the memories are unchanged *)
    assert (fst mm = mi /\ snd mm = mo) as [-> ->].
    { unfold mm, setp, mem'. unfold mem, pick. destruct (s =? 0); split; reflexivity. }
    split; [|split; [intros _ a0 n0 _ _; reflexivity|repeat split]].
    constructor; [exact U'|exact Li|exact Lo| |cbn; rewrite Act; discriminate|exact T].
    intros _. constructor; try assumption.
    + change (d_sside d') with (d_sside d). fold src. split.
      * intros id0 a0 n0 Hin. apply (R1 id0 a0 n0). apply (Hflight _ _ Hss Hin).
      * intros id0 x0 Hin a0 Ha0. destruct (Hpin _ _ Hss Hin) as [H|[Hs' H]]; [apply (R2 id0 x0 H a0 Ha0)|].
        unfold rsp in H. inversion H; subst id0 x0. subst s. fold pend in R1.
        destruct (R1 id a n ltac:(apply in_or_app; right; apply (nth_error_In _ _ Nk)) a0 Ha0) as [-> ->]. reflexivity.
    + change (d_dside d') with (d_dside d). change (d_sside d') with (d_sside d). split.
      * intros id0 a0 x0 Hin. apply (W1 id0 a0 x0). apply (Hflight _ _ Hds Hin).
      * intros o Ho1 Ho2. destruct (W2 o Ho1 Ho2) as [L|[id0 Hin]]; [left; exact L|right]. exists id0.
        destruct (N.eq_dec s (d_dside d)) as [->|Hn].
        -- apply Hkeep; [discriminate|exact Hin].
        -- rewrite (Pin' _ Hds), (Ppend _ Hds). destruct (s =? d_dside d) eqn:E; [lia|exact Hin].
  - (* a write is applied: it goes to the destination range of the destination side *)
    assert (s = d_dside d) by (apply (Nw s Hs id a x); apply in_or_app; right; apply (nth_error_In _ _ Nk)). subst s.
    fold p pend in W1, W2.
    destruct (W1 id a x ltac:(apply in_or_app; right; apply (nth_error_In _ _ Nk))) as [_ [o [-> [O2 [O3 ->]]]]].
    set (x := mem_read src (v_saddr v + o) dg) in *.
    assert (Hstep : forall o0, o0 mod dg = 0 -> o0 < wr -> o0 + dg <= wr).
    { intros o0 H1 H2. destruct (mult_of dg o0 gd H1) as [k0 Hk0]. destruct (mult_of dg wr gd wr2) as [kw Hkw].
      assert (Hkk : k0 < kw) by (apply (N.mul_lt_mono_pos_r dg); [exact gd|rewrite <- Hk0, <- Hkw; exact H2]).
      rewrite Hk0, Hkw. replace (k0 * dg + dg) with ((k0 + 1) * dg) by (clear; lia). apply N.mul_le_mono_r. clear - Hkk. lia. }
    pose proof (Hstep o O2 O3) as Hodg.
    assert (Hwsz : wr <= v_size v) by (clear - wr3 rd3; lia).
    assert (Lx : length x = N.to_nat dg) by (apply mem_read_length; clear - Hodg Hwsz Fs; lia).
    assert (Fit : v_daddr v + o + N.of_nat (length x) <= N.of_nat (length mem)) by (rewrite Lx, N2Nat.id; change mem with dst; clear - Hodg Hwsz Fd; lia).
    assert (Xpos : 0 < N.of_nat (length x)) by (rewrite Lx, N2Nat.id; exact gd).
    assert (Lm : length mem' = length mem) by (apply mem_write_length).
    destruct (setp_length (d_dside d) mem' mi mo li lo Li Lo Lm) as [Li' Lo'].
    assert (Mdst : pick (d_dside d) (fst mm) (snd mm) = mem') by (rewrite (Pmem _ Hds), N.eqb_refl; reflexivity).
    (* reads inside the source range do not see the write *)
    assert (Stable : forall a0 n0, v_saddr v <= a0 -> a0 + n0 <= v_saddr v + v_size v ->
              mem_read (pick (d_sside d) (fst mm) (snd mm)) a0 n0 = mem_read src a0 n0).
    { intros a0 n0 H1 H2. rewrite (Pmem _ Hss). destruct (d_dside d =? d_sside d) eqn:E; [|reflexivity].
      assert (Heq : d_sside d = d_dside d) by lia.
      assert (Hsm : src = mem) by (unfold src, mem; rewrite Heq; reflexivity). unfold mem'. rewrite Hsm.
      apply mem_read_write_disjoint; [exact Fit|exact Xpos|].
      destruct Sep as [Sep|[Sep|Sep]]; [congruence| |]; rewrite Lx, N2Nat.id; [left|right]; clear - Sep H1 H2 Hodg Hwsz; lia. }
    assert (Lsrc : length (pick (d_sside d) (fst mm) (snd mm)) = length src).
    { unfold src. rewrite !pick_length. unfold mm. rewrite Li', Lo', Li, Lo. reflexivity. }
    split; [|split; [intros _; exact Stable|repeat split]].
    constructor; [exact U'|exact Li'|exact Lo'| |cbn; rewrite Act; discriminate|exact T].
    intros _. constructor; try assumption.
    + change (d_sside d') with (d_sside d). rewrite Lsrc. exact Fs.
    + change (d_dside d') with (d_dside d). rewrite Mdst, Lm. exact Fd.
    + change (d_sside d') with (d_sside d). split.
      * intros id0 a0 n0 Hin. apply (R1 id0 a0 n0). apply (Hflight _ _ Hss Hin).
      * intros id0 x0 Hin a0 Ha0. destruct (Hpin _ _ Hss Hin) as [H|[_ H]]; [|unfold rsp in H; discriminate].
        rewrite (R2 id0 x0 H a0 Ha0). symmetry.
        destruct (pr id0 a0 (aget_In _ _ _ Ha0)) as [P1 [P2 [P3 _]]]. fold v sg rd in P1, P2, P3.
        apply Stable; [exact P1|clear - P1 P3 rd3; lia].
    + change (d_sside d') with (d_sside d). intros i c Hi Hv. rewrite (B i c Hi Hv). symmetry.
      pose proof (ch i c Hi Hv) as Bi. fold sg rd in Bi.
      apply Stable; [clear; lia|clear - Bi rd3; lia].
    + change (d_dside d') with (d_dside d). change (d_sside d') with (d_sside d). rewrite Mdst.
      change (d_pwrite d') with (d_pwrite d). change (d_next_write d') with (d_next_write d). change (d_req d') with v. change (d_dg d') with dg.
      fold wr. split.
      * intros id0 a0 x0 Hin. destruct (W1 id0 a0 x0 (Hflight _ _ Hds Hin)) as [E1 [o0 [Q1 [Q2 [Q3 Q4]]]]].
        split; [exact E1|]. exists o0. split; [exact Q1|split; [exact Q2|split; [exact Q3|]]].
        rewrite Q4. symmetry. pose proof (Hstep o0 Q2 Q3). apply Stable; [clear; lia|clear - H Hwsz; lia].
      * intros o' Ho1 Ho2. pose proof (Hstep o' Ho1 Ho2) as Ho3.
        rewrite (Stable (v_saddr v + o') dg ltac:(clear; lia) ltac:(clear - Ho3 Hwsz; lia)).
        destruct (N.eq_dec o' o) as [->|Hno].
        -- left. unfold mem'. fold x. rewrite <- (N2Nat.id dg), <- Lx. apply mem_read_write_same; assumption.
        -- destruct (mult_of dg o' gd Ho1) as [ko' Hko']. destruct (mult_of dg o gd O2) as [ko Hko].
           assert (Hdis : v_daddr v + o' + dg <= v_daddr v + o \/ v_daddr v + o + N.of_nat (length x) <= v_daddr v + o').
           { rewrite Lx, N2Nat.id, Hko, Hko'. assert (Hk : ko' <> ko) by (intro; subst; apply Hno; congruence).
             destruct (N.lt_total ko' ko) as [Hl|[He|Hg]]; [left|congruence|right].
             - replace (v_daddr v + ko' * dg + dg) with (v_daddr v + (ko' + 1) * dg) by (clear; lia).
               apply N.add_le_mono_l, N.mul_le_mono_r. clear - Hl. lia.
             - replace (v_daddr v + ko * dg + dg) with (v_daddr v + (ko + 1) * dg) by (clear; lia).
               apply N.add_le_mono_l, N.mul_le_mono_r. clear - Hg. lia. }
           destruct (W2 o' Ho1 Ho2) as [L|[id0 Hin]].
           ++ left. unfold mem'. rewrite mem_read_write_disjoint; [exact L|exact Fit|exact Xpos|exact Hdis].
           ++ right. exists id0. apply Hkeep; [|exact Hin]. intro Heq. inversion Heq. clear - H1 Hno. lia.
Qed.
