(** C23 — proofs, part 15: the content invariant through the environment: a memory serving a
    request, the ports being drained, moves arriving. *)
From Coq Require Import Permutation.
From Akita Require Import Lib.Base C23.Model C23.Mem C23.Proofs C23.Proofs3 C23.Proofs4 C23.Proofs5 C23.Proofs6 C23.Proofs7.
From Akita Require Import C23.Proofs9 C23.Proofs10 C23.Proofs11 C23.Proofs12 C23.Proofs13 C23.Proofs14.
Local Open Scope N_scope.
Local Ltac Zify.zify_post_hook ::= idtac.

Lemma pick_same {A} s (x y : A) s' : s <= 1 -> s' <= 1 -> s <> s' -> forall x', pick s' (pick s x' x) (pick s y x') = pick s' x y.
Proof. intros H H' Hn x'. unfold pick. destruct (s =? 0) eqn:E, (s' =? 0) eqn:E'; try reflexivity; lia. Qed.

(** replacing the component of side [s] *)
Definition setp {A} (s : N) (v x y : A) : A * A := if s =? 0 then (v, y) else (x, v).

Lemma pick_setp_same {A} s (v x y : A) : pick s (fst (setp s v x y)) (snd (setp s v x y)) = v.
Proof. unfold pick, setp. destruct (s =? 0); reflexivity. Qed.

Lemma pick_setp_other {A} s s' (v x y : A) : s <= 1 -> s' <= 1 -> s <> s' ->
  pick s' (fst (setp s v x y)) (snd (setp s v x y)) = pick s' x y.
Proof. intros H H' Hn. unfold pick, setp. destruct (s =? 0) eqn:E, (s' =? 0) eqn:E'; try reflexivity; lia. Qed.

Lemma setp_length s (v x y : list N) li lo : length x = li -> length y = lo -> length v = length (pick s x y) ->
  length (fst (setp s v x y)) = li /\ length (snd (setp s v x y)) = lo.
Proof. unfold setp, pick. destruct (s =? 0); cbn [fst snd]; intros; split; congruence. Qed.

(** the state after one request of side [s] was served *)
Lemma serve_kinv li lo s e k : s <= 1 -> (d_active (e_dm e) = true -> sinv (e_dm e)) ->
  kinv li lo (e_dm e) (e_mem_in e) (e_mem_out e) (e_pend_in e) (e_pend_out e) ->
  let e' := serve s e k in
  kinv li lo (e_dm e') (e_mem_in e') (e_mem_out e') (e_pend_in e') (e_pend_out e') /\
  (d_active (e_dm e) = true -> pick (d_sside (e_dm e)) (e_mem_in e') (e_mem_out e') = pick (d_sside (e_dm e)) (e_mem_in e) (e_mem_out e)) /\
  ctl (e_dm e') = ctl (e_dm e) /\ sview (e_dm e') = sview (e_dm e) /\ g_writes (e_dm e') = g_writes (e_dm e) /\
  d_gin (e_dm e') = d_gin (e_dm e) /\ d_gout (e_dm e') = d_gout (e_dm e).
Proof.
  intros Hs HS K. set (d := e_dm e) in *.
  set (mi := e_mem_in e) in *. set (mo := e_mem_out e) in *. set (pi := e_pend_in e) in *. set (po := e_pend_out e) in *.
  assert (Same : forall e0, e0 = e ->
            kinv li lo (e_dm e0) (e_mem_in e0) (e_mem_out e0) (e_pend_in e0) (e_pend_out e0) /\
            (d_active d = true -> pick (d_sside d) (e_mem_in e0) (e_mem_out e0) = pick (d_sside d) mi mo) /\
            ctl (e_dm e0) = ctl d /\ sview (e_dm e0) = sview d /\ g_writes (e_dm e0) = g_writes d /\
            d_gin (e_dm e0) = d_gin d /\ d_gout (e_dm e0) = d_gout d).
  { intros e0 ->. split; [exact K|split; [intros _; reflexivity|repeat split]]. }
  unfold serve. cbv zeta. fold d mi mo pi po.
  change (if s =? 0 then pi else po) with (pick s pi po). change (if s =? 0 then mi else mo) with (pick s mi mo).
  change (if s =? 0 then d_inside d else d_outside d) with (port_of d s).
  set (p := port_of d s). set (pend := pick s pi po). set (mem := pick s mi mo).
  destruct (nth_error pend k) as [rq|] eqn:Nk; [|apply Same; reflexivity].
  destruct (N.of_nat (length (p_in p)) <? p_cap p); [|apply Same; reflexivity].
  pose proof (remove_nth_perm pend k rq Nk) as Pk.
  (* the two cases of the request, described uniformly *)
  set (rsp := match rq with MRead id a n => MData id (mem_read mem a n) | MWrite id _ _ => MDone id end).
  set (mem' := match rq with MRead _ _ _ => mem | MWrite _ a x => mem_write mem a x end).
  set (d' := with_port d s (mk_port (p_in p ++ [rsp]) (p_out p) (p_cap p))).
  set (mm := setp s mem' mi mo). set (pp := setp s (remove_nth k pend) pi po).
  match goal with |- context [kinv li lo (e_dm ?X)] =>
    assert (Shape : X = mk_env d' (fst mm) (snd mm) (fst pp) (snd pp)) end.
  { unfold mm, pp, setp, d', rsp, mem'. destruct rq; destruct (s =? 0); reflexivity. }
  rewrite Shape. cbn [e_dm e_mem_in e_mem_out e_pend_in e_pend_out]. clear Shape.
  assert (Hrid : rid rsp = mid rq) by (unfold rsp; destruct rq; reflexivity).
  assert (Pin' : forall s', s' <= 1 -> port_of d' s' = if s =? s' then mk_port (p_in p ++ [rsp]) (p_out p) (p_cap p) else port_of d s').
  { intros s' Hs'. unfold d'. apply port_of_with_port; assumption. }
  assert (Ppend : forall s', s' <= 1 -> pick s' (fst pp) (snd pp) = if s =? s' then remove_nth k pend else pick s' pi po).
  { intros s' Hs'. unfold pp. destruct (s =? s') eqn:E.
    - assert (s' = s) by lia. subst s'. apply pick_setp_same.
    - apply pick_setp_other; [assumption|assumption|lia]. }
  assert (Pmem : forall s', s' <= 1 -> pick s' (fst mm) (snd mm) = if s =? s' then mem' else pick s' mi mo).
  { intros s' Hs'. unfold mm. destruct (s =? s') eqn:E.
    - assert (s' = s) by lia. subst s'. apply pick_setp_same.
    - apply pick_setp_other; [assumption|assumption|lia]. }
  destruct K as [U Li Lo A I T].
  (* ids *)
  assert (U' : UB d' (fst pp) (snd pp)).
  { apply (UB_shrink d d' pi po (fst pp) (snd pp)); [apply N.le_refl| |exact U].
    intros s' Hs'. exists []. cbn [app]. unfold idlist. rewrite (Pin' s' Hs'), (Ppend s' Hs').
    destruct (s =? s') eqn:E; [|apply Permutation_refl].
    assert (s' = s) by lia. subst s'. fold p pend. cbn [p_out p_in].
    rewrite !map_app. cbn [map]. rewrite Hrid.
    apply Permutation_trans with (l' := (map mid (p_out p) ++ mid rq :: map mid (remove_nth k pend)) ++ map rid (p_in p)).
    - apply Permutation_app_tail. apply Permutation_app_head. apply (Permutation_map mid) in Pk. exact Pk.
    - rewrite <- !app_assoc. apply Permutation_app_head. cbn [app].
      apply Permutation_trans with (l' := mid rq :: map mid (remove_nth k pend) ++ map rid (p_in p)); [apply Permutation_refl|].
      apply Permutation_trans with (l' := (map mid (remove_nth k pend) ++ map rid (p_in p)) ++ [mid rq]).
      + apply Permutation_cons_append.
      + rewrite <- app_assoc. apply Permutation_refl. }
  assert (Hflight : forall s' y, s' <= 1 -> In y (p_out (port_of d' s') ++ pick s' (fst pp) (snd pp)) -> In y (p_out (port_of d s') ++ pick s' pi po)).
  { intros s' y Hs' Hin. rewrite (Pin' s' Hs'), (Ppend s' Hs') in Hin. destruct (s =? s') eqn:E; [|exact Hin].
    assert (s' = s) by lia. subst s'. cbn [p_out] in Hin. fold p pend. apply in_app_or in Hin. apply in_or_app.
    destruct Hin as [H|H]; [left; exact H|right; apply (In_remove_nth _ _ _ H)]. }
  assert (Hkeep : forall y, y <> rq -> In y (p_out p ++ pend) -> In y (p_out (port_of d' s) ++ pick s (fst pp) (snd pp))).
  { intros y Hy Hin. rewrite (Pin' s Hs), (Ppend s Hs), N.eqb_refl. cbn [p_out]. apply in_app_or in Hin. apply in_or_app.
    destruct Hin as [H|H]; [left; exact H|right]. apply (Permutation_in y Pk) in H. destruct H as [H|H]; [congruence|exact H]. }
  destruct (d_active d) eqn:Act.
  2:{ (* idle: nothing to write *)
      pose proof (I eq_refl) as NW.
      assert (mem' = mem) as Hm.
      { unfold mem'. destruct rq as [id a n|id a x]; [reflexivity|]. exfalso. apply (NW s Hs id a x). fold p pend.
        apply in_or_app. right. apply (nth_error_In _ _ Nk). }
      assert (fst mm = mi /\ snd mm = mo) as [-> ->].
      { unfold mm, setp. rewrite Hm. unfold mem, pick. destruct (s =? 0); split; reflexivity. }
      split; [|split; [discriminate|repeat split]].
      constructor; [exact U'|exact Li|exact Lo|cbn; rewrite Act; discriminate| |exact T].
      intros _ s' Hs' id a x Hin. apply (NW s' Hs' id a x). apply Hflight; assumption. }
  pose proof (A eq_refl) as C. pose proof (HS eq_refl) as S.
  destruct C as [Hss Hds Hne Fs Fd R B W].
  destruct S as [gs gd ms md ws wd sal sside [rd1 [rd2 rd3]] [wr1 [wr2 wr3]] bg bo ch pr pn].
  destruct R as [R1 [R2 R3]]. destruct W as [W1 W2].
  destruct (N.eq_dec s (d_sside d)) as [Es|Es].
  - (* the source memory answers: it can only be a read *)
    subst s. fold p pend mem in R1, R2, R3.
    destruct rq as [id a n|id a x]; [|exfalso; apply (R3 id a x); apply in_or_app; right; apply (nth_error_In _ _ Nk)].
    assert (fst mm = mi /\ snd mm = mo) as [-> ->].
    { unfold mm, setp, mem'. unfold mem, pick. destruct (d_sside d =? 0); split; reflexivity. }
    split; [|split; [reflexivity|repeat split]].
    constructor; [exact U'|exact Li|exact Lo| |cbn; rewrite Act; discriminate|exact T].
    intros _. constructor; try assumption.
    + change (d_sside d') with (d_sside d). rewrite (Pin' _ Hss), (Ppend _ Hss), N.eqb_refl. cbn [p_out p_in].
      change (d_pread d') with (d_pread d). change (d_sg d') with (d_sg d). split; [|split].
      * intros id0 a0 n0 Hin. apply (R1 id0 a0 n0). apply in_app_or in Hin. apply in_or_app.
        destruct Hin as [H|H]; [left; exact H|right; apply (In_remove_nth _ _ _ H)].
      * intros id0 x0 Hin a0 Ha0. apply in_app_or in Hin. destruct Hin as [H|[H|[]]]; [apply (R2 id0 x0 H a0 Ha0)|].
        inversion H; subst id0 x0.
        destruct (R1 id a n ltac:(apply in_or_app; right; apply (nth_error_In _ _ Nk)) a0 Ha0) as [-> ->]. reflexivity.
      * intros id0 a0 x0 Hin. apply (R3 id0 a0 x0). apply in_app_or in Hin. apply in_or_app.
        destruct Hin as [H|H]; [left; exact H|right; apply (In_remove_nth _ _ _ H)].
    + change (d_dside d') with (d_dside d). change (d_sside d') with (d_sside d).
      rewrite (Pin' _ Hds), (Ppend _ Hds). destruct (d_sside d =? d_dside d) eqn:E; [lia|]. split; assumption.
  - (* the destination memory answers *)
    assert (s = d_dside d) by (clear - Hs Hss Hds Hne Es; lia). subst s. fold p pend in W1, W2.
    assert (Msrc : pick (d_sside d) (fst mm) (snd mm) = pick (d_sside d) mi mo).
    { rewrite (Pmem _ Hss). destruct (d_dside d =? d_sside d) eqn:E; [lia|reflexivity]. }
    assert (Mdst : pick (d_dside d) (fst mm) (snd mm) = mem') by (rewrite (Pmem _ Hds), N.eqb_refl; reflexivity).
    assert (Rsame : RB (port_of d' (d_sside d)) (pick (d_sside d) (fst pp) (snd pp)) (d_pread d) (pick (d_sside d) mi mo) (d_sg d)).
    { rewrite (Pin' _ Hss), (Ppend _ Hss). destruct (d_dside d =? d_sside d) eqn:E; [lia|]. split; [|split]; assumption. }
    destruct rq as [id a n|id a x].
    + (* a stale read: the memory is unchanged *)
      assert (fst mm = mi /\ snd mm = mo) as [-> ->].
      { unfold mm, setp, mem'. unfold mem, pick. destruct (d_dside d =? 0); split; reflexivity. }
      split; [|split; [reflexivity|repeat split]].
      constructor; [exact U'|exact Li|exact Lo| |cbn; rewrite Act; discriminate|exact T].
      intros _. constructor; try assumption.
      change (d_dside d') with (d_dside d). split.
      * intros id0 a0 x0 Hin. apply (W1 id0 a0 x0). apply (Hflight _ _ Hds Hin).
      * intros o Ho1 Ho2. destruct (W2 o Ho1 Ho2) as [L|[id0 Hin]]; [left; exact L|right]. exists id0.
        apply Hkeep; [discriminate|exact Hin].
    + (* a write is applied to the destination memory *)
      destruct (W1 id a x ltac:(apply in_or_app; right; apply (nth_error_In _ _ Nk))) as [_ [o [-> [O2 [O3 ->]]]]].
      set (v := d_req d) in *. set (dg := d_dg d) in *. set (wr := d_next_write d - v_daddr v) in *.
      set (src := pick (d_sside d) mi mo) in *. set (x := mem_read src (v_saddr v + o) dg).
      destruct (mult_of dg o gd O2) as [ko Hko]. destruct (mult_of dg wr gd wr2) as [kw Hkw].
      assert (Hkk : ko < kw) by (apply (N.mul_lt_mono_pos_r dg); [exact gd|rewrite <- Hko, <- Hkw; exact O3]).
      assert (Hodg : o + dg <= wr).
      { rewrite Hko, Hkw. replace (ko * dg + dg) with ((ko + 1) * dg) by (clear; lia). apply N.mul_le_mono_r. clear - Hkk. lia. }
      assert (Hwsz : wr <= v_size v) by (clear - wr3 rd3; lia).
      assert (Lx : length x = N.to_nat dg) by (apply mem_read_length; clear - Hodg Hwsz Fs; lia).
      assert (Fit : v_daddr v + o + N.of_nat (length x) <= N.of_nat (length mem)) by (rewrite Lx, N2Nat.id; unfold mem; clear - Hodg Hwsz Fd; lia).
      assert (Xpos : 0 < N.of_nat (length x)) by (rewrite Lx, N2Nat.id; exact gd).
      assert (Lm : length mem' = length mem) by (apply mem_write_length).
      destruct (setp_length (d_dside d) mem' mi mo li lo Li Lo Lm) as [Li' Lo'].
      split; [|split; [intros _; exact Msrc|repeat split]].
      constructor; [exact U'|exact Li'|exact Lo'| |cbn; rewrite Act; discriminate|exact T].
      intros _. constructor; try assumption.
      * change (d_sside d') with (d_sside d). rewrite Msrc. exact Fs.
      * change (d_dside d') with (d_dside d). rewrite Mdst, Lm. exact Fd.
      * change (d_sside d') with (d_sside d). rewrite Msrc. exact Rsame.
      * change (d_sside d') with (d_sside d). rewrite Msrc. exact B.
      * change (d_dside d') with (d_dside d). change (d_sside d') with (d_sside d). rewrite Msrc, Mdst.
        change (d_pwrite d') with (d_pwrite d). change (d_next_write d') with (d_next_write d). change (d_req d') with v. change (d_dg d') with dg.
        fold wr src. split.
        -- intros id0 a0 x0 Hin. apply (W1 id0 a0 x0). apply (Hflight _ _ Hds Hin).
        -- intros o' Ho1 Ho2. destruct (N.eq_dec o' o) as [->|Hno].
           ++ left. unfold mem'. fold x. rewrite <- (N2Nat.id dg), <- Lx. apply mem_read_write_same; assumption.
           ++ destruct (mult_of dg o' gd Ho1) as [ko' Hko'].
              assert (Hdis : v_daddr v + o' + dg <= v_daddr v + o \/ v_daddr v + o + N.of_nat (length x) <= v_daddr v + o').
              { rewrite Lx, N2Nat.id, Hko, Hko'. assert (Hk : ko' <> ko) by (intro; subst; apply Hno; congruence).
                destruct (N.lt_total ko' ko) as [Hl|[He|Hg]]; [left|congruence|right].
                - replace (v_daddr v + ko' * dg + dg) with (v_daddr v + (ko' + 1) * dg) by (clear; lia).
                  apply N.add_le_mono_l, N.mul_le_mono_r. clear - Hl. lia.
                - replace (v_daddr v + ko * dg + dg) with (v_daddr v + (ko + 1) * dg) by (clear; lia).
                  apply N.add_le_mono_l, N.mul_le_mono_r. clear - Hg. lia. }
              destruct (W2 o' Ho1 Ho2) as [L|[id0 Hin]].
              ** left. unfold mem'. rewrite mem_read_write_disjoint; [exact L|exact Fit|exact Xpos|exact Hdis].
              ** right. exists id0. apply Hkeep; [|exact Hin]. intro Heq. inversion Heq. clear - H1 Hno. lia.
Qed.
