(** C23 — proofs, part 5: the structural invariant through processDataReadyFromSrc,
    readFromSrc, the control steps, Tick and scripted runs. *)
From Akita Require Import Lib.Base C23.Model C23.Proofs C23.Proofs2 C23.Proofs3 C23.Proofs4.
Local Open Scope N_scope.
Local Ltac Zify.zify_post_hook ::= idtac.

Lemma winv_same d d' : g_writes d' = g_writes d -> moves_so_far d' = moves_so_far d -> winv d -> winv d'.
Proof. unfold winv. intros -> ->. tauto. Qed.

Definition keeps (d d' : dm) : Prop :=
  sinv d' /\ winv d' /\ d_active d' = true /\ moves_so_far d' = moves_so_far d.

Lemma keeps_view d d' : d_active d = true -> sinv d -> winv d ->
  sview d' = sview d -> g_writes d' = g_writes d -> g_acks d' = g_acks d -> d_active d' = d_active d -> keeps d d'.
Proof.
  intros Act S W V Gw Ga Da.
  assert (MS : moves_so_far d' = moves_so_far d).
  { unfold moves_so_far. rewrite Ga, Da. unfold sview in V. inversion V. congruence. }
  split; [apply (sinv_view d d' V S)|split; [apply (winv_same d d' Gw MS W)|split; [congruence|exact MS]]].
Qed.

(** ---- processDataReadyFromSrc *)
Lemma proc_data_ready_sinv d p d' : d_active d = true -> sinv d -> winv d ->
  proc_data_ready d = Ret (p, d') -> keeps d d'.
Proof.
  intros Act S W. unfold proc_data_ready. rewrite Act. cbn [negb].
  destruct (side_port d (d_sside d)) as [q|]; [|discriminate].
  destruct (p_in q) as [|[r x|r] rest].
  - intro E. injection E as <- <-. apply keeps_view; auto.
  - destruct (aget r (d_pread d)) as [a|] eqn:AG.
    2:{ intro E. injection E as <- <-. apply keeps_view; auto. }
    pose proof (aget_In _ _ _ AG) as Hin.
    destruct S as [gs gd ms md ws wd sal sside [rd1 [rd2 rd3]] [wr1 [wr2 wr3]] bg bo ch pr pn].
    set (v := d_req d) in *. set (sg := d_sg d) in *. set (dg := d_dg d) in *.
    set (wr := d_next_write d - v_daddr v) in *. set (rd := d_next_read d - v_saddr v) in *.
    destruct (pr r a Hin) as [P1 [P2 [P3 [P4 P5]]]]. fold v sg rd in P1, P2, P3, P4, P5.
    set (rr := a - v_saddr v) in *.
    assert (Ha64 : a < two64) by (unfold rr, rd in *; clear - P1 P3 rd1 rd3 ws gs; lia).
    rewrite (sub64_small a (v_saddr v) P1 Ha64). fold rr.
    destruct (floor_mult sg wr gs) as [kb [Hkb [Hkb1 Hkb2]]]. rewrite bo, Hkb in *.
    destruct (mult_of sg rr gs P2) as [kr Hkr].
    assert (Hkbr : kb <= kr) by (apply (N.mul_le_mono_pos_r _ _ sg gs); rewrite <- Hkr; exact P4).
    unfold buf_add. rewrite ?bg, ?bo, ?Hkb.
    destruct (sg =? 0) eqn:Zs; [clear - Zs gs; lia|].
    rewrite P2. cbn [N.eqb negb].
    destruct (rr <? kb * sg) eqn:Lt; [clear - Lt P4; lia|].
    rewrite (sub64_small rr (kb * sg) P4 ltac:(unfold rr; clear - Ha64; lia)).
    rewrite Hkr, <- N.mul_sub_distr_r, (mult_div sg _ gs).
    rewrite Hkr, <- N.mul_sub_distr_r, (mult_div sg _ gs) in P5.
    set (n := N.to_nat (kr - kb)) in *.
    set (padded := b_chunks (d_buf d) ++ repeat (mk_chunk [] false) (S n - length (b_chunks (d_buf d)))).
    assert (Lp : (n < length padded)%nat) by (unfold padded; rewrite app_length, repeat_length; lia).
    intro E. injection E as <- <-.
    assert (NTH : forall m c, nth_error (set_nth n (mk_chunk x true) padded) m = Some c ->
              (m = n /\ c = mk_chunk x true) \/
              (m <> n /\ (nth_error (b_chunks (d_buf d)) m = Some c \/ ch_valid c = false))).
    { intros m c Hm. rewrite (nth_error_set_nth _ n padded m Lp) in Hm.
      destruct (Nat.eqb m n) eqn:En.
      - left. apply Nat.eqb_eq in En. inversion Hm. tauto.
      - right. apply Nat.eqb_neq in En. split; [exact En|].
        unfold padded in Hm. rewrite nth_error_pad in Hm.
        destruct (m <? length (b_chunks (d_buf d)))%nat; [left; exact Hm|].
        destruct (m <? length (b_chunks (d_buf d)) + (S n - length (b_chunks (d_buf d))))%nat; [|discriminate].
        inversion Hm. right. reflexivity. }
    split; [|split; [|split; [cbn; exact Act|]]].
    + constructor; cbn [d_sg d_dg d_req d_dside d_next_read d_next_write d_pread d_buf upd with_port b_gran b_off b_chunks];
        fold v sg dg rd wr; try assumption; try tauto.
      * rewrite ?Hkb. reflexivity.
      * intros i c Hi Hv. destruct (NTH i c Hi) as [[-> ->]|[_ [Hold|Hinv]]].
        -- unfold n. rewrite N2Nat.id. rewrite Hkr in P3.
           replace (kb * sg + (kr - kb + 1) * sg) with (kr * sg + sg) by (clear - Hkbr; nia). exact P3.
        -- pose proof (ch i c Hold Hv) as B. rewrite ?bo, ?Hkb in B. exact B.
        -- congruence.
      * intros id' a' Hin'. apply In_adel in Hin'. destruct Hin' as [Hin' Hne]. cbn [fst] in Hne.
        destruct (pr id' a' Hin') as [Q1 [Q2 [Q3 [Q4 Q5]]]]. fold v sg rd in Q1, Q2, Q3, Q4, Q5. rewrite ?bo, ?Hkb in Q4, Q5.
        split; [exact Q1|split; [exact Q2|split; [exact Q3|split; [exact Q4|]]]].
        destruct (mult_of sg _ gs Q2) as [kr' Hkr']. rewrite Hkr' in Q4, Q5 |- *.
        rewrite <- N.mul_sub_distr_r, (mult_div sg _ gs) in Q5 |- *.
        assert (Hne' : kr' <> kr).
        { intro; subst kr'. apply Hne.
          assert (Haa : a' = a) by (unfold rr in Hkr; clear - Hkr Hkr' Q1 P1; lia).
          subst a'. pose proof (NoDup_snd_inj _ (id', a) (r, a) pn Hin' Hin eq_refl) as Heq. inversion Heq. reflexivity. }
        assert (Hkbr' : kb <= kr') by (apply (N.mul_le_mono_pos_r _ _ sg gs); exact Q4).
        intros c Hc. destruct (NTH _ c Hc) as [[Hm _]|[_ [Hold|Hinv]]].
        -- exfalso. unfold n in Hm. clear - Hm Hne' Hkbr Hkbr'. lia.
        -- apply Q5. exact Hold.
        -- exact Hinv.
      * apply NoDup_adel. exact pn.
    + apply (winv_same d); [reflexivity| |exact W]. unfold moves_so_far. cbn. rewrite Act. reflexivity.
    + unfold moves_so_far. cbn. rewrite Act. reflexivity.
  - destruct (negb (d_sside d =? d_dside d)); intro E; injection E as <- <-; apply keeps_view; auto.
Qed.
