(** C23 — proofs, part 14: the content invariant through finishTransaction, parseFromCP and Tick;
    the copy is complete when the acknowledgment is sent. *)
From Coq Require Import Permutation.
From Akita Require Import Lib.Base C23.Model C23.Mem C23.Proofs C23.Proofs3 C23.Proofs4 C23.Proofs5 C23.Proofs6 C23.Proofs7.
From Akita Require Import C23.Proofs9 C23.Proofs10 C23.Proofs11 C23.Proofs12 C23.Proofs13.
Local Open Scope N_scope.
Local Ltac Zify.zify_post_hook ::= idtac.

(** moves whose ranges lie inside the memories (of lengths li, lo) and, when source and
    destination are on the same side, do not overlap *)
Definition gmove (li lo : nat) (v : move) : Prop :=
  (v_sside v <> v_dside v \/ v_saddr v + v_size v <= v_daddr v \/ v_daddr v + v_size v <= v_saddr v) /\
  v_saddr v + v_size v <= N.of_nat (pick (v_sside v) li lo) /\
  v_daddr v + v_size v <= N.of_nat (pick (v_dside v) li lo).

Record kinv (li lo : nat) (d : dm) (mi mo : list N) (pi po : list mreq) : Prop := mk_kinv {
  k_u : UB d pi po;
  k_li : length mi = li; k_lo : length mo = lo;
  k_act : d_active d = true -> cinv d mi mo pi po;
  k_idle : d_active d = false -> no_writes d pi po;
  k_top : Forall (gmove li lo) (d_top_in d) }.

Lemma pick_length s (mi mo : list N) : length (pick s mi mo) = pick s (length mi) (length mo).
Proof. unfold pick. destruct (s =? 0); reflexivity. Qed.

(** when finishTransaction acknowledges, the destination range holds the source range *)
Lemma finish_copy d mi mo pi po : d_active d = true -> sinv d -> cinv d mi mo pi po -> fst (finish d) = true ->
  mem_read (pick (d_dside d) mi mo) (v_daddr (d_req d)) (v_size (d_req d)) =
  mem_read (pick (d_sside d) mi mo) (v_saddr (d_req d)) (v_size (d_req d)).
Proof.
  intros Act S C F. destruct S as [gs gd ms md ws wd sal sside [rd1 [rd2 rd3]] [wr1 [wr2 wr3]] bg bo ch pr pn].
  destruct C as [Hss Hds Sep Nw Fs Fd R B [W1 W2]].
  unfold finish in F. rewrite Act in F. cbn [negb] in F. rewrite (w64_small _ wd) in F.
  destruct (d_next_write d <? v_daddr (d_req d) + v_size (d_req d)) eqn:Lt; [discriminate|].
  destruct (d_pread d) as [|x r]; [|discriminate]. destruct (d_pwrite d) as [|y r'] eqn:PW; [|discriminate].
  assert (Hwr : d_next_write d - v_daddr (d_req d) = v_size (d_req d)) by (clear - Lt wr1 wr3 rd3; lia).
  rewrite Hwr in W2. destruct (mult_of (d_dg d) _ gd md) as [kz Hkz].
  rewrite Hkz. rewrite <- (N2Nat.id kz). apply (mem_read_chunks _ _ _ _ (d_dg d) gd).
  intros j Hj.
  destruct (W2 (N.of_nat j * d_dg d) (mult_mod _ _ gd)) as [L|[id Hin]]; [rewrite Hkz; clear - Hj gd; nia|exact L|].
  destruct (W1 id _ _ Hin) as [[a' Ha'] _]. discriminate.
Qed.

Lemma finish_kinv li lo d mi mo pi po : kinv li lo d mi mo pi po -> kinv li lo (snd (finish d)) mi mo pi po.
Proof.
  intros K. pose proof K as [U Li Lo A I T]. unfold finish.
  destruct (d_active d) eqn:Act; cbn [negb snd]; [|exact K].
  destruct (d_next_write d <? w64 (v_daddr (d_req d) + v_size (d_req d))); [exact K|].
  destruct (negb ((length (d_pread d) =? 0)%nat && (length (d_pwrite d) =? 0)%nat)) eqn:P; [exact K|].
  pose proof (A eq_refl) as C.
  destruct (N.of_nat (length (d_top_out d)) <? d_top_cap d); cbn [snd].
  - (* acknowledged: nothing is on its way to either memory any more *)
    constructor; cbn [d_active d_top_in]; [|exact Li|exact Lo|discriminate| |exact T].
    + apply (UB_bump d); [cbn; lia|reflexivity|exact U].
    + intros _ s Hs id a x Hin.
      change (port_of (mk_dm _ _ _ _ _ _ _ _ _ _ _ _ _ _ _ _ _ _ (d_inside d) (d_outside d) _ _) s) with (port_of d s) in Hin.
      destruct C as [Hss Hds Sep Nw _ _ _ _ [W1 _]].
      pose proof (Nw s Hs id a x Hin). subst s.
      destruct (W1 id a x Hin) as [[a' Ha'] _].
      apply negb_false_iff, andb_true_iff in P. destruct P as [_ P]. destruct (d_pwrite d); [discriminate|discriminate].
  - constructor; cbn [upd d_active d_top_in]; [|exact Li|exact Lo| | |exact T].
    + apply (UB_bump d); [cbn; lia|reflexivity|exact U].
    + intros _. destruct C. constructor; assumption.
    + discriminate.
Qed.

Lemma parse_cp_kinv li lo d mi mo pi po p d' : kinv li lo d mi mo pi po -> parse_cp d = Ret (p, d') ->
  kinv li lo d' mi mo pi po.
Proof.
  intros K. pose proof K as [U Li Lo A I T]. unfold parse_cp.
  destruct (d_active d) eqn:Act. { intro E. injection E as <- <-. exact K. }
  destruct (d_top_in d) as [|v rest] eqn:Tin. { intro E. injection E as <- <-. exact K. }
  destruct (gran_of d (v_sside v)) as [sg|] eqn:Gs; [|discriminate].
  destruct (gran_of d (v_dside v)) as [dg|] eqn:Gd; [|discriminate].
  destruct ((sg =? 0) || negb (v_saddr v mod sg =? 0)); [discriminate|].
  destruct ((dg =? 0) || negb (v_daddr v mod dg =? 0)); [discriminate|].
  intro E. injection E as <- <-.
  apply Forall_cons_iff in T. destruct T as [[Gne [Gfs Gfd]] Tr].
  assert (Hs1 : v_sside v <= 1).
  { unfold gran_of in Gs. destruct (v_sside v =? 0) eqn:E0; [lia|]. destruct (v_sside v =? 1) eqn:E1; [lia|discriminate]. }
  assert (Hd1 : v_dside v <= 1).
  { unfold gran_of in Gd. destruct (v_dside v =? 0) eqn:E0; [lia|]. destruct (v_dside v =? 1) eqn:E1; [lia|discriminate]. }
  pose proof (I eq_refl) as NW.
  constructor; cbn [d_active d_top_in]; [|exact Li|exact Lo|intros _|discriminate|exact Tr].
  - apply (UB_bump d); [cbn; lia|reflexivity|exact U].
  - constructor; cbn [d_sside d_dside d_req d_pread d_pwrite d_buf d_next_write d_sg d_dg]; try assumption.
    + intros s Hs id a x Hin. exfalso. apply (NW s Hs id a x Hin).
    + rewrite pick_length, Li, Lo. exact Gfs.
    + rewrite pick_length, Li, Lo. exact Gfd.
    + split.
      * intros id a n _ a' Ha'. discriminate.
      * intros id x _ a Ha. discriminate.
    + intros [|i] c Hi; discriminate.
    + rewrite N.sub_diag. split.
      * intros id a x Hin. exfalso. apply (NW _ Hd1 id a x Hin).
      * intros o _ Ho. exfalso. clear - Ho. lia.
Qed.

Lemma kinv_sview li lo d d' mi mo pi po : kinv li lo d mi mo pi po -> d_active d = true ->
  cinv d' mi mo pi po -> UB d' pi po -> d_active d' = true -> d_top_in d' = d_top_in d -> kinv li lo d' mi mo pi po.
Proof.
  intros [U Li Lo A I T] Act C' U' A' T'. constructor; try assumption; [intros _; exact C'|rewrite A'; discriminate|rewrite T'; exact T].
Qed.

Lemma tick_kinv gin gout li lo d mi mo pi po p d' : ginv gin gout d -> kinv li lo d mi mo pi po ->
  tick d = Ret (p, d') -> kinv li lo d' mi mo pi po.
Proof.
  intros G K. unfold tick.
  pose proof (finish_ginv gin gout d G) as G1. pose proof (finish_kinv li lo d mi mo pi po K) as K1.
  destruct (finish d) as [p1 d1]. cbn [snd] in G1, K1.
  destruct (parse_cp d1) as [[p2 d2]| |] eqn:P; cbn [bind]; try discriminate.
  pose proof (parse_cp_ginv gin gout d1 p2 d2 G1 P) as G2. pose proof (parse_cp_kinv li lo d1 mi mo pi po p2 d2 K1 P) as K2.
  destruct (d_active d2) eqn:Act.
  - pose proof (g_s _ _ _ G2 Act) as S2. pose proof (g_w _ _ _ G2) as W2.
    pose proof (k_act _ _ _ _ _ _ _ K2 Act) as C2. pose proof (k_u _ _ _ _ _ _ _ K2) as U2.
    pose proof (proc_write_done_sinv d2 Act S2 W2) as [S3 [W3 [A3 _]]].
    pose proof (proc_write_done_cinv d2 mi mo pi po Act C2 U2) as [C3 U3].
    pose proof (proc_write_done_ctl d2 Act) as T3.
    destruct (proc_write_done d2) as [p3 d3]. cbn [snd] in *.
    destruct (write_dst d3) as [[p4 d4]| |] eqn:Wd; cbn [bind]; try discriminate.
    pose proof (write_dst_sinv d3 p4 d4 A3 S3 W3 Wd) as [S4 [W4 [A4 _]]].
    pose proof (write_dst_cinv d3 mi mo pi po p4 d4 A3 S3 C3 U3 Wd) as [C4 U4].
    pose proof (write_dst_ctl d3 p4 d4 A3 Wd) as T4.
    destruct (proc_data_ready d4) as [[p5 d5]| |] eqn:Rd; cbn [bind]; try discriminate.
    pose proof (proc_data_ready_sinv d4 p5 d5 A4 S4 W4 Rd) as [S5 [W5 [A5 _]]].
    pose proof (proc_data_ready_cinv d4 mi mo pi po p5 d5 A4 S4 C4 U4 Rd) as [C5 U5].
    pose proof (proc_data_ready_ctl d4 p5 d5 A4 Rd) as T5.
    destruct (read_src d5) as [[p6 d6]| |] eqn:Rs; cbn [bind]; try discriminate.
    pose proof (read_src_cinv d5 mi mo pi po p6 d6 A5 C5 U5 Rs) as [C6 U6].
    pose proof (read_src_sinv d5 p6 d6 A5 S5 W5 Rs) as [_ [_ [A6 _]]].
    pose proof (read_src_ctl d5 p6 d6 A5 Rs) as T6.
    intro E. injection E as <- <-.
    apply (kinv_sview li lo d2 d6 mi mo pi po K2 Act C6 U6 A6).
    unfold ctl in *. inversion T3. inversion T4. inversion T5. inversion T6. congruence.
  - destruct (transfer_inactive d2 Act) as [T1 [T2 [T3 T4]]].
    rewrite T1, T2. cbn [bind]. rewrite T3. cbn [bind]. rewrite T4. cbn [bind].
    intro E. injection E as <- <-. exact K2.
Qed.
