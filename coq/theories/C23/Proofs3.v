(** C23 — proofs, part 3: structural facts about the chunk buffer. *)
From Akita Require Import Lib.Base C23.Model.
Local Open Scope N_scope.

Lemma sub64_small a b : b <= a -> a < two64 -> sub64 a b = a - b.
Proof.
  intros H1 H2. unfold sub64. rewrite (N.mod_small b two64) by lia.
  replace (a + two64 - b) with ((a - b) + 1 * two64) by lia.
  rewrite N.mod_add by (unfold two64; lia). apply N.mod_small. lia.
Qed.

(** ---- set_nth *)
Lemma nth_error_set_nth {A} (x : A) : forall n l m, (n < length l)%nat ->
  nth_error (set_nth n x l) m = if Nat.eqb m n then Some x else nth_error l m.
Proof.
  induction n as [|k IH]; intros [|y r] m Hl; cbn [length] in Hl; try lia; cbn [set_nth].
  - destruct m; reflexivity.
  - destruct m as [|m]; cbn [nth_error Nat.eqb]; [reflexivity|]. apply IH. lia.
Qed.

Lemma length_set_nth {A} (x : A) : forall n l, length (set_nth n x l) = length l.
Proof.
  induction n as [|k IH]; intros [|y r]; cbn [set_nth length]; try reflexivity. rewrite IH. reflexivity.
Qed.

Lemma nth_error_pad {A} (l : list A) (z : A) k m :
  nth_error (l ++ repeat z k) m =
  if (m <? length l)%nat then nth_error l m else if (m <? length l + k)%nat then Some z else None.
Proof.
  destruct (m <? length l)%nat eqn:E.
  - apply nth_error_app1. apply Nat.ltb_lt. exact E.
  - apply Nat.ltb_ge in E. rewrite nth_error_app2 by exact E.
    destruct (m <? length l + k)%nat eqn:E2.
    + apply Nat.ltb_lt in E2. apply nth_error_repeat. lia.
    + apply Nat.ltb_ge in E2. apply nth_error_None. rewrite repeat_length. lia.
Qed.

Lemma nth_error_skipn' {A} (l : list A) : forall k j, nth_error (skipn k l) j = nth_error l (k + j).
Proof.
  induction l as [|x r IH]; intros [|k] j; cbn [skipn nth_error plus]; try reflexivity.
  - destruct j; reflexivity.
  - apply IH.
Qed.

(** ---- bufferExtractData: a successful extraction has the requested length and is covered
    by valid chunks *)
Lemma extract_loop_cover G : forall cs so left acc out, 0 < G -> so < G -> 0 < left ->
  extract_loop G cs so left acc = Ret (Some out) ->
  N.of_nat (length out) = N.of_nat (length acc) + left /\
  exists i : nat,
    (forall j, (j <= i)%nat -> exists c, nth_error cs j = Some c /\ ch_valid c = true) /\
    so + left <= (N.of_nat i + 1) * G /\ N.of_nat i * G < so + left.
Proof.
  induction cs as [|c rest IH]; intros so left acc out HG Hso Hleft; cbn [extract_loop]; [discriminate|].
  destruct (ch_valid c) eqn:Vc; cbn [negb]; [|discriminate].
  set (n := N.min (G - so) left).
  destruct (N.of_nat (length (ch_data c)) <? so + n) eqn:Short; [discriminate|].
  assert (Hlen : length (firstn (N.to_nat n) (skipn (N.to_nat so) (ch_data c))) = N.to_nat n).
  { rewrite firstn_length, skipn_length. lia. }
  destruct (left - n =? 0) eqn:Z.
  - intro E. inversion E; subst out. split; [rewrite app_length, Hlen; lia|].
    exists 0%nat. split; [|unfold n in *; lia].
    intros j Hj. assert (j = 0)%nat by lia. subst j. exists c. split; [reflexivity|exact Vc].
  - intro E. assert (Hn : n = G - so) by (unfold n in *; lia).
    destruct (IH 0 (left - n) _ out HG HG ltac:(lia) E) as [L [i [V [C1 C2]]]].
    split; [rewrite app_length, Hlen in L; lia|].
    exists (S i). split; [|lia].
    intros [|j] Hj; [exists c; split; [reflexivity|exact Vc]|]. cbn [nth_error]. apply V. lia.
Qed.

Lemma buf_extract_cover b off n out : 0 < b_gran b -> b_off b <= off -> off < two64 ->
  off - b_off b < b_gran b -> 0 < n ->
  buf_extract b off n = Ret (Some out) ->
  N.of_nat (length out) = n /\
  exists i : nat,
    (forall j, (j <= i)%nat -> exists c, nth_error (b_chunks b) j = Some c /\ ch_valid c = true) /\
    (off - b_off b) + n <= (N.of_nat i + 1) * b_gran b.
Proof.
  intros HG Ho H64 Hrel Hn. unfold buf_extract.
  destruct (b_gran b =? 0) eqn:Z; [lia|].
  rewrite (sub64_small off (b_off b) Ho H64).
  rewrite (N.div_small _ _ Hrel). cbn [N.to_nat skipn]. rewrite N.mul_0_l, N.sub_0_r.
  destruct (N.of_nat (length (b_chunks b)) <=? 0); [discriminate|].
  intro E. destruct (extract_loop_cover _ _ _ _ _ _ HG Hrel Hn E) as [L [i [V [C1 _]]]].
  split; [cbn [length] in L; lia|]. exists i. split; assumption.
Qed.
