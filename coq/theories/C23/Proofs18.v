(** C23 — proofs, part 18: one scripted instant and whole runs; the copy is exact when the
    acknowledgment is sent and the source memory is stable while a move is in progress. *)
From Coq Require Import Permutation.
From Akita Require Import Lib.Base C23.Model C23.Mem C23.Proofs C23.Proofs2 C23.Proofs3 C23.Proofs4 C23.Proofs5 C23.Proofs6 C23.Proofs7 C23.Proofs8.
From Akita Require Import C23.Proofs9 C23.Proofs10 C23.Proofs11 C23.Proofs12 C23.Proofs13 C23.Proofs14 C23.Proofs15 C23.Proofs16 C23.Proofs17.
Local Open Scope N_scope.
Local Ltac Zify.zify_post_hook ::= idtac.

(** instants of the scripts the copy theorem speaks about: moves between the two sides, sizes
    multiples of both granularities, ranges inside the memories; the memories answer the
    requests they were sent and nothing else (no injected responses) *)
Definition inst_ok (gi go : N) (li lo : nat) (i : instant) : Prop :=
  Forall (nice gi go) (i_top i) /\ Forall (gmove li lo) (i_top i) /\ i_stray_in i = [] /\ i_stray_out i = [].

Lemma deliver_top_fields vs : forall d,
  d_active (deliver_top d vs) = d_active d /\ d_sside (deliver_top d vs) = d_sside d /\ d_req (deliver_top d vs) = d_req d /\
  g_acks (deliver_top d vs) = g_acks d.
Proof.
  unfold deliver_top. induction vs as [|v r IH]; intro d; cbn [fold_left]; [repeat split|].
  destruct (N.of_nat (length (d_top_in d)) <? d_top_cap d); [|apply IH].
  destruct (IH (mk_dm (d_bufsize d) (d_gin d) (d_gout d) (d_next_id d) (d_active d) (d_req d) (d_next_read d) (d_next_write d)
               (d_pread d) (d_pwrite d) (d_buf d) (d_sg d) (d_dg d) (d_sside d) (d_dside d)
               (d_top_in d ++ [v]) (d_top_out d) (d_top_cap d) (d_inside d) (d_outside d) (g_acks d) (g_writes d))) as [A [B [C D]]].
  cbn in A, B, C, D. repeat split; assumption.
Qed.

Lemma serve_fold_sside s ks : forall e, d_sside (e_dm (fold_left (serve s) ks e)) = d_sside (e_dm e).
Proof.
  induction ks as [|k r IH]; intro e; cbn [fold_left]; [reflexivity|]. rewrite IH. unfold serve. brute.
Qed.

Lemma env_step_einv gi go li lo e i e' ob : einv gi go li lo e -> inst_ok gi go li lo i ->
  env_step e i = Ret (e', ob) ->
  einv gi go li lo e' /\
  (* the source memory of a move in progress is not written *)
  (d_active (e_dm e) = true ->
     mem_read (pick (d_sside (e_dm e)) (e_mem_in e') (e_mem_out e')) (v_saddr (d_req (e_dm e))) (v_size (d_req (e_dm e))) =
     mem_read (pick (d_sside (e_dm e)) (e_mem_in e) (e_mem_out e)) (v_saddr (d_req (e_dm e))) (v_size (d_req (e_dm e)))) /\
  (* an acknowledgment sent in this instant finds the copy complete *)
  (forall a v, g_acks (e_dm e') = g_acks (e_dm e) ++ [(a, v)] ->
     mem_read (pick (v_dside v) (e_mem_in e') (e_mem_out e')) (v_daddr v) (v_size v) =
     mem_read (pick (v_sside v) (e_mem_in e') (e_mem_out e')) (v_saddr v) (v_size v) /\
     to_snap ob = Some (e_mem_in e', e_mem_out e')).
Proof.
  intros [G K S] [Hn [Hg [Hsi Hso]]]. unfold env_step. rewrite Hsi, Hso. cbn [fold_left].
  set (d0 := deliver_top (e_dm e) (i_top i)).
  destruct (deliver_top_fields (i_top i) (e_dm e)) as [F1 [F2 [F3 F4]]]. fold d0 in F1, F2, F3, F4.
  set (e0 := mk_env d0 (e_mem_in e) (e_mem_out e) (e_pend_in e) (e_pend_out e)).
  assert (E0 : einv gi go li lo e0).
  { constructor; cbn [e0 e_dm e_mem_in e_mem_out e_pend_in e_pend_out].
    - apply deliver_top_ginv; assumption.
    - apply deliver_top_kinv; assumption.
    - unfold ss_ok. rewrite F1, F2, F3. exact S. }
  destruct (serve_fold_einv gi go li lo 0 (i_serve_in i) ltac:(lia) e0 E0) as [E1 [M1 C1]].
  set (e1 := fold_left (serve 0) (i_serve_in i) e0) in *.
  destruct (serve_fold_einv gi go li lo 1 (i_serve_out i) ltac:(lia) e1 E1) as [E2 [M2 C2]].
  set (e2 := fold_left (serve 1) (i_serve_out i) e1) in *.
  assert (A1 : d_active (e_dm e1) = d_active (e_dm e)) by (unfold ctl in C1; inversion C1; cbn [e0 e_dm] in *; congruence).
  assert (Ss1 : d_sside (e_dm e1) = d_sside (e_dm e)) by (unfold e1; rewrite serve_fold_sside; cbn [e0 e_dm]; exact F2).
  destruct E2 as [G2 K2 S2].
  destruct (tick (e_dm e2)) as [[p d1]| |] eqn:T; cbn [bind]; try discriminate.
  pose proof (tick_ginv gi go _ _ _ G2 T) as G1'. pose proof (tick_kinv gi go li lo _ _ _ _ _ _ _ G2 K2 T) as K1'.
  pose proof (tick_ss _ _ _ S2 T) as S1'. pose proof (tick_gacks _ _ _ T) as GA.
  intro E. injection E as <- <-. cbn [e_dm e_mem_in e_mem_out e_pend_in e_pend_out to_snap].
  assert (Acks2 : g_acks (e_dm e2) = g_acks (e_dm e)).
  { unfold ctl in C1, C2. inversion C1. inversion C2. cbn [e0 e_dm] in *. congruence. }
  split; [|split].
  - constructor; cbn [e_dm e_mem_in e_mem_out e_pend_in e_pend_out].
    + apply (ginv_core gi go d1); [repeat split|cbn [d_top_in]; apply (g_nice _ _ _ G1')|exact G1'].
    + apply (kinv_drain li lo d1 _ _ (e_pend_in e2) (e_pend_out e2)); try reflexivity; [|exact K1'].
      intros s Hs. unfold port_of, pick. destruct (s =? 0); cbn [d_inside d_outside p_in p_out]; (split; [reflexivity|apply drain_perm]).
    + unfold ss_ok in *. exact S1'.
  - intro Act.
    assert (A0 : d_active (e_dm e0) = true) by (cbn [e0 e_dm]; rewrite F1; exact Act).
    assert (Ss2 : d_sside (e_dm e2) = d_sside (e_dm e)) by (unfold e2; rewrite serve_fold_sside; exact Ss1).
    pose proof (M2 ltac:(rewrite A1; exact Act)) as X2. pose proof (M1 A0) as X1. unfold src_mem in X1, X2.
    assert (Rq1 : d_req (e_dm e1) = d_req (e_dm e)) by (unfold ctl in C1; inversion C1; cbn [e0 e_dm] in *; congruence).
    assert (Rq2 : d_req (e_dm e2) = d_req (e_dm e)) by (unfold ctl in C2; inversion C2; congruence).
    rewrite Ss2, Ss1, Rq2, Rq1 in X2. rewrite Ss1, Rq1 in X1. cbn [e0 e_dm e_mem_in e_mem_out] in X1. rewrite F2, F3 in X1. congruence.
  - intros a v Hacks. rewrite GA, <- Acks2 in Hacks.
    destruct (finish_acks (e_dm e2)) as [Same|[Act [Fin [a0 Hap]]]].
    + rewrite Same in Hacks. exfalso. apply (f_equal (@length _)) in Hacks. rewrite app_length in Hacks. cbn in Hacks. lia.
    + rewrite Hap in Hacks. apply app_inj_tail in Hacks. destruct Hacks as [_ Hv]. inversion Hv; subst a0 v.
      pose proof (finish_copy (e_dm e2) _ _ _ _ Act (g_s _ _ _ G2 Act) (k_act _ _ _ _ _ _ _ K2 Act) Fin) as Cp.
      rewrite (s_side _ (g_s _ _ _ G2 Act)) in Cp. rewrite (S2 Act) in Cp. split; [exact Cp|].
      rewrite GA, Hap, app_length. cbn [length].
      destruct (length (g_acks (e_dm e2)) + 1 =? length (g_acks (e_dm e2)))%nat eqn:Eq; [apply Nat.eqb_eq in Eq; lia|reflexivity].
Qed.

Lemma env_run_einv gi go li lo s : Forall (inst_ok gi go li lo) s -> forall e e' obs oc,
  einv gi go li lo e -> env_run e s = (e', obs, oc) -> einv gi go li lo e'.
Proof.
  induction s as [|i rest IH]; intros Hs e e' obs oc E; cbn [env_run].
  - intro R. injection R as <- <- <-. exact E.
  - inversion Hs as [|? ? Hi Hr]; subst.
    destruct (env_step e i) as [[e1 ob]| |] eqn:ES.
    + destruct (env_run e1 rest) as [[e2 obs2] oc2] eqn:ER. intro R. injection R as <- <- <-.
      destruct (env_step_einv gi go li lo e i e1 ob E Hi ES) as [E1 _]. apply (IH Hr e1 e2 obs2 oc2 E1 ER).
    + intro R. injection R as <- <- <-. exact E.
    + intro R. injection R as <- <- <-. exact E.
Qed.

Lemma einv_init b gi go tc ic oc mi mo : einv gi go (length mi) (length mo) (mk_env (dm_init b gi go tc ic oc) mi mo [] []).
Proof.
  constructor; cbn [e_dm e_mem_in e_mem_out e_pend_in e_pend_out].
  - apply ginv_init.
  - constructor; cbn; try reflexivity; try discriminate.
    + intros s Hs. unfold idlist, port_of, pick. destruct (s =? 0); cbn; (split; [constructor|intros id []]).
    + intros _ s Hs id a x. unfold port_of, pick. destruct (s =? 0); cbn; tauto.
    + constructor.
  - unfold ss_ok. cbn. discriminate.
Qed.
