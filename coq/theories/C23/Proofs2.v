(** C23 — proofs, part 2: the acknowledgment invariant through scripted runs. *)
From Akita Require Import Lib.Base C23.Model C23.Proofs.
Local Open Scope N_scope.

Lemma deliver_top_full d vs : (N.of_nat (length (d_top_in d)) <? d_top_cap d) = false -> deliver_top d vs = d.
Proof.
  intro F. unfold deliver_top. induction vs as [|v r IH]; cbn [fold_left]; [reflexivity|]. rewrite F. exact IH.
Qed.

Lemma deliver_top_spec vs : forall d, exists taken,
  d_top_in (deliver_top d vs) = d_top_in d ++ taken /\ taken = firstn (length taken) vs /\
  g_acks (deliver_top d vs) = g_acks d /\ d_active (deliver_top d vs) = d_active d /\
  d_req (deliver_top d vs) = d_req d /\ d_top_out (deliver_top d vs) = d_top_out d.
Proof.
  induction vs as [|v r IH]; intro d.
  - exists []. cbn. rewrite app_nil_r. repeat split.
  - destruct (N.of_nat (length (d_top_in d)) <? d_top_cap d) eqn:F.
    + unfold deliver_top. cbn [fold_left]. rewrite F. fold (deliver_top
        (mk_dm (d_bufsize d) (d_gin d) (d_gout d) (d_next_id d) (d_active d) (d_req d) (d_next_read d) (d_next_write d)
               (d_pread d) (d_pwrite d) (d_buf d) (d_sg d) (d_dg d) (d_sside d) (d_dside d)
               (d_top_in d ++ [v]) (d_top_out d) (d_top_cap d) (d_inside d) (d_outside d) (g_acks d) (g_writes d)) r).
      destruct (IH (mk_dm (d_bufsize d) (d_gin d) (d_gout d) (d_next_id d) (d_active d) (d_req d) (d_next_read d) (d_next_write d)
               (d_pread d) (d_pwrite d) (d_buf d) (d_sg d) (d_dg d) (d_sside d) (d_dside d)
               (d_top_in d ++ [v]) (d_top_out d) (d_top_cap d) (d_inside d) (d_outside d) (g_acks d) (g_writes d)))
        as [taken [H1 [H2 [H3 [H4 [H5 H6]]]]]].
      cbn [d_top_in g_acks d_active d_req d_top_out] in H1, H3, H4, H5, H6.
      exists (v :: taken). rewrite H1, <- app_assoc. cbn [app length firstn]. rewrite <- H2. repeat split; assumption.
    + rewrite (deliver_top_full d (v :: r) F). exists []. rewrite app_nil_r. repeat split.
Qed.

Lemma deliver_top_ainv arrived sent d vs : ainv arrived sent d ->
  ainv (arrived ++ firstn (length (d_top_in (deliver_top d vs)) - length (d_top_in d)) vs) sent (deliver_top d vs).
Proof.
  intros [A B C]. destruct (deliver_top_spec vs d) as [taken [H1 [H2 [H3 [H4 [H5 H6]]]]]].
  rewrite H1, app_length. replace (length (d_top_in d) + length taken - length (d_top_in d))%nat with (length taken) by lia.
  rewrite <- H2. constructor; rewrite ?H1, ?H3, ?H4, ?H5, ?H6; try assumption.
  rewrite A, <- !app_assoc. reflexivity.
Qed.

Lemma serve_ctl side e k : ctl (e_dm (serve side e k)) = ctl (e_dm e).
Proof.
  unfold serve.
  destruct (nth_error (if side =? 0 then e_pend_in e else e_pend_out e) k) as [rq|]; [|reflexivity].
  destruct (N.of_nat (length (p_in (if side =? 0 then d_inside (e_dm e) else d_outside (e_dm e)))) <?
            p_cap (if side =? 0 then d_inside (e_dm e) else d_outside (e_dm e))); [|reflexivity].
  destruct rq; destruct (side =? 0); reflexivity.
Qed.

Lemma stray_ctl side e x : ctl (e_dm (stray side e x)) = ctl (e_dm e).
Proof.
  unfold stray.
  destruct (N.of_nat (length (p_in (if side =? 0 then d_inside (e_dm e) else d_outside (e_dm e)))) <?
            p_cap (if side =? 0 then d_inside (e_dm e) else d_outside (e_dm e))); reflexivity.
Qed.

Lemma fold_ctl {A} (f : env -> A -> env) (l : list A) :
  (forall e x, ctl (e_dm (f e x)) = ctl (e_dm e)) -> forall e, ctl (e_dm (fold_left f l e)) = ctl (e_dm e).
Proof.
  intro H. induction l as [|x r IH]; intro e; cbn [fold_left]; [reflexivity|]. rewrite IH. apply H.
Qed.

(** the moves that entered Top during a run, read off the per-tick observations *)
Fixpoint arrivals (s : list instant) (obs : list tick_obs) : list move :=
  match s, obs with
  | i :: s', ob :: obs' => firstn (to_ntop ob) (i_top i) ++ arrivals s' obs'
  | _, _ => []
  end.

Lemma env_step_ainv arrived sent e i e' ob : ainv arrived sent (e_dm e) -> env_step e i = Ret (e', ob) ->
  ainv (arrived ++ firstn (to_ntop ob) (i_top i)) (sent ++ to_acks ob) (e_dm e').
Proof.
  intros I. unfold env_step.
  pose proof (deliver_top_ainv arrived sent (e_dm e) (i_top i) I) as I0.
  set (d0 := deliver_top (e_dm e) (i_top i)) in *.
  set (e1 := fold_left (serve 0) (i_serve_in i) (mk_env d0 (e_mem_in e) (e_mem_out e) (e_pend_in e) (e_pend_out e))).
  set (e2a := fold_left (serve 1) (i_serve_out i) e1).
  set (e2 := fold_left (stray 1) (i_stray_out i) (fold_left (stray 0) (i_stray_in i) e2a)).
  assert (C2 : ctl (e_dm e2) = ctl d0).
  { unfold e2. rewrite (fold_ctl (stray 1) _ (stray_ctl 1)), (fold_ctl (stray 0) _ (stray_ctl 0)).
    unfold e2a. rewrite (fold_ctl (serve 1) _ (serve_ctl 1)). unfold e1. rewrite (fold_ctl (serve 0) _ (serve_ctl 0)). reflexivity. }
  pose proof (ainv_ctl _ _ d0 (e_dm e2) C2 I0) as I2.
  destruct (tick (e_dm e2)) as [[p d1]| |] eqn:T; cbn [bind]; try discriminate.
  pose proof (tick_ainv _ _ _ _ _ I2 T) as [A B C].
  intro E. injection E as <- <-. cbn [e_dm to_ntop to_acks].
  constructor; cbn [g_acks d_active d_req d_top_in d_top_out]; try assumption.
  rewrite C, <- app_assoc, firstn_skipn. reflexivity.
Qed.

Lemma env_run_ainv s : forall arrived sent e e' obs oc, ainv arrived sent (e_dm e) -> env_run e s = (e', obs, oc) ->
  ainv (arrived ++ arrivals s obs) (sent ++ flat_map to_acks obs) (e_dm e').
Proof.
  induction s as [|i rest IH]; intros arrived sent e e' obs oc I; cbn [env_run].
  - intro E. injection E as <- <- <-. cbn. rewrite !app_nil_r. exact I.
  - destruct (env_step e i) as [[e1 ob]| |] eqn:ES.
    + destruct (env_run e1 rest) as [[e2 obs2] oc2] eqn:ER. intro E. injection E as <- <- <-.
      cbn [arrivals flat_map]. rewrite !app_assoc.
      apply (IH _ _ e1 e2 obs2 oc2 (env_step_ainv _ _ _ _ _ _ I ES) ER).
    + intro E. injection E as <- <- <-. cbn. rewrite !app_nil_r. exact I.
    + intro E. injection E as <- <- <-. cbn. rewrite !app_nil_r. exact I.
Qed.

Lemma ainv_init b gi go tc ic oc : ainv [] [] (dm_init b gi go tc ic oc).
Proof. constructor; cbn; [reflexivity|constructor|reflexivity]. Qed.
