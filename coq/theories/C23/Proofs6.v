(** C23 — proofs, part 6: readFromSrc, the control steps, Tick, scripted runs. *)
From Akita Require Import Lib.Base C23.Model C23.Proofs C23.Proofs2 C23.Proofs3 C23.Proofs4 C23.Proofs5.
Local Open Scope N_scope.
Local Ltac Zify.zify_post_hook ::= idtac.

(** ---- readFromSrc *)
Lemma read_src_sinv d p d' : d_active d = true -> sinv d -> winv d -> read_src d = Ret (p, d') -> keeps d d'.
Proof.
  intros Act S W. unfold read_src. rewrite Act. cbn [negb].
  destruct (d_sg d =? 0) eqn:Zs; [discriminate|].
  pose proof S as S0.
  destruct S as [gs gd ms md ws wd sal sside [rd1 [rd2 rd3]] [wr1 [wr2 wr3]] bg bo ch pr pn].
  set (v := d_req d) in *. set (sg := d_sg d) in *. set (dg := d_dg d) in *.
  set (wr := d_next_write d - v_daddr v) in *. set (rd := d_next_read d - v_saddr v) in *.
  (* NextReadAddr is already aligned *)
  destruct (mult_of sg rd gs rd2) as [kd Hkd]. destruct (mult_of sg _ gs sal) as [ks Hks].
  assert (Hnr : d_next_read d = (ks + kd) * sg) by (unfold rd in Hkd; clear - Hkd Hks rd1; nia).
  assert (Hal : d_next_read d / sg * sg = d_next_read d) by (rewrite Hnr at 1; rewrite (mult_div sg _ gs); symmetry; exact Hnr).
  rewrite Hal. cbv zeta.
  destruct (w64 (b_off (d_buf d) + d_bufsize d) <=? sub64 (d_next_read d) (v_saddr v)).
  { intro E. injection E as <- <-. apply keeps_view; auto. }
  rewrite (w64_small _ ws).
  destruct (v_saddr v + v_size v <=? d_next_read d) eqn:End.
  { intro E. injection E as <- <-. apply keeps_view; auto. }
  destruct (side_port d (d_sside d)) as [q|]; [|discriminate].
  destruct (can_send q).
  2:{ intro E. injection E as <- <-. apply keeps_view; auto; unfold sview, upd; cbn; rewrite ?Act; reflexivity. }
  (* one more granule fits below the end of the range *)
  destruct (mult_of sg _ gs ms) as [kz Hkz].
  assert (Hfit : rd + sg <= v_size v).
  { assert (rd < v_size v) by (unfold rd; clear - End rd1; lia).
    rewrite Hkd, Hkz in *. assert (kd < kz) by (clear - H gs; nia). clear - H0; nia. }
  assert (H64 : d_next_read d + sg < two64) by (unfold rd in Hfit; clear - Hfit rd1 ws; lia).
  rewrite (w64_small _ H64).
  intro E. injection E as <- <-.
  destruct (floor_mult sg wr gs) as [kb [Hkb [Hkb1 Hkb2]]].
  split; [|split; [|split; [reflexivity|]]].
  - constructor; cbn [d_sg d_dg d_req d_dside d_next_read d_next_write d_pread d_buf upd with_port];
      fold v sg dg wr; try assumption; try tauto.
    + split; [clear - rd1; lia|]. replace (d_next_read d + sg - v_saddr v) with (rd + sg) by (unfold rd; clear - rd1; lia).
      split; [|exact Hfit]. rewrite Hkd. replace (kd * sg + sg) with ((kd + 1) * sg) by (clear; lia). apply mult_mod. exact gs.
    + split; [exact wr1|split; [exact wr2|]]. fold rd in wr3. clear - wr3 rd1. lia.
    + intros i c Hi Hv. pose proof (ch i c Hi Hv) as B. fold rd in B. clear - B rd1. lia.
    + intros id a [Heq|Hin].
      * inversion Heq; subst id a. fold rd.
        replace (d_next_read d - v_saddr v) with rd by reflexivity.
        split; [exact rd1|split; [exact rd2|split; [clear - rd1; lia|]]].
        rewrite bo, Hkb. fold rd in wr3. split; [clear - Hkb1 wr3; lia|].
        intros c Hc. destruct (ch_valid c) eqn:Vc; [exfalso|reflexivity].
        pose proof (ch _ c Hc Vc) as B. rewrite bo, Hkb in B. fold rd in B.
        rewrite Hkd in B, Hc. rewrite <- N.mul_sub_distr_r, (mult_div sg _ gs), N2Nat.id in B.
        assert (kb <= kd) by (apply (N.mul_le_mono_pos_r _ _ sg gs); rewrite <- Hkd; clear - Hkb1 wr3; lia).
        clear - B H gs. nia.
      * destruct (pr id a Hin) as [Q1 [Q2 [Q3 [Q4 Q5]]]]. fold v sg rd in Q1, Q2, Q3, Q4, Q5.
        split; [exact Q1|split; [exact Q2|split; [clear - Q3 rd1; lia|split; [exact Q4|exact Q5]]]].
    + cbn [map snd]. constructor; [|exact pn].
      intro Hin. apply in_map_iff in Hin. destruct Hin as [[id a] [Ha Hin]]. cbn [snd] in Ha. subst a.
      destruct (pr id _ Hin) as [_ [_ [Q3 _]]]. fold v sg rd in Q3. unfold rd in Q3. clear - Q3 gs. lia.
  - apply (winv_same d); [reflexivity| |exact W]. unfold moves_so_far. cbn. rewrite Act. reflexivity.
  - unfold moves_so_far. cbn. rewrite Act. reflexivity.
Qed.

(** ---- processWriteDoneFromDst *)
Lemma proc_write_done_sinv d : d_active d = true -> sinv d -> winv d -> keeps d (snd (proc_write_done d)).
Proof.
  intros Act S W. unfold proc_write_done. rewrite Act. cbn [negb].
  destruct (side_port d (d_dside d)) as [q|]; [|apply keeps_view; auto].
  destruct (p_in q) as [|[r x|r] rest]; [apply keeps_view; auto| |].
  - destruct (negb (d_sside d =? d_dside d)); apply keeps_view; auto.
  - destruct (aget r (d_pwrite d)); apply keeps_view; auto.
Qed.
