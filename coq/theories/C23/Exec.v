(** C23 — case evaluators.  Two kinds of cases: one call of a buffer helper (through the verif
    export of mem/datamover) and a scripted run of the real component between two byte
    memories served in scripted (adversarial) order. *)
From Akita Require Import Lib.Base C23.Model.
Local Open Scope N_scope.

Inductive hop := HAdd (offset : N) (data : list N) | HExtract (offset size : N) | HMove (new_off : N).
Inductive hres := RBuf (b : buffer) | RData (x : option (list N)) | RPanic.

Record run_case := mk_run {
  rc_bufsize : N; rc_gin : N; rc_gout : N; rc_tcap : N; rc_icap : N; rc_ocap : N;
  rc_mem_in : list N; rc_mem_out : list N;
  rc_script : list instant;
  rc_complete : bool;                  (* the script ends with a long all-serving, all-draining tail *)
  ro_ticks : list tick_obs; ro_outcome : N;   (* 0 = ran to the end, 1 = panic *)
  ro_mem_in : list N; ro_mem_out : list N }.

Inductive case := CHelper (b : buffer) (o : hop) (r : hres) | CRun (c : run_case).

Definition data_eqb := list_eqb N.eqb.
Definition chunk_eqb (a b : chunk) : bool := data_eqb (ch_data a) (ch_data b) && Bool.eqb (ch_valid a) (ch_valid b).
Definition buf_eqb (a b : buffer) : bool :=
  (b_off a =? b_off b) && (b_gran a =? b_gran b) && list_eqb chunk_eqb (b_chunks a) (b_chunks b).

Definition hres_eqb (a b : hres) : bool :=
  match a, b with
  | RBuf x, RBuf y => buf_eqb x y
  | RData x, RData y => opt_eqb data_eqb x y
  | RPanic, RPanic => true
  | _, _ => false
  end.

Definition run_helper (b : buffer) (o : hop) : hres :=
  match o with
  | HAdd off d => match buf_add b off d with Ret x => RBuf x | _ => RPanic end
  | HExtract off n => match buf_extract b off n with Ret x => RData x | _ => RPanic end
  | HMove off => match buf_move b off with Ret x => RBuf x | _ => RPanic end
  end.

Definition mreq_eqb (a b : mreq) : bool :=
  match a, b with
  | MRead i a1 n, MRead i' a1' n' => (i =? i') && (a1 =? a1') && (n =? n')
  | MWrite i a1 x, MWrite i' a1' x' => (i =? i') && (a1 =? a1') && data_eqb x x'
  | _, _ => false
  end.
Definition ack_eqb (a b : ack) : bool := (a_id a =? a_id b) && (a_dst a =? a_dst b) && (a_rspto a =? a_rspto b).

Definition tobs_eqb (a b : tick_obs) : bool :=
  Bool.eqb (to_progress a) (to_progress b) && list_eqb ack_eqb (to_acks a) (to_acks b) &&
  list_eqb mreq_eqb (to_in a) (to_in b) && list_eqb mreq_eqb (to_out a) (to_out b) &&
  Bool.eqb (to_active a) (to_active b) && Nat.eqb (to_ntop a) (to_ntop b) &&
  opt_eqb (fun x y => data_eqb (fst x) (fst y) && data_eqb (snd x) (snd y)) (to_snap a) (to_snap b).

Definition init_env (c : run_case) : env :=
  mk_env (dm_init (rc_bufsize c) (rc_gin c) (rc_gout c) (rc_tcap c) (rc_icap c) (rc_ocap c))
         (rc_mem_in c) (rc_mem_out c) [] [].

Definition check_case (c : case) : bool :=
  match c with
  | CHelper b o r => hres_eqb (run_helper b o) r
  | CRun c =>
      let '(e, obs, oc) := env_run (init_env c) (rc_script c) in
      (oc =? ro_outcome c) && list_eqb tobs_eqb obs (ro_ticks c) &&
      data_eqb (e_mem_in e) (ro_mem_in c) && data_eqb (e_mem_out e) (ro_mem_out c)
  end.

(** ---- the property on the observed behaviour *)
Fixpoint delivered (s : list instant) (obs : list tick_obs) : list move :=
  match s, obs with
  | i :: s', ob :: obs' => firstn (to_ntop ob) (i_top i) ++ delivered s' obs'
  | _, _ => []
  end.

Definition gran (c : run_case) (side : N) : N := if side =? 0 then rc_gin c else rc_gout c.
Definition mem_len (c : run_case) (side : N) : N := N.of_nat (length (if side =? 0 then rc_mem_in c else rc_mem_out c)).

(** moves the data mover accepts: known sides, aligned addresses, ranges inside the memories
    (source and destination may be on the same side, even overlapping: the statement is about
    the bytes the source range held when the move was requested) *)
Definition move_ok (c : run_case) (v : move) : bool :=
  (v_sside v <=? 1) && (v_dside v <=? 1) &&
  (0 <? gran c (v_sside v)) && (0 <? gran c (v_dside v)) &&
  (v_saddr v mod gran c (v_sside v) =? 0) && (v_daddr v mod gran c (v_dside v) =? 0) &&
  (v_saddr v + v_size v <=? mem_len c (v_sside v)) && (v_daddr v + v_size v <=? mem_len c (v_dside v)).

Definition apply_move (ms : list N * list N) (v : move) : list N * list N :=
  let '(mi, mo) := ms in
  let data := mem_read (if v_sside v =? 0 then mi else mo) (v_saddr v) (v_size v) in
  if v_dside v =? 0 then (mem_write mi (v_daddr v) data, mo) else (mi, mem_write mo (v_daddr v) data).

Fixpoint acks_in_order (vs : list move) (acks : list ack) : bool :=
  match acks with
  | [] => true
  | a :: acks' =>
      match vs with
      | v :: vs' => (a_rspto a =? v_id v) && (a_dst a =? v_src v) && acks_in_order vs' acks'
      | [] => false
      end
  end.

(** the memories at the tick of the k-th acknowledgment are exactly the result of the first k moves *)
Fixpoint snaps_ok (vs : list move) (ms : list N * list N) (snaps : list (list N * list N)) : bool :=
  match snaps with
  | [] => true
  | s :: snaps' =>
      match vs with
      | v :: vs' =>
          let ms' := apply_move ms v in
          data_eqb (fst ms') (fst s) && data_eqb (snd ms') (snd s) && snaps_ok vs' ms' snaps'
      | [] => false
      end
  end.

Definition holds_run (c : run_case) : bool :=
  let vs := delivered (rc_script c) (ro_ticks c) in
  let all_scripted := flat_map i_top (rc_script c) in
  if forallb (move_ok c) all_scripted then
    (ro_outcome c =? 0) &&
    let acks := flat_map to_acks (ro_ticks c) in
    acks_in_order vs acks &&
    snaps_ok vs (rc_mem_in c, rc_mem_out c)
             (flat_map (fun ob => match to_snap ob with Some s => [s] | None => [] end) (ro_ticks c)) &&
    (if rc_complete c then
       (* every accepted move acknowledged exactly once, and the memories hold exactly the
          result of performing the moves one after the other in arrival order *)
       (length acks =? length vs)%nat &&
       let '(mi, mo) := fold_left apply_move vs (rc_mem_in c, rc_mem_out c) in
       data_eqb mi (ro_mem_in c) && data_eqb mo (ro_mem_out c)
     else true)
  else true.

(** buffer helpers against a flat byte array: when every chunk is valid and full, extracting
    is reading the concatenation of the chunks at the relative offset *)
Definition holds_helper (b : buffer) (o : hop) (r : hres) : bool :=
  match o, r with
  | HExtract off n, RData x =>
      if (0 <? b_gran b) && (b_off b <=? off) &&
         forallb (fun c => ch_valid c && (N.of_nat (length (ch_data c)) =? b_gran b)) (b_chunks b) && (0 <? n)
      then
        let flat := flat_map ch_data (b_chunks b) in
        let rel := off - b_off b in
        opt_eqb data_eqb x (if rel + n <=? N.of_nat (length flat) then Some (mem_read flat rel n) else None)
      else true
  | _, _ => true
  end.

Definition holds_on (c : case) : bool :=
  match c with CHelper b o r => holds_helper b o r | CRun c => holds_run c end.
