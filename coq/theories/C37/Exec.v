(** C37 — case evaluators for the correspondence check. *)
From Akita Require Import Lib.Base C37.Model.
Local Open Scope N_scope.

Definition sres_eqb (a b : sres) : bool :=
  match a, b with
  | SOk x, SOk y => beqb x y
  | SEmpty, SEmpty | SMulti, SMulti | SPrefix, SPrefix => true
  | _, _ => false
  end.

(** what the tool returned *)
Inductive qobs :=
| OSan (e : sres)          (* rejected by the filter: SEmpty / SMulti / SPrefix *)
| OFailed                  (* "query failed: ..." from SQLite *)
| OStreamErr               (* an error while streaming rows (interrupt / time-out) *)
| OOut (text : bytes).

(** the integrity observations of one end-to-end run *)
Record integrity := mk_integrity {
  i_db_same : bool;        (* sha256 of the database file unchanged *)
  i_wal_same : bool;       (* sha256 of the -wal file unchanged *)
  i_dir_same : bool;       (* directory listing unchanged: no file created or removed *)
  i_content_same : bool;   (* logical dump of every table unchanged *)
  i_pool_ok : bool;        (* the server's pool answers a read afterwards *)
  i_second_ok : bool;      (* a second trivial data_query returns the expected text *)
  i_qo_off : bool;         (* no pooled connection is left with query_only on *)
  i_write_ok : bool        (* the pool can still write (the server builds indexes on demand) *)
}.

Definition result_set := (list bytes * list (list cell) * bool)%type.

Inductive case :=
| CSan (q : bytes) (cap : N) (obs : sres)
| CFmt (cell_cap row_cap byte_cap : N) (cols : list bytes) (rows : list (list cell))
       (obs : option (bytes * N))       (* text and the row count it reports *)
| CQuery (cell_cap row_cap byte_cap : N) (q : bytes) (obs_san : sres)
         (ref : option result_set)      (* what the sanitized statement yields on a read-only copy *)
         (obs : qobs) (n_reported : N) (integ : integrity).

Definition opt_bytes_eqb (a b : option bytes) : bool := opt_eqb beqb a b.

(** model output = implementation output *)
Definition check_case (c : case) : bool :=
  match c with
  | CSan q cap obs => sres_eqb (sanitize q cap) obs
  | CFmt cc rc bc cols rows obs =>
      opt_eqb (fun a b => beqb (fst a) (fst b) && (snd a =? snd b))
              (option_map (fun o => (f_text o, f_n o)) (format_rows cc rc bc cols rows false)) obs
  | CQuery cc rc bc q obs_san ref obs _ _ =>
      sres_eqb (sanitize q rc) obs_san &&
      match sanitize q rc, obs with
      | SOk _, OOut text =>
          match ref with
          | Some (cols, rows, te) => opt_bytes_eqb (option_map f_text (format_rows cc rc bc cols rows te)) (Some text)
          | None => false
          end
      | SOk _, OFailed => match ref with None => true | Some _ => false end
      | SOk _, OStreamErr => true
      | e, OSan e' => sres_eqb e e'
      | _, _ => false
      end
  end.

(** the property on the implementation's observed behaviour *)
Definition holds_on (c : case) : bool :=
  match c with
  | CSan q cap obs =>
      match obs with
      | SOk s => negb (mem 59 s) && starts_select_or_with s && has_limit s   (* single SELECT/WITH statement carrying a row limit *)
      | _ => true
      end
  | CFmt cc rc bc cols rows obs =>
      match obs with
      | Some (text, n) => (n <=? rc) && (if reserve + 1 <=? bc then blen text <=? bc else true)
      | None => true
      end
  | CQuery cc rc bc q obs_san ref obs n integ =>
      i_db_same integ && i_wal_same integ && i_dir_same integ && i_content_same integ &&
      i_pool_ok integ && i_second_ok integ && i_qo_off integ && i_write_ok integ &&
      match obs with
      | OOut text => (n <=? rc) && (blen text <=? bc)
      | _ => true
      end
  end.
