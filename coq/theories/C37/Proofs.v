(** C37 — proofs about the sanitizer, the formatter and runDataQuery. *)
From Akita Require Import Lib.Base C37.Model.
Local Open Scope N_scope.

(* ------------------------------------------------------------ small facts *)

Lemma blen_app a b : blen (a ++ b) = blen a + blen b.
Proof. unfold blen. rewrite app_length. lia. Qed.

Lemma blen_cons x a : blen (x :: a) = 1 + blen a.
Proof. unfold blen. cbn [length]. lia. Qed.

Lemma mem_app b x y : mem b (x ++ y) = mem b x || mem b y.
Proof. unfold mem. apply existsb_app. Qed.

Lemma mem_false_iff b s : mem b s = false <-> ~ In b s.
Proof.
  unfold mem. split.
  - intros H Hin. assert (existsb (N.eqb b) s = true).
    { apply existsb_exists. exists b. split; [exact Hin|apply N.eqb_refl]. }
    congruence.
  - intro H. destruct (existsb (N.eqb b) s) eqn:E; [|reflexivity].
    apply existsb_exists in E. destruct E as (x & Hx & Hb). apply N.eqb_eq in Hb. subst. contradiction.
Qed.

(* ------------------------------------------------------------ decimal *)

Definition all_digits (s : bytes) : Prop := Forall (fun b => is_digit b = true) s.

Lemma dec_aux_digits fuel : forall n acc, all_digits acc -> all_digits (dec_aux fuel n acc).
Proof.
  induction fuel as [|f IH]; intros n acc Ha; cbn [dec_aux]; [exact Ha|].
  assert (Hd : all_digits ((48 + n mod 10) :: acc)).
  { constructor; [|exact Ha]. unfold is_digit. pose proof (N.mod_lt n 10). lia. }
  destruct (n / 10 =? 0); [exact Hd|apply IH; exact Hd].
Qed.

Lemma dec_digits n : all_digits (dec n).
Proof. apply dec_aux_digits. constructor. Qed.

Lemma dec_aux_len fuel : forall n acc, (length (dec_aux fuel n acc) <= length acc + fuel)%nat.
Proof.
  induction fuel as [|f IH]; intros n acc; cbn [dec_aux]; [lia|].
  destruct (n / 10 =? 0); [cbn [length]; lia|].
  specialize (IH (n / 10) ((48 + n mod 10) :: acc)). cbn [length] in IH. lia.
Qed.

Lemma dec_len n : blen (dec n) <= 20.
Proof. unfold blen, dec. pose proof (dec_aux_len 20 n []). cbn [length] in H. lia. Qed.

Lemma dec_aux_nonempty fuel : forall n acc, acc <> [] -> dec_aux fuel n acc <> [].
Proof.
  induction fuel as [|f IH]; intros n acc Ha; cbn [dec_aux]; [exact Ha|].
  destruct (n / 10 =? 0); [discriminate|apply IH; discriminate].
Qed.

Lemma dec_aux_S_nonempty f n acc : dec_aux (S f) n acc <> [].
Proof.
  cbn [dec_aux]. destruct (n / 10 =? 0); [discriminate|apply dec_aux_nonempty; discriminate].
Qed.

Lemma dec_head n : exists d r, dec n = d :: r /\ is_digit d = true.
Proof.
  pose proof (dec_digits n) as Hd. destruct (dec n) as [|d r] eqn:E.
  - exfalso. unfold dec in E. revert E. apply (dec_aux_S_nonempty 19).
  - inversion Hd; subst. eauto.
Qed.

Lemma digits_no_semicolon s : all_digits s -> mem 59 s = false.
Proof.
  intro H. apply mem_false_iff. intro Hin. unfold all_digits in H. rewrite Forall_forall in H.
  specialize (H 59 Hin). vm_compute in H. discriminate.
Qed.

(* ------------------------------------------------------------ the filter *)

Lemma strip_prefix_app p : forall s t x, strip_prefix p s = Some t -> strip_prefix p (s ++ x) = Some (t ++ x).
Proof.
  induction p as [|a p IH]; intros s t x H; cbn [strip_prefix] in *.
  - injection H as <-. reflexivity.
  - destruct s as [|b s']; [discriminate|]. cbn [app].
    destruct (a =? b); [apply IH; exact H|discriminate].
Qed.

(** a one-byte or two-byte alternative matching [s] also matches [s ++ x] with the same rest *)
Lemma strip_any_alts_app c s t x :
  strip_any (alts c) s = Some t -> strip_any (alts c) (s ++ x) = Some (t ++ x).
Proof.
  unfold alts.
  destruct s as [|b s1].
  { destruct (c =? 83), (c =? 73); cbn; discriminate. }
  cbn [app].
  destruct (c =? 83) eqn:E83, (c =? 73) eqn:E73; cbn [app strip_any strip_prefix];
    try (apply N.eqb_eq in E83; apply N.eqb_eq in E73; lia).
  - (* S *)
    destruct (c =? b); [intro H; injection H as <-; reflexivity|].
    destruct (c + 32 =? b); [intro H; injection H as <-; reflexivity|].
    destruct (197 =? b); [|discriminate].
    destruct s1 as [|b2 s2]; [discriminate|]. cbn [app].
    destruct (191 =? b2); [intro H; injection H as <-; reflexivity|discriminate].
  - (* I *)
    destruct (c =? b); [intro H; injection H as <-; reflexivity|].
    destruct (c + 32 =? b); [intro H; injection H as <-; reflexivity|].
    destruct (196 =? b); [|discriminate].
    destruct s1 as [|b2 s2]; [discriminate|]. cbn [app].
    destruct (177 =? b2); [intro H; injection H as <-; reflexivity|discriminate].
  - destruct (c =? b); [intro H; injection H as <-; reflexivity|].
    destruct (c + 32 =? b); [intro H; injection H as <-; reflexivity|discriminate].
Qed.

Lemma kw_match_app kw : forall s x, kw_match kw s = true -> kw_match kw (s ++ x) = true.
Proof.
  induction kw as [|c k IH]; intros s x H; cbn [kw_match] in *; [reflexivity|].
  destruct (strip_any (alts c) s) as [t|] eqn:E; [|discriminate].
  rewrite (strip_any_alts_app c s t x E). apply IH. exact H.
Qed.

Lemma kw_match_nonempty kw s : kw <> [] -> kw_match kw s = true -> s <> [].
Proof.
  intros Hk H ->. destruct kw as [|c k]; [contradiction|]. cbn [kw_match] in H.
  unfold alts in H. destruct (c =? 83), (c =? 73); cbn in H; discriminate.
Qed.

Lemma trim_left_set_app set s x : trim_left_set set s <> [] ->
  trim_left_set set (s ++ x) = trim_left_set set s ++ x.
Proof.
  induction s as [|b r IH]; cbn [trim_left_set app]; intro H; [contradiction|].
  destruct (mem b set); [apply IH; exact H|reflexivity].
Qed.


Lemma starts_app s x : starts_select_or_with s = true -> starts_select_or_with (s ++ x) = true.
Proof.
  unfold starts_select_or_with. intro H.
  assert (Hne : trim_left_set [40; 32; 9; 10; 13] s <> []).
  { apply orb_true_iff in H. destruct H as [H|H];
      [apply (kw_match_nonempty kw_select)|apply (kw_match_nonempty kw_with)]; try exact H; discriminate. }
  rewrite trim_left_set_app by exact Hne.
  apply orb_true_iff in H. apply orb_true_iff.
  destruct H as [H|H]; [left|right]; apply kw_match_app; exact H.
Qed.

Lemma has_limit_from_append q : forall pw L, limit_here L = true ->
  has_limit_from pw (q ++ 32 :: L) = true.
Proof.
  induction q as [|b r IH]; intros pw L HL; cbn [app has_limit_from].
  - destruct L as [|l L']; [discriminate|].
    cbn [has_limit_from]. change (is_word 32) with false. cbn [negb andb].
    rewrite HL. rewrite orb_true_r. reflexivity.
  - rewrite (IH (is_word b) L HL). apply orb_true_r.
Qed.

Lemma limit_here_injected cap : limit_here ([76; 73; 77; 73; 84; 32] ++ dec cap) = true.
Proof.
  destruct (dec_head cap) as (d & r & E & Hd). rewrite E.
  cbn [app limit_here]. change (ci 76 108 && ci 73 105 && ci 77 109 && ci 73 105 && ci 84 116 && is_re_space 32) with true.
  cbn [andb skip_re_space].
  assert (Hs : is_re_space d = false).
  { unfold is_digit in Hd. unfold is_re_space, mem. cbn [existsb].
    repeat match goal with |- context [N.eqb d ?k] => let E := fresh in destruct (N.eqb_spec d k) as [E|E]; [subst; cbn in Hd; discriminate|] end.
    reflexivity. }
  rewrite Hs. exact Hd.
Qed.

Definition trimmed (query : bytes) : bytes := trim_right_set [59; 32; 9; 10; 13] (trim_space query).

Theorem sanitize_ok query cap s : sanitize query cap = SOk s ->
  s <> [] /\ mem 59 s = false /\ starts_select_or_with s = true /\ has_limit s = true /\
  ((s = trimmed query /\ has_limit (trimmed query) = true) \/
   (s = trimmed query ++ s_limit ++ dec cap /\ has_limit (trimmed query) = false)).
Proof.
  unfold sanitize. fold (trimmed query). set (q := trimmed query).
  destruct q as [|b0 q0] eqn:Eq; [discriminate|]. rewrite <- Eq.
  destruct (mem 59 q) eqn:Em; [discriminate|].
  fold (starts_select_or_with q).
  destruct (starts_select_or_with q) eqn:Es; [|discriminate].
  destruct (has_limit q) eqn:El; intro H; injection H as <-.
  - repeat split; try assumption; [rewrite Eq; discriminate|left; split; reflexivity].
  - repeat split.
    + rewrite Eq. discriminate.
    + assert (Hx : mem 59 (s_limit ++ dec cap) = false).
      { rewrite mem_app, (digits_no_semicolon _ (dec_digits cap)). reflexivity. }
      rewrite mem_app, Em. exact Hx.
    + apply starts_app. exact Es.
    + unfold has_limit. change (s_limit ++ dec cap) with (32 :: ([76; 73; 77; 73; 84; 32] ++ dec cap)).
      apply has_limit_from_append. apply limit_here_injected.
    + right. split; reflexivity.
Qed.

(** Anything with a semicolon left after trimming the trailing run is rejected. *)
Theorem sanitize_rejects_semicolon query cap :
  mem 59 (trimmed query) = true -> sanitize query cap = SMulti.
Proof.
  unfold sanitize. fold (trimmed query). intro H.
  destruct (trimmed query) as [|b q] eqn:E; [discriminate|]. rewrite H. reflexivity.
Qed.

(* ------------------------------------------------------------ the formatter *)

Definition line_of (cell_cap : N) (r : list cell) : bytes :=
  join [44] (map (cell_to_string cell_cap) r) ++ [10].

Lemma row_loop_spec cell_cap row_cap budget : forall rows n bl n' ls t,
  row_loop cell_cap row_cap budget rows n bl = (n', ls, t) ->
  (n <= row_cap -> n' <= row_cap) /\
  (bl <= budget -> bl + blen (concat ls) <= budget) /\
  exists k, n' = n + N.of_nat k /\ (k <= length rows)%nat /\
            ls = map (line_of cell_cap) (firstn k rows) /\
            (t = false -> k = length rows).
Proof.
  induction rows as [|r rest IH]; intros n bl n' ls t H; cbn [row_loop] in H.
  - injection H as <- <- <-. split; [lia|]. split; [cbn; change (blen []) with 0; lia|].
    exists 0%nat. cbn. repeat split; lia.
  - destruct (row_cap <=? n) eqn:Ec.
    { injection H as <- <- <-. split; [lia|]. split; [cbn; change (blen []) with 0; lia|].
      exists 0%nat. cbn. repeat split; try lia; try discriminate. }
    destruct (budget <? bl + blen (join [44] (map (cell_to_string cell_cap) r)) + 1) eqn:Eb.
    { injection H as <- <- <-. split; [lia|]. split; [cbn; change (blen []) with 0; lia|].
      exists 0%nat. cbn. repeat split; try lia; try discriminate. }
    destruct (row_loop cell_cap row_cap budget rest (n + 1) (bl + blen (join [44] (map (cell_to_string cell_cap) r)) + 1))
      as [[n1 ls1] t1] eqn:ER.
    injection H as <- <- <-.
    apply IH in ER. destruct ER as (H2 & H3 & k & Hk1 & Hk2 & Hk3 & Hk4).
    split; [lia|]. split.
    + intro Hb. cbn [concat]. rewrite !blen_app. change (blen [10]) with 1. lia.
    + exists (S k). cbn [firstn map length].
      split; [lia|]. split; [lia|]. split.
      * rewrite Hk3. reflexivity.
      * intro Ht. rewrite (Hk4 Ht). reflexivity.
Qed.

Lemma summary_len n t : blen (summary n t) <= 85.
Proof.
  unfold summary. rewrite blen_cons, blen_app. pose proof (dec_len n).
  destruct t; [change (blen s_trunc) with 64|change (blen s_rows) with 6]; lia.
Qed.

Lemma blen_text n t body : blen (summary n t ++ [10] ++ body) <= 86 + blen body.
Proof.
  rewrite !blen_app. change (blen [10]) with 1. pose proof (summary_len n t). lia.
Qed.

Lemma blen_firstn k (s : bytes) : blen (firstn k s) <= N.of_nat k.
Proof. unfold blen. rewrite firstn_length. lia. Qed.

Theorem format_rows_caps cell_cap row_cap byte_cap cols rows te o :
  format_rows cell_cap row_cap byte_cap cols rows te = Some o ->
  f_n o <= row_cap /\
  (reserve + 1 <= byte_cap -> blen (f_text o) <= byte_cap) /\
  exists header, blen header + 1 <= N.max (byte_cap - reserve) 1 /\
    (header = join [44] cols \/ f_trunc o = true) /\
    f_text o = summary (f_n o) (f_trunc o) ++ [10] ++ header ++ [10]
               ++ concat (map (line_of cell_cap) (firstn (N.to_nat (f_n o)) rows)) /\
    (f_n o <= N.of_nat (length rows)) /\
    (f_trunc o = false -> f_n o = N.of_nat (length rows) /\ header = join [44] cols).
Proof.
  unfold format_rows. set (budget := N.max (byte_cap - reserve) 1).
  set (h := join [44] cols).
  assert (Main : forall header t0, blen header + 1 <= budget -> (header = h \/ t0 = true) ->
            forall n ls t1, row_loop cell_cap row_cap budget rows 0 (blen header + 1) = (n, ls, t1) ->
            (if negb t1 && te then None
             else Some (mk_fmt n (t0 || t1) (summary n (t0 || t1) ++ [10] ++ header ++ [10] ++ concat ls))) = Some o ->
            f_n o <= row_cap /\
            (reserve + 1 <= byte_cap -> blen (f_text o) <= byte_cap) /\
            exists header0, blen header0 + 1 <= budget /\ (header0 = h \/ f_trunc o = true) /\
              f_text o = summary (f_n o) (f_trunc o) ++ [10] ++ header0 ++ [10]
                         ++ concat (map (line_of cell_cap) (firstn (N.to_nat (f_n o)) rows)) /\
              (f_n o <= N.of_nat (length rows)) /\
              (f_trunc o = false -> f_n o = N.of_nat (length rows) /\ header0 = h)).
  { intros header t0 Hhl Hh n ls t1 ER H.
    destruct (negb t1 && te); [discriminate|]. injection H as <-. cbn [f_n f_trunc f_text].
    apply row_loop_spec in ER. destruct ER as (H2 & H3 & k & Hk1 & Hk2 & Hk3 & Hk4).
    split; [lia|]. split.
    - intro Hc. specialize (H3 Hhl).
      eapply N.le_trans; [apply (blen_text n (t0 || t1) (header ++ [10] ++ concat ls))|].
      rewrite !blen_app. change (blen [10]) with 1. subst budget. unfold reserve in *. lia.
    - exists header. split; [exact Hhl|]. split.
      + destruct Hh as [-> | ->]; [left; reflexivity|right; reflexivity].
      + split; [|split; [lia|]].
        * rewrite Hk3. replace (N.to_nat n) with k by lia. reflexivity.
        * intro Ht. apply orb_false_iff in Ht. destruct Ht as [Ht0 Ht1].
          split; [rewrite (Hk4 Ht1) in Hk1; lia|]. destruct Hh as [-> | ->]; [reflexivity|discriminate]. }
  destruct (budget <? blen h + 1) eqn:Eh.
  - set (header := firstn (N.to_nat (budget - 1)) h).
    destruct (row_loop cell_cap row_cap budget rows 0 (blen header + 1)) as [[n ls] t1] eqn:ER.
    intro H. apply (Main header true) with (n := n) (ls := ls) (t1 := t1); try assumption; [|right; reflexivity].
    pose proof (blen_firstn (N.to_nat (budget - 1)) h) as Hf. fold header in Hf. subst budget. lia.
  - destruct (row_loop cell_cap row_cap budget rows 0 (blen h + 1)) as [[n ls] t1] eqn:ER.
    intro H. apply (Main h false) with (n := n) (ls := ls) (t1 := t1); try assumption; [lia|left; reflexivity].
Qed.

(** every cell is bounded *)
Lemma cell_to_string_len cell_cap c : blen (cell_to_string cell_cap c) <= cell_cap + 3.
Proof.
  unfold cell_to_string. destruct (cell_cap <? blen (raw_cell c)) eqn:E.
  - rewrite blen_app. change (blen ellipsis) with 3.
    pose proof (blen_firstn (N.to_nat cell_cap) (raw_cell c)). lia.
  - lia.
Qed.

(* ------------------------------------------------------------ runDataQuery *)

Section Run.
Context {DB : Type} (exec : DB -> bytes -> DB * sql_result).

(** ASSUMPTION about SQLite, made explicit: on a connection with
    PRAGMA query_only = ON, one statement without ';' that begins with
    SELECT/WITH does not change the database. *)
Definition sqlite_query_only_readonly : Prop :=
  forall db s, mem 59 s = false -> starts_select_or_with s = true -> fst (exec db s) = db.

Theorem run_db_unchanged cell_cap row_cap byte_cap db c reset_ok query :
  sqlite_query_only_readonly ->
  fst (fst (run_data_query exec cell_cap row_cap byte_cap db c reset_ok query)) = db.
Proof.
  intro HRO. unfold run_data_query.
  destruct (sanitize query row_cap) as [safe| | |] eqn:Es; try reflexivity.
  apply sanitize_ok in Es. destruct Es as (_ & Hsc & Hst & _).
  specialize (HRO db safe Hsc Hst).
  destruct (exec db safe) as [db' r]. cbn [fst] in HRO. subst db'.
  destruct r as [|cols rows te]; [reflexivity|].
  destruct (format_rows cell_cap row_cap byte_cap cols rows te); reflexivity.
Qed.

(** only statements that pass the filter ever reach SQLite *)
Theorem run_only_filtered cell_cap row_cap byte_cap db c reset_ok query db' c' r :
  run_data_query exec cell_cap row_cap byte_cap db c reset_ok query = (db', c', r) ->
  (exists e, r = RSan e /\ db' = db /\ c' = c) \/
  (exists safe, sanitize query row_cap = SOk safe /\ db' = fst (exec db safe) /\
                mem 59 safe = false /\ starts_select_or_with safe = true).
Proof.
  unfold run_data_query. destruct (sanitize query row_cap) as [safe| | |] eqn:Es.
  - intro H. right. exists safe. pose proof (sanitize_ok _ _ _ Es) as (_ & Hsc & Hst & _).
    destruct (exec db safe) as [d r0]. cbn [fst].
    destruct r0 as [|cols rows te]; [|destruct (format_rows cell_cap row_cap byte_cap cols rows te)];
      injection H as <- _ _; auto.
  - intro H. injection H as <- <- <-. left. eauto.
  - intro H. injection H as <- <- <-. left. eauto.
  - intro H. injection H as <- <- <-. left. eauto.
Qed.

Theorem run_caps cell_cap row_cap byte_cap db c reset_ok query o :
  snd (run_data_query exec cell_cap row_cap byte_cap db c reset_ok query) = ROut o ->
  f_n o <= row_cap /\ (reserve + 1 <= byte_cap -> blen (f_text o) <= byte_cap).
Proof.
  unfold run_data_query. destruct (sanitize query row_cap) as [safe| | |]; try discriminate.
  destruct (exec db safe) as [d r0]. destruct r0 as [|cols rows te]; [discriminate|].
  destruct (format_rows cell_cap row_cap byte_cap cols rows te) as [o'|] eqn:Ef; [|discriminate].
  cbn [snd]. intro H. injection H as <-.
  apply format_rows_caps in Ef. tauto.
Qed.

Theorem run_pool_restored cell_cap row_cap byte_cap db c query :
  query_only c = false ->
  query_only (snd (fst (run_data_query exec cell_cap row_cap byte_cap db c true query))) = false.
Proof.
  intro Hc. unfold run_data_query. destruct (sanitize query row_cap) as [safe| | |]; try exact Hc.
  destruct (exec db safe) as [d r0]. destruct r0 as [|cols rows te]; [reflexivity|].
  destruct (format_rows cell_cap row_cap byte_cap cols rows te); reflexivity.
Qed.
End Run.

(* ------------------------------------------------------------ link to Exec *)
From Akita Require Import C37.Exec.

Lemma beqb_eq a b : beqb a b = true <-> a = b.
Proof. apply listN_eqb_eq. Qed.

Lemma sres_eqb_eq a b : sres_eqb a b = true -> a = b.
Proof.
  destruct a, b; cbn [sres_eqb]; intro H; try discriminate; try reflexivity.
  apply beqb_eq in H. subst. reflexivity.
Qed.

Theorem check_implies_holds c :
  match c with CQuery _ _ _ _ _ _ _ _ _ => False | _ => True end ->
  check_case c = true -> holds_on c = true.
Proof.
  destruct c as [q cap obs|cc rc bc cols rows obs|]; intros Hk H; [| |contradiction]; cbn [check_case holds_on] in *.
  - apply sres_eqb_eq in H. destruct obs as [s| | |]; try reflexivity.
    apply sanitize_ok in H. destruct H as (_ & H1 & H2 & H3 & _). rewrite H1, H2, H3. reflexivity.
  - destruct (format_rows cc rc bc cols rows false) as [o|] eqn:Ef; destruct obs as [[text n]|];
      cbn [option_map opt_eqb fst snd] in H; try discriminate; try reflexivity.
    apply andb_true_iff in H. destruct H as [Ht Hn]. apply beqb_eq in Ht. apply N.eqb_eq in Hn. subst.
    apply format_rows_caps in Ef. destruct Ef as (H1 & H2 & _).
    apply andb_true_iff. split; [lia|].
    destruct (reserve + 1 <=? bc) eqn:E; [|reflexivity]. apply N.leb_le. apply H2. lia.
Qed.
