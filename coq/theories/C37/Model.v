(** C37 — model of the data_query tool of daisen2/internal/httpapi/agentloop.go:
    [sanitizeReadonlySQL], [formatRows] / [cellToString] (as repaired by the
    fix commit, with the pre-fix variant kept), and [runDataQuery] around an
    abstract SQLite.  Strings are byte lists ([list N], bytes < 256). *)
From Akita Require Import Lib.Base.
Local Open Scope N_scope.

Definition bytes := list N.
Definition blen (s : bytes) : N := N.of_nat (length s).
Definition beqb : bytes -> bytes -> bool := list_eqb N.eqb.

(* ------------------------------------------------------------ strings.* *)

Fixpoint strip_prefix (p s : bytes) : option bytes :=
  match p, s with
  | [], _ => Some s
  | a :: p', b :: s' => if a =? b then strip_prefix p' s' else None
  | _ :: _, [] => None
  end.

(** unicode.IsSpace, as UTF-8 byte patterns: \t \n \v \f \r space, U+0085,
    U+00A0, U+1680, U+2000..U+200A, U+2028, U+2029, U+202F, U+205F, U+3000. *)
Definition ws_patterns : list bytes :=
  [[9]; [10]; [11]; [12]; [13]; [32]; [194; 133]; [194; 160]; [225; 154; 128];
   [226; 128; 128]; [226; 128; 129]; [226; 128; 130]; [226; 128; 131]; [226; 128; 132];
   [226; 128; 133]; [226; 128; 134]; [226; 128; 135]; [226; 128; 136]; [226; 128; 137];
   [226; 128; 138]; [226; 128; 168]; [226; 128; 169]; [226; 128; 175]; [226; 129; 159];
   [227; 128; 128]].

Fixpoint strip_any (ps : list bytes) (s : bytes) : option bytes :=
  match ps with
  | [] => None
  | p :: r => match strip_prefix p s with Some t => Some t | None => strip_any r s end
  end.

Fixpoint trim_left_pats (fuel : nat) (ps : list bytes) (s : bytes) : bytes :=
  match fuel with
  | O => s
  | S f => match strip_any ps s with Some t => trim_left_pats f ps t | None => s end
  end.

(** strings.TrimSpace: leading and trailing white-space runes removed (the
    trailing side is the same scan on the reversed string with reversed patterns). *)
Definition frev (s : bytes) : bytes := rev_append s [].      (* linear-time reverse *)

Definition trim_space (s : bytes) : bytes :=
  let l := trim_left_pats (length s) ws_patterns s in
  frev (trim_left_pats (length l) (map frev ws_patterns) (frev l)).

Definition mem (b : N) (set : bytes) : bool := existsb (N.eqb b) set.

(** strings.TrimLeft / TrimRight with an ASCII cutset: byte-wise. *)
Fixpoint trim_left_set (set : bytes) (s : bytes) : bytes :=
  match s with
  | b :: r => if mem b set then trim_left_set set r else s
  | [] => []
  end.
Definition trim_right_set (set : bytes) (s : bytes) : bytes := frev (trim_left_set set (frev s)).

(* ------------------------------------------------------------ the filter *)

(** HasPrefix(strings.ToUpper(s), KW) for an ASCII keyword: rune by rune, the
    runes whose upper case is an ASCII letter are the letter, its lower case, and
    U+017F (long s, for S) / U+0131 (dotless i, for I). *)
Definition alts (c : N) : list bytes :=
  [[c]; [c + 32]] ++ (if c =? 83 then [[197; 191]] else []) ++ (if c =? 73 then [[196; 177]] else []).

Fixpoint kw_match (kw : bytes) (s : bytes) : bool :=
  match kw with
  | [] => true
  | c :: k => match strip_any (alts c) s with Some t => kw_match k t | None => false end
  end.

Definition kw_select : bytes := [83; 69; 76; 69; 67; 84].
Definition kw_with : bytes := [87; 73; 84; 72].

Definition is_digit (b : N) : bool := (48 <=? b) && (b <=? 57).
Definition is_word (b : N) : bool :=
  is_digit b || ((65 <=? b) && (b <=? 90)) || ((97 <=? b) && (b <=? 122)) || (b =? 95).
Definition is_re_space (b : N) : bool := mem b [9; 10; 12; 13; 32].     (* RE2 \s *)
Definition ci (b c : N) : bool := (b =? c) || (b + 32 =? c).           (* c lower-case ASCII *)

Fixpoint skip_re_space (s : bytes) : bytes :=
  match s with b :: r => if is_re_space b then skip_re_space r else s | [] => [] end.

(** does `limit\s+\d` (case-insensitively) start here? *)
Definition limit_here (s : bytes) : bool :=
  match s with
  | l :: i :: m :: i2 :: t :: w :: r =>
      ci l 108 && ci i 105 && ci m 109 && ci i2 105 && ci t 116 && is_re_space w &&
      match skip_re_space r with d :: _ => is_digit d | [] => false end
  | _ => false
  end.

(** limitClausePattern.MatchString: `(?i)\blimit\s+\d` anywhere. *)
Fixpoint has_limit_from (prev_word : bool) (s : bytes) : bool :=
  match s with
  | [] => false
  | b :: r => (negb prev_word && limit_here s) || has_limit_from (is_word b) r
  end.
Definition has_limit (s : bytes) : bool := has_limit_from false s.

(** the statement begins (after opening parentheses and blanks) with the keyword
    SELECT or WITH, compared the way the code does *)
Definition starts_select_or_with (s : bytes) : bool :=
  let t := trim_left_set [40; 32; 9; 10; 13] s in
  kw_match kw_select t || kw_match kw_with t.

(** decimal rendering of a Go int >= 0 (%d) *)
Fixpoint dec_aux (fuel : nat) (n : N) (acc : bytes) : bytes :=
  match fuel with
  | O => acc
  | S f => let acc' := (48 + n mod 10) :: acc in
           if n / 10 =? 0 then acc' else dec_aux f (n / 10) acc'
  end.
Definition dec (n : N) : bytes := dec_aux 20 n [].

Definition s_limit : bytes := [32; 76; 73; 77; 73; 84; 32].   (* " LIMIT " *)

Inductive sres := SOk (q : bytes) | SEmpty | SMulti | SPrefix.

(** sanitizeReadonlySQL. *)
Definition sanitize (query : bytes) (row_cap : N) : sres :=
  let q := trim_right_set [59; 32; 9; 10; 13] (trim_space query) in
  match q with
  | [] => SEmpty
  | _ =>
      if mem 59 q then SMulti
      else let t := trim_left_set [40; 32; 9; 10; 13] q in
           if kw_match kw_select t || kw_match kw_with t then
             SOk (if has_limit q then q else q ++ s_limit ++ dec row_cap)
           else SPrefix
  end.

(** Mutants (regression lemmas only). *)
Definition sanitize_semicolon_comment (query : bytes) (row_cap : N) : sres :=
  let q := trim_right_set [59; 32; 9; 10; 13] (trim_space query) in
  match q with
  | [] => SEmpty
  | _ => let t := trim_left_set [40; 32; 9; 10; 13] q in
         if kw_match kw_select t || kw_match kw_with t then
           SOk (if has_limit q then q else q ++ s_limit ++ dec row_cap)
         else SPrefix
  end.

(* ------------------------------------------------------------ formatRows *)

Inductive cell :=
| CNull
| CInt (z : Z)
| CText (s : bytes)
| CBlob (s : bytes)
| CFloat (rendered : bytes).      (* fmt %g of the float64, taken as given *)

Definition dec_z (z : Z) : bytes :=
  match z with
  | Z0 => [48]
  | Zpos p => dec (Npos p)
  | Zneg p => 45 :: dec (Npos p)
  end.

Definition replace_comma (s : bytes) : bytes := map (fun b => if b =? 44 then 32 else b) s.

Definition raw_cell (c : cell) : bytes :=
  match c with
  | CNull => []
  | CInt z => dec_z z
  | CText s => replace_comma s
  | CBlob s => replace_comma s
  | CFloat r => r
  end.

Definition ellipsis : bytes := [226; 128; 166].

Definition cell_to_string (cell_cap : N) (c : cell) : bytes :=
  let s := raw_cell c in
  if cell_cap <? blen s then firstn (N.to_nat cell_cap) s ++ ellipsis else s.

Fixpoint join (sep : bytes) (l : list bytes) : bytes :=
  match l with
  | [] => []
  | [x] => x
  | x :: r => x ++ sep ++ join sep r
  end.

(** the row loop: returns (rows written, their lines in order, truncated);
    [bl] is body.Len() so far (the lines are concatenated once at the end, which
    keeps the evaluation linear) *)
Fixpoint row_loop (cell_cap row_cap budget : N) (rows : list (list cell)) (n : N) (bl : N)
  : N * list bytes * bool :=
  match rows with
  | [] => (n, [], false)
  | r :: rest =>
      if row_cap <=? n then (n, [], true)
      else let line := join [44] (map (cell_to_string cell_cap) r) in
           if budget <? bl + blen line + 1 then (n, [], true)
           else let '(n', ls, t) := row_loop cell_cap row_cap budget rest (n + 1) (bl + blen line + 1) in
                (n', (line ++ [10]) :: ls, t)
  end.

Definition s_rows : bytes := [32; 114; 111; 119; 115; 93].                 (* " rows]" *)
Definition s_trunc : bytes :=                                               (* " rows shown; result truncated — narrow the query or aggregate]" *)
  [32;114;111;119;115;32;115;104;111;119;110;59;32;114;101;115;117;108;116;32;116;114;117;110;99;97;116;101;100;32;
   226;128;148;32;110;97;114;114;111;119;32;116;104;101;32;113;117;101;114;121;32;111;114;32;97;103;103;114;101;103;97;116;101;93].

Definition summary (n : N) (truncated : bool) : bytes :=
  91 :: dec n ++ (if truncated then s_trunc else s_rows).

Definition reserve : N := 96.      (* formatRowsSummaryReserve *)

Record fmt_out := mk_fmt { f_n : N; f_trunc : bool; f_text : bytes }.

(** formatRows after the fix.  [tail_err]: the row stream ends in an error
    (interrupt, time-out) after the listed rows; it surfaces only when the loop
    consumed every row. *)
Definition format_rows (cell_cap row_cap byte_cap : N) (cols : list bytes)
           (rows : list (list cell)) (tail_err : bool) : option fmt_out :=
  let budget := N.max (byte_cap - reserve) 1 in
  let h := join [44] cols in
  let '(header, t0) := if budget <? blen h + 1 then (firstn (N.to_nat (budget - 1)) h, true) else (h, false) in
  let '(n, ls, t1) := row_loop cell_cap row_cap budget rows 0 (blen header + 1) in
  if negb t1 && tail_err then None
  else let tr := t0 || t1 in Some (mk_fmt n tr (summary n tr ++ [10] ++ header ++ [10] ++ concat ls)).

(** formatRows before the fix: header unchecked, cap applied to the body only. *)
Definition format_rows_old (cell_cap row_cap byte_cap : N) (cols : list bytes)
           (rows : list (list cell)) (tail_err : bool) : option fmt_out :=
  let '(n, ls, t1) := row_loop cell_cap row_cap byte_cap rows 0 (blen (join [44] cols) + 1) in
  if negb t1 && tail_err then None
  else Some (mk_fmt n t1 (summary n t1 ++ [10] ++ join [44] cols ++ [10] ++ concat ls)).

(* ------------------------------------------------------------ runDataQuery *)

(** SQLite as an oracle: what a statement yields on a connection whose
    query_only flag is set: an error, or a result set (columns, rows, stream error). *)
Inductive sql_result := QErr | QRows (cols : list bytes) (rows : list (list cell)) (tail_err : bool).

Inductive qres := RSan (e : sres) | RQueryFailed | RStreamErr | ROut (o : fmt_out).

(** A connection of the pool: is PRAGMA query_only left on? *)
Record conn_state := mk_conn { query_only : bool }.

(** runDataQuery.  [db] is the database state, [exec] SQLite's behaviour on a
    statement under query_only (new state, result); [reset_ok] = the deferred
    `PRAGMA query_only = OFF` executed. *)
Definition run_data_query {DB : Type} (exec : DB -> bytes -> DB * sql_result)
           (cell_cap row_cap byte_cap : N) (db : DB) (c : conn_state) (reset_ok : bool)
           (query : bytes) : DB * conn_state * qres :=
  match sanitize query row_cap with
  | SOk safe =>
      let '(db', r) := exec db safe in
      let c' := mk_conn (negb reset_ok) in
      match r with
      | QErr => (db', c', RQueryFailed)
      | QRows cols rows te =>
          match format_rows cell_cap row_cap byte_cap cols rows te with
          | Some o => (db', c', ROut o)
          | None => (db', c', RStreamErr)
          end
      end
  | e => (db, c, RSan e)
  end.

(** Mutant (regression lemma only): the deferred reset is registered after the
    QueryContext error check, so a statement SQLite refuses to compile hands the
    connection back with query_only still on. *)
Definition run_data_query_late_reset {DB : Type} (exec : DB -> bytes -> DB * sql_result)
           (cell_cap row_cap byte_cap : N) (db : DB) (c : conn_state) (reset_ok : bool)
           (query : bytes) : DB * conn_state * qres :=
  match sanitize query row_cap with
  | SOk safe =>
      let '(db', r) := exec db safe in
      match r with
      | QErr => (db', mk_conn true, RQueryFailed)
      | QRows cols rows te =>
          match format_rows cell_cap row_cap byte_cap cols rows te with
          | Some o => (db', mk_conn (negb reset_ok), ROut o)
          | None => (db', mk_conn (negb reset_ok), RStreamErr)
          end
      end
  | e => (db, c, RSan e)
  end.
