(** C37 — the trace query tool cannot modify the trace.  Property theorems only. *)
From Akita Require Import Lib.Base C37.Model C37.Proofs C37.Exec.
Local Open Scope N_scope.

(** Whatever text the tool receives, what the filter lets through is non-empty,
    contains no ';' at all (so it is a single statement), begins — after opening
    parentheses and blanks — with SELECT or WITH (compared as the code compares:
    upper-casing, under which U+017F and U+0131 also read as S and I), and
    carries a LIMIT clause: its own, or the injected " LIMIT <cap>". *)
Theorem c37_single_select_or_with : forall query cap s, sanitize query cap = SOk s ->
  s <> [] /\ mem 59 s = false /\ starts_select_or_with s = true /\ has_limit s = true /\
  ((s = trimmed query /\ has_limit (trimmed query) = true) \/
   (s = trimmed query ++ s_limit ++ dec cap /\ has_limit (trimmed query) = false)).
Proof. exact sanitize_ok. Qed.
Print Assumptions c37_single_select_or_with.

(** Multi-statement text is rejected: a ';' anywhere but in the trailing run. *)
Theorem c37_rejects_semicolon : forall query cap,
  mem 59 (trimmed query) = true -> sanitize query cap = SMulti.
Proof. exact sanitize_rejects_semicolon. Qed.
Print Assumptions c37_rejects_semicolon.

(** The formatted result never has more than row_cap rows, its rows are a prefix
    of the result set in order, and (fixed code) the WHOLE text — summary line,
    header and rows — is within byte_cap, for every result set, including column
    names and cells of any length. *)
Theorem c37_row_cap : forall cc rc bc cols rows te o,
  format_rows cc rc bc cols rows te = Some o -> f_n o <= rc /\ f_n o <= N.of_nat (length rows).
Proof.
  intros cc rc bc cols rows te o H. apply format_rows_caps in H.
  destruct H as (H1 & _ & hd & _ & _ & _ & H2 & _). split; assumption.
Qed.
Print Assumptions c37_row_cap.

Theorem c37_byte_cap : forall cc rc bc cols rows te o,
  format_rows cc rc bc cols rows te = Some o -> reserve + 1 <= bc -> blen (f_text o) <= bc.
Proof. intros cc rc bc cols rows te o H. apply format_rows_caps in H. tauto. Qed.
Print Assumptions c37_byte_cap.

Theorem c37_rows_are_prefix : forall cc rc bc cols rows te o,
  format_rows cc rc bc cols rows te = Some o ->
  exists header, (header = join [44] cols \/ f_trunc o = true) /\
    f_text o = summary (f_n o) (f_trunc o) ++ [10] ++ header ++ [10]
               ++ concat (map (line_of cc) (firstn (N.to_nat (f_n o)) rows)) /\
    (f_trunc o = false -> f_n o = N.of_nat (length rows) /\ header = join [44] cols).
Proof.
  intros cc rc bc cols rows te o H. apply format_rows_caps in H.
  destruct H as (_ & _ & hd & _ & Ha & Hb & _ & Hc). exists hd. tauto.
Qed.
Print Assumptions c37_rows_are_prefix.

Theorem c37_cell_cap : forall cc c, blen (cell_to_string cc c) <= cc + 3.
Proof. exact cell_to_string_len. Qed.
Print Assumptions c37_cell_cap.

(** Regression: before the fix the header line was written unchecked, so a long
    column name alone exceeded the cap (here: cap 200, one 300-byte column name). *)
Theorem c37_byte_cap_old_refuted :
  exists cols o, format_rows_old 4096 1000 200 cols [] false = Some o /\ 200 < blen (f_text o) /\
                 exists o', format_rows 4096 1000 200 cols [] false = Some o' /\ blen (f_text o') <= 200.
Proof.
  exists [repeat 99 300]. eexists. split; [reflexivity|]. split; [vm_compute; reflexivity|].
  eexists. split; [reflexivity|]. vm_compute. discriminate.
Qed.
Print Assumptions c37_byte_cap_old_refuted.

(** runDataQuery around an arbitrary SQLite [exec].  PARTIAL: that a single
    SELECT/WITH statement under PRAGMA query_only cannot write is an assumption
    about SQLite ([sqlite_query_only_readonly]); given it, the database is
    unchanged for EVERY query text. *)
Theorem c37_db_unchanged_partial : forall (DB : Type) (exec : DB -> bytes -> DB * sql_result)
  cc rc bc db c reset_ok query,
  sqlite_query_only_readonly exec ->
  fst (fst (run_data_query exec cc rc bc db c reset_ok query)) = db.
Proof. intros. apply run_db_unchanged. assumption. Qed.
Print Assumptions c37_db_unchanged_partial.

(** Without any assumption: SQLite is only ever handed a statement that passed
    the filter; rejected text touches neither the database nor the connection. *)
Theorem c37_only_filtered_reaches_sqlite : forall (DB : Type) (exec : DB -> bytes -> DB * sql_result)
  cc rc bc db c reset_ok query db' c' r,
  run_data_query exec cc rc bc db c reset_ok query = (db', c', r) ->
  (exists e, r = RSan e /\ db' = db /\ c' = c) \/
  (exists safe, sanitize query rc = SOk safe /\ db' = fst (exec db safe) /\
                mem 59 safe = false /\ starts_select_or_with safe = true).
Proof. intros DB exec. exact (run_only_filtered exec). Qed.
Print Assumptions c37_only_filtered_reaches_sqlite.

Theorem c37_result_caps : forall (DB : Type) (exec : DB -> bytes -> DB * sql_result)
  cc rc bc db c reset_ok query o,
  snd (run_data_query exec cc rc bc db c reset_ok query) = ROut o ->
  f_n o <= rc /\ (reserve + 1 <= bc -> blen (f_text o) <= bc).
Proof. intros DB exec. exact (run_caps exec). Qed.
Print Assumptions c37_result_caps.

(** PARTIAL: the pooled connection is handed back with query_only off provided the
    deferred `PRAGMA query_only = OFF` executes (it runs on the request context,
    which may have expired; with the mattn driver it still executes — see the
    evidence notes; the expired-context replay never left the flag on). *)
Theorem c37_pool_restored_partial : forall (DB : Type) (exec : DB -> bytes -> DB * sql_result)
  cc rc bc db c query, query_only c = false ->
  query_only (snd (fst (run_data_query exec cc rc bc db c true query))) = false.
Proof. intros DB exec. exact (run_pool_restored exec). Qed.
Print Assumptions c37_pool_restored_partial.

(** The compile-error return path: the code resets the flag there too (the
    theorem above covers it: every outcome of an accepted statement); a variant
    that registers the reset after the error check leaves the pool read-only. *)
Theorem c37_late_reset_mutant_refuted :
  let q := [83;69;76;69;67;84;32;120] in                       (* "SELECT x": refused at prepare time *)
  let exec := fun (db : unit) (_ : bytes) => (db, QErr) in
  query_only (snd (fst (run_data_query exec 4096 1000 65536 tt (mk_conn false) true q))) = false /\
  query_only (snd (fst (run_data_query_late_reset exec 4096 1000 65536 tt (mk_conn false) true q))) = true.
Proof. split; reflexivity. Qed.
Print Assumptions c37_late_reset_mutant_refuted.

(** Regression witness for a filter that does not reject ';'. *)
Theorem c37_semicolon_mutant_refuted :
  let q := [83;69;76;69;67;84;32;49;59;68;82;79;80;32;84;65;66;76;69;32;116] in  (* SELECT 1;DROP TABLE t *)
  sanitize q 1000 = SMulti /\
  exists s, sanitize_semicolon_comment q 1000 = SOk s /\ mem 59 s = true.
Proof. split; [reflexivity|]. eexists. split; [reflexivity|]. reflexivity. Qed.
Print Assumptions c37_semicolon_mutant_refuted.

(** Agreement with the model implies the property predicate of the filter and
    formatter cases (the end-to-end integrity flags are observations of the real
    database and are not derivable from the model). *)
Theorem c37_model_agreement_implies_property : forall c,
  match c with CQuery _ _ _ _ _ _ _ _ _ => False | _ => True end ->
  check_case c = true -> holds_on c = true.
Proof. exact check_implies_holds. Qed.
Print Assumptions c37_model_agreement_implies_property.

(** Non-vacuity. *)
Example c37_nonvacuous :
  sanitize [32;40;115;101;108;101;99;116;32;49;41;59;32;10] 7 =                    (* " (select 1); \n" *)
    SOk [40;115;101;108;101;99;116;32;49;41;32;76;73;77;73;84;32;55] /\            (* "(select 1) LIMIT 7" *)
  sanitize [87;73;84;72;32;120;32;108;105;109;105;116;32;32;53] 7 =               (* "WITH x limit  5" *)
    SOk [87;73;84;72;32;120;32;108;105;109;105;116;32;32;53] /\
  option_map f_text (format_rows 4 2 200 [[97]; [98]] [[CInt 1; CText [44;120]]; [CNull; CBlob [1;2;3;4;5;6]]; [CInt 3; CInt 4]] false)
    = Some ([91;50] ++ s_trunc ++ [10; 97;44;98;10; 49;44;32;120;10; 44;1;2;3;4;226;128;166;10]).
Proof. vm_compute. repeat split; reflexivity. Qed.
