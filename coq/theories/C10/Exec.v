(** C10 — case evaluators for the correspondence check. *)
From Akita Require Import Lib.Base Lib.Fifo Lib.Port Lib.Conn C10.Model.

(** One executed schedule on a real DirectConnection with real ports: the port
    capacities (port k is named "P<k+1>", number k+1) and the actions in the order
    they really happened, each with what was observed. *)
Record case := mk_case {
  c_caps : list (Z * Z);
  c_quiescent : bool;     (* the run went on until the engine's event queue was exhausted *)
  c_trace : list (action * obs) }.

Definition oN_eqb := opt_eqb N.eqb.
Definition snap1_eqb (a b : Z * Z * option N * option N) : bool :=
  let '(a1, a2, a3, a4) := a in let '(b1, b2, b3, b4) := b in
  (a1 =? b1)%Z && (a2 =? b2)%Z && oN_eqb a3 b3 && oN_eqb a4 b4.
Definition deliv_eqb (a b : nat * msg) : bool := Nat.eqb (fst a) (fst b) && msg_eqb (snd a) (snd b).

Definition obs_eqb (a b : obs) : bool :=
  match a, b with
  | OSent x, OSent y => Bool.eqb x y
  | OGot x, OGot y => omsg_eqb x y
  | OTick d s n, OTick d' s' n' => list_eqb deliv_eqb d d' && list_eqb snap1_eqb s s' && Nat.eqb n n'
  | OSnap s n, OSnap s' n' => list_eqb snap1_eqb s s' && Nat.eqb n n'
  | OPanic, OPanic => true
  | _, _ => false
  end.

Definition check_case (c : case) : bool :=
  list_eqb obs_eqb (run (new_conn (c_caps c)) (map fst (c_trace c))) (map snd (c_trace c)).

(** ------------------------------------------------------------------ *)
(** The property on the observed trace alone (no connection model). *)
Definition sent_of (t : list (action * obs)) : list msg :=
  flat_map (fun ao => match ao with (ASend _ m, OSent true) => [m] | _ => [] end) t.
Definition deliv_of (t : list (action * obs)) : dlog :=
  flat_map (fun ao => match ao with (ATick, OTick dl _ _) => dl | _ => [] end) t.
Definition got_of (t : list (action * obs)) : list (nat * msg) :=
  flat_map (fun ao => match ao with (ARetrieve i, OGot (Some m)) => [(i, m)] | _ => [] end) t.

Fixpoint is_prefix (a b : list msg) : bool :=
  match a, b with
  | [], _ => true
  | x :: a', y :: b' => msg_eqb x y && is_prefix a' b'
  | _ :: _, [] => false
  end.

Fixpoint nodupN (l : list N) : bool :=
  match l with
  | [] => true
  | x :: r => negb (existsb (N.eqb x) r) && nodupN r
  end.

Definition name_of (i : nat) : N := N.of_nat (S i).
Definition from (i : nat) (m : msg) : bool := (m_src m =? name_of i)%N.
Definition at_port (j : nat) (d : nat * msg) : bool := Nat.eqb (fst d) j.

(** the look at the ports that closes the trace, if any: (NumIncoming, NumOutgoing, ...) per port *)
Definition last_snap (t : list (action * obs)) : option (list (Z * Z * option N * option N)) :=
  match rev t with
  | (_, OTick _ s _) :: _ | (_, OSnap s _) :: _ => Some s
  | _ => None
  end.

(** At quiescence (event queue exhausted) backpressure is the only reason a message may
    still sit in an outgoing buffer: no port's outgoing head (identified by its ID among
    the accepted sends) may have a plugged destination with room in its incoming buffer. *)
Definition no_deliverable_left (caps : list (Z * Z)) (S : list msg)
           (s : list (Z * Z * option N * option N)) : bool :=
  forallb (fun snap =>
    match snap with
    | (_, _, _, Some id) =>
        match find (fun m => (m_id m =? id)%N) S with
        | Some m =>
            let j := (N.to_nat (m_dst m) - 1)%nat in
            if (m_dst m =? 0)%N then true else
            match nth_error s j, nth_error caps j with
            | Some (nj, _, _, _), Some (icap, _) => negb (nj <? icap)%Z   (* destination full *)
            | _, _ => true                                               (* destination not plugged *)
            end
        | None => false                                                  (* a head nobody sent *)
        end
    | _ => true
    end) s.

Definition holds_on (c : case) : bool :=
  let t := c_trace c in
  let n := length (c_caps c) in
  let S := sent_of t in let D := deliv_of t in let G := got_of t in
  (* message identities are unique, so "exactly once" can be read off the logs *)
  nodupN (map m_id S) &&
  (* delivered only to the port named by Dst *)
  forallb (fun d => (m_dst (snd d) =? name_of (fst d))%N && (fst d <? n)%nat) D &&
  (* nothing delivered twice *)
  nodupN (map (fun d => m_id (snd d)) D) &&
  (* per source port: deliveries are, in order and unmodified, a prefix of what it sent *)
  forallb (fun i => is_prefix (filter (from i) (map snd D)) (filter (from i) S)) (seq 0 n) &&
  (* every delivered message comes from one of the plugged ports (so the prefixes cover all deliveries) *)
  forallb (fun d => existsb (fun i => from i (snd d)) (seq 0 n)) D &&
  (* per destination port: the owner retrieves, in order and unmodified, a prefix of what was delivered *)
  forallb (fun j => is_prefix (map snd (filter (at_port j) G)) (map snd (filter (at_port j) D))) (seq 0 n) &&
  (* conservation at the last observation: what is missing is still buffered, nothing more *)
  match last_snap t with
  | None => true
  | Some s =>
      (length s =? n)%nat &&
      (if c_quiescent c then no_deliverable_left (c_caps c) S s else true) &&
      forallb (fun i =>
        match nth_error s i with
        | Some (ni, no, _, _) =>
            (Z.of_nat (length (filter (from i) S)) - Z.of_nat (length (filter (from i) (map snd D))) =? no)%Z &&
            (Z.of_nat (length (filter (at_port i) D)) - Z.of_nat (length (filter (at_port i) G)) =? ni)%Z
        | None => false
        end) (seq 0 n)
  end.

(** Well-formedness the generators guarantee (hypothesis of the link theorem): every
    message is accepted by Send at most once per run and IDs are unique, i.e. the accepted
    sends carry pairwise distinct IDs.  (A refused send is retried, so the same message may
    occur in several [ASend] actions; only the accepted one counts.) *)
Definition wf_case (c : case) : bool := nodupN (map m_id (sent_of (c_trace c))).
