From Akita Require Import Lib.Base Lib.Fifo C10.Model.
Theorem c10_tmp : True. Proof. exact I. Qed.
Print Assumptions c10_tmp.
