(** C10 — direct connections deliver exactly once, intact, in order.  Property
    theorems only.  [tick] is the model of [middleware.Tick] ([Lib/Conn.v]); [step] /
    [final] / [log] run arbitrary schedules of sends, retrievals and ticks (Model.v). *)
From Akita Require Import Lib.Base Lib.Fifo Lib.Port Lib.Conn C10.Model C10.Proofs.

(** One tick, any number of ports, any buffer contents and capacities: the tick is a
    sequence of moves (source port i, destination port j, message m) such that
    - the delivery log is that sequence;
    - every move delivers to the port whose name is the message's Dst;
    - for every port k: its incoming buffer grew by exactly the messages moved to k, in
      order, and its outgoing buffer lost exactly the messages moved from k, in order,
      from the head (head-of-line: a blocked head blocks what is behind it);
    nothing is altered, lost or duplicated; buffers of uninvolved ports are untouched. *)
Theorem c10_tick_transfer : forall c pr c' cb dl, tick c = TickOk pr c' cb dl ->
  exists L : list lmove, dl = dl_of L /\
    (forall i j m, In (i, j, m) L ->
       exists p, nth_error (c_ports c) j = Some p /\ p_name p = m_dst m) /\
    forall k p, nth_error (c_ports c) k = Some p -> exists p', nth_error (c_ports c') k = Some p' /\
      p_name p' = p_name p /\ b_cap (p_in p') = b_cap (p_in p) /\ b_cap (p_out p') = b_cap (p_out p) /\
      content (p_in p') = content (p_in p) ++ map Some (to_k k L) /\
      content (p_out p) = map Some (from_k k L) ++ content (p_out p').
Proof.
  intros c pr c' cb dl H. destruct (tick_moves _ _ _ _ _ H) as (L & HL & ->).
  exists L. split; [reflexivity|].
  split; [intros i j m Hin; exact (proj2 (moves_right_port _ _ _ HL i j m Hin))|].
  destruct (moves_law _ _ _ HL) as (_ & _ & Hlaw). exact Hlaw.
Qed.
Print Assumptions c10_tick_transfer.

(** Progress: when a tick returns, no plugged port is left with a head that could be
    delivered (its destination has room) — a deliverable head is delivered in that very
    tick; backpressure is the only reason a message stays.  The round-robin cursor
    advances by one modulo the number of ports. *)
Theorem c10_progress : forall c pr c' cb dl, tick c = TickOk pr c' cb dl ->
  (forall k, deliv (c_ports c') k = false) /\
  c_next c' = ((c_next c + 1) mod length (c_ports c))%nat /\
  length (c_ports c') = length (c_ports c).
Proof. exact tick_progress. Qed.
Print Assumptions c10_progress.

(** Every schedule (any interleaving of owners sending when CanSend allows, owners
    retrieving — or stalling —, and connection ticks), from any state: the log of
    deliveries can be labelled with source ports so that for every port k, as ORDERED
    lists of unmodified messages,
       stored(out k) ++ sent by k's owner   =  moved away from k ++ still stored(out k)
       stored(in k)  ++ moved to k          =  retrieved by k's owner ++ still stored(in k)
    and every move went to the port named by Dst.  Hence each accepted message is
    delivered at most once, exactly once unless still buffered, unmodified, to its
    destination only; per source port the deliveries are a prefix of the sends in send
    order; per destination the retrievals are a prefix of the deliveries; a full receiver
    only delays. *)
Theorem c10_conservation_order : forall (h : list action) (c : conn),
  exists L : list lmove, deliv_log c h = dl_of L /\
    (forall i j m, In (i, j, m) L ->
       (i < length (c_ports c))%nat /\ exists p, nth_error (c_ports c) j = Some p /\ p_name p = m_dst m) /\
    forall k p, nth_error (c_ports c) k = Some p -> exists p', nth_error (c_ports (final c h)) k = Some p' /\
      p_name p' = p_name p /\
      content (p_out p) ++ log (sent_k k) c h = map Some (from_k k L) ++ content (p_out p') /\
      content (p_in p) ++ map Some (to_k k L) = log (got_k k) c h ++ content (p_in p').
Proof. intros h c. exact (history_law h c). Qed.
Print Assumptions c10_conservation_order.

(** The same from a freshly built connection (all buffers empty): per-source FIFO and
    per-destination FIFO read off directly. *)
Theorem c10_per_source_fifo : forall caps (h : list action),
  exists L : list lmove, deliv_log (new_conn caps) h = dl_of L /\
    forall k p', nth_error (c_ports (final (new_conn caps) h)) k = Some p' ->
      log (sent_k k) (new_conn caps) h = map Some (from_k k L) ++ content (p_out p') /\
      map Some (to_k k L) = log (got_k k) (new_conn caps) h ++ content (p_in p').
Proof.
  intros caps h. destruct (history_law h (new_conn caps)) as (L & Hd & _ & Hl).
  exists L. split; [exact Hd|]. intros k p' Hk'.
  destruct (nth_error (c_ports (new_conn caps)) k) as [p|] eqn:Ek.
  - destruct (Hl k p Ek) as (p'' & Hk'' & _ & Ho & Hi). rewrite Hk' in Hk''. injection Hk'' as <-.
    assert (Hempty : content (p_out p) = [] /\ content (p_in p) = []).
    { unfold new_conn, mk_ports in Ek. cbn [c_ports] in Ek. rewrite nth_error_map in Ek.
      destruct (nth_error (combine (seq 0 (length caps)) caps) k); [|discriminate].
      injection Ek as <-. split; reflexivity. }
    destruct Hempty as [E1 E2]. rewrite E1 in Ho. rewrite E2 in Hi. cbn [app] in *. split; assumption.
  - exfalso. (* the port list never grows *)
    assert (Hlen : forall hh cc, length (c_ports (final cc hh)) = length (c_ports cc)).
    { induction hh as [|a r IH]; intro cc; cbn [final]; [reflexivity|].
      destruct (snd (step cc a)) as [c1|] eqn:Es; [|reflexivity]. rewrite IH.
      destruct (step_law cc a c1 Es) as (L1 & _ & _ & Hl1).
      destruct (Nat.lt_trichotomy (length (c_ports c1)) (length (c_ports cc))) as [Hlt|[He|Hgt]]; [|exact He|].
      - destruct (nth_error (c_ports cc) (length (c_ports c1))) as [q|] eqn:Eq.
        + destruct (Hl1 _ q Eq) as (q' & Hq' & _). apply nth_error_lt in Hq'. lia.
        + apply nth_error_None in Eq. lia.
      - clear - Es Hgt. destruct a as [i m|i| |]; cbn [step] in Es.
        + destruct (nth_error (c_ports cc) i) as [p|]; [|discriminate].
          destruct (can_send p); [destruct (send (Some m) p); try discriminate|];
            injection Es as <-; cbn [c_ports] in Hgt; rewrite ?set_nth_length in Hgt; lia.
        + destruct (nth_error (c_ports cc) i) as [p|]; [|discriminate].
          destruct (retrieve_incoming p); try discriminate.
          injection Es as <-; cbn [c_ports] in Hgt; rewrite ?set_nth_length in Hgt; lia.
        + destruct (tick cc) as [pr c2 cb dl|] eqn:Et; [|discriminate]. injection Es as <-.
          destruct (tick_progress _ _ _ _ _ Et) as (_ & _ & Hl). lia.
        + injection Es as <-. lia. }
    apply nth_error_None in Ek. apply nth_error_lt in Hk'. rewrite Hlen in Hk'. lia.
Qed.
Print Assumptions c10_per_source_fifo.

(** Non-vacuity: three ports, port 1 sends to ports 2 and 3; port 2 is full (capacity 1)
    so the second message for it blocks the one for port 3 behind it (head of line)
    until the receiver drains. *)
Example c10_nonvacuous :
  let m1 := mk_msg 1 1 2 10 in let m2 := mk_msg 2 1 2 20 in let m3 := mk_msg 3 1 3 30 in
  let h := [ASend 0 m1; ASend 0 m2; ASend 0 m3; ATick; ATick; ARetrieve 1; ATick] in
  deliv_log (new_conn [(1, 4); (1, 1); (1, 1)]%Z) h = [(1, m1); (1, m2); (2, m3)]%nat /\
  exists pr c' cb dl, tick (new_conn [(1, 1); (1, 1)]%Z) = TickOk pr c' cb dl.
Proof. split; [vm_compute; reflexivity|]. vm_compute. eauto. Qed.

(** Link between the evaluators of the check.  If the observed run agrees with the model
    ([check_case]: every send outcome, retrieved message, per-tick delivery log, port
    snapshot and cursor), and the run's messages carry pairwise distinct IDs ([wf_case],
    guaranteed by the generators), then the observed trace satisfies the property
    predicate [holds_on]: right port, no duplicate delivery, per-source and
    per-destination prefix order, conservation counts at the closing snapshot.
    The quiescence clause of [holds_on] (engine runs that went on until the event queue
    was exhausted: no outgoing head left whose destination has room) does not follow
    from agreement with the connection model — its schedules are arbitrary — but from
    [final_clean]: the model's final state has no deliverable head, which is exactly
    what C09 proves of an exhausted queue ([c09_quiescent_clean]).  For runs that are
    not marked quiescent [final_clean] is [true] by definition. *)
From Akita Require Import C10.Exec C10.Link.
Theorem c10_model_agreement_implies_property : forall c,
  wf_case c = true -> check_case c = true -> final_clean c = true -> holds_on c = true.
Proof. exact check_implies_holds. Qed.
Print Assumptions c10_model_agreement_implies_property.

Corollary c10_model_agreement_implies_property_nonquiescent : forall c,
  wf_case c = true -> c_quiescent c = false -> check_case c = true -> holds_on c = true.
Proof.
  intros c Hw Hq Hc. apply check_implies_holds; [exact Hw|exact Hc|].
  unfold final_clean. rewrite Hq. reflexivity.
Qed.
Print Assumptions c10_model_agreement_implies_property_nonquiescent.

(** Non-vacuity of the link: a run marked quiescent (send, tick, second send blocked by
    the full receiver, tick with no progress, retrieval, tick, retrieval, snapshot) whose
    observations are the model's: all three hypotheses and the conclusion evaluate to true. *)
Example c10_link_nonvacuous :
  let caps := [(1, 2); (1, 1)]%Z in
  let m1 := mk_msg 1 1 2 10 in let m2 := mk_msg 2 1 2 20 in
  let hh := [ASend 0 m1; ASend 0 m2; ATick; ATick; ARetrieve 1; ATick; ARetrieve 1; ASnap] in
  let c := mk_case caps true (combine hh (run (new_conn caps) hh)) in
  wf_case c = true /\ check_case c = true /\ final_clean c = true /\ holds_on c = true /\
  deliv_of (c_trace c) = [(1%nat, m1); (1%nat, m2)].
Proof. vm_compute. repeat split. Qed.
