(** C10 — link theorem: agreement of the observed run with the model implies the
    property predicate [Exec.holds_on] (the quiescence clause under the hypothesis
    that the final state has no deliverable head, which is C09's conclusion). *)
From Akita Require Import Lib.Base Lib.Fifo Lib.Port Lib.Conn C10.Model C10.Exec C10.Proofs.

(** ------------------------------------------------------------------ *)
(** boolean equalities *)
Lemma list_eqb_true {A} (eqb : A -> A -> bool) (H : forall x y, eqb x y = true -> x = y) :
  forall a b, list_eqb eqb a b = true -> a = b.
Proof.
  induction a as [|x a IH]; intros [|y b] E; cbn [list_eqb] in E; try discriminate; [reflexivity|].
  apply andb_true_iff in E. destruct E as [E1 E2]. rewrite (H _ _ E1), (IH _ E2). reflexivity.
Qed.

Lemma oN_eqb_true a b : oN_eqb a b = true -> a = b.
Proof. destruct a, b; cbn; intro H; try discriminate; [apply N.eqb_eq in H; congruence|reflexivity]. Qed.

Lemma snap1_eqb_true a b : snap1_eqb a b = true -> a = b.
Proof.
  destruct a as [[[a1 a2] a3] a4], b as [[[b1 b2] b3] b4]. cbn [snap1_eqb]. intro H.
  apply andb_true_iff in H. destruct H as [H H4]. apply andb_true_iff in H. destruct H as [H H3].
  apply andb_true_iff in H. destruct H as [H1 H2].
  apply Z.eqb_eq in H1. apply Z.eqb_eq in H2. apply oN_eqb_true in H3. apply oN_eqb_true in H4. congruence.
Qed.

Lemma deliv_eqb_true a b : deliv_eqb a b = true -> a = b.
Proof.
  destruct a as [i m], b as [j m']. unfold deliv_eqb. cbn [fst snd]. intro H.
  apply andb_true_iff in H. destruct H as [H1 H2]. apply Nat.eqb_eq in H1. apply msg_eqb_eq in H2. congruence.
Qed.

Lemma obs_eqb_true a b : obs_eqb a b = true -> a = b.
Proof.
  destruct a, b; cbn [obs_eqb]; intro H; try discriminate; try reflexivity.
  - apply Bool.eqb_prop in H. congruence.
  - apply omsg_eqb_eq in H. congruence.
  - apply andb_true_iff in H. destruct H as [H H3]. apply andb_true_iff in H. destruct H as [H1 H2].
    apply (list_eqb_true _ deliv_eqb_true) in H1. apply (list_eqb_true _ snap1_eqb_true) in H2.
    apply Nat.eqb_eq in H3. congruence.
  - apply andb_true_iff in H. destruct H as [H1 H2].
    apply (list_eqb_true _ snap1_eqb_true) in H1. apply Nat.eqb_eq in H2. congruence.
Qed.

Lemma msg_eqb_refl m : msg_eqb m m = true.
Proof. apply msg_eqb_eq. reflexivity. Qed.

(** ------------------------------------------------------------------ *)
(** list helpers *)
Definition somes (l : list omsg) : list msg :=
  flat_map (fun v => match v with Some m => [m] | None => [] end) l.

Lemma somes_map l : somes (map Some l) = l.
Proof. induction l as [|x l IH]; cbn; [reflexivity|]. unfold somes in IH. rewrite IH. reflexivity. Qed.

Lemma somes_app a b : somes (a ++ b) = somes a ++ somes b.
Proof. unfold somes. apply flat_map_app. Qed.

Lemma map_some_inj (a b : list msg) : map Some a = map Some b -> a = b.
Proof. intro H. rewrite <- (somes_map a), <- (somes_map b), H. reflexivity. Qed.

Lemma is_prefix_app a r : is_prefix a (a ++ r) = true.
Proof. induction a as [|x a IH]; cbn; [reflexivity|]. rewrite msg_eqb_refl, IH. reflexivity. Qed.

Lemma nodupN_true l : NoDup l -> nodupN l = true.
Proof.
  induction 1 as [|x l Hn Hd IH]; cbn [nodupN]; [reflexivity|]. rewrite IH, andb_true_r.
  apply negb_true_iff. destruct (existsb (N.eqb x) l) eqn:E; [|reflexivity].
  apply existsb_exists in E. destruct E as (y & Hy & Hxy). apply N.eqb_eq in Hxy. subst. contradiction.
Qed.

Lemma nodupN_NoDup l : nodupN l = true -> NoDup l.
Proof.
  induction l as [|x l IH]; cbn [nodupN]; intro H; [constructor|].
  apply andb_true_iff in H. destruct H as [H1 H2]. constructor; [|auto].
  intro Hin. apply negb_true_iff in H1.
  assert (existsb (N.eqb x) l = true) by (apply existsb_exists; exists x; split; [exact Hin|apply N.eqb_refl]).
  congruence.
Qed.

Lemma filter_cons_split {A} (f : A -> bool) l x t : filter f l = x :: t ->
  exists l1 l2, l = l1 ++ x :: l2 /\ filter f l1 = [] /\ filter f l2 = t /\ f x = true.
Proof.
  induction l as [|y l IH]; cbn [filter]; [discriminate|].
  destruct (f y) eqn:E.
  - intro H. injection H as -> <-. exists [], l. auto.
  - intro H. destruct (IH H) as (l1 & l2 & -> & H1 & H2 & H3).
    exists (y :: l1), l2. cbn [app filter]. rewrite E. auto.
Qed.

(** If, class by class (class = source name), X is a prefix of S, and the IDs of S are
    pairwise distinct, then so are the IDs of X. *)
Definition cls (nm : N) (m : msg) : bool := (m_src m =? nm)%N.

Lemma nodup_of_class_prefix (X : list msg) : forall S,
  NoDup (map m_id S) ->
  (forall nm, exists r, filter (cls nm) S = filter (cls nm) X ++ r) ->
  NoDup (map m_id X).
Proof.
  induction X as [|x X IH]; intros S Hnd Hpre; [constructor|].
  destruct (Hpre (m_src x)) as (r & Hr). cbn [filter] in Hr.
  assert (Hcx : cls (m_src x) x = true) by (unfold cls; apply N.eqb_refl). rewrite Hcx in Hr.
  cbn [app] in Hr. destruct (filter_cons_split _ _ _ _ Hr) as (S1 & S2 & -> & H1 & H2 & _).
  assert (Hpre' : forall nm, exists r', filter (cls nm) (S1 ++ S2) = filter (cls nm) X ++ r').
  { intro nm. destruct (Hpre nm) as (r' & Hr'). rewrite filter_app in *. cbn [filter] in Hr'.
    destruct (cls nm x) eqn:E.
    - assert (nm = m_src x) by (unfold cls in E; apply N.eqb_eq in E; congruence). subst nm.
      rewrite H1 in *. cbn [app] in *. injection Hr' as Hr'. exists r'. exact Hr'.
    - exists r'. exact Hr'. }
  rewrite map_app in Hnd. cbn [map] in Hnd. apply NoDup_remove in Hnd. destruct Hnd as [Hnd Hnin].
  rewrite <- map_app in Hnd, Hnin.
  cbn [map]. constructor; [|exact (IH _ Hnd Hpre')].
  intro Hin. apply Hnin. apply in_map_iff in Hin. destruct Hin as (y & Hy1 & Hy2).
  apply in_map_iff. exists y. split; [exact Hy1|].
  destruct (Hpre' (m_src y)) as (r' & Hr').
  assert (Hyf : In y (filter (cls (m_src y)) X)) by (apply filter_In; split; [exact Hy2|unfold cls; apply N.eqb_refl]).
  assert (Hys : In y (filter (cls (m_src y)) (S1 ++ S2))) by (rewrite Hr'; apply in_or_app; left; exact Hyf).
  apply filter_In in Hys. tauto.
Qed.

(** ------------------------------------------------------------------ *)
(** the observed trace and the model's logs *)
Lemma run_cons c a r :
  run c (a :: r) = fst (step c a) :: match snd (step c a) with Some c' => run c' r | None => [] end.
Proof. cbn [run]. destruct (step c a) as [o c']. reflexivity. Qed.

Lemma sent1_eq c a o : fst (step c a) = o ->
  sent1 c a = match a with ASend _ m => match o with OSent true => [m] | _ => [] end | _ => [] end.
Proof. intros <-. destruct a; reflexivity. Qed.
Lemma deliv1_eq c a o : fst (step c a) = o ->
  deliv1 c a = match a with ATick => match o with OTick dl _ _ => dl | _ => [] end | _ => [] end.
Proof. intros <-. destruct a; reflexivity. Qed.
Lemma got1_eq c a o : fst (step c a) = o ->
  got1 c a = match a with ARetrieve i => match o with OGot (Some m) => [(i, m)] | _ => [] end | _ => [] end.
Proof. intros <-. destruct a; reflexivity. Qed.

Lemma logs_of_trace t : forall c, run c (map fst t) = map snd t ->
  sent_of t = sent_log c (map fst t) /\ deliv_of t = deliv_log c (map fst t) /\
  got_of t = got_log c (map fst t).
Proof.
  induction t as [|[a o] t IH]; intros c H; [repeat split; reflexivity|].
  cbn [map fst snd] in H. rewrite run_cons in H. injection H as Ho Ht.
  unfold sent_of, deliv_of, got_of, sent_log, deliv_log, got_log in *. cbn [flat_map map fst snd log].
  rewrite (sent1_eq c a o Ho), (deliv1_eq c a o Ho), (got1_eq c a o Ho).
  destruct (snd (step c a)) as [c1|].
  - destruct (IH c1 Ht) as (I1 & I2 & I3). rewrite I1, I2, I3. repeat split; reflexivity.
  - destruct t; [|discriminate]. cbn [flat_map map log]. repeat split; reflexivity.
Qed.

Lemma last_snap_cons x t : t <> [] -> last_snap (x :: t) = last_snap t.
Proof.
  intro Hne. unfold last_snap. cbn [rev].
  destruct (rev t) as [|y r] eqn:E.
  - exfalso. apply Hne. rewrite <- (rev_involutive t), E. reflexivity.
  - reflexivity.
Qed.

Lemma last_snap_final t : forall c s, run c (map fst t) = map snd t -> last_snap t = Some s ->
  s = map snap1 (c_ports (final c (map fst t))).
Proof.
  induction t as [|[a o] t IH]; intros c s H Hs; [discriminate|].
  cbn [map fst snd] in H. rewrite run_cons in H. injection H as Ho Ht. cbn [map fst final].
  destruct t as [|x t].
  - unfold last_snap in Hs. cbn in Hs. cbn [map final].
    destruct a; cbn [step] in *.
    + destruct (nth_error (c_ports c) i) as [p|]; [|subst; discriminate].
      destruct (can_send p); [destruct (send (Some m) p)|]; subst; discriminate.
    + destruct (nth_error (c_ports c) i) as [p|]; [|subst; discriminate].
      destruct (retrieve_incoming p); subst; discriminate.
    + destruct (tick c) as [pr c' cb dl|]; [|subst; discriminate].
      cbn [fst snd] in *. subst o. injection Hs as <-. reflexivity.
    + cbn [fst snd] in *. subst o. injection Hs as <-. reflexivity.
  - rewrite last_snap_cons in Hs by discriminate.
    destruct (snd (step c a)) as [c1|]; [|discriminate].
    exact (IH c1 s Ht Hs).
Qed.

(** ------------------------------------------------------------------ *)
(** what never changes: names and incoming capacities *)
Definition statics_at (c : conn) (k : nat) (nm : N) (icap : Z) : Prop :=
  exists p, nth_error (c_ports c) k = Some p /\ p_name p = nm /\ b_cap (p_in p) = icap.

Lemma step_static c a c1 k nm icap : snd (step c a) = Some c1 ->
  statics_at c k nm icap -> statics_at c1 k nm icap.
Proof.
  intros Es (p & Hk & Hn & Hc). unfold statics_at. destruct a as [i m|i| |]; cbn [step] in Es.
  - destruct (nth_error (c_ports c) i) as [pi|] eqn:Ei; [|discriminate].
    destruct (can_send pi).
    + destruct (send (Some m) pi) as [u pi' ns| |] eqn:E; try discriminate. injection Es as <-. cbn [c_ports].
      destruct (send_spec _ _ _ _ _ E) as (_ & _ & _ & _ & Hin & Hname & _).
      rewrite (nth_set_nth_cases i k pi' _ p Hk). destruct (Nat.eqb i k) eqn:Eik.
      * apply Nat.eqb_eq in Eik. subst k. rewrite Ei in Hk. injection Hk as <-.
        exists pi'. rewrite Hin, Hname. auto.
      * exists p. auto.
    + injection Es as <-. exists p. auto.
  - destruct (nth_error (c_ports c) i) as [pi|] eqn:Ei; [|discriminate].
    destruct (retrieve_incoming pi) as [v pi' ns| |] eqn:E; try discriminate. injection Es as <-. cbn [c_ports].
    destruct (retrieve_incoming_spec _ _ _ _ E) as (_ & Hcap & _ & Hname & _).
    rewrite (nth_set_nth_cases i k pi' _ p Hk). destruct (Nat.eqb i k) eqn:Eik.
    + apply Nat.eqb_eq in Eik. subst k. rewrite Ei in Hk. injection Hk as <-.
      exists pi'. rewrite Hcap, Hname. auto.
    + exists p. auto.
  - destruct (tick c) as [pr c' cb dl|] eqn:Et; [|discriminate]. injection Es as <-.
    destruct (tick_moves _ _ _ _ _ Et) as (L & HL & _).
    destruct (moves_law _ _ _ HL) as (_ & _ & Hlaw).
    destruct (Hlaw k p Hk) as (p' & Hk' & Hn' & Hc' & _). exists p'. split; [exact Hk'|]. split; congruence.
  - injection Es as <-. exists p. auto.
Qed.

Lemma final_static h : forall c k nm icap, statics_at c k nm icap -> statics_at (final c h) k nm icap.
Proof.
  induction h as [|a r IH]; intros c k nm icap H; cbn [final]; [exact H|].
  destruct (snd (step c a)) as [c1|] eqn:Es; [|exact H].
  apply IH. eapply step_static; eauto.
Qed.

Lemma new_conn_nth caps k : (k < length caps)%nat ->
  exists p, nth_error (c_ports (new_conn caps)) k = Some p /\ p_name p = name_of k /\
            b_cap (p_in p) = fst (nth k caps (0%Z, 0%Z)) /\ content (p_in p) = [] /\ content (p_out p) = [].
Proof.
  intro Hk. unfold new_conn, mk_ports. cbn [c_ports]. rewrite nth_error_map.
  assert (E : nth_error (combine (seq 0 (length caps)) caps) k = Some (k, nth k caps (0%Z, 0%Z))).
  { rewrite <- (Nat.add_0_l k) at 2. generalize 0%nat as b. revert k Hk.
    induction caps as [|x caps IH]; intros k Hk b; cbn [length] in *; [lia|].
    cbn [seq combine]. destruct k as [|k]; cbn [nth_error nth].
    - rewrite Nat.add_0_r. reflexivity.
    - rewrite (IH k ltac:(lia) (S b)). f_equal. f_equal. lia. }
  rewrite E. cbn [option_map fst snd]. eexists. split; [reflexivity|]. repeat split; reflexivity.
Qed.

Lemma new_conn_length caps : length (c_ports (new_conn caps)) = length caps.
Proof.
  unfold new_conn, mk_ports. cbn [c_ports]. rewrite map_length, combine_length, seq_length. lia.
Qed.

Lemma name_of_inj i k : name_of i = name_of k -> i = k.
Proof. unfold name_of. lia. Qed.

Lemma from_name i k m : from i m = true -> from k m = true -> i = k.
Proof. unfold from. intros H1 H2. apply N.eqb_eq in H1, H2. apply name_of_inj. congruence. Qed.

(** ------------------------------------------------------------------ *)
(** classifying the logs by port *)
Definition named (c : conn) : Prop :=
  forall k p, nth_error (c_ports c) k = Some p -> p_name p = name_of k.

Lemma named_step c a c1 : named c -> snd (step c a) = Some c1 -> named c1.
Proof.
  intros Hn Es k p1 Hk1.
  pose proof (step_length _ _ _ Es) as Hlen. pose proof (nth_error_lt _ _ _ Hk1) as Hlt.
  destruct (nth_error (c_ports c) k) as [p|] eqn:Ek; [|apply nth_error_None in Ek; lia].
  destruct (step_static c a c1 k (p_name p) (b_cap (p_in p)) Es) as (p1' & Hk1' & Hn1 & _).
  { exists p. auto. }
  rewrite Hk1 in Hk1'. injection Hk1' as <-. rewrite Hn1. exact (Hn k p Ek).
Qed.

Lemma new_conn_named caps : named (new_conn caps).
Proof.
  intros k p Hk. pose proof (nth_error_lt _ _ _ Hk) as Hlt. rewrite new_conn_length in Hlt.
  destruct (new_conn_nth caps k Hlt) as (p' & Hk' & Hn & _). congruence.
Qed.

Lemma from_eqb i k m : from i m = true -> from k m = Nat.eqb i k.
Proof.
  intro Hi. destruct (Nat.eqb i k) eqn:E.
  - apply Nat.eqb_eq in E. subst. exact Hi.
  - destruct (from k m) eqn:Ek; [|reflexivity]. apply Nat.eqb_neq in E. exfalso. apply E. eapply from_name; eauto.
Qed.

Lemma sent_class1 c a k : named c -> map Some (filter (from k) (sent1 c a)) = sent_k k c a.
Proof.
  intro Hn. destruct a as [i m|i| |]; try reflexivity.
  unfold sent1, sent_k, alive. cbn [step].
  destruct (nth_error (c_ports c) i) as [p|] eqn:Ei; [|cbn; rewrite andb_false_r; reflexivity].
  destruct (can_send p) eqn:Ec; [|cbn; rewrite andb_false_r; reflexivity].
  destruct (send (Some m) p) as [u p' ns| |] eqn:Es; cbn [fst snd]; try (cbn; rewrite andb_false_r; reflexivity).
  destruct (send_spec _ _ _ _ _ Es) as (Hv & _).
  assert (Hfi : from i m = true).
  { unfold from. unfold msg_valid in Hv. apply andb_true_iff in Hv. destruct Hv as [Hv _].
    apply andb_true_iff in Hv. destruct Hv as [Hv _]. rewrite (Hn i p Ei) in Hv. exact Hv. }
  cbn [filter]. rewrite (from_eqb i k m Hfi), !andb_true_r. destruct (Nat.eqb i k); reflexivity.
Qed.

Lemma sent_class h : forall c k, named c ->
  map Some (filter (from k) (sent_log c h)) = log (sent_k k) c h.
Proof.
  induction h as [|a r IH]; intros c k Hn; [reflexivity|].
  unfold sent_log in *. cbn [log]. rewrite filter_app, map_app, (sent_class1 c a k Hn). f_equal.
  destruct (snd (step c a)) as [c1|] eqn:Es; [|reflexivity].
  apply IH. eapply named_step; eauto.
Qed.

Lemma retrieve_incoming_total p : exists v p' ns, retrieve_incoming p = Ok v p' ns.
Proof.
  unfold retrieve_incoming. destruct (size (p_in p) =? 0)%Z; [eauto|].
  destruct (pop nilmsg (p_in p)) as [v i']. eauto.
Qed.

Lemma got_class1 c a k : somes (got_k k c a) = map snd (filter (at_port k) (got1 c a)).
Proof.
  destruct a as [i m|i| |]; try reflexivity.
  unfold got1, got_k, alive. cbn [step].
  destruct (nth_error (c_ports c) i) as [p|] eqn:Ei; [|cbn; rewrite andb_false_r; reflexivity].
  destruct (retrieve_incoming_total p) as (v & p' & ns & Er). rewrite Er. cbn [fst snd].
  destruct (retrieve_incoming_spec _ _ _ _ Er) as (_ & _ & _ & _ & _ & Hv & _).
  rewrite andb_true_r. unfold at_port.
  destruct (content (p_in p)) as [|x rest]; cbn [hd firstn] in *; subst v.
  - destruct (Nat.eqb i k); reflexivity.
  - destruct x as [mx|]; cbn [filter fst]; destruct (Nat.eqb i k); reflexivity.
Qed.

Lemma got_class h : forall c k,
  somes (log (got_k k) c h) = map snd (filter (at_port k) (got_log c h)).
Proof.
  induction h as [|a r IH]; intros c k; [reflexivity|].
  unfold got_log in *. cbn [log]. rewrite somes_app, filter_app, map_app, (got_class1 c a k). f_equal.
  destruct (snd (step c a)) as [c1|]; [apply IH|reflexivity].
Qed.

Lemma from_k_class L k : (forall i j m, In (i, j, m) L -> from i m = true) ->
  filter (from k) (map snd (dl_of L)) = from_k k L.
Proof.
  induction L as [|[[i j] m] L IH]; intro H; [reflexivity|].
  unfold dl_of, from_k in *. cbn [map filter fst snd].
  rewrite (from_eqb i k m (H i j m (or_introl eq_refl))).
  rewrite IH by (intros; apply (H i0 j0 m0); right; assumption).
  destruct (Nat.eqb i k); reflexivity.
Qed.

Lemma to_k_class L k : map snd (filter (at_port k) (dl_of L)) = to_k k L.
Proof.
  induction L as [|[[i j] m] L IH]; [reflexivity|].
  change ((i, j, m) :: L) with ([(i, j, m)] ++ L). rewrite dl_of_app, to_k_app, filter_app, map_app, IH.
  f_equal. unfold dl_of, to_k, at_port. cbn [map filter fst snd]. destruct (Nat.eqb j k); reflexivity.
Qed.

(** ------------------------------------------------------------------ *)
(** more helpers *)
Lemma nodup_map_inj {A B} (f : A -> B) l x y :
  NoDup (map f l) -> In x l -> In y l -> f x = f y -> x = y.
Proof.
  induction l as [|z l IH]; [intros _ []|]. cbn [map]. intro H. inversion H as [|? ? Hnin Hnd]; subst.
  intros [->|Hx] [->|Hy] E; auto.
  - exfalso. apply Hnin. rewrite E. apply in_map. exact Hy.
  - exfalso. apply Hnin. rewrite <- E. apply in_map. exact Hx.
Qed.

Lemma fpf_none ps : forall b nm, (forall p, In p ps -> p_name p <> nm) -> find_port_from b nm ps = None.
Proof.
  induction ps as [|p r IH]; intros b nm H; [reflexivity|]. cbn [find_port_from].
  rewrite IH by (intros q Hq; apply H; right; exact Hq).
  destruct (p_name p =? nm)%N eqn:E; [|reflexivity]. apply N.eqb_eq in E. exfalso. apply (H p); [left; reflexivity|exact E].
Qed.

Lemma fpf_named ps : forall b j,
  (forall k p, nth_error ps k = Some p -> p_name p = name_of (b + k)) -> (j < length ps)%nat ->
  find_port_from b (name_of (b + j)) ps = Some (b + j)%nat.
Proof.
  induction ps as [|p r IH]; intros b j Hn Hj; cbn [length] in Hj; [lia|]. cbn [find_port_from].
  destruct j as [|j].
  - rewrite fpf_none.
    + rewrite (Hn 0%nat p eq_refl), N.eqb_refl. rewrite Nat.add_0_r. reflexivity.
    + intros q Hq E. apply In_nth_error in Hq. destruct Hq as (k & Hk).
      pose proof (Hn (S k) q Hk) as Hq'. rewrite Hq' in E. apply name_of_inj in E. lia.
  - replace (b + S j)%nat with (S b + j)%nat by lia. rewrite IH; [reflexivity| |lia].
    intros k q Hk. rewrite (Hn (S k) q Hk). f_equal. lia.
Qed.

Lemma find_port_named c j : named c -> (j < length (c_ports c))%nat ->
  find_port (name_of j) (c_ports c) = Some j.
Proof. intros Hn Hj. unfold find_port. exact (fpf_named (c_ports c) 0 j Hn Hj). Qed.

Lemma named_final h : forall c, named c -> named (final c h).
Proof.
  induction h as [|a r IH]; intros c Hn; cbn [final]; [exact Hn|].
  destruct (snd (step c a)) as [c1|] eqn:Es; [|exact Hn]. apply IH. eapply named_step; eauto.
Qed.

(** the model's final state has no deliverable head (for runs that went to quiescence):
    this is what C09 establishes ([c09_quiescent_clean]); it is not a consequence of
    agreement with the connection model alone, whose schedules are arbitrary *)
Definition final_clean (c : case) : bool :=
  if c_quiescent c then
    forallb (fun k => negb (deliv (c_ports (final (new_conn (c_caps c)) (map fst (c_trace c)))) k))
            (seq 0 (length (c_caps c)))
  else true.

(** ------------------------------------------------------------------ *)
Section Main.
Variable caps : list (Z * Z).
Variable t : list (action * obs).
Let c0 := new_conn caps.
Let h := map fst t.
Let n := length caps.
Hypothesis Hrun : run c0 h = map snd t.
Hypothesis Hwf : NoDup (map m_id (sent_of t)).

Let S := sent_of t.
Let D := deliv_of t.
Let G := got_of t.

Lemma HS : S = sent_log c0 h. Proof. exact (proj1 (logs_of_trace t c0 Hrun)). Qed.
Lemma HDl : D = deliv_log c0 h. Proof. exact (proj1 (proj2 (logs_of_trace t c0 Hrun))). Qed.
Lemma HG : G = got_log c0 h. Proof. exact (proj2 (proj2 (logs_of_trace t c0 Hrun))). Qed.

Lemma S_nodup : NoDup (map m_id S).
Proof. exact Hwf. Qed.

(** everything the conservation law gives, for the fresh connection *)
Lemma laws : exists L : list lmove,
  D = dl_of L /\
  (forall i j m, In (i, j, m) L -> (i < n)%nat /\ (j < n)%nat /\ m_dst m = name_of j /\ from i m = true) /\
  forall k, (k < n)%nat -> exists pf r1 l1 l2,
    nth_error (c_ports (final c0 h)) k = Some pf /\
    filter (from k) S = from_k k L ++ r1 /\ content (p_out pf) = map Some r1 /\
    to_k k L = l1 ++ l2 /\ map snd (filter (at_port k) G) = l1 /\ content (p_in pf) = map Some l2.
Proof.
  destruct (history_law h c0) as (L & Hd & Hr & Hl).
  assert (Hper : forall k, (k < n)%nat -> exists pf r1 l1 l2,
    nth_error (c_ports (final c0 h)) k = Some pf /\
    filter (from k) S = from_k k L ++ r1 /\ content (p_out pf) = map Some r1 /\
    to_k k L = l1 ++ l2 /\ map snd (filter (at_port k) G) = l1 /\ content (p_in pf) = map Some l2).
  { intros k Hk. destruct (new_conn_nth caps k Hk) as (p0 & Hp0 & _ & _ & Hin0 & Hout0).
    destruct (Hl k p0 Hp0) as (pf & Hpf & _ & E1 & E2). rewrite Hout0 in E1. rewrite Hin0 in E2. cbn [app] in *.
    rewrite <- (sent_class h c0 k (new_conn_named caps)), <- HS in E1.
    apply map_eq_app in E1. destruct E1 as (a1 & r1 & Ea & E1a & E1b).
    apply map_some_inj in E1a. subst a1.
    apply map_eq_app in E2. destruct E2 as (l1 & l2 & El & E2a & E2b).
    exists pf, r1, l1, l2. split; [exact Hpf|]. split; [exact Ea|]. split; [symmetry; exact E1b|].
    split; [exact El|]. split; [|symmetry; exact E2b].
    rewrite HG, <- (got_class h c0 k), <- E2a. apply somes_map. }
  exists L. split; [rewrite HDl; exact Hd|]. split; [|exact Hper].
  intros i j m Hin. destruct (Hr i j m Hin) as (Hi & p & Hp & Hn).
  unfold c0 in Hi. rewrite new_conn_length in Hi.
  pose proof (nth_error_lt _ _ _ Hp) as Hj. unfold c0 in Hj. rewrite new_conn_length in Hj.
  split; [exact Hi|]. split; [exact Hj|]. split.
  - rewrite <- Hn. exact (new_conn_named caps j p Hp).
  - destruct (Hper i Hi) as (pf & r1 & _ & _ & _ & Ef & _).
    assert (Hm : In m (from_k i L)).
    { unfold from_k. apply in_map_iff. exists (i, j, m). split; [reflexivity|].
      apply filter_In. split; [exact Hin|]. cbn. apply Nat.eqb_refl. }
    assert (Hm' : In m (filter (from i) S)) by (rewrite Ef; apply in_or_app; left; exact Hm).
    apply filter_In in Hm'. tauto.
Qed.

Lemma filter_none {A} (f : A -> bool) l : (forall x, In x l -> f x = false) -> filter f l = [].
Proof.
  induction l as [|x l IH]; intro H; [reflexivity|]. cbn [filter].
  rewrite (H x (or_introl eq_refl)). apply IH. intros y Hy. apply H. right. exact Hy.
Qed.

Lemma safety_part :
  nodupN (map m_id S) = true /\
  forallb (fun d => (m_dst (snd d) =? name_of (fst d))%N && (fst d <? n)%nat) D = true /\
  nodupN (map (fun d => m_id (snd d)) D) = true /\
  forallb (fun i => is_prefix (filter (from i) (map snd D)) (filter (from i) S)) (seq 0 n) = true /\
  forallb (fun d => existsb (fun i => from i (snd d)) (seq 0 n)) D = true /\
  forallb (fun j => is_prefix (map snd (filter (at_port j) G)) (map snd (filter (at_port j) D))) (seq 0 n) = true.
Proof.
  destruct laws as (L & HD & HL & Hper).
  assert (HLf : forall i j m, In (i, j, m) L -> from i m = true) by (intros i j m Hin; apply (HL i j m Hin)).
  assert (Hfk : forall k, filter (from k) (map snd D) = from_k k L).
  { intro k. rewrite HD. apply from_k_class. exact HLf. }
  assert (HDin : forall d, In d D -> exists i, In (i, fst d, snd d) L).
  { intros [j m] Hd. rewrite HD in Hd. unfold dl_of in Hd.
    apply in_map_iff in Hd. destruct Hd as ([[i j'] m'] & E & Hin). cbn in E. injection E as <- <-.
    exists i. exact Hin. }
  split; [apply nodupN_true; exact S_nodup|].
  split.
  { apply forallb_forall. intros d Hd. destruct (HDin d Hd) as (i & Hin).
    destruct (HL _ _ _ Hin) as (_ & Hj & Hdst & _).
    apply andb_true_iff. split; [apply N.eqb_eq; exact Hdst|apply Nat.ltb_lt; exact Hj]. }
  split.
  { apply nodupN_true. rewrite <- (map_map snd m_id).
    apply (nodup_of_class_prefix (map snd D) S S_nodup). intro nm.
    destruct (in_dec N.eq_dec nm (map name_of (seq 0 n))) as [Hin|Hnin].
    - apply in_map_iff in Hin. destruct Hin as (k & <- & Hk). apply in_seq in Hk.
      destruct (Hper k ltac:(lia)) as (pf & r1 & _ & _ & _ & Ef & _).
      exists r1. change (cls (name_of k)) with (from k). rewrite Hfk. exact Ef.
    - exists (filter (cls nm) S). rewrite (filter_none (cls nm) (map snd D)); [reflexivity|].
      intros x Hx. apply in_map_iff in Hx. destruct Hx as (d & <- & Hd).
      destruct (HDin d Hd) as (i & Hin). destruct (HL _ _ _ Hin) as (Hi & _ & _ & Hf).
      destruct (cls nm (snd d)) eqn:E; [|reflexivity]. exfalso. apply Hnin.
      unfold cls in E. unfold from in Hf. apply N.eqb_eq in E, Hf.
      apply in_map_iff. exists i. split; [congruence|apply in_seq; lia]. }
  split.
  { apply forallb_forall. intros k Hk. apply in_seq in Hk.
    destruct (Hper k ltac:(lia)) as (pf & r1 & _ & _ & _ & Ef & _).
    rewrite Hfk, Ef. apply is_prefix_app. }
  split.
  { apply forallb_forall. intros d Hd. destruct (HDin d Hd) as (i & Hin).
    destruct (HL _ _ _ Hin) as (Hi & _ & _ & Hf).
    apply existsb_exists. exists i. split; [apply in_seq; lia|exact Hf]. }
  apply forallb_forall. intros k Hk. apply in_seq in Hk.
  destruct (Hper k ltac:(lia)) as (pf & r1 & l1 & l2 & _ & _ & _ & El & Eg & _).
  rewrite Eg, HD, to_k_class, El. apply is_prefix_app.
Qed.

Lemma snap_of_final s : last_snap t = Some s -> s = map snap1 (c_ports (final c0 h)).
Proof. intro Hs. exact (last_snap_final t c0 s Hrun Hs). Qed.

Lemma final_len : length (c_ports (final c0 h)) = n.
Proof. rewrite final_length. apply new_conn_length. Qed.

Lemma counts_part s : last_snap t = Some s ->
  (length s =? n)%nat = true /\
  forallb (fun i =>
    match nth_error s i with
    | Some (ni, no, _, _) =>
        (Z.of_nat (length (filter (from i) S)) - Z.of_nat (length (filter (from i) (map snd D))) =? no)%Z &&
        (Z.of_nat (length (filter (at_port i) D)) - Z.of_nat (length (filter (at_port i) G)) =? ni)%Z
    | None => false
    end) (seq 0 n) = true.
Proof.
  intro Hs. rewrite (snap_of_final s Hs). split; [rewrite map_length, final_len; apply Nat.eqb_refl|].
  destruct laws as (L & HD & HL & Hper).
  assert (HLf : forall i j m, In (i, j, m) L -> from i m = true) by (intros i j m Hin; apply (HL i j m Hin)).
  apply forallb_forall. intros k Hk. apply in_seq in Hk.
  destruct (Hper k ltac:(lia)) as (pf & r1 & l1 & l2 & Hpf & Ef & Eo & El & Eg & Ei).
  rewrite nth_error_map, Hpf. cbn [option_map snap1]. unfold num_incoming, num_outgoing, size.
  rewrite Eo, Ei, !map_length.
  assert (E1 : filter (from k) (map snd D) = from_k k L) by (rewrite HD; apply from_k_class; exact HLf).
  rewrite E1, Ef, app_length.
  assert (E2 : length (filter (at_port k) D) = length (l1 ++ l2)).
  { rewrite <- El, <- (to_k_class L k), <- HD, map_length. reflexivity. }
  assert (E3 : length (filter (at_port k) G) = length l1) by (rewrite <- Eg, map_length; reflexivity).
  rewrite E2, E3, app_length. apply andb_true_iff. split; lia.
Qed.

Lemma quiescent_part s : last_snap t = Some s ->
  (forall k, (k < n)%nat -> deliv (c_ports (final c0 h)) k = false) ->
  no_deliverable_left caps S s = true.
Proof.
  intros Hs Hclean. rewrite (snap_of_final s Hs). unfold no_deliverable_left.
  destruct laws as (L & HD & HL & Hper).
  apply forallb_forall. intros sn Hsn. apply in_map_iff in Hsn. destruct Hsn as (p & <- & Hp).
  apply In_nth_error in Hp. destruct Hp as (i & Hpi).
  pose proof (nth_error_lt _ _ _ Hpi) as Hi. rewrite final_len in Hi.
  destruct (Hper i Hi) as (pf & r1 & _ & _ & Hpf & Ef & Eo & _).
  rewrite Hpi in Hpf. injection Hpf as <-.
  change (snap1 p) with (num_incoming p, num_outgoing p, head_id (peek_incoming p), head_id (peek_outgoing p)).
  cbn beta iota. destruct (peek_outgoing p) as [m'|] eqn:Epk; cbn [head_id option_map]; [|reflexivity].
  assert (Hm'S : In m' S).
  { assert (Hr : In m' r1).
    { unfold peek_outgoing, peek, nilmsg in Epk. rewrite Eo in Epk.
      destruct r1 as [|x r1]; cbn in Epk; [discriminate|]. injection Epk as ->. left. reflexivity. }
    assert (H' : In m' (filter (from i) S)) by (rewrite Ef; apply in_or_app; right; exact Hr).
    apply filter_In in H'. tauto. }
  destruct (find (fun m => (m_id m =? m_id m')%N) S) as [m|] eqn:Efd.
  2:{ exfalso. pose proof (find_none _ _ Efd m' Hm'S) as Hn. cbn in Hn. rewrite N.eqb_refl in Hn. discriminate. }
  apply find_some in Efd. destruct Efd as [HmS Hid]. apply N.eqb_eq in Hid.
  assert (m = m') by (eapply (nodup_map_inj m_id S); eauto using S_nodup). subst m.
  destruct (m_dst m' =? 0)%N eqn:Ez; [reflexivity|]. apply N.eqb_neq in Ez.
  set (j := (N.to_nat (m_dst m') - 1)%nat).
  destruct (nth_error caps j) as [[icap ocap]|] eqn:Ec.
  2:{ destruct (nth_error (map snap1 (c_ports (final c0 h))) j) as [[[[a b] c'] d]|]; reflexivity. }
  pose proof (nth_error_lt _ _ _ Ec) as Hj. fold n in Hj.
  destruct (Hper j Hj) as (pfj & _ & _ & _ & Hpfj & _).
  rewrite nth_error_map, Hpfj. cbn [option_map snap1].
  assert (Hname : name_of j = m_dst m') by (unfold name_of, j; lia).
  pose proof (Hclean i Hi) as Hd. unfold deliv, dest_ok in Hd. rewrite Hpi, Epk in Hd.
  rewrite <- Hname in Hd.
  rewrite (find_port_named (final c0 h) j) in Hd;
    [|apply named_final; apply new_conn_named|rewrite final_len; exact Hj].
  rewrite Hpfj in Hd.
  destruct (new_conn_nth caps j Hj) as (p0 & Hp0 & Hn0 & Hc0 & _).
  destruct (final_static h c0 j (name_of j) (fst (nth j caps (0%Z, 0%Z)))) as (pj' & Hpj' & _ & Hcap).
  { exists p0. auto. }
  rewrite Hpfj in Hpj'. injection Hpj' as <-.
  rewrite (nth_error_nth _ _ (0%Z, 0%Z) Ec) in Hcap. cbn [fst] in Hcap.
  unfold can_deliver, can_push in Hd. rewrite Hcap in Hd. unfold num_incoming. rewrite Hd. reflexivity.
Qed.

End Main.

(** ------------------------------------------------------------------ *)
Theorem check_implies_holds c :
  wf_case c = true -> check_case c = true -> final_clean c = true -> holds_on c = true.
Proof.
  intros Hwf Hck Hcl. unfold wf_case in Hwf. apply nodupN_NoDup in Hwf.
  unfold check_case in Hck. apply (list_eqb_true _ obs_eqb_true) in Hck.
  destruct (safety_part (c_caps c) (c_trace c) Hck Hwf) as (A1 & A2 & A3 & A4 & A5 & A6).
  unfold holds_on. rewrite A1, A2, A3, A4, A5, A6. cbn [andb].
  destruct (last_snap (c_trace c)) as [s|] eqn:Es; [|reflexivity].
  destruct (counts_part (c_caps c) (c_trace c) Hck s Es) as (B1 & B2). rewrite B1, B2.
  cbn [andb]. rewrite andb_true_r.
  unfold final_clean in Hcl. destruct (c_quiescent c); [|reflexivity].
  apply (quiescent_part (c_caps c) (c_trace c) Hck Hwf s Es).
  intros k Hk. rewrite forallb_forall in Hcl. specialize (Hcl k). rewrite in_seq in Hcl.
  specialize (Hcl ltac:(lia)). apply negb_true_iff in Hcl. exact Hcl.
Qed.
