(** C10 — a direct connection with its plugged ports as a labelled transition
    system.  Actions: the owner of port [i] sends [m] if CanSend allows it
    ([ASend]), the owner of port [i] retrieves from its incoming buffer
    ([ARetrieve]), the connection ticks ([ATick], [Lib/Conn.v]).  The theorems
    quantify over ALL action sequences: every send pattern, every drain pattern
    (receivers that stall simply issue no [ARetrieve]), every placement of ticks —
    a superset of what any engine schedule can produce. *)
From Akita Require Import Lib.Base Lib.Fifo Lib.Port Lib.Conn.

Inductive action :=
| ASend (i : nat) (m : msg)
| ARetrieve (i : nat)
| ATick
| ASnap.      (* observer only: look at every port from outside, change nothing *)

(** what one port shows from outside: NumIncoming, NumOutgoing, IDs of the two heads *)
Definition head_id (m : omsg) : option N := option_map m_id m.
Definition snap1 (p : port) : Z * Z * option N * option N :=
  (num_incoming p, num_outgoing p, head_id (peek_incoming p), head_id (peek_outgoing p)).
Definition snapshot (c : conn) := (map snap1 (c_ports c), c_next c).

Inductive obs :=
| OSent (accepted : bool)                 (* CanSend was true and Send was called / CanSend was false *)
| OGot (m : omsg)                         (* what RetrieveIncoming returned *)
| OTick (dl : dlog)                       (* deliveries made by this tick, in order: (port index, message) *)
        (snap : list (Z * Z * option N * option N)) (next : nat)
| OSnap (snap : list (Z * Z * option N * option N)) (next : nat)
| OPanic.

(** [None] = the action panicked (history ends). *)
Definition step (c : conn) (a : action) : obs * option conn :=
  match a with
  | ASend i m =>
      match nth_error (c_ports c) i with
      | None => (OPanic, None)
      | Some p =>
          if can_send p then
            match send (Some m) p with
            | Ok _ p' _ => (OSent true, Some (mk_conn (set_nth i p' (c_ports c)) (c_next c)))
            | _ => (OPanic, None)
            end
          else (OSent false, Some c)
      end
  | ARetrieve i =>
      match nth_error (c_ports c) i with
      | None => (OPanic, None)
      | Some p =>
          match retrieve_incoming p with
          | Ok v p' _ => (OGot v, Some (mk_conn (set_nth i p' (c_ports c)) (c_next c)))
          | _ => (OPanic, None)
          end
      end
  | ATick =>
      match tick c with
      | TickOk _ c' _ dl => (OTick dl (fst (snapshot c')) (snd (snapshot c')), Some c')
      | TickPanic => (OPanic, None)
      end
  | ASnap => (OSnap (fst (snapshot c)) (snd (snapshot c)), Some c)
  end.

Fixpoint run (c : conn) (h : list action) : list obs :=
  match h with
  | [] => []
  | a :: r => let '(o, c') := step c a in
              o :: match c' with Some c'' => run c'' r | None => [] end
  end.

(** the state after a history (stays at the last good state when an action panics) *)
Fixpoint final (c : conn) (h : list action) : conn :=
  match h with
  | [] => c
  | a :: r => match snd (step c a) with Some c' => final c' r | None => c end
  end.

(** NewPort for port number k+1 with the given capacities, owner present *)
Definition mk_ports (caps : list (Z * Z)) : list port :=
  map (fun kc => new_port (N.of_nat (S (fst kc))) true (fst (snd kc)) (snd (snd kc)))
      (combine (seq 0 (length caps)) caps).
Definition new_conn (caps : list (Z * Z)) : conn := mk_conn (mk_ports caps) 0.

(** ------------------------------------------------------------------ *)
(** Ghost logs of a history, computed along the model run: accepted sends,
    deliveries, retrievals — used to state the theorems. *)
Definition sent1 (c : conn) (a : action) : list msg :=
  match a, fst (step c a) with ASend _ m, OSent true => [m] | _, _ => [] end.
Definition deliv1 (c : conn) (a : action) : dlog :=
  match a, fst (step c a) with ATick, OTick dl _ _ => dl | _, _ => [] end.
Definition got1 (c : conn) (a : action) : list (nat * msg) :=
  match a, fst (step c a) with ARetrieve i, OGot (Some m) => [(i, m)] | _, _ => [] end.

Section Logs.
Context {T : Type} (f : conn -> action -> list T).
Fixpoint log (c : conn) (h : list action) : list T :=
  match h with
  | [] => []
  | a :: r => f c a ++ match snd (step c a) with Some c' => log c' r | None => [] end
  end.
End Logs.

Definition sent_log := log sent1.
Definition deliv_log := log deliv1.
Definition got_log := log got1.
