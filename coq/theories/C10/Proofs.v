(** C10 — proofs about the connection tick ([Lib/Conn.v]) and the send / retrieve /
    tick transition system of Model.v. *)
From Akita Require Import Lib.Base Lib.Fifo Lib.Port Lib.Conn C10.Model C10.Exec.

(** ------------------------------------------------------------------ *)
(** set_nth / nth_error *)
Lemma set_nth_length {A} i (x : A) l : length (set_nth i x l) = length l.
Proof. revert i; induction l as [|y r IH]; intros [|i]; cbn; auto. Qed.

Lemma nth_set_nth_eq {A} i (x : A) l : (i < length l)%nat -> nth_error (set_nth i x l) i = Some x.
Proof. revert i; induction l as [|y r IH]; intros [|i] H; cbn in *; try lia; auto. apply IH. lia. Qed.

Lemma nth_set_nth_neq {A} i k (x : A) l : i <> k -> nth_error (set_nth i x l) k = nth_error l k.
Proof. revert i k; induction l as [|y r IH]; intros [|i] [|k] H; cbn; auto; try congruence. Qed.

Lemma nth_error_lt {A} (l : list A) i x : nth_error l i = Some x -> (i < length l)%nat.
Proof. intro H. apply nth_error_Some. congruence. Qed.

(** find_port depends on the names only *)
Lemma find_port_from_names k name ps ps' :
  map p_name ps = map p_name ps' -> find_port_from k name ps = find_port_from k name ps'.
Proof.
  revert k ps'; induction ps as [|p r IH]; intros k [|p' r'] H; cbn in *; try discriminate; [reflexivity|].
  injection H as Hn Hr. rewrite (IH (S k) r' Hr), Hn. reflexivity.
Qed.

Lemma map_set_nth_same {A B} (f : A -> B) i x l y :
  nth_error l i = Some y -> f x = f y -> map f (set_nth i x l) = map f l.
Proof.
  revert i; induction l as [|z r IH]; intros [|i] H E; cbn in *; try discriminate.
  - injection H as ->. rewrite E. reflexivity.
  - rewrite (IH i H E). reflexivity.
Qed.

(** ------------------------------------------------------------------ *)
(** The head of port i's outgoing buffer is deliverable. *)
Definition dest_ok (ps : list port) (m : msg) : bool :=
  match find_port (m_dst m) ps with
  | Some j => match nth_error ps j with Some d => can_deliver d | None => false end
  | None => false
  end.

Definition deliv (ps : list port) (i : nat) : bool :=
  match nth_error ps i with
  | Some p => match peek_outgoing p with Some m => dest_ok ps m | None => false end
  | None => false
  end.

(** One iteration of forwardMany: the head [m] of port i moves to port j. *)
Definition move (i j : nat) (m : msg) (ps ps' : list port) : Prop :=
  exists src dst dst' ns1 src1 v src2 ns2 u,
    nth_error ps i = Some src /\ peek_outgoing src = Some m /\
    find_port (m_dst m) ps = Some j /\ nth_error ps j = Some dst /\ can_deliver dst = true /\
    deliver (Some m) dst = Ok u dst' ns1 /\
    nth_error (set_nth j dst' ps) i = Some src1 /\
    retrieve_outgoing src1 = Ok v src2 ns2 /\
    ps' = set_nth i src2 (set_nth j dst' ps).

(** forwardMany as iterated moves: any relation preserved by a move holds at the end *)
Lemma forward_many_ind (P : list port -> dlog -> Prop) i :
  (forall ps dl j m ps', P ps dl -> move i j m ps ps' -> P ps' (dl ++ [(j, m)])) ->
  forall fuel ps pr cb dl pr' ps' cb' dl',
    P ps dl -> forward_many fuel i ps pr cb dl = FmOk pr' ps' cb' dl' -> P ps' dl'.
Proof.
  intros Hstep. induction fuel as [|f IH]; intros ps pr cb dl pr' ps' cb' dl' HP H; cbn [forward_many] in H; [discriminate|].
  destruct (nth_error ps i) as [src|] eqn:Es; [|discriminate].
  destruct (peek_outgoing src) as [m|] eqn:Ep; [|injection H as _ <- _ <-; exact HP].
  destruct (find_port (m_dst m) ps) as [j|] eqn:Ef; [|discriminate].
  destruct (nth_error ps j) as [dst|] eqn:Ed; [|discriminate].
  destruct (can_deliver dst) eqn:Ec; cbn [negb] in H; [|injection H as _ <- _ <-; exact HP].
  destruct (deliver (Some m) dst) as [u dst' ns1| |] eqn:Edl; try discriminate.
  destruct (nth_error (set_nth j dst' ps) i) as [src1|] eqn:Es1; [|discriminate].
  destruct (retrieve_outgoing src1) as [v src2 ns2| |] eqn:Er; try discriminate.
  eapply IH; [|exact H]. eapply Hstep; [exact HP|].
  exists src, dst, dst', ns1, src1, v, src2, ns2, u. repeat split; assumption.
Qed.

(** facts about a single move *)
Lemma move_facts i j m ps ps' : move i j m ps ps' ->
  length ps' = length ps /\ map p_name ps' = map p_name ps /\
  (forall k p, nth_error ps k = Some p -> exists p', nth_error ps' k = Some p' /\
     p_name p' = p_name p /\ b_cap (p_in p') = b_cap (p_in p) /\ b_cap (p_out p') = b_cap (p_out p) /\
     content (p_in p') = content (p_in p) ++ (if Nat.eqb k j then [Some m] else []) /\
     content (p_out p') = (if Nat.eqb k i then tl (content (p_out p)) else content (p_out p))) /\
  (exists src, nth_error ps i = Some src /\ hd None (content (p_out src)) = Some m).
Proof.
  intros (src & dst & dst' & ns1 & src1 & v & src2 & ns2 & u & Es & Ep & Ef & Ed & Ec & Edl & Es1 & Er & ->).
  destruct (deliver_spec _ _ _ _ _ Edl) as (_ & Hdin & Hdcap & Hdout & Hdname & _).
  destruct (retrieve_outgoing_spec _ _ _ _ Er) as (Hsout & Hscap & Hsin & Hsname & _ & _).
  pose proof (nth_error_lt _ _ _ Es) as Li. pose proof (nth_error_lt _ _ _ Ed) as Lj.
  assert (Hsrc1 : p_name src1 = p_name src /\ p_out src1 = p_out src /\
                  content (p_in src1) = content (p_in src) ++ (if Nat.eqb i j then [Some m] else []) /\
                  b_cap (p_in src1) = b_cap (p_in src)).
  { destruct (Nat.eq_dec j i) as [->|Hne].
    - rewrite nth_set_nth_eq in Es1 by exact Li. injection Es1 as <-.
      rewrite Es in Ed. injection Ed as <-. rewrite Nat.eqb_refl. auto.
    - rewrite nth_set_nth_neq in Es1 by exact Hne. rewrite Es in Es1. injection Es1 as <-.
      replace (Nat.eqb i j) with false by (symmetry; apply Nat.eqb_neq; congruence).
      rewrite app_nil_r. auto. }
  destruct Hsrc1 as (Hn1 & Ho1 & Hi1 & Hc1).
  split; [rewrite !set_nth_length; reflexivity|].
  split.
  { rewrite (map_set_nth_same p_name i src2 _ src1 Es1 Hsname).
    rewrite (map_set_nth_same p_name j dst' _ dst Ed Hdname). reflexivity. }
  split.
  - intros k p Hk.
    destruct (Nat.eq_dec k i) as [->|Hki].
    + rewrite Es in Hk. injection Hk as <-.
      exists src2. rewrite nth_set_nth_eq by (rewrite set_nth_length; exact Li).
      rewrite Nat.eqb_refl. rewrite Hsin, Hsout, Hscap, Ho1, Hi1, Hc1, Hsname, Hn1. repeat split; reflexivity.
    + rewrite nth_set_nth_neq by congruence.
      replace (Nat.eqb k i) with false by (symmetry; apply Nat.eqb_neq; congruence).
      destruct (Nat.eq_dec k j) as [->|Hkj].
      * rewrite Ed in Hk. injection Hk as <-.
        exists dst'. rewrite nth_set_nth_eq by exact Lj. rewrite Nat.eqb_refl.
        rewrite Hdout. repeat split; auto.
      * rewrite nth_set_nth_neq by congruence.
        replace (Nat.eqb k j) with false by (symmetry; apply Nat.eqb_neq; congruence).
        exists p. rewrite app_nil_r. repeat split; auto.
  - exists src. split; [exact Es|]. unfold peek_outgoing, peek, nilmsg in Ep.
    destruct (content (p_out src)); cbn; congruence.
Qed.

Lemma can_deliver_content p p' :
  b_cap (p_in p') = b_cap (p_in p) -> (length (content (p_in p)) <= length (content (p_in p')))%nat ->
  can_deliver p = false -> can_deliver p' = false.
Proof. unfold can_deliver, can_push, size. intros Hc Hl H. rewrite Hc. lia. Qed.

Lemma peek_out_content p p' : content (p_out p') = content (p_out p) -> peek_outgoing p' = peek_outgoing p.
Proof. unfold peek_outgoing, peek. intros ->. reflexivity. Qed.

(** a move out of port i never makes another port's head deliverable *)
Lemma move_keeps_blocked i j m ps ps' k :
  move i j m ps ps' -> k <> i -> deliv ps k = false -> deliv ps' k = false.
Proof.
  intros Hm Hki Hk. destruct (move_facts _ _ _ _ _ Hm) as (Hlen & Hnames & Hports & _).
  unfold deliv in *.
  destruct (nth_error ps k) as [p|] eqn:Ek.
  - destruct (Hports k p Ek) as (p' & Ek' & _ & _ & _ & _ & Hout).
    replace (Nat.eqb k i) with false in Hout by (symmetry; apply Nat.eqb_neq; congruence).
    rewrite Ek', (peek_out_content _ _ Hout).
    destruct (peek_outgoing p) as [mk|]; [|reflexivity].
    unfold dest_ok in *. unfold find_port in *. rewrite (find_port_from_names 0 _ ps' ps Hnames).
    destruct (find_port_from 0 (m_dst mk) ps) as [d|]; [|reflexivity].
    destruct (nth_error ps d) as [pd|] eqn:Ed.
    + destruct (Hports d pd Ed) as (pd' & Ed' & _ & Hcap & _ & Hin & _). rewrite Ed'.
      eapply can_deliver_content; [exact Hcap| |exact Hk]. rewrite Hin, app_length. lia.
    + assert (nth_error ps' d = None) as ->; [|reflexivity].
      apply nth_error_None. rewrite Hlen. apply nth_error_None. exact Ed.
  - assert (nth_error ps' k = None) as ->; [|reflexivity].
    apply nth_error_None. rewrite Hlen. apply nth_error_None. exact Ek.
Qed.

Lemma move_out_len i j m ps ps' : move i j m ps ps' -> S (out_len ps' i) = out_len ps i.
Proof.
  intros Hm. destruct (move_facts _ _ _ _ _ Hm) as (_ & _ & Hports & (src & Es & Hh)).
  unfold out_len. rewrite Es. destruct (Hports i src Es) as (p' & -> & _ & _ & _ & _ & Hout).
  rewrite Nat.eqb_refl in Hout. rewrite Hout.
  destruct (content (p_out src)); cbn in *; [discriminate|reflexivity].
Qed.

(** with enough fuel forwardMany stops only when port i's head is not deliverable
    (and never runs out of fuel) *)
Lemma forward_many_done fuel : forall i ps pr cb dl pr' ps' cb' dl',
  (out_len ps i < fuel)%nat ->
  forward_many fuel i ps pr cb dl = FmOk pr' ps' cb' dl' -> deliv ps' i = false.
Proof.
  induction fuel as [|f IH]; intros i ps pr cb dl pr' ps' cb' dl' Hf H; [lia|].
  cbn [forward_many] in H.
  destruct (nth_error ps i) as [src|] eqn:Es; [|discriminate].
  destruct (peek_outgoing src) as [m|] eqn:Ep.
  2:{ injection H as _ <- _ _. unfold deliv. rewrite Es, Ep. reflexivity. }
  destruct (find_port (m_dst m) ps) as [j|] eqn:Ef; [|discriminate].
  destruct (nth_error ps j) as [dst|] eqn:Ed; [|discriminate].
  destruct (can_deliver dst) eqn:Ec; cbn [negb] in H.
  2:{ injection H as _ <- _ _. unfold deliv, dest_ok. rewrite Es, Ep, Ef, Ed. exact Ec. }
  destruct (deliver (Some m) dst) as [u dst' ns1| |] eqn:Edl; try discriminate.
  destruct (nth_error (set_nth j dst' ps) i) as [src1|] eqn:Es1; [|discriminate].
  destruct (retrieve_outgoing src1) as [v src2 ns2| |] eqn:Er; try discriminate.
  assert (Hm : move i j m ps (set_nth i src2 (set_nth j dst' ps))).
  { exists src, dst, dst', ns1, src1, v, src2, ns2, u. repeat split; assumption. }
  eapply IH; [|exact H]. pose proof (move_out_len _ _ _ _ _ Hm). lia.
Qed.

Lemma forward_port_blocks_i i ps pr cb dl pr' ps' cb' dl' :
  forward_port i ps pr cb dl = FmOk pr' ps' cb' dl' -> deliv ps' i = false.
Proof. unfold forward_port. apply forward_many_done. lia. Qed.

Lemma forward_port_keeps_blocked i k ps pr cb dl pr' ps' cb' dl' :
  forward_port i ps pr cb dl = FmOk pr' ps' cb' dl' -> k <> i -> deliv ps k = false -> deliv ps' k = false.
Proof.
  unfold forward_port. intros H Hki Hk.
  pose proof (forward_many_ind (fun ps _ => deliv ps k = false) i) as Hind.
  eapply Hind; [|exact Hk|exact H].
  intros ps0 dl0 j m ps1 H0 Hm. eapply move_keeps_blocked; eauto.
Qed.

(** after the loop over [todo], no port in [todo] has a deliverable head *)
Lemma tick_loop_blocks todo : forall ps pr cb dl pr' ps' cb' dl' (done : list nat),
  (forall k, In k done -> deliv ps k = false) ->
  tick_loop todo ps pr cb dl = FmOk pr' ps' cb' dl' ->
  forall k, In k (done ++ todo) -> deliv ps' k = false.
Proof.
  induction todo as [|i r IH]; intros ps pr cb dl pr' ps' cb' dl' done Hd H k Hk; cbn [tick_loop] in H.
  - injection H as _ <- _ _. rewrite app_nil_r in Hk. auto.
  - destruct (forward_port i ps pr cb dl) as [pr1 ps1 cb1 dl1|] eqn:Ef; [|discriminate].
    apply (IH ps1 pr1 cb1 dl1 pr' ps' cb' dl' (done ++ [i])); [|exact H|rewrite <- app_assoc; exact Hk].
    intros k' Hk'. apply in_app_iff in Hk'. destruct Hk' as [Hk'|[<-|[]]].
    + destruct (Nat.eq_dec k' i) as [->|Hne]; [eapply forward_port_blocks_i; eauto|].
      eapply forward_port_keeps_blocked; eauto.
    + eapply forward_port_blocks_i; eauto.
Qed.

(** the round-robin order visits every port *)
Lemma order_covers n next k : (k < n)%nat -> In k (order n next).
Proof.
  intro Hk. unfold order. apply in_map_iff.
  exists ((k + n - next mod n) mod n)%nat. split.
  - assert (Hn : n <> 0%nat) by lia.
    pose proof (Nat.mod_upper_bound next n Hn) as Hr.
    rewrite Nat.add_mod_idemp_l by exact Hn.
    rewrite (Nat.div_mod next n Hn) at 2.
    replace (k + n - next mod n + (n * (next / n) + next mod n))%nat with (k + (1 + next / n) * n)%nat by nia.
    rewrite Nat.mod_add by exact Hn. apply Nat.mod_small. exact Hk.
  - apply in_seq. split; [lia|]. cbn. apply Nat.mod_upper_bound. lia.
Qed.

(** Progress: when a tick returns, no plugged port has a deliverable head left — every
    head that could be delivered has been, in this very tick; and the cursor advanced. *)
Lemma tick_progress c pr c' cb dl : tick c = TickOk pr c' cb dl ->
  (forall k, deliv (c_ports c') k = false) /\
  c_next c' = ((c_next c + 1) mod length (c_ports c))%nat /\
  length (c_ports c') = length (c_ports c).
Proof.
  unfold tick. destruct (length (c_ports c)) as [|n0] eqn:En; [discriminate|].
  destruct (tick_loop (order (S n0) (c_next c)) (c_ports c) false [] []) as [pr1 ps1 cb1 dl1|] eqn:El; [|discriminate].
  intro H. injection H as _ <- _ _. cbn [c_ports c_next].
  assert (Hlen : length ps1 = length (c_ports c)).
  { revert El. generalize (order (S n0) (c_next c)) (c_ports c) false (@nil (nat * notif)) (@nil (nat * msg)).
    intros todo. induction todo as [|i r IH]; intros ps pr0 cb0 dl0 H; cbn [tick_loop] in H.
    - injection H as _ <- _ _. reflexivity.
    - destruct (forward_port i ps pr0 cb0 dl0) as [pr2 ps2 cb2 dl2|] eqn:Ef; [|discriminate].
      rewrite (IH _ _ _ _ H). unfold forward_port in Ef.
      pose proof (forward_many_ind (fun ps' _ => length ps' = length ps) i) as Hind.
      eapply Hind; [|reflexivity|exact Ef].
      intros ps3 dl3 j m ps4 H3 Hm. destruct (move_facts _ _ _ _ _ Hm) as (-> & _). exact H3. }
  split; [|split; [reflexivity|congruence]].
  intro k. destruct (Nat.lt_ge_cases k (S n0)) as [Hlt|Hge].
  - eapply (tick_loop_blocks _ _ _ _ _ _ _ _ _ [] (fun _ F => match F with end) El).
    cbn [app]. apply order_covers. exact Hlt.
  - unfold deliv. assert (nth_error ps1 k = None) as ->; [|reflexivity].
    apply nth_error_None. lia.
Qed.

(** ------------------------------------------------------------------ *)
(** A tick is a sequence of moves, labelled (source port, destination port, message). *)
Definition lmove := (nat * nat * msg)%type.
Inductive moves : list port -> list lmove -> list port -> Prop :=
| moves_nil ps : moves ps [] ps
| moves_snoc ps L ps1 i j m ps2 :
    moves ps L ps1 -> move i j m ps1 ps2 -> moves ps (L ++ [(i, j, m)]) ps2.

Definition dl_of (L : list lmove) : dlog := map (fun t => (snd (fst t), snd t)) L.
Definition from_k (k : nat) (L : list lmove) : list msg :=
  map snd (filter (fun t => Nat.eqb (fst (fst t)) k) L).
Definition to_k (k : nat) (L : list lmove) : list msg :=
  map snd (filter (fun t => Nat.eqb (snd (fst t)) k) L).

Lemma dl_of_app a b : dl_of (a ++ b) = dl_of a ++ dl_of b.
Proof. unfold dl_of. apply map_app. Qed.
Lemma from_k_app k a b : from_k k (a ++ b) = from_k k a ++ from_k k b.
Proof. unfold from_k. rewrite filter_app, map_app. reflexivity. Qed.
Lemma to_k_app k a b : to_k k (a ++ b) = to_k k a ++ to_k k b.
Proof. unfold to_k. rewrite filter_app, map_app. reflexivity. Qed.

Definition reaches (ps0 : list port) (dl0 : dlog) (ps : list port) (dl : dlog) : Prop :=
  exists L, moves ps0 L ps /\ dl = dl0 ++ dl_of L.

Lemma forward_port_moves ps0 dl0 i ps pr cb dl pr' ps' cb' dl' :
  reaches ps0 dl0 ps dl -> forward_port i ps pr cb dl = FmOk pr' ps' cb' dl' -> reaches ps0 dl0 ps' dl'.
Proof.
  intros Hr H. unfold forward_port in H.
  pose proof (forward_many_ind (reaches ps0 dl0) i) as Hind.
  eapply Hind; [|exact Hr|exact H].
  intros ps1 dl1 j m ps2 (L & HL & ->) Hm. exists (L ++ [(i, j, m)]). split.
  - econstructor; eauto.
  - rewrite dl_of_app, app_assoc. reflexivity.
Qed.

Lemma tick_loop_moves ps0 dl0 todo : forall ps pr cb dl pr' ps' cb' dl',
  reaches ps0 dl0 ps dl -> tick_loop todo ps pr cb dl = FmOk pr' ps' cb' dl' -> reaches ps0 dl0 ps' dl'.
Proof.
  induction todo as [|i r IH]; intros ps pr cb dl pr' ps' cb' dl' Hr H; cbn [tick_loop] in H.
  - injection H as _ <- _ <-. exact Hr.
  - destruct (forward_port i ps pr cb dl) as [pr1 ps1 cb1 dl1|] eqn:Ef; [|discriminate].
    eapply IH; [|exact H]. eapply forward_port_moves; eauto.
Qed.

Lemma tick_moves c pr c' cb dl : tick c = TickOk pr c' cb dl ->
  exists L, moves (c_ports c) L (c_ports c') /\ dl = dl_of L.
Proof.
  unfold tick. destruct (length (c_ports c)) as [|n0]; [discriminate|].
  destruct (tick_loop (order (S n0) (c_next c)) (c_ports c) false [] []) as [pr1 ps1 cb1 dl1|] eqn:El; [|discriminate].
  intro H. injection H as _ <- _ <-. cbn [c_ports].
  destruct (tick_loop_moves (c_ports c) [] _ _ _ _ _ _ _ _ _ (ex_intro _ [] (conj (moves_nil _) eq_refl)) El)
    as (L & HL & ->). exists L. split; [exact HL|reflexivity].
Qed.

(** The transfer law of a move sequence: nothing lost, duplicated, altered or reordered.
    For every port k: what entered its incoming buffer is, in order, the messages moved
    to k; what left its outgoing buffer is, in order, the messages moved from k — always
    taken from the head. *)
Lemma moves_law ps L ps' : moves ps L ps' ->
  length ps' = length ps /\ map p_name ps' = map p_name ps /\
  forall k p, nth_error ps k = Some p -> exists p', nth_error ps' k = Some p' /\
    p_name p' = p_name p /\ b_cap (p_in p') = b_cap (p_in p) /\ b_cap (p_out p') = b_cap (p_out p) /\
    content (p_in p') = content (p_in p) ++ map Some (to_k k L) /\
    content (p_out p) = map Some (from_k k L) ++ content (p_out p').
Proof.
  induction 1 as [ps|ps L ps1 i j m ps2 HL IH Hm].
  - split; [reflexivity|]. split; [reflexivity|]. intros k p Hk. exists p.
    cbn. rewrite app_nil_r. repeat split; auto.
  - destruct IH as (Hlen & Hnames & IH).
    destruct (move_facts _ _ _ _ _ Hm) as (Hlen2 & Hnames2 & Hports & (src & Es & Hh)).
    split; [congruence|]. split; [congruence|].
    intros k p Hk. destruct (IH k p Hk) as (p1 & Hk1 & Hn1 & Hci1 & Hco1 & Hin1 & Hout1).
    destruct (Hports k p1 Hk1) as (p2 & Hk2 & Hn2 & Hci2 & Hco2 & Hin2 & Hout2).
    exists p2. split; [exact Hk2|]. split; [congruence|]. split; [congruence|]. split; [congruence|].
    rewrite to_k_app, from_k_app, !map_app. unfold to_k at 2, from_k at 2. cbn [filter fst snd].
    split.
    + rewrite Hin2, Hin1, <- app_assoc. destruct (Nat.eqb j k) eqn:E1, (Nat.eqb k j) eqn:E2;
        try reflexivity; apply Nat.eqb_eq in E1 || apply Nat.eqb_eq in E2; subst;
        rewrite Nat.eqb_refl in *; discriminate.
    + rewrite Hout1, <- app_assoc. f_equal.
      destruct (Nat.eqb i k) eqn:E1.
      * apply Nat.eqb_eq in E1. subst k. rewrite Nat.eqb_refl in Hout2.
        rewrite Es in Hk1. injection Hk1 as <-. rewrite Hout2.
        destruct (content (p_out src)); cbn in *; [discriminate|]. congruence.
      * replace (Nat.eqb k i) with false in Hout2 by (symmetry; rewrite Nat.eqb_sym; exact E1).
        rewrite Hout2. reflexivity.
Qed.

(** delivered only to the port named by Dst *)
Lemma find_port_from_spec name ps : forall k j, find_port_from k name ps = Some j ->
  (k <= j)%nat /\ exists p, nth_error ps (j - k) = Some p /\ p_name p = name.
Proof.
  induction ps as [|p r IH]; intros k j H; cbn [find_port_from] in H; [discriminate|].
  destruct (find_port_from (S k) name r) as [j'|] eqn:E.
  - injection H as <-. destruct (IH (S k) j' E) as (Hle & q & Hq & Hn). split; [lia|].
    exists q. split; [|exact Hn]. replace (j' - k)%nat with (S (j' - S k)) by lia. exact Hq.
  - destruct (p_name p =? name)%N eqn:En; [|discriminate]. injection H as <-.
    split; [lia|]. exists p. rewrite Nat.sub_diag. split; [reflexivity|apply N.eqb_eq; exact En].
Qed.

Lemma moves_right_port ps L ps' : moves ps L ps' ->
  forall i j m, In (i, j, m) L ->
    (i < length ps)%nat /\ exists p, nth_error ps j = Some p /\ p_name p = m_dst m.
Proof.
  induction 1 as [ps|ps L ps1 i0 j0 m0 ps2 HL IH Hm]; intros i j m Hin; [destruct Hin|].
  apply in_app_iff in Hin. destruct Hin as [Hin|[Heq|[]]]; [eauto|]. injection Heq as -> -> ->.
  destruct Hm as (src & dst & dst' & ns1 & src1 & v & src2 & ns2 & u & Es & _ & Ef & _).
  destruct (moves_law _ _ _ HL) as (Hlen & Hnames & _).
  split; [rewrite <- Hlen; eapply nth_error_lt; eauto|].
  unfold find_port in Ef. rewrite (find_port_from_names 0 _ ps1 ps Hnames) in Ef.
  destruct (find_port_from_spec _ _ _ _ Ef) as (_ & p & Hp & Hn). rewrite Nat.sub_0_r in Hp. eauto.
Qed.

(** ------------------------------------------------------------------ *)
(** History level: every schedule of sends, retrievals and ticks. *)
Definition alive (c : conn) (a : action) : bool :=
  match snd (step c a) with Some _ => true | None => false end.

(** what port k's owner put into / took out of port k in one action *)
Definition sent_k (k : nat) (c : conn) (a : action) : list omsg :=
  match a with
  | ASend i m => if Nat.eqb i k && alive c a &&
                    match nth_error (c_ports c) i with Some p => can_send p | None => false end
                 then [Some m] else []
  | _ => []
  end.
Definition got_k (k : nat) (c : conn) (a : action) : list omsg :=
  match a with
  | ARetrieve i => if Nat.eqb i k && alive c a
                   then match nth_error (c_ports c) i with Some p => firstn 1 (content (p_in p)) | None => [] end
                   else []
  | _ => []
  end.

Lemma firstn1_tl {A} (l : list A) : l = firstn 1 l ++ tl l.
Proof. destruct l; reflexivity. Qed.

Lemma nth_set_nth_cases {A} i k (x : A) l y : nth_error l k = Some y ->
  nth_error (set_nth i x l) k = Some (if Nat.eqb i k then x else y).
Proof.
  intro H. destruct (Nat.eqb i k) eqn:E.
  - apply Nat.eqb_eq in E. subst. apply nth_set_nth_eq. eapply nth_error_lt; eauto.
  - apply Nat.eqb_neq in E. rewrite nth_set_nth_neq by exact E. exact H.
Qed.

(** one action *)
Lemma step_law c a c' : snd (step c a) = Some c' ->
  exists L, deliv1 c a = dl_of L /\
    (forall i j m, In (i, j, m) L ->
       (i < length (c_ports c))%nat /\ exists p, nth_error (c_ports c) j = Some p /\ p_name p = m_dst m) /\
    forall k p, nth_error (c_ports c) k = Some p -> exists p', nth_error (c_ports c') k = Some p' /\
      p_name p' = p_name p /\
      content (p_out p) ++ sent_k k c a = map Some (from_k k L) ++ content (p_out p') /\
      content (p_in p) ++ map Some (to_k k L) = got_k k c a ++ content (p_in p').
Proof.
  intro H. unfold deliv1, sent_k, got_k, alive. rewrite H.
  destruct a as [i m|i| |]; cbn [step] in *.
  - (* send *)
    exists []. split; [destruct (nth_error (c_ports c) i) as [p|]; [destruct (can_send p); [destruct (send (Some m) p)|]|]; reflexivity|].
    split; [intros ? ? ? []|].
    destruct (nth_error (c_ports c) i) as [pi|] eqn:Ei; [|discriminate].
    destruct (can_send pi) eqn:Ecs.
    + destruct (send (Some m) pi) as [u pi' ns| |] eqn:Es; try discriminate. injection H as <-. cbn [c_ports].
      destruct (send_spec _ _ _ _ _ Es) as (_ & _ & Hout & _ & Hin & Hname & _).
      intros k p Hk. rewrite (nth_set_nth_cases i k pi' _ p Hk).
      destruct (Nat.eqb i k) eqn:E; cbn [andb].
      * apply Nat.eqb_eq in E. subst k. rewrite Ei in Hk. injection Hk as <-.
        exists pi'. split; [reflexivity|]. split; [exact Hname|]. cbn. rewrite Hout, Hin, app_nil_r. auto.
      * exists p. cbn. rewrite !app_nil_r. auto.
    + injection H as <-. intros k p Hk. exists p. cbn. rewrite andb_false_r, !app_nil_r. auto.
  - (* retrieve *)
    exists []. split; [destruct (nth_error (c_ports c) i) as [p|]; [destruct (retrieve_incoming p)|]; reflexivity|].
    split; [intros ? ? ? []|].
    destruct (nth_error (c_ports c) i) as [pi|] eqn:Ei; [|discriminate].
    destruct (retrieve_incoming pi) as [v pi' ns| |] eqn:Er; try discriminate. injection H as <-. cbn [c_ports].
    destruct (retrieve_incoming_spec _ _ _ _ Er) as (Hin & _ & Hout & Hname & _).
    intros k p Hk. rewrite (nth_set_nth_cases i k pi' _ p Hk).
    destruct (Nat.eqb i k) eqn:E; cbn [andb].
    + apply Nat.eqb_eq in E. subst k. rewrite Ei in Hk. injection Hk as <-.
      exists pi'. split; [reflexivity|]. split; [exact Hname|]. cbn. rewrite Hout, Hin, !app_nil_r.
      split; [reflexivity|apply firstn1_tl].
    + exists p. cbn. rewrite !app_nil_r. auto.
  - (* tick *)
    destruct (tick c) as [pr c1 cb dl|] eqn:Et; [|discriminate]. injection H as <-.
    destruct (tick_moves _ _ _ _ _ Et) as (L & HL & ->).
    exists L. split; [reflexivity|]. split; [intros i j m Hin; eapply moves_right_port; eauto|].
    destruct (moves_law _ _ _ HL) as (_ & _ & Hlaw).
    intros k p Hk. destruct (Hlaw k p Hk) as (p' & Hk' & Hn & _ & _ & Hin & Hout).
    exists p'. split; [exact Hk'|]. split; [exact Hn|]. cbn. rewrite app_nil_r. split; [exact Hout|]. rewrite Hin. reflexivity.
  - (* snapshot *)
    injection H as <-. exists []. split; [reflexivity|]. split; [intros ? ? ? []|].
    intros k p Hk. exists p. cbn. rewrite !app_nil_r. auto.
Qed.

Lemma step_dead_logs c a k : snd (step c a) = None -> deliv1 c a = [] /\ sent_k k c a = [] /\ got_k k c a = [].
Proof.
  intro H. unfold deliv1, sent_k, got_k, alive. rewrite H.
  destruct a as [i m|i| |]; cbn [step] in *; repeat split; try reflexivity;
    try (rewrite andb_false_r; reflexivity).
  destruct (tick c); [discriminate|reflexivity].
Qed.

Lemma step_length c a c1 : snd (step c a) = Some c1 -> length (c_ports c1) = length (c_ports c).
Proof.
  intro Es. destruct a as [i m|i| |]; cbn [step] in Es.
  - destruct (nth_error (c_ports c) i) as [p|]; [|discriminate].
    destruct (can_send p); [destruct (send (Some m) p); try discriminate|];
      injection Es as <-; cbn [c_ports]; rewrite ?set_nth_length; reflexivity.
  - destruct (nth_error (c_ports c) i) as [p|]; [|discriminate].
    destruct (retrieve_incoming p); try discriminate.
    injection Es as <-; cbn [c_ports]; rewrite ?set_nth_length; reflexivity.
  - destruct (tick c) as [pr c2 cb dl|] eqn:Et; [|discriminate]. injection Es as <-.
    destruct (tick_progress _ _ _ _ _ Et) as (_ & _ & Hl). exact Hl.
  - injection Es as <-. reflexivity.
Qed.

Lemma final_length h : forall c, length (c_ports (final c h)) = length (c_ports c).
Proof.
  induction h as [|a r IH]; intro c; cbn [final]; [reflexivity|].
  destruct (snd (step c a)) as [c1|] eqn:Es; [|reflexivity].
  rewrite IH. exact (step_length _ _ _ Es).
Qed.

(** all actions of a history: the delivery log can be labelled with source ports so that,
    for every port k, (stored + sent by k's owner) = (moved away from k ++ still stored)
    on the outgoing side and (stored + moved to k) = (retrieved by k's owner ++ still
    stored) on the incoming side — as ordered lists of unmodified messages. *)
Lemma history_law h : forall c,
  exists L, deliv_log c h = dl_of L /\
    (forall i j m, In (i, j, m) L ->
       (i < length (c_ports c))%nat /\ exists p, nth_error (c_ports c) j = Some p /\ p_name p = m_dst m) /\
    forall k p, nth_error (c_ports c) k = Some p -> exists p', nth_error (c_ports (final c h)) k = Some p' /\
      p_name p' = p_name p /\
      content (p_out p) ++ log (sent_k k) c h = map Some (from_k k L) ++ content (p_out p') /\
      content (p_in p) ++ map Some (to_k k L) = log (got_k k) c h ++ content (p_in p').
Proof.
  induction h as [|a r IH]; intro c.
  - exists []. split; [reflexivity|]. split; [intros ? ? ? []|]. intros k p Hk. exists p. cbn. rewrite !app_nil_r. auto.
  - unfold deliv_log. cbn [log final]. destruct (snd (step c a)) as [c1|] eqn:Es.
    + destruct (step_law c a c1 Es) as (L1 & Hd1 & Hr1 & Hl1).
      destruct (IH c1) as (L2 & Hd2 & Hr2 & Hl2).
      exists (L1 ++ L2). split; [rewrite dl_of_app, Hd1; unfold deliv_log in Hd2; rewrite Hd2; reflexivity|].
      split.
      { intros i j m Hin. apply in_app_iff in Hin. destruct Hin as [Hin|Hin]; [eauto|].
        destruct (Hr2 i j m Hin) as (Hlt & p1 & Hp1 & Hn1).
        pose proof (step_length _ _ _ Es) as Hlen.
        split; [lia|].
        destruct (nth_error (c_ports c) j) as [p0|] eqn:E0.
        - destruct (Hl1 j p0 E0) as (p1' & Hp1' & Hn & _). rewrite Hp1 in Hp1'. injection Hp1' as <-.
          exists p0. split; [reflexivity|congruence].
        - exfalso. apply nth_error_None in E0. pose proof (nth_error_lt _ _ _ Hp1). lia. }
      intros k p Hk. destruct (Hl1 k p Hk) as (p1 & Hk1 & Hn1 & Ho1 & Hi1).
      destruct (Hl2 k p1 Hk1) as (p2 & Hk2 & Hn2 & Ho2 & Hi2).
      exists p2. split; [exact Hk2|]. split; [congruence|].
      rewrite from_k_app, to_k_app, !map_app. split.
      * rewrite app_assoc, Ho1, <- !app_assoc, Ho2. reflexivity.
      * rewrite app_assoc, Hi1, <- !app_assoc, Hi2. reflexivity.
    + exists []. destruct (step_dead_logs c a 0 Es) as (Hd & _). rewrite Hd.
      split; [reflexivity|]. split; [intros ? ? ? []|].
      intros k p Hk. exists p. destruct (step_dead_logs c a k Es) as (_ & Hs & Hg). rewrite Hs, Hg.
      cbn. rewrite !app_nil_r. auto.
Qed.
