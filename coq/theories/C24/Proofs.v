(** C24 — lemmas about the interleaved address arithmetic. *)
From Akita Require Import Lib.Base C24.Model.
Local Open Scope N_scope.

(** ------------------------------------------------------------------ *)
(** Arithmetic core: an address a splits uniquely as (k*n + e)*s + j with
    e < n (element), j < s (position in the stripe), k the stripe number. *)

Lemma decomp_unique s n k e j a : e < n -> j < s -> a = (k * n + e) * s + j ->
  a / (s * n) = k /\ a mod (s * n) / s = e /\ a mod s = j.
Proof.
  intros He Hj Ha.
  assert (Hr : e * s + j < s * n) by nia.
  assert (Ha' : a = s * n * k + (e * s + j)) by lia.
  assert (Hq : a / (s * n) = k) by (symmetry; eapply N.div_unique; eauto).
  assert (Hm : a mod (s * n) = e * s + j) by (symmetry; eapply N.mod_unique; eauto).
  split; [exact Hq|]. split.
  - rewrite Hm. symmetry. apply N.div_unique with (r := j); [exact Hj|clear Hq Hm; lia].
  - symmetry. apply N.mod_unique with (q := k * n + e); [exact Hj|clear Hq Hm; lia].
Qed.

Lemma decomp s n a : 1 <= s -> 1 <= n ->
  a = (a / (s * n) * n + a mod (s * n) / s) * s + a mod s /\
  a mod (s * n) / s < n /\ a mod s < s.
Proof.
  intros Hs Hn.
  assert (HR : s * n <> 0) by nia.
  assert (Hs0 : s <> 0) by lia.
  pose proof (N.div_mod a (s * n) HR) as H1.
  pose proof (N.mod_upper_bound a (s * n) HR) as H1b.
  pose proof (N.div_mod (a mod (s * n)) s Hs0) as H2.
  pose proof (N.mod_upper_bound (a mod (s * n)) s Hs0) as H2b.
  set (Q := a / (s * n)) in *. set (r := a mod (s * n)) in *.
  set (D := r / s) in *. set (M := r mod s) in *.
  clearbody Q r D M.
  assert (HD : D < n) by nia.
  assert (Ha : a = (Q * n + D) * s + M) by lia.
  destruct (decomp_unique s n Q D M a HD H2b Ha) as [_ [_ E3]].
  rewrite E3. auto.
Qed.

(** ------------------------------------------------------------------ *)
(** Evaluation of the model under the no-overflow side conditions. *)

Record wf (s n : N) : Prop := mk_wf {
  wf_s : 1 <= s; wf_n : 1 <= n; wf_n63 : n < two63; wf_sn : s * n < two64 }.

Lemma two63_lt_two64 : two63 < two64.
Proof. reflexivity. Qed.

Lemma w64z_of_N n : n < two64 -> w64z (Z.of_N n) = n.
Proof.
  intro H. unfold w64z. rewrite Z.mod_small.
  - apply N2Z.id.
  - unfold two64 in H. lia.
Qed.

Lemma to_int64_small u : u < two63 -> to_int64 u = Z.of_N u.
Proof. intro H. unfold to_int64. apply N.ltb_lt in H. rewrite H. reflexivity. Qed.

Lemma internal_le s n off x : 1 <= s -> 1 <= n -> internal_of s n off x <= x - off.
Proof.
  intros Hs Hn. unfold internal_of, stripe_of, pos_of.
  destruct (decomp s n (x - off) Hs Hn) as [Ha [He Hj]].
  set (k := (x - off) / (s * n)) in *. set (e := (x - off) mod (s * n) / s) in *.
  set (j := (x - off) mod s) in *. clearbody k e j.
  assert (k * s * 1 <= k * s * n) by (apply N.mul_le_mono_l; lia).
  lia.
Qed.

Lemma interleave_eval s n i off x : wf s n -> x < two64 -> off <= x ->
  interleave s (Z.of_N n) i off x =
    if (Z.of_N (element_of s n off x) =? i)%Z then Ok (internal_of s n off x) else Panic.
Proof.
  intros [Hs Hn Hn63 Hsn] Hx Hoff. unfold interleave.
  assert (E1 : (x <? off) = false) by (apply N.ltb_ge; exact Hoff). rewrite E1.
  assert (Hn64 : n < two64) by (pose proof two63_lt_two64; lia).
  rewrite (w64z_of_N n Hn64). rewrite (w64_small (s * n) Hsn).
  assert (E2 : (s * n =? 0) = false) by (apply N.eqb_neq; nia). rewrite E2.
  assert (E3 : (s =? 0) = false) by (apply N.eqb_neq; lia). rewrite E3.
  destruct (decomp s n (x - off) Hs Hn) as [Ha [He Hj]].
  fold (element_of s n off x) in *.
  assert (He63 : element_of s n off x < two63) by (clear Ha Hj; lia).
  rewrite (to_int64_small (element_of s n off x) He63).
  destruct (Z.of_N (element_of s n off x) =? i)%Z eqn:Ei; cbn [negb]; [|reflexivity].
  f_equal.
  pose proof (internal_le s n off x Hs Hn) as Hle.
  unfold internal_of, stripe_of, pos_of in *.
  set (k := (x - off) / (s * n)) in *. set (j := (x - off) mod s) in *. clearbody k j.
  assert (Hks : k * s < two64) by lia.
  rewrite (w64_small (k * s) Hks). apply w64_small. lia.
Qed.

Lemma interleave_below s n i off x : x < off -> interleave s n i off x = Panic.
Proof. intro H. unfold interleave. apply N.ltb_lt in H. rewrite H. reflexivity. Qed.

Lemma interleave_size0 n i off x : interleave 0 n i off x = Panic.
Proof.
  unfold interleave. destruct (x <? off); [reflexivity|].
  replace (0 * w64z n) with 0 by lia. reflexivity.
Qed.

Lemma interleave_count0 s i off x : interleave s 0 i off x = Panic.
Proof.
  unfold interleave. destruct (x <? off); [reflexivity|].
  change (w64z 0) with 0. replace (s * 0) with 0 by lia. reflexivity.
Qed.

(** The two exported entry points run the same body. *)
Lemma convert_address_agrees s n i off x :
  convert_address false off s n i x = convert s n i off x.
Proof. reflexivity. Qed.

Lemma convert_address_identity s n i off x : convert_address true off s n i x = Ok x.
Proof. reflexivity. Qed.

(** ------------------------------------------------------------------ *)
(** Ownership, acceptance, rejection. *)

Lemma ownedb_spec s n i off x : ownedb s n i off x = true <-> owned s n i off x.
Proof.
  unfold ownedb, owned. rewrite andb_true_iff, N.leb_le, N.eqb_eq. tauto.
Qed.

Lemma convert_owned s n i off x : wf s n -> x < two64 -> owned s n i off x ->
  convert s (Z.of_N n) (Z.of_N i) off x = Ok (internal_of s n off x).
Proof.
  intros Hwf Hx [Hoff Hel]. unfold convert. rewrite interleave_eval by assumption.
  unfold element_of. rewrite Hel. rewrite Z.eqb_refl. reflexivity.
Qed.

Lemma convert_foreign s n (i : Z) off x : wf s n -> x < two64 ->
  (x < off \/ Z.of_N (element_of s n off x) <> i) ->
  convert s (Z.of_N n) i off x = Panic.
Proof.
  intros Hwf Hx [Hlt|Hne]; unfold convert.
  - apply interleave_below; exact Hlt.
  - destruct (N.lt_ge_cases x off) as [Hlt|Hge]; [apply interleave_below; exact Hlt|].
    rewrite interleave_eval by assumption.
    apply Z.eqb_neq in Hne. rewrite Hne. reflexivity.
Qed.

Lemma element_lt s n off x : 1 <= s -> 1 <= n -> element_of s n off x < n.
Proof. intros Hs Hn. unfold element_of. apply (decomp s n (x - off) Hs Hn). Qed.

(** An index outside [0, n) owns nothing. *)
Lemma convert_bad_index s n (i : Z) off x : wf s n -> x < two64 ->
  (i < 0 \/ Z.of_N n <= i)%Z -> convert s (Z.of_N n) i off x = Panic.
Proof.
  intros Hwf Hx Hi. apply convert_foreign; auto. right.
  pose proof (element_lt s n off x (wf_s _ _ Hwf) (wf_n _ _ Hwf)). lia.
Qed.

(** accepted <-> owned *)
Lemma convert_ok_iff s n i off x : wf s n -> x < two64 ->
  ((exists v, convert s (Z.of_N n) (Z.of_N i) off x = Ok v) <-> owned s n i off x).
Proof.
  intros Hwf Hx. split.
  - intros [v Hv]. destruct (N.lt_ge_cases x off) as [Hlt|Hge].
    + unfold convert in Hv. rewrite interleave_below in Hv by exact Hlt. discriminate.
    + split; [exact Hge|]. unfold convert in Hv. rewrite interleave_eval in Hv by assumption.
      destruct (Z.of_N (element_of s n off x) =? Z.of_N i)%Z eqn:E; [|discriminate].
      apply Z.eqb_eq in E. apply N2Z.inj in E. exact E.
  - intro Ho. eexists. apply convert_owned; eauto.
Qed.

(** ------------------------------------------------------------------ *)
(** Stripes: contiguity, order, inverse. *)

Lemma stripe_decomp s n i off k j : i < n -> j < s ->
  let x := stripe_base s n i off k + j in
  owned s n i off x /\ stripe_of s n off x = k /\ pos_of s off x = j /\
  internal_of s n off x = k * s + j.
Proof.
  intros Hi Hj x.
  assert (Hoff : off <= x) by (unfold x, stripe_base; lia).
  assert (Ha : x - off = (k * n + i) * s + j) by (unfold x, stripe_base; lia).
  destruct (decomp_unique s n k i j (x - off) Hi Hj Ha) as [E1 [E2 E3]].
  unfold owned, internal_of, stripe_of, pos_of.
  rewrite E1, E2, E3. repeat split; auto.
Qed.

Lemma owned_in_stripe s n i off x : 1 <= s -> 1 <= n -> owned s n i off x ->
  x = stripe_base s n i off (stripe_of s n off x) + pos_of s off x /\ pos_of s off x < s /\ i < n.
Proof.
  intros Hs Hn [Hoff Hel]. unfold stripe_base, stripe_of, pos_of.
  destruct (decomp s n (x - off) Hs Hn) as [Ha [He Hj]].
  rewrite Hel in Ha, He. clear Hel.
  set (k := (x - off) / (s * n)) in *. set (j := (x - off) mod s) in *. clearbody k j.
  split; [lia|]. split; assumption.
Qed.

Lemma internal_monotone s n i off x y : 1 <= s -> 1 <= n ->
  owned s n i off x -> owned s n i off y -> x < y ->
  internal_of s n off x < internal_of s n off y.
Proof.
  intros Hs Hn Hox Hoy Hlt.
  destruct (owned_in_stripe s n i off x Hs Hn Hox) as [Ex [Hjx Hi]].
  destruct (owned_in_stripe s n i off y Hs Hn Hoy) as [Ey [Hjy _]].
  unfold internal_of. unfold stripe_base in Ex, Ey.
  set (kx := stripe_of s n off x) in *. set (ky := stripe_of s n off y) in *.
  set (jx := pos_of s off x) in *. set (jy := pos_of s off y) in *.
  clearbody kx ky jx jy.
  destruct (N.lt_trichotomy kx ky) as [Hk|[Hk|Hk]].
  - assert ((kx + 1) * s <= ky * s) by (apply N.mul_le_mono_r; lia). lia.
  - subst ky. lia.
  - exfalso.
    assert ((ky + 1) * (n * s) <= kx * (n * s)) by (apply N.mul_le_mono_r; lia).
    assert (i * s + jy < n * s) by nia.
    lia.
Qed.

(** Inside one stripe distances are preserved. *)
Lemma internal_same_stripe s n i off x y : 1 <= s -> 1 <= n ->
  owned s n i off x -> owned s n i off y -> x <= y ->
  stripe_of s n off x = stripe_of s n off y ->
  internal_of s n off y - internal_of s n off x = y - x.
Proof.
  intros Hs Hn Hox Hoy Hle Hk.
  destruct (owned_in_stripe s n i off x Hs Hn Hox) as [Ex [Hjx Hi]].
  destruct (owned_in_stripe s n i off y Hs Hn Hoy) as [Ey [Hjy _]].
  unfold internal_of. unfold stripe_base in Ex, Ey. rewrite <- Hk in *.
  set (k := stripe_of s n off x) in *.
  set (jx := pos_of s off x) in *. set (jy := pos_of s off y) in *.
  clearbody k jx jy. lia.
Qed.

Lemma div_mod_of_pair s k j : j < s -> (k * s + j) / s = k /\ (k * s + j) mod s = j.
Proof.
  intro Hj. split; symmetry.
  - apply N.div_unique with (r := j); [exact Hj|lia].
  - apply N.mod_unique with (q := k); [exact Hj|lia].
Qed.

Lemma to_external_internal s n i off x : 1 <= s -> 1 <= n -> owned s n i off x ->
  to_external s n i off (internal_of s n off x) = x.
Proof.
  intros Hs Hn Ho.
  destruct (owned_in_stripe s n i off x Hs Hn Ho) as [Ex [Hj Hi]].
  unfold to_external, internal_of.
  destruct (div_mod_of_pair s (stripe_of s n off x) (pos_of s off x) Hj) as [E1 E2].
  rewrite E1, E2. clear E1 E2. unfold stripe_base in Ex. lia.
Qed.

Lemma internal_to_external s n i off y : 1 <= s -> i < n ->
  owned s n i off (to_external s n i off y) /\
  internal_of s n off (to_external s n i off y) = y.
Proof.
  intros Hs Hi.
  assert (Hs0 : s <> 0) by lia.
  pose proof (N.mod_upper_bound y s Hs0) as Hj.
  destruct (stripe_decomp s n i off (y / s) (y mod s) Hi Hj) as [Ho [_ [_ Hint]]].
  change (stripe_base s n i off (y / s) + y mod s) with (to_external s n i off y) in *.
  split; [exact Ho|]. rewrite Hint. pose proof (N.div_mod y s Hs0) as Hy.
  clear - Hy. set (q := y / s) in *. set (r := y mod s) in *. clearbody q r. lia.
Qed.

(** ------------------------------------------------------------------ *)
(** The port mapper against the converter. *)

Lemma find_eval lim lo hi s n x : 1 <= s -> 1 <= n ->
  (lim = false \/ (lo <= x /\ x < hi)) ->
  find lim lo hi s n x = MIdx (x / s mod n).
Proof.
  intros Hs Hn Hl. unfold find.
  assert (E : lim && ((hi <=? x) || (x <? lo)) = false).
  { destruct Hl as [->|[H1 H2]]; [reflexivity|].
    apply andb_false_iff. right. apply orb_false_iff. split; [apply N.leb_gt|apply N.ltb_ge]; lia. }
  rewrite E.
  assert (E3 : (s =? 0) = false) by (apply N.eqb_neq; lia). rewrite E3.
  assert (E4 : (n =? 0) = false) by (apply N.eqb_neq; lia). rewrite E4. reflexivity.
Qed.

Lemma find_outside lo hi s n x : (hi <= x \/ x < lo) -> find true lo hi s n x = MOther.
Proof.
  intro H. unfold find. cbn [andb].
  assert (E : (hi <=? x) || (x <? lo) = true).
  { apply orb_true_iff. destruct H; [left; apply N.leb_le|right; apply N.ltb_lt]; lia. }
  rewrite E. reflexivity.
Qed.

(** With an offset that is a multiple of the size the mapper names the owning
    element rotated by offset/size. *)
Lemma mapper_rotation s n off x : 1 <= s -> 1 <= n -> off mod s = 0 -> off <= x ->
  x / s mod n = (element_of s n off x + off / s) mod n.
Proof.
  intros Hs Hn Hal Hoff.
  assert (Hs0 : s <> 0) by lia. assert (Hn0 : n <> 0) by lia.
  pose proof (N.div_mod off s Hs0) as Ho. rewrite Hal in Ho.
  destruct (decomp s n (x - off) Hs Hn) as [Ha [He Hj]].
  fold (element_of s n off x) in *.
  set (e := element_of s n off x) in *. set (k := (x - off) / (s * n)) in *.
  set (j := (x - off) mod s) in *. set (q := off / s) in *. clearbody e k j q.
  assert (Hx : x = s * (k * n + e + q) + j) by lia.
  assert (Hd : x / s = k * n + e + q) by (symmetry; apply N.div_unique with (r := j); auto).
  rewrite Hd. replace (k * n + e + q) with (e + q + k * n) by lia.
  apply N.mod_add. exact Hn0.
Qed.

Lemma aligned_parts s n off : 1 <= s -> 1 <= n -> off mod (s * n) = 0 ->
  off mod s = 0 /\ (off / s) mod n = 0.
Proof.
  intros Hs Hn Hal.
  assert (HR : s * n <> 0) by nia.
  pose proof (N.div_mod off (s * n) HR) as Ho. rewrite Hal in Ho.
  set (m := off / (s * n)) in *. clearbody m.
  assert (E1 : off mod s = 0) by (symmetry; apply N.mod_unique with (q := n * m); lia).
  assert (E2 : off / s = n * m) by (symmetry; apply N.div_unique with (r := 0); lia).
  split; [exact E1|]. rewrite E2. rewrite N.mul_comm. apply N.mod_mul. lia.
Qed.

Lemma mapper_aligned s n off x : 1 <= s -> 1 <= n -> (n = 1 \/ off mod (s * n) = 0) ->
  off <= x -> x / s mod n = element_of s n off x.
Proof.
  intros Hs Hn Hc Hoff.
  pose proof (element_lt s n off x Hs Hn) as He.
  destruct Hc as [->|Hal].
  - rewrite N.mod_1_r. lia.
  - destruct (aligned_parts s n off Hs Hn Hal) as [A1 A2].
    rewrite (mapper_rotation s n off x Hs Hn A1 Hoff).
    rewrite <- N.add_mod_idemp_r by lia. rewrite A2. rewrite N.add_0_r.
    apply N.mod_small. exact He.
Qed.

(** Otherwise some address at or just above the offset is sent to an element
    that does not own it. *)
Lemma mapper_misaligned_witness s n off : 1 <= s -> 2 <= n -> off mod (s * n) <> 0 ->
  exists x, off <= x /\ x < off + s /\ x / s mod n <> element_of s n off x.
Proof.
  intros Hs Hn Hal.
  assert (Hs0 : s <> 0) by lia. assert (Hn0 : n <> 0) by lia.
  assert (Hn1 : 1 <= n) by lia.
  destruct (N.eq_dec ((off / s) mod n) 0) as [Hq|Hq].
  - (* offset/size is a multiple of n, so the offset is not a multiple of the size *)
    pose proof (N.div_mod off s Hs0) as Ho.
    pose proof (N.mod_upper_bound off s Hs0) as Hr.
    pose proof (N.div_mod (off / s) n Hn0) as Hd. rewrite Hq in Hd.
    set (r := off mod s) in *. set (q := off / s) in *. set (m := q / n) in *.
    clearbody r q m.
    assert (Hr0 : r <> 0).
    { intro Hr0. apply Hal. symmetry. apply N.mod_unique with (q := m).
      - clear Hal. nia.
      - clear Hal. subst r. nia. }
    clear Hal.
    exists (off + (s - r)). split; [lia|]. split; [lia|].
    assert (Hx : off + (s - r) = s * (q + 1) + 0) by lia.
    assert (Hxd : (off + (s - r)) / s = q + 1) by (symmetry; apply N.div_unique with (r := 0); lia).
    rewrite Hxd. clear Hxd.
    assert (Hm1 : (q + 1) mod n = 1).
    { symmetry. apply N.mod_unique with (q := m); lia. }
    rewrite Hm1. clear Hm1.
    assert (Ha : off + (s - r) - off = (0 * n + 0) * s + (s - r)) by lia.
    destruct (decomp_unique s n 0 0 (s - r) _ ltac:(lia) ltac:(lia) Ha) as [_ [E2 _]].
    unfold element_of. rewrite E2. intro H; discriminate H.
  - exists off. split; [apply N.le_refl|]. split; [clear Hq Hal; lia|].
    assert (Ha : off - off = (0 * n + 0) * s + 0) by (clear Hq Hal; lia).
    destruct (decomp_unique s n 0 0 0 _ ltac:(clear Hq Hal; lia) ltac:(clear Hq Hal; lia) Ha)
      as [_ [E2 _]].
    unfold element_of. rewrite E2. exact Hq.
Qed.

(** The pair (mapper, converter of element i) agrees on every address at or
    above the offset. *)
Definition pair_agrees (s n off : N) : Prop :=
  forall x, off <= x -> x < two64 -> forall i, i < n ->
    (find false 0 0 s n x = MIdx i <->
     exists v, convert s (Z.of_N n) (Z.of_N i) off x = Ok v).

Lemma pair_agrees_if s n off : wf s n -> (n = 1 \/ off mod (s * n) = 0) -> pair_agrees s n off.
Proof.
  intros Hwf Hc x Hoff Hx i Hi.
  rewrite (find_eval false 0 0 s n x (wf_s _ _ Hwf) (wf_n _ _ Hwf)) by (left; reflexivity).
  rewrite (mapper_aligned s n off x (wf_s _ _ Hwf) (wf_n _ _ Hwf) Hc Hoff).
  rewrite (convert_ok_iff s n i off x Hwf Hx). unfold owned, element_of.
  split; [intro H; injection H as H; split; assumption|intros [_ H]; rewrite H; reflexivity].
Qed.

Lemma pair_agrees_only_if s n off : wf s n -> off + s < two64 ->
  pair_agrees s n off -> n = 1 \/ off mod (s * n) = 0.
Proof.
  intros Hwf Hroom Hag.
  destruct (N.eq_dec n 1) as [Hn1|Hn1]; [left; exact Hn1|]. right.
  destruct (N.eq_dec (off mod (s * n)) 0) as [Hal|Hal]; [exact Hal|]. exfalso.
  pose proof (wf_s _ _ Hwf) as Hs. pose proof (wf_n _ _ Hwf) as Hn.
  destruct (mapper_misaligned_witness s n off Hs ltac:(lia) Hal) as [x [Hoff [Hxs Hne]]].
  assert (Hx : x < two64) by (clear Hne Hal; lia).
  pose proof (element_lt s n off x Hs Hn) as He.
  destruct (Hag x Hoff Hx (element_of s n off x) He) as [_ Hback].
  rewrite (find_eval false 0 0 s n x Hs Hn) in Hback by (left; reflexivity).
  assert (Hown : owned s n (element_of s n off x) off x) by (split; [exact Hoff|reflexivity]).
  specialize (Hback (ex_intro _ _ (convert_owned s n _ off x Hwf Hx Hown))).
  injection Hback as Hback. contradiction.
Qed.

(** ------------------------------------------------------------------ *)
(** Regression: the pre-fix body. *)

Lemma monotone_old_refuted :
  let s := 64 in let n := 4%Z in let i := 1%Z in let off := 10 in
  convert_old s n i off 127 = Ok 63 /\ convert_old s n i off 128 = Ok 0 /\
  convert s n i off 127 = Ok 53 /\ convert s n i off 128 = Ok 54 /\
  convert_address_old false off s n i 137 = Ok 9 /\
  convert_old s n i off 74 = Ok 10 /\ convert_old s n i off 330 = Ok 74.
Proof. vm_compute. repeat split; reflexivity. Qed.

(** ------------------------------------------------------------------ *)
(** Injectivity (from strict monotonicity). *)
Lemma internal_injective s n i off x y : 1 <= s -> 1 <= n ->
  owned s n i off x -> owned s n i off y ->
  internal_of s n off x = internal_of s n off y -> x = y.
Proof.
  intros Hs Hn Hox Hoy He.
  destruct (N.lt_trichotomy x y) as [H|[H|H]]; [|exact H|].
  - pose proof (internal_monotone s n i off x y Hs Hn Hox Hoy H). lia.
  - pose proof (internal_monotone s n i off y x Hs Hn Hoy Hox H). lia.
Qed.

(** ------------------------------------------------------------------ *)
(** Banked mapper and bank selector. *)
Lemma banked_find_spec bs len x k :
  banked_find bs len x = MIdx k <-> bs <> 0 /\ k = x / bs /\ k < len.
Proof.
  unfold banked_find. destruct (bs =? 0) eqn:E0.
  - apply N.eqb_eq in E0. split; [discriminate|tauto].
  - apply N.eqb_neq in E0. destruct (x / bs <? len) eqn:El.
    + apply N.ltb_lt in El. split.
      * intro H. injection H as H. subst k. auto.
      * intros [_ [-> _]]. reflexivity.
    + apply N.ltb_ge in El. split; [discriminate|]. intros [_ [-> Hk]]. lia.
Qed.

Lemma select_bank_eval log2 nb addr : log2 < 64 -> 1 <= nb -> nb < two63 ->
  select_bank log2 (Z.of_N nb) addr = Some (Z.of_N (addr / 2 ^ log2 mod nb)) /\
  addr / 2 ^ log2 mod nb < nb.
Proof.
  intros Hl Hn Hn63. unfold select_bank.
  assert (E1 : (log2 <? 64) = true) by (apply N.ltb_lt; exact Hl). rewrite E1.
  assert (Hp : 2 ^ log2 <> 0) by (apply N.pow_nonzero; discriminate).
  assert (E2 : (2 ^ log2 =? 0) = false) by (apply N.eqb_neq; exact Hp). rewrite E2.
  assert (Hn64 : nb < two64) by (pose proof two63_lt_two64; lia).
  rewrite (w64z_of_N nb Hn64).
  assert (E3 : (nb =? 0) = false) by (apply N.eqb_neq; lia). rewrite E3.
  assert (Hm : addr / 2 ^ log2 mod nb < nb) by (apply N.mod_upper_bound; lia).
  split; [|exact Hm]. f_equal. apply to_int64_small.
  set (m := addr / 2 ^ log2 mod nb) in *. clearbody m. lia.
Qed.
