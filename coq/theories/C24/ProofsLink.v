(** C24 — agreement with the model implies the property predicate of Exec.v. *)
From Akita Require Import Lib.Base C24.Model C24.Proofs C24.Exec.
Local Open Scope N_scope.

Lemma outcome_eqb_eq a b : outcome_eqb a b = true <-> a = b.
Proof.
  destruct a as [x|], b as [y|]; cbn [outcome_eqb]; split; intro H;
    try reflexivity; try discriminate.
  - apply N.eqb_eq in H. subst. reflexivity.
  - injection H as H. subst. apply N.eqb_refl.
Qed.

Lemma outcome_eqb_refl a : outcome_eqb a a = true.
Proof. apply outcome_eqb_eq. reflexivity. Qed.

Lemma mres_eqb_eq a b : mres_eqb a b = true <-> a = b.
Proof.
  destruct a as [x| |], b as [y| |]; cbn [mres_eqb]; split; intro H;
    try reflexivity; try discriminate.
  - apply N.eqb_eq in H. subst. reflexivity.
  - injection H as H. subst. apply N.eqb_refl.
Qed.

Lemma mres_eqb_refl a : mres_eqb a a = true.
Proof. apply mres_eqb_eq. reflexivity. Qed.

(** The converter clause holds of the model. *)
Lemma conv_ok_model s n i off x : wf s n -> x < two64 ->
  conv_ok s n i off x (convert s (Z.of_N n) (Z.of_N i) off x) = true.
Proof.
  intros Hwf Hx. unfold conv_ok.
  destruct (ownedb s n i off x) eqn:Ho.
  - apply ownedb_spec in Ho. rewrite (convert_owned s n i off x Hwf Hx Ho).
    apply outcome_eqb_refl.
  - rewrite convert_foreign; [reflexivity|exact Hwf|exact Hx|].
    destruct (N.lt_ge_cases x off) as [Hlt|Hge]; [left; exact Hlt|right].
    intro He. apply N2Z.inj in He.
    assert (Hown : ownedb s n i off x = true).
    { apply ownedb_spec. split; [exact Hge|exact He]. }
    rewrite Hown in Ho. discriminate.
Qed.

Lemma find_eval_b lim lo hi s n x : 1 <= s -> 1 <= n ->
  lim && ((hi <=? x) || (x <? lo)) = false ->
  find lim lo hi s n x = MIdx (x / s mod n).
Proof.
  intros Hs Hn E. unfold find. rewrite E.
  assert (E3 : (s =? 0) = false) by (apply N.eqb_neq; lia). rewrite E3.
  assert (E4 : (n =? 0) = false) by (apply N.eqb_neq; lia). rewrite E4. reflexivity.
Qed.

(** The mapper clause holds of the pair (model converter, model mapper). *)
Lemma mapper_ok_model s n i off lim lo hi x : wf s n -> i < n -> x < two64 ->
  mapper_ok s n i off lim lo hi x (convert s (Z.of_N n) (Z.of_N i) off x)
            (find lim lo hi s n x) = true.
Proof.
  intros Hwf Hi Hx. pose proof (wf_s _ _ Hwf) as Hs. pose proof (wf_n _ _ Hwf) as Hn.
  unfold mapper_ok.
  destruct (lim && ((hi <=? x) || (x <? lo))) eqn:El.
  - unfold find. rewrite El. reflexivity.
  - rewrite (find_eval_b lim lo hi s n x Hs Hn El).
    destruct (off <=? x) eqn:Eo; [|reflexivity]. apply N.leb_le in Eo.
    apply andb_true_iff. split.
    + destruct ((n =? 1) || (off mod (s * n) =? 0)) eqn:Ec; [|reflexivity].
      assert (Hc : n = 1 \/ off mod (s * n) = 0).
      { apply orb_true_iff in Ec. destruct Ec as [E|E]; apply N.eqb_eq in E; auto. }
      rewrite (mapper_aligned s n off x Hs Hn Hc Eo).
      apply andb_true_iff. split; [|apply mres_eqb_refl].
      cbn [mres_eqb].
      destruct (element_of s n off x =? i) eqn:Ee.
      * apply N.eqb_eq in Ee.
        assert (Hown : owned s n i off x) by (split; [exact Eo|exact Ee]).
        rewrite (convert_owned s n i off x Hwf Hx Hown). reflexivity.
      * apply N.eqb_neq in Ee.
        rewrite convert_foreign; [reflexivity|exact Hwf|exact Hx|].
        right. intro He. apply N2Z.inj in He. contradiction.
    + destruct (off mod s =? 0) eqn:Ea; [|reflexivity]. apply N.eqb_eq in Ea.
      rewrite (mapper_rotation s n off x Hs Hn Ea Eo). apply mres_eqb_refl.
Qed.

(** What [cfg_ok] says. *)
Lemma cfg_sn_ok_spec c : cfg_sn_ok c = true ->
  exists n, c_n c = Z.of_N n /\ Z.to_N (c_n c) = n /\ wf (c_s c) n.
Proof.
  unfold cfg_sn_ok. intro H.
  apply andb_true_iff in H. destruct H as [H H4].
  apply andb_true_iff in H. destruct H as [H H3].
  apply andb_true_iff in H. destruct H as [H1 H2].
  apply N.leb_le in H1. apply Z.leb_le in H2. apply Z.ltb_lt in H3. apply N.ltb_lt in H4.
  exists (Z.to_N (c_n c)). split; [rewrite Z2N.id; lia|]. split; [reflexivity|].
  constructor; try assumption; lia.
Qed.

Lemma cfg_ok_spec c : cfg_ok c = true ->
  exists n i, c_n c = Z.of_N n /\ Z.to_N (c_n c) = n /\
              c_i c = Z.of_N i /\ Z.to_N (c_i c) = i /\ wf (c_s c) n /\ i < n.
Proof.
  unfold cfg_ok. intro H.
  apply andb_true_iff in H. destruct H as [H H3].
  apply andb_true_iff in H. destruct H as [H1 H2].
  destruct (cfg_sn_ok_spec c H1) as [n [En [En' Hwf]]].
  apply Z.leb_le in H2. apply Z.ltb_lt in H3.
  exists n, (Z.to_N (c_i c)). repeat split; try assumption; try reflexivity.
  - rewrite Z2N.id; lia.
  - apply (wf_s _ _ Hwf).
  - apply (wf_n _ _ Hwf).
  - apply (wf_n63 _ _ Hwf).
  - apply (wf_sn _ _ Hwf).
  - lia.
Qed.

(** What [check_row] says about the observables used by the property. *)
Lemma check_row_obs c r : check_row c r = true ->
  r_conv r = convert (c_s c) (c_n c) (c_i c) (c_off c) (r_x r) /\
  r_addr r = convert (c_s c) (c_n c) (c_i c) (c_off c) (r_x r) /\
  r_ident r = Ok (r_x r) /\
  r_find r = find (c_lim c) (c_lo c) (c_hi c) (c_ms c) (c_mlen c) (r_x r).
Proof.
  unfold check_row. intro H.
  apply andb_true_iff in H. destruct H as [H _].
  apply andb_true_iff in H. destruct H as [H _].
  apply andb_true_iff in H. destruct H as [H H4].
  apply andb_true_iff in H. destruct H as [H H3].
  apply andb_true_iff in H. destruct H as [H1 H2].
  apply outcome_eqb_eq in H1. apply outcome_eqb_eq in H2. apply outcome_eqb_eq in H3.
  apply mres_eqb_eq in H4.
  repeat split; symmetry; assumption.
Qed.

Lemma opt_eqb_Z_eq a b : opt_eqb Z.eqb a b = true <-> a = b.
Proof.
  destruct a as [x|], b as [y|]; cbn [opt_eqb]; split; intro H;
    try reflexivity; try discriminate.
  - apply Z.eqb_eq in H. subst. reflexivity.
  - injection H as H. subst. apply Z.eqb_refl.
Qed.

Lemma opt_eqb_Z_refl a : opt_eqb Z.eqb a a = true.
Proof. apply opt_eqb_Z_eq. reflexivity. Qed.

Lemma check_row_obs2 c r : check_row c r = true ->
  r_banked r = banked_find (c_bsize c) (c_blen c) (r_x r) /\
  match r_bank r with
  | None => True
  | Some b => b = dispatch_bank (c_kind_empty c) (c_off c) (c_s c) (c_n c) (c_i c)
                                (c_log2 c) (c_nb c) (r_x r)
  end.
Proof.
  unfold check_row. intro H.
  apply andb_true_iff in H. destruct H as [H H6].
  apply andb_true_iff in H. destruct H as [_ H5].
  apply mres_eqb_eq in H5. split; [symmetry; exact H5|].
  destruct (r_bank r) as [b|]; [|exact I].
  apply opt_eqb_Z_eq in H6. symmetry. exact H6.
Qed.

Lemma range_check_passes m nb : m < nb ->
  ((Z.of_N m <? 0)%Z || (Z.of_N nb <=? Z.of_N m)%Z) = false.
Proof.
  intro H. apply orb_false_iff. split; [apply Z.ltb_ge|apply Z.leb_gt]; lia.
Qed.

Lemma dispatch_bank_identity off s n i log2 nb x : log2 < 64 -> 1 <= nb -> nb < two63 ->
  dispatch_bank true off s n i log2 (Z.of_N nb) x = Some (Z.of_N (x / 2 ^ log2 mod nb)).
Proof.
  intros Hl Hn Hn63. unfold dispatch_bank, convert_address.
  destruct (select_bank_eval log2 nb x Hl Hn Hn63) as [E Hm]. rewrite E.
  rewrite (range_check_passes _ _ Hm). reflexivity.
Qed.

Lemma dispatch_bank_interleaved off s n i log2 nb x : wf s n -> x < two64 ->
  log2 < 64 -> 1 <= nb -> nb < two63 ->
  dispatch_bank false off s (Z.of_N n) (Z.of_N i) log2 (Z.of_N nb) x =
    if ownedb s n i off x
    then Some (Z.of_N (internal_of s n off x / 2 ^ log2 mod nb)) else None.
Proof.
  intros Hwf Hx Hl Hn Hn63. unfold dispatch_bank.
  rewrite convert_address_agrees.
  pose proof (conv_ok_model s n i off x Hwf Hx) as Hc. unfold conv_ok in Hc.
  destruct (ownedb s n i off x).
  - apply outcome_eqb_eq in Hc. rewrite Hc.
    destruct (select_bank_eval log2 nb (internal_of s n off x) Hl Hn Hn63) as [E Hm]. rewrite E.
    rewrite (range_check_passes _ _ Hm). reflexivity.
  - apply outcome_eqb_eq in Hc. rewrite Hc. reflexivity.
Qed.

Lemma banked_ok_of_check c r : check_row c r = true -> banked_ok c r = true.
Proof.
  intro Hc. destruct (check_row_obs2 c r Hc) as [E _].
  unfold banked_ok. rewrite E. unfold banked_find. apply mres_eqb_refl.
Qed.

Lemma bank_ok_of_check c r : r_x r < two64 -> check_row c r = true -> bank_ok c r = true.
Proof.
  intros Hx Hc. destruct (check_row_obs2 c r Hc) as [_ E].
  unfold bank_ok. cbv zeta. destruct (r_bank r) as [b|]; [|reflexivity].
  destruct ((c_log2 c <? 64) && (1 <=? c_nb c)%Z && (c_nb c <? Z.of_N two63)%Z) eqn:Hs;
    [|reflexivity].
  apply andb_true_iff in Hs. destruct Hs as [Hs H3].
  apply andb_true_iff in Hs. destruct Hs as [H1 H2].
  apply N.ltb_lt in H1. apply Z.leb_le in H2. apply Z.ltb_lt in H3.
  assert (Enb : c_nb c = Z.of_N (Z.to_N (c_nb c))) by (rewrite Z2N.id; lia).
  assert (Hnb1 : 1 <= Z.to_N (c_nb c)) by lia.
  assert (Hnb2 : Z.to_N (c_nb c) < two63) by lia.
  set (nb := Z.to_N (c_nb c)) in *. clearbody nb. rewrite Enb in E.
  destruct (c_kind_empty c) eqn:Ek.
  - rewrite dispatch_bank_identity in E by assumption. subst b. apply opt_eqb_Z_refl.
  - destruct (cfg_ok c) eqn:Hcfg; [|reflexivity].
    destruct (cfg_ok_spec c Hcfg) as [n [i [En [En' [Ei [Ei' [Hwf Hi]]]]]]].
    rewrite En', Ei'. rewrite En, Ei in E.
    rewrite (dispatch_bank_interleaved (c_off c) (c_s c) n i (c_log2 c) nb (r_x r)) in E
      by assumption.
    destruct (ownedb (c_s c) n i (c_off c) (r_x r)); subst b; apply opt_eqb_Z_refl.
Qed.

Lemma row_ok_of_check c r : r_x r < two64 -> check_row c r = true -> row_ok c r = true.
Proof.
  intros Hx Hc. destruct (check_row_obs c r Hc) as [E1 [E2 [E3 E4]]].
  unfold row_ok. rewrite (banked_ok_of_check c r Hc), (bank_ok_of_check c r Hx Hc).
  cbv zeta. rewrite E1, E2, E3, E4.
  rewrite !outcome_eqb_refl. cbn [andb].
  destruct (cfg_ok c) eqn:Hcfg.
  - destruct (cfg_ok_spec c Hcfg) as [n [i [En [En' [Ei [Ei' [Hwf Hi]]]]]]].
    rewrite En', Ei'. rewrite En, Ei.
    rewrite (conv_ok_model (c_s c) n i (c_off c) (r_x r) Hwf Hx). cbn [andb].
    destruct ((c_ms c =? c_s c) && (c_mlen c =? n)) eqn:Em; [|reflexivity].
    apply andb_true_iff in Em. destruct Em as [Em1 Em2].
    apply N.eqb_eq in Em1. apply N.eqb_eq in Em2. rewrite Em1, Em2.
    apply mapper_ok_model; assumption.
  - destruct ((c_s c =? 0) || (c_n c =? 0)%Z) eqn:Ez.
    + apply orb_true_iff in Ez. destruct Ez as [Ez|Ez].
      * apply N.eqb_eq in Ez. rewrite Ez. unfold convert. rewrite interleave_size0. reflexivity.
      * apply Z.eqb_eq in Ez. rewrite Ez. unfold convert. rewrite interleave_count0. reflexivity.
    + destruct (cfg_sn_ok c) eqn:Hsn; [|reflexivity].
      destruct (cfg_sn_ok_spec c Hsn) as [n [En [_ Hwf]]].
      rewrite En. rewrite convert_bad_index; [reflexivity|exact Hwf|exact Hx|].
      unfold cfg_ok in Hcfg. rewrite Hsn in Hcfg. cbn [andb] in Hcfg.
      apply andb_false_iff in Hcfg. rewrite <- En.
      destruct Hcfg as [H|H]; [left; apply Z.leb_gt in H; lia|right; apply Z.ltb_ge in H; lia].
Qed.

Lemma pair_ok_of_check c r1 r2 : r_x r1 < two64 -> r_x r2 < two64 ->
  check_row c r1 = true -> check_row c r2 = true -> pair_ok c r1 r2 = true.
Proof.
  intros Hx1 Hx2 Hc1 Hc2.
  destruct (check_row_obs c r1 Hc1) as [E1 _]. destruct (check_row_obs c r2 Hc2) as [E2 _].
  unfold pair_ok. destruct (cfg_ok c) eqn:Hcfg; [|reflexivity].
  destruct (cfg_ok_spec c Hcfg) as [n [i [En [En' [Ei [Ei' [Hwf Hi]]]]]]].
  rewrite En'. rewrite En, Ei in E1, E2.
  destruct (r_conv r1) as [v1|] eqn:C1; [|reflexivity].
  destruct (r_conv r2) as [v2|] eqn:C2; [|reflexivity].
  destruct (r_x r1 <? r_x r2) eqn:Elt; [|reflexivity]. apply N.ltb_lt in Elt.
  pose proof (wf_s _ _ Hwf) as Hs. pose proof (wf_n _ _ Hwf) as Hn.
  assert (Ho1 : owned (c_s c) n i (c_off c) (r_x r1)).
  { apply (convert_ok_iff _ _ _ _ _ Hwf Hx1). exists v1. symmetry. exact E1. }
  assert (Ho2 : owned (c_s c) n i (c_off c) (r_x r2)).
  { apply (convert_ok_iff _ _ _ _ _ Hwf Hx2). exists v2. symmetry. exact E2. }
  rewrite (convert_owned _ _ _ _ _ Hwf Hx1 Ho1) in E1. injection E1 as E1.
  rewrite (convert_owned _ _ _ _ _ Hwf Hx2 Ho2) in E2. injection E2 as E2.
  subst v1 v2.
  apply andb_true_iff. split.
  - apply N.ltb_lt. eapply internal_monotone; eauto.
  - destruct (stripe_of (c_s c) n (c_off c) (r_x r1) =? stripe_of (c_s c) n (c_off c) (r_x r2)) eqn:Ek;
      [|reflexivity].
    apply N.eqb_eq in Ek. apply N.eqb_eq.
    eapply internal_same_stripe; eauto. apply N.lt_le_incl. exact Elt.
Qed.

(** Every probed address is a 64-bit value (it is a Go uint64). *)
Definition wf_case (c : case) : Prop := forall r, In r (c_rows c) -> r_x r < two64.

Lemma check_implies_holds c : wf_case c -> check_case c = true -> holds_on c = true.
Proof.
  intros Hwf Hc. unfold check_case in Hc. rewrite forallb_forall in Hc.
  unfold holds_on. apply andb_true_iff. split.
  - apply forallb_forall. intros r Hr. apply row_ok_of_check; auto.
  - apply forallb_forall. intros r1 Hr1. apply forallb_forall. intros r2 Hr2.
    apply pair_ok_of_check; auto.
Qed.
