(** C24 — model of the interleaved address arithmetic of package mem:
      mem/addressconverter.go   InterleavingConverter.ConvertExternalToInternal
      mem/addrconv.go           ConvertAddress
      mem/addresstoportmapper.go InterleavedAddressPortMapper.Find, BankedAddressPortMapper.Find
      mem/simplebankedmemory/comp.go  bankSelectionAddress, selectBank
    [uint64] is [N] with an explicit wrap ([w64]) wherever the Go expression can
    overflow; Go [int] arguments are [Z] and are converted the way Go converts
    them ([uint64(int)] = [w64z], [int(uint64)] = [to_int64]).  Every Go panic
    (log.Panic, integer division by zero, index out of range) is the explicit
    outcome [Panic] / [MPanic] / [None]. *)
From Akita Require Import Lib.Base.
Local Open Scope N_scope.

Inductive outcome := Ok (v : N) | Panic.

Definition two63 : N := 9223372036854775808.

(** Go [int(u)] for a [uint64] u on a 64-bit platform (two's complement reinterpretation). *)
Definition to_int64 (u : N) : Z :=
  if u <? two63 then Z.of_N u else (Z.of_N u - Z.of_N two64)%Z.

(** The body shared by ConvertExternalToInternal and ConvertAddress, as repaired
    by the fix commit:
      if external < offset { log.Panic }
      addr := external - offset
      roundSize := size * uint64(total)               (wraps)
      belongsTo := int(addr % roundSize / size)        (division by zero traps)
      if belongsTo != current { log.Panicf }
      return addr/roundSize*size + addr%size           (wraps) *)
Definition interleave (s : N) (n i : Z) (off x : N) : outcome :=
  if x <? off then Panic
  else
    let a := x - off in
    let rs := w64 (s * w64z n) in
    if rs =? 0 then Panic
    else if s =? 0 then Panic
    else
      let belongs := to_int64 (a mod rs / s) in
      if negb (belongs =? i)%Z then Panic
      else Ok (w64 (w64 (a / rs * s) + a mod s)).

(** The same body before the fix: the last summand was [external % size]. *)
Definition interleave_old (s : N) (n i : Z) (off x : N) : outcome :=
  if x <? off then Panic
  else
    let a := x - off in
    let rs := w64 (s * w64z n) in
    if rs =? 0 then Panic
    else if s =? 0 then Panic
    else
      let belongs := to_int64 (a mod rs / s) in
      if negb (belongs =? i)%Z then Panic
      else Ok (w64 (w64 (a / rs * s) + x mod s)).

(** InterleavingConverter{s, n, i, off}.ConvertExternalToInternal(x). *)
Definition convert (s : N) (n i : Z) (off x : N) : outcome := interleave s n i off x.
Definition convert_old (s : N) (n i : Z) (off x : N) : outcome := interleave_old s n i off x.

(** mem.ConvertAddress(kind, off, s, n, i, x); [kind_empty] is [kind == ""]. *)
Definition convert_address (kind_empty : bool) (off s : N) (n i : Z) (x : N) : outcome :=
  if kind_empty then Ok x else interleave s n i off x.
Definition convert_address_old (kind_empty : bool) (off s : N) (n i : Z) (x : N) : outcome :=
  if kind_empty then Ok x else interleave_old s n i off x.

(** Result of a port mapper: the index of the chosen low module, the module for
    other addresses, or a panic. *)
Inductive mres := MIdx (k : N) | MOther | MPanic.

(** InterleavedAddressPortMapper.Find:
      if Use && (address >= High || address < Low) { return ModuleForOtherAddresses }
      number := address / InterleavingSize % uint64(len(LowModules))
      return LowModules[number] *)
Definition find (lim : bool) (lo hi s len x : N) : mres :=
  if lim && ((hi <=? x) || (x <? lo)) then MOther
  else if s =? 0 then MPanic
  else if len =? 0 then MPanic
  else MIdx (x / s mod len).

(** BankedAddressPortMapper.Find: LowModules[address / BankSize]. *)
Definition banked_find (bank_size len x : N) : mres :=
  if bank_size =? 0 then MPanic
  else if x / bank_size <? len then MIdx (x / bank_size) else MPanic.

(** simplebankedmemory.selectBank: interleaveSize := 1 << log2 (0 when log2 >= 64,
    then panic); int((addr / interleaveSize) % uint64(NumBanks)). *)
Definition select_bank (log2 : N) (num_banks : Z) (addr : N) : option Z :=
  let isz := if log2 <? 64 then 2 ^ log2 else 0 in
  if isz =? 0 then None
  else let nb := w64z num_banks in
       if nb =? 0 then None else Some (to_int64 (addr / isz mod nb)).

(** dispatch: selectBank(spec, bankSelectionAddress(spec, addr)), followed by the
    range check [bankID < 0 || bankID >= NumBanks] (log.Panicf). *)
Definition dispatch_bank (kind_empty : bool) (off s : N) (n i : Z)
           (log2 : N) (num_banks : Z) (x : N) : option Z :=
  match convert_address kind_empty off s n i x with
  | Panic => None
  | Ok a =>
      match select_bank log2 num_banks a with
      | None => None
      | Some b => if (b <? 0)%Z || (num_banks <=? b)%Z then None else Some b
      end
  end.

(** ------------------------------------------------------------------ *)
(** Specification side (plain arithmetic over N, no wrap). *)

(** x is owned by element i. *)
Definition owned (s n i off x : N) : Prop :=
  off <= x /\ (x - off) mod (s * n) / s = i.
Definition ownedb (s n i off x : N) : bool :=
  (off <=? x) && ((x - off) mod (s * n) / s =? i).

(** The element that owns x (x >= off). *)
Definition element_of (s n off x : N) : N := (x - off) mod (s * n) / s.

(** Stripe number and position inside the stripe. *)
Definition stripe_of (s n off x : N) : N := (x - off) / (s * n).
Definition pos_of (s off x : N) : N := (x - off) mod s.

(** Internal address by the specification formula. *)
Definition internal_of (s n off x : N) : N := stripe_of s n off x * s + pos_of s off x.

(** First external address of stripe k of element i. *)
Definition stripe_base (s n i off k : N) : N := off + (k * n + i) * s.

(** Inverse conversion: the external address of internal address y of element i. *)
Definition to_external (s n i off y : N) : N := off + (y / s * n + i) * s + y mod s.
